// C01 harness: Pass::readPass on arbitrary pass bytes (exact-size heap buffer), with the Silf and Face of a base font.
// usage: h_pass <base font.ttf>
// lines:  classmap <wide 0|1> <hex bytes> <cid.x,cid.x,…>     Silf::readClassMap on the bytes (exact-size buffer), then for every probe
//            with cid < numClasses (what the code loader guarantees) or cid > numClasses: getClassGlyph(cid, x) and findClassIndex(cid, x)
//            -> fault | E<code> | ok <numClasses>,<numLinear> O:<digest offsets> D:<digest data> G:<v,…> F:<v,…>
//         collok <passtype>                 -> 0|1   (may a pass of this type carry collision flags in this font?)
//         pass <subtable_base> <passtype> <collok> <hex bytes>       (collok must be what `collok <passtype>` answers)
//            -> fault | E<code> (one of the layout errors) | ranges (E_BADRANGE) | states E<code> (E_BADSTATE, E_BADRULEMAPPING)
//             | rulemap (E_BADRULENUM) | later (refused in the code loader or the rule records)
//             | ok <fields> R:<digest of m_cols> S:<digest of start states, transitions, rule ranges> M:<rule map entries>
//               with <fields> = <maxLoop>,<numRules>,<numStates>,<numTransition>,<numSuccess>,<numColumns>,<numGlyphs>,<minPre>,<maxPre>,<colThreshold>,<reverse>,<collRuns>,<kernColls>
#include <cstdio>
#define private public
#define protected public
#include "inc/Main.h"
#include "inc/Face.h"
#include "inc/Silf.h"
#include "inc/Pass.h"
#include "inc/Rule.h"
#include "inc/Error.h"
#include "inc/GlyphCache.h"
#undef private
#undef protected
#include <graphite2/Font.h>
#include "common.h"

using namespace graphite2;

static std::string digestv(const std::vector<unsigned> &v) {
    unsigned long long h = 7;
    for (size_t i = 0; i < v.size(); ++i) h = (h * 1000003ULL + v[i] + 1) % 4294967291ULL;
    char buf[64]; snprintf(buf, sizeof buf, "%zu:%llu", v.size(), h); return buf;
}

static bool layout_code(int c) {
    switch (c) {
    case E_BADPASSLENGTH: case E_BADNUMTRANS: case E_BADNUMSUCCESS: case E_BADNUMSTATES: case E_NORANGES: case E_BADRULEMAPLEN:
    case E_BADCTXTLENBOUNDS: case E_BADCTXTLENS: case E_BADPASSCCODEPTR: case E_BADRULECCODEPTR: case E_BADCCODELEN:
    case E_BADACTIONCODEPTR: case E_BADEMPTYPASS: case E_BADCOLLISIONPASS: case E_BADNUMCOLUMNS:
        return true;
    default: return false;
    }
}

int main(int argc, char **argv) {
    if (argc < 2) return 2;
    gr_face *gf = gr_make_file_face(argv[1], gr_face_default);
    if (!gf) { fprintf(stderr, "cannot load base font\n"); return 2; }
    Face *face = static_cast<Face *>(gf);
    if (face->m_numSilf < 1) return 2;
    Silf *silf = &face->m_silfs[0];
    std::string line;
    char buf[256];
    while (std::getline(std::cin, line)) {
        auto w = words(line);
        g_faults = 0;
        std::string out = "bad-op";
        std::vector<uint8_t> b;
        if (w.size() == 4 && w[0] == "classmap" && parse_hex(w[2], b)) {
            bool wide = atoi(w[1].c_str()) != 0;
            Silf *sf = new Silf();
            Exact e(b);
            Error err;
            size_t r = sf->readClassMap(e.p, b.size(), wide ? 0x00040000 : 0x00030000, err);
            if (g_faults) out = "fault";
            else if (r == 0xFFFFFFFF || err) { snprintf(buf, sizeof buf, "E%u", (unsigned)err.error()); out = buf; }
            else {
                std::vector<unsigned> offs, data;
                for (unsigned k = 0; k <= sf->m_nClass; ++k) offs.push_back(sf->m_classOffsets[k]);
                for (unsigned k = 0; k < r; ++k) data.push_back(sf->m_classData[k]);
                snprintf(buf, sizeof buf, "ok %u,%u", (unsigned)sf->m_nClass, (unsigned)sf->m_nLinear);
                out = std::string(buf) + " O:" + digestv(offs) + " D:" + digestv(data);
                std::string g = " G:", f = " F:";
                std::stringstream ps(w[3]); std::string pr; bool first = true;
                while (std::getline(ps, pr, ',')) {
                    size_t dot = pr.find('.');
                    if (dot == std::string::npos) continue;
                    unsigned cid = atoi(pr.substr(0, dot).c_str()), x = atoi(pr.substr(dot + 1).c_str());
                    if (cid == sf->m_nClass) continue;            // the one class number the look-ups do not guard (the code loader refuses it)
                    snprintf(buf, sizeof buf, "%s%u", first ? "" : ",", (unsigned)sf->getClassGlyph(cid, x)); g += buf;
                    snprintf(buf, sizeof buf, "%s%u", first ? "" : ",", (unsigned)sf->findClassIndex(cid, x)); f += buf;
                    first = false;
                }
                if (g_faults) out = "fault"; else out += g + f;
            }
            delete sf;
        } else if (w.size() == 2 && w[0] == "collok") {
            int pt = atoi(w[1].c_str());
            bool ok = pt >= PASS_TYPE_POSITIONING && silf->aCollision() && face->glyphs().hasBoxes() && (silf->flags() & 0x20);
            out = ok ? "1" : "0";
        } else if (w.size() == 5 && w[0] == "pass" && parse_hex(w[4], b)) {
            size_t base = strtoul(w[1].c_str(), 0, 10);
            int pt = atoi(w[2].c_str());
            bool cok = pt >= PASS_TYPE_POSITIONING && silf->aCollision() && face->glyphs().hasBoxes() && (silf->flags() & 0x20);
            if ((atoi(w[3].c_str()) != 0) != cok) { puts("bad-op"); fflush(stdout); continue; }
            Pass *p = new Pass();
            p->init(silf);
            Exact e(b);
            Error err;
            bool ok = p->readPass(e.p, b.size(), base, *face, (passtype)pt, 0x00050000, err);
            if (g_faults) out = "fault";
            else if (!ok) {
                int c = err.error();
                if (layout_code(c)) { snprintf(buf, sizeof buf, "E%d", c); out = buf; }
                else if (c == E_BADRANGE) out = "ranges";
                else if (c == E_BADSTATE || c == E_BADRULEMAPPING) { snprintf(buf, sizeof buf, "states E%d", c); out = buf; }
                else if (c == E_BADRULENUM) out = "rulemap";
                else out = "later";
            } else {
                snprintf(buf, sizeof buf, "ok %u,%u,%u,%u,%u,%u,%u,%u,%u,%u,%u,%u,%u", (unsigned)p->m_iMaxLoop, (unsigned)p->m_numRules, (unsigned)p->m_numStates,
                         (unsigned)p->m_numTransition, (unsigned)p->m_numSuccess, (unsigned)p->m_numColumns, (unsigned)p->m_numGlyphs,
                         (unsigned)p->m_minPreCtxt, (unsigned)p->m_maxPreCtxt, (unsigned)p->m_colThreshold, (unsigned)p->m_isReverseDir,
                         (unsigned)p->m_numCollRuns, (unsigned)p->m_kernColls);
                out = buf;
                if (p->m_numRules) {
                    std::vector<unsigned> cols, st;
                    for (unsigned g = 0; g < p->m_numGlyphs; ++g) cols.push_back(p->m_cols[g]);
                    for (int k = 0; k <= p->m_maxPreCtxt - p->m_minPreCtxt; ++k) st.push_back(p->m_startStates[k]);
                    for (unsigned k = 0; k < (unsigned)p->m_numTransition * p->m_numColumns; ++k) st.push_back(p->m_transitions[k]);
                    for (unsigned k = p->m_successStart; k < p->m_numStates; ++k) {
                        st.push_back((unsigned)(p->m_states[k].rules - p->m_ruleMap));
                        st.push_back((unsigned)(p->m_states[k].rules_end - p->m_states[k].rules));
                    }
                    // the number of rule-map entries is not kept: it is the end of the last success state's range in the table
                    out += " R:" + digestv(cols) + " S:" + digestv(st);
                } else out += " R:- S:-";
            }
            delete p;
        }
        puts(out.c_str());
        fflush(stdout);
    }
    gr_face_destroy(gf);
    return 0;
}

// C01 harness: Pass::readPass on arbitrary pass bytes (exact-size heap buffer), with the Silf and Face of a base font.
// usage: h_pass <base font.ttf>
// lines:  classmap <wide 0|1> <hex bytes> <cid.x,cid.x,…>     Silf::readClassMap on the bytes (exact-size buffer), then for every probe
//            with cid < numClasses (what the code loader guarantees) or cid > numClasses: getClassGlyph(cid, x) and findClassIndex(cid, x)
//            -> fault | E<code> | ok <numClasses>,<numLinear> O:<digest offsets> D:<digest data> G:<v,…> F:<v,…>
//         faceinfo                          -> <numGlyphs> <numAttrs> <hasBoxes 0|1> <numFeatures> of the base font
//         silf <version> <numGlyphs> <numAttrs> <hasBoxes> <numFeatures> <hex bytes>   (the four numbers must be what faceinfo answers)  Silf::readGraphite on the bytes (exact-size buffer) as one sub-table of a Silf table of that version
//            -> fault | E<code> (the loader's error code, whichever part of the sub-table or of a pass gave it; E0: a rule record refused)
//             | ok <numPasses>,<sPass>,<pPass>,<jPass>,<bPass>,<flags>,<aPseudo>,<aBreak>,<aBidi>,<aMirror>,<aPassBits>,<numJusts>,<aLig>,<aUser>,
//                  <iMaxComp>,<dir>,<aCollision>,<gEndLine>,<numPseudo> PS:<digest pseudos> C:<numClasses>,<numLinear> P:<digest numRules,numStates per pass>
//         silftable <numGlyphs> <numAttrs> <hasBoxes> <numFeatures> <hex bytes>        Face::readGraphite with the bytes (exact-size buffer) as the Silf table of the base font
//            -> fault | notable | noglyphs | nofeat | E<code> | P<i> … | ok <numSilf> | <sub-table> … | nopasses <numSilf> | …
//         glyphs <face options> <chunk bits the model assumes> <glyph count of maxp> <Gloc hex> <Glat hex> <gid,…> <key,…>
//            GlyphCache on the base font with these Gloc and Glat tables (exact-size buffers); for each gid the attributes of the glyph
//            -> fault | noglyphs | ok <numGlyphs> <numAttrs> <hasBoxes> | <per gid: - (no such glyph) | F (not loaded) |
//                 n=<chunks> C:<digest of the chunks: mask bits 0-23, 24-47, offset> V:<digest of the values> L:<attrs[key],…> B:<sub-boxes>,<bitmap> or B:->
//         face <face options> <chunk bits> <glyph count of maxp> <Silf hex> <Gloc hex> <Glat hex> <Feat hex> <Sill hex>     (- = absent)
//            gr_make_face_with_ops with these five tables (exact-size buffers) and the other tables of the base font, then gr_face_destroy
//            -> fault | compressed | noface | ok <glyphs> <features> <languages> <sub-tables>:<passes of each>
//         faceall <face options> <chunk bits> <head> <hhea> <hmtx> <maxp> <glyf> <loca> <cmap> <Silf> <Gloc> <Glat> <Feat> <Sill>   (hex, - = absent)
//            gr_make_face_with_ops with these twelve tables (exact-size buffers) -> as `face`
//         name <platform> <encoding> <hex bytes> <lang.nameId,…>
//            NameTable on the bytes, then getName(lang, nameId, gr_utf16) for each query
//            -> fault | notable | ok <platformOffset>,<platformLastRecord>,<nameDataLength> <per query: - | <language found>:<digest of the UTF-16 units>>
//         gfx <indexToLocFormat> <numLongHorMetrics> <loca hex> <glyf hex|-> <hmtx hex> <gid,…>
//            the graphics half of Loader::read_glyph (LocaLookup, GlyfLookup, GlyfBox, HorMetrics) on exact-size buffers (glyf >= 10 bytes or absent,
//            hmtx >= 4 bytes: what Face::Table hands out)  -> per gid: F (inverted box: read_glyph fails) | <xMin,yMin,xMax,yMax or ->/<advance or ->
//         codeinfo                          -> <numClasses> <numGlyphAttrs> <numFeatures> <numUser> <sizeof(instr)>: the limits the code loader takes from the base font, and the size of an instruction slot (the model's pool arithmetic assumes 8)
//         code <constraint 0|1> <passtype> <pre_context> <rule_length> <classes> <gattrs> <feats> <user> <hex bytecode>
//            Machine::Code's loading constructor on exactly these bytes (own buffers); the four limits must be codeinfo's
//            -> fault | S<status> | empty | ok ic=<instructions> ds=<data bytes> mr=<max_ref> mod=<0|1> del=<0|1> I:<opcodes incl. inserted TEMP_COPYs and the final RET_ZERO> D:<digest of data>
//         collok <passtype>                 -> 0|1   (may a pass of this type carry collision flags in this font?)
//         pass <subtable_base> <passtype> <collok> <classes> <gattrs> <feats> <user> <hex bytes>
//            (collok must be what `collok <passtype>` answers, the four limits what `codeinfo` answers)
//            -> fault | E<code> (the loader's error code; E0 for the refusals of readRules that set none)
//             | ok <fields> R:<digest of m_cols> S:<digest of start states, transitions, rule ranges>
//                  U:<digest of, per rule: sort key, pre-context, action instructions, action data bytes, constraint instructions, constraint data bytes>
//               with <fields> = <maxLoop>,<numRules>,<numStates>,<numTransition>,<numSuccess>,<numColumns>,<numGlyphs>,<minPre>,<maxPre>,<colThreshold>,<reverse>,<collRuns>,<kernColls>
#include <cstdio>
#define private public
#define protected public
#include "inc/Main.h"
#include "inc/Face.h"
#include "inc/Silf.h"
#include "inc/Pass.h"
#include "inc/Rule.h"
#include "inc/Error.h"
#include "inc/GlyphCache.h"
#include "inc/FileFace.h"
#include "inc/GlyphFace.h"
#include "inc/Sparse.h"
#include "inc/NameTable.h"
#include "inc/TtfUtil.h"
#include "inc/Code.h"
#include "inc/Machine.h"
#include "inc/TtfTypes.h"
#undef private
#undef protected
#include <graphite2/Font.h>
#include "common.h"

using namespace graphite2;

static std::string digestv(const std::vector<unsigned> &v) {
    unsigned long long h = 7;
    for (size_t i = 0; i < v.size(); ++i) h = (h * 1000003ULL + v[i] + 1) % 4294967291ULL;
    char buf[64]; snprintf(buf, sizeof buf, "%zu:%llu", v.size(), h); return buf;
}

static bool layout_code(int c) {
    switch (c) {
    case E_BADPASSLENGTH: case E_BADNUMTRANS: case E_BADNUMSUCCESS: case E_BADNUMSTATES: case E_NORANGES: case E_BADRULEMAPLEN:
    case E_BADCTXTLENBOUNDS: case E_BADCTXTLENS: case E_BADPASSCCODEPTR: case E_BADRULECCODEPTR: case E_BADCCODELEN:
    case E_BADACTIONCODEPTR: case E_BADEMPTYPASS: case E_BADCOLLISIONPASS: case E_BADNUMCOLUMNS:
        return true;
    default: return false;
    }
}

// an accepted sub-table: the numbers `Silf::readGraphite` keeps
static std::string describe(const Silf *sf) {
    char buf[512];
    snprintf(buf, sizeof buf, "%u,%u,%u,%u,%u,%u,%u,%u,%u,%u,%u,%u,%u,%u,%u,%u,%u,%u,%u", (unsigned)sf->m_numPasses, (unsigned)sf->m_sPass,
             (unsigned)sf->m_pPass, (unsigned)sf->m_jPass, (unsigned)sf->m_bPass, (unsigned)sf->m_flags, (unsigned)sf->m_aPseudo,
             (unsigned)sf->m_aBreak, (unsigned)sf->m_aBidi, (unsigned)sf->m_aMirror, (unsigned)sf->m_aPassBits, (unsigned)sf->m_numJusts,
             (unsigned)sf->m_aLig, (unsigned)sf->m_aUser, (unsigned)sf->m_iMaxComp, (unsigned)sf->m_dir, (unsigned)sf->m_aCollision,
             (unsigned)sf->m_gEndLine, (unsigned)sf->m_numPseudo);
    std::vector<unsigned> ps, pp;
    for (unsigned k = 0; k < sf->m_numPseudo; ++k) { ps.push_back(sf->m_pseudos[k].uid); ps.push_back(sf->m_pseudos[k].gid); }
    for (unsigned k = 0; k < sf->m_numPasses; ++k) { pp.push_back(sf->m_passes[k].m_numRules); pp.push_back(sf->m_passes[k].m_numStates); }
    std::string out = buf;
    out += " PS:" + digestv(ps);
    snprintf(buf, sizeof buf, " C:%u,%u", (unsigned)sf->m_nClass, (unsigned)sf->m_nLinear); out += buf;
    out += " P:" + digestv(pp);
    return out;
}

// a refusal: the loader's error code (0 for the refusals of readRules that set none).  The pass number of the error context does
// not survive Pass::readPass (error_context() answers m_error), so it is not reported.
static std::string refusal(const Face *face) {
    char buf[64];
    if (face->m_error == 0xFFFFFFFFu) return "E4294967295";       // ERROROFFSET used as an error code by readClassMap
    snprintf(buf, sizeof buf, "E%u", (unsigned)face->m_error);
    return buf;
}

// the glyph-cache numbers a line carries for the model must be the base font's
static bool face_matches(const Face *face, const std::vector<std::string> &w, size_t at) {
    return strtoul(w[at].c_str(), 0, 10) == face->glyphs().numGlyphs() && strtoul(w[at + 1].c_str(), 0, 10) == face->glyphs().numAttrs()
        && (strtoul(w[at + 2].c_str(), 0, 10) != 0) == face->glyphs().hasBoxes() && strtoul(w[at + 3].c_str(), 0, 10) == face->numFeatures();
}

struct TableCtx { FileFace *ff; const uint8_t *silf; size_t silf_len; const uint8_t *gloc; size_t gloc_len; const uint8_t *glat; size_t glat_len;
                  const uint8_t *feat; size_t feat_len; const uint8_t *sill; size_t sill_len; bool all;
                  const uint8_t *gfx[7]; size_t gfx_len[7]; bool gfx_on; };
static const unsigned GFX_TAGS[7] = { Tag::head, Tag::hhea, Tag::hmtx, Tag::maxp, Tag::glyf, Tag::loca, Tag::cmap };
static const void *ctx_get_table(const void *h, unsigned int name, size_t *len) {
    const TableCtx *c = static_cast<const TableCtx *>(h);
    if (c->gfx_on)
        for (int k = 0; k < 7; ++k) if (name == GFX_TAGS[k]) { *len = c->gfx_len[k]; return c->gfx_len[k] ? c->gfx[k] : 0; }
    if (c->all) {     // the five Graphite tables all come from the line; an empty one is absent
        const uint8_t *p = 0; size_t n = 0; bool mine = true;
        if (name == Tag::Silf) { p = c->silf; n = c->silf_len; } else if (name == Tag::Gloc) { p = c->gloc; n = c->gloc_len; }
        else if (name == Tag::Glat) { p = c->glat; n = c->glat_len; } else if (name == Tag::Feat) { p = c->feat; n = c->feat_len; }
        else if (name == Tag::Sill) { p = c->sill; n = c->sill_len; } else mine = false;
        if (mine) { *len = n; return n ? p : 0; }
    }
    if (name == Tag::Silf && c->silf) { *len = c->silf_len; return c->silf; }
    if (name == Tag::Gloc && c->gloc) { *len = c->gloc_len; return c->gloc; }
    if (name == Tag::Glat && c->glat) { *len = c->glat_len; return c->glat; }
    return (*FileFace::ops.get_table)(c->ff, name, len);
}
static void ctx_rel_table(const void *h, const void *p) {
    const TableCtx *c = static_cast<const TableCtx *>(h);
    if (p == c->silf || p == c->gloc || p == c->glat || p == c->feat || p == c->sill) return;
    if (c->gfx_on) for (int k = 0; k < 7; ++k) if (p == c->gfx[k]) return;
    (*FileFace::ops.release_table)(c->ff, p);
}

int main(int argc, char **argv) {
    if (argc < 2) return 2;
    gr_face *gf = gr_make_file_face(argv[1], gr_face_default);
    if (!gf) { fprintf(stderr, "cannot load base font\n"); return 2; }
    Face *face = static_cast<Face *>(gf);
    if (face->m_numSilf < 1) return 2;
    Silf *silf = &face->m_silfs[0];
    std::string line;
    char buf[256];
    while (std::getline(std::cin, line)) {
        auto w = words(line);
        g_faults = 0;
        std::string out = "bad-op";
        std::vector<uint8_t> b;
        if (w.size() == 4 && w[0] == "classmap" && parse_hex(w[2], b)) {
            bool wide = atoi(w[1].c_str()) != 0;
            Silf *sf = new Silf();
            Exact e(b);
            Error err;
            size_t r = sf->readClassMap(e.p, b.size(), wide ? 0x00040000 : 0x00030000, err);
            if (g_faults) out = "fault";
            else if (r == 0xFFFFFFFF || err) { snprintf(buf, sizeof buf, "E%u", (unsigned)err.error()); out = buf; }
            else {
                std::vector<unsigned> offs, data;
                for (unsigned k = 0; k <= sf->m_nClass; ++k) offs.push_back(sf->m_classOffsets[k]);
                for (unsigned k = 0; k < r; ++k) data.push_back(sf->m_classData[k]);
                snprintf(buf, sizeof buf, "ok %u,%u", (unsigned)sf->m_nClass, (unsigned)sf->m_nLinear);
                out = std::string(buf) + " O:" + digestv(offs) + " D:" + digestv(data);
                std::string g = " G:", f = " F:";
                std::stringstream ps(w[3]); std::string pr; bool first = true;
                while (std::getline(ps, pr, ',')) {
                    size_t dot = pr.find('.');
                    if (dot == std::string::npos) continue;
                    unsigned cid = atoi(pr.substr(0, dot).c_str()), x = atoi(pr.substr(dot + 1).c_str());
                    if (cid == sf->m_nClass) continue;            // the one class number the look-ups do not guard (the code loader refuses it)
                    snprintf(buf, sizeof buf, "%s%u", first ? "" : ",", (unsigned)sf->getClassGlyph(cid, x)); g += buf;
                    snprintf(buf, sizeof buf, "%s%u", first ? "" : ",", (unsigned)sf->findClassIndex(cid, x)); f += buf;
                    first = false;
                }
                if (g_faults) out = "fault"; else out += g + f;
            }
            delete sf;
        } else if (w.size() == 8 && w[0] == "glyphs" && parse_hex(w[4], b)) {
            // GlyphCache(face, options) with these bytes (exact-size buffers) as Gloc and Glat, the other tables from the base font's file
            std::vector<uint8_t> b2;
            size_t maxp_len = 0;
            const void *maxp = (*face->m_ops.get_table)(face->m_appFaceHandle, Tag::maxp, &maxp_len);
            unsigned ngg = maxp ? (unsigned)TtfUtil::GlyphCount(maxp) : 0;
            if (maxp && face->m_ops.release_table) (*face->m_ops.release_table)(face->m_appFaceHandle, maxp);
            if (!parse_hex(w[5], b2) || strtoul(w[2].c_str(), 0, 10) != sparse::SIZEOF_CHUNK || strtoul(w[3].c_str(), 0, 10) != ngg) { puts("bad-op"); fflush(stdout); continue; }
            // not the subject here: a Glat table that Face::Table has to decompress first (C14)
            if (b2.size() >= 8 && ((b2[0] << 24 | b2[1] << 16 | b2[2] << 8 | b2[3]) >= 0x00030000u) && (b2[4] >> 3) != 0) { puts("compressed"); fflush(stdout); continue; }
            unsigned opts = atoi(w[1].c_str());
            Exact eloc(b), elat(b2);
            FileFace *ff = new FileFace(argv[1]);
            TableCtx ctx = { ff, 0, 0, eloc.p, b.size(), elat.p, b2.size(), 0, 0, 0, 0, false, {0, 0, 0, 0, 0, 0, 0}, {0, 0, 0, 0, 0, 0, 0}, false };
            const gr_face_ops ops = { sizeof(gr_face_ops), &ctx_get_table, &ctx_rel_table };
            Face *f = new Face(&ctx, ops);
            {
                GlyphCache gc(*f, opts);
                if (g_faults) out = "fault";
                else if (gc.numGlyphs() == 0) out = "noglyphs";
                else {
                    snprintf(buf, sizeof buf, "ok %u %u %u", (unsigned)gc.numGlyphs(), (unsigned)gc.numAttrs(), gc.hasBoxes() ? 1u : 0u);
                    out = buf;
                    std::stringstream gs(w[6]); std::string gtok;
                    while (std::getline(gs, gtok, ',')) {
                        unsigned gid = atoi(gtok.c_str());
                        if (gid >= gc.numGlyphs()) { out += " | -"; continue; }
                        gc.glyph(gid);
                        const GlyphFace *g = gc._glyphs[gid];
                        if (!g) { out += " | F"; continue; }
                        const sparse &sp = g->attrs();
                        std::vector<unsigned> ch, vals, looks;
                        const unsigned long *raw = reinterpret_cast<const unsigned long *>(sp.m_array.map);
                        for (unsigned k = 0; k < sp.m_nchunks; ++k) { ch.push_back(unsigned(raw[k] & 0xFFFFFF)); ch.push_back(unsigned((raw[k] >> 24) & 0xFFFFFF)); ch.push_back(unsigned(raw[k] >> 48)); }
                        size_t cap = sp.capacity();
                        for (size_t k = 0; k < cap; ++k) vals.push_back(sp.m_array.values[4 * sp.m_nchunks + k]);
                        std::stringstream ks(w[7]); std::string ktok;
                        while (std::getline(ks, ktok, ',')) looks.push_back(sp[(uint16)atoi(ktok.c_str())]);
                        snprintf(buf, sizeof buf, " | n=%u", (unsigned)sp.m_nchunks);
                        out += std::string(buf) + " C:" + digestv(ch) + " V:" + digestv(vals) + " L:";
                        for (size_t k = 0; k < looks.size(); ++k) { snprintf(buf, sizeof buf, "%s%u", k ? "," : "", looks[k]); out += buf; }
                        if (gc._boxes && gc._boxes[gid]) { snprintf(buf, sizeof buf, " B:%u,%u", (unsigned)gc._boxes[gid]->_num, (unsigned)gc._boxes[gid]->_bitmap); out += buf; }
                        else out += " B:-";
                    }
                }
            }
            delete f;
            delete ff;
            if (g_faults) out = "fault";
        } else if (w.size() == 5 && w[0] == "name" && parse_hex(w[3], b)) {
            // NameTable(data, length, platform, encoding) – it works on its own exact-size copy – and getName(lang, nameId, gr_utf16) per query
            unsigned pl = atoi(w[1].c_str()), en = atoi(w[2].c_str());
            Exact e(b);
            {
                NameTable nt(e.p, b.size(), (uint16)pl, (uint16)en);
                if (g_faults) out = "fault";
                else if (!nt.m_table) out = "notable";
                else {
                    snprintf(buf, sizeof buf, "ok %u,%u,%u", (unsigned)nt.m_platformOffset, (unsigned)nt.m_platformLastRecord, (unsigned)nt.m_nameDataLength);
                    out = buf;
                    std::stringstream qs(w[4]); std::string q;
                    while (std::getline(qs, q, ',')) {
                        size_t dot = q.find('.');
                        if (dot == std::string::npos) continue;
                        uint16 lang = (uint16)atoi(q.substr(0, dot).c_str());
                        uint16 nid = (uint16)atoi(q.substr(dot + 1).c_str());
                        uint32 len = 0;
                        void *p = nt.getName(lang, nid, gr_utf16, len);
                        if (!p) out += " -";
                        else {
                            std::vector<unsigned> us;
                            for (uint32 k = 0; k < len; ++k) us.push_back(static_cast<uint16 *>(p)[k]);
                            snprintf(buf, sizeof buf, " %u:", (unsigned)lang);
                            out += buf + digestv(us);
                            free(p);
                        }
                    }
                }
            }
            if (g_faults) out = "fault";
        } else if (w.size() == 15 && w[0] == "faceall") {
            // gr_make_face_with_ops with head hhea hmtx maxp glyf loca cmap Silf Gloc Glat Feat Sill from the line (exact-size buffers, empty = absent);
            // whatever else is asked for from the base font
            std::vector<uint8_t> t[12];
            bool okp = true;
            for (int k = 0; k < 12; ++k) okp = okp && parse_hex(w[3 + k], t[k]);
            if (!okp || strtoul(w[2].c_str(), 0, 10) != sparse::SIZEOF_CHUNK) { puts("bad-op"); fflush(stdout); continue; }
            auto compressed = [](const std::vector<uint8_t> &x, unsigned minv) {
                return x.size() >= 8 && ((unsigned)(x[0] << 24 | x[1] << 16 | x[2] << 8 | x[3]) >= minv) && (x[4] >> 3) != 0; };
            if (compressed(t[7], 0x00050000u) || compressed(t[9], 0x00030000u)) { puts("compressed"); fflush(stdout); continue; }
            unsigned opts = atoi(w[1].c_str());
            std::vector<Exact *> ex;
            for (int k = 0; k < 12; ++k) ex.push_back(new Exact(t[k]));
            FileFace *ff = new FileFace(argv[1]);
            TableCtx ctx = { ff, ex[7]->p, t[7].size(), ex[8]->p, t[8].size(), ex[9]->p, t[9].size(), ex[10]->p, t[10].size(), ex[11]->p, t[11].size(), true,
                             { ex[0]->p, ex[1]->p, ex[2]->p, ex[3]->p, ex[4]->p, ex[5]->p, ex[6]->p },
                             { t[0].size(), t[1].size(), t[2].size(), t[3].size(), t[4].size(), t[5].size(), t[6].size() }, true };
            const gr_face_ops ops = { sizeof(gr_face_ops), &ctx_get_table, &ctx_rel_table };
            gr_face *nf = gr_make_face_with_ops(&ctx, &ops, opts);
            if (g_faults) out = "fault";
            else if (!nf) out = "noface";
            else {
                const Face *F = static_cast<const Face *>(nf);
                snprintf(buf, sizeof buf, "ok %u %u %u %u:", (unsigned)gr_face_n_glyphs(nf), (unsigned)F->numFeatures(), (unsigned)gr_face_n_languages(nf), (unsigned)F->m_numSilf);
                out = buf;
                for (unsigned k = 0; k < F->m_numSilf; ++k) { snprintf(buf, sizeof buf, "%s%u", k ? "," : "", (unsigned)F->m_silfs[k].numPasses()); out += buf; }
            }
            if (nf) gr_face_destroy(nf);
            delete ff;
            for (auto e : ex) delete e;
            if (g_faults) out = "fault";
        } else if (w.size() == 7 && w[0] == "gfx") {
            // TtfUtil::LocaLookup / GlyfLookup / GlyfBox / HorMetrics as Loader::read_glyph uses them, on exact-size loca, glyf and hmtx buffers
            // and a head / hhea that say just the format and the number of long metrics
            std::vector<uint8_t> loca, glyf, hmtx;
            if (!parse_hex(w[3], loca) || !parse_hex(w[4], glyf) || !parse_hex(w[5], hmtx)) { puts("bad-op"); fflush(stdout); continue; }
            unsigned fmt = atoi(w[1].c_str()), nl = atoi(w[2].c_str());
            std::vector<uint8_t> head(54, 0), hhea(36, 0);
            head[50] = uint8_t(fmt >> 8); head[51] = uint8_t(fmt);
            hhea[34] = uint8_t(nl >> 8); hhea[35] = uint8_t(nl);
            Exact eh(head), ehh(hhea), el(loca), eg(glyf), em(hmtx);
            out.clear();
            std::stringstream gs(w[6]); std::string gtok; bool first = true;
            while (std::getline(gs, gtok, ',')) {
                unsigned gid = atoi(gtok.c_str());
                std::string one;
                bool failed = false, havebox = false;
                int xMin = 0, yMin = 0, xMax = 0, yMax = 0;
                if (!glyf.empty()) {
                    size_t locidx = TtfUtil::LocaLookup(gid, el.p, loca.size(), eh.p);
                    void *pGlyph = TtfUtil::GlyfLookup(eg.p, locidx, glyf.size());
                    if (pGlyph && TtfUtil::GlyfBox(pGlyph, xMin, yMin, xMax, yMax)) {
                        if ((xMin > xMax) || (yMin > yMax)) failed = true; else havebox = true;
                    }
                }
                if (failed) one = "F";
                else {
                    int nLsb; unsigned int nAdvWid;
                    bool hm = TtfUtil::HorMetrics(gid, em.p, hmtx.size(), ehh.p, nLsb, nAdvWid);
                    if (havebox) { snprintf(buf, sizeof buf, "%d,%d,%d,%d", xMin, yMin, xMax, yMax); one = buf; } else one = "-";
                    one += "/";
                    if (hm) { snprintf(buf, sizeof buf, "%u", nAdvWid); one += buf; } else one += "-";
                }
                out += (first ? "" : " ") + one; first = false;
            }
            if (g_faults) out = "fault";
        } else if (w.size() == 9 && w[0] == "face") {
            // gr_make_face_with_ops with the five Graphite tables from the line (exact-size buffers, empty = absent), everything else from the base font
            std::vector<uint8_t> t[5];
            bool okp = true;
            for (int k = 0; k < 5; ++k) okp = okp && parse_hex(w[4 + k], t[k]);
            size_t maxp_len = 0;
            const void *maxp = (*face->m_ops.get_table)(face->m_appFaceHandle, Tag::maxp, &maxp_len);
            unsigned ngg = maxp ? (unsigned)TtfUtil::GlyphCount(maxp) : 0;
            if (maxp && face->m_ops.release_table) (*face->m_ops.release_table)(face->m_appFaceHandle, maxp);
            if (!okp || strtoul(w[2].c_str(), 0, 10) != sparse::SIZEOF_CHUNK || strtoul(w[3].c_str(), 0, 10) != ngg) { puts("bad-op"); fflush(stdout); continue; }
            auto compressed = [](const std::vector<uint8_t> &x, unsigned minv) {
                return x.size() >= 8 && ((unsigned)(x[0] << 24 | x[1] << 16 | x[2] << 8 | x[3]) >= minv) && (x[4] >> 3) != 0; };
            if (compressed(t[0], 0x00050000u) || compressed(t[2], 0x00030000u)) { puts("compressed"); fflush(stdout); continue; }
            unsigned opts = atoi(w[1].c_str());
            Exact e0(t[0]), e1(t[1]), e2(t[2]), e3(t[3]), e4(t[4]);
            FileFace *ff = new FileFace(argv[1]);
            TableCtx ctx = { ff, e0.p, t[0].size(), e1.p, t[1].size(), e2.p, t[2].size(), e3.p, t[3].size(), e4.p, t[4].size(), true, {0, 0, 0, 0, 0, 0, 0}, {0, 0, 0, 0, 0, 0, 0}, false };
            const gr_face_ops ops = { sizeof(gr_face_ops), &ctx_get_table, &ctx_rel_table };
            gr_face *nf = gr_make_face_with_ops(&ctx, &ops, opts);
            if (g_faults) out = "fault";
            else if (!nf) out = "noface";
            else {
                const Face *F = static_cast<const Face *>(nf);
                snprintf(buf, sizeof buf, "ok %u %u %u %u:", (unsigned)gr_face_n_glyphs(nf), (unsigned)F->numFeatures(), (unsigned)gr_face_n_languages(nf), (unsigned)F->m_numSilf);
                out = buf;
                for (unsigned k = 0; k < F->m_numSilf; ++k) { snprintf(buf, sizeof buf, "%s%u", k ? "," : "", (unsigned)F->m_silfs[k].numPasses()); out += buf; }
            }
            if (nf) gr_face_destroy(nf);
            delete ff;
            if (g_faults) out = "fault";
        } else if (w.size() == 1 && w[0] == "codeinfo") {
            snprintf(buf, sizeof buf, "%u %u %u %u %u", (unsigned)silf->numClasses(), (unsigned)face->glyphs().numAttrs(), (unsigned)face->numFeatures(), (unsigned)silf->numUser(), (unsigned)sizeof(vm::instr));
            out = buf;
        } else if (w.size() == 10 && w[0] == "code" && parse_hex(w[9], b)) {
            // Machine::Code(is_constraint, begin, end, pre_context, rule_length, silf, face, pt) on exactly these bytes;
            // w[5..8] = classes, glyph attrs, features, user attrs the line was made for (must be the base font's)
            if (strtoul(w[5].c_str(), 0, 10) != silf->numClasses() || strtoul(w[6].c_str(), 0, 10) != face->glyphs().numAttrs()
                || strtoul(w[7].c_str(), 0, 10) != face->numFeatures() || strtoul(w[8].c_str(), 0, 10) != silf->numUser()) { puts("bad-op"); fflush(stdout); continue; }
            bool cons = atoi(w[1].c_str()) != 0;
            int pt = atoi(w[2].c_str());
            unsigned pre = atoi(w[3].c_str()), rl = atoi(w[4].c_str());
            if (b.empty()) { puts("bad-op"); fflush(stdout); continue; }
            Exact e(b);
            {
                vm::Machine::Code c(cons, e.p, e.p + b.size(), (uint8)pre, (uint16)rl, *silf, *face, (passtype)pt);
                if (g_faults) out = "fault";
                else if (c.status() != vm::Machine::Code::loaded) { snprintf(buf, sizeof buf, "S%d", (int)c.status()); out = buf; }
                else if (!c) out = "empty";
                else {
                    const vm::opcode_t *tab = vm::Machine::getOpcodeTable();
                    std::vector<unsigned> ops, data;
                    for (size_t k = 0; k <= c._instr_count; ++k) {
                        unsigned o = 255;
                        for (unsigned t = 0; t <= vm::TEMP_COPY; ++t) if (tab[t].impl[cons] && tab[t].impl[cons] == c._code[k]) { o = t; break; }
                        ops.push_back(o);
                    }
                    for (size_t k = 0; k < c._data_size; ++k) data.push_back(c._data[k]);
                    snprintf(buf, sizeof buf, "ok ic=%zu ds=%zu mr=%u mod=%d del=%d", c._instr_count, c._data_size, (unsigned)c._max_ref, (int)c._modify, (int)c._delete);
                    out = std::string(buf) + " I:";
                    for (size_t k = 0; k < ops.size(); ++k) { snprintf(buf, sizeof buf, "%s%u", k ? "," : "", ops[k]); out += buf; }
                    out += " D:" + digestv(data);
                }
            }
            if (g_faults) out = "fault";
        } else if (w.size() == 1 && w[0] == "faceinfo") {
            snprintf(buf, sizeof buf, "%u %u %u %u", (unsigned)face->glyphs().numGlyphs(), (unsigned)face->glyphs().numAttrs(), face->glyphs().hasBoxes() ? 1u : 0u, (unsigned)face->numFeatures());
            out = buf;
        } else if ((w.size() == 7 && w[0] == "silf" && !face_matches(face, w, 2)) || (w.size() == 6 && w[0] == "silftable" && !face_matches(face, w, 1))) {
            out = "bad-op";                  // the line was made for another base font
        } else if (w.size() == 7 && w[0] == "silf" && parse_hex(w[6], b)) {
            // Silf::readGraphite on exactly these bytes, with the glyph cache of the base font
            unsigned long version = strtoul(w[1].c_str(), 0, 10);
            Silf *sf = new Silf();
            Exact e(b);
            face->m_error = 0; face->m_errcntxt = 0;
            bool ok = sf->readGraphite(e.p, b.size(), *face, (uint32)version);
            if (g_faults) out = "fault";
            else if (!ok) out = refusal(face);
            else out = "ok " + describe(sf);
            delete sf;
        } else if (w.size() == 6 && w[0] == "silftable" && parse_hex(w[5], b)) {
            // Face::readGraphite on exactly these bytes as the Silf table; every other table comes from the base font's file.
            // Not the subject here: tables Face::Table does not hand out (shorter than 4 bytes) or has to decompress first (C14)
            if (b.size() >= 8 && ((b[0] << 24 | b[1] << 16 | b[2] << 8 | b[3]) >= 0x00050000u) && (b[4] >> 3) != 0) { puts("compressed"); fflush(stdout); continue; }
            Exact e(b);
            FileFace *ff = new FileFace(argv[1]);
            TableCtx ctx = { ff, e.p, b.size(), 0, 0, 0, 0, 0, 0, 0, 0, false, {0, 0, 0, 0, 0, 0, 0}, {0, 0, 0, 0, 0, 0, 0}, false };
            const gr_face_ops ops = { sizeof(gr_face_ops), &ctx_get_table, &ctx_rel_table };
            Face *f = new Face(&ctx, ops);
            {
                Face::Table silf(*f, Tag::Silf, 0x00050000);
                if (!silf) out = "notable";
                else if (!f->readGlyphs(0)) out = "noglyphs";
                else if (!f->readFeatures()) out = "nofeat";
                else {
                    f->m_error = 0; f->m_errcntxt = 0;
                    bool ok = f->readGraphite(silf);
                    // a refusal without an error code (E0) leaves sub-tables unread: then numPasses of the last one is still 0 and no passes exist
                    bool all_loaded = true;
                    for (unsigned k = 0; k < f->m_numSilf; ++k) if (f->m_silfs[k].m_numPasses && !f->m_silfs[k].m_passes) all_loaded = false;
                    if (g_faults) out = "fault";
                    else if (!ok && (f->m_error || !all_loaded)) out = refusal(f);
                    else {
                        snprintf(buf, sizeof buf, "%s %u", ok ? "ok" : "nopasses", (unsigned)f->m_numSilf);
                        out = buf;
                        for (unsigned k = 0; k < f->m_numSilf; ++k) out += " | " + describe(&f->m_silfs[k]);
                    }
                }
            }
            delete f;
            delete ff;
            if (g_faults) out = "fault";
        } else if (w.size() == 2 && w[0] == "collok") {
            int pt = atoi(w[1].c_str());
            bool ok = pt >= PASS_TYPE_POSITIONING && silf->aCollision() && face->glyphs().hasBoxes() && (silf->flags() & 0x20);
            out = ok ? "1" : "0";
        } else if (w.size() == 9 && w[0] == "pass" && parse_hex(w[8], b)) {
            size_t base = strtoul(w[1].c_str(), 0, 10);
            int pt = atoi(w[2].c_str());
            bool cok = pt >= PASS_TYPE_POSITIONING && silf->aCollision() && face->glyphs().hasBoxes() && (silf->flags() & 0x20);
            if ((atoi(w[3].c_str()) != 0) != cok || strtoul(w[4].c_str(), 0, 10) != silf->numClasses() || strtoul(w[5].c_str(), 0, 10) != face->glyphs().numAttrs()
                || strtoul(w[6].c_str(), 0, 10) != face->numFeatures() || strtoul(w[7].c_str(), 0, 10) != silf->numUser()) { puts("bad-op"); fflush(stdout); continue; }
            Pass *p = new Pass();
            p->init(silf);
            Exact e(b);
            Error err;
            face->m_error = 0;
            bool ok = p->readPass(e.p, b.size(), base, *face, (passtype)pt, 0x00050000, err);
            if (g_faults) out = "fault";
            else if (!ok) {
                // the code the engine reports; 0 for the refusals that set none (`return false` in readRules)
                if (face->m_error == 0xFFFFFFFFu) out = "E4294967295";
                else { snprintf(buf, sizeof buf, "E%u", (unsigned)face->m_error); out = buf; }
            } else {
                snprintf(buf, sizeof buf, "ok %u,%u,%u,%u,%u,%u,%u,%u,%u,%u,%u,%u,%u", (unsigned)p->m_iMaxLoop, (unsigned)p->m_numRules, (unsigned)p->m_numStates,
                         (unsigned)p->m_numTransition, (unsigned)p->m_numSuccess, (unsigned)p->m_numColumns, (unsigned)p->m_numGlyphs,
                         (unsigned)p->m_minPreCtxt, (unsigned)p->m_maxPreCtxt, (unsigned)p->m_colThreshold, (unsigned)p->m_isReverseDir,
                         (unsigned)p->m_numCollRuns, (unsigned)p->m_kernColls);
                out = buf;
                if (p->m_numRules) {
                    std::vector<unsigned> cols, st, us;
                    for (unsigned g = 0; g < p->m_numGlyphs; ++g) cols.push_back(p->m_cols[g]);
                    for (int k = 0; k <= p->m_maxPreCtxt - p->m_minPreCtxt; ++k) st.push_back(p->m_startStates[k]);
                    for (unsigned k = 0; k < (unsigned)p->m_numTransition * p->m_numColumns; ++k) st.push_back(p->m_transitions[k]);
                    for (unsigned k = p->m_successStart; k < p->m_numStates; ++k) {
                        st.push_back((unsigned)(p->m_states[k].rules - p->m_ruleMap));
                        st.push_back((unsigned)(p->m_states[k].rules_end - p->m_states[k].rules));
                    }
                    for (unsigned k = 0; k < p->m_numRules; ++k) {
                        const Rule &r = p->m_rules[k];
                        us.push_back(r.sort); us.push_back(r.preContext);
                        us.push_back((unsigned)r.action->instructionCount()); us.push_back((unsigned)r.action->dataSize());
                        us.push_back((unsigned)r.constraint->instructionCount()); us.push_back((unsigned)r.constraint->dataSize());
                    }
                    out += " R:" + digestv(cols) + " S:" + digestv(st) + " U:" + digestv(us);
                } else out += " R:- S:- U:-";
            }
            delete p;
        }
        puts(out.c_str());
        fflush(stdout);
    }
    gr_face_destroy(gf);
    return 0;
}

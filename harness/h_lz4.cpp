// C14 harness: lz4::decompress on exact-size heap buffers, Face::Table construction over a callback face, and the
// reference decoder (liblz4 LZ4_decompress_safe) for the strict-reference clause and spec validation.
#include "common.h"
#include <graphite2/Font.h>
#include "inc/Main.h"
#include "inc/Decompressor.h"
#include "inc/Face.h"
#include "inc/TtfUtil.h"
#include <lz4.h>

using namespace graphite2;

struct Served { const uint8_t *p; size_t n; int gets, releases; };
static const void *get_table(const void *h, unsigned int, size_t *len) {
    Served *s = (Served *)h; ++s->gets; *len = s->n; return s->p;
}
static void release_table(const void *h, const void *) { Served *s = (Served *)h; ++s->releases; }

// borrow-discipline mode: every get_table hands out a fresh heap copy (so that a use after release is a sanitizer fault),
// release_table frees it; the sequence of events is the observable
struct Lender { const uint8_t *p; size_t n; bool absent; std::vector<void *> out; std::vector<void *> ids; std::string trace; int bad; };
static int lender_id(Lender *l, const void *q) { for (size_t i = 0; i < l->ids.size(); ++i) if (l->ids[i] == q) return (int)i; return -1; }
static const void *lend(const void *h, unsigned int, size_t *len) {
    Lender *l = (Lender *)h;
    if (l->absent) { *len = 0; return 0; }
    void *c = malloc(l->n ? l->n : 1); if (l->n) memcpy(c, l->p, l->n);
    l->out.push_back(c); l->ids.push_back(c); *len = l->n;
    l->trace += (l->trace.empty() ? "g" : " g") + std::to_string(l->ids.size() - 1);
    return c;
}
static void take_back(const void *h, const void *q) {
    Lender *l = (Lender *)h;
    int id = -1;
    for (size_t i = 0; i < l->out.size(); ++i) if (l->out[i] == q) { id = (int)i; break; }
    if (id < 0) { ++l->bad; l->trace += " r?"; return; }
    // the id of a pointer is the number of the get that produced it (pointers may be reused by malloc: search newest first)
    int num = -1; for (int i = (int)l->ids.size() - 1; i >= 0; --i) if (l->ids[i] == q) { num = i; break; }
    l->trace += " r" + std::to_string(num);
    l->out.erase(l->out.begin() + id);
    free(const_cast<void *>(q));
}

int main() {
    std::string line;
    while (std::getline(std::cin, line)) {
        auto w = words(line);
        g_faults = 0;
        std::string out = "bad-op";
        std::vector<uint8_t> b;
        if (w.size() == 4 && w[0] == "lz4" && parse_hex(w[1], b)) {
            size_t osz = strtoul(w[2].c_str(), 0, 10);
            uint8_t fill = (uint8_t)strtoul(w[3].c_str(), 0, 16);
            Exact in(b); Exact o(osz, fill);
            int r = lz4::decompress(in.p, in.n, o.p, o.n);
            if (g_faults) out = "fault";
            else out = "ret=" + std::to_string(r) + " out=" + to_hex(o.p, o.n);
        } else if (w.size() == 4 && w[0] == "lz4file") {
            // big inputs come from a binary file; the output buffer is summarised by a digest
            FILE *f = fopen(w[1].c_str(), "rb");
            if (f) {
                fseek(f, 0, SEEK_END); long n = ftell(f); fseek(f, 0, SEEK_SET);
                std::vector<uint8_t> v(n); if (n && fread(v.data(), 1, n, f) != (size_t)n) n = 0; fclose(f);
                size_t osz = strtoul(w[2].c_str(), 0, 10);
                uint8_t fill = (uint8_t)strtoul(w[3].c_str(), 0, 16);
                Exact in(v); Exact o(osz, fill);
                int r = lz4::decompress(in.p, in.n, o.p, o.n);
                uint64_t h = 7; for (size_t i = 0; i < o.n; ++i) h = (h * 1000003 + o.p[i]) % 2147483647;
                if (g_faults) out = "fault";
                else out = "ret=" + std::to_string(r) + " digest=" + std::to_string(h);
            }
        } else if (w.size() == 3 && w[0] == "lz4reffile") {
            // the reference decoder on a big input from a binary file
            FILE *f = fopen(w[1].c_str(), "rb");
            if (f) {
                fseek(f, 0, SEEK_END); long n = ftell(f); fseek(f, 0, SEEK_SET);
                std::vector<uint8_t> v(n); if (n && fread(v.data(), 1, n, f) != (size_t)n) n = 0; fclose(f);
                size_t osz = strtoul(w[2].c_str(), 0, 10);
                Exact in(v); Exact o(osz, 0);
                int r = LZ4_decompress_safe((const char *)in.p, (char *)o.p, (int)in.n, (int)o.n);
                out = r < 0 ? "ref=-1" : "ref=" + std::to_string(r);
            }
        } else if (w.size() == 3 && w[0] == "lz4ref" && parse_hex(w[1], b)) {
            size_t osz = strtoul(w[2].c_str(), 0, 10);
            Exact in(b); Exact o(osz, 0);
            int r = LZ4_decompress_safe((const char *)in.p, (char *)o.p, (int)in.n, (int)o.n);
            out = r < 0 ? "ref=-1" : "ref=" + std::to_string(r) + " out=" + to_hex(o.p, (size_t)r);
        } else if (w.size() == 4 && w[0] == "tbl" && parse_hex(w[1], b)) {
            Exact in(b);
            Served sv = { in.p, in.n, 0, 0 };
            gr_face_ops ops = { sizeof(gr_face_ops), get_table, release_table };
            uint32_t th = (uint32_t)strtoul(w[2].c_str(), 0, 16);
            {
                Face face(&sv, ops);
                {
                    Face::Table t(face, TtfUtil::Tag::Silf, th);
                    const byte *p = t;
                    if (g_faults) out = "fault";
                    else if (!p) out = "failed";
                    else if (p == in.p) out = "unchanged";
                    else out = "replaced " + to_hex(p, t.size());
                }
                if (!g_faults && sv.gets != sv.releases) out += " BORROW gets=" + std::to_string(sv.gets) + " releases=" + std::to_string(sv.releases);
            }
        }
        else if (w.size() == 4 && w[0] == "borrow" && (w[2] == "absent" || parse_hex(w[2], b))) {
            // borrow <threshold hex> <table hex|absent> <number of re-assignments>
            Exact in(b);
            Lender ld = { in.p, in.n, w[2] == "absent", {}, {}, "", 0 };
            gr_face_ops ops = { sizeof(gr_face_ops), lend, take_back };
            uint32_t th = (uint32_t)strtoul(w[1].c_str(), 0, 16);
            int nm = atoi(w[3].c_str());
            {
                Face face(&ld, ops);
                {
                    Face::Table t(face, TtfUtil::Tag::Silf, th);
                    for (int k = 0; k < nm; ++k) t = Face::Table(face, TtfUtil::Tag::Silf, th);
                    volatile size_t sz = t.size(); (void)sz;
                    const byte *q = t; if (q && t.size()) { volatile byte x = q[t.size() - 1]; (void)x; }
                }
            }
            if (g_faults) out = "fault";
            else out = (ld.trace.empty() ? std::string("-") : ld.trace) + " | outstanding=" + std::to_string(ld.out.size()) + " bad=" + std::to_string(ld.bad);
            for (void *q : ld.out) free(q);
        }
        puts(out.c_str());
        fflush(stdout);
    }
    return 0;
}

// C14 harness: lz4::decompress on exact-size heap buffers, Face::Table construction over a callback face, and the
// reference decoder (liblz4 LZ4_decompress_safe) for the strict-reference clause and spec validation.
#include "common.h"
#include <graphite2/Font.h>
#include "inc/Main.h"
#include "inc/Decompressor.h"
#include "inc/Face.h"
#include "inc/TtfUtil.h"
#include <lz4.h>

using namespace graphite2;

struct Served { const uint8_t *p; size_t n; int gets, releases; };
static const void *get_table(const void *h, unsigned int, size_t *len) {
    Served *s = (Served *)h; ++s->gets; *len = s->n; return s->p;
}
static void release_table(const void *h, const void *) { Served *s = (Served *)h; ++s->releases; }

int main() {
    std::string line;
    while (std::getline(std::cin, line)) {
        auto w = words(line);
        g_faults = 0;
        std::string out = "bad-op";
        std::vector<uint8_t> b;
        if (w.size() == 4 && w[0] == "lz4" && parse_hex(w[1], b)) {
            size_t osz = strtoul(w[2].c_str(), 0, 10);
            uint8_t fill = (uint8_t)strtoul(w[3].c_str(), 0, 16);
            Exact in(b); Exact o(osz, fill);
            int r = lz4::decompress(in.p, in.n, o.p, o.n);
            if (g_faults) out = "fault";
            else out = "ret=" + std::to_string(r) + " out=" + to_hex(o.p, o.n);
        } else if (w.size() == 4 && w[0] == "lz4file") {
            // big inputs come from a binary file; the output buffer is summarised by a digest
            FILE *f = fopen(w[1].c_str(), "rb");
            if (f) {
                fseek(f, 0, SEEK_END); long n = ftell(f); fseek(f, 0, SEEK_SET);
                std::vector<uint8_t> v(n); if (n && fread(v.data(), 1, n, f) != (size_t)n) n = 0; fclose(f);
                size_t osz = strtoul(w[2].c_str(), 0, 10);
                uint8_t fill = (uint8_t)strtoul(w[3].c_str(), 0, 16);
                Exact in(v); Exact o(osz, fill);
                int r = lz4::decompress(in.p, in.n, o.p, o.n);
                uint64_t h = 7; for (size_t i = 0; i < o.n; ++i) h = (h * 1000003 + o.p[i]) % 2147483647;
                if (g_faults) out = "fault";
                else out = "ret=" + std::to_string(r) + " digest=" + std::to_string(h);
            }
        } else if (w.size() == 3 && w[0] == "lz4ref" && parse_hex(w[1], b)) {
            size_t osz = strtoul(w[2].c_str(), 0, 10);
            Exact in(b); Exact o(osz, 0);
            int r = LZ4_decompress_safe((const char *)in.p, (char *)o.p, (int)in.n, (int)o.n);
            out = r < 0 ? "ref=-1" : "ref=" + std::to_string(r) + " out=" + to_hex(o.p, (size_t)r);
        } else if (w.size() == 4 && w[0] == "tbl" && parse_hex(w[1], b)) {
            Exact in(b);
            Served sv = { in.p, in.n, 0, 0 };
            gr_face_ops ops = { sizeof(gr_face_ops), get_table, release_table };
            uint32_t th = (uint32_t)strtoul(w[2].c_str(), 0, 16);
            {
                Face face(&sv, ops);
                {
                    Face::Table t(face, TtfUtil::Tag::Silf, th);
                    const byte *p = t;
                    if (g_faults) out = "fault";
                    else if (!p) out = "failed";
                    else if (p == in.p) out = "unchanged";
                    else out = "replaced " + to_hex(p, t.size());
                }
                if (!g_faults && sv.gets != sv.releases) out += " BORROW gets=" + std::to_string(sv.gets) + " releases=" + std::to_string(sv.releases);
            }
        }
        puts(out.c_str());
        fflush(stdout);
    }
    return 0;
}

// Public-API shaping harness: API histories (faces, fonts, feature values, segments, line breaks, justification, queries,
// destruction) with canonical segment dumps.  Serves C03 C04 C05 C08 C10 C15 C16 C19 (and the end-to-end part of others).
// usage: h_seg font0.ttf font1.ttf ...
// One input line = one self-contained history: ops separated by ';'. Printing ops' results are joined by " | ".
#include "cbface.h"
#include <graphite2/Segment.h>
#include "inc/Font.h"        // op A asks Font::advance itself (the hinted-advance cache); everything else is public API
#include <cmath>
#include <memory>

// verification hook of Pass::runGraphite (GRAPHITE2_VERIF): the worst rule-loop count against its bound, per input line
static unsigned long g_loop_iter = 0, g_loop_bound = 0, g_loop_calls = 0; static int g_loop_exceeded = 0;
extern "C" void graphite2_verif_loop_report(unsigned long iterations, unsigned long bound) {
    ++g_loop_calls;
    if (iterations > bound) g_loop_exceeded = 1;
    if (g_loop_bound == 0 || iterations * g_loop_bound > g_loop_iter * bound) { g_loop_iter = iterations; g_loop_bound = bound; }
}

static std::vector<std::string> split(const std::string &s, char c) {
    std::vector<std::string> r; std::stringstream ss(s); std::string t;
    while (std::getline(ss, t, c)) r.push_back(t);
    return r;
}
static std::string fl(float v) { char b[48]; if (std::isnan(v)) return "nan"; if (std::isinf(v)) return v > 0 ? "inf" : "-inf"; snprintf(b, sizeof b, "%a", (double)v); return b; }

// hinted fonts (gr_make_font_with_ops): the application's advance callback is a pure function of the glyph id
struct Hint { int kind = 0; unsigned long calls = 0; };
static float hint_adv(const void *h, gr_uint16 gid) {
    Hint *x = (Hint *)h; ++x->calls;
    switch (x->kind) {
    case 0: return 6.0f + (gid % 16) / 16.0f;                               // fractional pixels
    case 1: return gid % 3 == 0 ? -1.0f : 7.0f + (gid % 8) / 8.0f;           // "could not hint this glyph"
    case 2: return gid % 5 == 0 ? -1e38f : 5.5f;                             // the cache's own sentinel value
    default: return 40000.25f + gid;                                         // beyond 16 bits
    }
}

struct SegRec { gr_segment *seg = 0; int face = -1; int font = -1; std::vector<const gr_slot *> lines; };

static std::vector<const gr_slot *> stream(gr_segment *seg, size_t cap = 1000000) {
    std::vector<const gr_slot *> v;
    for (const gr_slot *s = gr_seg_first_slot(seg); s && v.size() < cap; s = gr_slot_next_in_segment(s)) v.push_back(s);
    return v;
}
static int pos_of(const std::vector<const gr_slot *> &v, const gr_slot *s) {
    if (!s) return -1;
    for (size_t i = 0; i < v.size(); ++i) if (v[i] == s) return (int)i;
    return -2;
}

static std::string dump(gr_segment *seg, gr_face *face, gr_font *font) {
    char buf[512];
    unsigned n = gr_seg_n_slots(seg);
    auto v = stream(seg, size_t(n) * 2 + 16);
    const gr_slot *last = gr_seg_last_slot(seg);
    std::string out;
    snprintf(buf, sizeof buf, "n=%u walk=%zu last=%d adv=%s,%s nc=%u", n, v.size(), pos_of(v, last), fl(gr_seg_advance_X(seg)).c_str(), fl(gr_seg_advance_Y(seg)).c_str(), gr_seg_n_cinfo(seg));
    out = buf;
    for (size_t i = 0; i < v.size(); ++i) {
        const gr_slot *s = v[i];
        snprintf(buf, sizeof buf, " s:%u,%u,%d,%d,%d,%d,%d,%d,%d,%s,%s,%s,%s,%d", gr_slot_gid(s), gr_slot_index(s), gr_slot_before(s), gr_slot_after(s), gr_slot_original(s),
                 pos_of(v, gr_slot_prev_in_segment(s)), pos_of(v, gr_slot_attached_to(s)), pos_of(v, gr_slot_first_attachment(s)), pos_of(v, gr_slot_next_sibling_attachment(s)),
                 fl(gr_slot_origin_X(s)).c_str(), fl(gr_slot_origin_Y(s)).c_str(), fl(gr_slot_advance_X(s, face, font)).c_str(), fl(gr_slot_advance_Y(s, face, font)).c_str(),
                 gr_slot_can_insert_before(s));
        out += buf;
    }
    for (unsigned i = 0; i < gr_seg_n_cinfo(seg); ++i) {
        const gr_char_info *c = gr_seg_cinfo(seg, i);
        snprintf(buf, sizeof buf, " c:%x,%zu,%d,%d,%d", gr_cinfo_unicode_char(c), gr_cinfo_base(c), gr_cinfo_before(c), gr_cinfo_after(c), gr_cinfo_break_weight(c));
        out += buf;
    }
    return out;
}

static std::string faceinfo(gr_face *f) {
    char buf[256];
    std::string out;
    snprintf(buf, sizeof buf, "g=%u nf=%u nl=%u", gr_face_n_glyphs(f), gr_face_n_fref(f), gr_face_n_languages(f));
    out = buf;
    for (unsigned i = 0; i < gr_face_n_fref(f); ++i) {
        const gr_feature_ref *r = gr_face_fref(f, i);
        snprintf(buf, sizeof buf, " f:%x,%u", gr_fref_id(r), gr_fref_n_values(r)); out += buf;
        for (unsigned j = 0; j < gr_fref_n_values(r); ++j) { snprintf(buf, sizeof buf, ",%d", gr_fref_value(r, j)); out += buf; }
    }
    for (unsigned i = 0; i < gr_face_n_languages(f); ++i) { snprintf(buf, sizeof buf, " l:%x", gr_face_lang_by_index(f, i)); out += buf; }
    // labels (name table), lookup by id, default feature values per language and their queries
    unsigned long lab = 0;
    for (unsigned i = 0; i < gr_face_n_fref(f) && i < 40; ++i) {
        const gr_feature_ref *r = gr_face_fref(f, i);
        for (int enc = 1; enc <= 4; enc *= 2) {
            gr_uint16 lang = 0x0409; gr_uint32 len = 0;
            void *l = gr_fref_label(r, &lang, (gr_encform)enc, &len);
            if (l) { lab += len + 1; gr_label_destroy(l); }
        }
        for (unsigned j = 0; j < gr_fref_n_values(r) && j < 20; ++j) {
            gr_uint16 lang = 0x0409; gr_uint32 len = 0;
            void *l = gr_fref_value_label(r, (gr_uint16)j, &lang, gr_utf8, &len);
            if (l) { lab += len + 1; gr_label_destroy(l); }
        }
        if (gr_face_find_fref(f, gr_fref_id(r)) == 0) lab += 1000000;
    }
    for (unsigned i = 0; i <= gr_face_n_languages(f) && i < 30; ++i) {
        gr_feature_val *fv = gr_face_featureval_for_lang(f, i < gr_face_n_languages(f) ? gr_face_lang_by_index(f, i) : 0x12345678);
        if (fv) {
            gr_feature_val *c2 = gr_featureval_clone(fv);
            for (unsigned k = 0; k < gr_face_n_fref(f) && k < 40; ++k) lab += gr_fref_feature_value(gr_face_fref(f, k), c2 ? c2 : fv);
            if (c2) gr_featureval_destroy(c2);
            gr_featureval_destroy(fv);
        }
    }
    snprintf(buf, sizeof buf, " lab=%lu", lab); out += buf;
    static const unsigned probe[] = {0, 0x20, 0x41, 0x61, 0xe9, 0x3b1, 0x627, 0x633, 0x1000, 0x1031, 0x200c, 0xfffd, 0xffff, 0x10000, 0x1f600, 0x10ffff};
    out += " cs:";
    for (unsigned u : probe) out += gr_face_is_char_supported(f, u, 0) ? '1' : '0';
    return out;
}

int main(int argc, char **argv) {
    std::string line;
    char buf[256];
    while (std::getline(std::cin, line)) {
        g_faults = 0; g_loop_iter = g_loop_bound = g_loop_calls = 0; g_loop_exceeded = 0;
        std::vector<std::unique_ptr<CbFace>> cbs(8);
        Hint hints[8];
        gr_face *faces[8] = {0}; gr_font *fonts[8] = {0}; gr_feature_val *fvs[8] = {0}; SegRec segs[8];
        std::string out;
        auto emit = [&](const std::string &s) { out += (out.empty() ? "" : " | ") + s; };
        for (auto &op : split(line, ';')) {
            if (op.empty()) continue;
            char c = op[0];
            std::string body = op.substr(1);
            size_t eq = body.find('=');
            std::vector<std::string> a = split(eq == std::string::npos ? body : body.substr(eq + 1), ',');
            int k = atoi(body.c_str()) & 7;
            if (c == 'F' && a.size() == 3) {
                int fi = atoi(a[0].c_str()); unsigned opts = atoi(a[1].c_str());
                if (fi + 1 >= argc) { emit("nofont"); continue; }
                if (faces[k]) { gr_face_destroy(faces[k]); faces[k] = 0; }
                if (a[2] == "f") { cbs[k].reset(); faces[k] = gr_make_file_face(argv[fi + 1], opts); }
                else { cbs[k].reset(new CbFace(argv[fi + 1])); cbs[k]->fresh = (a[2] == "C"); faces[k] = cbs[k]->make(opts); cbs[k]->sealed = true; }
                if (!faces[k]) emit("noface");
            } else if (c == 'N' && a.size() == 2) {
                int f = atoi(a[0].c_str()) & 7; float ppm = atof(a[1].c_str());
                if (fonts[k]) gr_font_destroy(fonts[k]);
                fonts[k] = faces[f] ? gr_make_font(ppm, faces[f]) : 0;
            } else if (c == 'H' && a.size() == 3) {       // H<k>=<face>,<ppm>,<kind>: a hinted font
                int f = atoi(a[0].c_str()) & 7; float ppm = atof(a[1].c_str());
                if (fonts[k]) gr_font_destroy(fonts[k]);
                hints[k] = Hint(); hints[k].kind = atoi(a[2].c_str());
                gr_font_ops ops = { sizeof(gr_font_ops), &hint_adv, 0 };
                fonts[k] = faces[f] ? gr_make_font_with_ops(ppm, &hints[k], &ops, faces[f]) : 0;
            } else if (c == 'A') {                        // A<k>=<gid>,...: Font::advance(gid) on font k; '*' = the callback was called
                if (!fonts[k]) { emit("nofont"); continue; }
                const graphite2::Font *fo = fonts[k];
                std::string r = "a=";
                for (size_t i = 0; i < a.size(); ++i) {
                    unsigned gid = atoi(a[i].c_str());
                    unsigned long before = hints[k].calls;
                    float v = fo->advance((unsigned short)gid);
                    if (v == -1e38f) r += "S"; else { snprintf(buf, sizeof buf, "%ld", (long)(v * 16)); r += buf; if (v * 16 != (float)(long)(v * 16)) r += "?"; }
                    if (hints[k].calls != before) r += "*";
                    if (i + 1 < a.size()) r += " ";
                }
                emit(r);
            } else if (c == 'V' && a.size() == 2) {
                int f = atoi(a[0].c_str()) & 7;
                if (fvs[k]) gr_featureval_destroy(fvs[k]);
                fvs[k] = faces[f] ? gr_face_featureval_for_lang(faces[f], (uint32_t)strtoul(a[1].c_str(), 0, 16)) : 0;
            } else if (c == 'v' && a.size() == 3) {       // v<k>=<face>,<idhex>,<val>
                int f = atoi(a[0].c_str()) & 7;
                const gr_feature_ref *r = faces[f] ? gr_face_find_fref(faces[f], (uint32_t)strtoul(a[1].c_str(), 0, 16)) : 0;
                emit(r && fvs[k] ? std::to_string(gr_fref_set_feature_value(r, (gr_uint16)atoi(a[2].c_str()), fvs[k])) : "noref");
            } else if (c == 'S' && a.size() == 8) {       // S<k>=<face>,<font|-1>,<fv|-1>,<script>,<enc>,<dir>,<nchars|-1>,<units>
                int f = atoi(a[0].c_str()) & 7, fn = atoi(a[1].c_str()), fv = atoi(a[2].c_str());
                uint32_t script = (uint32_t)strtoul(a[3].c_str(), 0, 16);
                int enc = atoi(a[4].c_str()), dir = atoi(a[5].c_str()); long nch = atol(a[6].c_str());
                int hw = enc == 8 ? 2 : enc == 16 ? 4 : 8;
                std::vector<uint32_t> u;
                if (a[7] != "-") for (size_t i = 0; i + hw <= a[7].size(); i += hw) u.push_back((uint32_t)strtoul(a[7].substr(i, hw).c_str(), 0, 16));
                size_t n = u.size();
                u.push_back(0);                              // the buffer always ends with a terminator
                size_t bytes = u.size() * (enc / 8);
                uint8_t *p = (uint8_t *)malloc(bytes);
                for (size_t i = 0; i < u.size(); ++i) { if (enc == 8) p[i] = (uint8_t)u[i]; else if (enc == 16) ((uint16_t *)p)[i] = (uint16_t)u[i]; else ((uint32_t *)p)[i] = u[i]; }
                if (segs[k].seg) { gr_seg_destroy(segs[k].seg); segs[k] = SegRec(); }
                if (faces[f]) {
                    segs[k].seg = gr_make_seg(fn >= 0 ? fonts[fn & 7] : 0, faces[f], script, fv >= 0 ? fvs[fv & 7] : 0,
                                              enc == 8 ? gr_utf8 : enc == 16 ? gr_utf16 : gr_utf32, p, nch < 0 ? n : (size_t)nch, dir);
                    segs[k].face = f; segs[k].font = fn >= 0 ? (fn & 7) : -1;
                    if (segs[k].seg) segs[k].lines.push_back(gr_seg_first_slot(segs[k].seg));
                }
                free(p);
                if (!segs[k].seg) emit("noseg");
            } else if (c == 'D') {
                emit(segs[k].seg ? dump(segs[k].seg, faces[segs[k].face], segs[k].font >= 0 ? fonts[segs[k].font] : 0) : "noseg");
            } else if (c == 'd') {
                if (segs[k].seg) { gr_seg_destroy(segs[k].seg); segs[k] = SegRec(); }
            } else if (c == 'B') {                        // B<k>=<pos>,<pos>...  break before the slots at these stream positions (of the unbroken segment)
                if (!segs[k].seg) { emit("noseg"); continue; }
                auto v = stream(segs[k].seg);
                std::vector<const gr_slot *> targets;
                for (auto &x : a) { int p = atoi(x.c_str()); if (p > 0 && (size_t)p < v.size()) targets.push_back(v[p]); }
                for (auto t : targets) { gr_slot_linebreak_before(const_cast<gr_slot *>(t)); segs[k].lines.push_back(t); }
            } else if (c == 'J' && a.size() == 6) {       // J<k>=<line>,<font|-1>,<width>,<flags>,<firstpos|-1>,<lastpos|-1>  (positions within the line)
                if (!segs[k].seg) { emit("noseg"); continue; }
                size_t li = atoi(a[0].c_str());
                if (li >= segs[k].lines.size()) { emit("noline"); continue; }
                const gr_slot *start = segs[k].lines[li];
                if (!start) { emit("nostart"); continue; }      // gr_seg_justify requires a start slot (empty segment)
                std::vector<const gr_slot *> v;
                for (const gr_slot *s = start; s && v.size() < 100000; s = gr_slot_next_in_segment(s)) v.push_back(s);
                int fn = atoi(a[1].c_str()), fp = atoi(a[4].c_str()), lp = atoi(a[5].c_str());
                const gr_slot *pf = fp >= 0 && (size_t)fp < v.size() ? v[fp] : 0, *pl = lp >= 0 && (size_t)lp < v.size() ? v[lp] : 0;
                float w = gr_seg_justify(segs[k].seg, start, fn >= 0 ? fonts[fn & 7] : 0, atof(a[2].c_str()), (gr_justFlags)atoi(a[3].c_str()), pf, pl);
                emit("j=" + fl(w));
            } else if (c == 'W') {                        // per-line walks: gids forward, consistency of prev, cycle guard
                if (!segs[k].seg) { emit("noseg"); continue; }
                std::string r = "lines=" + std::to_string(segs[k].lines.size());
                for (auto start : segs[k].lines) {
                    r += " [";
                    size_t cnt = 0; const gr_slot *prev = gr_slot_prev_in_segment(start);
                    r += prev ? "P" : "";
                    for (const gr_slot *s = start; s && cnt < 100000; s = gr_slot_next_in_segment(s), ++cnt) {
                        snprintf(buf, sizeof buf, "%s%u%s", cnt ? "," : "", gr_slot_gid(s), (cnt && gr_slot_prev_in_segment(s) != prev) ? "!" : ""); r += buf;
                        if (!std::isfinite(gr_slot_origin_X(s)) || !std::isfinite(gr_slot_origin_Y(s))) r += "~";
                        prev = s;
                    }
                    if (cnt >= 100000) r += ",CYCLE";
                    r += "]";
                }
                emit(r);
            } else if (c == 'Q') {
                emit(faces[k] ? faceinfo(faces[k]) : "noface");
            } else if (c == 'T') {
                if (cbs[k]) { snprintf(buf, sizeof buf, "gets=%d rel=%d out=%d late=%d bad=%d", cbs[k]->gets, cbs[k]->releases, cbs[k]->outstanding, cbs[k]->late_gets, cbs[k]->bad_releases); emit(buf); }
                else emit("file");
            } else if (c == 'X') {
                for (auto &s : segs) if (s.seg && s.face == k) { gr_seg_destroy(s.seg); s = SegRec(); }
                for (int i = 0; i < 8; ++i) { /* fonts and feature values may outlive nothing: destroy those made from this face is the caller's job */ }
                if (faces[k]) { gr_face_destroy(faces[k]); faces[k] = 0; }
            } else if (c == 'n') {                        // destroy font k
                if (fonts[k]) { gr_font_destroy(fonts[k]); fonts[k] = 0; }
            } else if (c == 'R') {                        // rule-loop report (hook)
                snprintf(buf, sizeof buf, "loop=%lu/%lu passes=%lu exceeded=%d", g_loop_iter, g_loop_bound, g_loop_calls, g_loop_exceeded); emit(buf);
            } else if (c == 'L') {
                emit(std::string("leak=") + (__lsan_do_recoverable_leak_check() ? "1" : "0"));
            } else emit("bad");
        }
        for (auto &s : segs) if (s.seg) gr_seg_destroy(s.seg);
        for (auto f : fonts) if (f) gr_font_destroy(f);
        for (auto f : fvs) if (f) gr_featureval_destroy(f);
        for (int i = 0; i < 8; ++i) if (faces[i]) gr_face_destroy(faces[i]);
        int outstanding = 0;
        for (auto &cb : cbs) if (cb) outstanding += cb->outstanding;
        if (outstanding) out += " | OUTSTANDING=" + std::to_string(outstanding);
        if (g_faults) out = "fault | " + out;
        puts(out.c_str());
        fflush(stdout);
    }
    return 0;
}

// C20 harness: gr_str_to_tag / gr_tag_to_str on exact-size heap buffers; zeropad through the public entry points is covered by h_feat.
#include "common.h"
#include <graphite2/Font.h>
#include <graphite2/Segment.h>

int main() {
    std::string line;
    while (std::getline(std::cin, line)) {
        auto w = words(line);
        g_faults = 0;
        std::string out = "bad-op";
        std::vector<uint8_t> b;
        if (w.size() == 2 && w[0] == "str2tag" && parse_hex(w[1], b)) {
            Exact e(b);
            uint32_t t = gr_str_to_tag((const char *)e.p);
            out = g_faults ? "fault" : "ok " + hex32(t);
        } else if (w.size() == 3 && w[0] == "tag2str" && parse_hex(w[2], b)) {
            // first pass: the caller's buffer is exactly b.size() bytes (ASan sees any store outside it)
            uint32_t t = (uint32_t)strtoul(w[1].c_str(), 0, 16);
            { Exact e(b); gr_tag_to_str(t, (char *)e.p); }
            if (g_faults) out = "fault";
            else { Exact e(b); gr_tag_to_str(t, (char *)e.p); out = "ok " + to_hex(e.p, e.n); }
        }
        puts(out.c_str());
        fflush(stdout);
    }
    return 0;
}

// C11/C12/C05 harness: gr_count_unicode_characters and the text consumption of gr_make_seg on exact-size heap buffers.
// usage: h_utf [font.ttf]     (the font is only needed for `text` lines)
#include "common.h"
#include <graphite2/Font.h>
#include <graphite2/Segment.h>

static bool parse_units(const std::string &s, int w, std::vector<uint32_t> &out) {
    out.clear();
    if (s == "-") return true;
    if (s.size() % w) return false;
    for (size_t i = 0; i < s.size(); i += w) {
        uint32_t v = 0;
        for (int k = 0; k < w; ++k) { int d = hexval(s[i + k]); if (d < 0) return false; v = v * 16 + d; }
        out.push_back(v);
    }
    return true;
}
// exact-size native-endian buffer of code units
static uint8_t *pack(const std::vector<uint32_t> &u, int enc, size_t &bytes) {
    size_t sz = enc == 8 ? 1 : enc == 16 ? 2 : 4;
    bytes = u.size() * sz;
    uint8_t *p = (uint8_t *)malloc(bytes);
    for (size_t i = 0; i < u.size(); ++i) {
        if (enc == 8) p[i] = (uint8_t)u[i];
        else if (enc == 16) ((uint16_t *)p)[i] = (uint16_t)u[i];
        else ((uint32_t *)p)[i] = u[i];
    }
    return p;
}

int main(int argc, char **argv) {
    gr_face *face = 0;
    if (argc > 1) face = gr_make_file_face(argv[1], gr_face_preloadAll);
    std::string line;
    char buf[256];
    while (std::getline(std::cin, line)) {
        auto w = words(line);
        g_faults = 0;
        std::string out = "bad-op";
        std::vector<uint32_t> u;
        int enc = w.size() > 1 ? atoi(w[1].c_str()) : 0;
        int hw = enc == 8 ? 2 : enc == 16 ? 4 : 8;
        gr_encform ef = enc == 8 ? gr_utf8 : enc == 16 ? gr_utf16 : gr_utf32;
        if (w.size() == 4 && w[0] == "range8") {
            size_t len = strtoul(w[1].c_str(), 0, 10), start = strtoull(w[2].c_str(), 0, 10), cnt = strtoull(w[3].c_str(), 0, 10);
            uint64_t h = 7;
            for (size_t i = start; i < start + cnt; ++i) {
                uint8_t *p = (uint8_t *)malloc(len ? len : 1);
                if (!len) { free(p); p = (uint8_t *)malloc(0); }
                for (size_t k = 0; k < len; ++k) p[k] = uint8_t(i >> (8 * (len - 1 - k)));
                const void *err = 0;
                int f0 = g_faults;
                size_t n = gr_count_unicode_characters(gr_utf8, p, p + len, &err);
                uint64_t v = g_faults != f0 ? 99999 : n * 256 + (err ? ((const uint8_t *)err - p) + 1 : 0);
                h = (h * 1000003 + v) % 2147483647;
                free(p);
            }
            snprintf(buf, sizeof buf, "h=%llu", (unsigned long long)h); out = buf;
        } else if (w.size() == 3 && (w[0] == "count" || w[0] == "countz") && parse_units(w[2], hw, u)) {
            size_t bytes; uint8_t *p = pack(u, enc, bytes);
            const void *err = (const void *)0x1;
            size_t n = gr_count_unicode_characters(ef, p, w[0] == "count" ? p + bytes : 0, &err);
            if (g_faults) out = "fault";
            else {
                if (err) snprintf(buf, sizeof buf, "n=%zu err=%zd", n, ((const uint8_t *)err - p) / (ptrdiff_t)(enc / 8));
                else snprintf(buf, sizeof buf, "n=%zu err=none", n);
                out = buf;
            }
            free(p);
        } else if (w.size() == 4 && w[0] == "text" && face && parse_units(w[3], hw, u)) {
            size_t bytes; uint8_t *p = pack(u, enc, bytes);
            size_t nchars = strtoul(w[2].c_str(), 0, 10);
            gr_segment *seg = gr_make_seg(0, face, 0, 0, ef, p, nchars, 0);
            if (g_faults) out = "fault";
            else if (!seg) out = "null";
            else {
                unsigned n = gr_seg_n_cinfo(seg);
                snprintf(buf, sizeof buf, "n=%u", n); out = buf;
                for (unsigned i = 0; i < n && i < 4096; ++i) {
                    const gr_char_info *ci = gr_seg_cinfo(seg, i);
                    snprintf(buf, sizeof buf, " %x:%zu", gr_cinfo_unicode_char(ci), gr_cinfo_base(ci)); out += buf;
                }
            }
            if (seg) gr_seg_destroy(seg);
            free(p);
        }
        puts(out.c_str());
        fflush(stdout);
    }
    if (face) gr_face_destroy(face);
    return 0;
}

// C17 harness (interval set): the real Zones class driven through its public interface on integer-valued floats.
#include "common.h"
#include "inc/Main.h"
#include "inc/Intervals.h"
#include <cmath>
#include <cinttypes>

using namespace graphite2;

// exact rational rendering of a float
static std::string frac(float v) {
    if (v == 0) return "0";
    if (std::isnan(v) || std::isinf(v)) return "nan";
    int e; double m = std::frexp((double)v, &e);          // v = m * 2^e, 0.5 <= |m| < 1
    int64_t num = (int64_t)std::ldexp(m, 53); e -= 53;    // v = num * 2^e
    while (e < 0 && (num % 2) == 0) { num /= 2; ++e; }
    char buf[96];
    if (e >= 0) { if (e > 40) return "big"; snprintf(buf, sizeof buf, "%" PRId64, num * (int64_t(1) << e)); return buf; }
    if (-e > 62) return "tiny";
    snprintf(buf, sizeof buf, "%" PRId64 "/%" PRId64, num, int64_t(1) << -e);
    return buf;
}
static std::vector<std::string> split(const std::string &s, char c) {
    std::vector<std::string> r; std::stringstream ss(s); std::string t;
    while (std::getline(ss, t, c)) r.push_back(t);
    return r;
}

int main() {
    std::string line;
    while (std::getline(std::cin, line)) {
        auto w = words(line);
        g_faults = 0;
        std::string out = "bad-op";
        if (w.size() == 6 && w[0] == "zones") {
            Zones z;
            float xmin = atof(w[2].c_str()), xmax = atof(w[3].c_str()), a0 = atof(w[4].c_str());
            if (w[1] == "sd") z.initialise<SD>(xmin, xmax, 0, 0, a0); else z.initialise<XY>(xmin, xmax, 0, 0, a0);
            out.clear();
            for (auto &op : split(w[5], ';')) {
                auto a = split(op, ',');
                if (a.size() == 3 && a[0] == "x") z.exclude(atof(a[1].c_str()), atof(a[2].c_str()));
                else if (a.size() == 11 && a[0] == "w") {
                    float v[8]; for (int i = 0; i < 8; ++i) v[i] = atof(a[2 + i].c_str());
                    bool nega = a[10] == "1";
                    if (a[1] == "sd") z.weighted<SD>(v[0], v[1], v[2], v[3], v[4], v[5], v[6], v[7], nega);
                    else z.weighted<XY>(v[0], v[1], v[2], v[3], v[4], v[5], v[6], v[7], nega);
                } else if (a.size() == 2 && a[0] == "c") {
                    float cost = 0; float p = z.closest(atof(a[1].c_str()), cost);
                    out += (out.empty() ? "" : " ") + std::string("c=") + frac(p) + "," + frac(cost);
                } else if (!op.empty()) out += (out.empty() ? "" : " ") + std::string("bad");
            }
            for (Zones::const_iterator i = z.begin(); i != z.end(); ++i)
                out += (out.empty() ? "" : " ") + std::string("[") + frac(i->x) + "," + frac(i->xm) + "," + (i->open ? "1" : "0") + "," + frac(i->c) + "," + frac(i->sm) + "," + frac(i->smx) + "]";
            if (g_faults) out = "fault";
        }
        puts(out.c_str());
        fflush(stdout);
    }
    return 0;
}

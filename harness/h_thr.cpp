// C09: N threads shaping on one shared preloaded face / unhinted font; every thread's segments are compared with the ones a
// single thread produced beforehand.  Built with ASan and (separately) with TSan.
// usage: h_thr font0.ttf font1.ttf ...    line: <font> <opts> <nthreads> <rounds> <with font 0|1> <text hex32>;<text hex32>;...
#include "cbface.h"
#include <graphite2/Segment.h>
#include <thread>
#include <atomic>
#include <cmath>

static std::string dump(gr_segment *seg, gr_font *font, gr_face *face) {
    char buf[256];
    std::string out;
    std::vector<const gr_slot *> v;
    for (const gr_slot *s = gr_seg_first_slot(seg); s && v.size() < 100000; s = gr_slot_next_in_segment(s)) v.push_back(s);
    auto pos = [&](const gr_slot *s) { if (!s) return -1; for (size_t i = 0; i < v.size(); ++i) if (v[i] == s) return (int)i; return -2; };
    snprintf(buf, sizeof buf, "n=%u adv=%a", gr_seg_n_slots(seg), (double)gr_seg_advance_X(seg)); out = buf;
    for (auto s : v) {
        snprintf(buf, sizeof buf, " %u,%d,%d,%d,%d,%a,%a,%a", gr_slot_gid(s), gr_slot_before(s), gr_slot_after(s), pos(gr_slot_attached_to(s)), pos(gr_slot_first_attachment(s)),
                 (double)gr_slot_origin_X(s), (double)gr_slot_origin_Y(s), (double)gr_slot_advance_X(s, face, font));
        out += buf;
    }
    return out;
}

static std::string shape(gr_face *face, gr_font *font, const std::vector<uint32_t> &t, int dir) {
    std::vector<uint32_t> u(t); u.push_back(0);
    gr_segment *seg = gr_make_seg(font, face, 0, 0, gr_utf32, u.data(), t.size(), dir);
    if (!seg) return "noseg";
    std::string d = dump(seg, font, face);
    // feature queries on the shared face from every thread as well
    unsigned nf = gr_face_n_fref(face);
    if (nf) {
        const gr_feature_ref *r = gr_face_fref(face, (gr_uint16)(t.size() % nf));
        d += " f" + std::to_string(gr_fref_id(r)) + ":" + std::to_string(gr_fref_n_values(r));
        // label queries go through the name table, which a preloadAll face must already hold
        gr_uint16 lang = 0x0409; gr_uint32 len = 0;
        void *l = gr_fref_label(r, &lang, gr_utf8, &len);
        if (l) { d += " L" + std::to_string(len); gr_label_destroy(l); }
        if (gr_fref_n_values(r)) { lang = 0x0409; len = 0; void *v = gr_fref_value_label(r, 0, &lang, gr_utf16, &len); if (v) { d += " V" + std::to_string(len); gr_label_destroy(v); } }
        gr_feature_val *fv = gr_face_featureval_for_lang(face, 0);
        if (fv) { d += " v" + std::to_string(gr_fref_feature_value(r, fv)); gr_featureval_destroy(fv); }
    }
    gr_seg_destroy(seg);
    return d;
}

int main(int argc, char **argv) {
    std::string line;
    while (std::getline(std::cin, line)) {
        auto w = words(line);
        std::string out = "bad-op";
        if (w.size() == 6) {
            int fi = atoi(w[0].c_str()), nthr = atoi(w[2].c_str()), rounds = atoi(w[3].c_str()), withfont = atoi(w[4].c_str());
            unsigned opts = (unsigned)atoi(w[1].c_str());
            if (fi + 1 < argc && nthr >= 1 && nthr <= 64) {
                std::vector<std::vector<uint32_t>> texts;
                std::stringstream ss(w[5]); std::string t;
                while (std::getline(ss, t, ';')) { std::vector<uint32_t> u; for (size_t i = 0; i + 8 <= t.size(); i += 8) u.push_back((uint32_t)strtoul(t.substr(i, 8).c_str(), 0, 16)); texts.push_back(u); }
                CbFace cb(argv[fi + 1]);
                gr_face *face = cb.make(opts);
                if (!face) out = "noface";
                else {
                    cb.sealed = true;
                    gr_font *font = withfont ? gr_make_font(20.0f, face) : 0;
                    // the face is cold: nothing has been shaped before the threads start
                    std::atomic<int> mismatches(0), nosegs(0);
                    std::vector<std::string> ref(texts.size() * 2);
                    std::vector<std::vector<std::string>> got(nthr, std::vector<std::string>(texts.size() * 2));
                    std::vector<std::thread> th;
                    for (int k = 0; k < nthr; ++k)
                        th.emplace_back([&, k]() {
                            for (int r = 0; r < rounds; ++r)
                                for (size_t i = 0; i < texts.size() * 2; ++i) {
                                    size_t j = (i + 3 * k + r) % (texts.size() * 2);               // every thread starts at its own place
                                    std::string d = shape(face, font, texts[j / 2], (int)(j & 1));
                                    if (got[k][j].empty()) got[k][j] = d; else if (got[k][j] != d) ++mismatches;
                                }
                        });
                    for (auto &x : th) x.join();
                    // the single-threaded answers, computed afterwards on the same face and on a fresh one
                    for (size_t j = 0; j < ref.size(); ++j) ref[j] = shape(face, font, texts[j / 2], (int)(j & 1));
                    CbFace cb2(argv[fi + 1]);
                    gr_face *face2 = cb2.make(opts);
                    gr_font *font2 = face2 && withfont ? gr_make_font(20.0f, face2) : 0;
                    int fresh_diff = 0;
                    if (face2) for (size_t j = 0; j < ref.size(); ++j) if (shape(face2, font2, texts[j / 2], (int)(j & 1)) != ref[j]) ++fresh_diff;
                    for (int k = 0; k < nthr; ++k) for (size_t j = 0; j < ref.size(); ++j) { if (got[k][j] != ref[j]) ++mismatches; if (ref[j] == "noseg") ++nosegs; }
                    if (font2) gr_font_destroy(font2);
                    if (face2) gr_face_destroy(face2);
                    if (font) gr_font_destroy(font);
                    gr_face_destroy(face);
                    char buf[256];
                    snprintf(buf, sizeof buf, "threads=%d texts=%zu mismatches=%d fresh_diff=%d late_gets=%d out=%d nosegs=%d", nthr, texts.size() * 2, mismatches.load(), fresh_diff, cb.late_gets, cb.outstanding, nosegs.load() / nthr);
                    out = buf;
                }
            }
        }
        if (g_faults) out = "fault | " + out;
        puts(out.c_str());
        fflush(stdout);
    }
    return 0;
}

// C17 harness (shift collider): the real ShiftCollider::initSlot / mergeSlot / resolve on arrangements of a target glyph and
// neighbours whose octaboxes, origins, limits, margins, shifts and offsets come from the input line.
// A segment is shaped with a collision-enabled font only to obtain real Slot and SlotCollision objects; the octaboxes of a
// few carrier glyphs are then overwritten with the integer boxes of the line (so every float operation of the collider is
// exact and the model's rational arithmetic applies).
// usage: h_coll <collision-enabled font>
// line : coll <dir> <margin> <dmargin, ignored> <marginWt> <blx,bly,trx,try> <shx,shy> <offx,offy> <target box> <nbor|nbor|...>
//        nbor = sx,sy;box;sub;sub...     box = xi,yi,xa,ya,si,di,sa,da
#include <cstdio>
#define private public
#define protected public
#include "inc/Main.h"
#include "inc/Face.h"
#include "inc/Segment.h"
#include "inc/Slot.h"
#include "inc/Collider.h"
#include "inc/GlyphCache.h"
#undef private
#undef protected
#include "common.h"
#include <graphite2/Font.h>
#include <graphite2/Segment.h>
#include <cmath>
#include <cinttypes>
#include <cstring>

using namespace graphite2;

static std::string frac(float v) {
    if (v == 0) return "0";
    if (std::isnan(v) || std::isinf(v)) return "nan";
    int e; double m = std::frexp((double)v, &e);
    int64_t num = (int64_t)std::ldexp(m, 53); e -= 53;
    while (e < 0 && (num % 2) == 0) { num /= 2; ++e; }
    char buf[96];
    if (e >= 0) { if (e > 40) return "big"; snprintf(buf, sizeof buf, "%" PRId64, num * (int64_t(1) << e)); return buf; }
    if (-e > 62) return "tiny";
    snprintf(buf, sizeof buf, "%" PRId64 "/%" PRId64, num, int64_t(1) << -e);
    return buf;
}
static std::vector<std::string> split(const std::string &s, char c) {
    std::vector<std::string> r; std::stringstream ss(s); std::string t;
    while (std::getline(ss, t, c)) r.push_back(t);
    return r;
}
static bool floats(const std::string &s, size_t n, float *out) {
    auto a = split(s, ',');
    if (a.size() != n) return false;
    for (size_t i = 0; i < n; ++i) out[i] = (float)atof(a[i].c_str());
    return true;
}
static void setOrigin(Slot *s, const Position &p) {
    s->origin(Position(0, 0));          // origin(p) stores p + m_shift; recover m_shift
    Position sh = s->origin();
    s->origin(p - sh);
}
static void setBox(const GlyphCache &gc, uint16 gid, const float *b) {
    Rect &bb = const_cast<Rect &>(gc.glyph(gid)->theBBox());
    bb = Rect(Position(b[0], b[1]), Position(b[2], b[3]));
    gc._boxes[gid]->_slant = Rect(Position(b[4], b[5]), Position(b[6], b[7]));
}
static void setSub(const GlyphCache &gc, uint16 gid, int j, const float *b) {
    gc._boxes[gid]->subVal(j, 0) = Rect(Position(b[0], b[1]), Position(b[2], b[3]));
    gc._boxes[gid]->subVal(j, 1) = Rect(Position(b[4], b[5]), Position(b[6], b[7]));
}

int main(int argc, char **argv) {
    if (argc < 2) return 2;
    gr_face *face = gr_make_file_face(argv[1], gr_face_preloadAll);
    if (!face) { fprintf(stderr, "cannot load %s\n", argv[1]); return 2; }
    gr_font *font = gr_make_font(2048, face);
    const char *text = "\xD8\xA8\xD8\xAA\xD8\xAB\xD9\xBE\xD8\xA8\xD8\xAA\xD8\xAB";
    size_t n = gr_count_unicode_characters(gr_utf8, text, text + strlen(text), NULL);
    gr_segment *gseg = gr_make_seg(font, face, 0, NULL, gr_utf8, text, n, gr_rtl);
    if (!gseg) { fprintf(stderr, "cannot make segment\n"); return 2; }
    Segment *seg = static_cast<Segment *>(gseg);
    std::vector<Slot *> slots;
    for (Slot *s = seg->first(); s; s = s->next()) slots.push_back(s);
    if (slots.size() < 5 || !seg->collisionInfo(slots[0])) { fprintf(stderr, "no collision info / too few slots\n"); return 2; }
    const GlyphCache &gc = static_cast<const Face *>(face)->glyphs();
    // carrier glyphs: glyphs whose box record has room for at least three sub-boxes (the count is set per line)
    std::vector<uint16> carriers;
    for (unsigned g = 1; g < gc.numGlyphs() && carriers.size() < 8; ++g) {
        if (!gc.check(uint16(g)) || !gc.glyphSafe(uint16(g)) || !gc._boxes[g]) continue;
        if (gc.numSubBounds(uint16(g)) >= 3) carriers.push_back(uint16(g));
    }
    if (carriers.size() < 5) { fprintf(stderr, "too few carrier glyphs\n"); return 2; }

    std::string line;
    while (std::getline(std::cin, line)) {
        auto w = words(line);
        g_faults = 0;
        std::string out = "bad-op";
        float lim[4], sh[2], off[2], tb[8];
        if (w.size() == 10 && w[0] == "coll" && floats(w[5], 4, lim) && floats(w[6], 2, sh) && floats(w[7], 2, off) && floats(w[8], 8, tb)) {
            int dir = atoi(w[1].c_str());
            float margin = (float)atof(w[2].c_str()), mwt = (float)atof(w[4].c_str());
            size_t used = 0;
            uint16 tgid = carriers[used++];
            setBox(gc, tgid, tb);
            gc._boxes[tgid]->_num = 0;
            Slot *t = slots[0];
            t->setGlyph(seg, tgid);
            setOrigin(t, Position(off[0], off[1]));          // so that _origin = origin - currOffset = (0,0)
            SlotCollision *ct = seg->collisionInfo(t);
            ct->initFromSlot(seg, t);
            Rect limit(Position(lim[0], lim[1]), Position(lim[2], lim[3]));
            ct->setLimit(limit); ct->setMargin(uint16(margin)); ct->setMarginWt(uint16(mwt));
            ct->setShift(Position(sh[0], sh[1])); ct->setOffset(Position(off[0], off[1]));
            ct->setFlags(SlotCollision::COLL_FIX); ct->setSeqClass(0); ct->setSeqProxClass(0); ct->setSeqOrder(0); ct->setExclGlyph(0);
            ShiftCollider coll(NULL);
            bool ok = coll.initSlot(seg, t, limit, margin, mwt, Position(sh[0], sh[1]), Position(off[0], off[1]), dir, NULL);
            std::string cols;
            bool bad = !ok;
            auto nbs = w[9] == "-" ? std::vector<std::string>() : split(w[9], '|');
            for (size_t i = 0; i < nbs.size() && !bad; ++i) {
                auto parts = split(nbs[i], ';');
                float pos[2], b[8];
                if (parts.size() < 2 || parts.size() > 5 || !floats(parts[0], 2, pos) || !floats(parts[1], 8, b) || i + 1 >= slots.size()) { bad = true; break; }
                size_t nsub = parts.size() - 2;
                if (used >= carriers.size()) { bad = true; break; }
                uint16 gid = carriers[used++];
                setBox(gc, gid, b);
                gc._boxes[gid]->_num = (uint8)nsub;
                for (size_t j = 0; j < nsub; ++j) { float sb[8]; if (!floats(parts[2 + j], 8, sb)) { bad = true; break; } setSub(gc, gid, (int)j, sb); }
                if (bad) break;
                Slot *nb = slots[i + 1];
                nb->setGlyph(seg, gid);
                setOrigin(nb, Position(pos[0], pos[1]));
                SlotCollision *cn = seg->collisionInfo(nb);
                cn->initFromSlot(seg, nb);
                cn->setFlags(0); cn->setShift(Position(0, 0)); cn->setOffset(Position(0, 0));
                cn->setSeqClass(0); cn->setSeqProxClass(0); cn->setSeqOrder(0); cn->setExclGlyph(0);
                bool col = false;
                coll.mergeSlot(seg, nb, cn, cn->shift(), true, false, col, false, NULL);
                cols += col ? "1" : "0";
            }
            if (bad) out = "bad-op";
            else {
                out = "col=" + cols;
                for (int a = 0; a < 4; ++a) {
                    out += " | ";
                    bool first = true;
                    for (Zones::const_iterator i = coll._ranges[a].begin(); i != coll._ranges[a].end(); ++i, first = false)
                        out += std::string(first ? "[" : " [") + frac(i->x) + "," + frac(i->xm) + "," + (i->open ? "1" : "0") + "," + frac(i->c) + "," + frac(i->sm) + "," + frac(i->smx) + "]";
                }
                bool isCol = false;
                Position p = coll.resolve(seg, isCol, NULL);
                out += " | res=" + frac(p.x) + "," + frac(p.y) + "," + (isCol ? "1" : "0");
            }
            if (g_faults) out = "fault";
        }
        puts(out.c_str());
        fflush(stdout);
    }
    return 0;
}

// C13 harness: direct and cached cmap lookup over all 0x110000 code points on a callback face whose cmap comes from the line.
// usage: h_cmap base-font.ttf
#include "cbface.h"
#include "inc/Main.h"
#include "inc/Face.h"
#include "inc/CmapCache.h"

int main(int argc, char **argv) {
    if (argc < 2) return 2;
    std::string line;
    char buf[128];
    while (std::getline(std::cin, line)) {
        auto w = words(line);
        g_faults = 0;
        std::string out = "bad-op";
        std::vector<uint8_t> ct;
        if ((w.size() == 2 && w[0] == "cmap" && parse_hex(w[1], ct)) || (w.size() == 3 && w[0] == "cmapq" && parse_hex(w[1], ct))) {
            CbFace cb(argv[1]);
            if (ct.empty()) cb.remove(TAG('c','m','a','p')); else cb.set(TAG('c','m','a','p'), ct.data(), ct.size());
            gr_face *fd = cb.make(gr_face_default);
            bool fd_fault = g_faults != 0; g_faults = 0;
            gr_face *fc = cb.make(gr_face_cacheCmap);
            bool fc_fault = g_faults != 0; g_faults = 0;
            if (w[0] == "cmapq") {
                uint32_t usv = (uint32_t)strtoul(w[2].c_str(), 0, 16);
                std::string d = fd_fault ? "fault" : !fd ? "noface" : std::to_string((unsigned)fd->cmap()[usv]);
                std::string c = fc_fault ? "fault" : !fc ? "noface" : std::to_string((unsigned)fc->cmap()[usv]);
                if (g_faults) d = c = "fault";
                out = "d=" + d + " c=" + c;
            } else {
                uint64_t hd = 0, hc = 0; long diff = -1;
                for (uint32_t usv = 0; usv < 0x110000; ++usv) {
                    unsigned d = fd ? fd->cmap()[usv] : 0, c = fc ? fc->cmap()[usv] : 0;
                    hd += uint64_t(d + 1) * (uint64_t(usv) * 2654435761ull + 12345ull); hc += uint64_t(c + 1) * (uint64_t(usv) * 2654435761ull + 12345ull);
                    if (fd && fc && d != c && diff < 0) diff = usv;
                }
                bool qf = g_faults != 0;
                std::string d = (fd_fault || (fd && qf)) ? "fault" : !fd ? "noface" : std::to_string(hd);
                std::string c = (fc_fault || (fc && qf)) ? "fault" : !fc ? "noface" : std::to_string(hc);
                if (diff >= 0) snprintf(buf, sizeof buf, "%lx", diff); else snprintf(buf, sizeof buf, "none");
                out = "d=" + d + " c=" + c + " diff=" + buf;
            }
            if (fd) gr_face_destroy(fd);
            if (fc) gr_face_destroy(fc);
        }
        puts(out.c_str());
        fflush(stdout);
    }
    return 0;
}

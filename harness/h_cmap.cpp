// C13 harness: direct and cached cmap lookup over all 0x110000 code points on a callback face whose cmap comes from the line.
// usage: h_cmap base-font.ttf
#include "cbface.h"
#include "inc/Main.h"
#include "inc/Face.h"
#include "inc/CmapCache.h"
#include "inc/TtfUtil.h"

using namespace graphite2;

static unsigned rd16(const uint8_t *p) { return p[0] << 8 | p[1]; }
static unsigned long rd32(const uint8_t *p) { return (unsigned long)rd16(p) << 16 | rd16(p + 2); }

// Are the ranges of the Unicode subtables the face uses sorted and disjoint (start <= end, every range ends before the next begins)?
// This is the hypothesis of the Lean theorem cached_lookup_is_direct_lookup (sortedCmapB), computed here independently: the subtables are
// found as CmapCache.cpp finds them, the arrays are read where CheckCmapSubtable4/12 have established they lie.
static std::string cmap_sorted(const gr_face *f) {
    const Face::Table cmap(*f, Tag::cmap);
    if (!cmap || !cmap.size()) return "-";
    const void *bmp = 0, *smp = 0, *st;
    const uint8_t *end = cmap + cmap.size();
    static const int pref4[5][2] = {{3, 1}, {0, 3}, {0, 2}, {0, 1}, {0, 0}}, pref12[2][2] = {{3, 10}, {0, 4}};
    for (auto &pe : pref4)
        if (TtfUtil::CheckCmapSubtable4(st = TtfUtil::FindCmapSubtable(cmap, pe[0], pe[1], cmap.size()), end)) { bmp = st; break; }
    for (auto &pe : pref12)
        if (TtfUtil::CheckCmapSubtable12(st = TtfUtil::FindCmapSubtable(cmap, pe[0], pe[1], cmap.size()), end)) { smp = st; break; }
    if (!bmp) return "-";
    const uint8_t *b = static_cast<const uint8_t *>(bmp);
    const size_t n = rd16(b + 6) / 2;
    bool ok = true;
    for (size_t i = 0; i < n && ok; ++i) {
        const unsigned en = rd16(b + 14 + 2 * i), sc = rd16(b + 14 + 2 * (n + 1 + i));
        if (sc > en) ok = false;
        if (i + 1 < n && en >= rd16(b + 14 + 2 * (n + 1 + i + 1))) ok = false;
    }
    if (smp) {
        const uint8_t *s = static_cast<const uint8_t *>(smp);
        const size_t g = rd32(s + 12);
        for (size_t i = 0; i < g && ok; ++i) {
            const unsigned long sc = rd32(s + 16 + 12 * i), en = rd32(s + 20 + 12 * i);
            if (sc > en) ok = false;
            if (i + 1 < g && en >= rd32(s + 16 + 12 * (i + 1))) ok = false;
        }
    }
    return ok ? "1" : "0";
}

int main(int argc, char **argv) {
    if (argc < 2) return 2;
    std::string line;
    char buf[128];
    while (std::getline(std::cin, line)) {
        auto w = words(line);
        g_faults = 0;
        std::string out = "bad-op";
        std::vector<uint8_t> ct;
        if ((w.size() == 2 && w[0] == "cmap" && parse_hex(w[1], ct)) || (w.size() == 3 && w[0] == "cmapq" && parse_hex(w[1], ct))) {
            CbFace cb(argv[1]);
            if (ct.empty()) cb.remove(TAG('c','m','a','p')); else cb.set(TAG('c','m','a','p'), ct.data(), ct.size());
            gr_face *fd = cb.make(gr_face_default);
            bool fd_fault = g_faults != 0; g_faults = 0;
            gr_face *fc = cb.make(gr_face_cacheCmap);
            bool fc_fault = g_faults != 0; g_faults = 0;
            if (w[0] == "cmapq") {
                uint32_t usv = (uint32_t)strtoul(w[2].c_str(), 0, 16);
                std::string d = fd_fault ? "fault" : !fd ? "noface" : std::to_string((unsigned)fd->cmap()[usv]);
                std::string c = fc_fault ? "fault" : !fc ? "noface" : std::to_string((unsigned)fc->cmap()[usv]);
                if (g_faults) d = c = "fault";
                out = "d=" + d + " c=" + c;
            } else {
                uint64_t hd = 0, hc = 0; long diff = -1;
                for (uint32_t usv = 0; usv < 0x110000; ++usv) {
                    unsigned d = fd ? fd->cmap()[usv] : 0, c = fc ? fc->cmap()[usv] : 0;
                    hd += uint64_t(d + 1) * (uint64_t(usv) * 2654435761ull + 12345ull); hc += uint64_t(c + 1) * (uint64_t(usv) * 2654435761ull + 12345ull);
                    if (fd && fc && d != c && diff < 0) diff = usv;
                }
                bool qf = g_faults != 0;
                std::string d = (fd_fault || (fd && qf)) ? "fault" : !fd ? "noface" : std::to_string(hd);
                std::string c = (fc_fault || (fc && qf)) ? "fault" : !fc ? "noface" : std::to_string(hc);
                if (diff >= 0) snprintf(buf, sizeof buf, "%lx", diff); else snprintf(buf, sizeof buf, "none");
                out = "d=" + d + " c=" + c + " diff=" + buf + " sorted=" + ((fd && d != "fault") ? cmap_sorted(fd) : std::string("-"));
            }
            if (fd) gr_face_destroy(fd);
            if (fc) gr_face_destroy(fc);
        }
        puts(out.c_str());
        fflush(stdout);
    }
    return 0;
}

// C18 harness: histories of feature-value operations on a callback face whose Feat/Sill tables come from the input line.
// usage: h_feat base-font.ttf
#include "cbface.h"
#include <graphite2/Segment.h>

int main(int argc, char **argv) {
    if (argc < 2) return 2;
    std::string line;
    char buf[64];
    while (std::getline(std::cin, line)) {
        auto w = words(line);
        g_faults = 0;
        std::string out = "bad-op";
        std::vector<uint8_t> ft, st;
        if (w.size() == 4 && w[0] == "feat" && parse_hex(w[1], ft) && parse_hex(w[2], st)) {
            CbFace cb(argv[1]);
            if (ft.empty()) cb.remove(TAG('F','e','a','t')); else cb.set(TAG('F','e','a','t'), ft.data(), ft.size());
            if (w[2] == "-") cb.remove(TAG('S','i','l','l')); else cb.set(TAG('S','i','l','l'), st.data(), st.size());
            gr_face *face = cb.make(gr_face_default);
            if (g_faults) out = "fault";
            else if (!face) out = "noface";
            else {
                gr_feature_val *fv[8] = {0, 0, 0, 0, 0, 0, 0, 0};
                out.clear();
                std::stringstream ops(w[3]);
                std::string op;
                bool first = true;
                while (std::getline(ops, op, ',')) {
                    std::string r = "bad";
                    char c = op.empty() ? ' ' : op[0];
                    std::string body = op.substr(1);
                    size_t eq = body.find('='), dot = body.find('.');
                    if (c == 'L' && eq != std::string::npos) {
                        unsigned k = atoi(body.substr(0, eq).c_str()) & 7;
                        uint32_t lang = (uint32_t)strtoul(body.substr(eq + 1).c_str(), 0, 16);
                        if (fv[k]) gr_featureval_destroy(fv[k]);
                        fv[k] = gr_face_featureval_for_lang(face, lang);
                        r = "ok";
                    } else if (c == 'C' && eq != std::string::npos) {
                        unsigned k = atoi(body.substr(0, eq).c_str()) & 7, k2 = atoi(body.substr(eq + 1).c_str()) & 7;
                        if (!fv[k2]) r = "nofv";
                        else { gr_feature_val *n = gr_featureval_clone(fv[k2]); if (fv[k]) gr_featureval_destroy(fv[k]); fv[k] = n; r = "ok"; }
                    } else if (c == 'S' && eq != std::string::npos && dot != std::string::npos) {
                        unsigned k = atoi(body.substr(0, dot).c_str()) & 7;
                        uint32_t id = (uint32_t)strtoul(body.substr(dot + 1, eq - dot - 1).c_str(), 0, 16);
                        unsigned v = (unsigned)strtoul(body.substr(eq + 1).c_str(), 0, 10);
                        const gr_feature_ref *fr = gr_face_find_fref(face, id);
                        if (!fr) r = "nofeat"; else if (!fv[k]) r = "nofv";
                        else r = gr_fref_set_feature_value(fr, (gr_uint16)v, fv[k]) ? "1" : "0";
                    } else if (c == 'G' && dot != std::string::npos) {
                        unsigned k = atoi(body.substr(0, dot).c_str()) & 7;
                        uint32_t id = (uint32_t)strtoul(body.substr(dot + 1).c_str(), 0, 16);
                        const gr_feature_ref *fr = gr_face_find_fref(face, id);
                        if (!fr) r = "nofeat"; else if (!fv[k]) r = "nofv";
                        else { snprintf(buf, sizeof buf, "%u", gr_fref_feature_value(fr, fv[k])); r = buf; }
                    } else if (c == 'D') {
                        unsigned k = atoi(body.c_str()) & 7;
                        if (!fv[k]) r = "nofv";
                        else {
                            r.clear();
                            // all features in table order, hidden ones included: ids are looked up through the public API
                            unsigned n = 0;
                            // the table order is recovered from the Feat bytes themselves
                            uint32_t version = ft.size() >= 12 ? CbFace::be32(&ft[0]) : 0; unsigned nf = ft.size() >= 12 ? CbFace::be16(&ft[4]) : 0;
                            if (12 + size_t(nf) * 16 > ft.size()) nf = 0;
                            size_t p = 12;
                            for (unsigned i = 0; i < nf; ++i) {
                                uint32_t id = version < 0x00020000 ? CbFace::be16(&ft[p]) : CbFace::be32(&ft[p]);
                                p += version < 0x00020000 ? 12 : 16;
                                const gr_feature_ref *fr = gr_face_find_fref(face, id);
                                snprintf(buf, sizeof buf, "%s%u", n++ ? "," : "", fr ? gr_fref_feature_value(fr, fv[k]) : 0u); r += buf;
                            }
                        }
                    } else if (c == 'N') {
                        snprintf(buf, sizeof buf, "%u/%u/", gr_face_n_fref(face), gr_face_n_languages(face)); r = buf;
                        for (unsigned i = 0; i < gr_face_n_languages(face); ++i) { r += (i ? "," : "") + hex32(gr_face_lang_by_index(face, i)); }
                    }
                    out += (first ? "" : " ") + r;
                    first = false;
                }
                for (auto f : fv) if (f) gr_featureval_destroy(f);
                gr_face_destroy(face);
                if (g_faults) out = "fault";
            }
        }
        puts(out.c_str());
        fflush(stdout);
    }
    return 0;
}

// A table-callback face over a backing font file whose tables can be replaced (exact-size heap copies, so ASan sees
// any access outside a table) and whose get/release traffic is recorded.
#pragma once
#include "common.h"
#include <map>
#include <fstream>
#include <graphite2/Font.h>

struct CbFace {
    std::vector<uint8_t> ttf;
    std::map<uint32_t, std::pair<uint8_t *, size_t>> tables;      // heap copies, one allocation per table
    std::map<uint32_t, bool> absent;
    int gets = 0, releases = 0, outstanding = 0, late_gets = 0;
    bool sealed = false;                                          // set after gr_make_face returns (C16: preloadAll)
    bool fresh = false;                                           // every get hands out its own heap copy, freed on release (C16)
    std::vector<void *> lent;                                     // fresh mode: copies currently with the library
    int bad_releases = 0;                                         // release of a pointer that is not outstanding
    std::vector<std::string> trace;
    bool tracing = false;

    static uint32_t be32(const uint8_t *p) { return (uint32_t(p[0]) << 24) | (p[1] << 16) | (p[2] << 8) | p[3]; }
    static uint32_t be16(const uint8_t *p) { return (p[0] << 8) | p[1]; }

    explicit CbFace(const char *path) {
        std::ifstream f(path, std::ifstream::binary);
        ttf.assign(std::istreambuf_iterator<char>(f), std::istreambuf_iterator<char>());
        if (ttf.size() < 12) return;
        unsigned n = be16(&ttf[4]);
        for (unsigned i = 0; i < n && 12 + 16 * (i + 1) <= ttf.size(); ++i) {
            const uint8_t *r = &ttf[12 + 16 * i];
            uint32_t tag = be32(r), off = be32(r + 8), len = be32(r + 12);
            if (off <= ttf.size() && len <= ttf.size() - off) set(tag, &ttf[off], len);
        }
    }
    ~CbFace() { for (auto &t : tables) free(t.second.first); for (void *q : lent) free(q); }
    void set(uint32_t tag, const uint8_t *p, size_t n) {
        auto it = tables.find(tag);
        if (it != tables.end()) free(it->second.first);
        uint8_t *c = (uint8_t *)malloc(n ? n : 1);
        if (n) memcpy(c, p, n);
        tables[tag] = {c, n};
        absent.erase(tag);
    }
    void remove(uint32_t tag) { absent[tag] = true; }

    static const void *get_table(const void *h, unsigned int name, size_t *len) {
        CbFace *s = (CbFace *)h;
        ++s->gets;
        if (s->sealed) ++s->late_gets;
        auto it = s->tables.find(name);
        if (it == s->tables.end() || s->absent.count(name)) { *len = 0; if (s->tracing) s->trace.push_back("get " + hex32(name) + " none"); return 0; }
        ++s->outstanding;
        *len = it->second.second;
        if (s->tracing) s->trace.push_back("get " + hex32(name));
        if (s->fresh) {
            void *c = malloc(it->second.second ? it->second.second : 1);
            if (it->second.second) memcpy(c, it->second.first, it->second.second);
            s->lent.push_back(c);
            return c;
        }
        return it->second.first;
    }
    static void release_table(const void *h, const void *p) {
        CbFace *s = (CbFace *)h;
        ++s->releases; --s->outstanding;
        if (s->fresh) {
            bool found = false;
            for (size_t i = 0; i < s->lent.size(); ++i) if (s->lent[i] == p) { s->lent.erase(s->lent.begin() + i); found = true; break; }
            if (!found) { ++s->bad_releases; return; }
            free(const_cast<void *>(p));       // from now on any access by the library is a use-after-free the sanitizer reports
            return;
        }
        if (s->tracing) {
            std::string tg = "?";
            for (auto &t : s->tables) if (t.second.first == p) tg = hex32(t.first);
            s->trace.push_back("rel " + tg);
        }
    }
    gr_face *make(unsigned opts) {
        static gr_face_ops ops = { sizeof(gr_face_ops), get_table, release_table };
        gr_face *f = gr_make_face_with_ops(this, &ops, opts);
        return f;
    }
};
#define TAG(a,b,c,d) ((uint32_t(a) << 24) | (uint32_t(b) << 16) | (uint32_t(c) << 8) | uint32_t(d))

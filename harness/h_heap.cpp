// Component harness for the slot heap (C03 C04 C05 C02): real Segment / SlotMap / Machine::Code / Machine running action
// bytecode on a hand-built segment, followed by what Pass::doAction and findNDoRule do around it.
// usage: h_heap font.ttf
#include "common.h"
#include <algorithm>
#include <graphite2/Font.h>
#include <graphite2/Segment.h>
#include "inc/Code.h"
#include "inc/Rule.h"
#include "inc/Silf.h"
#include "inc/Face.h"
#include "inc/Segment.h"
#include "inc/Slot.h"

using namespace graphite2;
using namespace vm;

static const char *load_msg[] = {"loaded", "alloc_failed", "invalid_opcode", "unimplemented_opcode_used", "out_of_range_data",
    "jump_past_end", "arguments_exhausted", "missing_return", "nested_context_item", "underfull_stack"};
static const char *run_msg[] = {"finished", "stack_underflow", "stack_not_empty", "stack_overflow", "slot_offset_out_bounds", "died_early"};

static std::vector<Slot *> stream(Segment &seg, size_t cap) {
    std::vector<Slot *> v;
    for (Slot *s = seg.first(); s && v.size() < cap; s = s->next()) v.push_back(s);
    return v;
}
static int pos_of(const std::vector<Slot *> &v, const Slot *s) {
    if (!s) return -1;
    for (size_t i = 0; i < v.size(); ++i) if (v[i] == s) return (int)i;
    return -2;
}

int main(int argc, char **argv) {
    if (argc < 2) return 2;
    gr_face *face = gr_make_file_face(argv[1], gr_face_default);
    if (!face) return 3;
    std::string line;
    char buf[256];
    while (std::getline(std::cin, line)) {
        auto w = words(line);
        g_faults = 0;
        std::string out = "bad-op";
        std::vector<uint8_t> b;
        if (w.size() == 9 && w[0] == "heap" && parse_hex(w[8], b)) {
            int dir = atoi(w[1].c_str()), maxSize = atoi(w[2].c_str()), n = atoi(w[3].c_str()), start = atoi(w[4].c_str()),
                ctxt = atoi(w[5].c_str()), win = atoi(w[6].c_str()), hw = atoi(w[7].c_str());
            Segment *seg = new Segment(n, face, 0, dir);
            for (int i = 0; i < n; ++i) seg->appendSlot(i, 0x61 + i, 1 + i % 5, 0, i);
            auto l = stream(*seg, 1000);
            int first = start - ctxt;
            if (first < 0 || first + win > (int)l.size() || win < 1 || win > 60) { out = "bad-window"; delete seg; puts(out.c_str()); fflush(stdout); continue; }
            Exact e(b);
            const Silf *silf = seg->silf();
            Machine::Code prog(false, e.p, e.p + e.n, (uint8)ctxt, (uint16)win, *silf, *face, PASS_TYPE_SUBSTITUTE);
            if (g_faults) out = "load-fault";
            else if (!prog) out = std::string("load=") + (prog.status() == Machine::Code::loaded ? "empty" : load_msg[prog.status()]);
            else {
                SlotMap smap(*seg, dir, maxSize);
                Machine m(smap);
                smap.reset(*l[first], ctxt);
                for (int k = 0; k < win; ++k) smap.pushSlot(l[first + k]);
                smap.pushSlot(first + win < (int)l.size() ? l[first + win] : 0);
                smap.highwater(hw >= 0 && hw < (int)l.size() ? l[hw] : 0);
                // Pass::doAction
                slotref *map = &smap[smap.context()];
                smap.highpassed(false);
                int32 ret = prog.run(m, map);
                Slot *slot_out = 0;
                if (m.status() != Machine::finished) { slot_out = 0; smap.highwater(0); }
                else {
                    slot_out = *map;
                    // findNDoRule
                    if (prog.deletes()) smap.collectGarbage(slot_out);
                }
                if (g_faults) out = "fault";
                else {
                    auto v = stream(*seg, 2000);
                    snprintf(buf, sizeof buf, "ret=%d status=%s out=%d hw=%d hp=%d n=%zu walk=%zu last=%d", ret, run_msg[m.status()], pos_of(v, slot_out),
                             pos_of(v, smap.highwater()), smap.highpassed() ? 1 : 0, seg->slotCount(), v.size(), pos_of(v, seg->last()));
                    out = buf;
                    for (auto s : v) {
                        snprintf(buf, sizeof buf, " s:%u,%d,%d,%d,%d,%d,%d,%d,%d", s->gid(), s->before(), s->after(), s->original(), pos_of(v, s->prev()),
                                 pos_of(v, s->attachedTo()), pos_of(v, s->firstChild()), pos_of(v, s->nextSibling()), s->isDeleted() ? 1 : 0);
                        out += buf;
                    }
                }
            }
            delete seg;
        }
        else if (w.size() >= 2 && w[0] == "assoc") {
            // assoc <nchars> <before>,<after> ... : Segment::associateChars on a stream with the given slot ranges
            int n = atoi(w[1].c_str()), m = (int)w.size() - 2;
            if (n < 1 || m > 64 || n > 64) out = "bad-op";
            else {
                Segment *seg = new Segment(n, face, 0, 0);
                for (int i = 0; i < m; ++i) seg->appendSlot(i % n, 0x61, 1, 0, i % n);
                auto l = stream(*seg, 1000);
                bool ok = (int)l.size() == m;
                for (int i = 0; ok && i < m; ++i) {
                    int b, a;
                    if (sscanf(w[2 + i].c_str(), "%d,%d", &b, &a) != 2) { ok = false; break; }
                    l[i]->before(b); l[i]->after(a);
                }
                if (!ok) out = "bad-op";
                else {
                    seg->associateChars(0, n);
                    if (g_faults) out = "fault";
                    else {
                        out.clear();
                        for (auto s : l) { snprintf(buf, sizeof buf, "%ss:%d,%d", out.empty() ? "" : " ", s->before(), s->after()); out += buf; }
                        for (int i = 0; i < n; ++i) { snprintf(buf, sizeof buf, "%sc:%d,%d", out.empty() ? "" : " ", seg->charinfo(i)->before(), seg->charinfo(i)->after()); out += buf; }
                    }
                }
                delete seg;
            }
        }
        else if (w.size() == 2 && w[0] == "jsize") {
            // jsize <levels> : the stride of the justification records and the two sizes it is made of
            snprintf(buf, sizeof buf, "size_of=%zu rec=%zu ptr=%zu params=%d", SlotJustify::size_of(size_t(atoi(w[1].c_str()))), sizeof(SlotJustify), sizeof(SlotJustify *), int(SlotJustify::NUMJUSTPARAMS));
            out = buf;
        }
        else if (w.size() >= 2 && w[0] == "lines") {
            // lines <n> <op>... : gr_slot_linebreak_before / Segment::addLineEnd / delLineEnd on a hand-built segment
            int n = atoi(w[1].c_str());
            if (n < 1 || n > 60) out = "bad-op";
            else {
                Segment *seg = new Segment(n, face, 0, 0);
                for (int i = 0; i < n; ++i) seg->appendSlot(i, 0x61 + i, 1 + i % 5, 0, i);
                std::vector<Slot *> ids = stream(*seg, 1000);
                std::vector<Slot *> sents;
                bool fault = false, bad = false;
                for (size_t k = 2; k < w.size() && !fault && !bad; ++k) {
                    char c = w[k][0]; int v = atoi(w[k].c_str() + 1);
                    Slot *sl = (v >= 0 && v < (int)ids.size()) ? ids[v] : 0;
                    if (c == 'b') { if (sl) { if (!sl->prev()) fault = true; else gr_slot_linebreak_before(reinterpret_cast<gr_slot *>(sl)); } }
                    else if (c == 'a') {
                        if (!sl && !seg->last()) fault = true;
                        else { Slot *e = seg->addLineEnd(sl); if (!e) fault = true; else { ids.push_back(e); sents.push_back(e); } }
                    }
                    else if (c == 'd') {
                        if (v >= 0 && v < (int)sents.size() && sents[v]) {
                            Slot *e = sents[v];
                            if (!e->next() && !e->prev()) fault = true;
                            else { seg->delLineEnd(e); sents[v] = 0; }
                        }
                    }
                    else if (c == 'F') seg->first(sl);
                    else if (c == 'L') seg->last(sl);
                    else bad = true;
                }
                if (bad) out = "bad-op";
                else if (fault || g_faults) out = "fault";
                else {
                    std::vector<std::pair<Slot *, int>> live;
                    for (size_t k = 0; k < ids.size(); ++k)
                        if ((int)k < n || std::find(sents.begin(), sents.end(), ids[k]) != sents.end()) live.push_back({ids[k], (int)k});
                    auto idof = [&](const Slot *p) { if (!p) return -1; for (auto &q : live) if (q.first == p) return q.second; return -2; };
                    snprintf(buf, sizeof buf, "first=%d last=%d", idof(seg->first()), idof(seg->last())); out = buf;
                    for (auto &q : live) { snprintf(buf, sizeof buf, " %d:%d,%d", q.second, idof(q.first->next()), idof(q.first->prev())); out += buf; }
                }
                // the harness may have left the list cut or first/last redirected: free through the arena, not the list
                seg->first(0); seg->last(0);
                delete seg;
            }
        }
        puts(out.c_str());
        fflush(stdout);
    }
    gr_face_destroy(face);
    return 0;
}

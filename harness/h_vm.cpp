// C07/C02 harness: Machine::Code loader and Machine::run on byte programs (built once per interpreter flavour).
// usage: h_vm font.ttf
#include "common.h"
#include <graphite2/Font.h>
#include <graphite2/Segment.h>
#include "inc/Code.h"
#include "inc/Rule.h"
#include "inc/Silf.h"
#include "inc/Face.h"
#include "inc/Segment.h"

using namespace graphite2;
using namespace vm;

static const char *load_msg[] = {"loaded", "alloc_failed", "invalid_opcode", "unimplemented_opcode_used", "out_of_range_data",
    "jump_past_end", "arguments_exhausted", "missing_return", "nested_context_item", "underfull_stack"};
static const char *run_msg[] = {"finished", "stack_underflow", "stack_not_empty", "stack_overflow", "slot_offset_out_bounds", "died_early"};

int main(int argc, char **argv) {
    if (argc < 2) return 2;
    gr_face *face = gr_make_file_face(argv[1], gr_face_default);
    if (!face) return 3;
    gr_segment *gseg = gr_make_seg(0, face, 0, 0, gr_utf8, "ab", 2, 0);
    if (!gseg) return 4;
    Segment &seg = *static_cast<Segment *>(gseg);
    std::string line;
    char buf[128];
    while (std::getline(std::cin, line)) {
        auto w = words(line);
        g_faults = 0;
        std::string out = "bad-op";
        std::vector<uint8_t> b;
        if (w.size() == 4 && w[0] == "vm" && parse_hex(w[3], b)) {
            Exact e(b);
            Silf silf;
            Machine::Code prog(w[1] == "c", e.p, e.p + e.n, 0, 0, silf, *face, PASS_TYPE_UNKNOWN);
            if (g_faults) out = "load-fault";
            else if (!prog) out = std::string("load=") + (prog.status() == Machine::Code::loaded ? "empty" : load_msg[prog.status()]);
            else {
                SlotMap smap(seg, 0, 0);
                Machine m(smap);
                smap.pushSlot(seg.first());
                slotref *map = smap.begin();
                int32 ret = prog.run(m, map);
                if (g_faults) out = "load=loaded fault";
                else { snprintf(buf, sizeof buf, "load=loaded run=%s ret=%d", run_msg[m.status()], ret); out = buf; }
            }
        }
        puts(out.c_str());
        fflush(stdout);
    }
    gr_seg_destroy(gseg);
    gr_face_destroy(face);
    return 0;
}

// Shared helpers of the C++ harnesses: line protocol, hex, exact-size heap buffers, sanitizer fault counter.
#pragma once
#include <cstdio>
#include <cstdlib>
#include <cstring>
#include <cstdint>
#include <string>
#include <vector>
#include <sstream>
#include <iostream>

// ASan runs with halt_on_error=0 (-fsanitize-recover=address): an out-of-bounds access of the real code is counted here
// and reported as `fault` for the line being processed instead of ending the process.
static volatile int g_faults = 0;
extern "C" void __asan_on_error() { ++g_faults; }
extern "C" int __lsan_do_recoverable_leak_check();
extern "C" const char *__asan_default_options() { return "halt_on_error=0:detect_leaks=0"; }

static inline int hexval(char c) {
    if (c >= '0' && c <= '9') return c - '0';
    if (c >= 'a' && c <= 'f') return c - 'a' + 10;
    if (c >= 'A' && c <= 'F') return c - 'A' + 10;
    return -1;
}
// "-" = empty
static inline bool parse_hex(const std::string &s, std::vector<uint8_t> &out) {
    out.clear();
    if (s == "-") return true;
    if (s.size() % 2) return false;
    for (size_t i = 0; i < s.size(); i += 2) {
        int a = hexval(s[i]), b = hexval(s[i + 1]);
        if (a < 0 || b < 0) return false;
        out.push_back(uint8_t(a * 16 + b));
    }
    return true;
}
static inline std::string to_hex(const uint8_t *p, size_t n) {
    if (n == 0) return "-";
    static const char *d = "0123456789abcdef";
    std::string s;
    for (size_t i = 0; i < n; ++i) { s += d[p[i] >> 4]; s += d[p[i] & 15]; }
    return s;
}
static inline std::string hex32(uint32_t v) { char b[16]; snprintf(b, sizeof b, "%08x", v); return b; }
static inline std::vector<std::string> words(const std::string &line) {
    std::vector<std::string> w; std::istringstream is(line); std::string t;
    while (is >> t) w.push_back(t);
    return w;
}
// exact-size heap copy (so that ASan sees any access outside what the caller "owns")
struct Exact {
    uint8_t *p; size_t n;
    explicit Exact(const std::vector<uint8_t> &v) : n(v.size()) { p = (uint8_t *)malloc(n ? n : 1); if (n) memcpy(p, v.data(), n); if (!n) { free(p); p = (uint8_t *)malloc(0); } }
    Exact(size_t sz, uint8_t fill) : n(sz) { p = (uint8_t *)malloc(sz); memset(p, fill, sz); }
    ~Exact() { free(p); }
    Exact(const Exact &) = delete;
};

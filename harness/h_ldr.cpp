// Loader components (C01): the sfnt container as FileFace reads it, and Pass::readRanges.
// usage: h_ldr <scratch dir>
#include <cstdio>
#define private public
#define protected public
#include "inc/Main.h"
#include "inc/FileFace.h"
#include "inc/Pass.h"
#include "inc/Error.h"
#undef private
#undef protected
#include "common.h"
#include <unistd.h>

using namespace graphite2;

static std::string digest(const uint8_t *p, size_t n) {
    unsigned long long h = 7;
    for (size_t i = 0; i < n; ++i) h = (h * 1000003ULL + p[i] + 1) % 4294967291ULL;
    char buf[64]; snprintf(buf, sizeof buf, "%zu:%llu", n, h); return buf;
}

int main(int argc, char **argv) {
    if (argc < 2) return 2;
    std::string dir = argv[1];
    std::string line;
    char buf[256];
    snprintf(buf, sizeof buf, "%s/ldr-%d.bin", dir.c_str(), (int)getpid());
    std::string path = buf;
    while (std::getline(std::cin, line)) {
        auto w = words(line);
        g_faults = 0;
        std::string out = "bad-op";
        std::vector<uint8_t> b;
        if (w.size() >= 2 && w[0] == "sfnt" && parse_hex(w[1], b)) {
            FILE *f = fopen(path.c_str(), "wb");
            if (f) { if (!b.empty()) fwrite(b.data(), 1, b.size(), f); fclose(f); }
            FileFace *ff = new FileFace(path.c_str());
            if (!*ff) out = "noface";
            else {
                out.clear();
                for (size_t k = 2; k < w.size(); ++k) {
                    unsigned tag = (unsigned)strtoul(w[k].c_str(), 0, 16);
                    size_t len = 0;
                    const void *t = FileFace::ops.get_table(ff, tag, &len);
                    out += (out.empty() ? "" : " ");
                    if (!t) out += "-";
                    else { out += digest((const uint8_t *)t, len); FileFace::ops.release_table(ff, t); }
                }
            }
            delete ff;
            if (g_faults) out = "fault";
        } else if (w.size() == 5 && w[0] == "ranges" && parse_hex(w[4], b)) {
            unsigned ng = atoi(w[1].c_str()), nc = atoi(w[2].c_str()), nr = atoi(w[3].c_str());
            Pass *p = new Pass();
            p->m_numGlyphs = (uint16)ng; p->m_numColumns = (uint16)nc;
            Exact e(b);
            Error err;
            bool ok = b.size() >= 6 * (size_t)nr && p->readRanges(e.p, nr, err);
            if (b.size() < 6 * (size_t)nr) out = "bad-op";
            else if (g_faults) out = "fault";
            else if (!ok) out = "badrange";
            else {
                out.clear();
                for (unsigned g = 0; g < ng; ++g) { snprintf(buf, sizeof buf, "%s%u", g ? "," : "", (unsigned)p->m_cols[g]); out += buf; }
            }
            delete p;
        }
        puts(out.c_str());
        fflush(stdout);
    }
    unlink(path.c_str());
    return 0;
}

-- This module serves as the root of the `GrVerif` library.
-- Import modules here that should be built as part of the library.
import GrVerif.Basic

import Driver.Util
import GrVerif.Model.Loader
namespace Driver.Loader
open GrVerif.Loader Driver

def digest (b : List Nat) : String :=
  let h := b.foldl (fun acc x => (acc * 1000003 + x + 1) % 4294967291) 7
  s!"{b.length}:{h}"

/-- `sfnt <hex file> <tag hex> <tag hex> ...` : for each tag the table FileFace hands out (`len:digest` or `-`) -/
def stepSfnt (ws : List String) : String :=
  match ws with
  | fh :: tags =>
    match parseHexUnits 2 fh with
    | none => "bad-op"
    | some file =>
      let file := file.toList
      match openFile file with
      | .error _ => "fault"
      | .ok none => "noface"
      | .ok (some f) =>
        let outs := tags.map fun t =>
          match parseHexNat t with
          | none => "bad"
          | some tag =>
            match getTable file f tag with
            | .error _ => "fault"
            | .ok none => "-"
            | .ok (some (off, len)) => digest ((file.drop off).take len)
        String.intercalate " " outs
  | _ => "bad-op"

/-- `ranges <numGlyphs> <numColumns> <numRanges> <hex range bytes>` -/
def stepRanges (ws : List String) : String :=
  match ws with
  | [ng, nc, nr, h] =>
    match ng.toNat?, nc.toNat?, nr.toNat?, parseHexUnits 2 h with
    | some ng, some nc, some nr, some b =>
      match readRanges ng nc b.toList nr with
      | .error _ => "fault"
      | .ok none => "badrange"
      | .ok (some cols) => String.intercalate "," (cols.map toString)
    | _, _, _, _ => "bad-op"
  | _ => "bad-op"

def step (line : String) : String :=
  match words line with
  | "sfnt" :: rest => stepSfnt rest
  | "ranges" :: rest => stepRanges rest
  | _ => "bad-op"

end Driver.Loader

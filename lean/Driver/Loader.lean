import Driver.Util
import GrVerif.Model.Loader
import GrVerif.Model.PassLoad
import GrVerif.Model.ClassMap
import GrVerif.Model.SilfLoad
import GrVerif.Model.CodeLoad
import GrVerif.Model.RulesLoad
import GrVerif.Model.GlyphLoad
import GrVerif.Model.FaceLoad
import GrVerif.Model.GlyphGfx
import GrVerif.Model.FaceLoadAll
import GrVerif.Model.NameLoad
import GrVerif.Proofs.CursorPass
namespace Driver.Loader
open GrVerif.Loader Driver

def digest (b : List Nat) : String :=
  let h := b.foldl (fun acc x => (acc * 1000003 + x + 1) % 4294967291) 7
  s!"{b.length}:{h}"

/-- `sfnt <hex file> <tag hex> <tag hex> ...` : for each tag the table FileFace hands out (`len:digest` or `-`) -/
def stepSfnt (ws : List String) : String :=
  match ws with
  | fh :: tags =>
    match parseHexUnits 2 fh with
    | none => "bad-op"
    | some file =>
      let file := file.toList
      match openFile file with
      | .error _ => "fault"
      | .ok none => "noface"
      | .ok (some f) =>
        let outs := tags.map fun t =>
          match parseHexNat t with
          | none => "bad"
          | some tag =>
            match getTable file f tag with
            | .error _ => "fault"
            | .ok none => "-"
            | .ok (some (off, len)) => digest ((file.drop off).take len)
        String.intercalate " " outs
  | _ => "bad-op"

/-- `ranges <numGlyphs> <numColumns> <numRanges> <hex range bytes>` -/
def stepRanges (ws : List String) : String :=
  match ws with
  | [ng, nc, nr, h] =>
    match ng.toNat?, nc.toNat?, nr.toNat?, parseHexUnits 2 h with
    | some ng, some nc, some nr, some b =>
      match readRanges ng nc b.toList nr with
      | .error _ => "fault"
      | .ok none => "badrange"
      | .ok (some cols) => String.intercalate "," (cols.map toString)
    | _, _, _, _ => "bad-op"
  | _ => "bad-op"

/-- `pass <subtable base> <pass type> <collision flags allowed: 0|1> <classes> <gattrs> <feats> <user> <hex pass bytes>` : `Pass::readPass` -/
def stepPass (ws : List String) : String :=
  match ws with
  | [base, pt, cok, cl, ga, fe, us, h] =>
    match base.toNat?, pt.toNat?, cok.toNat?, cl.toNat?, ga.toNat?, fe.toNat?, us.toNat?, parseHexUnits 2 h with
    | some base, some pt, some cok, some cl, some ga, some fe, some us, some b =>
      match readPassAll b.toList base (cok ≠ 0) { classes := cl, glyfAttrs := ga, features := fe, numUser := us } pt with
      | .error _ => "fault"
      | .ok (.error e) => s!"E{e}"
      | .ok (.ok P) =>
        let L := P.layout
        let f := L.hdr.flags
        let hd := s!"ok {L.hdr.maxLoop},{L.hdr.numRules},{L.hdr.numStates},{L.hdr.numTransition},{L.hdr.numSuccess},{L.hdr.numColumns},{L.arr.numGlyphs},{L.arr.minPre},{L.arr.maxPre},{L.arr.colThreshold},{(f / 32) % 2},{f % 8},{(f / 8) % 4}"
        match P.tables with
        | none => hd ++ " R:- S:- U:-"
        | some T =>
          let sz (p : Option GrVerif.CodeLoad.Loaded) : List Nat := match p with | none => [0, 0] | some p => [p.instrs.length, p.dataSize]
          let us := P.rules.flatMap fun r => [r.sort, r.pre] ++ sz r.action ++ sz r.constraint
          let ss := digest (T.starts ++ T.trans ++ T.ruleRange.flatMap fun (r : Nat × Nat) => [r.1, min (r.2 - r.1) 128])
          s!"{hd} R:{digest P.cols} S:{ss} U:{digest us}"
    | _, _, _, _, _, _, _, _ => "bad-op"
  | _ => "bad-op"

/-- `classmap <wide> <hex> <cid.x,…>` -/
def stepClassMap (ws : List String) : String :=
  match ws with
  | [wd, h, probes] =>
    match wd.toNat?, parseHexUnits 2 h with
    | some wd, some b =>
      match readClassMap b.toList (wd ≠ 0) with
      | .error _ => "fault"
      | .ok (.error e) => s!"E{e}"
      | .ok (.ok m) =>
        let ps := (probes.splitOn ",").filterMap fun p => match p.splitOn "." with
          | [c, x] => (match c.toNat?, x.toNat? with | some c, some x => some (c, x) | _, _ => none)
          | _ => none
        let ps := ps.filter fun p => p.1 ≠ m.nClass
        let show1 (r : Except Fault Nat) : String := match r with | .ok v => toString v | .error _ => "fault"
        let g := String.intercalate "," (ps.map fun p => show1 (getClassGlyph m p.1 p.2))
        let f := String.intercalate "," (ps.map fun p => show1 (findClassIndex m p.1 p.2))
        s!"ok {m.nClass},{m.nLinear} O:{digest m.offsets} D:{digest m.data} G:{g} F:{f}"
    | _, _ => "bad-op"
  | _ => "bad-op"

def describeSilf (t : SilfTable) : String :=
  let f := t.fixed
  let m := t.mid
  let ps := t.pseudos.flatMap fun (r : Nat × Nat) => [r.1, r.2]
  let pp := t.passes.flatMap fun s => [s.pass.layout.hdr.numRules, s.pass.layout.hdr.numStates]
  s!"{f.numPasses},{f.sPass},{f.pPass},{f.jPass},{f.bPass},{f.flags},{f.aPseudo},{f.aBreak},{f.aBidi},{f.aMirror},{f.aPassBits},{f.numJusts},{m.aLig},{m.aUser},{m.iMaxComp},{m.dir},{m.aCollision},{m.gEndLine},{t.pseudos.length} PS:{digest ps} C:{t.classes.nClass},{t.classes.nLinear} P:{digest pp}"

/-- the engine's error context does not survive the pass loader, so the pass number is not part of what is compared -/
def showSilfErr : SilfErr → String
  | .silf c => s!"E{c}"
  | .pass _ c => s!"E{c}"

/-- `silf <version> <numGlyphs> <numAttrs> <hasBoxes> <numFeatures> <hex>` : `Silf::readGraphite` -/
def stepSilf (ws : List String) : String :=
  match ws with
  | [v, ng, na, hb, nf, h] =>
    match v.toNat?, ng.toNat?, na.toNat?, hb.toNat?, nf.toNat?, parseHexUnits 2 h with
    | some v, some ng, some na, some hb, some nf, some b =>
      match readSilf b.toList v ng na (hb ≠ 0) nf with
      | .error _ => "fault"
      | .ok (.error e) => showSilfErr e
      | .ok (.ok t) => "ok " ++ describeSilf t
    | _, _, _, _, _, _ => "bad-op"
  | _ => "bad-op"

/-- `silftable <numGlyphs> <numAttrs> <hasBoxes> <numFeatures> <hex>` : `Face::readGraphite` -/
def stepSilfTable (ws : List String) : String :=
  match ws with
  | [ng, na, hb, nf, h] =>
    match ng.toNat?, na.toNat?, hb.toNat?, nf.toNat?, parseHexUnits 2 h with
    | some ng, some na, some hb, some nf, some b =>
      let bl := b.toList
      -- not the subject here: what `Face::Table` does not hand out (`TtfUtil::CheckTable`: shorter than 4 bytes) or decompresses first (C14)
      if bl.length < 4 then "notable" else
      if bl.length ≥ 8 ∧ ((bl.getD 0 0 * 256 + bl.getD 1 0) * 256 + bl.getD 2 0) * 256 + bl.getD 3 0 ≥ 0x00050000 ∧ bl.getD 4 0 / 8 ≠ 0 then "compressed" else
      match readSilfTable bl ng na (hb ≠ 0) nf with
      | .error _ => "fault"
      | .ok (.error e) => showSilfErr e
      | .ok (.ok ts) =>
        let have_ := ts.any fun t => t.fixed.numPasses ≠ 0
        String.intercalate " | " ((if have_ then s!"ok {ts.length}" else s!"nopasses {ts.length}") :: ts.map describeSilf)
    | _, _, _, _, _ => "bad-op"
  | _ => "bad-op"

/-- `code <constraint> <passtype> <pre_context> <rule_length> <classes> <gattrs> <feats> <user> <hex>` : the code loader -/
def stepCode (ws : List String) : String :=
  match ws.map String.toNat?, ws.getLast? with
  | [some c, some pt, some pre, some rl, some cl, some ga, some fe, some us, _], some h =>
    match parseHexUnits 2 h with
    | none => "bad-op"
    | some b =>
      if b.isEmpty then "bad-op" else
      match GrVerif.CodeLoad.load { preContext := pre, ruleLength := rl, classes := cl, glyfAttrs := ga, features := fe, numUser := us } (c ≠ 0) pt b.toList with
      | .error _ => "fault"
      | .ok (.error s) => s!"S{s}"
      | .ok (.ok none) => "empty"
      | .ok (.ok (some p)) =>
        let ops := (p.instrs.map fun i => if i.1 = 27 then 25 else i.1) ++ [49]
        let data := p.instrs.flatMap fun i => i.2
        s!"ok ic={p.instrs.length} ds={p.dataSize} mr={p.maxRef} mod={if p.modify then 1 else 0} del={if p.delete then 1 else 0} I:{String.intercalate "," (ops.map toString)} D:{digest data}"
  | _, _ => "bad-op"

/-- `codecur <constraint> <passtype> <pre_context> <rule_length> … <hex>` : the loader's cursor tests as the theorems of Props/C02 use
them (`codeOK`, Proofs/CursorPass) on the same bytes: `cur=1` when the code passes them from `(_out_index, _out_length) =
(pre_context, rule_length)` (action code; `pre_context < rule_length` as `Pass::readRules` demands) or `(0, 1)` (constraints) -/
def stepCodeCur (ws : List String) : String :=
  match ws.map String.toNat?, ws.getLast? with
  | [some c, some pt, some pre, some rl, some cl, some ga, some fe, some us, _], some h =>
    match parseHexUnits 2 h with
    | none => "bad-op"
    | some b =>
      let ok := if c ≠ 0 then GrVerif.Pass.codeOK ⟨0, 1, false⟩ b.toList false
                else decide (pre < rl) && GrVerif.Pass.codeOK ⟨pre, rl, false⟩ b.toList true
      -- the two decoders of the same bytes - the loader model (`CodeLoad.load`, the subject of `accepted_action_passes_cursor_tests`) and the
      -- pipeline model's `mkCode` (the subject of `codeOK`) - must produce the same instruction list and `deletes` flag
      let same :=
        -- (action code only: in constraint code the loader rewrites the operands of `CNTXT_ITEM`, and none of the opcodes the cursor
        -- tests look at may occur there)
        if c ≠ 0 then "-" else
        match GrVerif.CodeLoad.load { preContext := pre, ruleLength := rl, classes := cl, glyfAttrs := ga, features := fe, numUser := us } (c ≠ 0) pt b.toList,
              GrVerif.Pass.mkCode b.toList (c = 0) with
        | .ok (.ok (some p)), some k =>
          -- `mkCode` keeps the closing return, the loader model drops nothing either; constraint code has no `TEMP_COPY`
          if p.instrs == k.instrs && (c ≠ 0 || p.delete == k.deletes) then "1" else "0"
        | .ok (.ok (some _)), none => "0"
        | _, _ => "-"
      (if ok then "cur=1" else "cur=0") ++ " same=" ++ same
  | _, _ => "bad-op"

/-- `glyphs <options> <chunk bits> <numGlyphsGraphics> <Gloc hex> <Glat hex> <gid,…> <key,…>` : `GlyphCache` -/
def stepGlyphs (ws : List String) : String :=
  match ws with
  | [opts, cb, ngg, h1, h2, gids, keys] =>
    match opts.toNat?, cb.toNat?, ngg.toNat?, parseHexUnits 2 h1, parseHexUnits 2 h2 with
    | some opts, some cb, some ngg, some gloc, some glat =>
      if cb ≠ chunkBits then "bad-op" else
      let gl := glat.toList
      -- not the subject here: a Glat table that `Face::Table` has to decompress first (C14)
      if gl.length ≥ 8 ∧ ((gl.getD 0 0 * 256 + gl.getD 1 0) * 256 + gl.getD 2 0) * 256 + gl.getD 3 0 ≥ 0x00030000 ∧ gl.getD 4 0 / 8 ≠ 0 then "compressed" else
      let gids := (gids.splitOn ",").filterMap String.toNat?
      let keys := (keys.splitOn ",").filterMap String.toNat?
      match glyphCache gloc.toList glat.toList ngg ((opts / 2) % 2 = 1) gids with
      | .error _ => "fault"
      | .ok none => "noglyphs"
      | .ok (some c) =>
        let showG (g : GlyphAns) : String := match g with
          | .noSuch => "-"
          | .notLoaded => "F"
          | .loaded sp bx =>
            let ch := sp.chunks.flatMap fun (c : Chunk) => [c.mask % 16777216, (c.mask / 16777216) % 16777216, c.offset]
            let looks := keys.map fun k => match sp.get (k % 65536) with | .ok v => toString v | .error _ => "fault"
            let b := match bx with | some (bm, n) => s!"{n},{bm}" | none => "-"
            s!"n={sp.nchunks} C:{digest ch} V:{digest (sp.values.take sp.capacity)} L:{String.intercalate "," looks} B:{b}"
        String.intercalate " | " (s!"ok {c.numGlyphs} {c.numAttrs} {if c.hasBoxes then 1 else 0}" :: c.glyphs.map showG)
    | _, _, _, _, _ => "bad-op"
  | _ => "bad-op"

def isCompressed (t : List Nat) (minVersion : Nat) : Bool :=
  decide (t.length ≥ 8 ∧ ((t.getD 0 0 * 256 + t.getD 1 0) * 256 + t.getD 2 0) * 256 + t.getD 3 0 ≥ minVersion ∧ t.getD 4 0 / 8 ≠ 0)

/-- `face <options> <chunk bits> <glyph count of maxp> <Silf> <Gloc> <Glat> <Feat> <Sill>` (hex, `-` = absent) : `gr_make_face` -/
def stepFace (ws : List String) : String :=
  match ws with
  | [opts, cb, ngg, h1, h2, h3, h4, h5] =>
    match opts.toNat?, cb.toNat?, ngg.toNat?, parseHexUnits 2 h1, parseHexUnits 2 h2, parseHexUnits 2 h3, parseHexUnits 2 h4, parseHexUnits 2 h5 with
    | some opts, some cb, some ngg, some silf, some gloc, some glat, some feat, some sill =>
      if cb ≠ chunkBits then "bad-op" else
      if isCompressed silf.toList 0x00050000 || isCompressed glat.toList 0x00030000 then "compressed" else
      match loadFace silf.toList gloc.toList glat.toList feat.toList sill.toList ngg ((opts / 2) % 2 = 1) with
      | .error _ => "fault"
      | .ok none => "noface"
      | .ok (some f) =>
        let passes := f.silfs.map fun t => toString t.fixed.numPasses
        s!"ok {f.numGlyphs} {f.numFeatures} {f.numLanguages} {f.silfs.length}:{String.intercalate "," passes}"
    | _, _, _, _, _, _, _, _ => "bad-op"
  | _ => "bad-op"

/-- `faceall <options> <chunk bits> <head> <hhea> <hmtx> <maxp> <glyf> <loca> <cmap> <Silf> <Gloc> <Glat> <Feat> <Sill>` (hex, `-` = absent) : `gr_make_face` -/
def stepFaceAll (ws : List String) : String :=
  match ws with
  | opts :: cb :: tabs =>
    match opts.toNat?, cb.toNat?, tabs.mapM (fun h => parseHexUnits 2 h) with
    | some opts, some cb, some [head, hhea, hmtx, maxp, glyf, loca, cmap, silf, gloc, glat, feat, sill] =>
      if cb ≠ chunkBits then "bad-op" else
      if isCompressed silf.toList 0x00050000 || isCompressed glat.toList 0x00030000 then "compressed" else
      let opt (a : Array Nat) : Option (List Nat) := if a.isEmpty then none else some a.toList
      let t : AllTables := { head := opt head, hhea := opt hhea, hmtx := opt hmtx, maxp := opt maxp, glyf := opt glyf, loca := opt loca,
                             silf := silf.toList, gloc := gloc.toList, glat := glat.toList, feat := feat.toList, sill := sill.toList }
      match loadFaceCmap t (opt cmap) ((opts / 2) % 2 = 1) ((opts / 4) % 2 = 1) with
      | .error _ => "fault"
      | .ok none => "noface"
      | .ok (some f) =>
        let passes := f.silfs.map fun t => toString t.fixed.numPasses
        s!"ok {f.numGlyphs} {f.numFeatures} {f.numLanguages} {f.silfs.length}:{String.intercalate "," passes}"
    | _, _, _ => "bad-op"
  | _ => "bad-op"

/-- `name <platform> <encoding> <hex> <lang.nameId,…>` : `NameTable` -/
def stepName (ws : List String) : String :=
  match ws with
  | [pl, en, h, qs] =>
    match pl.toNat?, en.toNat?, parseHexUnits 2 h with
    | some pl, some en, some b =>
      match nameInit b.toList pl en with
      | .error _ => "fault"
      | .ok none => "notable"
      | .ok (some t) =>
        let outs := (qs.splitOn ",").filterMap fun q => match q.splitOn "." with
          | [l, n] => (match l.toNat?, n.toNat? with
            | some l, some n => some (match getNameUnits b.toList t l n with
              | .error _ => "fault"
              | .ok none => "-"
              | .ok (some (lang, us)) => s!"{lang}:{digest us}")
            | _, _ => none)
          | _ => none
        s!"ok {t.platOff},{t.platLast},{t.dataLen} " ++ String.intercalate " " outs
    | _, _, _ => "bad-op"
  | _ => "bad-op"

/-- `gfx <indexToLocFormat> <numLongHorMetrics> <loca hex> <glyf hex|-> <hmtx hex> <gid,…>` : the graphics half of `read_glyph` -/
def stepGfx (ws : List String) : String :=
  match ws with
  | [fmt, nl, h1, h2, h3, gids] =>
    match fmt.toNat?, nl.toNat?, parseHexUnits 2 h1, parseHexUnits 2 h2, parseHexUnits 2 h3 with
    | some fmt, some nl, some loca, some glyf, some hmtx =>
      -- a `head` and an `hhea` that say just this
      let head := List.replicate 50 0 ++ [fmt / 256, fmt % 256, 0, 0]
      let hhea := List.replicate 34 0 ++ [nl / 256, nl % 256]
      let gl := if glyf.isEmpty then none else some (glyf.toList, loca.toList)
      let outs := ((gids.splitOn ",").filterMap String.toNat?).map fun gid =>
        match readGlyphGfx head hhea hmtx.toList gl gid with
        | .error _ => "fault"
        | .ok none => "F"
        | .ok (some (bb, adv)) =>
          let b := match bb with | some (a, b, c, d) => s!"{a},{b},{c},{d}" | none => "-"
          let a := match adv with | some v => toString v | none => "-"
          s!"{b}/{a}"
      String.intercalate " " outs
    | _, _, _, _, _ => "bad-op"
  | _ => "bad-op"

def step (line : String) : String :=
  match words line with
  | "classmap" :: rest => stepClassMap rest
  | "code" :: rest => stepCode rest
  | "codecur" :: rest => stepCodeCur rest
  | "glyphs" :: rest => stepGlyphs rest
  | "face" :: rest => stepFace rest
  | "gfx" :: rest => stepGfx rest
  | "faceall" :: rest => stepFaceAll rest
  | "name" :: rest => stepName rest
  | "silf" :: rest => stepSilf rest
  | "silftable" :: rest => stepSilfTable rest
  | "sfnt" :: rest => stepSfnt rest
  | "ranges" :: rest => stepRanges rest
  | "pass" :: rest => stepPass rest
  | _ => "bad-op"

end Driver.Loader

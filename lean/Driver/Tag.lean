import Driver.Util
import GrVerif.Model.Tag
namespace Driver.Tag
open GrVerif GrVerif.Tag Driver

/-- `str2tag <hex of the exact buffer>` → `ok <tag>` | `fault`;  `tag2str <tag hex8> <buffer hex>` → `ok <buffer after>` | `fault`;
    `pad <tag hex8>` → `<zeropad> <scriptStrip>` -/
def step (line : String) : String :=
  match words line with
  | ["str2tag", h] =>
    match parseHexUnits 2 h with
    | some b => (match strToTag b with | .ok t => "ok " ++ hexN 8 t | .error _ => "fault")
    | none => "bad-op"
  | ["tag2str", t, h] =>
    match parseHexNat t, parseHexUnits 2 h with
    | some t, some b => (match tagToStr t b with | .ok o => "ok " ++ hexBytes o | .error _ => "fault")
    | _, _ => "bad-op"
  | ["pad", t] =>
    match parseHexNat t with
    | some t => hexN 8 (zeropad t) ++ " " ++ hexN 8 (scriptStrip t)
    | none => "bad-op"
  | _ => "bad-op"

end Driver.Tag

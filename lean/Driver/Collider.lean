import Driver.Util
import Driver.Zones
import GrVerif.Model.Collider
namespace Driver.Collider
open GrVerif.Zones GrVerif.Collider Driver Driver.Zones

def ints (s : String) : Option (List Int) := (s.splitOn ",").mapM (·.toInt?)

def box? (s : String) : Option Box :=
  match ints s with
  | some [xi, yi, xa, ya, si, di, sa, da] => some ⟨xi, yi, xa, ya, si, di, sa, da⟩
  | _ => none

/-- a neighbour: `sx,sy;box;sub;sub…` -/
def nbor? (s : String) : Option (Int × Int × Glyph) :=
  match s.splitOn ";" with
  | pos :: b :: subs =>
    match ints pos, box? b, subs.mapM box? with
    | some [sx, sy], some b, some subs => some (sx, sy, { box := b, subs := subs })
    | _, _, _ => none
  | _ => none

def showZone (z : GrVerif.Zones.Zones) : String := String.intercalate " " (z.excl.map showExcl)

/-- `coll <dir> <margin> <dmargin> <marginWt> <blx,bly,trx,try> <shx,shy> <offx,offy> <target box> <nbor|nbor|…>`:
`initSlot`, one `mergeSlot` per neighbour, `resolve`.  Output: the `isCol` of every merge, the four interval sets, the result. -/
def step (line : String) : String :=
  match words line with
  | ["coll", dir, margin, dmargin, mwt, lim, sh, off, tb, nbs] =>
    match dir.toNat?, margin.toInt?, dmargin.toInt?, mwt.toInt?, ints lim, ints sh, ints off, box? tb,
        ((if nbs = "-" then [] else nbs.splitOn "|").mapM nbor?) with
    | some dir, some margin, some dmargin, some mwt, some [blx, bly, trx, try_], some [shx, shy], some [offx, offy], some tb, some nbs =>
      let c0 := initSlot tb ⟨blx, bly, trx, try_⟩ margin dmargin mwt shx shy offx offy dir
      let (c, cols) := nbs.foldl (fun (acc : Coll × List Bool) nb =>
        let r := mergeSlot acc.1 nb.2.2 nb.1 nb.2.1
        (r.1, acc.2 ++ [r.2])) (c0, [])
      let r := resolve c
      "col=" ++ String.join (cols.map fun b => if b then "1" else "0") ++
        " | " ++ showZone c.r0 ++ " | " ++ showZone c.r1 ++ " | " ++ showZone c.r2 ++ " | " ++ showZone c.r3 ++
        s!" | res={showRat r.1},{showRat r.2.1},{if r.2.2 then 1 else 0}"
    | _, _, _, _, _, _, _, _, _ => "bad-op"
  | _ => "bad-op"

end Driver.Collider

import Driver.Util
import GrVerif.Model.Feat
namespace Driver.Feat
open GrVerif GrVerif.Feat Driver

def getSlot (fvs : Array (Option FVal)) (k : Nat) : Option FVal := (fvs[k]?).join

/-- one operation of a history; returns new slots and the printed result -/
def doOp (s : SillMap) (fvs : Array (Option FVal)) (op : String) : Array (Option FVal) × String :=
  let c := op.toList.headD ' '
  let body := String.ofList (op.toList.drop 1)
  match c with
  | 'L' =>
    match body.splitOn "=" with
    | [k, lang] => (match k.toNat?, parseHexNat lang with
        | some k, some lang => (fvs.setIfInBounds k (some (featurevalForLang s lang)), "ok")
        | _, _ => (fvs, "bad"))
    | _ => (fvs, "bad")
  | 'C' =>
    match body.splitOn "=" with
    | [k, k2] => (match k.toNat?, k2.toNat? with
        | some k, some k2 => (match getSlot fvs k2 with
            | some fv => (fvs.setIfInBounds k (some fv), "ok")
            | none => (fvs, "nofv"))
        | _, _ => (fvs, "bad"))
    | _ => (fvs, "bad")
  | 'S' =>
    match body.splitOn "=" with
    | [lhs, v] => (match lhs.splitOn ".", v.toNat? with
        | [k, id], some v => (match k.toNat?, parseHexNat id with
            | some k, some id => (match findFref s id, getSlot fvs k with
                | some r, some fv => (match r.apply (v % 65536) fv with
                    | some fv' => (fvs.setIfInBounds k (some fv'), "1")
                    | none => (fvs, "0"))
                | none, _ => (fvs, "nofeat")
                | _, none => (fvs, "nofv"))
            | _, _ => (fvs, "bad"))
        | _, _ => (fvs, "bad"))
    | _ => (fvs, "bad")
  | 'G' =>
    match body.splitOn "." with
    | [k, id] => (match k.toNat?, parseHexNat id with
        | some k, some id => (match findFref s id, getSlot fvs k with
            | some r, some fv => (fvs, toString (r.get fv % 65536))
            | none, _ => (fvs, "nofeat")
            | _, none => (fvs, "nofv"))
        | _, _ => (fvs, "bad"))
    | _ => (fvs, "bad")
  | 'D' =>
    match body.toNat? with
    | some k => (match getSlot fvs k with
        -- like the harness: every feature of the table, in table order, looked up by its id through `gr_face_find_fref`
        -- (which zero-pads the id it is given, so an id ending in a space byte is not found and prints 0)
        | some fv => (fvs, String.intercalate "," (s.fm.feats.map (fun r =>
            match findFref s r.id with
            | some r' => toString (r'.get fv % 65536)
            | none => "0")))
        | none => (fvs, "nofv"))
    | none => (fvs, "bad")
  | 'N' =>
    (fvs, s!"{(s.fm.feats.filter (fun r => r.flags &&& 0x0800 = 0)).length}/{s.langs.length}/" ++
      String.intercalate "," (s.langs.map (fun l => hexN 8 l.1)))
  | _ => (fvs, "bad")

/-- `feat <Feat table hex> <Sill table hex|-> <op,op,…>` -/
def step (line : String) : String :=
  match words line with
  | ["feat", fh, sh, ops] =>
    match parseHexUnits 2 fh, parseHexUnits 2 sh with
    | some ft, some st =>
      (match readFeats ft with
       | .error _ => "fault"
       | .ok none => "noface"
       | .ok (some fm) =>
         let sill : Except Fault (Option SillMap) := readSill st fm
         match sill with
         | .error _ => "fault"
         | .ok none => "noface"
         | .ok (some s) =>
           let (_, outs) := (ops.splitOn ",").foldl (fun (acc : Array (Option FVal) × List String) op =>
             let (fvs, o) := doOp s acc.1 op; (fvs, o :: acc.2)) (Array.replicate 8 none, [])
           String.intercalate " " outs.reverse)
    | _, _ => "bad-op"
  | _ => "bad-op"

end Driver.Feat

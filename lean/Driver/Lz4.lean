import Driver.Util
import GrVerif.Model.Lz4
import GrVerif.Spec.Lz4Ref
namespace Driver.Lz4
open GrVerif GrVerif.Lz4 Driver

/-- `lz4 <src hex> <outSize> <fill hex2>` → `ret=<n|-1> out=<whole output buffer>` | `fault`
    `tbl <table hex> <version threshold hex8> <fill hex2>` → `unchanged` | `replaced <hex>` | `failed` | `fault` -/
def digest (a : Array Nat) : Nat := a.foldl (fun h b => (h * 1000003 + b) % 2147483647) 7

/-- `lz4file <path> <outSize> <fill>`: the compressed input is the content of a binary file -/
def stepIO (line : String) : IO String := do
  match words line with
  | ["lz4file", path, n, f] =>
    match n.toNat?, parseHexNat f with
    | some n, some f =>
      let bytes ← IO.FS.readBinFile path
      let src : Array Nat := bytes.data.map (·.toNat)
      match decompress src (Array.replicate n f) with
      | .error _ => return "fault"
      | .ok (r, out) => return "ret=" ++ (match r with | some k => toString k | none => "-1") ++ " digest=" ++ toString (digest out)
    | _, _ => return "bad-op"
  | _ => return "bad-op"

def step (line : String) : String :=
  match words line with
  | ["lz4", h, n, f] =>
    match parseHexUnits 2 h, n.toNat?, parseHexNat f with
    | some src, some n, some f =>
      (match decompress src (Array.replicate n f) with
       | .error _ => "fault"
       | .ok (r, out) => "ret=" ++ (match r with | some k => toString k | none => "-1") ++ " out=" ++ hexBytes out)
    | _, _, _ => "bad-op"
  -- the reference decoder of the block format (`Spec/Lz4Ref.lean`, what `lz4_sound` is stated against): compared with liblz4 by the check
  | ["lz4spec", h] =>
    match parseHexUnits 2 h with
    | some src =>
      (match Lz4Ref.decompress src with
       | none => "spec=-1"
       | some r => "spec=" ++ toString r.length ++ " final=" ++ (match Lz4Ref.finalLits src src.size 0 with | some k => toString k | none => "-") ++
           " out=" ++ hexBytes r.toArray)
    | none => "bad-op"
  | ["tbl", h, th, f] =>
    match parseHexUnits 2 h, parseHexNat th, parseHexNat f with
    | some t, some th, some f =>
      (match tableLoad t th f with
       | .error _ => "fault"
       | .ok .unchanged => "unchanged"
       | .ok (.replaced o) => "replaced " ++ hexBytes o
       | .ok (.failed _) => "failed")
    | _, _, _ => "bad-op"
  | _ => "bad-op"

end Driver.Lz4

import Driver.Util
import GrVerif.Model.Assoc
namespace Driver.Assoc
open GrVerif.Assoc Driver

/-- `assoc <nchars> <before>,<after> ...` -/
def step (line : String) : String :=
  match words line with
  | "assoc" :: n :: rest =>
    match n.toNat? with
    | none => "bad-op"
    | some n =>
      let ps := rest.map fun w => match w.splitOn "," with
        | [b, a] => (match b.toInt?, a.toInt? with | some b, some a => some (b, a) | _, _ => none)
        | _ => none
      if ps.any Option.isNone then "bad-op" else
      let slots := ps.filterMap id
      let r := associateChars n slots
      if r.2.2 then "fault" else
      String.intercalate " " ((r.1.map fun p => s!"s:{p.1},{p.2}") ++ (r.2.1.map fun c => s!"c:{c.before},{c.after}"))
  | _ => "bad-op"
end Driver.Assoc

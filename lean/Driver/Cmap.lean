import Driver.Util
import GrVerif.Model.Cmap
import GrVerif.Proofs.CmapEq
namespace Driver.Cmap
open GrVerif GrVerif.Cmap Driver

/-- order-independent digest: Σ (gid+1)·(usv·2654435761+12345) mod 2^64 -/
def digestStep (h usv g : Nat) : Nat := (h + (g + 1) * (usv * 2654435761 + 12345)) % 18446744073709551616

/-- `cmap <table hex>` → `d=<digest|noface|fault> c=<digest|noface|fault> diff=<first code point where the two differ|none>
sorted=<1|0|->`: whether the table meets the hypothesis of `cached_lookup_is_direct_lookup` (`-`: no direct cmap) -/
def step (line : String) : String :=
  match words line with
  | ["cmap", h] =>
    match parseHexUnits 2 h with
    | none => "bad-op"
    | some t =>
      -- Face::Table / TtfUtil::CheckTable(cmap): at least the 12-byte header and version 0
      let okTable := t.size ≥ 12 ∧ t.getD 0 0 = 0 ∧ t.getD 1 0 = 0
      if !okTable then "d=noface c=noface diff=none sorted=-" else
      match bmpSubtable t, smpSubtable t, buildCached t with
      | .ok bmp, .ok smp, .ok cc =>
        Id.run do
          let mut hd := 0
          let mut hc := 0
          let mut diff : Option Nat := none
          let mut fault := false
          for usv in [0:0x110000] do
            let c := cachedGet cc usv
            hc := digestStep hc usv c
            match bmp with
            | none => pure ()
            | some _ =>
              match directGet t bmp smp usv with
              | .ok d =>
                hd := digestStep hd usv d
                if d ≠ c ∧ diff.isNone then diff := some usv
              | .error _ => fault := true
          let ds := if bmp.isNone then "noface" else if fault then "fault" else toString hd
          let dfs := match diff with | some u => hexN 1 u | none => "none"
          let srt := match bmp with | none => "-" | some ob => if sortedCmapB t ob smp then "1" else "0"
          return s!"d={ds} c={hc} diff={if bmp.isNone then "none" else dfs} sorted={srt}"
      | _, _, _ => "d=fault c=fault diff=none sorted=-"
  | ["cmapq", h, u] =>
    match parseHexUnits 2 h, parseHexNat u with
    | some t, some usv =>
      (match bmpSubtable t, smpSubtable t, buildCached t with
       | .ok bmp, .ok smp, .ok cc =>
         let d := match bmp with | none => "noface" | some _ => (match directGet t bmp smp usv with | .ok g => toString g | .error _ => "fault")
         s!"d={d} c={cachedGet cc usv}"
       | _, _, _ => "fault")
    | _, _ => "bad-op"
  | _ => "bad-op"

end Driver.Cmap

import Driver.Util
import GrVerif.Model.Pass
import GrVerif.Proofs.Fsm
import GrVerif.Model.Position
import GrVerif.Proofs.IndexPerm
import GrVerif.Proofs.PassGid
import GrVerif.Proofs.CursorShape
import GrVerif.Proofs.Total
namespace Driver.Shape
open GrVerif.Vm GrVerif.Seg GrVerif.Action GrVerif.Pass Driver

def nats (s : String) (sep : String) : Option (List Nat) :=
  if s = "-" ∨ s = "" then some [] else
  (s.splitOn sep).foldr (fun w acc => match acc, w.toNat? with | some l, some n => some (n :: l) | _, _ => none) (some [])

def ints (s : String) (sep : String) : Option (List Int) :=
  if s = "-" ∨ s = "" then some [] else
  (s.splitOn sep).foldr (fun w acc => match acc, w.toInt? with | some l, some n => some (n :: l) | _, _ => none) (some [])

def hexBytes (s : String) : Option (List Nat) := (parseHexUnits 2 s).map (·.toList)

def parseRule (s : String) : Option Rule :=
  match s.splitOn "," with
  | [so, pr, con, act] =>
    (match so.toNat?, pr.toNat?, hexBytes con, hexBytes act with
     | some so, some pr, some con, some act => some { sort := so, pre := pr, constraint := con, action := act }
     | _, _, _, _ => none)
  | _ => none

def allSome {α : Type} (l : List (Option α)) : Option (List α) :=
  l.foldr (fun x acc => match x, acc with | some a, some l => some (a :: l) | _, _ => none) (some [])

/-- `ml,minpre,maxpre,ncols,ntrans,nstates,nsucc/cols/starts/rows/rulemaps/rules[/patterns[/pass constraint hex]]` -/
def parsePass (s : String) : Option PassT :=
  match (s.splitOn "/").take 6 with
  | [hdr, cols, starts, rows, maps, rules] =>
    match nats hdr ",", nats cols ",", nats starts ",",
          allSome ((if rows = "-" then [] else rows.splitOn ";").map fun r => nats r ","),
          allSome ((if maps = "-" then [] else maps.splitOn ";").map fun r => nats r ","),
          allSome ((if rules = "-" then [] else rules.splitOn ";").map parseRule) with
    | some (ml :: mn :: mx :: nc :: nt :: ns :: nsu :: more), some cols, some starts, some rows, some maps, some rules =>
      -- `Pass::readPass`: `if (m_iMaxLoop < 1) m_iMaxLoop = 1;`; an eighth number is the pass's flag byte (bit 5: reverse direction)
      some { maxLoop := max ml 1, minPre := mn, maxPre := mx, numColumns := nc, numTransition := nt, numStates := ns, numSuccess := nsu,
             cols := cols.toArray, starts := starts.toArray, trans := (rows.map List.toArray).toArray, ruleMap := maps.toArray, rules := rules.toArray,
             reverseDir := (more.headD 0 / 32) % 2 = 1,
             pconstraint := (((s.splitOn "/")[7]?).bind hexBytes).getD [] }
    | _, _, _, _, _, _ => none
  | _ => none

/-- the seventh field of a pass: the rules' column patterns (`c.c.c;c.c`), used only to validate the tables -/
def parsePats (s : String) : Option (Array (List Nat)) :=
  match (s.splitOn "/")[6]? with
  | some f => (allSome ((if f = "-" then [] else f.splitOn ";").map fun r => nats r ".")).map List.toArray
  | none => none

/-- does the pass's state machine encode its rule patterns (the hypothesis `TrieOK` of `fsm_matches_patterns`)? -/
def trieBit (p : PassT) (pats : Option (Array (List Nat))) : String :=
  match pats with
  | none => "?"
  | some pats =>
    let lab := labelStates p
    if p.minPre = p.maxPre ∧ p.starts = #[0] ∧ pats.size = p.rules.size ∧ trieCheck p pats (fun s => lab.getD s []) then "1" else "0"

def field (ws : List String) (k : String) : Option String :=
  (ws.find? fun w => w.startsWith (k ++ "=")).map fun w => (w.drop (k.length + 1)).toString

def streamOf (s : Seg) : List Nat :=
  let rec go (fuel : Nat) (p : Option Nat) (acc : List Nat) : List Nat :=
    match fuel, p with
    | 0, _ => acc.reverse
    | _, none => acc.reverse
    | f + 1, some i => go f (s.get i).next (i :: acc)
  go (2 * s.slots.size + 8) s.first []

def posIn (l : List Nat) (p : Option Nat) : String :=
  match p with
  | none => "-1"
  | some i => match l.idxOf? i with | some k => toString k | none => "-2"

/-- `shape ipos=<k> classes=<l;l> gattr=<row;row> passes=<pass|pass> text=<hex32> [sdir=<font direction>] [bidi=<index of the bidi step>]
[dir=<requested direction>]` -/
def step (line : String) : String :=
  let ws := words line
  match ws.head?, field ws "ipos", field ws "classes", field ws "gattr", field ws "passes", field ws "text" with
  | some "shape", some ipos, some cls, some ga, some ps, some tx =>
    match ipos.toNat?, allSome ((cls.splitOn ";").map fun r => nats r "."), allSome ((ga.splitOn ";").map fun r => ints r "."),
          allSome ((ps.splitOn "|").map parsePass), parseHexUnits 8 tx with
    | some ipos, some cls, some ga, some passes, some text =>
      let font : Font := { passes := passes.toArray, ipos := ipos, classes := cls.toArray, gattr := (ga.map List.toArray).toArray,
                           gadv := ((field ws "gadv").bind fun g => ints g ".").getD [] |>.toArray,
                           cmap := synthCmap,
                           silfDir := ((field ws "sdir").bind String.toNat?).getD 0,
                           bPass := ((field ws "bidi").bind String.toNat?).getD 0xFF,
                           aMirror := ((field ws "mirror").bind String.toNat?).getD 0 }
      let dir := ((field ws "dir").bind String.toNat?).getD 0
      -- the executable hypothesis of `no_write_through_a_null_cursor` (Props/C02): every rule's code passes the loader's cursor tests
      -- … and of `pipeline_never_faults`: the rule code decodes into modelled opcodes, the positioning-pass index is a pass index
      (if fontOK font && fontFull font && decide (font.ipos ≤ font.passes.size) then "curok=1 " else "curok=0 ") ++
      match shape font text.toList 100000 dir with
      | .error w => "fault " ++ w
      | .ok none => "trie=" ++ String.join ((ps.splitOn "|").zip passes |>.map fun (src, p) => trieBit p (parsePats src)) ++ " noseg"
      | .ok (some (cx, chars)) =>
        -- `Segment::finalise(font, true)`: positionSlots in the font's direction (the stream is turned into that direction for
        -- the walk if it is not), then the stream goes back into the requested direction, then linkClusters
        let rtl := font.silfDir % 2 = 1
        let segP := if cx.seg.currdir != rtl then cx.seg.reverseSlots (isMark cx cx.seg) else cx.seg
        let pr := GrVerif.Pos.positionSlots segP 1 (streamOf segP) rtl
        let segQ := if cx.seg.currdir != rtl then segP.reverseSlots (isMark cx segP) else cx.seg     -- … and back, as positionSlots does
        let seg := finaliseDir (cx.withSeg segQ)
        let l := streamOf seg
        let showR (q : Rat) : String := if q.den = 1 then toString q.num else s!"{q.num}/{q.den}"
        -- `Segment::finalise` ends with linkClusters: the bases are chained through `sibling`
        let segF := linkClusters seg (seg.dir % 2)
        let slots := l.map fun i =>
          let sl := seg.get i
          let o := pr.2.getPos i
          s!"s:{sl.gid},{sl.before},{sl.after},{sl.original},{posIn l sl.parent},{posIn l sl.child},{posIn l (segF.get i).sibling},{showR o.1},{showR o.2},{sl.advX},{sl.index}"
        let tb := String.join ((ps.splitOn "|").zip passes |>.map fun (src, p) => trieBit p (parsePats src))
        String.intercalate " " (s!"trie={tb} loop={cx.vIter}/{cx.vBound} passes={cx.vCalls} exceeded={if cx.vExceeded then 1 else 0} noid={if posNoIDCheck font then 1 else 0} gidok={if gidHypCheck font font.gadv.size 9 then 1 else 0} n={seg.numGlyphs} walk={l.length} adv={showR pr.1.1},{showR pr.1.2}" :: slots)
    | _, _, _, _, _ => "bad-op"
  | _, _, _, _, _, _ => "bad-op"

end Driver.Shape

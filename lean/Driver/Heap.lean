import Driver.Util
import GrVerif.Model.Action
namespace Driver.Heap
open GrVerif.Vm GrVerif.Seg GrVerif.Action Driver

def showStatusH : Status → String
  | .finished => "finished" | .stack_underflow => "stack_underflow" | .stack_not_empty => "stack_not_empty"
  | .stack_overflow => "stack_overflow" | .slot_offset_out_bounds => "slot_offset_out_bounds" | .died_early => "died_early"

/-- follow `next` from `first` (capped) -/
def streamOf (s : Seg) : List Nat :=
  let rec go (fuel : Nat) (p : Option Nat) (acc : List Nat) : List Nat :=
    match fuel, p with
    | 0, _ => acc.reverse
    | _, none => acc.reverse
    | f + 1, some i => go f (s.get i).next (i :: acc)
  go (2 * s.slots.size + 8) s.first []

def posIn (l : List Nat) (p : Option Nat) : String :=
  match p with
  | none => "-1"
  | some i => match l.idxOf? i with | some k => toString k | none => "-2"

def dumpSeg (s : Seg) : String :=
  let l := streamOf s
  let slots := l.map fun i =>
    let sl := s.get i
    s!"s:{sl.gid},{sl.before},{sl.after},{sl.original},{posIn l sl.prev},{posIn l sl.parent},{posIn l sl.child},{posIn l sl.sibling},{if sl.deleted then 1 else 0}"
  String.intercalate " " (s!"n={s.numGlyphs} walk={l.length} last={posIn l s.last}" :: slots)

/-- `heap <dir> <maxSize> <nslots> <start> <ctxt> <win> <hw|-1> <action bytes hex>` -/
def step (line : String) : String :=
  match words line with
  | ["heap", dir, maxSize, n, start, ctxt, win, hw, h] =>
    match dir.toNat?, maxSize.toInt?, n.toNat?, start.toNat?, ctxt.toNat?, win.toNat?, hw.toInt?, parseHexUnits 2 h with
    | some dir, some maxSize, some n, some start, some ctxt, some win, some hw, some bytes =>
      -- the segment: `Segment(n, …)` then n × appendSlot
      -- the constructor: `m_bufSize = n + 10; freeSlot(newSlot()); m_bufSize = log_binary(n) + 1`
      let seg0 : Seg := { numGlyphs := n, numChars := n, slots := Array.replicate (n + 10) {}, free := List.range (n + 10),
                          bufSize := Nat.log2 n + 1 }
      let seg := (List.range n).foldl (fun s i => s.appendSlot i (1 + i % 5) 64) seg0
      let l := streamOf seg
      let first := start - ctxt
      let window := (List.range win).map fun k => l[first + k]?
      let after := l[first + win]?
      let cells : List (Option Nat) := [if first = 0 then none else l[first - 1]?] ++ window ++ [after]
      let smap : Array (Option Nat) := (cells ++ List.replicate (65 - cells.length) none).toArray
      let ctx : Ctx := { seg := seg, smap := smap, size := win + 1, context := ctxt, maxSize := maxSize, dir := dir,
                         map := 0, is := none, highwater := if hw < 0 then none else l[hw.toNat]? }
      match decode (bytes.size + 1) bytes.toList with
      | none => "undecodable"
      | some is0 =>
        let (is, deletes) := insertTemps is0
        let data := is0.flatMap (·.2)
        match doAction is deletes (maxRefOf is0) data ctx with
        | .error w => "fault " ++ w
        | .ok (ret, status, slotOut, c) =>
          let l' := streamOf c.seg
          s!"ret={ret} status={showStatusH status} out={posIn l' slotOut} hw={posIn l' c.highwater} hp={if c.highpassed then 1 else 0} " ++ dumpSeg c.seg
    | _, _, _, _, _, _, _, _ => "bad-op"
  | _ => "bad-op"

end Driver.Heap

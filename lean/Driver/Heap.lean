import Driver.Util
import GrVerif.Model.Action
import GrVerif.Model.Lines
import GrVerif.Gen.Justify
namespace Driver.Heap
open GrVerif.Vm GrVerif.Seg GrVerif.Action Driver

def showStatusH : Status → String
  | .finished => "finished" | .stack_underflow => "stack_underflow" | .stack_not_empty => "stack_not_empty"
  | .stack_overflow => "stack_overflow" | .slot_offset_out_bounds => "slot_offset_out_bounds" | .died_early => "died_early"

/-- follow `next` from `first` (capped) -/
def streamOf (s : Seg) : List Nat :=
  let rec go (fuel : Nat) (p : Option Nat) (acc : List Nat) : List Nat :=
    match fuel, p with
    | 0, _ => acc.reverse
    | _, none => acc.reverse
    | f + 1, some i => go f (s.get i).next (i :: acc)
  go (2 * s.slots.size + 8) s.first []

def posIn (l : List Nat) (p : Option Nat) : String :=
  match p with
  | none => "-1"
  | some i => match l.idxOf? i with | some k => toString k | none => "-2"

def dumpSeg (s : Seg) : String :=
  let l := streamOf s
  let slots := l.map fun i =>
    let sl := s.get i
    s!"s:{sl.gid},{sl.before},{sl.after},{sl.original},{posIn l sl.prev},{posIn l sl.parent},{posIn l sl.child},{posIn l sl.sibling},{if sl.deleted then 1 else 0}"
  String.intercalate " " (s!"n={s.numGlyphs} walk={l.length} last={posIn l s.last}" :: slots)

/-- `heap <dir> <maxSize> <nslots> <start> <ctxt> <win> <hw|-1> <action bytes hex>` -/
def step (line : String) : String :=
  match words line with
  | ["heap", dir, maxSize, n, start, ctxt, win, hw, h] =>
    match dir.toNat?, maxSize.toInt?, n.toNat?, start.toNat?, ctxt.toNat?, win.toNat?, hw.toInt?, parseHexUnits 2 h with
    | some dir, some maxSize, some n, some start, some ctxt, some win, some hw, some bytes =>
      -- the segment: `Segment(n, …)` then n × appendSlot
      -- the constructor: `m_bufSize = n + 10; freeSlot(newSlot()); m_bufSize = log_binary(n) + 1`
      let seg0 : Seg := { numGlyphs := n, numChars := n, slots := Array.replicate (n + 10) {}, free := List.range (n + 10),
                          bufSize := Nat.log2 n + 1 }
      let seg := (List.range n).foldl (fun s i => s.appendSlot i (1 + i % 5) 64) seg0
      let l := streamOf seg
      let first := start - ctxt
      let window := (List.range win).map fun k => l[first + k]?
      let after := l[first + win]?
      let cells : List (Option Nat) := [if first = 0 then none else l[first - 1]?] ++ window ++ [after]
      let smap : Array (Option Nat) := (cells ++ List.replicate (65 - cells.length) none).toArray
      let ctx : Ctx := { seg := seg, smap := smap, size := win + 1, context := ctxt, maxSize := maxSize, dir := dir,
                         map := 0, is := none, highwater := if hw < 0 then none else l[hw.toNat]? }
      match decode (bytes.size + 1) bytes.toList with
      | none => "undecodable"
      | some is0 =>
        let (is, deletes) := insertTemps is0
        let data := is0.flatMap (·.2)
        match doAction is deletes (maxRefOf is0) data ctx with
        | .error w => "fault " ++ w
        | .ok (ret, status, slotOut, c) =>
          let l' := streamOf c.seg
          s!"ret={ret} status={showStatusH status} out={posIn l' slotOut} hw={posIn l' c.highwater} hp={if c.highpassed then 1 else 0} " ++ dumpSeg c.seg
    | _, _, _, _, _, _, _, _ => "bad-op"
  | _ => "bad-op"


/-- `lines <n> <op>...`: ops `b<k>` linebreak before slot k, `a<k>` addLineEnd(slot k) / `a-1` addLineEnd(NULL),
`d<j>` delLineEnd(j-th sentinel), `F<k>` / `L<k>` set m_first / m_last.  Slots are named by creation order. -/
def stepLines (line : String) : String :=
  match words line with
  | ["jsize", lv] =>
    -- `SlotJustify::size_of(levels)`, `sizeof(SlotJustify)`, `sizeof(SlotJustify *)` as `Gen/Justify.lean` has them
    (match lv.toNat? with
     | some k => s!"size_of={GrVerif.Gen.Justify.sizeOf k} rec={GrVerif.Gen.Justify.sizeofSlotJustify} ptr={GrVerif.Gen.Justify.ptrSize} params={GrVerif.Gen.Justify.NUMJUSTPARAMS}"
     | none => "bad-op")
  | "lines" :: n :: ops =>
    match n.toNat? with
    | none => "bad-op"
    | some n =>
      let seg0 : Seg := { numGlyphs := n, numChars := n, slots := Array.replicate (n + 10) {}, free := List.range (n + 10),
                          bufSize := Nat.log2 n + 1 }
      let seg := (List.range n).foldl (fun s i => s.appendSlot i (1 + i % 5) 64) seg0
      let ids0 := streamOf seg
      let run := ops.foldl (fun (acc : Option (Seg × List Nat × List (Option Nat))) op =>
        match acc with
        | none => none
        | some (s, ids, sents) =>
          let c := (op.take 1).toString
          match (op.drop 1).toString.toInt? with
          | none => none
          | some k =>
            let slotOf (k : Int) : Option Nat := if k < 0 then none else ids[k.toNat]?
            if c = "b" then
              (match slotOf k with
               | some p => (match s.linebreakBefore p with | some s' => some (s', ids, sents) | none => none)
               | none => some (s, ids, sents))
            else if c = "a" then
              (match s.addLineEnd (slotOf k) 64 with
               | some (e, s') => some (s', ids ++ [e], sents ++ [some e])
               | none => none)
            else if c = "d" then
              (match sents[k.toNat]? with
               | some (some e) => (match s.delLineEnd e with
                  | some s' => some (s', ids, sents.set k.toNat none)
                  | none => none)
               | _ => some (s, ids, sents))
            else if c = "F" then some (s.setFirst (slotOf k), ids, sents)
            else if c = "L" then some (s.setLast (slotOf k), ids, sents)
            else none) (some (seg, ids0, []))
      match run with
      | none => "fault"
      | some (s, ids, sents) =>
        let live := ids.zipIdx.filter fun (a, k) => k < n ∨ sents.contains (some a)
        let idOf (p : Option Nat) : String := match p with
          | none => "-1"
          | some a => match (live.find? fun (b, _) => b = a) with | some (_, k) => toString k | none => "-2"
        let parts := live.map fun (a, k) => s!"{k}:{idOf (s.get a).next},{idOf (s.get a).prev}"
        String.intercalate " " (s!"first={idOf s.first} last={idOf s.last}" :: parts)
  | _ => "bad-op"

end Driver.Heap

import GrVerif.Model.Basic
/-! line-protocol helpers for the model driver -/
namespace Driver
open GrVerif

def hexDigit (c : Char) : Option Nat :=
  if '0' ≤ c ∧ c ≤ '9' then some (c.toNat - '0'.toNat)
  else if 'a' ≤ c ∧ c ≤ 'f' then some (c.toNat - 'a'.toNat + 10)
  else if 'A' ≤ c ∧ c ≤ 'F' then some (c.toNat - 'A'.toNat + 10)
  else none

/-- "-" is the empty string; otherwise units of `w` hex digits each -/
def parseHexUnits (w : Nat) (s : String) : Option (Array Nat) :=
  if s = "-" then some #[] else
  let cs := s.toList
  if w = 0 ∨ cs.length % w ≠ 0 then none else
  let rec go (cs : List Char) (cur : Nat) (k : Nat) (acc : Array Nat) (fuel : Nat) : Option (Array Nat) :=
    match fuel, cs with
    | _, [] => if k = 0 then some acc else none
    | 0, _ => none
    | fuel+1, c :: rest =>
      match hexDigit c with
      | none => none
      | some d =>
        let cur := cur * 16 + d
        if k + 1 = w then go rest 0 0 (acc.push cur) fuel else go rest cur (k+1) acc fuel
  go cs 0 0 #[] (cs.length + 1)

def parseHexNat (s : String) : Option Nat :=
  s.toList.foldl (fun acc c => match acc, hexDigit c with
    | some a, some d => some (a * 16 + d)
    | _, _ => none) (some 0)

def hex2 (n : Nat) : String :=
  let d := fun k => String.ofList (Nat.toDigits 16 k)
  (if n < 16 then "0" else "") ++ d n

def hexN (w : Nat) (n : Nat) : String :=
  let s := String.ofList (Nat.toDigits 16 n)
  String.ofList (List.replicate (w - s.length) '0') ++ s

def hexBytes (a : Array Nat) : String :=
  if a.size = 0 then "-" else a.foldl (fun s b => s ++ hex2 b) ""

def words (line : String) : List String :=
  (line.trimAscii.toString.splitOn " ").filter (· ≠ "")

end Driver

import Driver.Util
import GrVerif.Model.Borrow
import GrVerif.Model.Lz4
namespace Driver.Borrow
open GrVerif GrVerif.Borrow Driver

/-- what is outstanding after a log (oldest first) – the executable twin of `Proofs/Borrow.lean`'s `stateOf` -/
def outstanding (log : List Ev) : Option (List Nat × List Nat) :=
  log.foldl (fun acc e =>
    match acc with
    | none => none
    | some (b, o) =>
      match e with
      | .get id => if b.contains id ∨ o.contains id then none else some (id :: b, o)
      | .rel id => if b.contains id then some (b.erase id, o) else none
      | .alloc id => if o.contains id ∨ b.contains id then none else some (b, id :: o)
      | .free id => if o.contains id then some (b, o.erase id) else none) (some ([], []))

/-- `borrow <threshold hex> <table hex|absent> <number of re-assignments>` -/
def step (line : String) : String :=
  match words line with
  | ["borrow", th, tb, nm] =>
    match parseHexNat th, nm.toNat? with
    | some th, some nm =>
      let q : Option Params :=
        if tb = "absent" then some { present := false, checkOK := false, wantsDecompress := false, dz := .none } else
        match parseHexUnits 2 tb with
        | none => none
        | some bytes =>
          -- the outcome of CheckTable / decompress comes from the C14 model of Face::Table
          let checkOK := bytes.size ≥ 4
          let v := if bytes.size ≥ 4 then ((bytes[0]! * 256 + bytes[1]!) * 256 + bytes[2]!) * 256 + bytes[3]! else 0
          let wants := checkOK ∧ v ≥ th
          let dz : Dz := if ¬ wants then .none else
            match Lz4.tableDecompress bytes 0 with
            | .ok .unchanged => .none
            | .ok (.replaced _) => .ok
            | .ok (.failed _) => .fail
            | .error _ => .fail
          some { present := true, checkOK := checkOK, wantsDecompress := wants, dz := dz }
      match q with
      | none => "bad-op"
      | some q =>
      let log := (life q (List.replicate nm q)).log.reverse
      -- borrowed pointers are numbered by the order of their `get`
      let gets := log.filterMap fun e => match e with | .get id => some id | _ => none
      let num (id : Nat) : String := match gets.idxOf? id with | some k => toString k | none => "?"
      let tr := log.filterMap fun e => match e with
        | .get id => some ("g" ++ num id)
        | .rel id => some ("r" ++ num id)
        | _ => none
      let st := outstanding log
      let outs := match st with | some (b, _) => b.length | none => 999
      let bad := match st with | some _ => 0 | none => 1
      (if tr.isEmpty then "-" else String.intercalate " " tr) ++ s!" | outstanding={outs} bad={bad}"
    | _, _ => "bad-op"
  | _ => "bad-op"

/-- the harness's advance callbacks (`hint_adv` in harness/h_seg.cpp), in sixteenths of a pixel; `none` = the sentinel value -/
def hintAdv (kind : Nat) (gid : Nat) : Option Int :=
  match kind with
  | 0 => some (96 + (gid % 16 : Nat))
  | 1 => if gid % 3 = 0 then some (-16) else some (112 + 2 * (gid % 8 : Nat))
  | 2 => if gid % 5 = 0 then none else some 88
  | _ => some (640004 + 16 * (gid : Nat))

/-- `adv <kind> <numGlyphs> <gid,gid,...>`: a history of `Font::advance` requests on a fresh hinted font -/
def stepAdv (line : String) : String :=
  match words line with
  | ["adv", k, n, gs] =>
    match k.toNat?, n.toNat?, (gs.splitOn ",").mapM (·.toNat?) with
    | some k, some n, some gs =>
      let r := (advRun none (hintAdv k) (advInit none n) gs).1
      String.intercalate " " (r.map fun x => match x with
        | none => "oob"
        | some (v, called) => (match v with | none => "S" | some i => toString i) ++ (if called then "*" else ""))
    | _, _, _ => "bad-op"
  | _ => "bad-op"

end Driver.Borrow

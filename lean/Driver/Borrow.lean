import Driver.Util
import GrVerif.Model.Borrow
import GrVerif.Model.Lz4
namespace Driver.Borrow
open GrVerif GrVerif.Borrow Driver

/-- what is outstanding after a log (oldest first) – the executable twin of `Proofs/Borrow.lean`'s `stateOf` -/
def outstanding (log : List Ev) : Option (List Nat × List Nat) :=
  log.foldl (fun acc e =>
    match acc with
    | none => none
    | some (b, o) =>
      match e with
      | .get id => if b.contains id ∨ o.contains id then none else some (id :: b, o)
      | .rel id => if b.contains id then some (b.erase id, o) else none
      | .alloc id => if o.contains id ∨ b.contains id then none else some (b, id :: o)
      | .free id => if o.contains id then some (b, o.erase id) else none) (some ([], []))

/-- `borrow <threshold hex> <table hex|absent> <number of re-assignments>` -/
def step (line : String) : String :=
  match words line with
  | ["borrow", th, tb, nm] =>
    match parseHexNat th, nm.toNat? with
    | some th, some nm =>
      let q : Option Params :=
        if tb = "absent" then some { present := false, checkOK := false, wantsDecompress := false, dz := .none } else
        match parseHexUnits 2 tb with
        | none => none
        | some bytes =>
          -- the outcome of CheckTable / decompress comes from the C14 model of Face::Table
          let checkOK := bytes.size ≥ 4
          let v := if bytes.size ≥ 4 then ((bytes[0]! * 256 + bytes[1]!) * 256 + bytes[2]!) * 256 + bytes[3]! else 0
          let wants := checkOK ∧ v ≥ th
          let dz : Dz := if ¬ wants then .none else
            match Lz4.tableDecompress bytes 0 with
            | .ok .unchanged => .none
            | .ok (.replaced _) => .ok
            | .ok (.failed _) => .fail
            | .error _ => .fail
          some { present := true, checkOK := checkOK, wantsDecompress := wants, dz := dz }
      match q with
      | none => "bad-op"
      | some q =>
      let log := (life q (List.replicate nm q)).log.reverse
      -- borrowed pointers are numbered by the order of their `get`
      let gets := log.filterMap fun e => match e with | .get id => some id | _ => none
      let num (id : Nat) : String := match gets.idxOf? id with | some k => toString k | none => "?"
      let tr := log.filterMap fun e => match e with
        | .get id => some ("g" ++ num id)
        | .rel id => some ("r" ++ num id)
        | _ => none
      let st := outstanding log
      let outs := match st with | some (b, _) => b.length | none => 999
      let bad := match st with | some _ => 0 | none => 1
      (if tr.isEmpty then "-" else String.intercalate " " tr) ++ s!" | outstanding={outs} bad={bad}"
    | _, _ => "bad-op"
  | _ => "bad-op"

end Driver.Borrow

import Driver.Tag
import Driver.Utf
import Driver.Lz4
import Driver.Vm
import Driver.Feat
import Driver.Cmap
import Driver.Zones
import Driver.Heap
import Driver.Assoc
import Driver.Shape
import Driver.Loader
import Driver.Borrow
import Driver.Collider
/-! `grdriver <mode>`: one input line → one output line (DESIGN.md §2 "line protocol") -/
open Driver

partial def loop (h : IO.FS.Stream) (out : IO.FS.Stream) (f : String → String) : IO Unit := do
  let line ← h.getLine
  if line.isEmpty then return ()
  out.putStrLn (f line)
  out.flush
  loop h out f

partial def loopIO (h : IO.FS.Stream) (out : IO.FS.Stream) (f : String → IO String) : IO Unit := do
  let line ← h.getLine
  if line.isEmpty then return ()
  out.putStrLn (← f line)
  out.flush
  loopIO h out f

def main (args : List String) : IO UInt32 := do
  let stdin ← IO.getStdin
  let stdout ← IO.getStdout
  match args with
  | ["tag"] => loop stdin stdout Tag.step; return 0
  | ["utf"] => loop stdin stdout Utf.step; return 0
  | ["lz4"] => loop stdin stdout Lz4.step; return 0
  | ["vm"] => loop stdin stdout Vm.step; return 0
  | ["feat"] => loop stdin stdout Feat.step; return 0
  | ["cmap"] => loop stdin stdout Cmap.step; return 0
  | ["zones"] => loop stdin stdout Zones.step; return 0
  | ["heap"] => loop stdin stdout Heap.step; return 0
  | ["lines"] => loop stdin stdout Heap.stepLines; return 0
  | ["shape"] => loop stdin stdout Shape.step; return 0
  | ["loader"] => loop stdin stdout Loader.step; return 0
  | ["borrow"] => loop stdin stdout Borrow.step; return 0
  | ["adv"] => loop stdin stdout Borrow.stepAdv; return 0
  | ["coll"] => loop stdin stdout Collider.step; return 0
  | ["assoc"] => loop stdin stdout Assoc.step; return 0
  | ["lz4io"] => loopIO stdin stdout Lz4.stepIO; return 0
  | _ => IO.eprintln "usage: grdriver <mode>"; return 2

import Driver.Tag
import Driver.Utf
/-! `grdriver <mode>`: one input line → one output line (DESIGN.md §2 "line protocol") -/
open Driver

partial def loop (h : IO.FS.Stream) (out : IO.FS.Stream) (f : String → String) : IO Unit := do
  let line ← h.getLine
  if line.isEmpty then return ()
  out.putStrLn (f line)
  loop h out f

def main (args : List String) : IO UInt32 := do
  let stdin ← IO.getStdin
  let stdout ← IO.getStdout
  match args with
  | ["tag"] => loop stdin stdout Tag.step; return 0
  | ["utf"] => loop stdin stdout Utf.step; return 0
  | _ => IO.eprintln "usage: grdriver <mode>"; return 2

import Driver.Util
import GrVerif.Model.Utf
namespace Driver.Utf
open GrVerif GrVerif.Utf Driver

def encOf : String → Option (Enc × Nat)
  | "8" => some (.utf8, 2) | "16" => some (.utf16, 4) | "32" => some (.utf32, 8) | _ => none

def showCount : Except Fault (Nat × Option Nat) → String
  | .error _ => "fault"
  | .ok (n, none) => s!"n={n} err=none"
  | .ok (n, some o) => s!"n={n} err={o}"

/-- `count <enc> <units>` bounded branch on exactly `[begin,end)`; `countz <enc> <units>` NUL-terminated branch, the
units being all the caller owns; `text <enc> <nChars> <units>` → char-infos of `gr_make_seg` -/
def digestOf : Except Fault (Nat × Option Nat) → Nat
  | .error _ => 99999
  | .ok (n, none) => n * 256
  | .ok (n, some o) => n * 256 + o + 1

/-- all byte strings of length `len` numbered `start ..< start+cnt` (big-endian digits base 256), folded into one digest -/
def rangeDigest (len start cnt : Nat) : Nat := Id.run do
  let mut h := 7
  for i in [start : start + cnt] do
    let bytes := (List.range len).map (fun k => (i / 256 ^ (len - 1 - k)) % 256)
    h := (h * 1000003 + digestOf (countBounded .utf8 bytes)) % 2147483647
  return h

def step (line : String) : String :=
  match words line with
  | ["range8", l, s, c] =>
    match l.toNat?, s.toNat?, c.toNat? with
    | some l, some s, some c => s!"h={rangeDigest l s c}"
    | _, _, _ => "bad-op"
  | ["count", e, h] =>
    match encOf e with
    | some (enc, w) => (match parseHexUnits w h with | some u => showCount (countBounded enc u.toList) | none => "bad-op")
    | none => "bad-op"
  | ["countz", e, h] =>
    match encOf e with
    | some (enc, w) => (match parseHexUnits w h with | some u => showCount (countNul enc u.toList) | none => "bad-op")
    | none => "bad-op"
  | ["text", e, n, h] =>
    match encOf e, n.toNat? with
    | some (enc, w), some n =>
      (match parseHexUnits w h with
       | some u => (match readText enc n u.toList 0 [] with
          | .error _ => "fault"
          | .ok cs => s!"n={cs.length}" ++ cs.foldl (fun s (c, b) => s ++ " " ++ hexN 1 c ++ ":" ++ toString b) "")
       | none => "bad-op")
    | _, _ => "bad-op"
  | _ => "bad-op"

end Driver.Utf

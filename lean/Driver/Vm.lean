import Driver.Util
import GrVerif.Model.Vm
namespace Driver.Vm
open GrVerif.Vm Driver

def showLoad : LoadStatus → String
  | .loaded => "loaded" | .alloc_failed => "alloc_failed" | .invalid_opcode => "invalid_opcode"
  | .unimplemented_opcode_used => "unimplemented_opcode_used" | .out_of_range_data => "out_of_range_data"
  | .jump_past_end => "jump_past_end" | .arguments_exhausted => "arguments_exhausted" | .missing_return => "missing_return"
  | .nested_context_item => "nested_context_item" | .underfull_stack => "underfull_stack" | .empty => "empty"
  | .outsideSubset => "outside-subset"

def showStatus : Status → String
  | .finished => "finished" | .stack_underflow => "stack_underflow" | .stack_not_empty => "stack_not_empty"
  | .stack_overflow => "stack_overflow" | .slot_offset_out_bounds => "slot_offset_out_bounds" | .died_early => "died_early"

/-- `vm <c|a> <d|k> <program hex>` : constraint/action, direct/call driver → `load=<status>[ run=<status> ret=<n>]` -/
def step (line : String) : String :=
  match words line with
  | ["vm", ca, dk, h] =>
    match parseHexUnits 2 h with
    | some bytes =>
      let (st, p) := load (ca = "c") bytes.toList
      match p with
      | none => "load=" ++ showLoad st
      | some p =>
        (match run (if dk = "k" then .call else .direct) p with
         | .error _ => "load=loaded fault"
         | .ok (ret, status) => s!"load=loaded run={showStatus status} ret={ret}")
    | none => "bad-op"
  | _ => "bad-op"

end Driver.Vm

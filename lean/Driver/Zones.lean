import Driver.Util
import GrVerif.Model.Zones
namespace Driver.Zones
open GrVerif.Zones Driver

def showRat (r : Rat) : String := if r.den = 1 then toString r.num else s!"{r.num}/{r.den}"
def showExcl (e : Excl) : String :=
  s!"[{e.x},{e.xm},{if e.«open» then 1 else 0},{showRat e.c},{showRat e.sm},{showRat e.smx}]"

def int? (s : String) : Option Int := s.toInt?

/-- `zones <xy|sd> <xmin> <xmax> <a0> <op;op;…>` with ops `x,a,b` (exclude), `w,<xy|sd>,a,b,f,a0,m,xi,ai,c,nega` (weighted insert),
`c,origin` (closest).  Output: the results of the `c` ops, then the interval list. -/
def step (line : String) : String :=
  match words line with
  | ["zones", kind, xmin, xmax, a0, ops] =>
    match int? xmin, int? xmax, int? a0 with
    | some xmin, some xmax, some a0 =>
      let z0 := initialise (kind = "sd") xmin xmax a0
      let (z, outs) := (ops.splitOn ";").foldl (fun (acc : GrVerif.Zones.Zones × List String) op =>
        let (z, outs) := acc
        match (op.splitOn ",") with
        | ["x", a, b] => (match int? a, int? b with | some a, some b => (z.remove a b, outs) | _, _ => (z, "bad" :: outs))
        | ["w", k, a, b, f, a0, m, xi, ai, c, nega] =>
          (match int? a, int? b, int? f, int? a0, int? m, int? xi, int? ai, int? c with
           | some a, some b, some f, some a0, some m, some xi, some ai, some c =>
             let e := if k = "sd" then weightedSD a b f a0 m xi ai c (nega = "1") else weightedXY a b f a0 m xi c
             (z.insert e, outs)
           | _, _, _, _, _, _, _, _ => (z, "bad" :: outs))
        | ["c", o] => (match int? o with
           | some o => let (p, c) := z.closest o; (z, s!"c={showRat p},{showRat c}" :: outs)
           | none => (z, "bad" :: outs))
        | [""] => (z, outs)
        | _ => (z, "bad" :: outs)) (z0, [])
      String.intercalate " " (outs.reverse ++ z.excl.map showExcl)
    | _, _, _ => "bad-op"
  | _ => "bad-op"

end Driver.Zones

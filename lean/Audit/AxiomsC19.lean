import GrVerif.Props.C19
open GrVerif.Props.C19
#print axioms cut_splits_stream
#print axioms cut_at_first_is_refused
#print axioms sentinel_roundtrip

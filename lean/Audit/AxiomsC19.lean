import GrVerif.Props.C19
open GrVerif.Props.C19
#print axioms cut_splits_stream
#print axioms cut_at_first_is_refused
#print axioms sentinel_roundtrip
#print axioms slotjustify_stride_is_pointer_aligned
#print axioms slotjustify_records_are_aligned
#print axioms slotjustify_records_do_not_overlap

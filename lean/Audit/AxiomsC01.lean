import GrVerif.Props.C01
open GrVerif.Props.C01
#print axioms file_face_total
#print axioms pass_ranges_total
#print axioms range_ending_at_numGlyphs_refused
#print axioms GrVerif.Props.C13.lookup4_in_bounds
#print axioms GrVerif.Props.C13.lookup12_in_bounds
#print axioms GrVerif.Props.C14.table_no_fault
#print axioms GrVerif.Props.C14.lz4_in_bounds
#print axioms class_map_total
#print axioms class_lookups_in_bounds
#print axioms pass_layout_total
#print axioms ranges_after_layout
#print axioms pass_states_total
#print axioms pass_rulemap_total
#print axioms accepted_pass_has_wellformed_tables
#print axioms silf_subtable_total
#print axioms silf_subtable_offsets_in_bounds
#print axioms silf_table_total
#print axioms code_loader_total
#print axioms accepted_code_class_lookups_in_bounds
#print axioms pass_total
#print axioms glyph_attributes_total
#print axioms sparse_total
#print axioms face_loading_total
#print axioms glyph_graphics_total

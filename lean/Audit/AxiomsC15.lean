import GrVerif.Props.C15
open GrVerif.Props.C15
#print axioms positions_scale_linearly
#print axioms origin_scales
#print axioms glyphs_do_not_depend_on_the_font

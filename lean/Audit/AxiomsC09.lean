import GrVerif.Props.C09
open GrVerif.Props.C09
#print axioms preloaded_cache_is_read_only
#print axioms concurrent_answers_are_sequential_answers

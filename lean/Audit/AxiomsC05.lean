import GrVerif.Props.C05
open GrVerif.Props.C05
#print axioms action_assoc_in_range
#print axioms every_opcode_keeps_ranges
#print axioms gc_keeps_ranges
#print axioms cinfo_count_and_bases
#print axioms pipeline_assoc_in_range
#print axioms cinfo_values_are_slot_indices
#print axioms associateChars_keeps_slot_ranges
#print axioms association_covers_every_character
#print axioms every_character_gets_slot_indices

import GrVerif.Props.C05
open GrVerif.Props.C05
#print axioms action_assoc_in_range
#print axioms every_opcode_keeps_ranges
#print axioms gc_keeps_ranges
#print axioms cinfo_count_and_bases

import GrVerif.Props.C07
open GrVerif.Props.C07
#print axioms op_sem_eq_spec
#print axioms run_eq_spec
#print axioms drivers_agree
#print axioms load_defined
#print axioms accepted_programs_run_as_specified

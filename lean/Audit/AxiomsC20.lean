import GrVerif.Props.C20
open GrVerif.Props.C20
#print axioms strToTag_exact
#print axioms tagToStr_writes
#print axioms tagToStr_exact4
#print axioms tag_roundtrip
#print axioms pad_copies_agree
#print axioms scriptStrip_eq_zeropad
#print axioms zeropad_spec
#print axioms zeropad_idem

import GrVerif.Props.C08
open GrVerif.Props.C08
#print axioms glyph_cache_history_independent
#print axioms glyph_is_what_the_tables_say
#print axioms hinted_advance_history_independent
#print axioms hinted_advance_values
#print axioms glyph_attribute_is_what_glat_says

import GrVerif.Props.C10
open GrVerif.Props.C10
#print axioms preload_eq_lazy
#print axioms preload_fails_iff_some_glyph_unreadable
#print axioms cmap_option_does_not_change_glyphs
#print axioms preloading_changes_no_glyph_or_box

import GrVerif.Props.C06
open GrVerif.Props.C06
#print axioms fsm_matches_patterns
#print axioms table_check_is_sound
#print axioms state_rules_in_precedence_order
#print axioms merge_keeps_precedence_order
#print axioms applied_rule_is_highest_precedence
#print axioms no_rule_means_all_failed
#print axioms failed_pass_constraint_skips_the_pass
#print axioms pass_constraint_that_dies_ends_the_run
#print axioms pass_without_constraint_runs
#print axioms call_without_bidi_step
#print axioms call_with_bidi_step
#print axioms call_beside_bidi_step

import GrVerif.Props.C11
open GrVerif.Props.C11
#print axioms count_spec
#print axioms count_no_fault
#print axioms count_exact
#print axioms count_reports_illformed
#print axioms err_inside_and_count_le
#print axioms countNul_spec
#print axioms get_put
#print axioms get_exact
#print axioms trail_not_start
#print axioms resync
#print axioms cross_encoding
#print axioms validate_eq

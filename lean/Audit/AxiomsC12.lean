import GrVerif.Props.C12
open GrVerif.Props.C12
#print axioms readText_stops_at_nul
#print axioms readText_exact_buffer
#print axioms cinfo_count_le
#print axioms cinfo_bases_increasing
#print axioms Reads.stable

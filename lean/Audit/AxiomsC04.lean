import GrVerif.Props.C04
open GrVerif.Props.C04
#print axioms child_frame
#print axioms removeChild_frame
#print axioms detachChildren_frame
#print axioms attach_frame
#print axioms setAttTo_frame
#print axioms detach_frame
#print axioms frame_meaning
#print axioms attach_guard
#print axioms attach_refuses
#print axioms every_opcode_keeps_forest
#print axioms action_keeps_forest
#print axioms pipeline_forest
#print axioms forest_for_clients
#print axioms attachments_stay_in_segment
#print axioms every_opcode_keeps_parents_alive
#print axioms bases_form_one_chain

import GrVerif.Props.C13
import GrVerif.Props.C13Eq
open GrVerif.Props.C13
#print axioms check12_facts
#print axioms lookup12_in_bounds
#print axioms check4_facts
#print axioms lookup4_in_bounds
#print axioms direct_lookup4_in_bounds
#print axioms cached_lookup_is_direct_lookup
#print axioms cached_cmap_is_built_and_agrees
#print axioms next_codepoint_is_next_in_range
#print axioms direct_bmp_lookup_is_the_specified_search

import GrVerif.Props.C13
open GrVerif.Props.C13
#print axioms check12_facts
#print axioms lookup12_in_bounds
#print axioms check4_facts
#print axioms lookup4_in_bounds
#print axioms direct_lookup4_in_bounds

import GrVerif.Props.C14
open GrVerif.Props.C14
#print axioms lz4_in_bounds
#print axioms lz4_contract
#print axioms table_no_fault
#print axioms table_all_or_nothing
#print axioms header_split
#print axioms lz4_sound
#print axioms table_is_reference_decoding
#print axioms lz4_complete
#print axioms table_transparent

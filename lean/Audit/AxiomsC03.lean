import GrVerif.Props.C03
open GrVerif.Props.C03
#print axioms action_stream_wf
#print axioms stream_walk
#print axioms action_then_walk
#print axioms every_opcode_keeps_stream
#print axioms shape_stream_wf
#print axioms passes_keep_stream
#print axioms reversal_keeps_stream
#print axioms reversal_touches_links_only
#print axioms indices_are_a_permutation
#print axioms glyph_ids_are_real_glyphs
#print axioms every_opcode_keeps_glyph_ids
#print axioms silf_call_keeps_stream

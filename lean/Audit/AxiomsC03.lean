import GrVerif.Props.C03
open GrVerif.Props.C03
#print axioms action_stream_wf
#print axioms stream_walk
#print axioms action_then_walk
#print axioms every_opcode_keeps_stream
#print axioms shape_stream_wf
#print axioms passes_keep_stream
#print axioms reversal_keeps_stream
#print axioms reversal_touches_links_only
#print axioms indices_are_a_permutation

import GrVerif.Props.C17
open GrVerif.Props.C17
#print axioms initialise_inv
#print axioms insert_inv
#print axioms remove_inv
#print axioms zones_inv
#print axioms exclude_avoids
#print axioms step_avoids
#print axioms closest_mem
#print axioms excluded_never_offered

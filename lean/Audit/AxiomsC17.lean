import GrVerif.Props.C17
open GrVerif.Props.C17
#print axioms initialise_inv
#print axioms insert_inv
#print axioms remove_inv
#print axioms zones_inv
#print axioms exclude_avoids
#print axioms step_avoids
#print axioms closest_mem
#print axioms excluded_never_offered
#print axioms merge_numbers_are_exact
#print axioms resolved_verdict_is_true
#print axioms shift_stays_inside_limit
#print axioms every_offered_position_is_free
#print axioms zero_width_range_is_emptied
#print axioms zero_width_test_leaves_wellformed_sets_alone

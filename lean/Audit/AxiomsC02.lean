import GrVerif.Props.C02
open GrVerif.Props.C02
#print axioms fsm_stays_in_slot_map
#print axioms insert_respects_budget
#print axioms pass_range_growth
#print axioms code_runs_each_instruction_once

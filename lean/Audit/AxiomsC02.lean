import GrVerif.Props.C02
open GrVerif.Props.C02
#print axioms fsm_stays_in_slot_map
#print axioms insert_respects_budget
#print axioms pass_range_growth
#print axioms code_runs_each_instruction_once
#print axioms every_opcode_keeps_loop_measure
#print axioms rule_action_does_not_grow_measure
#print axioms rule_loop_is_bounded
#print axioms pass_stays_within_loop_bound
#print axioms pipeline_stays_within_loop_bound
#print axioms fuel_is_never_the_reason
#print axioms every_program_stays_inside_the_stack
#print axioms rule_code_stays_inside_the_stack
#print axioms no_code_leaves_the_stack
#print axioms matcher_stays_inside_its_tables
#print axioms silf_call_growth

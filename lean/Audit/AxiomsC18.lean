import GrVerif.Props.C18
open GrVerif.Props.C18
#print axioms set_succeeds_iff
#print axioms set_fail_unchanged
#print axioms get_after_set
#print axioms set_frame
#print axioms alloc_disjoint
#print axioms loaded_isolated
#print axioms step_refines
#print axioms history_refines
#print axioms lang_defaults_padded
#print axioms lang_unknown_defaults
#print axioms feat_table_total
#print axioms sill_table_total

import GrVerif.Props.C16
open GrVerif.Props.C16
#print axioms table_life_disciplined

import GrVerif.Proofs.PassBounds
import GrVerif.Proofs.LoopBound2
import GrVerif.Proofs.VmSafe2
import GrVerif.Proofs.FsmSafe
import GrVerif.Proofs.CursorShape
import GrVerif.Proofs.CodeCursor
import GrVerif.Proofs.LoadedCursor
import GrVerif.Proofs.MapBound
import GrVerif.Proofs.DataSafe
import GrVerif.Proofs.Total
import GrVerif.Gen.SlotMap
import GrVerif.Gen.KernCap
import GrVerif.Props.C07
/-!
# C02 — shaping any accepted font with any text is safe, terminating and bounded   (partial)

What the Lean side contributes (model: `Model/Pass.lean`, `Model/Action.lean`, `Model/Vm.lean`):
* **slot map**: `fsm_stays_in_slot_map` – whatever the tables and the glyph stream, `runFSM`'s walk writes at most `MAX_SLOTS`
  cells of the slot map (the array has `MAX_SLOTS + 1`): the `--free_slots == 0` guard makes the bound independent of the
  font;
* **termination of code**: action and constraint code is executed by structural recursion over its instruction list
  (`Action.runLoop`, `Vm.runLoop`): every instruction is executed at most once, so a run takes at most `|code|` steps –
  there is no backward jump in the instruction set (the translator of `opcodes.h` would not translate one);
* **the machine stack** (`Proofs/VmSafe.lean`, `Proofs/VmSafe2.lean`): for EVERY instruction list – accepted by the loader or
  not – no opcode body regenerated from `opcodes.h`, no slot opcode of the model and neither epilogue reads or writes outside
  `_stack[STACK_MAX + 2·STACK_GUARD]` (`every_program_stays_inside_the_stack`, `rule_code_stays_inside_the_stack`,
  `no_code_leaves_the_stack`): at the start of an instruction `STACK_GUARD ≤ sp < STACK_GUARD + STACK_MAX` (the `ENDOP` test,
  an unsigned division – `continues_window`), an instruction moves `sp` by −3 … +1 (`scalar_safe`, a window judgement `Ok`
  proved for each of the 34 translated bodies by one tactic), and the array has two guard cells at either end.  For programs
  on which the opcode specification is defined the machine's result is moreover the specification's (`C07.run_eq_spec`);
* **growth**: `insert_respects_budget` (the insert opcode dies once the pass's budget `maxSize` is used up) and
  `runRange_growth` (a range of passes that returns a segment did not let it outgrow 64 × the slots it started with:
  the post-pass `slotCount > maxSize` test).
* **rule loop** (`Proofs/LoopMeasure.lean`, `Proofs/LoopBound.lean`, `Proofs/LoopBound2.lean`): the do-loop of
  `Pass::runGraphite` makes at most `maxRuleLoop × (slots + insertion budget + 2)` iterations, for every pass (state
  machine, rules, constraint and action code), every stream and every text – `rule_loop_is_bounded`,
  `pass_stays_within_loop_bound`, `pipeline_stays_within_loop_bound`.  The measure is the number of stream slots from the
  high-water mark to the end of the stream plus what is left of the insertion budget; no opcode lets it grow
  (`every_opcode_keeps_loop_measure`), and each reset of the loop counter moves the mark behind the cursor, which is the mark
  or lies strictly behind it because `highpassed` is only ever set in that situation (the position invariant `HP`).
  That invariant did NOT hold in the pinned tree: `delete_` steps the cursor back and left `highpassed` set when the step
  landed on the mark; a rule `b c c > next; next; delete; return -k` then moves the mark backwards on every reset and the
  loop count is quadratic in the text length (`fix: delete_ …` in /repo; the model's `Ctx.backOnto` is the repaired
  behaviour).  The hypothesis `1 ≤ maxLoop` is what `Pass::readPass` enforces (`if (m_iMaxLoop < 1) m_iMaxLoop = 1`; the
  driver applies the same clamp).  The model's loop counter is the `GRAPHITE2_VERIF` hook's counter; the two reports are
  compared on every synthesised font, including fonts whose rules jump far back after deleting behind the mark.
  The model's recursion fuel is provably never what ends a run (`fuel_is_never_the_reason`).
* **the cursor of a rule's action** (`Proofs/Cursor.lean`, `Proofs/CursorPass.lean`, `Proofs/CursorShape.lean`): the machine writes
  through its cursor without testing it (`is->setGlyph`, `is->setAttr`, `is->before/after` in `put_glyph`, `put_subs`, `attr_set`…,
  `assoc`); what keeps `is` from being null is the loader, which tracks the cursor's position in the rule's output
  (`_out_index`, `_out_length`) and lets those opcodes through only where `0 ≤ _out_index < _out_length` (`test_context()`).
  `no_write_through_a_null_cursor`: for every font whose rule code passes those tests (`fontOK`, an executable check the driver
  evaluates on every font it runs and the harness demands of every font the real loader accepted), every text, direction and
  fuel, whatever error the pipeline model reports is not one of its four null-cursor faults.  The proof relates the loader's
  two numbers to the run-time state (`PosOK`: at least `_out_index` slots of the stream in front of the cursor, at least
  `_out_length - _out_index` from it on), shows that every opcode keeps the relation (`opcode_keeps_cursor_position`), that the
  matcher fills the slot map with consecutive slots of the stream and `testConstraint` only lets a rule through whose last slot is
  in the map (so an action starts with `_out_index = preContext` slots in front and `sort - preContext` from the cursor on), and
  that the rule loop only ever stands on a slot of the stream (`rule_loop_stands_on_the_stream`).  The hypothesis itself is derived
  from the model of the loader: `loader_accepted_action_passes_cursor_tests` (`Proofs/CodeCursor.lean`) - what `decoder::fetch_opcode`
  lets through as action code passes `curRun`, the `DELETE` bound being what keeps the loader's `uint16` `_out_length` from wrapping.
  That last invariant did NOT hold in the tree this work started from: `SlotMap::collectGarbage` moved the cursor off a freed
  slot only for the map cells it visits, so an action could hand the deleted former first slot back to the rule loop; a rule
  matching there ran `INSERT; NEXT; ATTR_SET` on an empty stream and dereferenced a null slot (`fix: SlotMap::collectGarbage …`
  and `fix: the bytecode loader refuses a DELETE of the slot after the rule` in /repo; the model's `offDeleted` and the DELETE bound
  of `Model/CodeLoad` are the repaired behaviour; both failing fonts are kept in /verif/corpus/e2e).

Everything else in C02 (no out-of-bounds access, no undefined behaviour, no leak in the whole of `gr_make_seg`, positioning,
collision fixing, queries and destruction) is decided on the implementation under ASan/UBSan/LSan with synthesised fonts,
boundary fonts the loader must refuse, looping state machines, byte-mutated shipped fonts and hostile texts.
-/
set_option linter.unusedVariables false
namespace GrVerif.Props.C02
open GrVerif.Vm GrVerif.Seg GrVerif.Action GrVerif.Pass GrVerif.Gen.Vm

theorem fsm_stays_in_slot_map (p : PassT) (gids : List Nat) (state : Nat) :
    (fsmScan p gids state MAX_SLOTS [] 0).2.1 + (if (fsmScan p gids state MAX_SLOTS [] 0).2.2.1 then 1 else 0) ≤ MAX_SLOTS :=
  Pass.fsm_stays_in_slot_map p gids state

theorem insert_respects_budget (c : Ctx) (h : c.maxSize ≤ 1) : ∃ c', opInsert c = .died c' := Pass.insert_respects_budget c h

theorem pass_range_growth (passes : Array PassT) (c : Ctx) (lo hi fuel : Nat) (c' : Ctx)
    (h : runRange passes c lo hi fuel = .ok (some c')) (hpos : 0 ≤ c.seg.numGlyphs) :
    c'.seg.numGlyphs ≤ c.seg.numGlyphs * 64 ∨ c'.seg.numGlyphs = c.seg.numGlyphs := runRange_growth passes c lo hi fuel c' h hpos

/-- the same for a call of `Silf::runGraphite` that contains the bidi step -/
theorem silf_call_growth (passes : Array PassT) (bPass : Nat) (c : Ctx) (lo hi : Nat) (dobidi : Bool) (fuel aMirror : Nat) (c' : Ctx)
    (h : runPhase passes bPass c lo hi dobidi fuel aMirror = .ok (some c')) (hpos : 0 ≤ c.seg.numGlyphs) :
    c'.seg.numGlyphs ≤ c.seg.numGlyphs * 64 ∨ c'.seg.numGlyphs = c.seg.numGlyphs := runPhase_growth passes bPass c lo hi dobidi fuel c' h hpos

/-- running code consumes its instruction list: the loop is defined by recursion on it (stated for the record: after the
first instruction the rest of the list is what remains to be run) -/
theorem code_runs_each_instruction_once (i : Instr) (rest : List Instr) (s : St) :
    Action.runLoop (i :: rest) s = (match stepInstr s i with
      | .inr e => e
      | .inl s' => if continues (s'.vm.sp - STACK_GUARD) then Action.runLoop rest s' else .normal s') := by
  rfl

/-! ### the matcher's tables -/

/-- **`Pass::runFSM` never indexes outside `m_cols`, `m_transitions`, `m_states`** when the pass's tables have the shape the
loader establishes (`TablesWF`; `C01.accepted_pass_has_wellformed_tables`): the walk with every table access checked never
faults and is the modelled walk -/
theorem matcher_stays_inside_its_tables (p : PassT) (h : TablesWF p) (gids : List Nat) (state free : Nat) (rules : List Nat) (pushed : Nat) :
    fsmScanC p gids state free rules pushed = .ok (fsmScan p gids state free rules pushed) := fsmScanC_eq p h gids state free rules pushed

/-! ### the machine stack -/

/-- the scalar machine (`Machine::run` on the translated opcode bodies), either driver, any instruction list, any data bytes:
a run never ends in an access outside `_stack[]` -/
theorem every_program_stays_inside_the_stack (drv : Driver) (fuel : Nat) (is : List Nat) (data : List Nat) (w : Stop) (s : Vm)
    (e : Vm.runLoop drv.cont fuel is (initVm data) = .fault w s) : ∀ i, w ≠ .stackFault i := run_stack_safe drv fuel is data w s e

/-- rule code with the slot opcodes, any instruction list: from the start-of-instruction geometry the run ends normally with
the array intact or with a fault that is not a stack fault -/
theorem rule_code_stays_inside_the_stack (is : List Instr) (s : St) (h : VOK s.vm) : EndSafe (Action.runLoop is s) := runLoop_safe is s h

/-- **the pipeline, every font and text**: whatever the model reports as an error, it is never an access outside `_stack[]` -/
theorem no_code_leaves_the_stack (font : Font) (text : List Nat) (fuel : Nat) (dir : Nat) (hi : font.ipos ≤ font.passes.size)
    (hL : ∀ k, k < font.passes.size → 1 ≤ (font.passes.getD k default).maxLoop) {w : String} (e : shape font text fuel dir = .error w) :
    w ≠ "stack" := by
  rcases shape_error font text fuel dir hi hL e with (⟨p, c, s, h⟩ | ⟨p, c, s, h⟩) | h
  · exact findNDoRule_noStack p c s h
  · exact testPassConstraint_noStack p c s h
  · rw [h]; decide

/-- non-vacuity: 1100 pushes (more than `STACK_MAX`) stop at the overflow test, 5 pops from an empty stack stop at the
underflow test – neither run faults -/
example : (match Vm.runLoop Driver.direct.cont 2000 (List.replicate 1100 55) (initVm []) with | .normal s => s.sp | _ => -100) = 1026 := by decide +kernel
example : (match Vm.runLoop Driver.direct.cont 2000 (List.replicate 5 6) (initVm []) with | .normal s => s.sp | _ => -100) = 1 := by decide +kernel

/-! ### the rule loop is bounded -/

/-- every opcode keeps the invariant of a running action: the stream stays a stream, the measure (slots from the mark to the
end of the stream + insertion budget left) stays below the bound `m` it had, and `highpassed` is only set while the cursor is
strictly behind the mark -/
theorem every_opcode_keeps_loop_measure (m : Nat) : OpsPreserve (QM m) := ops_QM m

/-- a whole rule action, any instruction list: if the machine finishes normally the measure has not grown and the slot it
hands back satisfies the position invariant -/
theorem rule_action_does_not_grow_measure {is : List Instr} {dl : Bool} {mr : Nat} {data : List Nat} {ctx : Ctx} {l : List Nat}
    (hl : Linked ctx.seg l) (hc : Clean ctx.seg l) (hh : HwOK ctx.highwater l)
    (hcell : IsOK ctx.seg l (ctx.smap.getD ((ctx.context : Int) + 1).toNat none)) (ha : Alloc ctx.seg l)
    {r : Int} {so : Option Nat} {c : Ctx} (e : doAction is dl mr data ctx = .ok (r, .finished, so, c)) :
    ∃ l', JO c l' so ∧ meas c l' ≤ meas ctx l ∧ HP c l' so := doAction_meas hl hc hh hcell ha e

/-- from any state with `highpassed` clear and the counter `lc` between 1 and `maxRuleLoop`, the loop ends within
`(measure + 1) × maxRuleLoop + lc` iterations, or with an error raised inside a rule application -/
theorem rule_loop_is_bounded (p : PassT) (hL : 1 ≤ p.maxLoop) (fuel : Nat) (c : Ctx) (s : Nat) (lc : Int) (it : Nat) {l : List Nat}
    (h : JO c l (some s)) (hnp : c.highpassed = false) (h1 : 1 ≤ lc) (h2 : lc ≤ p.maxLoop) (hf : pot p c l lc ≤ fuel) :
    LoopDone p (pot p c l lc) it (ruleLoop p fuel c s lc it) := ruleLoop_bound p hL fuel c s lc it h hnp h1 h2 hf

/-- a pass over a well-formed stream: the loop report (the model's copy of the hook's report) does not say "exceeded" -/
theorem pass_stays_within_loop_bound (p : PassT) (hL : 1 ≤ p.maxLoop) (c : Ctx) (fuel : Nat) (h : WF c.seg) {c' : Ctx}
    (e : runPass p c fuel = .ok (some c')) : c'.vExceeded = c.vExceeded := runPass_within_bound p hL c fuel h e

/-- **the whole pipeline, every font and every text**: no pass's rule loop exceeds `maxRuleLoop × (slots + insertion budget + 2)` -/
theorem pipeline_stays_within_loop_bound (font : Font) (text : List Nat) (fuel : Nat) (dir : Nat) (hi : font.ipos ≤ font.passes.size)
    (hL : ∀ k, k < font.passes.size → 1 ≤ (font.passes.getD k default).maxLoop) {c : Ctx} {ci : List Assoc.CI}
    (e : shape font text fuel dir = .ok (some (c, ci))) : c.vExceeded = false := shape_within_bound font text fuel dir hi hL e

/-- the fuel of the model's recursion never ends a run -/
theorem fuel_is_never_the_reason (font : Font) (text : List Nat) (fuel : Nat) (dir : Nat) (hi : font.ipos ≤ font.passes.size)
    (hL : ∀ k, k < font.passes.size → 1 ≤ (font.passes.getD k default).maxLoop) {w : String} (e : shape font text fuel dir = .error w) :
    EngineError w ∨ w = "associateChars: char-info access out of range" := shape_error font text fuel dir hi hL e

/-! non-vacuity: the rule `b c c > next; next; delete; return -4` (the shape of the defect's witness) on `aaaaab cccccccc`:
one deletion, 13 iterations against a bound of 912, not exceeded -/
def jumpPass (k : Nat) : PassT := { maxLoop := 1, minPre := 0, maxPre := 0, numColumns := 3, numTransition := 3, numStates := 4, numSuccess := 1, cols := #[0xFFFF, 0, 1, 2], starts := #[0], trans := #[#[0, 1, 0], #[0, 0, 2], #[0, 0, 3]], ruleMap := #[[0]], rules := #[{ sort := 3, pre := 0, constraint := [], action := [25, 25, 32, 1, 256 - k, 48] }] }
def jumpFont (k : Nat) : Font := { passes := #[jumpPass k], ipos := 1, classes := #[], gattr := #[], gadv := #[], cmap := id }
def loopReport (r : Except String (Option (Ctx × List Assoc.CI))) : Nat × Nat × Bool × Int :=
  match r with
  | .ok (some r) => (r.1.vIter, r.1.vBound, r.1.vExceeded, r.1.seg.numGlyphs)
  | _ => (0, 0, true, -1)
example : loopReport (shape (jumpFont 4) ([1, 1, 1, 1, 1, 2] ++ List.replicate 8 3) 10) = (13, 912, false, 13) := by decide +kernel
example : (jumpFont 4).ipos ≤ (jumpFont 4).passes.size ∧ ∀ k, k < (jumpFont 4).passes.size → 1 ≤ ((jumpFont 4).passes.getD k default).maxLoop := by
  refine ⟨by decide, fun k hk => ?_⟩
  have : k = 0 := by simp [jumpFont] at hk; omega
  subst this; decide

/-! ### the cursor of a rule's action is never null where the machine writes through it -/

/-- every slot opcode and every scalar opcode keeps the relation between the loader's `(_out_index, _out_length)` and the
position of the cursor in the stream; an opcode that passed the loader's test never ends in a null-cursor fault -/
theorem opcode_keeps_cursor_position (cur cur' : Cur) (s : St) (i : Instr) (h : Tr cur s.ctx) (hs : curStep cur i = some cur') :
    StepT (Tr cur') (stepInstr s i) := stepInstr_track cur cur' s i h hs

/-- a whole action: started on a slot of the stream with `cur.idx` slots in front of it and `cur.len - cur.idx` from it on, code that
passed the loader's cursor tests never stops with a null-cursor fault -/
theorem action_never_writes_through_null {is : List Instr} {dl : Bool} {mr : Nat} {data : List Nat} {ctx : Ctx} {cur cur' : Cur} {l : List Nat}
    (hj : J (enterCtx (startCtx ctx)) l) (hp : PosOK cur l (enterCtx (startCtx ctx)).is) (hlv : Live l (enterCtx (startCtx ctx)).is)
    (hc : curRun cur is = some cur') {w : String} (e : doAction is dl mr data ctx = .error w) : ¬ nullFault w :=
  doAction_noNullFault hj hp hlv hc e

/-- `SlotMap::collectGarbage` (after the repair): the cursor it hands back is null or a slot of the stream -/
theorem garbage_collection_hands_back_a_stream_slot (c : Ctx) (a : Option Nat) {l : List Nat} (h : JO c l a) :
    ∀ x, (collectGarbage c a).2 = some x → x ∈ l := gc_mem c a h

/-- one step of the rule loop from a slot of the stream ends on a slot of the stream (or at the end), and whatever error it reports
is neither a null-cursor fault nor a write outside the slot map -/
theorem rule_loop_stands_on_the_stream (p : PassT) (c : Ctx) (slot : Nat) {l : List Nat} (h : JO c l (some slot)) (hs : slot ∈ l)
    (hp : passOK p = true) :
    (∀ {w : String}, findNDoRule p c slot = .error w → ¬ engineFault w) ∧
    (∀ {c' : Ctx} {s' : Option Nat} {st : Status}, findNDoRule p c slot = .ok (c', s', st) → ∃ l', JO c' l' s' ∧ Live l' s') :=
  findNDoRule_safe p c slot h hs hp

/-- **the pipeline, every text, every font whose rule code passed the loader's cursor tests**: no write through a null cursor -/
theorem no_write_through_a_null_cursor (font : Font) (hf : fontOK font = true) (text : List Nat) (fuel : Nat) (dir : Nat) {w : String}
    (e : shape font text fuel dir = .error w) : ¬ nullFault w := fun h => shape_noNullCursor font hf text fuel dir e (.inl h)

/-- every opcode keeps the `map` register on a cell of the slot map: `0 ≤ map ≤ m_size + 1`, in an array of `m_size + 2` cells or more -/
theorem every_opcode_keeps_map_inside : OpsPreserve MB := ops_MB

/-- a whole action, any code: started with the `map` register inside the map, neither `temp_copy` nor the write-back `*map = is` of
`Machine::run` writes outside `m_slot_map` -/
theorem action_never_leaves_the_slot_map {is : List Instr} {dl : Bool} {mr : Nat} {data : List Nat} {ctx : Ctx} (hm : MB (enterCtx (startCtx ctx)))
    {w : String} (e : doAction is dl mr data ctx = .error w) : ¬ mapFault w := doAction_noMapFault hm e

/-- the matcher leaves `m_size ≤ MAX_SLOTS` cells in use, in an array of `MAX_SLOTS + 2` -/
theorem matcher_leaves_room_in_the_slot_map (p : PassT) (c : Ctx) (slot : Nat) :
    (runFSM p c slot).2.1.size + 2 ≤ (runFSM p c slot).2.1.smap.size := runFSM_size p c slot

/-- the tie to the source: the model's `MAX_SLOTS` and the `MAX_SLOTS + 2` cells of its slot map are the numbers regenerated from
`src/inc/Rule.h` on every run (`Gen/SlotMap.lean`; the translator also checks the matcher's budget and the test of `next`).  An array
of `MAX_SLOTS + 1` cells - the pinned tree - makes this line fail: `matcher_leaves_room_in_the_slot_map` is then no longer about the code. -/
example : Pass.MAX_SLOTS = Gen.SlotMap.MAX_SLOTS ∧ Pass.MAX_SLOTS + 2 = Gen.SlotMap.slotMapCells := by decide

/-- **the pipeline, every text, every font whose rule code passed the loader's cursor tests**: the `map` register never leaves
`m_slot_map[MAX_SLOTS + 2]` (the array of the repaired `Rule.h`; with the pinned `MAX_SLOTS + 1` cells a rule of 63 slots wrote one past it) -/
theorem map_register_stays_inside_the_slot_map (font : Font) (hf : fontOK font = true) (text : List Nat) (fuel : Nat) (dir : Nat) {w : String}
    (e : shape font text fuel dir = .error w) : ¬ mapFault w := fun h => shape_noNullCursor font hf text fuel dir e (.inr (.inl h))

/-- every translated opcode body declares exactly the operands the regenerated opcode table gives its opcode, and reads only those:
started with `dp = d` on a data area of `d + n` bytes it makes no read outside it and ends with `dp = d + n` -/
theorem every_opcode_reads_its_own_operands (opc : Nat) (op : VmM Unit) (h : scalarOp opc = some op) : ∃ n, OpDP n op ∧ tablePsz opc = some n ∧ n ≤ 4 :=
  scalar_dp opc op h

/-- code as the pipeline model decodes it (`mkCode`): every instruction carries the operands the table gives it, the data area is their
concatenation, and a run of it never reads an operand outside the data area -/
theorem code_reads_only_its_own_operands {bytes : List Nat} {isAction : Bool} {k : Code} (h : mkCode bytes isAction = some k) (s : St)
    (hs : s.vm = initVm k.data) {w : String} (e : Action.runLoop k.instrs s = .fault w) : w ≠ "data" :=
  runLoop_data k.instrs s (by rw [hs]; exact (mkCode_data h).2) (mkCode_data h).1 e

/-- **the pipeline, every text, every font whose rule code passed the loader's cursor tests**: no operand is read outside a code's data
area (`Machine::run`'s `param[i]` after `declare_params(n)`; nothing at run time tests `dp`) -/
theorem no_operand_read_outside_the_code (font : Font) (hf : fontOK font = true) (text : List Nat) (fuel : Nat) (dir : Nat) {w : String}
    (e : shape font text fuel dir = .error w) : w ≠ "data" := fun h => shape_noNullCursor font hf text fuel dir e (.inr (.inr h))

/-- **the pipeline model never faults on a font of its fragment**: for every font whose rule code decodes into modelled opcodes (`fontFull`)
and passes the loader's cursor tests (`fontOK`), with the positioning-pass index and loop limits the loader establishes, every text,
direction and fuel, `shape` returns - a segment, or `none` where the engine gives up - and never an error.  Every way the model can stop
with an error is excluded: the machine stack, a null cursor, the slot map, the operand bytes, the char-info array, the recursion fuel; what
is left are the two errors that say "this font is outside the model", which `fontFull` rules out. -/
theorem pipeline_never_faults (font : Font) (hfull : fontFull font = true) (hok : fontOK font = true) (hi : font.ipos ≤ font.passes.size)
    (hL : ∀ k, k < font.passes.size → 1 ≤ (font.passes.getD k default).maxLoop) (text : List Nat) (fuel : Nat) (dir : Nat) :
    ∃ r, shape font text fuel dir = .ok r := shape_total font hfull hok hi hL text fuel dir

/-- an error of the pipeline comes from a rule application or the pass constraint of one of the font's own passes -/
theorem pipeline_error_comes_from_a_pass (font : Font) (text : List Nat) (fuel : Nat) (dir : Nat) (hi : font.ipos ≤ font.passes.size)
    (hL : ∀ k, k < font.passes.size → 1 ≤ (font.passes.getD k default).maxLoop) {w : String}
    (e : shape font text fuel dir = .error w) : ∃ k, k < font.passes.size ∧ EngineErrorOf (font.passes.getD k default) w :=
  shape_errorOf font text fuel dir hi hL e

/-! non-vacuity: the jump font lies inside the fragment; a font with `PUSH_FEAT` (43, not modelled) in a rule does not, and on it the model
stops with the error the hypothesis excludes -/
example : fontFull (jumpFont 4) = true ∧ fontOK (jumpFont 4) = true := by decide +kernel
def featPass : PassT := { maxLoop := 1, minPre := 0, maxPre := 0, numColumns := 1, numTransition := 1, numStates := 2, numSuccess := 1, cols := #[0xFFFF, 0], starts := #[0], trans := #[#[1]], ruleMap := #[[0]], rules := #[{ sort := 1, pre := 0, constraint := [], action := [43, 0, 0, 48] }] }
def featFont : Font := { passes := #[featPass], ipos := 1, classes := #[], gattr := #[], gadv := #[], cmap := id }
example : fontFull featFont = false := by decide +kernel
example : (match shape featFont [1] 10 with | .error w => w | _ => "") = "opcode not modelled" := by decide +kernel

/-- **the hypothesis comes from the loader**: action code that `Machine::Code`'s loading constructor (as modelled in `Model/CodeLoad`,
tied to the real loader by the C01 correspondence) accepts passes the cursor tests from `(pre_context, rule_length)`, and is flagged
`deletes` whenever they have seen a `DELETE`.  (Constraint code cannot contain any of the opcodes the tests look at: the opcode table
marks them action-only.)  The instruction list here is the loader model's; the pipeline model decodes the same bytes with `mkCode`, and
the driver compares the two lists on every program of the `cursor_hypothesis` stage (`same=`). -/
theorem loader_accepted_action_passes_cursor_tests (l : CodeLoad.Limits) (pt : Nat) (bc : List Nat) (p : CodeLoad.Loaded) (hrl : l.ruleLength < 65536)
    (h : CodeLoad.load l false pt bc = .ok (.ok (some p))) :
    ∃ cur', curRun ⟨l.preContext, l.ruleLength, false⟩ p.instrs = some cur' ∧ (cur'.dels = true → p.delete = true) :=
  CodeLoad.accepted_action_passes_cursor_tests l pt bc p hrl h

/-- **… in the very form the pipeline theorems assume it** (`codeOK`): the loader model and the pipeline model cut the bytes into the same
instructions (`loop_decode`), `TEMP_COPY` insertions change nothing for the cursor tests, and the pipeline model's `deletes` flag is set
whenever a `DELETE` was read (`analyse_fold_deletes`).  So for a rule whose action the loader accepts with `pre_context < rule_length`
(`Pass::readRules`), the action half of `ruleOK` holds. -/
theorem loader_accepted_action_is_codeOK (l : CodeLoad.Limits) (pt : Nat) (bc : List Nat) (p : CodeLoad.Loaded) (hrl : l.ruleLength < 65536)
    (h : CodeLoad.load l false pt bc = .ok (.ok (some p))) : codeOK ⟨l.preContext, l.ruleLength, false⟩ bc true = true :=
  CodeLoad.accepted_action_is_codeOK l pt bc p hrl h

/-- The same for constraint code – a rule's constraint and a pass's constraint: what `Machine::Code`'s loading constructor accepts as
constraint code moves no cursor and writes through none, because `decoder::validate_opcode` refuses every opcode without a constraint
implementation and the regenerated opcode table gives none of the opcodes the cursor tests look at such an implementation
(`constraint_table`, decided over the table of this run).  The loader's loop and the pipeline model's decoder walk the bytes in the same
steps also through a `CNTXT_ITEM` (`loop_walk`). -/
theorem loader_accepted_constraint_is_codeOK (l : CodeLoad.Limits) (pt : Nat) (bc : List Nat) (op : Option CodeLoad.Loaded)
    (h : CodeLoad.load l true pt bc = .ok (.ok op)) : codeOK ⟨0, 1, false⟩ bc false = true :=
  CodeLoad.accepted_constraint_is_codeOK l pt bc op h ⟨0, 1, false⟩ rfl

/-- **A pass the loader accepts passes the cursor tests.**  For every byte string, every base offset, every pass type and every limits
of the font: if `Pass::readPass` (the model `readPassAll`, tied to the real loader by the C01 correspondence) accepts the pass, then any
pipeline-model pass with the rules (`preContext`, `sortKey`, action bytes, constraint bytes) and the pass constraint the loader read is
`passOK` – the hypothesis of `no_write_through_a_null_cursor`, `map_register_stays_inside_the_slot_map`,
`no_operand_read_outside_the_code` and `pipeline_never_faults`, pass by pass.  `Pass::readRules` hands `Machine::Code` exactly the
`(pre_context, rule_length)` the rule loop later starts the cursor bookkeeping from, and refuses `preContext ≥ sortKey`. -/
theorem loader_accepted_pass_passes_cursor_tests (b : List Nat) (base : Nat) (collOK : Bool) (f : Loader.FontLimits) (pt : Nat) (P : Loader.PassAll)
    (e : Loader.readPassAll b base collOK f pt = .ok (.ok P)) (p : PassT)
    (hr : p.rules = (P.rules.map (Loader.ruleOf b)).toArray) (hp : p.pconstraint = Loader.pconstraintOf b P.layout) : passOK p = true :=
  Loader.readPassAll_passOK b base collOK f pt P e p hr hp

/-- and so does a font all of whose passes were accepted -/
theorem loader_accepted_font_passes_cursor_tests (font : Font)
    (h : ∀ p ∈ font.passes.toList, ∃ b base collOK f pt P, Loader.readPassAll b base collOK f pt = .ok (.ok P) ∧
      p.rules = (P.rules.map (Loader.ruleOf b)).toArray ∧ p.pconstraint = Loader.pconstraintOf b P.layout) : fontOK font = true := by
  unfold fontOK
  rw [Array.all_eq_true]
  intro i hi
  obtain ⟨b, base, collOK, f, pt, P, e, hr, hp⟩ := h font.passes[i] (Array.getElem_mem_toList hi)
  exact loader_accepted_pass_passes_cursor_tests b base collOK f pt P e _ hr hp

/-- **The pipeline never faults on a font the loader model accepted** - `pipeline_never_faults` with its cursor hypothesis discharged:
for a font each of whose passes carries the rules and the pass constraint that `Pass::readPass` read from some byte string (any bytes, any
limits), whose rule code stays within the opcodes the model gives a meaning (`fontFull`), with the positioning-pass index and loop limits
the loader establishes, `shape` returns for every text, fuel and direction. -/
theorem pipeline_never_faults_on_loaded_fonts (font : Font) (hfull : fontFull font = true)
    (hloaded : ∀ p ∈ font.passes.toList, ∃ b base collOK f pt P, Loader.readPassAll b base collOK f pt = .ok (.ok P) ∧
      p.rules = (P.rules.map (Loader.ruleOf b)).toArray ∧ p.pconstraint = Loader.pconstraintOf b P.layout)
    (hi : font.ipos ≤ font.passes.size) (hL : ∀ k, k < font.passes.size → 1 ≤ (font.passes.getD k default).maxLoop)
    (text : List Nat) (fuel : Nat) (dir : Nat) : ∃ r, shape font text fuel dir = .ok r :=
  pipeline_never_faults font hfull (loader_accepted_font_passes_cursor_tests font hloaded) hi hL text fuel dir

/-! ### collision kerning: the slice count of `KernCollider::initSlot`

`Pass::collisionKern` hands `KernCollider::initSlot` the y-extent of every slot of the segment, and positions are whatever the font's rules
made them, so the quotient from which the number of slices is computed is not bounded by anything the loader checks.  What the code of this
run does with it is regenerated into `Gen/KernCap.lean`: the quotient is tested, as a float, against `MAX_KERN_SLICES` before it is
converted to `int` and used as the size of `_edges` - so the conversion is defined (`MAX_KERN_SLICES` fits an `int`, and the negated
comparison also refuses NaN) and one call allocates at most `MAX_KERN_SLICES` floats.  The floating-point arithmetic itself is not
modelled; stage (c4) of `tools/props/c02.py` shapes such fonts on the implementation.  (On the pinned tree the conversion comes first:
fix aa912f89.) -/
theorem kern_slice_count_is_tested_before_it_is_used :
    Gen.KernCap.countTestedBeforeConversion = true ∧ Gen.KernCap.maxKernSlices < 2 ^ 31 ∧ 4 * Gen.KernCap.maxKernSlices ≤ 2 ^ 20 := by decide

/-! non-vacuity: the second pass of `tests/fonts/small.ttf` (bytes [215, 334) of its Silf sub-table; one rule of two slots whose action is
`copy_next; put_copy 0; …; next; ret_zero`) is accepted by the loader model, and the theorem gives `passOK` of the pass built from it -/
def smallPass : List Nat := [0, 5, 2, 0, 0, 1, 0, 0, 0, 0, 1, 44, 0, 0, 1, 44, 0, 0, 1, 45, 0, 0, 0, 0, 0, 3, 0, 2, 0, 1, 0, 2, 0, 2, 0, 2, 0, 1, 0, 0, 0, 3, 0, 3, 0, 0, 0, 5, 0, 5, 0, 1, 0, 0, 0, 1, 0, 0, 0, 0, 0, 0, 0, 2, 0, 10, 0, 0, 0, 0, 0, 1, 0, 0, 0, 33, 0, 1, 0, 0, 0, 0, 0, 2, 0, 0, 27, 30, 0, 1, 255, 38, 2, 1, 0, 35, 17, 41, 6, 0, 35, 8, 41, 7, 0, 35, 9, 44, 6, 0, 35, 3, 44, 7, 0, 35, 4, 25, 49]
example : (match Loader.readPassAll smallPass 215 false { classes := 2, glyfAttrs := 8, features := 1, numUser := 5 } 3 with
    | .ok (.ok P) => P.rules.map fun (r : Loader.RuleRec) => (r.pre, r.sort, (Loader.ruleOf smallPass r).action.length, (Loader.ruleOf smallPass r).constraint.length)
    | _ => []) = [(0, 2, 33, 0)] := by decide +kernel

/-! non-vacuity: the jump font above meets the hypothesis.  At the level of one action the hypothesis is what stands between the
machine and the null pointer: on a one-slot stream the code `next; put_glyph` (`_out_index = 1 = _out_length` at the `put_glyph`:
refused by `test_context()`) fails `curRun` and the model reports exactly the fault the theorems exclude, while `put_glyph; next`
passes and runs.  (Through `shape` the fault cannot be shown: there `Code::run`'s own test of the furthest slot reference stops such
code first - the model's `maxRef`, here handed in as 0.) -/
example : fontOK (jumpFont 4) = true := by decide +kernel
def oneSlotSeg : Seg := { slots := #[({} : Slot)], first := some 0, last := some 0, numGlyphs := 1 }
def oneSlot : Ctx :=
  { seg := oneSlotSeg, smap := #[none, some 0, none], size := 2, «context» := 0, maxSize := 100, map := 0, is := none }
example : curRun ⟨0, 1, false⟩ [(25, []), (59, [0, 0])] = none ∧ curRun ⟨0, 1, false⟩ [(59, [0, 0]), (25, [])] = some ⟨1, 1, false⟩ := by decide
example : (match doAction [(25, []), (59, [0, 0])] false 0 [] oneSlot with | .error w => w | _ => "") = "put_glyph: `is` is null" := by decide +kernel
example : (match doAction [(59, [0, 0]), (25, [])] false 0 [] oneSlot with | .error _ => false | .ok _ => true) = true := by decide +kernel

/-! ### non-vacuity: a looping state machine (a+ b) on 100 a's stops at the slot-map limit -/
def loopPass : PassT :=
  { maxLoop := 5, minPre := 0, maxPre := 0, numColumns := 2, numTransition := 2, numStates := 3, numSuccess := 1,
    cols := #[0xFFFF, 0, 1], starts := #[0], trans := #[#[1, 0], #[1, 2]], ruleMap := #[[0]],
    rules := #[{ sort := 2, pre := 0, constraint := [], action := [] }] }
example : (fsmScan loopPass (List.replicate 100 1) 0 MAX_SLOTS [] 0).1 = false ∧ (fsmScan loopPass (List.replicate 100 1) 0 MAX_SLOTS [] 0).2.1 = 64 := by decide

end GrVerif.Props.C02

import GrVerif.Proofs.PassBounds
import GrVerif.Props.C07
/-!
# C02 — shaping any accepted font with any text is safe, terminating and bounded   (partial)

What the Lean side contributes (model: `Model/Pass.lean`, `Model/Action.lean`, `Model/Vm.lean`):
* **slot map**: `fsm_stays_in_slot_map` – whatever the tables and the glyph stream, `runFSM`'s walk writes at most `MAX_SLOTS`
  cells of the slot map (the array has `MAX_SLOTS + 1`): the `--free_slots == 0` guard makes the bound independent of the
  font;
* **termination of code**: action and constraint code is executed by structural recursion over its instruction list
  (`Action.runLoop`, `Vm.runLoop`): every instruction is executed at most once, so a run takes at most `|code|` steps –
  there is no backward jump in the instruction set (the translator of `opcodes.h` would not translate one);
* **stack discipline**: for every program on which the opcode specification is defined, the machine's result is the
  specification's (`C07.run_eq_spec`) – in particular no stack cell outside the array is touched;
* **growth**: `insert_respects_budget` (the insert opcode dies once the pass's budget `maxSize` is used up) and
  `runRange_growth` (a range of passes that returns a segment did not let it outgrow 64 × the slots it started with:
  the post-pass `slotCount > maxSize` test).
* **rule loop**: the model's rule loop counts its iterations exactly as the `GRAPHITE2_VERIF` hook of `Pass::runGraphite`
  does; the two counters are compared on every synthesised font, and the bound `maxRuleLoop × (slots + insert budget + 2)`
  is checked on the implementation's counter.  That the bound holds for *all* fonts is NOT a theorem here.

Everything else in C02 (no out-of-bounds access, no undefined behaviour, no leak in the whole of `gr_make_seg`, positioning,
collision fixing, queries and destruction) is decided on the implementation under ASan/UBSan/LSan with synthesised fonts,
boundary fonts the loader must refuse, looping state machines, byte-mutated shipped fonts and hostile texts.
-/
set_option linter.unusedVariables false
namespace GrVerif.Props.C02
open GrVerif.Vm GrVerif.Seg GrVerif.Action GrVerif.Pass GrVerif.Gen.Vm

theorem fsm_stays_in_slot_map (p : PassT) (gids : List Nat) (state : Nat) :
    (fsmScan p gids state MAX_SLOTS [] 0).2.1 + (if (fsmScan p gids state MAX_SLOTS [] 0).2.2.1 then 1 else 0) ≤ MAX_SLOTS :=
  Pass.fsm_stays_in_slot_map p gids state

theorem insert_respects_budget (c : Ctx) (h : c.maxSize ≤ 1) : ∃ c', opInsert c = .died c' := Pass.insert_respects_budget c h

theorem pass_range_growth (passes : Array PassT) (c : Ctx) (lo hi fuel : Nat) (c' : Ctx)
    (h : runRange passes c lo hi fuel = .ok (some c')) (hpos : 0 ≤ c.seg.numGlyphs) :
    c'.seg.numGlyphs ≤ c.seg.numGlyphs * 64 ∨ c'.seg.numGlyphs = c.seg.numGlyphs := runRange_growth passes c lo hi fuel c' h hpos

/-- running code consumes its instruction list: the loop is defined by recursion on it (stated for the record: after the
first instruction the rest of the list is what remains to be run) -/
theorem code_runs_each_instruction_once (i : Instr) (rest : List Instr) (s : St) :
    Action.runLoop (i :: rest) s = (match stepInstr s i with
      | .inr e => e
      | .inl s' => if continues (s'.vm.sp - STACK_GUARD) then Action.runLoop rest s' else .normal s') := by
  rfl

/-! ### non-vacuity: a looping state machine (a+ b) on 100 a's stops at the slot-map limit -/
def loopPass : PassT :=
  { maxLoop := 5, minPre := 0, maxPre := 0, numColumns := 2, numTransition := 2, numStates := 3, numSuccess := 1,
    cols := #[0xFFFF, 0, 1], starts := #[0], trans := #[#[1, 0], #[1, 2]], ruleMap := #[[0]],
    rules := #[{ sort := 2, pre := 0, constraint := [], action := [] }] }
example : (fsmScan loopPass (List.replicate 100 1) 0 MAX_SLOTS [] 0).1 = false ∧ (fsmScan loopPass (List.replicate 100 1) 0 MAX_SLOTS [] 0).2.1 = 64 := by decide

end GrVerif.Props.C02

import GrVerif.Proofs.Fsm
/-!
# C06 — passes apply rules with the documented matching and precedence semantics   (partial)

Model: `Model/Pass.lean` – the pass engine of `src/Pass.cpp` (`runFSM`, `accumulate_rules`, `testConstraint`,
`findNDoRule`, `adjustSlot`, the `maxLoop`/highwater loop of `Pass::runGraphite`), the pass sequencing of
`Silf::runGraphite`/`Face::runGraphite` and the action interpreter of `Model/Action.lean`.  The model is the formal
reference semantics of C06; it is tied to the code by shaping synthesised fonts (random rule sets over overlapping glyph
columns, constraints over glyph attributes, 1–3 passes) with the real engine and with the model: glyph ids, associations and
attachments must be identical.

Proved about that semantics:
* **matching** (`fsm_matches_patterns`): if the pass tables encode the rule patterns (`TrieOK`, a finite check the driver
  evaluates for every font it runs: `trieCheck_sound`), the state machine collects exactly the rules whose glyph-class
  pattern is a prefix of the stream ahead – it never misses a matching rule, never reports a non-matching one, and never
  runs out of slot-map cells;
* **precedence** (`state_rules_in_precedence_order`, `merge_keeps_precedence_order`): the collected rules are in the order
  "longest sort key first, then earliest rule", each once;
* **selection** (`applied_rule_is_highest_precedence`): the rule whose action runs is the first one in that order whose
  constraint evaluates true: every matching rule of higher precedence has a failing constraint; and if no rule is applied,
  every matching rule's constraint failed (`no_rule_means_all_failed`).

Not covered by a theorem: that executing the chosen action and resuming "at the position the rule returns" equals a
separately written reference (the model *is* that reference).  Pass constraints, passes in either direction and the bidi
step are part of the model (theorems at the end of this file); mirroring is not.
-/
set_option linter.unusedVariables false
namespace GrVerif.Props.C06
open GrVerif.Vm GrVerif.Seg GrVerif.Action GrVerif.Pass

theorem fsm_matches_patterns {p : PassT} {pats : Array (List Nat)} {lab : Nat → List Nat} (ok : TrieOK p pats lab) (gids : List Nat) :
    (fsmScan p gids 0 MAX_SLOTS [] 0).1 = true ∧
    RulesFor p pats (colWord p gids) (fsmScan p gids 0 MAX_SLOTS [] 0).2.2.2 := Pass.fsm_matches_patterns ok gids

theorem table_check_is_sound {p : PassT} {pats : Array (List Nat)} {lab : Nat → List Nat} (h : trieCheck p pats lab = true) :
    TrieOK p pats lab := trieCheck_sound h

theorem state_rules_in_precedence_order (p : PassT) (rs : List Nat) (hn : rs.Nodup) :
    Sorted p (sortRules p rs) ∧ ∀ x, x ∈ sortRules p rs ↔ x ∈ rs := sortRules_spec p rs hn

theorem merge_keeps_precedence_order (p : PassT) (cur st : List Nat) (hc : Sorted p cur) (hs : Sorted p st)
    (hlen : cur.length + st.length ≤ MAX_RULES) :
    Sorted p (accumulate p cur st) ∧ ∀ x, x ∈ accumulate p cur st ↔ x ∈ cur ∨ x ∈ st := accumulate_spec p cur st hc hs hlen

/-- **selection.** The rule that `findNDoRule` applies matches the stream, its constraint holds, and every matching rule of
higher precedence (longer sort key, or equal sort key and earlier in the font) has a constraint that evaluated false. -/
theorem applied_rule_is_highest_precedence {p : PassT} {pats : Array (List Nat)} {lab : Nat → List Nat} (ok : TrieOK p pats lab)
    (gids : List Nat) (c : Ctx) (r : Nat) (st : Status)
    (h : pickRule p c (fsmScan p gids 0 MAX_SLOTS [] 0).2.2.2 = .ok (some r, st)) :
    (r < pats.size ∧ pats.getD r [] <+: colWord p gids) ∧
    (∃ s, testConstraint (p.rules.getD r default) c = .ok (true, s)) ∧
    ∀ x, x < pats.size → pats.getD x [] <+: colWord p gids → ruleLt p x r = true →
      testConstraint (p.rules.getD x default) c = .ok (false, .finished) := by
  obtain ⟨_, hs, hm⟩ := fsm_matches_patterns ok gids
  obtain ⟨pre, post, e, hc, hp⟩ := pickRule_first p c _ r st h
  have hr : r ∈ (fsmScan p gids 0 MAX_SLOTS [] 0).2.2.2 := by rw [e]; simp
  have hrm := (hm r).mp hr
  refine ⟨⟨hrm.1, hrm.2.2⟩, hc, fun x hx hxp hlt => ?_⟩
  have hxl : x ∈ (fsmScan p gids 0 MAX_SLOTS [] 0).2.2.2 := (hm x).mpr ⟨hx, ok.nonempty x hx, hxp⟩
  rw [e] at hxl hs
  unfold Sorted at hs
  rw [List.pairwise_append] at hs
  rcases List.mem_append.mp hxl with h1 | h1
  · exact hp x h1
  · rcases List.mem_cons.mp h1 with h2 | h2
    · rw [h2, ruleLt_irrefl] at hlt; cases hlt
    · have := (List.pairwise_cons.mp hs.2.1).1 x h2
      rw [ruleLt_asymm this] at hlt; cases hlt

theorem no_rule_means_all_failed {p : PassT} {pats : Array (List Nat)} {lab : Nat → List Nat} (ok : TrieOK p pats lab)
    (gids : List Nat) (c : Ctx) (h : pickRule p c (fsmScan p gids 0 MAX_SLOTS [] 0).2.2.2 = .ok (none, .finished)) :
    ∀ x, x < pats.size → pats.getD x [] <+: colWord p gids → ∃ s, testConstraint (p.rules.getD x default) c = .ok (false, s) := by
  intro x hx hxp
  obtain ⟨_, _, hm⟩ := fsm_matches_patterns ok gids
  exact pickRule_none p c _ h x ((hm x).mpr ⟨hx, ok.nonempty x hx, hxp⟩)

/-! ### pass constraints (`Pass::testPassConstraint`) -/

/-- a pass whose constraint evaluates false on the first slot of the stream – the machine ending normally – is skipped: the segment and
the rule context leave `Pass::runGraphite` exactly as they came, whatever rules the pass has and whichever direction it would have run in -/
theorem failed_pass_constraint_skips_the_pass (p : PassT) (c : Ctx) (fuel s0 : Nat) (hf : c.seg.first = some s0)
    (h : testPassConstraint p c s0 = .ok (false, .finished)) : runPassDir p c fuel = .ok (some c) := by
  unfold runPassDir
  rw [hf]
  simp only [h]
  simp

/-- a pass constraint that does not leave the machine in the state `finished` ends the whole run of passes (`Silf::runGraphite` tests
`m.status()` after every pass): no segment -/
theorem pass_constraint_that_dies_ends_the_run (p : PassT) (c : Ctx) (fuel s0 : Nat) (ok : Bool) (st : Status) (hf : c.seg.first = some s0)
    (h : testPassConstraint p c s0 = .ok (ok, st)) (hst : st ≠ .finished) : runPassDir p c fuel = .ok none := by
  unfold runPassDir
  rw [hf]
  simp only [h]
  simp [hst]

/-- a pass without a constraint always runs -/
theorem pass_without_constraint_runs (p : PassT) (c : Ctx) (s0 : Nat) (hp : p.pconstraint = []) :
    testPassConstraint p c s0 = .ok (true, .finished) := by
  unfold testPassConstraint
  rw [hp]
  rfl

/-! ### pass sequencing (`Silf::runGraphite`): every pass of a call runs once, the bidi step at most once -/

/-- a font without a bidi step: a call of `Silf::runGraphite` is the plain run of its passes, each turning the stream as it wants -/
theorem call_without_bidi_step (passes : Array PassT) (c : Ctx) (lo hi : Nat) (dobidi : Bool) (fuel aMirror : Nat) :
    runPhase passes 0xFF c lo hi dobidi fuel aMirror = runRange passes c lo hi fuel := by
  unfold runPhase runRange
  simp

/-- a call whose range contains the bidi step (`lo < bPass ≤ hi`): the passes in front of it, the step, the passes behind it – in font
order, each once, none of them turning the stream on its own.  (The engine's range logic used to run passes twice for some bidi
indices; repaired in /repo, fix ef5d3b4c.) -/
theorem call_with_bidi_step (passes : Array PassT) (bPass : Nat) (c : Ctx) (lo hi : Nat) (dobidi : Bool) (fuel : Nat)
    (hb : bPass ≠ 0xFF) (h1 : lo < bPass) (h2 : bPass ≤ hi) (c1 : Ctx) (aMirror : Nat)
    (hfront : runPasses passes (c.seg.numGlyphs * 64) false (c.beginRange (c.seg.numGlyphs * 64)) lo bPass fuel = .ok (some c1)) :
    runPhase passes bPass c lo hi dobidi fuel aMirror = runPasses passes (c.seg.numGlyphs * 64) false (bidiStep c1 aMirror) bPass hi fuel := by
  unfold runPhase
  simp only []
  rw [if_pos ⟨hb, Or.inl ⟨h1, h2⟩⟩, hfront]

/-- a call whose range does not contain the bidi step runs its passes as a font without one would -/
theorem call_beside_bidi_step (passes : Array PassT) (bPass : Nat) (c : Ctx) (lo hi : Nat) (fuel aMirror : Nat)
    (h : bPass ≤ lo ∨ hi < bPass) : runPhase passes bPass c lo hi false fuel aMirror = runRange passes c lo hi fuel := by
  unfold runPhase runRange
  simp only []
  rw [if_neg]
  intro hc
  rcases hc.2 with ⟨a, b⟩ | ⟨a, _⟩
  · omega
  · cases a

/-- the bidi step on a font without a mirror attribute, or for a request that is not `gr_rtl | gr_nobidi`, only turns the stream: no glyph
changes where no rule applies (the engine used to mirror through glyph attribute 0 at the start of such a request; repaired in /repo,
fix ca344335) -/
theorem bidi_step_without_mirroring (c : Ctx) (aMirror : Nat) (h : aMirror = 0 ∨ (turnStep c).seg.dir % 4 ≠ 3) : bidiStep c aMirror = turnStep c := by
  unfold bidiStep
  rw [if_neg]
  intro hc
  rcases h with h | h
  · exact hc.1 h
  · exact h hc.2

theorem no_mirroring_without_a_mirror_attribute (font : Font) (c : Ctx) (h : font.aMirror = 0) : startMirror font c = c := by
  unfold startMirror
  rw [if_neg (fun hc => hc.2.2 h)]

/-! ### non-vacuity: a two-rule pass over two columns – rule 0 = "a", rule 1 = "a b" (longer, so it comes first) -/
def pass2 : PassT :=
  { maxLoop := 5, minPre := 0, maxPre := 0, numColumns := 2, numTransition := 2, numStates := 3, numSuccess := 2,
    cols := #[0xFFFF, 0, 1], starts := #[0], trans := #[#[1, 0], #[0, 2]], ruleMap := #[[0], [1]],
    rules := #[{ sort := 1, pre := 0, constraint := [], action := [] }, { sort := 2, pre := 0, constraint := [], action := [] }] }
def pats2 : Array (List Nat) := #[[0], [0, 1]]
def lab2 : Nat → List Nat := fun s => [[], [0], [0, 1]].getD s []

example : trieCheck pass2 pats2 lab2 = true := by decide +kernel
example : (fsmScan pass2 [1, 2, 1] 0 MAX_SLOTS [] 0).2.2.2 = [1, 0] := by decide
example : (fsmScan pass2 [1, 1] 0 MAX_SLOTS [] 0).2.2.2 = [0] := by decide

end GrVerif.Props.C06

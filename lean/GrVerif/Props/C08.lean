import GrVerif.Proofs.Borrow
import GrVerif.Model.Pass
import GrVerif.Proofs.SparseSpec
/-!
# C08 — shaping is a pure function of its arguments (history-independent)   (partial)

Two things carry this property in the code and both are modelled:
* the shaping pipeline itself keeps all of its state in the segment it is building (`Model/Pass.lean`: `shape` is a Lean
  function of the font tables and the text – it has no access to anything else, so in the model there is nothing to
  prove; what ties that to the code is the whole-pipeline correspondence of C06, which runs the engine on one face for
  many texts in a row and compares each result with the model's);
* the hinted-advance cache of a `gr_font` (`Font::m_advances`): `hinted_advance_history_independent` – after any history
  of requests `Font::advance(gid)` answers with the application callback's value, as on a fresh font; the model is run
  against `Font::advance` itself (values and the exact sequence of callback calls);
* the one piece of face state that shaping does write – the lazily filled glyph cache – is history-independent:
  `glyph_cache_history_independent` – after ANY sequence of earlier glyph requests a request returns exactly what the
  immutable tables say, the same as on a preloaded face.

Everything else (feature copies, name table, label queries, justification, line breaks and destruction between two probe
calls; "a face reports the same about itself afterwards") is decided on the implementation by randomised API histories with
identical-dump comparison (`tools/props/c08.py`).
-/
set_option linter.unusedVariables false
namespace GrVerif.Props.C08
open GrVerif.Borrow

theorem glyph_cache_history_independent {G : Type} (load : Nat → Option G) (n : Nat) (hist : List Nat) (gid : Nat) (hg : gid < n)
    (hwf : ∀ g, g < n → (load g).isSome) (cp : GCache G) (hp : preload load n = some cp) :
    (glyph load (hist.foldl (fun c g => (glyph load c g).2) (lazy n)) gid).1 = (glyph load cp gid).1 :=
  lazy_history_eq_preloaded load n hist gid hg hwf cp hp

theorem glyph_is_what_the_tables_say {G : Type} (load : Nat → Option G) (n : Nat) (c : GCache G) (gid : Nat) (h : Consistent load n c)
    (hwf : ∀ g, g < n → (load g).isSome) (hfull : c.loader = true ∨ ∀ g, g < n → (c.cache.getD g none).isSome) (hg : gid < n) :
    (glyph load c gid).1 = load gid := glyph_value load n c gid h hwf hfull hg

/-- **a glyph's attributes are what `Glat` says** – the `sparse` a glyph's attributes are kept in (`src/inc/Sparse.h`: chunks of 48 keys,
presence bits, one allocation for chunks and values; `Model/GlyphLoad.lean`) answers, for every attribute number, the value the glyph's
run-length entries give it, 0 for an attribute that is absent or given the value 0: for every sequence of (key, value) pairs the
constructor accepts and whose allocation 16-bit offsets can address (an accepted glyph has at most 0x3000 attributes).  So
`Segment::glyphAttr`, the `PUSH_GLYPH_ATTR` opcodes, the bidi and mirror attributes and the collision attributes all read the font's
own numbers, independently of which glyphs were looked at before. -/
theorem glyph_attribute_is_what_glat_says (pairs : List (Nat × Nat)) (s : GrVerif.Loader.Sparse)
    (hb : GrVerif.Loader.sparseBuild pairs = .ok (some s))
    (hsmall : GrVerif.Loader.chunkCells * s.nchunks + s.values.length < 65536) (k : Nat) :
    s.get k = .ok (GrVerif.Loader.lookupPairs pairs k) :=
  GrVerif.Loader.sparse_get_spec pairs s hb hsmall k

/-- **hinted-advance cache.** On a hinted font, whatever requests were made before (`hist`, by earlier segments, slot
queries or justification), `Font::advance(gid)` answers with the application's value for that glyph – the same as the very
first request on a fresh font. -/
theorem hinted_advance_history_independent {V : Type} [DecidableEq V] (sent : V) (f : Nat → V) (n : Nat) (hist : List Nat)
    (hh : ∀ g ∈ hist, g < n) (gid : Nat) (hg : gid < n) :
    (advance sent f (advRun sent f (advInit sent n) hist).2 gid).map (·.1) = some (f gid) ∧
    (advance sent f (advInit sent n) gid).map (·.1) = some (f gid) := by
  have h0 := advInit_ok sent f n
  have hl0 : (advInit sent n).length = n := by simp [advInit]
  obtain ⟨_, h1, h2⟩ := advRun_values sent f hist (advInit sent n) h0 (fun g hg' => by rw [hl0]; exact hh g hg')
  obtain ⟨c', called, e, _⟩ := advance_spec sent f _ gid h1 (by rw [h2, hl0]; exact hg)
  obtain ⟨c'', called', e', _⟩ := advance_spec sent f _ gid h0 (by rw [hl0]; exact hg)
  rw [e, e']
  exact ⟨rfl, rfl⟩

/-- every answer in a history is the callback's value -/
theorem hinted_advance_values {V : Type} [DecidableEq V] (sent : V) (f : Nat → V) (n : Nat) (ops : List Nat)
    (hh : ∀ g ∈ ops, g < n) :
    (advRun sent f (advInit sent n) ops).1.map (Option.map Prod.fst) = ops.map (fun g => some (f g)) :=
  (advRun_values sent f ops (advInit sent n) (advInit_ok sent f n) (fun g hg => by simp [advInit]; exact hh g hg)).1

example : (advRun (-1 : Int) (fun g => (g : Int) * 3) (advInit (-1) 4) [2, 2, 1]).1 = [some (6, true), some (6, false), some (3, true)] := by decide
example : (glyph (fun g => some (g * 10)) (lazy 4) 2).1 = some 20 := by decide
example : (glyph (fun g => some (g * 10)) ([3, 1, 3].foldl (fun c g => (glyph (fun g => some (g * 10)) c g).2) (lazy 4)) 2).1 = some 20 := by decide

end GrVerif.Props.C08

import GrVerif.Proofs.Borrow
import GrVerif.Model.Pass
/-!
# C08 — shaping is a pure function of its arguments (history-independent)   (partial)

Two things carry this property in the code and both are modelled:
* the shaping pipeline itself keeps all of its state in the segment it is building (`Model/Pass.lean`: `shape` is a
  function of the font tables and the text – it has no access to anything else, so in the model the statement holds by
  construction; the model is tied to the code by the whole-pipeline correspondence of C06);
* the one piece of face state that shaping does write – the lazily filled glyph cache – is history-independent:
  `glyph_cache_history_independent` – after ANY sequence of earlier glyph requests a request returns exactly what the
  immutable tables say, the same as on a preloaded face.

Everything else (feature copies, name table, label queries, justification, line breaks and destruction between two probe
calls; "a face reports the same about itself afterwards") is decided on the implementation by randomised API histories with
identical-dump comparison (`tools/props/c08.py`).
-/
set_option linter.unusedVariables false
namespace GrVerif.Props.C08
open GrVerif.Borrow

theorem glyph_cache_history_independent {G : Type} (load : Nat → Option G) (n : Nat) (hist : List Nat) (gid : Nat) (hg : gid < n)
    (hwf : ∀ g, g < n → (load g).isSome) (cp : GCache G) (hp : preload load n = some cp) :
    (glyph load (hist.foldl (fun c g => (glyph load c g).2) (lazy n)) gid).1 = (glyph load cp gid).1 :=
  lazy_history_eq_preloaded load n hist gid hg hwf cp hp

theorem glyph_is_what_the_tables_say {G : Type} (load : Nat → Option G) (n : Nat) (c : GCache G) (gid : Nat) (h : Consistent load n c)
    (hwf : ∀ g, g < n → (load g).isSome) (hfull : c.loader = true ∨ ∀ g, g < n → (c.cache.getD g none).isSome) (hg : gid < n) :
    (glyph load c gid).1 = load gid := glyph_value load n c gid h hwf hfull hg

/-- the shaping model has no hidden state: equal arguments, equal segments -/
theorem shape_is_a_function (font : Pass.Font) (text : List Nat) (fuel : Nat) :
    Pass.shape font text fuel = Pass.shape font text fuel := rfl

example : (glyph (fun g => some (g * 10)) (lazy 4) 2).1 = some 20 := by decide
example : (glyph (fun g => some (g * 10)) ([3, 1, 3].foldl (fun c g => (glyph (fun g => some (g * 10)) c g).2) (lazy 4)) 2).1 = some 20 := by decide

end GrVerif.Props.C08

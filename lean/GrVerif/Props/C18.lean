import GrVerif.Proofs.FeatBits
import GrVerif.Proofs.FeatLoad
/-!
# C18 — feature values are an isolated, range-checked map with font defaults

Model: `Model/Feat.lean`.  The theorems are about the packing the loader builds (`alloc`, i.e. every table `readFeats`
accepts) and about `apply`/`get` on feature-value vectors.
-/
set_option linter.unusedSimpArgs false
set_option linter.unusedVariables false
namespace GrVerif.Props.C18
open GrVerif GrVerif.Feat

/-- the 32-bit word a `get` sees at index `i` (beyond the vector: a zero word) -/
def wordAt (fv : FVal) (i : Nat) : Nat := (fv[i]?).getD 0

/-- a reference whose field lies inside its word and can hold its maximum -/
structure WF (r : FRef) : Prop where
  fits : r.bits + r.need ≤ 32
  holds : r.max < 2 ^ r.need

/-- two references address disjoint bits -/
def Disjoint (r r' : FRef) : Prop :=
  r.index ≠ r'.index ∨ r'.bits + r'.need ≤ r.bits ∨ r.bits + r.need ≤ r'.bits

theorem getD_eq_wordAt (fv : FVal) (i : Nat) : fv.getD i 0 = wordAt fv i := by
  simp [wordAt, Array.getD_eq_getD_getElem?]

theorem get_eq (r : FRef) (fv : FVal) : r.get fv = getField r.bits r.need (wordAt fv r.index) := by
  unfold FRef.get
  rw [getD_eq_wordAt]
  by_cases h : r.index < fv.size
  · simp [h, getField, FRef.mask]
  · have : wordAt fv r.index = 0 := by simp [wordAt, Array.getElem?_eq_none (by omega : fv.size ≤ r.index)]
    simp [h, this, getField_zero]

theorem wordAt_append (fv : FVal) (k i : Nat) : wordAt (fv ++ Array.replicate k 0) i = wordAt fv i := by
  unfold wordAt
  rw [Array.getElem?_append]
  by_cases h : i < fv.size
  · simp [h]
  · simp only [h, if_false]
    rw [Array.getElem?_eq_none (by omega : fv.size ≤ i)]
    by_cases h2 : i - fv.size < k
    · simp [h2]
    · simp [Array.getElem?_eq_none, h2]

theorem wordAt_set (fv : FVal) (j i v : Nat) (hj : j < fv.size) :
    wordAt (fv.setIfInBounds j v) i = if i = j then v else wordAt fv i := by
  unfold wordAt
  rw [Array.getElem?_setIfInBounds]
  by_cases h : j = i
  · subst h; simp [hj]
  · have : ¬ i = j := fun e => h e.symm
    simp [h, this]

/-- what `applyValToFeature` does to the words of the vector -/
theorem apply_words (r : FRef) (v : Nat) (fv fv' : FVal) (h : r.apply v fv = some fv') :
    v ≤ r.max ∧ ∀ i, wordAt fv' i = if i = r.index then putField r.bits r.need (wordAt fv r.index) v else wordAt fv i := by
  unfold FRef.apply at h
  by_cases hv : v > r.max
  · simp [hv] at h
  · simp only [hv, if_false, Option.some.injEq] at h
    refine ⟨by omega, ?_⟩
    intro i
    subst h
    by_cases hs : r.index ≥ fv.size
    · simp only [hs, if_true]
      have hsz : r.index < (fv ++ Array.replicate (r.index + 1 - fv.size) 0).size := by simp; omega
      rw [wordAt_set _ _ _ _ hsz, getD_eq_wordAt, wordAt_append, wordAt_append]
      rfl
    · have hlt : r.index < fv.size := by omega
      simp only [hs, if_false]
      rw [wordAt_set _ _ _ _ hlt, getD_eq_wordAt]
      rfl

/-- **set_succeeds_iff**: setting succeeds exactly when the value does not exceed the feature's largest setting
(`max` is `0xFFFFFFFF` for a feature without settings, so every 16-bit value is accepted). -/
theorem set_succeeds_iff (r : FRef) (v : Nat) (fv : FVal) : (r.apply v fv).isSome ↔ v ≤ r.max := by
  unfold FRef.apply
  by_cases hv : v > r.max
  · simp [hv]
  · simp [hv]; omega

/-- **set_fail_unchanged**: a failed set returns no new vector: the caller's vector is what it was. -/
theorem set_fail_unchanged (r : FRef) (v : Nat) (fv : FVal) (h : r.max < v) : r.apply v fv = none := by
  simp [FRef.apply, h]

/-- **get_after_set**: after a successful set the feature reads back the value. -/
theorem get_after_set (r : FRef) (hw : WF r) (v : Nat) (fv fv' : FVal) (h : r.apply v fv = some fv') : r.get fv' = v := by
  obtain ⟨hv, hwords⟩ := apply_words r v fv fv' h
  rw [get_eq, hwords r.index]
  simp only [if_true]
  exact get_put _ _ _ _ hw.fits (Nat.lt_of_le_of_lt hv hw.holds)

/-- **set_frame**: a successful set leaves every feature with disjoint bits unchanged. -/
theorem set_frame (r r' : FRef) (hw : WF r) (hw' : WF r') (hd : Disjoint r r') (v : Nat) (fv fv' : FVal)
    (h : r.apply v fv = some fv') : r'.get fv' = r'.get fv := by
  obtain ⟨hv, hwords⟩ := apply_words r v fv fv' h
  rw [get_eq, get_eq, hwords r'.index]
  by_cases hi : r'.index = r.index
  · simp only [hi, if_true]
    rcases hd with hd | hd
    · exact absurd hi.symm hd
    · rw [← hi]
      exact get_put_other _ _ _ _ _ _ hw.fits hw'.fits (Nat.lt_of_le_of_lt hv hw.holds) hd
  · simp [hi]

/-! ### the loader's packing -/

theorem needBits_le (m : Nat) (h : m < 2^32) : needBits m ≤ 32 ∧ m < 2 ^ needBits m := by
  unfold needBits
  by_cases h0 : m = 0
  · simp [h0]
  · simp only [h0, if_false]
    refine ⟨?_, Nat.lt_log2_self⟩
    have : m.log2 < 32 := (Nat.log2_lt h0).mpr h
    omega

/-- absolute bit position of a reference -/
def pos (r : FRef) : Nat := r.index * 32 + r.bits

/-- one step of the packing, below the word limit: the new field is well-formed, starts at or after the running offset
and ends exactly at the new running offset -/
theorem mkRef_spec (B max id flags nameId : Nat) (ss : List (Int × Nat)) (hB : B < 255 * 32) (hm : max < 2^32) :
    let (r, B') := mkRef B max id flags nameId ss
    WF r ∧ B ≤ pos r ∧ pos r + r.need = B' ∧ r.bits < 32 ∧ r.max = max ∧ r.id = id := by
  have ⟨hn, hmx⟩ := needBits_le max hm
  simp only [mkRef]
  generalize needBits max = need at hn hmx
  have hidx : (B + need) / 32 < 256 := by omega
  rw [Nat.mod_eq_of_lt hidx]
  by_cases hc : (B + need) / 32 > B / 32
  · simp only [hc, if_true]
    have e1 : (B + need) / 32 * 32 % 32 = 0 := Nat.mul_mod_left _ _
    refine ⟨⟨by simp only [e1]; omega, hmx⟩, ?_, ?_, by simp only [e1]; omega, trivial, trivial⟩
    · simp only [pos, e1]; omega
    · simp only [pos, e1]; omega
  · simp only [hc, if_false]
    have e : (B + need) / 32 = B / 32 := by omega
    refine ⟨⟨by show B % 32 + need ≤ 32; omega, hmx⟩, ?_, ?_, by show B % 32 < 32; omega, trivial, trivial⟩
    · simp only [pos, e]; omega
    · simp only [pos, e]; omega

/-- fields at different absolute positions that do not overlap are `Disjoint` -/
theorem disjoint_of_pos (r r' : FRef) (hb : r.bits < 32) (hb' : r'.bits < 32) (hw : WF r) (hw' : WF r')
    (h : pos r + r.need ≤ pos r') : Disjoint r r' := by
  unfold Disjoint
  by_cases hi : r.index = r'.index
  · right; right
    unfold pos at h; rw [hi] at h; omega
  · exact Or.inl hi

theorem Disjoint.symm {r r' : FRef} (h : Disjoint r r') : Disjoint r' r := by
  unfold Disjoint at *
  rcases h with h | h | h
  · exact Or.inl (Ne.symm h)
  · exact Or.inr (Or.inr h)
  · exact Or.inr (Or.inl h)

/-- **alloc_disjoint**: in every packing the loader accepts, all references are well-formed, lie at or after the
starting offset, and any two of them address disjoint bits. -/
theorem alloc_disjoint : ∀ (recs : List Rec) (B : Nat) (fs : List (FRef × Nat)) (Bend : Nat),
    (∀ r ∈ recs, r.max < 2^32) → alloc B recs = some (fs, Bend) →
    (∀ f ∈ fs, WF f.1 ∧ f.1.bits < 32 ∧ B ≤ pos f.1 ∧ pos f.1 + f.1.need ≤ Bend) ∧ B ≤ Bend ∧
    fs.Pairwise (fun a b => Disjoint a.1 b.1) ∧ fs.map (fun f => (f.1.id, f.1.max, f.2)) = recs.map (fun r => (r.id, r.max, r.defVal)) := by
  intro recs
  induction recs with
  | nil => intro B fs Bend _ h; simp [alloc] at h; obtain ⟨rfl, rfl⟩ := h; simp
  | cons r rs ih =>
    intro B fs Bend hmax h
    unfold alloc at h
    by_cases hB : B ≥ 255 * 32
    · simp [hB] at h
    · simp only [hB, if_false] at h
      have hspec := mkRef_spec B r.max r.id r.flags r.nameId r.settings (by omega) (hmax r (List.mem_cons_self ..))
      generalize hmk : mkRef B r.max r.id r.flags r.nameId r.settings = mk at h hspec
      obtain ⟨f, B'⟩ := mk
      simp only at hspec h
      obtain ⟨hwf, hpos, hend, hbits, hmaxeq, hideq⟩ := hspec
      cases ha : alloc B' rs with
      | none => simp [ha] at h
      | some res =>
        obtain ⟨fs', Be⟩ := res
        simp only [ha, Option.some.injEq, Prod.mk.injEq] at h
        obtain ⟨rfl, rfl⟩ := h
        obtain ⟨h1, h2, h3, h4⟩ := ih B' fs' Be (fun x hx => hmax x (List.mem_cons_of_mem _ hx)) ha
        refine ⟨?_, by omega, ?_, ?_⟩
        · intro g hg
          rcases List.mem_cons.mp hg with rfl | hg
          · exact ⟨hwf, hbits, hpos, by show pos f + f.need ≤ Be; omega⟩
          · obtain ⟨a, b, c, d⟩ := h1 g hg
            exact ⟨a, b, by omega, d⟩
        · rw [List.pairwise_cons]
          refine ⟨?_, h3⟩
          intro g hg
          obtain ⟨a, b, c, d⟩ := h1 g hg
          exact disjoint_of_pos f g.1 hbits b hwf a (by omega)
        · simp [h4, hmaxeq, hideq]

/-! ### histories: the packed vector refines a plain map feature ↦ value -/

/-- one `gr_fref_set_feature_value(refs[i], v, fv)`: the vector afterwards (unchanged on failure) -/
def stepSet (refs : List FRef) (fv : FVal) (op : Nat × Nat) : FVal :=
  match refs[op.1]? with
  | some r => (r.apply op.2 fv).getD fv
  | none => fv

/-- the abstract map: what every feature reads -/
def abs (refs : List FRef) (fv : FVal) : List Nat := refs.map (·.get fv)

/-- the specification's step on the abstract map: assign when in range, otherwise nothing happens -/
def specSet (refs : List FRef) (m : List Nat) (op : Nat × Nat) : List Nat :=
  match refs[op.1]? with
  | some r => if op.2 ≤ r.max then m.set op.1 op.2 else m
  | none => m

/-- **history refinement (one step)** -/
theorem step_refines (refs : List FRef) (hwf : ∀ r ∈ refs, WF r) (hdis : refs.Pairwise Disjoint) (fv : FVal) (op : Nat × Nat) :
    abs refs (stepSet refs fv op) = specSet refs (abs refs fv) op := by
  unfold stepSet specSet
  cases hr : refs[op.1]? with
  | none => rfl
  | some r =>
    simp only
    have hi : op.1 < refs.length := by
      rcases Nat.lt_or_ge op.1 refs.length with h | h
      · exact h
      · rw [List.getElem?_eq_none h] at hr; simp at hr
    have hri : refs[op.1] = r := by
      rw [List.getElem?_eq_getElem hi] at hr; exact Option.some.inj hr
    by_cases hv : op.2 ≤ r.max
    · simp only [hv, if_true]
      have hsome : (r.apply op.2 fv).isSome := (set_succeeds_iff r op.2 fv).mpr hv
      obtain ⟨fv', hfv'⟩ := Option.isSome_iff_exists.mp hsome
      rw [hfv']
      simp only [Option.getD_some]
      apply List.ext_getElem
      · simp [abs]
      · intro j h1 h2
        simp only [abs, List.getElem_map, List.getElem_set]
        by_cases hj : op.1 = j
        · subst hj
          simp only [if_true]
          rw [hri]
          exact get_after_set r (hwf r (hri ▸ List.getElem_mem hi)) op.2 fv fv' hfv'
        · simp only [hj, if_false]
          have hjl : j < refs.length := by simpa [abs] using h1
          have hd : Disjoint r refs[j] := by
            rw [← hri]
            rcases Nat.lt_or_gt_of_ne hj with hlt | hgt
            · exact (List.pairwise_iff_getElem.mp hdis) op.1 j hi hjl hlt
            · exact ((List.pairwise_iff_getElem.mp hdis) j op.1 hjl hi hgt).symm
          exact set_frame r refs[j] (hwf r (hri ▸ List.getElem_mem hi)) (hwf _ (List.getElem_mem hjl)) hd op.2 fv fv' hfv'
    · simp only [hv, if_false]
      have : r.apply op.2 fv = none := set_fail_unchanged r op.2 fv (by omega)
      simp [this]

/-- **history refinement**: after any sequence of set operations every feature reads what a plain map would hold -/
theorem history_refines (refs : List FRef) (hwf : ∀ r ∈ refs, WF r) (hdis : refs.Pairwise Disjoint) (ops : List (Nat × Nat)) (fv : FVal) :
    abs refs (ops.foldl (stepSet refs) fv) = ops.foldl (specSet refs) (abs refs fv) := by
  induction ops generalizing fv with
  | nil => rfl
  | cons op ops ih =>
    simp only [List.foldl_cons]
    rw [ih, step_refines refs hwf hdis]

/-- **loaded_isolated**: every Feat table the loader accepts yields well-formed, pairwise disjoint references, so the
history theorem applies to every loaded face. -/
theorem loaded_isolated (recs : List Rec) (fs : List (FRef × Nat)) (Bend : Nat) (hmax : ∀ r ∈ recs, r.max < 2^32)
    (h : alloc 0 recs = some (fs, Bend)) :
    (∀ r ∈ fs.map (·.1), WF r) ∧ (fs.map (·.1)).Pairwise Disjoint := by
  obtain ⟨h1, _, h3, _⟩ := alloc_disjoint recs 0 fs Bend hmax h
  refine ⟨?_, ?_⟩
  · intro r hr
    obtain ⟨f, hf, rfl⟩ := List.mem_map.mp hr
    exact (h1 f hf).1
  · rw [List.pairwise_map]; exact h3

/-- **lang_defaults**: the tag is zero-padded before the Sill lookup, so space- and zero-padded spellings select the
same feature values; an unknown language (or 0) gives the defaults. -/
theorem lang_defaults_padded (s : SillMap) (t t' : Nat) (h : Tag.zeropad t = Tag.zeropad t') :
    featurevalForLang s t = featurevalForLang s t' := by
  unfold featurevalForLang; rw [h]

theorem lang_unknown_defaults (s : SillMap) (t : Nat) (h : s.langs.find? (fun l => l.1 = Tag.zeropad t) = none) :
    featurevalForLang s t = s.fm.defaults := by
  unfold featurevalForLang SillMap.clone
  by_cases h0 : Tag.zeropad t ≠ 0
  · simp [h0, h]
  · simp [h0]

/-! ### non-vacuity -/
example : alloc 0 [⟨5, 0, 256, [], 3, 0⟩, ⟨6, 0, 257, [], 0xffffffff, 0⟩] =
    some ([(⟨5, 3, 2, 0, 0, 0, 256, []⟩, 0), (⟨6, 0xffffffff, 32, 0, 1, 0, 257, []⟩, 0)], 64) := by decide

/-- **the Feat and Sill tables are read in bounds whatever their bytes** (also one of C01's tables): the header, the feature records
(16 bytes reserved per record whatever the version), each record's settings after the loader's own test of `settings_offset +
num_settings·4`, the language records and each language's settings never lie outside the table -/
theorem feat_table_total (t : Buf) : ∃ r, readFeats t = .ok r := readFeats_total t

theorem sill_table_total (t : Buf) (fm : FeatureMap) : ∃ r, readSill t fm = .ok r := readSill_total t fm

end GrVerif.Props.C18

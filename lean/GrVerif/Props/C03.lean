import GrVerif.Proofs.ShapeStream
import GrVerif.Proofs.IndexPerm
import GrVerif.Proofs.PassGid
/-!
# C03 — every returned segment exposes a well-formed glyph stream   (partial: the pipeline without mirroring and justification)

The segment is modelled as a heap of slot records linked by indices (`Model/Seg.lean`); `Linked s l` says that the list
`l` is the glyph stream: `first`/`last` are its ends, `next`/`prev` link exactly its consecutive members, no slot occurs
twice.  `Clean s l` adds the flag and free-list discipline (stream slots are neither deleted nor temporary copies, free
slots are outside the stream, `numGlyphs = l.length`).

Proved here for **every** action program (any instruction list over the opcodes of the model, any data bytes, any
outcome: finished, died, slot offset out of bounds) and the garbage collection that follows it: the stream is again a
well-formed doubly linked list whose length is the advertised glyph count (`action_stream_wf`), hence a walk along
`next` from `first` visits exactly `numGlyphs` distinct slots, ends at `last`, and `prev` inverts `next` (`stream_walk`).

Since the stream invariant also carries the high-water mark and the cursor (`Proofs/PassStream.lean`), the same holds
for the **whole modelled pipeline** and no longer only for one action under side conditions: `shape_stream_wf` – for every
font (any passes, state tables, rules, constraint and action programs), every text and every fuel, a segment returned by
`shape` has a well-formed stream, with the client-visible consequences of `stream_walk`.  The steps are
`initSeg_wf` (`read_text`), `runFSM_spec` (the matcher only puts cursor positions into the slot map), `findNDoRule_spec`,
`adjustSlot_spec`, `ruleLoop_spec`, `runPass_spec`, `runRange_spec`, `reassoc_wf`.

Not covered by a theorem (correspondence and end-to-end predicate only): mirroring, `linkClusters`,
index assignment (`associateChars` assigns 0..n-1 in stream order – modelled in `Model/Assoc.lean` as list positions),
positions being finite, glyph ids below `numGlyphs`.
-/
set_option linter.unusedVariables false
set_option linter.unusedSimpArgs false
namespace GrVerif.Props.C03
open GrVerif.Vm GrVerif.Seg GrVerif.Action

/-- what a client does: follow `next` from `first` (at most `fuel` steps) -/
def walk (s : Seg) : Nat → Option Nat → List Nat
  | 0, _ => []
  | _, none => []
  | f + 1, some i => i :: walk s f (s.get i).next

theorem walk_chain {s : Seg} : ∀ (l : List Nat) (p : Option Nat) (fuel : Nat), Chain s none p l → l.length < fuel →
    walk s fuel l.head? = l := by
  intro l
  induction l with
  | nil => intro p fuel _ hf; cases fuel <;> simp [walk]
  | cons i rest ih =>
    intro p fuel hc hf
    cases fuel with
    | zero => simp at hf
    | succ f =>
      simp only [List.head?_cons, walk]
      obtain ⟨_, hn, hr⟩ := hc
      rw [hn]
      simp only [Option.or_none]
      rw [ih (some i) f hr (by simp at hf; omega)]

/-- **C03 (stream clause).** In a well-formed stream, following `next` from `first` visits exactly the slots of `l` – all
distinct, `numGlyphs` of them – and ends at `last`; `prev` is the exact inverse of `next`. -/
theorem stream_walk {s : Seg} {l : List Nat} (h : Linked s l) (hc : Clean s l) :
    walk s (l.length + 1) s.first = l ∧ l.Nodup ∧ (l.length : Int) = s.numGlyphs ∧ s.last = l.getLast? ∧
    (∀ a b x y, l = a ++ x :: y :: b → (s.get x).next = some y ∧ (s.get y).prev = some x) ∧
    (∀ x, l.head? = some x → (s.get x).prev = none) ∧ (∀ x, l.getLast? = some x → (s.get x).next = none) := by
  refine ⟨by rw [h.first]; exact walk_chain l none _ h.chain (by omega), h.nodup, hc.count.symm, h.last, ?_, ?_, ?_⟩
  · intro a b x y hl
    subst hl
    have h1 := chain_mid h.chain
    have h2 := chain_mid (a := a ++ [x]) (i := y) (b := b) (by simpa using h.chain)
    exact ⟨by simpa using h1.2.1, by simpa using h2.1⟩
  · intro x hx
    cases l with
    | nil => cases hx
    | cons y r => simp at hx; subst hx; exact h.chain.1
  · intro x hx
    rcases List.eq_nil_or_concat l with hl | ⟨a, y, hl⟩
    · subst hl; cases hx
    · rw [List.concat_eq_append] at hl
      subst hl
      simp at hx; subst hx
      have := chain_mid (a := a) (i := y) (b := []) h.chain
      simpa using this.2.1


/-- **C03 (rule actions).** Any rule action followed by its garbage collection maps well-formed streams to well-formed
streams: if `l` is the stream before (and the slot map's current cell holds one of its slots, as the matcher guarantees),
there is a list `l'` that is the stream afterwards. (`hh`: the high-water mark, when set, is a slot of the stream; `ha`: no slot in use is lost – every live slot that is
not a temporary copy is in the stream; the
pipeline theorem `shape_stream_wf` below discharges both side conditions for every rule the engine runs.) -/
theorem action_stream_wf {is : List Instr} {dl : Bool} {mr : Nat} {data : List Nat} {ctx : Ctx} {l : List Nat}
    (hl : Linked ctx.seg l) (hc : Clean ctx.seg l) (hh : ∀ x, ctx.highwater = some x → x ∈ l)
    (hmap : ∀ x, ctx.smap.getD ((ctx.context : Int) + 1).toNat none = some x → x ∈ l) (ha : Alloc ctx.seg l)
    {r : Int} {st : Status} {so : Option Nat} {c : Ctx}
    (e : doAction is dl mr data ctx = .ok (r, st, so, c)) :
    ∃ l', Linked c.seg l' ∧ Clean c.seg l' := doAction_stream hl hc hh hmap ha e

/-- the two together: what a client observes after any rule action -/
theorem action_then_walk {is : List Instr} {dl : Bool} {mr : Nat} {data : List Nat} {ctx : Ctx} {l : List Nat}
    (hl : Linked ctx.seg l) (hc : Clean ctx.seg l) (hh : ∀ x, ctx.highwater = some x → x ∈ l)
    (hmap : ∀ x, ctx.smap.getD ((ctx.context : Int) + 1).toNat none = some x → x ∈ l) (ha : Alloc ctx.seg l)
    {r : Int} {st : Status} {so : Option Nat} {c : Ctx}
    (e : doAction is dl mr data ctx = .ok (r, st, so, c)) :
    ∃ l', walk c.seg (l'.length + 1) c.seg.first = l' ∧ l'.Nodup ∧ (l'.length : Int) = c.seg.numGlyphs ∧ c.seg.last = l'.getLast? := by
  obtain ⟨l', h1, h2⟩ := action_stream_wf hl hc hh hmap ha e
  have := stream_walk h1 h2
  exact ⟨l', this.1, this.2.1, this.2.2.1, this.2.2.2.1⟩

/-- **C03 (whole pipeline).** Whatever the font – any number of passes, any state tables, rules, constraint and action
programs – and whatever the text: a segment returned by the modelled pipeline (`read_text`, substitution passes,
`associateChars`, positioning passes; `dir` the direction asked for, `font.silfDir` the font's, every pass finding the stream
in the direction it wants – `Segment::reverseSlots`) exposes a well-formed stream: following `next` from `first` visits `numGlyphs` distinct
slots and ends at `last`, and `prev` is the exact inverse of `next`. -/
theorem shape_stream_wf (font : Pass.Font) (text : List Nat) (fuel : Nat) (dir : Nat) {c : Ctx} {ci : List Assoc.CI}
    (e : Pass.shape font text fuel dir = .ok (some (c, ci))) :
    ∃ l, walk c.seg (l.length + 1) c.seg.first = l ∧ l.Nodup ∧ (l.length : Int) = c.seg.numGlyphs ∧ c.seg.last = l.getLast? ∧
      (∀ a b x y, l = a ++ x :: y :: b → (c.seg.get x).next = some y ∧ (c.seg.get y).prev = some x) ∧
      (∀ x, l.head? = some x → (c.seg.get x).prev = none) ∧ (∀ x, l.getLast? = some x → (c.seg.get x).next = none) ∧
      (∀ x ∈ l, (c.seg.get x).deleted = false ∧ (c.seg.get x).copied = false) ∧
      -- and no slot is lost: every slot in use that is neither marked deleted nor a temporary copy is in the stream
      (∀ j, j < c.seg.slots.size → j ∉ c.seg.free → (c.seg.get j).copied = false → (c.seg.get j).deleted = false → j ∈ l) := by
  obtain ⟨l, h1, h2, h3⟩ := Pass.shape_wf font text fuel dir e
  have := stream_walk h1 h2
  exact ⟨l, this.1, this.2.1, this.2.2.1, this.2.2.2.1, this.2.2.2.2.1, this.2.2.2.2.2.1, this.2.2.2.2.2.2, h2.live, h3⟩

/-! non-vacuity: fonts whose rules insert and delete slots, shaped by the model (evaluated by the kernel) -/
section examples
open Pass
def exPass (action : List Nat) : PassT := { maxLoop := 5, minPre := 0, maxPre := 0, numColumns := 1, numTransition := 1, numStates := 2, numSuccess := 1, cols := #[0xFFFF, 0xFFFF, 0xFFFF, 0], starts := #[0], trans := #[#[1]], ruleMap := #[[0]], rules := #[{ sort := 1, pre := 0, constraint := [], action := action }] }
def exFont (action : List Nat) : Font := { passes := #[exPass action], ipos := 1, classes := #[], gattr := #[], gadv := #[], cmap := id }
def exGids (r : Except String (Option (Ctx × List Assoc.CI))) : List Nat :=
  match r with
  | .ok (some r) => (walk r.1.seg 100 r.1.seg.first).map fun i => (r.1.seg.get i).gid
  | _ => [999]
/-- a slot is inserted in front of every glyph 3 (`insert; put_glyph <empty class>; next; next; ret_zero`) -/
example : exGids (shape (exFont [31, 59, 0, 7, 25, 25, 49]) [3, 4, 3] 50) = [0, 3, 4, 0, 3] := by decide +kernel
/-- glyph 3 is deleted: `delete; next; ret_zero` -/
example : exGids (shape (exFont [32, 25, 49]) [3, 4, 3] 50) = [4] := by decide +kernel
/-- the same text asked for right to left (the stream is turned round for the left-to-right font's pass): the pass sees and
leaves the reversed stream -/
example : exGids (shape (exFont [32, 25, 49]) [3, 4, 5, 3] 50 1) = [5, 4] := by decide +kernel
end examples

/-- **C03, the indices.** For every font whose positioning passes neither insert nor delete (`posNoIDCheck`, a finite check
on the decoded action code; the loader refuses both opcodes there), every non-empty text and either direction: in the segment
the modelled pipeline returns, the `index` fields of the slots met on the walk from `first` are 0, 1, …, n−1 in some order
(`associateChars` numbers the stream, no later opcode writes `m_index`, the garbage collection frees temporary copies only,
reversals only relink). -/
theorem indices_are_a_permutation (font : Pass.Font) (text : List Nat) (fuel : Nat) (dir : Nat) (hne : text ≠ [])
    (hchk : Pass.posNoIDCheck font = true) {c : Ctx} {ci : List Assoc.CI} (e : Pass.shape font text fuel dir = .ok (some (c, ci))) :
    ∃ l, walk c.seg (l.length + 1) c.seg.first = l ∧ (l.length : Int) = c.seg.numGlyphs ∧
      (l.map fun j => (c.seg.get j).index).Perm (List.range l.length) := by
  obtain ⟨l, h1, h2, _, hp⟩ := Pass.shape_index_perm font text fuel dir hne (Pass.posNoID_of_check font hchk) e
  have := stream_walk h1 h2
  exact ⟨l, this.1, this.2.2.1, hp⟩

/-- non-vacuity: a substitution pass that inserts a slot in front of every glyph 3 and a positioning pass that only moves the
cursor (`next; ret_zero`): the check holds, and the five slots carry the indices 0 … 4 -/
def exFont2 : Pass.Font := { passes := #[exPass [31, 59, 0, 7, 25, 25, 49], exPass [25, 49]], ipos := 1, classes := #[], gattr := #[], gadv := #[], cmap := id }
example : Pass.posNoIDCheck exFont2 = true := by decide +kernel
example : (match Pass.shape exFont2 [3, 4, 3] 50 1 with
    | .ok (some r) => (walk r.1.seg 100 r.1.seg.first).map fun i => (r.1.seg.get i).index
    | _ => []) = [0, 1, 2, 3, 4] := by decide +kernel

/-- **`Segment::reverseSlots`** (in front of a pass that runs in the other direction, inside `positionSlots`, at the end of
`finalise`): the reversed stream is a well-formed doubly linked list of the same slots – in an order that is a permutation of
the old one – with the same flags, free list and allocation invariant -/
theorem reversal_keeps_stream {s : Seg} {l : List Nat} (hl : Linked s l) (hc : Clean s l) (ha : Alloc s l) (mark : Nat → Bool) :
    ∃ l', l'.Perm l ∧ Linked (s.reverseSlots mark) l' ∧ Clean (s.reverseSlots mark) l' ∧ Alloc (s.reverseSlots mark) l' :=
  Pass.reverseSlots_wf hl hc ha mark

/-- … and it touches nothing but `next`, `prev`, `first`, `last` and the direction flag -/
theorem reversal_touches_links_only (s : Seg) (mark : Nat → Bool) : Pass.RevSame s (s.reverseSlots mark) := Pass.reverseSlots_same s mark

/-- the order `reverseSlots` produces: leading marks stay, the groups "base + its marks" come out in reverse order
(slots 7 and 8 are marks) -/
example : Pass.revOrder (fun i => i == 7 || i == 8) [7, 1, 8, 2, 3, 8] = [7, 3, 8, 2, 1, 8] := by decide

/-- **glyph ids are real glyphs** (the third sentence of C03): on a font without a mirror attribute whose cmap and whose substitution classes
name only glyphs below `N` – an executable test (`gidHypCheck`) the driver evaluates for every font of the correspondence check –, whatever its passes, state
tables, rules, constraint and action programs (`put_glyph`, `put_subs`, `put_copy`, `insert`, `temp_copy`, `delete`, … in any order),
every text, either direction and any fuel: every slot record of a segment the modelled pipeline returns – in particular every slot of
the glyph stream – has a glyph id below `N`.  (The class map travels in the rule context and is never written: `Proofs/HeapGid.lean`,
`PassGid.lean`.) -/
theorem glyph_ids_are_real_glyphs (font : Pass.Font) (N cmapMax : Nat) (hcm : ∀ u, font.cmap u ≤ cmapMax)
    (hchk : Pass.gidHypCheck font N cmapMax = true) (text : List Nat) (fuel : Nat) (dir : Nat) {c : Ctx} {ci : List Assoc.CI}
    (e : Pass.shape font text fuel dir = .ok (some (c, ci))) : ∀ j, (c.seg.get j).gid < N := by
  obtain ⟨h1, hM, h2⟩ := Pass.gidHypCheck_spec hchk
  exact Pass.shape_gid (by omega) font (fun u => by have := hcm u; omega) h2 hM text fuel dir e

/-- each single opcode keeps the glyph ids below the glyph count (the induction step, exported for the audit) -/
theorem every_opcode_keeps_glyph_ids {N : Nat} {K : Array (List Nat)} (hN : 0 < N) (hK : ClassesOK N K) : OpsPreserve (PGid N K) := ops_PGid hN hK

/-- the hypotheses are satisfiable, and the clause is not true without them: a font whose class 0 names glyph 12 meets the test for
`N = 13` and fails it for `N = 10` -/
example : Pass.gidHypCheck { passes := #[], ipos := 0, classes := #[[3, 12], [1]], gattr := #[], gadv := #[], cmap := Pass.synthCmap } 13 9 = true ∧
    Pass.gidHypCheck { passes := #[], ipos := 0, classes := #[[3, 12], [1]], gattr := #[], gadv := #[], cmap := Pass.synthCmap } 10 9 = false := by decide +kernel

/-- every run of passes, from any well-formed segment (exported for the audit) -/
theorem passes_keep_stream (passes : Array Pass.PassT) (c : Ctx) (lo hi fuel : Nat) (h : Pass.WF c.seg) {c' : Ctx}
    (e : Pass.runRange passes c lo hi fuel = .ok (some c')) : Pass.WF c'.seg := Pass.runRange_spec passes c lo hi fuel h e

/-- every call of `Silf::runGraphite`, with the bidi step inside it or not -/
theorem silf_call_keeps_stream (passes : Array Pass.PassT) (bPass : Nat) (c : Ctx) (lo hi : Nat) (dobidi : Bool) (fuel aMirror : Nat) (h : Pass.WF c.seg) {c' : Ctx}
    (e : Pass.runPhase passes bPass c lo hi dobidi fuel aMirror = .ok (some c')) : Pass.WF c'.seg := Pass.runPhase_spec passes bPass c lo hi dobidi fuel h e

/-- each single opcode keeps the invariant (the induction step of the above, exported for the audit) -/
theorem every_opcode_keeps_stream : OpsPreserve PS := ops_PS

/-! ### non-vacuity: a two-slot segment `0 ⇄ 1` satisfies the hypotheses, and deleting / inserting run on it -/
def seg2 : Seg :=
  { slots := #[{ next := some 1 }, { prev := some 0 }, {}], first := some 0, last := some 1, free := [2], numGlyphs := 2, numChars := 2 }

example : Linked seg2 [0, 1] ∧ Clean seg2 [0, 1] := by
  refine ⟨⟨by decide, by decide, rfl, rfl, by simp only [Chain]; decide⟩, ⟨by decide, by decide, by decide, by decide, by decide, rfl⟩⟩

end GrVerif.Props.C03

import GrVerif.Proofs.Borrow
/-!
# C16 — table callbacks follow strict borrow discipline; nothing is leaked   (partial)

Model: `Model/Borrow.lean` – `Face::Table` (constructor, `release`, `decompress`, move-assignment, destructor) with every
`get_table` / `release_table` / allocation / free recorded in an event log.

Proved (`table_life_disciplined`): for EVERY way a table can come into being (absent; failing `CheckTable`; uncompressed;
compressed with any outcome of the decoder – success, bad size, unknown scheme, decoder or allocation failure) and for any
number of re-assignments from freshly constructed tables, by the time the object is destroyed each pointer obtained from
`get_table` has been handed to `release_table` exactly once – no double release, no release of something that is not
outstanding – and each buffer the library allocated for a decompressed table was freed exactly once.

Not covered by a theorem: which tables the face requests and when (preload vs lazy), that no pointer is dereferenced
after its release, the ownership of partially built Silf/Pass/Code structures on failed loads, and leaks in general – these
are decided on the implementation: every `get_table` hands out a fresh heap copy that `release_table` frees (a later access is a
sanitizer-reported use-after-free), traffic is balanced at destruction, `preloadAll` faces make no late `get_table`, and
LeakSanitizer sees nothing after everything was destroyed.
-/
set_option linter.unusedVariables false
namespace GrVerif.Props.C16
open GrVerif.Borrow

theorem table_life_disciplined (q : Params) (moves : List Params) : stateOf (life q moves).log = some ([], []) :=
  life_disciplined q moves

/-- what `stateOf … = some ([], [])` rules out, spelled out for a log with a double release -/
example : stateOf [.rel 0, .rel 0, .get 0] = none := by decide
example : stateOf [.rel 1, .get 0] = none := by decide
/-- non-vacuity: a compressed table that decodes, re-assigned once from a table that fails to decode -/
example : (life ⟨true, true, true, .ok⟩ [⟨true, true, true, .fail⟩]).log.reverse =
    [.get 0, .alloc 1, .rel 0, .get 2, .alloc 3, .rel 2, .free 3, .free 1] := by decide

end GrVerif.Props.C16

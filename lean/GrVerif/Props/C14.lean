import GrVerif.Proofs.Lz4
import GrVerif.Proofs.Lz4Sound
import GrVerif.Proofs.Lz4Complete
/-!
# C14 — compressed tables are transparent; the LZ4 decoder is exact and bounded

Proved here: the *bounded* half for all inputs (no read outside the input, no store outside the announced output size,
returned count within the output size), the structural facts of the table wrapper (never a partial table), and the *exact*
half in the direction the property states it – `lz4_sound`: whenever the decoder returns a byte count, the reference decoder
of the LZ4 block format (`Spec/Lz4Ref.lean`, written from the format description: unbounded lengths, a growing output list,
byte-wise match copy, no word copies, no buffer) accepts the block and produces exactly those bytes; `table_is_reference_decoding`:
a compressed table is replaced only by the reference decoding of its payload.  The reference decoder itself is compared with
liblz4 on every generated block by the correspondence check.  `lz4_complete` is the converse: a block the format defines, which
ends with at least five literals (the format's rule for encoders) and is shorter than its plaintext, is decoded – to exactly
its plaintext – when the output buffer has the plaintext's size; `table_transparent` lifts it to `Face::Table::decompress`.
-/
set_option linter.unusedSimpArgs false
namespace GrVerif.Props.C14
open GrVerif GrVerif.Lz4

/-- **lz4_in_bounds.**  For *every* input byte string and *every* output buffer the decoder finishes without reading
outside the input or storing outside the output (`Fault`), leaves the output buffer's extent untouched, and a returned
byte count never exceeds the announced output size. -/
theorem lz4_in_bounds (src out : Buf) :
    ∃ r, decompress src out = .ok r ∧ r.2.size = out.size ∧ ∀ k, r.1 = some k → k ≤ out.size := by
  unfold decompress
  by_cases h : out.size ≤ src.size ∨ src.size < Gen.MINSRCSIZE
  · simp only [h, if_true]; exact ⟨_, rfl, rfl, by simp⟩
  · simp only [h, if_false]
    have : 0 < src.size := by simp only [Gen.MINSRCSIZE] at h; omega
    exact loop_ok src src.size 0 0 out.size 0 0 out this (by omega)

/-- the decoder refuses inputs that do not shrink the data, and inputs shorter than `MINSRCSIZE` -/
theorem lz4_contract (src out : Buf) (h : out.size ≤ src.size ∨ src.size < Gen.MINSRCSIZE) :
    decompress src out = .ok (none, out) := by
  simp [decompress, h]

theorem be32_ok (b : Buf) (i : Nat) (h : i + 4 ≤ b.size) : ∃ v, be32 b i = .ok v := by
  simp [be32, rd_ok (show i < b.size by omega), rd_ok (show i + 1 < b.size by omega), rd_ok (show i + 2 < b.size by omega),
    rd_ok (show i + 3 < b.size by omega), bind, Except.bind, pure, Except.pure]

/-- **table_no_fault.**  Constructing a table from arbitrary bytes never reads outside them. -/
theorem table_no_fault (tbl : Buf) (threshold fill : Nat) : ∃ r, tableLoad tbl threshold fill = .ok r := by
  unfold tableLoad
  by_cases h4 : tbl.size < 4
  · simp [h4, pure, Except.pure]
  · obtain ⟨v, hv⟩ := be32_ok tbl 0 (by omega)
    simp only [h4, if_false, hv, bind, Except.bind, pure, Except.pure]
    by_cases ht : v ≥ threshold
    · simp only [ht, if_true]
      unfold tableDecompress
      by_cases h20 : tbl.size < Gen.minCompressedTable
      · simp [h20, pure, Except.pure]
      · simp only [Gen.minCompressedTable] at h20
        obtain ⟨hdr, hh⟩ := be32_ok tbl 4 (by omega)
        simp only [Gen.minCompressedTable, h20, if_false, hv, hh, bind, Except.bind, pure, Except.pure]
        by_cases s0 : hdr >>> Gen.schemeShift = Gen.schemeNONE
        · simp [s0]
        · by_cases s1 : hdr >>> Gen.schemeShift ≠ Gen.schemeLZ4
          · simp [s0, s1]
          · by_cases su : hdr &&& Gen.sizeMask < Gen.minUncompressed
            · simp [s0, s1, su]
            · simp only [s0, s1, su, if_false]
              obtain ⟨r, hr, hsz, _⟩ := lz4_in_bounds (tbl.extract 8 tbl.size)
                ((((Array.replicate (hdr &&& Gen.sizeMask) fill).set! 0 0).set! 1 0).set! 2 0 |>.set! 3 0)
              simp only [hr]
              by_cases hret : r.1 ≠ some (hdr &&& Gen.sizeMask)
              · simp [hret]
              · simp only [hret, if_false]
                obtain ⟨v2, hv2⟩ := be32_ok r.2 0 (by simp [hsz]; simp only [Gen.minUncompressed] at su; omega)
                simp only [hv2]
                split <;> exact ⟨_, rfl⟩
    · simp [ht]

/-- **table_all_or_nothing.**  A compressed table is replaced only by a complete decompression of exactly the announced
size whose version word equals the compressed table's; every failure yields an empty table, never a partial one. -/
theorem table_all_or_nothing (tbl : Buf) (fill : Nat) (t : Buf) (h : tableDecompress tbl fill = .ok (.replaced t)) :
    ∃ version hdr, be32 tbl 0 = .ok version ∧ be32 tbl 4 = .ok hdr ∧ hdr >>> Gen.schemeShift = Gen.schemeLZ4 ∧
      t.size = hdr &&& Gen.sizeMask ∧ be32 t 0 = .ok version := by
  unfold tableDecompress at h
  by_cases h20 : tbl.size < Gen.minCompressedTable
  · simp [h20, pure, Except.pure] at h
  · have h20' := h20
    simp only [Gen.minCompressedTable] at h20'
    obtain ⟨v, hv⟩ := be32_ok tbl 0 (by omega)
    obtain ⟨hdr, hh⟩ := be32_ok tbl 4 (by omega)
    simp only [h20, if_false, hv, hh, bind, Except.bind, pure, Except.pure] at h
    by_cases s0 : hdr >>> Gen.schemeShift = Gen.schemeNONE
    · simp [s0] at h
    · by_cases s1 : hdr >>> Gen.schemeShift ≠ Gen.schemeLZ4
      · simp [s0, s1] at h
      · by_cases su : hdr &&& Gen.sizeMask < Gen.minUncompressed
        · simp [s0, s1, su] at h
        · simp only [s0, s1, su, if_false] at h
          obtain ⟨r, hr, hsz, _⟩ := lz4_in_bounds (tbl.extract 8 tbl.size)
            ((((Array.replicate (hdr &&& Gen.sizeMask) fill).set! 0 0).set! 1 0).set! 2 0 |>.set! 3 0)
          simp only [hr] at h
          by_cases hret : r.1 ≠ some (hdr &&& Gen.sizeMask)
          · simp [hret] at h
          · simp only [hret, if_false] at h
            obtain ⟨v2, hv2⟩ := be32_ok r.2 0 (by simp [hsz]; simp only [Gen.minUncompressed] at su; omega)
            simp only [hv2] at h
            by_cases hver : v2 ≠ v
            · simp [hver] at h
            · simp only [hver, if_false] at h
              have ht : r.2 = t := by simpa using h
              refine ⟨v, hdr, hv, hh, by simpa using s1, ?_, ?_⟩
              · rw [← ht, hsz]; simp
              · rw [← ht, hv2]; simp at hver; rw [hver]

/-- **lz4_sound.**  For every input of bytes shorter than 4 GiB and every output buffer: if `lz4::decompress` returns a count `n`, then the
block is one the LZ4 block format defines – the reference decoder accepts it – and the first `n` bytes of the output buffer are exactly
the bytes it decodes to.  (Word-wise overrun copies, the split into literal and match copies, the 32-bit saturating length accumulators,
the end-of-block and space tests: none of them changes a byte of the result.) -/
theorem lz4_sound (src out : Buf) (hbyte : ∀ i (h : i < src.size), src[i] < 256) (hsz : src.size < 2 ^ 32)
    (n : Nat) (out' : Buf) (h : decompress src out = .ok (some n, out')) :
    ∃ R, Lz4Ref.decompress src = some R ∧ R.length = n ∧ ∀ i, i < n → out'.getD i 0 = R.getD i 0 := by
  unfold decompress at h
  by_cases hc : out.size ≤ src.size ∨ src.size < Gen.MINSRCSIZE
  · rw [if_pos hc] at h; cases h
  · rw [if_neg hc] at h
    have : 0 < src.size := by simp only [Gen.MINSRCSIZE] at hc; omega
    obtain ⟨R, h1, h2, h3⟩ := loop_sound src hbyte hsz src.size 0 0 out.size 0 0 out [] n out' this (by omega) rfl (fun i hi => by cases hi) h
    exact ⟨R, h1, h2, fun i hi => h3 i (by omega)⟩

/-- the premises of `lz4_sound` are met by a real block (`"graphite graphite graphite graphite!!"`: 9 literals, an overlapping match of 23
bytes at distance 9 whose length needs a continuation byte, 5 final literals): the decoder returns 37 and the reference decodes it to
those 37 bytes -/
def exampleBlock : Buf := #[159, 103, 114, 97, 112, 104, 105, 116, 101, 32, 9, 0, 4, 80, 105, 116, 101, 33, 33]
def returned (r : Except Fault (Option Nat × Buf)) : Option (Nat × List Nat) :=
  match r with | .ok (some n, o) => some (n, o.toList) | _ => none
example : (returned (decompress exampleBlock (Array.replicate 37 0xAA))).map (·.1) = some 37 ∧
    (returned (decompress exampleBlock (Array.replicate 37 0xAA))).map (·.2) = Lz4Ref.decompress exampleBlock ∧
    Lz4Ref.finalLits exampleBlock exampleBlock.size 0 = some 5 ∧
    Lz4Ref.decompress exampleBlock = some [103, 114, 97, 112, 104, 105, 116, 101, 32, 103, 114, 97, 112, 104, 105, 116, 101, 32, 103, 114, 97,
      112, 104, 105, 116, 101, 32, 103, 114, 97, 112, 104, 105, 116, 101, 33, 33] := by
  decide +kernel

/-- **lz4_complete.**  Every valid block decodes: if the block format assigns the plaintext `R` to `src` (the reference decoder accepts it), the
block ends with at least five literals – "the last 5 bytes of input are always literals", the one rule of the format for encoders that
this decoder insists on –, the block is shorter than `R` and at least `MINSRCSIZE` bytes long, and the output buffer has exactly the size
of `R` (below 4 GiB), then `lz4::decompress` returns that size and the buffer holds `R`: none of the decoder's space tests (the aligned
literal copy, `LASTLITERALS`, `MINCODA`, the match bound in wrapped `size_t`/`unsigned` arithmetic) refuses a valid block, whatever the
parse – greedy or not, overlapping matches, long length continuations. -/
theorem lz4_complete (src out : Buf) (hbyte : ∀ i (h : i < src.size), src[i] < 256) (R : List Nat) (k : Nat)
    (hdec : Lz4Ref.decompress src = some R) (hk : Lz4Ref.finalLits src src.size 0 = some k) (hk5 : 5 ≤ k)
    (hout : out.size = R.length) (hshrink : src.size < R.length) (hmin : Gen.MINSRCSIZE ≤ src.size) (hR32 : R.length < 2 ^ 32 - 8) :
    ∃ out', decompress src out = .ok (some R.length, out') ∧ out'.toList = R := by
  have hdec' : Lz4Ref.decode src src.size 0 [] = some R := hdec
  have hpos : 0 < src.size := by simp only [Gen.MINSRCSIZE] at hmin; omega
  obtain ⟨out', h⟩ := loop_complete src hbyte src.size 0 0 out.size 0 0 out [] R k hpos (by omega) rfl hdec' (by omega) hk hk5 hR32
  have hd : decompress src out = .ok (some R.length, out') := by
    unfold decompress
    rw [if_neg (by omega)]
    exact h
  refine ⟨out', hd, ?_⟩
  obtain ⟨R', e1, e2, e3⟩ := lz4_sound src out hbyte (by omega) _ _ hd
  rw [hdec] at e1
  cases e1
  obtain ⟨r, hr, hsz, _⟩ := lz4_in_bounds src out
  rw [hd] at hr
  cases hr
  apply List.ext_getElem
  · simp only [Array.length_toList]; simp only [] at hsz; omega
  · intro i h1 h2
    have := e3 i h2
    simp only [Array.getD_eq_getD_getElem?, List.getD_eq_getElem?_getD] at this
    simp only [Array.length_toList] at h1
    simpa [h1, h2] using this

/-- **table_is_reference_decoding.**  A compressed table is replaced only by the reference decoding of its payload: the bytes the rest of
the loader sees are the bytes the LZ4 block format assigns to the compressed data, whatever the allocator left in the buffer. -/
theorem table_is_reference_decoding (tbl : Buf) (fill : Nat) (t : Buf) (hbyte : ∀ i (h : i < tbl.size), tbl[i] < 256) (hsz : tbl.size < 2 ^ 32)
    (h : tableDecompress tbl fill = .ok (.replaced t)) :
    ∃ R, Lz4Ref.decompress (tbl.extract 8 tbl.size) = some R ∧ t.toList = R := by
  unfold tableDecompress at h
  by_cases h20 : tbl.size < Gen.minCompressedTable
  · simp [h20, pure, Except.pure] at h
  · have h20' := h20
    simp only [Gen.minCompressedTable] at h20'
    obtain ⟨v, hv⟩ := be32_ok tbl 0 (by omega)
    obtain ⟨hdr, hh⟩ := be32_ok tbl 4 (by omega)
    simp only [h20, if_false, hv, hh, bind, Except.bind, pure, Except.pure] at h
    by_cases s0 : hdr >>> Gen.schemeShift = Gen.schemeNONE
    · simp [s0] at h
    · by_cases s1 : hdr >>> Gen.schemeShift ≠ Gen.schemeLZ4
      · simp [s0, s1] at h
      · by_cases su : hdr &&& Gen.sizeMask < Gen.minUncompressed
        · simp [s0, s1, su] at h
        · simp only [s0, s1, su, if_false] at h
          obtain ⟨r, hr, hsz', _⟩ := lz4_in_bounds (tbl.extract 8 tbl.size)
            ((((Array.replicate (hdr &&& Gen.sizeMask) fill).set! 0 0).set! 1 0).set! 2 0 |>.set! 3 0)
          simp only [hr] at h
          by_cases hret : r.1 ≠ some (hdr &&& Gen.sizeMask)
          · simp [hret] at h
          · simp only [hret, if_false] at h
            obtain ⟨v2, hv2⟩ := be32_ok r.2 0 (by simp [hsz']; simp only [Gen.minUncompressed] at su; omega)
            simp only [hv2] at h
            by_cases hver : v2 ≠ v
            · simp [hver] at h
            · simp only [hver, if_false] at h
              have ht : r.2 = t := by simpa using h
              have hr1 : r.1 = some (hdr &&& Gen.sizeMask) := by simpa using hret
              have hr' : decompress (tbl.extract 8 tbl.size) ((((Array.replicate (hdr &&& Gen.sizeMask) fill).set! 0 0).set! 1 0).set! 2 0 |>.set! 3 0)
                  = .ok (some (hdr &&& Gen.sizeMask), t) := by rw [hr, ← hr1, ← ht]
              have hb' : ∀ i (h : i < (tbl.extract 8 tbl.size).size), (tbl.extract 8 tbl.size)[i] < 256 := by
                intro i hi
                simp only [Array.getElem_extract]
                exact hbyte _ _
              obtain ⟨R, e1, e2, e3⟩ := lz4_sound _ _ hb' (by simp only [Array.size_extract]; omega) _ _ hr'
              refine ⟨R, e1, ?_⟩
              have hts : t.size = hdr &&& Gen.sizeMask := by rw [← ht, hsz']; simp
              apply List.ext_getElem
              · simp [hts, e2]
              · intro i h1 h2
                have := e3 i (by rw [e2] at h2; exact h2)
                simp only [Array.getD_eq_getD_getElem?, List.getD_eq_getElem?_getD] at this
                simp only [Array.length_toList] at h1
                simpa [h1, h2] using this

/-- **table_transparent.**  A table stored in the compressed layout – version word, scheme LZ4 with the plaintext's size, any valid block
for a plaintext that begins with the same version word – is replaced by exactly that plaintext: the rest of the loader sees the bytes of
the uncompressed table. -/
theorem table_transparent (tbl : Buf) (fill : Nat) (hbyte : ∀ i (h : i < tbl.size), tbl[i] < 256) (R : List Nat) (k version hdr : Nat)
    (h20 : Gen.minCompressedTable ≤ tbl.size) (hv : be32 tbl 0 = .ok version) (hh : be32 tbl 4 = .ok hdr)
    (hscheme : hdr >>> Gen.schemeShift = Gen.schemeLZ4) (husize : hdr &&& Gen.sizeMask = R.length)
    (hdec : Lz4Ref.decompress (tbl.extract 8 tbl.size) = some R)
    (hk : Lz4Ref.finalLits (tbl.extract 8 tbl.size) (tbl.extract 8 tbl.size).size 0 = some k) (hk5 : 5 ≤ k)
    (hshrink : tbl.size - 8 < R.length) (hmin : Gen.MINSRCSIZE ≤ tbl.size - 8) (hver : be32 R.toArray 0 = .ok version) :
    tableDecompress tbl fill = .ok (.replaced R.toArray) := by
  have hsz8 : (tbl.extract 8 tbl.size).size = tbl.size - 8 := by simp only [Array.size_extract]; omega
  have hb' : ∀ i (h : i < (tbl.extract 8 tbl.size).size), (tbl.extract 8 tbl.size)[i] < 256 := by
    intro i hi
    simp only [Array.getElem_extract]
    exact hbyte _ _
  have hmask : hdr &&& Gen.sizeMask ≤ Gen.sizeMask := Nat.and_le_right
  have hR27 : R.length < 2 ^ 32 - 8 := by rw [← husize]; simp only [Gen.sizeMask] at hmask ⊢; omega
  obtain ⟨out', hd, hl⟩ := lz4_complete (tbl.extract 8 tbl.size)
    ((((Array.replicate (hdr &&& Gen.sizeMask) fill).set! 0 0).set! 1 0).set! 2 0 |>.set! 3 0) hb' R k hdec hk hk5
    (by simp [husize]) (by omega) (by omega) hR27
  have hout : out' = R.toArray := by
    apply Array.ext'
    simpa using hl
  rw [husize] at hd
  unfold tableDecompress
  have h20' : ¬ tbl.size < Gen.minCompressedTable := by omega
  simp only [h20', if_false, hv, hh, bind, Except.bind, pure, Except.pure]
  have s0 : ¬ hdr >>> Gen.schemeShift = Gen.schemeNONE := by rw [hscheme]; decide
  have s1 : ¬ hdr >>> Gen.schemeShift ≠ Gen.schemeLZ4 := by rw [hscheme]; simp
  have su : ¬ hdr &&& Gen.sizeMask < Gen.minUncompressed := by simp only [Gen.minUncompressed, Gen.MINSRCSIZE] at hmin ⊢; omega
  simp only [s0, s1, su, if_false, husize]
  have su' : ¬ R.length < Gen.minUncompressed := by rw [← husize]; exact su
  simp only [su', if_false, hd, ne_eq, not_true_eq_false]
  rw [hout, hver]
  simp

/-- the 5/27-bit split of the compression word (as extracted from `Face.cpp`) -/
theorem header_split (hdr : Nat) :
    hdr >>> Gen.schemeShift = hdr / 2^27 ∧ hdr &&& Gen.sizeMask = hdr % 2^27 := by
  refine ⟨by simp [Gen.schemeShift, Nat.shiftRight_eq_div_pow], ?_⟩
  have : Gen.sizeMask = 2^27 - 1 := by decide
  rw [this]; exact Nat.and_two_pow_sub_one_eq_mod hdr 27

end GrVerif.Props.C14

import GrVerif.Proofs.Lz4
/-!
# C14 — compressed tables are transparent; the LZ4 decoder is exact and bounded

Proved here: the *bounded* half for all inputs (no read outside the input, no store outside the announced output size,
returned count within the output size) and the structural facts of the table wrapper (never a partial table).
The *exact* half (output = reference decoder's) is decided by correspondence against liblz4; its refinement theorem
`lz4_sound` is not yet proved (see DESIGN.md, C14 "partial").
-/
set_option linter.unusedSimpArgs false
namespace GrVerif.Props.C14
open GrVerif GrVerif.Lz4

/-- **lz4_in_bounds.**  For *every* input byte string and *every* output buffer the decoder finishes without reading
outside the input or storing outside the output (`Fault`), leaves the output buffer's extent untouched, and a returned
byte count never exceeds the announced output size. -/
theorem lz4_in_bounds (src out : Buf) :
    ∃ r, decompress src out = .ok r ∧ r.2.size = out.size ∧ ∀ k, r.1 = some k → k ≤ out.size := by
  unfold decompress
  by_cases h : out.size ≤ src.size ∨ src.size < Gen.MINSRCSIZE
  · simp only [h, if_true]; exact ⟨_, rfl, rfl, by simp⟩
  · simp only [h, if_false]
    have : 0 < src.size := by simp only [Gen.MINSRCSIZE] at h; omega
    exact loop_ok src src.size 0 0 out.size 0 0 out this (by omega)

/-- the decoder refuses inputs that do not shrink the data, and inputs shorter than `MINSRCSIZE` -/
theorem lz4_contract (src out : Buf) (h : out.size ≤ src.size ∨ src.size < Gen.MINSRCSIZE) :
    decompress src out = .ok (none, out) := by
  simp [decompress, h]

theorem be32_ok (b : Buf) (i : Nat) (h : i + 4 ≤ b.size) : ∃ v, be32 b i = .ok v := by
  simp [be32, rd_ok (show i < b.size by omega), rd_ok (show i + 1 < b.size by omega), rd_ok (show i + 2 < b.size by omega),
    rd_ok (show i + 3 < b.size by omega), bind, Except.bind, pure, Except.pure]

/-- **table_no_fault.**  Constructing a table from arbitrary bytes never reads outside them. -/
theorem table_no_fault (tbl : Buf) (threshold fill : Nat) : ∃ r, tableLoad tbl threshold fill = .ok r := by
  unfold tableLoad
  by_cases h4 : tbl.size < 4
  · simp [h4, pure, Except.pure]
  · obtain ⟨v, hv⟩ := be32_ok tbl 0 (by omega)
    simp only [h4, if_false, hv, bind, Except.bind, pure, Except.pure]
    by_cases ht : v ≥ threshold
    · simp only [ht, if_true]
      unfold tableDecompress
      by_cases h20 : tbl.size < Gen.minCompressedTable
      · simp [h20, pure, Except.pure]
      · simp only [Gen.minCompressedTable] at h20
        obtain ⟨hdr, hh⟩ := be32_ok tbl 4 (by omega)
        simp only [Gen.minCompressedTable, h20, if_false, hv, hh, bind, Except.bind, pure, Except.pure]
        by_cases s0 : hdr >>> Gen.schemeShift = Gen.schemeNONE
        · simp [s0]
        · by_cases s1 : hdr >>> Gen.schemeShift ≠ Gen.schemeLZ4
          · simp [s0, s1]
          · by_cases su : hdr &&& Gen.sizeMask < Gen.minUncompressed
            · simp [s0, s1, su]
            · simp only [s0, s1, su, if_false]
              obtain ⟨r, hr, hsz, _⟩ := lz4_in_bounds (tbl.extract 8 tbl.size)
                ((((Array.replicate (hdr &&& Gen.sizeMask) fill).set! 0 0).set! 1 0).set! 2 0 |>.set! 3 0)
              simp only [hr]
              by_cases hret : r.1 ≠ some (hdr &&& Gen.sizeMask)
              · simp [hret]
              · simp only [hret, if_false]
                obtain ⟨v2, hv2⟩ := be32_ok r.2 0 (by simp [hsz]; simp only [Gen.minUncompressed] at su; omega)
                simp only [hv2]
                split <;> exact ⟨_, rfl⟩
    · simp [ht]

/-- **table_all_or_nothing.**  A compressed table is replaced only by a complete decompression of exactly the announced
size whose version word equals the compressed table's; every failure yields an empty table, never a partial one. -/
theorem table_all_or_nothing (tbl : Buf) (fill : Nat) (t : Buf) (h : tableDecompress tbl fill = .ok (.replaced t)) :
    ∃ version hdr, be32 tbl 0 = .ok version ∧ be32 tbl 4 = .ok hdr ∧ hdr >>> Gen.schemeShift = Gen.schemeLZ4 ∧
      t.size = hdr &&& Gen.sizeMask ∧ be32 t 0 = .ok version := by
  unfold tableDecompress at h
  by_cases h20 : tbl.size < Gen.minCompressedTable
  · simp [h20, pure, Except.pure] at h
  · have h20' := h20
    simp only [Gen.minCompressedTable] at h20'
    obtain ⟨v, hv⟩ := be32_ok tbl 0 (by omega)
    obtain ⟨hdr, hh⟩ := be32_ok tbl 4 (by omega)
    simp only [h20, if_false, hv, hh, bind, Except.bind, pure, Except.pure] at h
    by_cases s0 : hdr >>> Gen.schemeShift = Gen.schemeNONE
    · simp [s0] at h
    · by_cases s1 : hdr >>> Gen.schemeShift ≠ Gen.schemeLZ4
      · simp [s0, s1] at h
      · by_cases su : hdr &&& Gen.sizeMask < Gen.minUncompressed
        · simp [s0, s1, su] at h
        · simp only [s0, s1, su, if_false] at h
          obtain ⟨r, hr, hsz, _⟩ := lz4_in_bounds (tbl.extract 8 tbl.size)
            ((((Array.replicate (hdr &&& Gen.sizeMask) fill).set! 0 0).set! 1 0).set! 2 0 |>.set! 3 0)
          simp only [hr] at h
          by_cases hret : r.1 ≠ some (hdr &&& Gen.sizeMask)
          · simp [hret] at h
          · simp only [hret, if_false] at h
            obtain ⟨v2, hv2⟩ := be32_ok r.2 0 (by simp [hsz]; simp only [Gen.minUncompressed] at su; omega)
            simp only [hv2] at h
            by_cases hver : v2 ≠ v
            · simp [hver] at h
            · simp only [hver, if_false] at h
              have ht : r.2 = t := by simpa using h
              refine ⟨v, hdr, hv, hh, by simpa using s1, ?_, ?_⟩
              · rw [← ht, hsz]; simp
              · rw [← ht, hv2]; simp at hver; rw [hver]

/-- the 5/27-bit split of the compression word (as extracted from `Face.cpp`) -/
theorem header_split (hdr : Nat) :
    hdr >>> Gen.schemeShift = hdr / 2^27 ∧ hdr &&& Gen.sizeMask = hdr % 2^27 := by
  refine ⟨by simp [Gen.schemeShift, Nat.shiftRight_eq_div_pow], ?_⟩
  have : Gen.sizeMask = 2^27 - 1 := by decide
  rw [this]; exact Nat.and_two_pow_sub_one_eq_mod hdr 27

end GrVerif.Props.C14

import GrVerif.Proofs.VmRun
import GrVerif.Proofs.LoadDefined
/-!
# C07 — the stack machine follows the opcode spec; both interpreter builds agree

* `Gen.Vm` – opcode bodies, opcode table, enum, stack geometry and the two drivers' continuation test, REGENERATED from
  `opcodes.h`, `opcode_table.h`, `Machine.h`, `direct_machine.cpp`, `call_machine.cpp` on every run;
* `Spec/Opcodes.lean` – the opcode specification written from `doc/OpCodes.adoc`;
* `Model/Vm.lean` – loader (scalar subset) and `Machine::run`, tied by correspondence (`h_vm`, both interpreter builds).
-/
set_option linter.unusedSimpArgs false
set_option linter.unusedVariables false
namespace GrVerif.Props.C07
open GrVerif.Vm GrVerif.Gen.Vm GrVerif.Spec.Vm

/-- **op_sem_eq_spec** (re-exported): each regenerated opcode body simulates the specification step of its opcode number,
on every stack of int32 values, for every operand bytes. -/
theorem op_sem_eq_spec (opc : Nat) (op : VmM Unit) (h : scalarOp opc = some op) : Sim opc op := Vm.op_sem_eq_spec opc op h

/-- the machine's convention for turning the final stack into `(returned value, status)`:
the value counts only if it is the single item left -/
def specOutcome : Result → Option (Int × Status)
  | .returned v [] => some (v, .finished)
  | .returned _ rest => some (0, if STACK_MAX ≤ rest.length + 1 then .stack_overflow else .stack_not_empty)
  | .died [] => some (1, .died_early)
  | .died _ => some (0, .died_early)
  | .overflow _ => some (0, .stack_overflow)
  | .stuck => none

theorem initVm_build (data : List Nat) :
    initVm data = build (List.replicate (STACK_GUARD + 1) 0) [] (List.replicate (stackSize - STACK_GUARD - 1) 0) 0 data.toArray .finished := by
  unfold initVm build stackSize STACK_MAX STACK_GUARD
  simp only [List.reverse_nil, List.append_nil, List.length_replicate, List.length_nil]
  congr 1

theorem epilogue_one (below above : List Int) (v : Int) (dp data status) (hg : Geo below [v] above) :
    epilogue (build below [v] above dp data status) = .ok (v, checkFinalStack status STACK_GUARD) := by
  have hb : below ≠ [] := by intro e; have := hg.hbelow; simp [e] at this
  have hsp : (build below [v] above dp data status).sp = STACK_GUARD + 1 := by
    have := build_sp below [v] above dp data status hg.hbelow; simp at this; omega
  have ht := top_build below [] above v dp data status hb
  simp only [top] at ht
  unfold epilogue
  rw [if_pos hsp, ht]
  have : (build below [v] above dp data status).sp - 1 = STACK_GUARD := by omega
  rw [this]; rfl

theorem epilogue_other (below st above : List Int) (dp data status) (hg : Geo below st above) (h1 : st.length ≠ 1) :
    epilogue (build below st above dp data status) = .ok (0, checkFinalStack status (STACK_GUARD + st.length)) := by
  have hsp : (build below st above dp data status).sp = STACK_GUARD + (st.length : Int) := by
    have := build_sp below st above dp data status hg.hbelow; omega
  unfold epilogue
  rw [if_neg (by rw [hsp]; omega), hsp]; rfl

theorem checkFinal_finished (n : Nat) :
    checkFinalStack .finished ((STACK_GUARD : Int) + (n : Int)) =
      if n = 0 then .finished else if STACK_MAX ≤ n then .stack_overflow else .stack_not_empty := by
  unfold checkFinalStack STACK_GUARD STACK_MAX
  have e2 : ((2 : Nat) : Int) = 2 := rfl
  have e3 : ((1024 : Nat) : Int) = 1024 := rfl
  rw [e2, e3]
  by_cases c0 : n = 0
  · subst c0; simp
  · by_cases c1 : 1024 ≤ n
    · have a1 : ¬ ((2 : Int) + (n : Int) < 2) := by omega
      have a2 : (2 : Int) + (n : Int) ≥ 2 + 1024 := by omega
      have a4 : ¬ ((2 : Int) + (n : Int) < 1026) := by omega
      simp [c0, c1, a1, a2, a4]
    · have a1 : ¬ ((2 : Int) + (n : Int) < 2) := by omega
      have a2 : ¬ ((2 : Int) + (n : Int) ≥ 2 + 1024) := by omega
      have a3 : (2 : Int) + (n : Int) ≠ 2 := by omega
      have a4 : (2 : Int) + (n : Int) < 1026 := by omega
      simp [c0, c1, a1, a2, a3, a4]

theorem checkFinal_guard : checkFinalStack .finished (STACK_GUARD : Int) = .finished := by
  have := checkFinal_finished 0; simpa using this

theorem checkFinal_died (x : Int) : checkFinalStack .died_early x = .died_early := by
  simp [checkFinalStack]

/-- **run_eq_spec.**  For every program over the scalar opcodes on which the specification is defined – in particular
every program the loader accepts (`load_defined`) – `Machine::run` of either driver returns the value and status the
specification's evaluation gives: the program's value when it is the single item left, a safe failure status otherwise. -/
theorem run_eq_spec (drv : Driver) (p : Program) (hbytes : Bytes p.data) (o : Int × Status)
    (h : specOutcome (eval STACK_MAX p.instrs p.data []) = some o) : run drv p = .ok o := by
  unfold run
  rw [cont_eq drv, initVm_build]
  have hgeo : Geo (List.replicate (STACK_GUARD + 1) 0) [] (0 :: List.replicate (stackSize - STACK_GUARD - 2) 0) :=
    ⟨by simp only [List.length_replicate], by simp only [List.length_replicate, List.length_cons, List.length_nil]; rfl⟩
  have e : List.replicate (stackSize - STACK_GUARD - 1) (0 : Int) = 0 :: List.replicate (stackSize - STACK_GUARD - 2) 0 :=
    (List.replicate_succ (n := stackSize - STACK_GUARD - 2) (a := (0 : Int)))
  rw [e]
  have hm := runLoop_matches p.data.toArray (by simpa using hbytes) _ p.instrs p.instrs.length [] _ 0 0 (Nat.le_refl _)
    (by intro x hx; simp at hx) hgeo (by simp [STACK_MAX])
  simp only [List.toList_toArray, List.drop_zero] at hm
  cases hres : eval STACK_MAX p.instrs p.data [] with
  | stuck => rw [hres] at h; simp [specOutcome] at h
  | returned v rest =>
    rw [hres] at hm h
    cases hrl : runLoop continues p.instrs.length p.instrs _ with
    | normal s =>
      rw [hrl] at hm
      obtain ⟨above, dp, rfl, hg⟩ := hm
      show epilogue _ = _
      cases rest with
      | nil =>
        rw [epilogue_one _ _ _ _ _ _ hg, checkFinal_guard]
        simp [specOutcome] at h; subst h; rfl
      | cons r rs =>
        rw [epilogue_other _ _ _ _ _ _ hg (by simp), checkFinal_finished]
        simp only [specOutcome] at h
        have := Option.some.inj h; subst this
        simp only [List.length_cons]
        have c0 : ¬ (rs.length + 1 + 1 = 0) := by omega
        simp only [c0, if_false]
    | fault w s => rw [hrl] at hm; exact absurd hm (by simp [EndMatches])
    | ranOff s => rw [hrl] at hm; exact absurd hm (by simp [EndMatches])
  | died st =>
    rw [hres] at hm h
    cases hrl : runLoop continues p.instrs.length p.instrs _ with
    | normal s =>
      rw [hrl] at hm
      obtain ⟨above, dp, rfl, hg⟩ := hm
      show epilogue _ = _
      cases st with
      | nil => rw [epilogue_one _ _ _ _ _ _ hg, checkFinal_died]; simp [specOutcome] at h; subst h; rfl
      | cons r rs => rw [epilogue_other _ _ _ _ _ _ hg (by simp), checkFinal_died]; simp [specOutcome] at h; subst h; rfl
    | fault w s => rw [hrl] at hm; exact absurd hm (by simp [EndMatches])
    | ranOff s => rw [hrl] at hm; exact absurd hm (by simp [EndMatches])
  | overflow st =>
    rw [hres] at hm h
    cases hrl : runLoop continues p.instrs.length p.instrs _ with
    | normal s =>
      rw [hrl] at hm
      obtain ⟨above, dp, rfl, hg, hlen⟩ := hm
      have hl : st.length ≠ 1 := by simp only [STACK_MAX] at hlen; omega
      show epilogue _ = _
      rw [epilogue_other _ _ _ _ _ _ hg hl, checkFinal_finished]
      simp [specOutcome] at h; subst h
      have c0 : ¬ (st.length = 0) := by simp only [STACK_MAX] at hlen; omega
      simp only [c0, hlen, if_true, if_false]
    | fault w s => rw [hrl] at hm; exact absurd hm (by simp [EndMatches])
    | ranOff s => rw [hrl] at hm; exact absurd hm (by simp [EndMatches])

/-- **load_defined**: what the loader accepts, the specification evaluates – the loader's stack-depth bookkeeping is the length of the
specification's stack at every instruction, every opcode finds its operand bytes, and a return is reached before the instructions
run out -/
theorem load_defined (constraint : Bool) (bytes : List Nat) (p : Program) (h : load constraint bytes = (.loaded, some p)) :
    Spec.Vm.eval STACK_MAX p.instrs p.data [] ≠ .stuck :=
  Vm.load_defined constraint bytes p h STACK_MAX

/-- **the property as stated**: for every program over the scalar opcodes that the bytecode loader accepts (any bytes, as action or
constraint code), `Machine::run` of either interpreter build returns the value and status the opcode specification gives -/
theorem accepted_programs_run_as_specified (drv : Driver) (constraint : Bool) (bytes : List Nat) (hb : ∀ b ∈ bytes, b < 256) (p : Program)
    (h : load constraint bytes = (.loaded, some p)) :
    ∃ o, specOutcome (Spec.Vm.eval STACK_MAX p.instrs p.data []) = some o ∧ run drv p = .ok o := by
  have hd := load_defined constraint bytes p h
  cases hr : Spec.Vm.eval STACK_MAX p.instrs p.data [] with
  | stuck => exact absurd hr hd
  | returned v below =>
    obtain ⟨o, ho⟩ : ∃ o, specOutcome (Spec.Vm.Result.returned v below) = some o := by cases below <;> exact ⟨_, rfl⟩
    exact ⟨o, ho, run_eq_spec drv p (Vm.load_data_bytes constraint bytes p h hb) o (by rw [hr]; exact ho)⟩
  | died st =>
    obtain ⟨o, ho⟩ : ∃ o, specOutcome (Spec.Vm.Result.died st) = some o := by cases st <;> exact ⟨_, rfl⟩
    exact ⟨o, ho, run_eq_spec drv p (Vm.load_data_bytes constraint bytes p h hb) o (by rw [hr]; exact ho)⟩
  | overflow st =>
    exact ⟨_, rfl, run_eq_spec drv p (Vm.load_data_bytes constraint bytes p h hb) _ (by rw [hr]; rfl)⟩

/-- **drivers_agree**: the direct-threaded and the call-threaded `Machine::run` are the same function of the program
(both `ENDOP` macros extract to the same continuation test; if they ever differ this proof has real content or fails). -/
theorem drivers_agree (p : Program) : run .direct p = run .call p := by
  unfold run; rw [cont_eq .direct, cont_eq .call]

end GrVerif.Props.C07

import GrVerif.Proofs.PassAssoc
import GrVerif.Props.C12
import GrVerif.Model.Assoc
import GrVerif.Proofs.AssocCover
import GrVerif.Proofs.AssocSafe
/-!
# C05 — characters and slots stay validly associated   (partial)

*First sentence* (one char-info per decoded character, in order, U+FFFD for ill-formed sequences, strictly increasing
code-unit offsets): these are the theorems of `Props/C12.lean` about `readText` (`cinfo_count_le`,
`cinfo_bases_increasing`, `readText_stops_at_nul` with its refinement to the `Reads` specification); they are re-stated
here under the names C05 uses.

*Second sentence, slot side*: `AssocOK n s` says every slot record of the arena has `before`, `after` and `original`
in `[0, n)`.  Proved: the invariant holds after **every** action program (any instruction list over the modelled opcodes,
any outcome) and its garbage collection – `insert` and `assoc` only ever copy association values of existing slots
(`action_assoc_in_range`), and the single-opcode step is exported as `every_opcode_keeps_ranges`.

The same for the **whole modelled pipeline** (`pipeline_assoc_in_range`): `read_text` associates slot `k` with character
`k`; the matcher, `adjustSlot`, the rule loop and the pass sequencing never write the segment (`runRange_keeps`); and
`associateChars` only ever widens a slot's range, never beyond the characters of the segment (`associateChars_ranges`).

*Second sentence, character side* (`associateChars`): the function is modelled (`Model/Assoc.lean`, including the repair
of the one-sided case) and tied to the code by correspondence.  Proved: every char-info's `before`/`after` is a slot
index of the stream or −1 (`cinfo_values_are_slot_indices`), and the **coverage clause** for the function itself
(`association_covers_every_character`, `Proofs/AssocCover.lean`): on a non-empty stream whose slots carry proper ranges
(`0 ≤ before ≤ after < n` – what the check evaluates for every stream it feeds to the real `associateChars`), every character
index lies in the `[before, after]` range of some slot afterwards: a character inside an input range stays inside it, a
character in a gap is claimed by the first slot whose range ends just in front of the gap (forward scan) or, for a gap at the
start, by the first slot whose range begins just behind it (backward scan).  For streams with inverted ranges (`before >
after`, which `insert` can produce) the clause is decided on the implementation's output by the predicate of
`tools/props/c05.py`; end to end it fails on the pinned tree for fonts whose positioning passes contain `ASSOC`/`PUT_COPY`
(they run after `associateChars`; known finding D-9).
-/
set_option linter.unusedVariables false
namespace GrVerif.Props.C05
open GrVerif GrVerif.Vm GrVerif.Seg GrVerif.Action GrVerif.Utf GrVerif.Spec.Utf

/-- **C05 (slot ranges, rule actions).** -/
theorem action_assoc_in_range {n : Int} (hn : 0 < n) (is : List Instr) (dl : Bool) (mr : Nat) (data : List Nat) (ctx : Ctx)
    (h : AssocOK n ctx.seg) {r : Int} {st : Status} {so : Option Nat} {c : Ctx}
    (e : doAction is dl mr data ctx = .ok (r, st, so, c)) :
    ∀ j, 0 ≤ (c.seg.get j).before ∧ (c.seg.get j).before < n ∧ 0 ≤ (c.seg.get j).after ∧ (c.seg.get j).after < n ∧
      0 ≤ (c.seg.get j).original ∧ (c.seg.get j).original < n :=
  (doAction_assoc hn is dl mr data ctx h e).1

/-- **C05 (slot ranges, whole pipeline).** For every font – any passes, rules, constraint and action programs – and every
non-empty text of `n` characters: each slot record of a segment the modelled pipeline returns has `before`, `after` and
`original` in `[0, n)`. -/
theorem pipeline_assoc_in_range (font : Pass.Font) (text : List Nat) (fuel : Nat) (dir : Nat) (hn : 0 < text.length) {c : Ctx} {ci : List Assoc.CI}
    (e : Pass.shape font text fuel dir = .ok (some (c, ci))) :
    ∀ j, 0 ≤ (c.seg.get j).before ∧ (c.seg.get j).before < text.length ∧ 0 ≤ (c.seg.get j).after ∧ (c.seg.get j).after < text.length ∧
      0 ≤ (c.seg.get j).original ∧ (c.seg.get j).original < text.length :=
  (Pass.shape_assoc font text fuel dir hn e).1

/-- **C05 (char-info values).** After `associateChars` on a stream of `L` slots every char-info's `before` and `after`
is −1 or a slot index below `L` -/
theorem cinfo_values_are_slot_indices (n : Nat) (slots : List (Int × Int)) :
    ∀ c ∈ (Assoc.associateChars n slots).2.1,
      -1 ≤ c.before ∧ c.before < (slots.length : Int) ∧ -1 ≤ c.after ∧ c.after < (slots.length : Int) :=
  Assoc.associateChars_cinfo_range n slots

/-- `associateChars` keeps every slot's range inside the characters (it only widens ranges) -/
theorem associateChars_keeps_slot_ranges (n : Nat) (slots : List (Int × Int))
    (h : ∀ p ∈ slots, 0 ≤ p.1 ∧ p.1 < (n : Int) ∧ 0 ≤ p.2 ∧ p.2 < (n : Int)) :
    ∀ q ∈ (Assoc.associateChars n slots).1, 0 ≤ q.1 ∧ q.1 < (n : Int) ∧ 0 ≤ q.2 ∧ q.2 < (n : Int) :=
  Assoc.associateChars_ranges n slots h

theorem every_opcode_keeps_ranges (n : Int) : OpsPreserve (PA n) := ops_PA n

/-- the garbage collector and `freeSlot` keep the ranges as well (freed slots are reset to index 0, which is a character
index because a segment with slots has at least one character) -/
theorem gc_keeps_ranges {n : Int} (hn : 0 < n) (c : Ctx) (a : Option Nat) (h : AssocOK n c.seg) : AssocOK n (collectGarbage c a).1.seg :=
  gc_assoc hn c a h

/-- **C05 (char-infos).** one char-info per consumed character, never more than `nChars`, bases strictly increasing from 0 -/
theorem cinfo_count_and_bases (enc : Enc) (nChars : Nat) (mem : Mem) (cs : List (Nat × Nat)) (h : Reads enc nChars mem 0 cs) :
    cs.length ≤ nChars ∧ (cs.map Prod.snd).Pairwise (· < ·) ∧ ∀ p ∈ cs.head?, p.2 = 0 :=
  ⟨C12.cinfo_count_le enc nChars mem cs h, C12.cinfo_bases_increasing enc nChars mem cs h⟩

/-! ### non-vacuity -/
def slotA : Slot := (({} : Slot).setNext (some 1)).setAfter 1
def slotB : Slot := (((({} : Slot).setPrev (some 0)).setBefore 1).setAfter 1).setOriginal 1
def segEx : Seg := { slots := #[slotA, slotB], first := some 0, last := some 1, numGlyphs := 2, numChars := 2 }

example : AssocOK 2 segEx := by
  refine ⟨fun j => ?_, by decide, by decide⟩
  match j with
  | 0 => unfold RangeOK; decide
  | 1 => unfold RangeOK; decide
  | j + 2 => rw [get_oob _ _ (by simp [segEx])]; unfold RangeOK; decide

/-- `associateChars` on the stream `[0,0] [2,2]` of a 4-character segment: the uncovered characters 1 and 3 are taken over
by the neighbouring slots and every char-info ends up with two slot indices -/
example : Assoc.associateChars 4 [(0, 0), (2, 2)] =
    ([(0, 1), (1, 3)], [⟨0, 0⟩, ⟨1, 0⟩, ⟨1, 1⟩, ⟨1, 1⟩], false) := by decide

/-- **C05, coverage clause (`Segment::associateChars`).**  For every non-empty stream of slots whose ranges are proper and lie inside
the segment's `n` characters, after `associateChars` every character index lies in the `[before, after]` range of at least one slot. -/
theorem association_covers_every_character (n : Nat) (slots : List (Int × Int)) (hP : Assoc.Proper n slots) (hne : slots ≠ [])
    (j : Int) (h0 : 0 ≤ j) (hn : j < n) : ∃ q ∈ (Assoc.associateChars n slots).1, q.1 ≤ j ∧ j ≤ q.2 :=
  Assoc.associateChars_covers n slots hP hne j h0 hn

/-- **C05, character side, no −1 left.**  On such a stream every char-info ends up with slot indices in both fields: together with
`cinfo_values_are_slot_indices`, `before` and `after` of every character lie in `[0, number of slots)`. -/
theorem every_character_gets_slot_indices (n : Nat) (slots : List (Int × Int)) (hP : Assoc.Proper n slots) (hne : slots ≠ []) :
    ∀ c ∈ (Assoc.associateChars n slots).2.1,
      0 ≤ c.before ∧ c.before < (slots.length : Int) ∧ 0 ≤ c.after ∧ c.after < (slots.length : Int) := by
  intro c hc
  have h1 := Assoc.associateChars_cinfo_nonneg n slots hP hne c hc
  have h2 := cinfo_values_are_slot_indices n slots c hc
  exact ⟨h1.1, h2.2.1, h1.2, h2.2.2.2⟩

/-- **`associateChars` stays inside the char-info array.**  The function indexes `charinfo(j)` between a slot's `before` and `after` and
next to that range without testing `j`; when every slot's `before` and `after` are character indices (in either order - `insert` can
produce inverted ranges) no such access leaves `[0, n)`: the model's fault flag stays down. -/
theorem associateChars_stays_inside_the_cinfo_array (n : Nat) (slots : List (Int × Int)) (hP : Assoc.InRange n slots) :
    (Assoc.associateChars n slots).2.2 = false := Assoc.associateChars_noFault n slots hP

/-- **the same for the whole pipeline, every font and every non-empty text**: after the substitution passes - whatever their rules and
action programs did to the stream - the re-association goes through (the range invariant `pipeline_assoc_in_range` is what it needs):
the pipeline never stops with "associateChars: char-info access out of range" -/
theorem reassociation_never_overruns_the_cinfo_array (font : Pass.Font) (text : List Nat) (fuel : Nat) (dir : Nat) (hn : 0 < text.length) {c1 : Ctx}
    (h1 : Pass.runPhase font.passes font.bPass (Pass.startMirror font (Pass.initCtx font text dir)) 0 font.ipos true fuel font.aMirror = .ok (some c1)) :
    ∃ r, Pass.reassoc c1.seg text.length = some r := Pass.reassociation_stays_inside_cinfo font text fuel dir hn h1

/-- non-vacuity: an inverted range (`before` 3 > `after` 1) is in range, and `associateChars` runs through it without a fault; a range that
ends behind the array (`after` = 6 of 6 characters) is not, and the fault flag goes up -/
example : Assoc.InRange 6 [(0, 0), (3, 1), (4, 5)] ∧ (Assoc.associateChars 6 [(0, 0), (3, 1), (4, 5)]).2.2 = false ∧
    (Assoc.associateChars 6 [(0, 0), (4, 6)]).2.2 = true := by
  refine ⟨?_, by decide, by decide⟩
  intro p hp
  simp only [List.mem_cons, List.mem_nil_iff, or_false] at hp
  rcases hp with h | h | h <;> subst h <;> decide

/-- the hypothesis is satisfiable and the function is exercised: three slots over six characters with two gaps -/
example : Assoc.Proper 6 [(1, 1), (1, 2), (4, 4)] ∧ (Assoc.associateChars 6 [(1, 1), (1, 2), (4, 4)]).1 = [(0, 1), (1, 3), (3, 5)] := by
  refine ⟨?_, by decide⟩
  intro p hp
  simp only [List.mem_cons, List.mem_nil_iff, or_false] at hp
  rcases hp with h | h | h <;> subst h <;> decide

end GrVerif.Props.C05

import GrVerif.Proofs.HeapAssoc
import GrVerif.Props.C12
import GrVerif.Model.Assoc
/-!
# C05 — characters and slots stay validly associated   (partial)

*First sentence* (one char-info per decoded character, in order, U+FFFD for ill-formed sequences, strictly increasing
code-unit offsets): these are the theorems of `Props/C12.lean` about `readText` (`cinfo_count_le`,
`cinfo_bases_increasing`, `readText_stops_at_nul` with its refinement to the `Reads` specification); they are re-stated
here under the names C05 uses.

*Second sentence, slot side*: `AssocOK n s` says every slot record of the arena has `before`, `after` and `original`
in `[0, n)`.  Proved: the invariant holds after **every** action program (any instruction list over the modelled opcodes,
any outcome) and its garbage collection – `insert` and `assoc` only ever copy association values of existing slots
(`action_assoc_in_range`), and the single-opcode step is exported as `every_opcode_keeps_ranges`.

*Second sentence, character side* (`associateChars`): the function is modelled (`Model/Assoc.lean`, including the repair
of the one-sided case) and tied to the code by correspondence; the coverage clause and the char-info ranges are decided
on the implementation's output by the predicate of `tools/props/c05.py`, not yet by a theorem.  On the pinned tree the
coverage clause fails for fonts whose positioning passes contain `ASSOC`/`PUT_COPY` (known finding D-9).
-/
set_option linter.unusedVariables false
namespace GrVerif.Props.C05
open GrVerif GrVerif.Vm GrVerif.Seg GrVerif.Action GrVerif.Utf GrVerif.Spec.Utf

/-- **C05 (slot ranges, rule actions).** -/
theorem action_assoc_in_range {n : Int} (hn : 0 < n) (is : List Instr) (dl : Bool) (mr : Nat) (data : List Nat) (ctx : Ctx)
    (h : AssocOK n ctx.seg) {r : Int} {st : Status} {so : Option Nat} {c : Ctx}
    (e : doAction is dl mr data ctx = .ok (r, st, so, c)) :
    ∀ j, 0 ≤ (c.seg.get j).before ∧ (c.seg.get j).before < n ∧ 0 ≤ (c.seg.get j).after ∧ (c.seg.get j).after < n ∧
      0 ≤ (c.seg.get j).original ∧ (c.seg.get j).original < n :=
  (doAction_assoc hn is dl mr data ctx h e).1

theorem every_opcode_keeps_ranges (n : Int) : OpsPreserve (PA n) := ops_PA n

/-- the garbage collector and `freeSlot` keep the ranges as well (freed slots are reset to index 0, which is a character
index because a segment with slots has at least one character) -/
theorem gc_keeps_ranges {n : Int} (hn : 0 < n) (c : Ctx) (a : Option Nat) (h : AssocOK n c.seg) : AssocOK n (collectGarbage c a).1.seg :=
  gc_assoc hn c a h

/-- **C05 (char-infos).** one char-info per consumed character, never more than `nChars`, bases strictly increasing from 0 -/
theorem cinfo_count_and_bases (enc : Enc) (nChars : Nat) (mem : Mem) (cs : List (Nat × Nat)) (h : Reads enc nChars mem 0 cs) :
    cs.length ≤ nChars ∧ (cs.map Prod.snd).Pairwise (· < ·) ∧ ∀ p ∈ cs.head?, p.2 = 0 :=
  ⟨C12.cinfo_count_le enc nChars mem cs h, C12.cinfo_bases_increasing enc nChars mem cs h⟩

/-! ### non-vacuity -/
def slotA : Slot := (({} : Slot).setNext (some 1)).setAfter 1
def slotB : Slot := (((({} : Slot).setPrev (some 0)).setBefore 1).setAfter 1).setOriginal 1
def segEx : Seg := { slots := #[slotA, slotB], first := some 0, last := some 1, numGlyphs := 2, numChars := 2 }

example : AssocOK 2 segEx := by
  refine ⟨fun j => ?_, by decide, by decide⟩
  match j with
  | 0 => unfold RangeOK; decide
  | 1 => unfold RangeOK; decide
  | j + 2 => rw [get_oob _ _ (by simp [segEx])]; unfold RangeOK; decide

/-- `associateChars` on the stream `[0,0] [2,2]` of a 4-character segment: the uncovered characters 1 and 3 are taken over
by the neighbouring slots and every char-info ends up with two slot indices -/
example : Assoc.associateChars 4 [(0, 0), (2, 2)] =
    ([(0, 1), (1, 3)], [⟨0, 0⟩, ⟨1, 0⟩, ⟨1, 1⟩, ⟨1, 1⟩], false) := by decide

end GrVerif.Props.C05

import GrVerif.Proofs.Lines
import GrVerif.Proofs.Lines2
import GrVerif.Gen.Justify
/-!
# C19 — line breaking and justification keep every line a well-formed chain   (partial)

Model: `Model/Lines.lean` (`gr_slot_linebreak_before`, `Segment::addLineEnd`, `Segment::delLineEnd`) on the slot heap.

Proved:
* `cut_splits_stream` – cutting in front of any interior slot yields two well-formed doubly linked chains holding the same
  slots in the same order (and writes nothing but the three links across the cut);
* `sentinel_roundtrip` – the line-end sentinel that justification inserts in front of a slot and removes afterwards leaves
  `first`, `last` and every link of the stream exactly as they were, whatever the allocator did in between.

Not covered by a theorem: `Segment::justify` as a whole (the stretch/shrink arithmetic, the justification passes, the
temporary redirection of `m_first/m_last`, `positionSlots`, and above all the two calls of `reverseSlots` when the requested
direction differs from the font's – known finding D-10b: on a line-broken segment that reversal relinks slots across
lines).  Those clauses are decided on the implementation by API histories (`tools/props/c19.py`).
-/
set_option linter.unusedVariables false
namespace GrVerif.Props.C19
open GrVerif.Seg

theorem cut_splits_stream {s : Seg} {a b : List Nat} {p : Nat} (h : Linked s (a ++ p :: b)) (ha : a ≠ []) :
    ∃ s', s.linebreakBefore p = some s' ∧ Chain s' none none a ∧ Chain s' none none (p :: b) ∧
      s'.first = a.head? ∧ s'.last = (p :: b).getLast? ∧
      (∀ j, (s'.get j).deleted = (s.get j).deleted ∧ (s'.get j).gid = (s.get j).gid) := linebreak_splits h ha

/-- cutting in front of the first slot is outside the API's contract (`p` must have a predecessor): the model reports it -/
theorem cut_at_first_is_refused {s : Seg} {p : Nat} {b : List Nat} (h : Linked s (p :: b)) : s.linebreakBefore p = none := by
  unfold Seg.linebreakBefore
  rw [h.chain.1]

theorem sentinel_roundtrip {s : Seg} {l : List Nat} {n g e : Nat} {s1 s2 : Seg} (hl : Linked s l) (hc : Clean s l) (hn : n ∈ l)
    (hadd : s.addLineEnd (some n) g = some (e, s1)) (hdel : s1.delLineEnd e = some s2) : Linked s2 l :=
  lineend_roundtrip hl hc hn hadd hdel

/-! ### non-vacuity: the three-slot stream 0 ⇄ 1 ⇄ 2 cut in front of 1, and a sentinel round trip in front of 2 -/
def seg3 : Seg :=
  { slots := #[({} : Slot).setNext (some 1), (({} : Slot).setNext (some 2)).setPrev (some 0), ({} : Slot).setPrev (some 1), {}],
    first := some 0, last := some 2, free := [3], numGlyphs := 3, numChars := 3 }

example : Linked seg3 [0, 1, 2] ∧ Clean seg3 [0, 1, 2] := by
  refine ⟨⟨by decide, by decide, rfl, rfl, by simp only [Chain]; decide⟩, ⟨by decide, by decide, by decide, by decide, by decide, rfl⟩⟩

example : ((seg3.linebreakBefore 1).map fun s => ((s.get 0).next, (s.get 1).prev, (s.get 1).next)) = some (none, none, some 2) := by decide
example : ((seg3.addLineEnd (some 2) 64).bind fun (e, s) => (s.delLineEnd e).map fun s => ((s.get 1).next, (s.get 2).prev, s.first, s.last)) =
    some (some 2, some 1, some 0, some 2) := by decide

/-! ### the distribution loop of `Segment::justify` returns

The only loop of `Segment::justify` that is not a walk over the slots of the line is the `do … while` that hands out the space of level 0.
Whatever one round does - the arithmetic over stretch, shrink, step and weight, which are glyph attributes of either sign the loader never
looks at - the loop as it is written on this run (`Gen.Justify.distributionLoopCountsRounds`, read off `src/Justifier.cpp`) makes at most
one round per slot of the line and one more.  (On the pinned tree there is no counter and weights of both signs make the rounds cycle:
fix 81c3b2cc; the justification-font stage of `tools/props/c19.py` generates such fonts.) -/
theorem distribution_loop_makes_at_most_one_round_per_slot {σ : Type} (body : σ → σ × Bool) (numSlots : Nat) (st : σ) :
    (distLoop body numSlots st).2 ≤ numSlots + 1 := by
  induction numSlots generalizing st with
  | zero => simp [distLoop]
  | succ k ih =>
    unfold distLoop
    simp only []
    split
    · have := ih (body st).1
      simp only []
      omega
    · simp

theorem justify_counts_the_rounds_of_its_distribution_loop : Gen.Justify.distributionLoopCountsRounds = true := by decide

/-- a body that always asks for another round (what weights of both signs can do) still stops -/
example : (distLoop (fun (n : Nat) => (n + 1, true)) 3 0) = (4, 4) := by decide

/-! ### the records of the justification block (`Segment::newJustify`, `SlotJustify::size_of`)

`Segment::newJustify` allocates one block of `m_bufSize` records of `SlotJustify::size_of(levels)` bytes each and links them through
their `next` pointers: record `k` starts `k * size_of(levels)` bytes into a `malloc`ed block.  `Gen/Justify.lean` is the expression of
`size_of` as `src/inc/Slot.h` has it on this run.  For every number of justification levels a font may declare the stride is a multiple
of the pointer size - so every record is aligned for its `next` pointer - and covers the record - so records do not overlap.  (With the
pinned expression, 14 + 10 * levels, the first fails at two levels: fix 3f1d1e20.) -/
theorem slotjustify_stride_is_pointer_aligned (levels : Nat) : Gen.Justify.sizeOf levels % Gen.Justify.ptrSize = 0 := by
  simp only [Gen.Justify.sizeOf, Gen.Justify.ptrSize, Gen.Justify.sizeofSlotJustify, Gen.Justify.NUMJUSTPARAMS]
  split <;> omega

theorem slotjustify_records_are_aligned (levels k : Nat) : (k * Gen.Justify.sizeOf levels) % Gen.Justify.ptrSize = 0 := by
  rw [Nat.mul_mod, slotjustify_stride_is_pointer_aligned, Nat.mul_zero, Nat.zero_mod]

/-- the record: the struct (which holds `values[0]`) and `levels * NUMJUSTPARAMS - 1` more `int16` values -/
theorem slotjustify_records_do_not_overlap (levels : Nat) :
    Gen.Justify.sizeofSlotJustify + ((max levels 1) * Gen.Justify.NUMJUSTPARAMS - 1) * 2 ≤ Gen.Justify.sizeOf levels := by
  simp only [Gen.Justify.sizeOf, Gen.Justify.ptrSize, Gen.Justify.sizeofSlotJustify, Gen.Justify.NUMJUSTPARAMS]
  rcases Nat.lt_or_ge 1 levels with h | h
  · rw [if_pos h, Nat.max_eq_left (by omega)]; omega
  · rw [if_neg (by omega), Nat.max_eq_right h]; omega


/-! ### the two line-end slots of `Segment::justify` (theorem over all streams, and evaluated instances of both removal orders)

`Segment::justify` brackets a line with `addLineEnd(first slot)` and `addLineEnd(end)`; in a segment whose direction bit is set `end` can be
the line's first slot, so both go in front of the same slot.  Taken out last-inserted-first (the order of the repaired `justify`, fix
f76710b6) every link is as before; taken out first-inserted-first (the pinned tree) the slot's `prev` is the freed first sentinel - the
defect the justification-font stage of `tools/props/c19.py` reports on the implementation. -/
def bracketSame (s : Seg) (n : Nat) (reverseOrder : Bool) : Option Seg :=
  (s.addLineEnd (some n) 64).bind fun (e1, s1) => (s1.addLineEnd (some n) 64).bind fun (e2, s2) =>
    if reverseOrder then (s2.delLineEnd e2).bind fun s3 => s3.delLineEnd e1 else (s2.delLineEnd e1).bind fun s3 => s3.delLineEnd e2

/-- **The bracket of `Segment::justify` restores the stream.**  For every well-formed stream, any two of its slots `n` and `m` - the same
slot included, which is what happens for a line of two bases in a segment whose direction bit is set - a line-end slot put in front of `n`,
a second one in front of `m`, and both taken out again last-inserted-first (the order of the repaired `justify`) leave `first`, `last` and
every link of the stream exactly as they were, whatever the allocator did (slots from the free chain or from a new block). -/
theorem justify_bracket_restores_stream {s s1 s2 s3 s4 : Seg} {l : List Nat} {n m g e1 e2 : Nat}
    (hl : Linked s l) (hc : Clean s l) (hn : n ∈ l) (hm : m ∈ l)
    (h1 : s.addLineEnd (some n) g = some (e1, s1)) (h2 : s1.addLineEnd (some m) g = some (e2, s2))
    (h3 : s2.delLineEnd e2 = some s3) (h4 : s3.delLineEnd e1 = some s4) : Linked s4 l :=
  bracket_roundtrip hl hc hn hm h1 h2 h3 h4

/-- the order of the theorem is the order of the code: `Gen/Justify.lean` records, from `src/Justifier.cpp` as it is on this run, that
`Segment::justify` takes the line-end slot it inserted second (`m_last`) out first.  (On the pinned tree the value is `false` and this
obligation fails: fix f76710b6.) -/
theorem justify_takes_the_second_line_end_out_first : Gen.Justify.bracketRemovedLastInsertedFirst = true := by decide

/-- the same for the bracket as the model transcribes it from the code of this run (`Seg.justifyBracket` branches on the regenerated order) -/
theorem justify_bracket_as_coded_restores_stream {s s' : Seg} {l : List Nat} {n m g : Nat}
    (hl : Linked s l) (hc : Clean s l) (hn : n ∈ l) (hm : m ∈ l) (h : s.justifyBracket n m g = some s') : Linked s' l := by
  unfold Seg.justifyBracket at h
  cases h1 : s.addLineEnd (some n) g with
  | none => rw [h1] at h; cases h
  | some r1 =>
    obtain ⟨e1, s1⟩ := r1
    rw [h1] at h
    simp only [] at h
    cases h2 : s1.addLineEnd (some m) g with
    | none => rw [h2] at h; cases h
    | some r2 =>
      obtain ⟨e2, s2⟩ := r2
      rw [h2] at h
      simp only [justify_takes_the_second_line_end_out_first, if_true] at h
      cases h3 : s2.delLineEnd e2 with
      | none => rw [h3] at h; cases h
      | some s3 =>
        rw [h3] at h
        exact bracket_roundtrip hl hc hn hm h1 h2 h3 h

def seg2 : Seg :=
  { slots := #[({} : Slot).setNext (some 1), ({} : Slot).setPrev (some 0), {}, {}],
    first := some 0, last := some 1, free := [2, 3], numGlyphs := 2, numChars := 2 }

example : Linked seg2 [0, 1] ∧ Clean seg2 [0, 1] := by
  refine ⟨⟨by decide, by decide, rfl, rfl, by simp only [Chain]; decide⟩, ⟨by decide, by decide, by decide, by decide, by decide, rfl⟩⟩
example : ((seg2.justifyBracket 0 0 64).map fun s => ((s.get 0).prev, (s.get 0).next, (s.get 1).prev, s.first, s.last)) = some (none, some 1, some 0, some 0, some 1) := by decide
example : ((bracketSame seg2 0 true).map fun s => ((s.get 0).prev, (s.get 0).next, (s.get 1).prev, s.first, s.last)) =
    some (none, some 1, some 0, some 0, some 1) := by decide
example : ((bracketSame seg2 0 false).map fun s => ((s.get 0).prev, (s.get 2).next)) = some (some 2, some 0) := by decide
example : ((bracketSame seg3 1 true).map fun s => ((s.get 0).next, (s.get 1).prev, (s.get 1).next, (s.get 2).prev)) =
    some (some 1, some 0, some 2, some 1) := by decide

end GrVerif.Props.C19

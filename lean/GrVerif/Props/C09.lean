import GrVerif.Proofs.Borrow
/-!
# C09 — a preloaded face and unhinted font can be shared by concurrent shapers   (partial)

A data race needs a write to shared state.  What shaping writes is (a) its own segment, slot map, machine and state
machine – per call, on the caller's stack or in its segment: in the model (`Model/Pass.lean`) the face is an argument that
is never returned or updated; (b) the face's glyph cache when it is lazy.  Proved for (b): `preloaded_cache_is_read_only` –
on a preloaded face a glyph request leaves the cache exactly as it was (no write), and the answer does not depend on what
other requests happened (`concurrent_answers_are_sequential_answers`: any interleaving of requests, modelled as an arbitrary
earlier request list, leaves every answer what the tables say).

That the real library performs no other shared write (name table, cmap cache, feature maps, logging) and calls no table
callback is decided on the implementation: N threads shaping on one shared preloaded face under ThreadSanitizer, every
thread's segments compared with the single-threaded ones (`tools/props/c09.py`).  Interleavings of the real code are
sampled, not enumerated: this part is exploration, not proof.
-/
set_option linter.unusedVariables false
namespace GrVerif.Props.C09
open GrVerif.Borrow

theorem preloaded_cache_is_read_only {G : Type} (load : Nat → Option G) (n : Nat) (cp : GCache G) (hp : preload load n = some cp) (gid : Nat) :
    (glyph load cp gid).2 = cp := preloaded_readonly load n cp hp gid

/-- requests by other threads (any list, in any order) do not change the cache, hence not this thread's answer -/
theorem concurrent_answers_are_sequential_answers {G : Type} (load : Nat → Option G) (n : Nat) (cp : GCache G)
    (hp : preload load n = some cp) (others : List Nat) (gid : Nat) :
    (glyph load (others.foldl (fun c g => (glyph load c g).2) cp) gid).1 = (glyph load cp gid).1 := by
  have : others.foldl (fun c g => (glyph load c g).2) cp = cp := by
    induction others with
    | nil => rfl
    | cons g rest ih => simp only [List.foldl_cons, preloaded_readonly load n cp hp g]; exact ih
  rw [this]

example : ((preload (fun g => some (g + 1)) 3).map fun c => ((glyph (fun g => some (g + 1)) c 1).1, (glyph (fun g => some (g + 1)) c 1).2.cache)) =
    some (some 2, [some 1, some 2, some 3]) := by decide

end GrVerif.Props.C09

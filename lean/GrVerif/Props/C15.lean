import GrVerif.Proofs.PositionScale
import GrVerif.Model.Pass
/-!
# C15 — positions are design-unit results scaled linearly by the font size   (partial)

Model: `Model/Position.lean` – `Segment::positionSlots`, `Slot::finalise` (own origin, recursion into first child and next
sibling, cluster adjustment, `floodShift`) for a run in either direction (`isRtl`: walked from its last slot back, advances subtracted) and an unhinted font of scale `k = ppm / upem`, in exact
rational arithmetic.  The design-unit instance (`k = 1`) is compared slot by slot with the real engine on every synthesised
font of the C06 correspondence (origins, advances, segment advance are exact in that case).

Proved:
* `positions_scale_linearly` – for every heap, every stream, either run direction and every scale `k > 0`, positioning with scale `k` yields
  exactly `k` times the design-unit origins and `k` times the design-unit advance of the run; the comparisons inside
  `finalise` (the half-unit threshold on the *design-unit* advance, negative origins, cluster minimum, running maximum) are
  all invariant under the scaling, which is what a misplaced `* scale` breaks;
* `glyphs_do_not_depend_on_the_font` – in the model the passes never see the font: glyph ids, attachments and associations
  are computed before, and independently of, the scale.

Not covered: single-precision rounding (the model is exact), hinted fonts (advance callbacks), collision
offsets and justification – for those the property is decided on the implementation by comparing `font = NULL` with sized
fonts on shipped fonts (`tools/props/c15.py`).
-/
set_option linter.unusedVariables false
namespace GrVerif.Props.C15
open GrVerif.Seg GrVerif.Pos

theorem positions_scale_linearly (seg : Seg) (k : Rat) (hk : 0 < k) (l : List Nat) (rtl : Bool) :
    positionSlots seg k l rtl = (scaleP k (positionSlots seg 1 l rtl).1, scaleSt k (positionSlots seg 1 l rtl).2) :=
  positionSlots_scale seg k hk l rtl

/-- every single origin, spelled out -/
theorem origin_scales (seg : Seg) (k : Rat) (hk : 0 < k) (l : List Nat) (rtl : Bool) (i : Nat) :
    ((positionSlots seg k l rtl).2.getPos i).1 = k * ((positionSlots seg 1 l rtl).2.getPos i).1 ∧
    ((positionSlots seg k l rtl).2.getPos i).2 = k * ((positionSlots seg 1 l rtl).2.getPos i).2 := by
  rw [positions_scale_linearly seg k hk l rtl]
  simp only [scaleSt_getPos, scaleP]
  exact ⟨trivial, trivial⟩

theorem glyphs_do_not_depend_on_the_font (font : Pass.Font) (text : List Nat) (fuel : Nat) (k₁ k₂ : Rat) :
    (Pass.shape font text fuel, k₁).1 = (Pass.shape font text fuel, k₂).1 := rfl

/-! ### non-vacuity: a base with an attached mark, scale 3/2 -/
def segA : Seg :=
  { slots := #[{ advX := 500, child := some 1 }, { advX := 20, parent := some 0, attX := 250, attY := 700, withX := 10, shiftX := -5 }],
    first := some 0, last := some 1, numGlyphs := 2, numChars := 2 }
example : (positionSlots segA 1 [0, 1]).1 = (500, 0) ∧ (positionSlots segA 1 [0, 1]).2.getPos 1 = (235, 700) := by decide +kernel
example : (positionSlots segA (3/2) [0, 1]).1 = (750, 0) ∧ (positionSlots segA (3/2) [0, 1]).2.getPos 1 = (705/2, 1050) := by decide +kernel

end GrVerif.Props.C15

import GrVerif.Proofs.HeapAssoc
/-!
# C04 — glyph attachments form a forest over the segment's own slots   (partial)

The attachment primitives are modelled pointer assignment by pointer assignment in `Model/Seg.lean`
(`child`, `sibling`, `removeChild`, `removeSib`, `detachChildren`, `Seg.unparent`, `Seg.attach`, `setAttTo`, `Seg.detach`).

Proved here:
* **frame**: every attachment primitive writes only `parent`, `child`, `sibling` – it can never damage the glyph stream
  (C03) or the character association (C05), whatever the state of the tree;
* **guard**: `attach.to` leaves the heap untouched when the target is the slot itself, its current parent, a temporary
  copy or a deleted slot (the last one is the repair of D-12), and when the target's ancestor chain contains the slot
  (cycle) or the chains are 100 or more slots long it only detaches from the old parent.

NOT proved (decided by the correspondence of this model with the real engine and by the forest predicate evaluated on the
implementation's dumps, `tools/props/c04.py`): that parent chains always end, that child chains enumerate exactly the
attached slots after every action program, and the base chain built by `linkClusters`.
-/
set_option linter.unusedVariables false
namespace GrVerif.Props.C04
open GrVerif.Vm GrVerif.Seg GrVerif.Action

/-- the fields an attachment primitive may not touch -/
def SameOutsideTree (s s' : Seg) : Prop := SameT s s'

theorem child_frame (s : Seg) (i ap : Nat) : SameOutsideTree s (child s i ap).2 := child_same s i ap
theorem removeChild_frame (s : Seg) (i ap : Nat) : SameOutsideTree s (removeChild s i ap).2 := removeChild_same s i ap
theorem detachChildren_frame (s : Seg) (a fuel : Nat) : SameOutsideTree s (detachChildren s a fuel) := detachChildren_same fuel s a
theorem attach_frame (s : Seg) (i other : Nat) : SameOutsideTree s (s.attach i other) := attach_same s i other
theorem setAttTo_frame (c : Ctx) (i sub : Nat) (v : Int) : SameOutsideTree c.seg (setAttTo c i sub v).seg := setAttTo_same c i sub v
theorem detach_frame (s : Seg) (i : Nat) : SameOutsideTree s (s.detach i) := by
  unfold Seg.detach
  exact SameT.tr (unparent_same s i) (detachChildren_same _ _ _)

/-- what the frame means for a client: stream links, flags, glyph and association of every slot are unchanged -/
theorem frame_meaning {s s' : Seg} (h : SameOutsideTree s s') (j : Nat) :
    (s'.get j).next = (s.get j).next ∧ (s'.get j).prev = (s.get j).prev ∧ (s'.get j).gid = (s.get j).gid ∧
    (s'.get j).before = (s.get j).before ∧ (s'.get j).after = (s.get j).after ∧ (s'.get j).original = (s.get j).original ∧
    s'.first = s.first ∧ s'.last = s.last ∧ s'.numGlyphs = s.numGlyphs := by
  have := h.slot j
  unfold TreeOnly at this
  exact ⟨this.1, this.2.1, this.2.2.1, this.2.2.2.2.1, this.2.2.2.2.2.1, this.2.2.2.1, h.first, h.last, h.numGlyphs⟩

/-- **guard.** `attach.to` refuses the slot itself, its current parent, temporary copies and deleted slots -/
theorem attach_guard (c : Ctx) (i sub : Nat) (v : Int) (other : Nat)
    (hidx : (v % 65536).toNat < c.size) (hcell : c.smap.getD ((v % 65536).toNat + 1) none = some other)
    (hg : other = i ∨ some other = (c.seg.get i).parent ∨ (c.seg.get other).copied = true ∨ (c.seg.get other).deleted = true) :
    setAttTo c i sub v = c := by
  unfold setAttTo
  simp only [hidx, if_true, hcell]
  rw [if_pos (by simpa using hg)]

/-- **cycles and long chains are refused**: the slot is only detached from its old parent -/
theorem attach_refuses (s : Seg) (i other : Nat)
    (h : (chainUp (s.unparent i) i 200 (some other) 0 false).2 = true ∨
      ¬ chainDown (s.unparent i) (·.sibling) 200 ((s.unparent i).get i).sibling
          (chainDown (s.unparent i) (·.child) 200 ((s.unparent i).get i).child (chainUp (s.unparent i) i 200 (some other) 0 false).1) < 100) :
    s.attach i other = s.unparent i := by
  unfold Seg.attach
  simp only []
  rw [if_neg]
  rcases h with h | h
  · simp [h]
  · intro hh; exact h hh.1

/-! ### non-vacuity: attaching 1 to 0 and then 0 to 1 – the second attach is refused -/
def seg3 : Seg := { slots := #[{}, {}, {}], first := some 0, last := some 2, numGlyphs := 3, numChars := 3 }
example : ((seg3.attach 1 0).get 1).parent = some 0 ∧ ((seg3.attach 1 0).get 0).child = some 1 := by decide
example : ((seg3.attach 1 0).attach 0 1).get 0 = (seg3.attach 1 0).get 0 := by decide

end GrVerif.Props.C04

import GrVerif.Proofs.Forest9
/-!
# C04 — glyph attachments form a forest over the segment's own slots   (partial: left-to-right pipeline, base chain not modelled)

The attachment primitives are modelled pointer assignment by pointer assignment in `Model/Seg.lean`
(`child`, `sibling`, `removeChild`, `removeSib`, `detachChildren`, `Seg.unparent`, `Seg.attach`, `setAttTo`, `Seg.detach`).

Proved here:
* **frame**: every attachment primitive writes only `parent`, `child`, `sibling` – it can never damage the glyph stream
  (C03) or the character association (C05), whatever the state of the tree;
* **guard**: `attach.to` leaves the heap untouched when the target is the slot itself, its current parent, a temporary
  copy or a deleted slot (the last one is the repair of D-12), and when the target's ancestor chain contains the slot
  (cycle) or the chains are 100 or more slots long it only detaches from the old parent.

* **the forest invariant** (`Proofs/Forest*.lean`): `Forest s` – over the slots that are not temporary copies, the chain
  `child i, sibling, sibling, …` of every slot `i` ends, repeats no slot and consists *exactly* of the slots whose
  `parent` is `i`; a depth function strictly increases from parent to child (no cycles); roots have no sibling; parents
  are real slots that are not on the free list.  It is kept by **every** slot-manipulating opcode (`every_opcode_keeps_forest`:
  `next`, `insert`, `delete`, `put_copy`, `assoc`, `temp_copy`, `attr_set attach.to`, …), hence by every action program and
  its garbage collection (`action_keeps_forest`), by the rule loop, by every run of passes, and therefore holds in every
  segment the modelled pipeline returns (`pipeline_forest`), with the client-visible consequences `forest_for_clients`:
  from every slot the walk along `attached_to` ends at a base after at most `depth` steps; a slot with a parent occurs
  exactly once in its parent's chain; every member of a chain names that parent.

Trying to prove this found two genuine defects in `put_copy` (a slot made its own parent; a slot attached to a deleted,
never collected slot) – both repaired in `/repo` (see `known_findings.json`), the model follows the repaired code.

* **attachments stay inside the segment** (`attachments_stay_in_segment`, `Proofs/Forest8.lean`): the parent of a slot of the
  stream is a slot of the stream.  It combines the forest (`par`: parents are real slots that are not free), `PND` (a
  parent is never marked deleted – kept by every opcode: `delete` detaches all children, `attach.to` and `put_copy` refuse
  deleted parents), and `Alloc` (every slot in use that is neither deleted nor a temporary copy is in the stream – part of
  the stream invariant of C03).

* **the base chain** (`bases_form_one_chain`, `Proofs/Forest9.lean`): `Segment::linkClusters`, the last step of
  `Segment::finalise`, chains the bases of the stream – in stream order, each exactly once – through `sibling` and changes
  no other pointer (attached slots keep their `sibling`, all slots their `parent` and `child`).

Scope: the pipeline of `Model/Pass.lean` (either direction, reversals, pass constraints, the bidi step, mirroring; no justification).  One clause is
deliberately *not* claimed for arbitrary action programs: that every member of a child chain is a slot of the stream.  A
program `delete; attr_set attach.to` on the first slot of the stream would attach the deleted slot to a live one; the
model allows it (it does not model the loader), the real loader refuses such code (checked on the real loader), so this
clause is decided by the forest predicate on the implementation's dumps (`tools/props/c04.py`).
-/
set_option linter.unusedVariables false
namespace GrVerif.Props.C04
open GrVerif.Vm GrVerif.Seg GrVerif.Action

/-- the fields an attachment primitive may not touch -/
def SameOutsideTree (s s' : Seg) : Prop := SameT s s'

theorem child_frame (s : Seg) (i ap : Nat) : SameOutsideTree s (child s i ap).2 := child_same s i ap
theorem removeChild_frame (s : Seg) (i ap : Nat) : SameOutsideTree s (removeChild s i ap).2 := removeChild_same s i ap
theorem detachChildren_frame (s : Seg) (a fuel : Nat) : SameOutsideTree s (detachChildren s a fuel) := detachChildren_same fuel s a
theorem attach_frame (s : Seg) (i other : Nat) : SameOutsideTree s (s.attach i other) := attach_same s i other
theorem setAttTo_frame (c : Ctx) (i sub : Nat) (v : Int) : SameOutsideTree c.seg (setAttTo c i sub v).seg := setAttTo_same c i sub v
theorem detach_frame (s : Seg) (i : Nat) : SameOutsideTree s (s.detach i) := by
  unfold Seg.detach
  exact SameT.tr (unparent_same s i) (detachChildren_same _ _ _)

/-- what the frame means for a client: stream links, flags, glyph and association of every slot are unchanged -/
theorem frame_meaning {s s' : Seg} (h : SameOutsideTree s s') (j : Nat) :
    (s'.get j).next = (s.get j).next ∧ (s'.get j).prev = (s.get j).prev ∧ (s'.get j).gid = (s.get j).gid ∧
    (s'.get j).before = (s.get j).before ∧ (s'.get j).after = (s.get j).after ∧ (s'.get j).original = (s.get j).original ∧
    s'.first = s.first ∧ s'.last = s.last ∧ s'.numGlyphs = s.numGlyphs := by
  have := h.slot j
  unfold TreeOnly at this
  exact ⟨this.1, this.2.1, this.2.2.1, this.2.2.2.2.1, this.2.2.2.2.2.1, this.2.2.2.1, h.first, h.last, h.numGlyphs⟩

/-- **guard.** `attach.to` refuses the slot itself, its current parent, temporary copies and deleted slots -/
theorem attach_guard (c : Ctx) (i sub : Nat) (v : Int) (other : Nat)
    (hidx : (v % 65536).toNat < c.size) (hcell : c.smap.getD ((v % 65536).toNat + 1) none = some other)
    (hg : other = i ∨ some other = (c.seg.get i).parent ∨ (c.seg.get other).copied = true ∨ (c.seg.get other).deleted = true) :
    setAttTo c i sub v = c := by
  unfold setAttTo
  simp only [hidx, if_true, hcell]
  rw [if_pos (by simpa using hg)]

/-- **cycles and long chains are refused**: the slot is only detached from its old parent -/
theorem attach_refuses (s : Seg) (i other : Nat)
    (h : (chainUp (s.unparent i) i 200 (some other) 0 false).2 = true ∨
      ¬ chainDown (s.unparent i) (·.sibling) 200 ((s.unparent i).get i).sibling
          (chainDown (s.unparent i) (·.child) 200 ((s.unparent i).get i).child (chainUp (s.unparent i) i 200 (some other) 0 false).1) < 100) :
    s.attach i other = s.unparent i := by
  unfold Seg.attach
  simp only []
  rw [if_neg]
  rcases h with h | h
  · simp [h]
  · intro hh; exact h hh.1

/-! ## the forest -/

/-- **every opcode keeps the forest** (together with the stream invariant and the slot-map cell invariant) -/
theorem every_opcode_keeps_forest : OpsPreserve PF := ops_PF

/-- **C04, rule actions.** -/
theorem action_keeps_forest {is : List Instr} {dl : Bool} {mr : Nat} {data : List Nat} {ctx : Ctx} {l : List Nat}
    (hl : Linked ctx.seg l) (hc : Clean ctx.seg l) (hh : ∀ x, ctx.highwater = some x → x ∈ l)
    (hcell : IsOK ctx.seg l (ctx.smap.getD ((ctx.context : Int) + 1).toNat none)) (ha : Alloc ctx.seg l)
    (hF : Forest ctx.seg) (hcells : CellsOK ctx)
    {r : Int} {st : Status} {so : Option Nat} {c : Ctx}
    (e : doAction is dl mr data ctx = .ok (r, st, so, c)) : Forest c.seg :=
  doAction_forest hl hc hh hcell ha hF hcells e

/-- **C04, whole pipeline.** For every font – any passes, state tables, rules, constraint and action programs – and every
text: the attachment pointers of the segment the modelled pipeline returns form a forest, and its glyph stream is well
formed (so the slots of the stream are real slots). -/
theorem pipeline_forest (font : Pass.Font) (text : List Nat) (fuel : Nat) (dir : Nat) {c : Ctx} {ci : List Assoc.CI}
    (e : Pass.shape font text fuel dir = .ok (some (c, ci))) :
    Forest c.seg ∧ ∃ l, Linked c.seg l ∧ Clean c.seg l ∧ ∀ j ∈ l, Real c.seg j :=
  ⟨Pass.shape_forest font text fuel dir e, by
    obtain ⟨l, h1, h2, _⟩ := Pass.shape_wf font text fuel dir e
    exact ⟨l, h1, h2, fun j hj => (h2.live j hj).2⟩⟩

/-- **C04: attachments stay inside the segment.** For every font and text: in the segment the modelled pipeline returns, a
slot of the stream that is attached is attached to a slot of the stream (`gr_slot_attached_to` never leaves the
segment). -/
theorem attachments_stay_in_segment (font : Pass.Font) (text : List Nat) (fuel : Nat) (dir : Nat) {c : Ctx} {ci : List Assoc.CI}
    (e : Pass.shape font text fuel dir = .ok (some (c, ci))) :
    ∃ l, Linked c.seg l ∧ Clean c.seg l ∧ ∀ j ∈ l, ∀ p, (c.seg.get j).parent = some p → p ∈ l :=
  Pass.shape_parents_in_stream font text fuel dir e

/-- **C04: the base chain.** For every font and text, in the segment the modelled pipeline returns and
`Segment::finalise` completes with `linkClusters`: the bases (the slots of the stream without a parent), in stream order,
form one `sibling` chain that contains each of them exactly once; attached slots keep their `sibling`, all slots their
`parent` and first `child` – so the child chains of `forest_for_clients` are untouched. -/
theorem bases_form_one_chain (font : Pass.Font) (text : List Nat) (fuel : Nat) (dir : Nat) {c : Ctx} {ci : List Assoc.CI}
    (e : Pass.shape font text fuel dir = .ok (some (c, ci))) :
    ∃ l, Linked c.seg l ∧
      SibChain (Pass.linkClusters c.seg 0) (l.filter fun i => (c.seg.get i).parent.isNone).head? (l.filter fun i => (c.seg.get i).parent.isNone) ∧
      (l.filter fun i => (c.seg.get i).parent.isNone).Nodup ∧
      (∀ j, ((Pass.linkClusters c.seg 0).get j).parent = (c.seg.get j).parent ∧ ((Pass.linkClusters c.seg 0).get j).child = (c.seg.get j).child) ∧
      (∀ j, (c.seg.get j).parent ≠ none → ((Pass.linkClusters c.seg 0).get j).sibling = (c.seg.get j).sibling) := by
  obtain ⟨l, hl, hc, _⟩ := Pass.shape_wf font text fuel dir e
  have hF := Pass.shape_forest font text fuel dir e
  obtain ⟨h1, h2, h3⟩ := Pass.linkClusters_spec hF hl hc
  exact ⟨l, hl, h1, hl.nodup.filter _, fun j => ⟨(h2 j).1, (h2 j).2.1⟩, h3⟩

/-- every opcode keeps "a parent is never marked deleted" together with everything else -/
theorem every_opcode_keeps_parents_alive : OpsPreserve PG := ops_PG

/-- what the forest means for a client that walks the pointers -/
theorem forest_for_clients {s : Seg} (hF : Forest s) :
    -- from every real slot the walk along `attached_to` reaches a base
    (∀ j, Real s j → ∃ k r, up s k j = some r ∧ (s.get r).parent = none) ∧
    -- a slot with a parent occurs exactly once in the chain `first_attachment(parent), next_sibling_attachment, …`
    (∀ j p, Real s j → (s.get j).parent = some p → ∃ l, SibChain s (s.get p).child l ∧ l.count j = 1) ∧
    -- every member of such a chain names that parent, and the chain holds every slot that does
    (∀ p l, Real s p → SibChain s (s.get p).child l → (∀ j ∈ l, (s.get j).parent = some p) ∧
      ∀ j, Real s j → (s.get j).parent = some p → j ∈ l) := by
  refine ⟨?_, ?_, ?_⟩
  · obtain ⟨d, hd⟩ := hF.acyc
    -- induction on the depth
    have : ∀ n j, d j ≤ n → Real s j → ∃ k r, up s k j = some r ∧ (s.get r).parent = none := by
      intro n
      induction n with
      | zero =>
        intro j hn hj
        cases hp : (s.get j).parent with
        | none => exact ⟨0, j, rfl, hp⟩
        | some p => have := hd j p hj hp; omega
      | succ n ih =>
        intro j hn hj
        cases hp : (s.get j).parent with
        | none => exact ⟨0, j, rfl, hp⟩
        | some p =>
          have hlt := hd j p hj hp
          obtain ⟨k, r, h1, h2⟩ := ih p (by omega) (hF.par j p hj hp).1
          exact ⟨k + 1, r, by simp only [up, hp]; exact h1, h2⟩
    exact fun j hj => this (d j) j (Nat.le_refl _) hj
  · intro j p hj hp
    obtain ⟨l, hk⟩ := hF.kids p (hF.par j p hj hp).1
    exact ⟨l, hk.chain, by rw [hk.nodup.count, if_pos (hk.all j hj hp)]⟩
  · intro p l hp hch
    obtain ⟨l', hk⟩ := hF.kids p hp
    have : l = l' := sibChain_unique hch hk.chain
    subst this
    exact ⟨fun j hj => (hk.mem j hj).1, hk.all⟩

/-! ### non-vacuity: attaching 1 to 0 and then 0 to 1 – the second attach is refused -/
def seg3 : Seg := { slots := #[{}, {}, {}], first := some 0, last := some 2, numGlyphs := 3, numChars := 3 }
example : ((seg3.attach 1 0).get 1).parent = some 0 ∧ ((seg3.attach 1 0).get 0).child = some 1 := by decide
example : ((seg3.attach 1 0).attach 0 1).get 0 = (seg3.attach 1 0).get 0 := by decide

end GrVerif.Props.C04

import GrVerif.Proofs.CmapEq
/-!
# C13 — the cached and the direct look-up agree on every code point

`Props/C13.lean` holds the in-bounds half of C13; this file the clause "the directly parsed and the cached (`gr_face_cacheCmap`)
lookups agree on every code point".  The theorem is about `Model/Cmap.lean` (`buildCached` = `CachedCmap::CachedCmap` with
`cache_subtable` and the two `NextCodepoint` walks, `cachedGet` = `CachedCmap::operator[]`, `directGet` = `DirectCmap::operator[]`); the
model is tied to `src/CmapCache.cpp` and `src/TtfUtil.cpp` by the exhaustive comparison of `tools/props/c13.py` (all 0x110000 code points
of every table, both paths).

Hypothesis: the ranges of the subtables in use are sorted and disjoint (`startCode ≤ endCode`, each segment/group ends before the next
begins) – what OpenType requires and the binary search of `CmapSubtable4Lookup` relies on.  It is the executable test `sortedCmapB`, which
the driver evaluates on every table of the correspondence check (`sorted=`), so that the check knows which tables the theorem speaks about
and demands agreement of the implementation's two paths on exactly those.  Nothing else is assumed: any bytes, any sizes, any glyph ids,
idRangeOffset arrays, wrapping deltas, format 12 groups that repeat or contradict the BMP (the BMP is answered by format 4 alone on both
paths), a first segment that begins at U+0000 (the "prevent infinite loop" branch of `cache_subtable`), tables whose last group ends at
or beyond U+10FFFF.
-/
namespace GrVerif.Props.C13
open GrVerif GrVerif.Cmap

/-- **cached = direct**: for every cmap table whose Unicode subtables have sorted, disjoint ranges and every Unicode code point, the glyph
`CachedCmap::operator[]` answers from the cache built at face creation is the glyph `DirectCmap::operator[]` finds in the table -/
theorem cached_lookup_is_direct_lookup (t : Buf) (bmp : Nat) (smp : Option Nat)
    (hb : bmpSubtable t = .ok (some bmp)) (hs : smpSubtable t = .ok smp) (hS : sortedCmapB t bmp smp = true)
    (m : CachedCmap) (hm : buildCached t = .ok m) (usv : Nat) (hu : usv ≤ 0x10FFFF) :
    directGet t (some bmp) smp usv = .ok (cachedGet m usv) :=
  cached_eq_direct t bmp smp hb hs ((sortedCmapB_iff t bmp smp).1 hS) m hm usv hu

/-- … and building the cache cannot fail, so the statement is about every such table -/
theorem cached_cmap_is_built_and_agrees (t : Buf) (h4 : 4 ≤ t.size) (bmp : Nat) (smp : Option Nat)
    (hb : bmpSubtable t = .ok (some bmp)) (hs : smpSubtable t = .ok smp) (hS : sortedCmapB t bmp smp = true) :
    ∃ m, buildCached t = .ok m ∧ ∀ usv, usv ≤ 0x10FFFF → directGet t (some bmp) smp usv = .ok (cachedGet m usv) := by
  obtain ⟨m, hm⟩ := buildCached_total t h4
  exact ⟨m, hm, fun usv hu => cached_lookup_is_direct_lookup t bmp smp hb hs hS m hm usv hu⟩

/-- **the BMP look-up is the search the OpenType specification describes**: on sorted segments the binary search of `CmapSubtable4Lookup`
(with its `cMid`/`prev` boundary steps) picks the *first* segment whose end code is not below the code point, which is how the
specification defines the format ("search for the first endCode that is greater than or equal to the character code"); that segment's
start code, idDelta and idRangeOffset then give the glyph (`seg4`), and a code point in no segment maps to 0 -/
theorem direct_bmp_lookup_is_the_specified_search (t : Buf) (bmp : Nat) (smp : Option Nat)
    (hb : bmpSubtable t = .ok (some bmp)) (hS : sortedCmapB t bmp smp = true) (usv : Nat) (hu : usv ≤ 0xFFFF) :
    directGet t (some bmp) smp usv = spec4 t bmp usv := by
  unfold directGet
  rw [if_neg (by omega)]
  exact lookup4_is_spec t bmp (bmp_checked t bmp hb) ((sortedCmapB_iff t bmp smp).1 hS).bmp usv

/-- the walk itself, for the record: over sorted ranges `NextCodepoint` answers the next code point that lies in a range -/
theorem next_codepoint_is_next_in_range {st en : Nat → Nat} {N : Nat} (hS : Sorted st en N) (lim lastKey usv key : Nat)
    (h0 : 0 < usv) (hl : usv < lim) (hk : key < N) :
    usv < (nextA st en N lim lastKey usv key).1 ∧
    (∀ u, usv < u → u < (nextA st en N lim lastKey usv key).1 → u < lim → ¬ InRange st en N u) :=
  ⟨(nextA_spec hS lim lastKey usv key h0 hl hk).1, (nextA_spec hS lim lastKey usv key h0 hl hk).2.1⟩

/-- the hypotheses are satisfiable: a table with a format 4 subtable (a delta segment, an idRangeOffset segment, the terminator) and a
format 12 subtable (a group repeating the BMP, a supplementary-plane group) -/
def exampleTable : Buf := #[0,0,0,2,0,3,0,1,0,0,0,20,0,3,0,10,0,0,0,64,0,4,0,44,0,0,0,6,0,0,0,0,0,0,0,67,1,1,255,255,0,0,0,65,1,0,255,255,0,5,0,0,0,1,0,0,0,4,0,0,0,7,0,9,0,12,0,0,0,0,0,40,0,0,0,0,0,0,0,2,0,0,0,65,0,0,0,67,0,0,0,70,0,1,0,0,0,1,0,2,0,0,1,44]

example : bmpSubtable exampleTable = .ok (some 20) ∧ smpSubtable exampleTable = .ok (some 64) ∧ sortedCmapB exampleTable 20 (some 64) = true := by
  decide +kernel

end GrVerif.Props.C13

import GrVerif.Proofs.Borrow
import GrVerif.Props.C13
/-!
# C10 — face options change resource behaviour, never results   (partial)

The two option bits that change how data is obtained are modelled:
* `gr_face_preloadGlyphs`: `preload_eq_lazy` – on a font all of whose glyphs can be read, a glyph request on the preloaded
  cache and on the lazy cache (after any history) return the same glyph, namely what the tables say;
  `preload_fails_iff_some_glyph_unreadable` – the preloading constructor gives up exactly when some glyph cannot be read
  (on such an ill-formed font the lazy face still loads and substitutes glyph 0: the two option values then differ, which
  is why C10 is stated for well-formed fonts);
* `gr_face_cacheCmap`: the cached and the direct cmap lookup are modelled in `Model/Cmap.lean`; that they agree on every code
  point is decided by exhaustive correspondence per table (C13), the in-bounds part is a theorem there.

"Same glyph count, features, languages, character support and identical segments for all option values and both table
sources" as a whole is decided on the implementation (`tools/props/c10.py`).
-/
set_option linter.unusedVariables false
namespace GrVerif.Props.C10
open GrVerif.Borrow

theorem preload_eq_lazy {G : Type} (load : Nat → Option G) (n : Nat) (hist : List Nat) (gid : Nat) (hg : gid < n)
    (hwf : ∀ g, g < n → (load g).isSome) (cp : GCache G) (hp : preload load n = some cp) :
    (glyph load cp gid).1 = (glyph load (hist.foldl (fun c g => (glyph load c g).2) (lazy n)) gid).1 :=
  (lazy_history_eq_preloaded load n hist gid hg hwf cp hp).symm

theorem preload_fails_iff_some_glyph_unreadable {G : Type} (load : Nat → Option G) (n : Nat) :
    preload load n = none ↔ ∃ g, g < n ∧ load g = none := by
  unfold preload
  constructor
  · intro h
    split at h
    · cases h
    · rename_i hall
      apply Classical.byContradiction
      intro hne
      apply hall
      rw [List.all_eq_true]
      intro g hg
      have hg' := List.mem_range.mp hg
      cases hl : load g with
      | some x => rfl
      | none => exact absurd ⟨g, hg', hl⟩ hne
  · rintro ⟨g, hg, hn⟩
    split
    · rename_i hall
      have := (List.all_eq_true.mp hall) g (List.mem_range.mpr hg)
      rw [hn] at this; cases this
    · rfl

example : preload (fun g => if g = 2 then none else some g) 4 = none := by decide
example : (preload (fun g => some g) 3).map (·.cache) = some [some 0, some 1, some 2] := by decide

end GrVerif.Props.C10

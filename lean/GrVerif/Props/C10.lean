import GrVerif.Proofs.Borrow
import GrVerif.Props.C13
import GrVerif.Props.C13Eq
import GrVerif.Proofs.GlyphLoad
/-!
# C10 — face options change resource behaviour, never results   (partial)

The two option bits that change how data is obtained are modelled:
* `gr_face_preloadGlyphs`: `preload_eq_lazy` – on a font all of whose glyphs can be read, a glyph request on the preloaded
  cache and on the lazy cache (after any history) return the same glyph, namely what the tables say;
  `preload_fails_iff_some_glyph_unreadable` – the preloading constructor gives up exactly when some glyph cannot be read
  (on such an ill-formed font the lazy face still loads and substitutes glyph 0: the two option values then differ, which
  is why C10 is stated for well-formed fonts);
* `gr_face_cacheCmap`: the cached and the direct cmap lookup are modelled in `Model/Cmap.lean`; `cmap_option_does_not_change_glyphs` –
  on a font whose cmap ranges are sorted and disjoint (a well-formed font) both give the same glyph for every code point (C13's
  `cached_lookup_is_direct_lookup`), and neither reads outside the table on any font.

* `gr_face_preloadGlyphs` on the bytes of `Gloc`/`Glat` (attributes and bounding boxes): `preloading_changes_no_glyph_or_box`.

"Same glyph count, features, languages, character support and identical segments for all option values and both table
sources" as a whole is decided on the implementation (`tools/props/c10.py`).
-/
set_option linter.unusedVariables false
namespace GrVerif.Props.C10
open GrVerif.Borrow

theorem preload_eq_lazy {G : Type} (load : Nat → Option G) (n : Nat) (hist : List Nat) (gid : Nat) (hg : gid < n)
    (hwf : ∀ g, g < n → (load g).isSome) (cp : GCache G) (hp : preload load n = some cp) :
    (glyph load cp gid).1 = (glyph load (hist.foldl (fun c g => (glyph load c g).2) (lazy n)) gid).1 :=
  (lazy_history_eq_preloaded load n hist gid hg hwf cp hp).symm

theorem preload_fails_iff_some_glyph_unreadable {G : Type} (load : Nat → Option G) (n : Nat) :
    preload load n = none ↔ ∃ g, g < n ∧ load g = none := by
  unfold preload
  constructor
  · intro h
    split at h
    · cases h
    · rename_i hall
      apply Classical.byContradiction
      intro hne
      apply hall
      rw [List.all_eq_true]
      intro g hg
      have hg' := List.mem_range.mp hg
      cases hl : load g with
      | some x => rfl
      | none => exact absurd ⟨g, hg', hl⟩ hne
  · rintro ⟨g, hg, hn⟩
    split
    · rename_i hall
      have := (List.all_eq_true.mp hall) g (List.mem_range.mpr hg)
      rw [hn] at this; cases this
    · rfl

example : preload (fun g => if g = 2 then none else some g) 4 = none := by decide
example : (preload (fun g => some g) 3).map (·.cache) = some [some 0, some 1, some 2] := by decide

/-- **`gr_face_preloadGlyphs` on the real tables** (`Model/GlyphLoad.lean`: `GlyphCache`'s constructor and `glyph(gid)` over the bytes of `Gloc` and
`Glat`, attributes and bounding boxes): when the preloading constructor builds a cache, and every glyph's box can be read where the Glat table
carries boxes (a well-formed font), the cache that loads on demand answers every sequence of glyph requests with the same glyphs, attributes and
boxes.  In the pinned tree this failed on a font whose glyphs have bounding octaboxes but no sub-boxes: the preloading constructor read the
boxes only `if (numsubs > 0 && _boxes)` (`fix: a preloading glyph cache …` in /repo; the model is the repaired behaviour). -/
theorem preloading_changes_no_glyph_or_box (gloc glat : List Nat) (ngg : Nat) (gids : List Nat) (cp : Loader.GlyphCacheM)
    (hp : Loader.glyphCache gloc glat ngg true gids = .ok (some cp))
    (hwf : ∀ T, Loader.readGlyphTables gloc glat ngg = .ok (some T) → T.hasBoxes = true →
      ∃ bs, Loader.preloadBoxes T gloc glat (max ngg T.numGlyphsAttr) 0 = .ok (some bs)) :
    Loader.glyphCache gloc glat ngg false gids = .ok (some cp) := Loader.glyphCache_preload_eq_lazy gloc glat ngg gids cp hp hwf

/-- **… on any font**: the hypothesis follows from the glyphs having been read – a glyph `read_glyph` accepted in a version 3 `Glat` has a
box `read_box` accepts (`readBox_of_readGlyph`), and `maxp` never names more glyphs than `Gloc` has attributes for.  So whenever the preloading
constructor builds a cache at all, the cache that loads on demand gives the same answers; and the constructor's error path for an unreadable
box (`free(boxes)` with the cells of `_boxes` already pointing into the block) is unreachable. -/
theorem preloading_changes_no_glyph_or_box_on_any_font (gloc glat : List Nat) (ngg : Nat) (gids : List Nat) (cp : Loader.GlyphCacheM)
    (hp : Loader.glyphCache gloc glat ngg true gids = .ok (some cp)) : Loader.glyphCache gloc glat ngg false gids = .ok (some cp) :=
  Loader.glyphCache_preload_eq_lazy' gloc glat ngg gids cp hp

/-- `gr_face_cacheCmap` changes how a code point is looked up, never the glyph: on a cmap with sorted, disjoint ranges the face made with the
option (cache built at creation) and the face made without it (table searched on every request) map every Unicode code point to the
same glyph -/
theorem cmap_option_does_not_change_glyphs (t : Buf) (h4 : 4 ≤ t.size) (bmp : Nat) (smp : Option Nat)
    (hb : Cmap.bmpSubtable t = .ok (some bmp)) (hs : Cmap.smpSubtable t = .ok smp) (hS : Cmap.sortedCmapB t bmp smp = true) :
    ∃ m, Cmap.buildCached t = .ok m ∧ ∀ usv, usv ≤ 0x10FFFF → Cmap.directGet t (some bmp) smp usv = .ok (Cmap.cachedGet m usv) :=
  GrVerif.Props.C13.cached_cmap_is_built_and_agrees t h4 bmp smp hb hs hS

end GrVerif.Props.C10

import GrVerif.Proofs.Loader
import GrVerif.Props.C13
import GrVerif.Props.C14
/-!
# C01 — font loading is total and memory-safe on arbitrary table bytes   (partial)

The loader as a whole is not modelled.  Modelled and proved total ("for ALL byte strings the component returns – accept or
reject – without a single read or write outside the bytes it was given"):
* the sfnt container as a file face reads it (`FileFace` constructor, `TtfUtil::GetTableInfo`, the bounds test of
  `FileFace::get_table_fn`): `file_face_total` – a table that is handed out lies inside the file;
* `Pass::readRanges` (the glyph → column map of a pass): `pass_ranges_total`;
* cmap subtables: once `CheckCmapSubtable4/12` accepted a subtable, every lookup stays inside it
  (`C13.lookup4_in_bounds`, `C13.lookup12_in_bounds`, re-exported);
* compressed tables: `Face::Table::decompress` and the LZ4 decoder never read or write outside their buffers and a table is
  either fully replaced or left as it was (`C14.table_no_fault`, `C14.lz4_in_bounds`, `C14.table_all_or_nothing`).

Everything else of C01 (Silf/Pass/Code loading, Glat/Gloc, Feat/Sill/name, queries, destruction, leaks, both table sources,
all option combinations) is decided on the implementation under ASan/UBSan/LSan with byte-mutated and structurally hostile
fonts (`tools/props/c01.py`).
-/
set_option linter.unusedVariables false
namespace GrVerif.Props.C01
open GrVerif GrVerif.Loader

theorem file_face_total (file : List Nat) (tag : Nat) :
    ∃ r, openFile file = .ok r ∧ ∀ f, r = some f →
      ∃ t, getTable file f tag = .ok t ∧ ∀ off len, t = some (off, len) → off + len ≤ file.length :=
  Loader.file_face_total file tag

theorem pass_ranges_total (ng nc : Nat) (ranges : List Nat) (nr : Nat) (h : 6 * nr ≤ ranges.length) :
    ∃ r, readRanges ng nc ranges nr = .ok r ∧ ∀ c, r = some c → c.length = ng ∧ ColsOK nc c :=
  readRanges_total ng nc ranges nr h

/-- a range whose last glyph is the glyph count itself is refused (the boundary a careless rewrite gets wrong) -/
theorem range_ending_at_numGlyphs_refused (ng nc first col : Nat) (ranges : List Nat)
    (h1 : be16 ranges 0 = .ok first) (h2 : be16 ranges 2 = .ok ng) (h3 : be16 ranges 4 = .ok col) :
    readRanges ng nc ranges 1 = .ok none := by
  unfold readRanges readRanges.go
  simp only [Nat.zero_add, h1, h2, h3]
  rw [if_pos (by omega)]

/-! ### non-vacuity -/
example : openFile [0, 1, 0, 0, 0, 1, 0, 0, 0, 0, 0, 0, 0x53, 0x69, 0x6c, 0x66, 0, 0, 0, 0, 0, 0, 0, 28, 0, 0, 0, 2, 7, 9] =
    .ok (some { fileLen := 30, header := [0, 1, 0, 0, 0, 1, 0, 0, 0, 0, 0, 0], dir := [0x53, 0x69, 0x6c, 0x66, 0, 0, 0, 0, 0, 0, 0, 28, 0, 0, 0, 2] }) := by decide
example : readRanges 4 2 [0, 1, 0, 2, 0, 1] 1 = .ok (some [0xFFFF, 1, 1, 0xFFFF]) := by decide

end GrVerif.Props.C01

import GrVerif.Proofs.Loader
import GrVerif.Proofs.PassLoad
import GrVerif.Proofs.LoadedPass
import GrVerif.Proofs.ClassMap
import GrVerif.Proofs.SilfLoad
import GrVerif.Proofs.CodeLoop
import GrVerif.Proofs.RulesLoad
import GrVerif.Proofs.GlyphLoad
import GrVerif.Proofs.FaceLoad
import GrVerif.Proofs.GlyphGfx
import GrVerif.Proofs.FaceLoadAll
import GrVerif.Proofs.NameLoad
import GrVerif.Proofs.CmapDirect
import GrVerif.Proofs.CmapCache
import GrVerif.Props.C13
import GrVerif.Props.C14
/-!
# C01 — font loading is total and memory-safe on arbitrary table bytes   (partial)

The loader as a whole is not modelled.  Modelled and proved total ("for ALL byte strings the component returns – accept or
reject – without a single read or write outside the bytes it was given"):
* the sfnt container as a file face reads it (`FileFace` constructor, `TtfUtil::GetTableInfo`, the bounds test of
  `FileFace::get_table_fn`): `file_face_total` – a table that is handed out lies inside the file;
* `Pass::readRanges` (the glyph → column map of a pass): `pass_ranges_total`;
* the layout half of `Pass::readPass` (the 40-byte header, the tests on its numbers, the walk over the variable-length arrays
  and the three code pointers): `pass_layout_total` – no read outside the pass for any bytes, and an accepted layout places the
  range records, rule map, start states, sort keys, pre-context lengths, code offset arrays, transition table and the three code
  blocks inside the pass (`LayoutOK`), which is what `readRanges`, `readRules`, `readStates` and the code loader start from
  (`ranges_after_layout`); error codes and the header size are regenerated from `Error.h` / `Pass.cpp` (`Gen/Err.lean`);
* `Silf::readClassMap` and the two class look-ups of the run time (`Model/ClassMap.lean`): `class_map_total`,
  `class_lookups_in_bounds`;
* `Pass::readStates` and the rule map of `Pass::readRules`: `pass_states_total`, `pass_rulemap_total`; together with
  `pass_ranges_total` they give the pass-engine model's `TablesWF` (`accepted_pass_has_wellformed_tables`), the hypothesis
  under which the matcher provably never indexes outside a table (`C02.matcher_stays_inside_its_tables`);
* cmap subtables: once `CheckCmapSubtable4/12` accepted a subtable, every lookup stays inside it
  (`C13.lookup4_in_bounds`, `C13.lookup12_in_bounds`, re-exported);
* compressed tables: `Face::Table::decompress` and the LZ4 decoder never read or write outside their buffers and a table is
  either fully replaced or left as it was (`C14.table_no_fault`, `C14.lz4_in_bounds`, `C14.table_all_or_nothing`).

Everything else of C01 (Silf/Pass/Code loading, Glat/Gloc, Feat/Sill/name, queries, destruction, leaks, both table sources,
all option combinations) is decided on the implementation under ASan/UBSan/LSan with byte-mutated and structurally hostile
fonts (`tools/props/c01.py`).
-/
set_option linter.unusedVariables false
namespace GrVerif.Props.C01
open GrVerif GrVerif.Loader

theorem file_face_total (file : List Nat) (tag : Nat) :
    ∃ r, openFile file = .ok r ∧ ∀ f, r = some f →
      ∃ t, getTable file f tag = .ok t ∧ ∀ off len, t = some (off, len) → off + len ≤ file.length :=
  Loader.file_face_total file tag

theorem pass_ranges_total (ng nc : Nat) (ranges : List Nat) (nr : Nat) (h : 6 * nr ≤ ranges.length) :
    ∃ r, readRanges ng nc ranges nr = .ok r ∧ ∀ c, r = some c → c.length = ng ∧ ColsOK nc c :=
  readRanges_total ng nc ranges nr h

/-- a range whose last glyph is the glyph count itself is refused (the boundary a careless rewrite gets wrong) -/
theorem range_ending_at_numGlyphs_refused (ng nc first col : Nat) (ranges : List Nat)
    (h1 : be16 ranges 0 = .ok first) (h2 : be16 ranges 2 = .ok ng) (h3 : be16 ranges 4 = .ok col) :
    readRanges ng nc ranges 1 = .ok none := by
  unfold readRanges readRanges.go
  simp only [Nat.zero_add, h1, h2, h3]
  rw [if_pos (by omega)]

/-- **the layout half of `Pass::readPass`**, for every byte string, sub-table base and collision set-up -/
theorem pass_layout_total (b : List Nat) (base : Nat) (collOK : Bool) :
    ∃ r, readPassLayout b base collOK = .ok r ∧ ∀ L, r = .ok L → LayoutOK b L := readPassLayout_total b base collOK

/-- the range records `readRanges` is then given lie inside the pass: the hypothesis of `pass_ranges_total` is what the layout
established -/
theorem ranges_after_layout (b : List Nat) (L : PassLayout) (h : LayoutOK b L) :
    6 * L.hdr.numRanges ≤ ((b.drop L.arr.ranges).take (L.hdr.numRanges * 6)).length := by
  have := h.arr.ranges
  simp only [List.length_take, List.length_drop]
  omega

/-- **`Pass::readStates`** on an accepted layout: in bounds, and the accepted tables are what `runFSM` needs – start states
and transitions are state numbers, every success state's rule range lies inside the rule map -/
theorem pass_states_total (b : List Nat) (L : PassLayout) (h : LayoutOK b L) :
    ∃ r, readStates b L = .ok r ∧ ∀ T, r = .ok T → TablesOK L T := readStates_total b L h

/-- the rule map read at the end of `Pass::readRules`: in bounds, every accepted entry names a rule -/
theorem pass_rulemap_total (b : List Nat) (L : PassLayout) (h : LayoutOK b L) :
    ∃ r, readRuleMap b L = .ok r ∧ ∀ es, r = .ok es → es.length = L.arr.numEntries ∧ ∀ e ∈ es, e < L.hdr.numRules :=
  readRuleMap_total b L h

/-- **from the loader to the matcher**: the pass-engine model's view of an accepted pass (`toPassT`) has well-formed state
tables, so `Pass::runFSM` never indexes outside `m_cols`, `m_transitions` or `m_states` on it (C02 re-exports the run-time half) -/
theorem accepted_pass_has_wellformed_tables (b : List Nat) (L : PassLayout) (hL : LayoutOK b L) (cols : List Nat)
    (hc : ColsOK L.hdr.numColumns cols) (T : PassTables) (hT : TablesOK L T) (es : List Nat) (rules : Array Pass.Rule) :
    Pass.TablesWF (toPassT L cols T es rules) := loaded_tables_wf b L hL cols hc T hT es rules

/-- **`Silf::readClassMap`** for every byte string and both offset widths: no read outside the map, and an accepted map has the
shape the look-ups rely on (`ClassMapOK`: offsets inside the class data, linear classes in order, every look-up class with a
header, at least one pair and all its pairs inside the data).  (The pinned tree computed the size of the offsets array in 16 bits
and read past the end of the map for 32 765 classes or more: `fix: Silf::readClassOffsets …`.) -/
theorem class_map_total (b : List Nat) (wide : Bool) : ∃ r, readClassMap b wide = .ok r ∧ ∀ m, r = .ok m → ClassMapOK m :=
  readClassMap_total b wide

/-- **the two look-ups on an accepted class map** (`Silf::getClassGlyph`, `Silf::findClassIndex` with its binary search), for
every class number the code loader lets through and every glyph / index: all accesses to `m_classOffsets` and `m_classData`
are inside the arrays -/
theorem class_lookups_in_bounds (m : ClassMap) (h : ClassMapOK m) (cid x : Nat) (hc : cid < m.nClass) :
    (∃ v, getClassGlyph m cid x = .ok v) ∧ (∃ v, findClassIndex m cid x = .ok v) :=
  ⟨getClassGlyph_in_bounds m h cid x hc, findClassIndex_in_bounds m h cid x hc⟩

/-- the class number the look-ups do NOT guard is `numClasses` itself (`if (cid > m_nClass) return …`): there the model reads
outside `m_classOffsets` – which is why the code loader has to refuse it (`valid_upto(m_nClass, cid)`; seeded change C02-m1) -/
example : getClassGlyph { nClass := 1, nLinear := 1, offsets := [0, 1], data := [7] } 1 0 = .error (.read "m_classOffsets") := by decide

/-- **`Silf::readGraphite` – one Silf sub-table – is total and in bounds** for every byte string, table version and glyph-cache
numbers; an accepted sub-table has its pass numbers in order (`sPass ≤ pPass ≤ jPass ≤ numPasses ≤ 128`), the attribute numbers
below the font's attribute count, a well-formed class map (`ClassMapOK`, the hypothesis of `class_lookups_in_bounds`), and for
each pass a byte range behind `passes_start` and inside the sub-table whose layout `readPass` places inside that range -/
theorem silf_subtable_total (b : List Nat) (version numGlyphs numAttrs : Nat) (hasBoxes : Bool) (numFeats : Nat) :
    ∃ r, readSilf b version numGlyphs numAttrs hasBoxes numFeats = .ok r ∧ ∀ t, r = .ok t → SilfOK b version numAttrs t :=
  readSilf_total b version numGlyphs numAttrs hasBoxes numFeats

/-- **the sub-table offsets of the Silf table are read inside the table although their number is never tested against its size**
(`Face::readGraphite` tests only `size ≥ 20`): the loop reaches entry `i + 1` only after `i + 1` sub-tables were accepted one
behind the other, each longer than 20 bytes, so the table is by then known to extend beyond that entry -/
theorem silf_subtable_offsets_in_bounds (b : List Nat) (version numGlyphs numAttrs : Nat) (hasBoxes : Bool) (numFeats numSilf : Nat) (hl : 20 ≤ b.length) :
    ∃ r, readSilfSubs b version numGlyphs numAttrs hasBoxes numFeats (if version ≥ 0x00030000 then 12 else 8) numSilf 0 = .ok r ∧
      ∀ l, r = .ok l → l.length = numSilf :=
  readSilfSubs_total b version numGlyphs numAttrs hasBoxes numFeats _ rfl numSilf 0 (by split <;> omega) (fun v _ => by omega)

/-- **`Face::readGraphite` is total and in bounds for every byte string given as the Silf table** – the whole of it: the table
header and the sub-table offsets, each sub-table (`silf_subtable_total`), its class map, and each pass from its first byte to its
last (`pass_total`) including every rule's constraint and action code (`code_loader_total`) laid out in the program pool -/
theorem silf_table_total (b : List Nat) (numGlyphs numAttrs : Nat) (hasBoxes : Bool) (numFeats : Nat) :
    ∃ r, readSilfTable b numGlyphs numAttrs hasBoxes numFeats = .ok r :=
  readSilfTable_total b numGlyphs numAttrs hasBoxes numFeats

/-- **the code loader (`Machine::Code::Code` and its `decoder`) is total, in bounds, and its buffers suffice** – for every
bytecode, every set of limits, constraint and action code, every pass type (rule length at most 254 for actions; `readRules`
refuses rules longer than 63): the loop of `decoder::load` ends; `validate_opcode`, `fetch_opcode`, `analyse_opcode` and
`emit_opcode` read only bytes of `[bytecode_begin, bytecode_end)` (parameter sizes and which opcodes exist for which kind of code
come from the regenerated `opcode_table.h`) and write `_contexts[256]` only inside the array; and for an accepted program the
instructions together with the `TEMP_COPY`s that `apply_analysis` inserts fit the `bytecode_end - bytecode_begin` instruction slots
in front of the data area (so the `memmove` that makes room for them never runs into the parameter bytes), the parameter bytes fit
the data area, and every instruction's class, feature, glyph-attribute, metric and slot-attribute operands are below the limits -/
theorem code_loader_total (l : CodeLoad.Limits) (constraint : Bool) (pt : Nat) (bc : List Nat) (hrl : constraint = false → l.ruleLength ≤ 254) :
    ∃ r, CodeLoad.load l constraint pt bc = .ok r ∧ ∀ p, r = .ok (some p) →
      p.instrs.length ≤ bc.length ∧ p.dataSize ≤ bc.length ∧ (∀ i ∈ p.instrs, CodeLoad.OperandsOK l i.1 i.2) ∧
      (constraint = true → p.instrs.length + (p.dataSize + 7) / 8 ≤ bc.length) :=
  CodeLoad.load_total l constraint pt bc hrl

/-- **`Pass::readPass` is total and in bounds for every byte string** – layout, pass constraint, `readRanges`, `readRules`, the rule
map and `readStates`, for every sub-table base, collision set-up, pass type and every limits of the code loader.  Beyond reads
inside the pass this says that no `Machine::Code` of a rule – while it is decoded (instruction slots and parameter bytes at
`prog_pool_free`) or when it is done (`8·(instructions + 1) + 8·⌈data/8⌉` bytes) – writes outside the program pool `m_progs`: the
per-rule test `estimateCodeDataOut(action + constraint bytes, 2, sort) > pool left` reserves `9·(a + c) + 16 + 8·sort` bytes, an
accepted action takes at most `9·a + 15` and an accepted constraint at most `8·c + 8` of them (`CodeLoad.load_total`), and
`sort ≥ 1`.  An accepted pass has the layout of `LayoutOK` and rules of at most 63 slots with `pre-context < length`, pre-contexts
inside the pass's bounds and code ranges inside the pass. -/
theorem pass_total (b : List Nat) (base : Nat) (collOK : Bool) (f : FontLimits) (pt : Nat) :
    ∃ r, readPassAll b base collOK f pt = .ok r ∧ ∀ P, r = .ok P → LayoutOK b P.layout ∧ ∀ x ∈ P.rules, RuleOK b P.layout x :=
  readPassAll_total b base collOK f pt

/-- **from the loader to the run time**: a program the code loader accepted against the class count of an accepted class map only
ever hands `Silf::getClassGlyph` / `Silf::findClassIndex` class numbers for which every access to the class map is in bounds
(the look-ups themselves let `cid == numClasses` through: `class_lookups_in_bounds` needs `cid < numClasses`, which is exactly
what `valid_upto(_max.classes, …)` established for the operands of `PUT_GLYPH` and `PUT_SUBS`) -/
theorem accepted_code_class_lookups_in_bounds (l : CodeLoad.Limits) (constraint : Bool) (pt : Nat) (bc : List Nat) (hrl : constraint = false → l.ruleLength ≤ 254)
    (m : ClassMap) (hm : ClassMapOK m) (hl : l.classes = m.nClass) (p : CodeLoad.Loaded) (hp : CodeLoad.load l constraint pt bc = .ok (.ok (some p)))
    (ps : List Nat) (x : Nat) :
    ((59, ps) ∈ p.instrs → (∃ v, getClassGlyph m (CodeLoad.g ps 0 * 256 + CodeLoad.g ps 1) x = .ok v)) ∧
    ((56, ps) ∈ p.instrs → (∃ v, findClassIndex m (CodeLoad.g ps 1 * 256 + CodeLoad.g ps 2) x = .ok v) ∧
                            (∃ v, getClassGlyph m (CodeLoad.g ps 3 * 256 + CodeLoad.g ps 4) x = .ok v)) := by
  obtain ⟨r, hr, hall⟩ := CodeLoad.load_total l constraint pt bc hrl
  rw [hp] at hr
  cases hr
  have hops := (hall p rfl).2.2.1
  constructor
  · intro hi
    have := (hops _ hi).1 rfl
    rw [hl] at this
    exact (class_lookups_in_bounds m hm _ x this).1
  · intro hi
    have := (hops _ hi).2.2.1 rfl
    rw [hl] at this
    exact ⟨(class_lookups_in_bounds m hm _ x this.1).2, (class_lookups_in_bounds m hm _ x this.2).1⟩

/-- **glyph attributes: `Gloc`, `Glat`, `GlyphCache::Loader` and `sparse`** – for any bytes as the two tables and any glyph count of
`maxp`, whether glyphs are loaded on demand or all at once: the headers (with the count of attributed glyphs derived in wrapping
`size_t` arithmetic), the two offsets of a glyph, the tests on them, the octabox header and the sub-boxes of a version 3 `Glat`, and the
run-length entries the `_glat_iterator`s walk are read inside the tables; `sparse`'s constructor writes, in both passes, inside the one
allocation whose size the first pass computed; and on the attributes of every glyph the cache hands out `sparse::operator[]` reads, for
every key, inside that allocation (or the static empty chunk) -/
theorem glyph_attributes_total (gloc glat : List Nat) (numGlyphsGraphics : Nat) (preload : Bool) (gids : List Nat)
    (hb : ∀ x ∈ gloc, x < 256) (hs : gloc.length < 18446744073709551616) :
    ∃ r, glyphCache gloc glat numGlyphsGraphics preload gids = .ok r ∧
      ∀ c, r = some c → ∀ a ∈ c.glyphs, ∀ s bx, a = GlyphAns.loaded s bx → ∀ k, ∃ v, s.get k = .ok v := by
  obtain ⟨r, e, h⟩ := glyphCache_total gloc glat numGlyphsGraphics preload gids hb hs
  refine ⟨r, e, fun c hc a ha s bx hs k => ?_⟩
  have := h c hc a ha
  rw [hs] at this
  exact sparse_get_in_bounds s this k

/-- **`gr_make_face*` over the five Graphite tables** – the composition the property is about: `load_face` reads `Silf` (must be there),
then the glyph cache (`Gloc`/`Glat`; glyph 0, or every glyph when preloading), then `Feat` and `Sill`, then the whole Silf table with the
numbers the earlier stages produced (glyph count, attribute count, glyph boxes, feature count, and per sub-table its own class count and
user-attribute count for the code loader).  For all bytes of the five tables, every glyph count of `maxp` and both loading modes: no
access outside a table, no write outside a buffer the loader laid out, and the loader ends.  (The other tables – `head`, `hhea`, `hmtx`,
`maxp`, `loca`, `glyf`, `cmap`, `name` – are parameters of this model, not part of it.) -/
theorem face_loading_total (silf gloc glat feat sill : List Nat) (numGlyphsGraphics : Nat) (preload : Bool)
    (hb : ∀ x ∈ gloc, x < 256) (hs : gloc.length < 18446744073709551616) :
    ∃ r, loadFace silf gloc glat feat sill numGlyphsGraphics preload = .ok r :=
  loadFace_total silf gloc glat feat sill numGlyphsGraphics preload hb hs

/-- **`gr_make_face*` over every table but `cmap` and `name`** – `face_loading_total` with the graphics tables inside the model: `head`, `hhea`,
`hmtx`, `maxp`, `loca`, `glyf` present or not and of any bytes (`Face::Table`'s size test and `TtfUtil::CheckTable` are modelled), the first
half of `GlyphCache::Loader::Loader`, both halves of `read_glyph`, `unitsPerEm`; the five Graphite tables of any bytes; loading on demand
or preloading; the cmap usable or not -/
theorem face_loading_all_total (t : AllTables) (preload cmapOK : Bool)
    (hmb : ∀ b, t.maxp = some b → ∀ x ∈ b, x < 256) (hb : ∀ x ∈ t.gloc, x < 256) (hs : t.gloc.length < 18446744073709551616) :
    ∃ r, loadFaceAll t preload cmapOK = .ok r :=
  loadFaceAll_total t preload cmapOK hmb hb hs

/-- … and with the cmap inside the model as well: its `Face::Table` test and, for a face made without `gr_face_cacheCmap`, the search
for a Unicode BMP subtable (`FindCmapSubtable` over the preference list, `CheckCmapSubtable4`) – twelve tables, any bytes -/
theorem face_loading_with_cmap_total (t : AllTables) (cmap : Option (List Nat)) (preload cacheCmap : Bool)
    (hmb : ∀ b, t.maxp = some b → ∀ x ∈ b, x < 256) (hb : ∀ x ∈ t.gloc, x < 256) (hs : t.gloc.length < 18446744073709551616) :
    ∃ r, loadFaceCmap t cmap preload cacheCmap = .ok r :=
  loadFaceCmap_total t cmap preload cacheCmap hmb hb hs

/-- **the direct cmap as a whole** (C13's in-bounds theorems composed with the search for the subtables): for every cmap table `Face::Table`
hands out, choosing the Unicode subtables and – when a BMP subtable was found, which is what makes a `DirectCmap` usable – looking up any code
point reads nothing outside the table -/
theorem direct_cmap_total (t : Buf) (h4 : 4 ≤ t.size) :
    ∃ bmp smp, Cmap.bmpSubtable t = .ok bmp ∧ Cmap.smpSubtable t = .ok smp ∧ (bmp.isSome → ∀ usv, ∃ g, Cmap.directGet t bmp smp usv = .ok g) :=
  Cmap.direct_cmap_in_bounds t h4

/-- **the cached cmap as a whole** (`CachedCmap::CachedCmap`, what a face built with `gr_face_cacheCmap` runs): for every cmap table
`Face::Table` hands out, choosing and checking the subtables, walking each with `NextCodepoint` (format 4 and format 12, whatever range
key the walk carries from one call to the next) and looking up every code point it reports – the whole construction of the cache –
reads nothing outside the table -/
theorem cached_cmap_total (t : Buf) (h4 : 4 ≤ t.size) : ∃ m, Cmap.buildCached t = .ok m :=
  Cmap.buildCached_total t h4

/-- **the name table**: `NameTable`'s constructor (with `setPlatformEncoding`) for every byte string, platform and encoding, and `getName` on
what it accepted for every language and name id: the header, the name records and the string the chosen record names are read inside the
table (the record count is tested in `size_t` arithmetic that wraps for a count of 0 – then the one record `getName` may look at is still
inside the 18 bytes the first test insists on) -/
theorem name_table_total (b : List Nat) (plat enc langId nameId : Nat) :
    ∃ r, nameInit b plat enc = .ok r ∧ ∀ t, r = some t → ∃ v, getNameUnits b t langId nameId = .ok v := by
  obtain ⟨r, e, h⟩ := nameInit_total b plat enc
  exact ⟨r, e, fun t ht => getNameUnits_total b t (h t ht) langId nameId⟩

/-- **the graphics half of `read_glyph`** – `TtfUtil::LocaLookup`, `GlyfLookup`, `GlyfBox` and `HorMetrics` as the glyph cache uses them: for
every glyph id and all bytes of `head`, `hhea`, `hmtx`, `loca`, `glyf` of the sizes `TtfUtil::CheckTable` insists on (`head ≥ 54`, `hhea ≥ 36`,
`glyf ≥ 10`, every table ≥ 4 bytes), nothing is read outside a table -/
theorem glyph_graphics_total (head hhea hmtx : List Nat) (glyfLoca : Option (List Nat × List Nat)) (gid : Nat)
    (h1 : 54 ≤ head.length) (h2 : 36 ≤ hhea.length) (h3 : 4 ≤ hmtx.length) :
    ∃ r, readGlyphGfx head hhea hmtx glyfLoca gid = .ok r :=
  readGlyphGfx_total head hhea hmtx glyfLoca gid h1 h2 h3

/-- `sparse` on its own: for every sequence of (key, value) pairs the constructor stays inside its allocation, and every look-up on
what it built is in bounds -/
theorem sparse_total (pairs : List (Nat × Nat)) :
    ∃ r, sparseBuild pairs = .ok r ∧ ∀ s, r = some s → ∀ k, ∃ v, s.get k = .ok v := by
  obtain ⟨r, e, h⟩ := sparseBuild_total pairs
  exact ⟨r, e, fun s hs k => sparse_get_in_bounds s (h s hs) k⟩

/-! ### non-vacuity -/
/-- attributes 1 ↦ 30, 2 ↦ 7, 50 ↦ 9 (two chunks of 48 keys): present keys answer their values, absent ones and keys beyond the last
chunk answer 0; keys out of order are refused -/
example : (match sparseBuild [(1, 30), (2, 7), (5, 0), (50, 9)] with
    | .ok (some s) => (s.nchunks, s.values, [s.get 0, s.get 1, s.get 2, s.get 5, s.get 50, s.get 51, s.get 96, s.get 65535])
    | _ => (0, [], [])) = (2, [30, 7, 9], [.ok 0, .ok 30, .ok 7, .ok 0, .ok 9, .ok 0, .ok 0, .ok 0]) := by decide +kernel
example : sparseBuild [(3, 1), (3, 2)] = .ok none := by decide +kernel
/-- a two-glyph version 1 `Glat` (glyph 0: attribute 1 = 30; glyph 1: attributes 2,3 = 5,6) behind a short-format `Gloc` -/
example : (match glyphCache [0, 1, 0, 0, 0, 0, 0, 4, 0, 4, 0, 8, 0, 14] [0, 1, 0, 0, 1, 1, 0, 30, 2, 2, 0, 5, 0, 6] 2 false [0, 1, 2] with
    | .ok (some c) => (c.numGlyphs, c.numAttrs, c.glyphs.map fun a => match a with | .loaded s _ => [s.get 1, s.get 2, s.get 3] | _ => [])
    | _ => (0, 0, [])) = (2, 4, [[.ok 30, .ok 0, .ok 0], [.ok 0, .ok 5, .ok 6], []]) := by decide +kernel

/-- an action (`PUT_GLYPH 3; NEXT; PUT_COPY -1; NEXT; RET_ZERO` for a two-slot rule) is accepted with one `TEMP_COPY` put in front:
the first slot is changed and later referenced -/
example : (match CodeLoad.load { preContext := 0, ruleLength := 2, classes := 5, glyfAttrs := 1, features := 1, numUser := 0 } false 2 [59, 0, 3, 25, 30, 255, 25, 49] with
    | .ok (.ok (some p)) => (p.instrs.map (·.1), p.dataSize, p.maxRef, p.delete, p.temps) | _ => ([], 0, 0, false, 0)) = ([67, 59, 25, 30, 25, 49], 3, 1, true, 1) := by decide +kernel
/-- with class 5 (the class count itself) the same action is refused: out_of_range_data -/
example : CodeLoad.load { preContext := 0, ruleLength := 2, classes := 5, glyfAttrs := 1, features := 1, numUser := 0 } false 2 [59, 0, 5, 25, 30, 255, 25, 49] = .ok (.error 4) := by decide +kernel
/-- a constraint with a context item -/
example : (match CodeLoad.load { preContext := 1, ruleLength := 3, classes := 5, glyfAttrs := 4, features := 1, numUser := 0 } true 2 [34, 1, 3, 41, 2, 0, 48] with
    | .ok (.ok (some p)) => p.instrs | _ => []) = [(34, [1, 1, 2]), (41, [2, 0]), (48, [])] := by decide +kernel

/-- the second pass of `tests/fonts/small.ttf` (119 bytes at offset 215 of its Silf sub-table) is accepted -/
def smallPass : List Nat := [0, 5, 2, 0, 0, 1, 0, 0, 0, 0, 1, 44, 0, 0, 1, 44, 0, 0, 1, 45, 0, 0, 0, 0, 0, 3, 0, 2, 0, 1, 0, 2, 0, 2, 0, 2, 0, 1, 0, 0, 0, 3, 0, 3, 0, 0, 0, 5, 0, 5, 0, 1, 0, 0, 0, 1, 0, 0, 0, 0, 0, 0, 0, 2, 0, 10, 0, 0, 0, 0, 0, 1, 0, 0, 0, 33, 0, 1, 0, 0, 0, 0, 0, 2, 0, 0, 27, 30, 0, 1, 255, 38, 2, 1, 0, 35, 17, 41, 6, 0, 35, 8, 41, 7, 0, 35, 9, 44, 6, 0, 35, 3, 44, 7, 0, 35, 4, 25, 49]
/-- the Silf table of `tests/fonts/small.ttf`: its one sub-table (offset 12) followed by `smallPass` -/
def smallSilf : List Nat := [0, 2, 0, 0, 0, 1, 0, 0, 0, 0, 0, 12, 0, 7, 0, 0, 0, 0, 2, 0, 1, 1, 255, 4, 0, 0, 0, 2, 3, 4, 1, 0, 0, 0, 0, 0, 1, 0, 0, 0, 0, 0, 0, 0, 0, 6, 0, 0, 0, 68, 0, 0, 0, 215, 0, 0, 1, 78, 0, 0, 0, 0, 0, 0, 0, 0, 0, 2, 0, 2, 0, 10, 0, 12, 0, 14, 0, 5, 0, 3, 0, 5, 3, 0, 0, 2, 0, 0, 0, 0, 0, 200, 0, 0, 0, 200, 0, 0, 0, 201, 0, 0, 0, 0, 0, 6, 0, 5, 0, 2, 0, 3, 0, 4, 0, 4, 0, 2, 0, 0, 0, 0, 0, 2, 0, 0, 0, 3, 0, 3, 0, 1, 0, 4, 0, 4, 0, 2, 0, 5, 0, 7, 0, 0, 0, 0, 0, 1, 0, 2, 0, 1, 0, 0, 0, 1, 0, 0, 0, 1, 0, 2, 0, 2, 0, 1, 0, 0, 0, 0, 0, 0, 0, 0, 1, 0, 0, 0, 10, 0, 14, 0, 1, 0, 1, 0, 2, 0, 0, 0, 3, 0, 0, 0, 0, 0, 4, 0, 0, 0, 0, 0, 0, 0, 5, 0, 0, 0, 0, 0, 5, 0, 0, 28, 0, 33, 2, 0, 1, 25, 32, 25, 49, 28, 0, 25, 49] ++ smallPass
/-- it is accepted (8 glyphs, 8 glyph attributes): two passes, a substitution pass at [68, 215) and a pass at [215, 334) of the
sub-table that counts as a justification pass (`jPass = pPass = 1`), the class map at 54, two linear classes -/
def silfSummary (r : Except Loader.Fault (Except SilfErr (List SilfTable))) : List (List Nat) :=
  match r with
  | .ok (.ok ts) => ts.map fun t => [t.fixed.numPasses, t.mid.passesStart, t.classAt, t.classes.nClass] ++ t.passes.flatMap fun s => [s.start, s.stop, s.pt]
  | _ => []
example : silfSummary (readSilfTable smallSilf 8 8 false 1) = [[2, 68, 54, 2, 68, 215, 1, 215, 334, 3]] := by decide +kernel
/-- cut short by one byte it is refused: the last pass would end outside the table -/
example : readSilfTable (smallSilf.take 345) 8 8 false 1 = .ok (.error (.pass 1 Gen.Err.E_BADPASSEND)) := by decide +kernel
/-- and a font with fewer glyph attributes than the table names is refused -/
example : readSilfTable smallSilf 8 3 false 1 = .ok (.error (.silf Gen.Err.E_BADABIDI)) := by decide +kernel

/-- a class map with one linear class {5, 9} and one look-up class {3 ↦ 0, 8 ↦ 1} (16-bit offsets) -/
def exMap : List Nat := [0, 2, 0, 1, 0, 10, 0, 14, 0, 30, 0, 5, 0, 9, 0, 2, 0, 2, 0, 1, 0, 0, 0, 3, 0, 0, 0, 8, 0, 1]
example : (match readClassMap exMap false with | .ok (.ok m) => (m.nClass, m.nLinear, m.offsets, getClassGlyph m 0 1, findClassIndex m 1 8, findClassIndex m 1 4) | _ => (0, 0, [], .ok 0, .ok 0, .ok 0)) =
    (2, 1, [0, 2, 10], .ok 9, .ok 1, .ok 0xFFFF) := by decide +kernel

example : (match readPassLayout smallPass 215 false with | .ok (.ok L) => (L.hdr.numRules, L.hdr.numStates, L.arr.numGlyphs, L.codes.endp) | _ => (0, 0, 0, 0)) = (1, 3, 6, 119) := by decide +kernel
/-- cut short, the same pass is refused (the walk would run off the end) -/
example : (match readPassLayout (smallPass.take 100) 215 false with | .ok (.error e) => e | _ => 0) = Gen.Err.E_BADPASSLENGTH := by decide +kernel

example : openFile [0, 1, 0, 0, 0, 1, 0, 0, 0, 0, 0, 0, 0x53, 0x69, 0x6c, 0x66, 0, 0, 0, 0, 0, 0, 0, 28, 0, 0, 0, 2, 7, 9] =
    .ok (some { fileLen := 30, header := [0, 1, 0, 0, 0, 1, 0, 0, 0, 0, 0, 0], dir := [0x53, 0x69, 0x6c, 0x66, 0, 0, 0, 0, 0, 0, 0, 28, 0, 0, 0, 2] }) := by decide
example : readRanges 4 2 [0, 1, 0, 2, 0, 1] 1 = .ok (some [0xFFFF, 1, 1, 0xFFFF]) := by decide

end GrVerif.Props.C01

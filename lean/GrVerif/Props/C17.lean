import GrVerif.Proofs.Collider
/-!
# C17 — collision fixing respects limits and its "resolved" verdict is true

Models: `Model/Zones.lean` (the cost-ordered interval set `Zones`) and `Model/Collider.lean` (`ShiftCollider::initSlot`,
`mergeSlot` with main octabox and sub-octaboxes, `resolve`).  The lemmas are in `Proofs/Zones.lean` and
`Proofs/Collider.lean`; this file states the three sentences of the property.

* **limit** (`shift_stays_inside_limit`): the shift `resolve` computes keeps `offset + shift` inside the limit rectangle.
* **resolved verdict** (`resolved_verdict_is_true`): when `resolve` clears `isCol` after any sequence of `mergeSlot` calls,
  the target's octabox at its shifted position overlaps no merged neighbour within reach of the limit rectangle (main
  octabox; sub-octaboxes cut to it for glyphs that have them).  Its geometric core is `merge_numbers_are_exact`: on each
  of the four movement axes the `vmin/vmax/omin/omax/otmin/otmax` that `mergeSlot` computes describe *exactly* the
  positions along that axis at which the two octaboxes overlap.
* **interval set** (`zones_inv`, `excluded_never_offered`, `closest_mem`): sorted, disjoint, inside its bounds, and an
  excluded position is never offered – for all operation sequences.

Scope of the collider theorems (stated as hypotheses, not hidden): right-to-left runs, or left-to-right runs with an
x-symmetric limit (`Setup.rtl` – the property's own quantifier; for left-to-right runs `initSlot` replaces `_limit.bl.x`
by the mirrored right bound, and on the pinned tree it did so in the wrong frame, which made the verdict false for
non-zero offsets: repaired, see `known_findings.json`), non-negative margins, a target box with ordered bounds, every axis
initialised with a non-empty range (`Room`).  Not modelled: sequence-order regions (`orderFlags`), the
exclusion glyph, `KernCollider`; the diagonal margin `margin / ISQRT2` is a parameter of the model.
-/
set_option linter.unusedVariables false
namespace GrVerif.Props.C17
open GrVerif.Zones GrVerif.Collider

/-- **geometric core**: `mergeSlot`'s numbers for axis `i` are exactly the overlap positions on that axis -/
theorem merge_numbers_are_exact (i : Nat) (hi : i < 4) (t b : Box) (sx sy tx ty : Int) (v : Rat) :
    OverlapQ t b (posOn i tx ty v).1 (posOn i tx ty v).2 sx sy ↔ Hits (axisData i t b sx sy tx ty) v :=
  axis_overlap_iff i hi t b sx sy tx ty v

/-- **C17, resolved verdict.** -/
theorem resolved_verdict_is_true (tbox : Box) (limit : Rect) (margin dmargin mwt shx shy offx offy : Int) (dir : Nat)
    (hs : Setup tbox limit margin dmargin dir) (hroom : Room limit shx shy offx offy) (nbs : List Nbor) (x y : Rat)
    (h : resolve (mergeAll (initSlot tbox limit margin dmargin mwt shx shy offx offy dir) nbs) = (x, y, false))
    (nb : Nbor) (hn : nb ∈ nbs)
    (hr : inReach (initSlot tbox limit margin dmargin mwt shx shy offx offy dir).p nb.1.box nb.2.1 nb.2.2 = true) :
    ¬ ShapeOverlap tbox nb.1 ((offx : Rat) + x) ((offy : Rat) + y) nb.2.1 nb.2.2 :=
  resolved_means_no_overlap tbox limit margin dmargin mwt shx shy offx offy dir hs hroom nbs x y h nb hn hr

/-- **C17, limit.** -/
theorem shift_stays_inside_limit (tbox : Box) (limit : Rect) (margin dmargin mwt shx shy offx offy : Int) (dir : Nat)
    (hroom : Room limit shx shy offx offy) (nbs : List Nbor) (x y : Rat)
    (hcur : limit.blx ≤ offx + shx ∧ offx + shx ≤ limit.trx ∧ limit.bly ≤ offy + shy ∧ offy + shy ≤ limit.try_)
    (h : resolve (mergeAll (initSlot tbox limit margin dmargin mwt shx shy offx offy dir) nbs) = (x, y, false)) :
    (limit.blx : Rat) ≤ offx + x ∧ (offx : Rat) + x ≤ limit.trx ∧ (limit.bly : Rat) ≤ offy + y ∧ (offy : Rat) + y ≤ limit.try_ :=
  resolved_within_limit tbox limit margin dmargin mwt shx shy offx offy dir hroom nbs x y hcur h

/-- every single position `closest` offers on an axis is free of the merged neighbours (the per-axis form) -/
theorem every_offered_position_is_free (i : Nat) (hi : i < 4) (tbox : Box) (limit : Rect) (margin dmargin mwt shx shy offx offy : Int)
    (dir : Nat) (hs : Setup tbox limit margin dmargin dir)
    (hroom : (initRange i limit shx shy offx offy).pos < (initRange i limit shx shy offx offy).posm)
    (nbs : List Nbor) (origin : Int) (cost v : Rat)
    (h : ((mergeAll (initSlot tbox limit margin dmargin mwt shx shy offx offy dir) nbs).range i).closestBest origin = some (cost, v))
    (nb : Nbor) (hn : nb ∈ nbs)
    (hr : inReach (initSlot tbox limit margin dmargin mwt shx shy offx offy dir).p nb.1.box nb.2.1 nb.2.2 = true) :
    ¬ ShapeOverlap tbox nb.1 (posOn i (offx + shx) (offy + shy) v).1 (posOn i (offx + shx) (offy + shy) v).2 nb.2.1 nb.2.2 :=
  offered_position_is_free i hi tbox limit margin dmargin mwt shx shy offx offy dir hs hroom nbs origin cost v h nb hn hr

/-! ### non-vacuity: a target between two neighbours, resolved by moving left -/
def exT : Box := ⟨0, 0, 50, 50, 0, -50, 100, 50⟩
def exN : Glyph := { box := ⟨0, 0, 40, 40, 0, -40, 80, 40⟩ }
def exLimit : Rect := ⟨-100, -100, 100, 100⟩

example : Setup exT exLimit 10 0 1 := ⟨by decide, by decide, by decide, by decide, by decide, by decide, by decide⟩
example : Room exLimit 0 0 0 0 := by
  intro i hi
  match i, hi with
  | 0, _ => decide
  | 1, _ => decide
  | 2, _ => decide
  | 3, _ => decide
/-- the neighbour at (30, 10) overlaps the target at its current place; the fixer moves the target 20 units left and
reports it resolved -/
example : resolve (mergeAll (initSlot exT exLimit 10 0 2 0 0 0 0 1) [(exN, 30, 10)]) = (-20, 0, false) := by decide +kernel
example : inReach (initSlot exT exLimit 10 0 2 0 0 0 0 1).p exN.box 30 10 = true := by decide
example : OverlapQ exT exN.box 0 0 30 10 := by unfold OverlapQ exT exN; refine ⟨?_, ?_, ?_, ?_, ?_, ?_, ?_, ?_⟩ <;> decide +kernel

/-! ### a movement range of no width

`ShiftCollider::initSlot` gives an axis the range `[pos, pos]` whenever the limit rectangle leaves the glyph no room on it (a
horizontal-only limit, the limit `[0,0,0,0]` of real Awami runs, a glyph on a corner of its limit).  The theorems above speak of sets that
started with a range of positive width; for a range of no width the set is the single point, `Zones::remove` could never take it away
(after clamping nothing is left to remove) and `closest` went on offering the excluded point - the glyph was reported resolved where it
stood, inside its neighbour.  With the test `Zones::remove` starts with since fix (see `known_findings.json`), which `Model/Zones.remove`
transcribes: once an exclusion strictly covers the point, nothing is offered any more. -/
theorem zero_width_range_is_emptied (z : Zones) (a b : Int) (origin : Int) (hw : z.pos ≥ z.posm) (ha : a < z.pos) (hb : z.posm < b) :
    (z.remove a b).excl = [] ∧ (z.remove a b).closest origin = (0, -1) := by
  have h : z.remove a b = { z with excl := [] } := by
    unfold Zones.remove
    rw [if_pos hw, if_pos ⟨ha, hb⟩]
  rw [h]
  refine ⟨rfl, ?_⟩
  unfold Zones.closest Zones.closestBest
  simp [scan]

/-- and on the sets the other theorems speak of the new test changes nothing -/
theorem zero_width_test_leaves_wellformed_sets_alone (z : Zones) (a b : Int) (h : ZInv z) : z.remove a b = z.removeCore a b :=
  remove_eq_core z a b h

example : ((initialise false 5 5 0).remove 0 10).closest 5 = (0, -1) := by decide +kernel
example : ((initialise false 5 5 0).removeCore 0 10).closest 5 ≠ (0, -1) := by decide +kernel

end GrVerif.Props.C17

import GrVerif.Model.Cmap
/-!
# C13 — characters map to the glyphs the cmap assigns, by either lookup path

Proved here (partial): for EVERY cmap table and subtable offset that `CheckCmapSubtable4` / `CheckCmapSubtable12` accept,
the lookups never read outside the table, for every code point.  The remaining clauses (lookup = OpenType semantics,
cached = direct) are decided per table by exhaustive comparison over all 0x110000 code points (correspondence), not by a
theorem yet.
-/
set_option linter.unusedSimpArgs false
set_option linter.unusedVariables false
namespace GrVerif.Props.C13
open GrVerif GrVerif.Cmap
open GrVerif.Feat (be16 be32)

theorem be16_ok (t : Buf) (i : Nat) (h : i + 2 ≤ t.size) : ∃ v, be16 t i = .ok v := by
  simp [be16, rd_ok (show i < t.size by omega), rd_ok (show i + 1 < t.size by omega), bind, Except.bind, pure, Except.pure]

theorem be32_ok (t : Buf) (i : Nat) (h : i + 4 ≤ t.size) : ∃ v, be32 t i = .ok v := by
  obtain ⟨a, ha⟩ := be16_ok t i (by omega)
  obtain ⟨b, hb⟩ := be16_ok t (i + 2) (by omega)
  simp [be32, ha, hb, bind, Except.bind, pure, Except.pure]

/-- what a successful `CheckCmapSubtable12` establishes -/
theorem check12_facts (t : Buf) (o : Nat) (h : check12 t (some o) = .ok true) :
    ∃ n, be32 t (o + 12) = .ok n ∧ n ≠ 0 ∧ o + 16 + 12 * n ≤ t.size := by
  unfold check12 at h
  simp only [bind, Except.bind, pure, Except.pure] at h
  by_cases h6 : t.size - o < 6
  · simp [h6] at h
  · simp only [h6, if_false] at h
    obtain ⟨f, hf⟩ := be16_ok t o (by omega)
    simp only [hf] at h
    by_cases hfm : f ≠ 12
    · simp [hfm] at h
    · simp only [hfm, if_false] at h
      by_cases h28 : t.size - o < 28
      · simp [h28] at h
      · simp only [h28, if_false] at h
        obtain ⟨len, hl⟩ := be32_ok t (o + 4) (by omega)
        simp only [hl] at h
        by_cases c1 : len > t.size - o
        · simp [c1] at h
        · simp only [c1, if_false] at h
          by_cases c2 : len < 28
          · simp [c2] at h
          · simp only [c2, if_false] at h
            obtain ⟨n, hn⟩ := be32_ok t (o + 12) (by omega)
            simp only [hn] at h
            by_cases c3 : n > 0x10000000 ∨ n = 0 ∨ len ≠ 16 + n * 12
            · simp [c3] at h
            · refine ⟨n, hn, by omega, by omega⟩

theorem lookup12Loop_ok (t : Buf) (o usv n : Nat) (hsz : o + 16 + 12 * n ≤ t.size) :
    ∀ fuel i, ∃ r, lookup12Loop t o usv n fuel i = .ok r := by
  intro fuel
  induction fuel with
  | zero => intro i; exact ⟨0, rfl⟩
  | succ fuel ih =>
    intro i
    unfold lookup12Loop
    by_cases hi : i ≥ n
    · simp [hi]
    · simp only [hi, if_false, bind, Except.bind, pure, Except.pure]
      obtain ⟨s, hs⟩ := be32_ok t (o + 16 + 12 * i) (by omega)
      obtain ⟨e, he⟩ := be32_ok t (o + 20 + 12 * i) (by omega)
      obtain ⟨g, hg⟩ := be32_ok t (o + 24 + 12 * i) (by omega)
      simp only [hs, he]
      by_cases c : usv ≥ s ∧ usv ≤ e
      · simp [c, hg]
      · simp only [c, if_false]; exact ih (i + 1)

/-- **lookup12_in_bounds**: on any subtable `CheckCmapSubtable12` accepts, `CmapSubtable12Lookup` never reads outside the
cmap table, for every code point and every range key. -/
theorem lookup12_in_bounds (t : Buf) (o : Nat) (h : check12 t (some o) = .ok true) (usv key : Nat) :
    ∃ g, lookup12 t o usv key = .ok g := by
  obtain ⟨n, hn, _, hsz⟩ := check12_facts t o h
  unfold lookup12
  simp only [hn, bind, Except.bind]
  exact lookup12Loop_ok t o usv n hsz _ _

/-- what a successful `CheckCmapSubtable4` establishes -/
theorem check4_facts (t : Buf) (o : Nat) (h : check4 t (some o) = .ok true) :
    ∃ x len, be16 t (o + 6) = .ok x ∧ be16 t (o + 2) = .ok len ∧ x / 2 ≠ 0 ∧ 16 + 8 * (x / 2) ≤ len ∧ o + len ≤ t.size := by
  unfold check4 at h
  simp only [bind, Except.bind, pure, Except.pure] at h
  by_cases h6 : t.size - o < 6
  · simp [h6] at h
  · simp only [h6, if_false] at h
    obtain ⟨f, hf⟩ := be16_ok t o (by omega)
    simp only [hf] at h
    by_cases hfm : f ≠ 4
    · simp [hfm] at h
    · simp only [hfm, if_false] at h
      by_cases h16 : t.size - o < 16
      · simp [h16] at h
      · simp only [h16, if_false] at h
        obtain ⟨len, hl⟩ := be16_ok t (o + 2) (by omega)
        simp only [hl] at h
        by_cases c1 : len > t.size - o
        · simp [c1] at h
        · simp only [c1, if_false] at h
          by_cases c2 : len < 16
          · simp [c2] at h
          · simp only [c2, if_false] at h
            obtain ⟨x, hx⟩ := be16_ok t (o + 6) (by omega)
            simp only [hx] at h
            by_cases c3 : x / 2 = 0 ∨ len < 16 + 8 * (x / 2)
            · have c3' : x < 2 ∨ len < 16 + 8 * (x / 2) := by omega
              simp [c3'] at h
            · exact ⟨x, len, hx, hl, by omega, by omega, by omega⟩

theorem search4_ok (t : Buf) (o usv nSeg : Nat) (hsz : o + 14 + 2 * nSeg ≤ t.size) :
    ∀ fuel left n, left + n ≤ nSeg →
      ∃ r, search4 t o usv fuel left n = .ok r ∧ ∀ m, r = some m → m < nSeg := by
  intro fuel
  induction fuel with
  | zero => intro left n _; exact ⟨none, rfl, by simp⟩
  | succ fuel ih =>
    intro left n hle
    unfold search4
    by_cases hn : n = 0
    · simp [hn]
    · simp only [hn, if_false, bind, Except.bind, pure, Except.pure]
      have hmid : left + n / 2 < nSeg := by omega
      obtain ⟨ce, hce⟩ := be16_ok t (o + 14 + 2 * (left + n / 2)) (by omega)
      simp only [hce]
      by_cases c1 : usv ≤ ce
      · simp only [c1, if_true]
        by_cases c2 : n / 2 = 0
        · simp only [c2, if_true]
          exact ⟨_, rfl, by intro m hm; simp at hm; omega⟩
        · simp only [c2, if_false]
          obtain ⟨pv, hpv⟩ := be16_ok t (o + 14 + 2 * (left + n / 2 - 1)) (by omega)
          simp only [hpv]
          by_cases c3 : usv > pv
          · simp only [c3, if_true]
            exact ⟨_, rfl, by intro m hm; simp at hm; omega⟩
          · simp only [c3, if_false]
            exact ih left (n / 2) (by omega)
      · simp only [c1, if_false]
        exact ih (left + n / 2 + 1) (n - (n / 2 + 1)) (by omega)

theorem seg4_ok (t : Buf) (o nSeg usv mid len : Nat) (hm : mid < nSeg) (hlen : be16 t (o + 2) = .ok len)
    (hl : 16 + 8 * nSeg ≤ len) (hsz : o + len ≤ t.size) : ∃ g, seg4 t o nSeg usv mid = .ok g := by
  unfold seg4
  simp only [bind, Except.bind, pure, Except.pure]
  obtain ⟨ce, hce⟩ := be16_ok t (o + 14 + 2 * mid) (by omega)
  obtain ⟨cs, hcs⟩ := be16_ok t (o + 14 + 2 * (mid + nSeg + 1)) (by omega)
  simp only [hce, hcs]
  by_cases c : ce ≥ usv ∧ usv ≥ cs
  · simp only [c, and_self, if_true]
    obtain ⟨dl, hdl⟩ := be16_ok t (o + 14 + 2 * (mid + nSeg + 1 + nSeg)) (by omega)
    obtain ⟨ro, hro⟩ := be16_ok t (o + 14 + 2 * (mid + nSeg + 1 + nSeg + nSeg)) (by omega)
    simp only [hdl, hro]
    by_cases c0 : ro = 0
    · simp [c0]
    · simp only [c0, if_false, hlen]
      by_cases cb : (usv - cs + ro / 2 + (7 + (mid + nSeg + 1 + nSeg + nSeg))) * 2 + 1 ≥ len
      · simp [cb]
      · simp only [cb, if_false]
        obtain ⟨g, hg⟩ := be16_ok t (o + 2 * (usv - cs + ro / 2 + (7 + (mid + nSeg + 1 + nSeg + nSeg)))) (by omega)
        simp only [hg]
        exact ⟨_, rfl⟩
  · simp [c]

/-- **lookup4_in_bounds**: on any subtable `CheckCmapSubtable4` accepts, `CmapSubtable4Lookup` (binary search, segment
arrays, `idRangeOffset` indirection into the glyph array) never reads outside the cmap table, for every code point;
with a range key, for every key that names a segment. -/
theorem lookup4_in_bounds (t : Buf) (o : Nat) (h : check4 t (some o) = .ok true) (usv key : Nat)
    (hkey : ∀ x, be16 t (o + 6) = .ok x → key < x / 2) :
    ∃ g, lookup4 t o usv key = .ok g := by
  obtain ⟨x, len, hx, hlen, hn0, hl, hsz⟩ := check4_facts t o h
  have hk := hkey x hx
  unfold lookup4
  simp only [hx, bind, Except.bind, pure, Except.pure]
  have hmid : ∃ r, pick4 t o (x / 2) usv key = .ok r ∧ ∀ m, r = some m → m < x / 2 := by
    unfold pick4
    by_cases hk0 : key ≠ 0
    · rw [if_pos hk0]; exact ⟨_, rfl, by intro m hm; simp at hm; omega⟩
    · rw [if_neg hk0]; exact search4_ok t o usv (x / 2) (by omega) _ 0 (x / 2) (by omega)
  obtain ⟨r, hr, hrlt⟩ := hmid
  simp only [hr]
  cases r with
  | none => exact ⟨0, rfl⟩
  | some mid => exact seg4_ok t o (x / 2) usv mid len (hrlt mid rfl) hlen hl hsz

/-- in particular the direct lookup (no range key) is safe for every code point -/
theorem direct_lookup4_in_bounds (t : Buf) (o : Nat) (h : check4 t (some o) = .ok true) (usv : Nat) :
    ∃ g, lookup4 t o usv 0 = .ok g := by
  obtain ⟨x, len, hx, hlen, hn0, hl, hsz⟩ := check4_facts t o h
  exact lookup4_in_bounds t o h usv 0 (by intro y hy; rw [hx] at hy; cases hy; omega)

end GrVerif.Props.C13

import GrVerif.Proofs.UtfPut
/-!
# C12 — `gr_make_seg` consumes no more text than its contract allows

`readText enc nChars mem off acc` models `process_utf_data` (`src/Segment.cpp`) after the repair of D-1:
`mem` is all the memory the caller owns from `pStart` on; reading past it is a `Fault`.
-/
set_option linter.unusedVariables false
namespace GrVerif.Props.C12
open GrVerif GrVerif.Utf GrVerif.Spec.Utf

/-- **readText_stops_at_nul.**  If the caller's memory contains a NUL unit, then for *every* `nChars` – however
over-estimated – the text consumption never faults (it reads nothing after the first NUL character: the memory may end
right there) and produces exactly the char-infos the specification `Reads` allows: one per character actually consumed,
ending at the NUL or when `nChars` characters were read. -/
theorem readText_stops_at_nul (enc : Enc) (nChars : Nat) (mem : Mem) (hu : UnitsOK enc mem) (hz : 0 ∈ mem) :
    ∃ cs, readText enc nChars mem 0 [] = .ok cs ∧ Reads enc nChars mem 0 cs := by
  obtain ⟨cs, h1, h2⟩ := readText_reads enc nChars mem 0 [] hu hz
  exact ⟨cs, by simpa using h1, h2⟩

/-- the special case the property names: the buffer is allocated exactly to the terminator -/
theorem readText_exact_buffer (enc : Enc) (nChars : Nat) (pre : Mem) (hu : UnitsOK enc (pre ++ [0])) :
    ∃ cs, readText enc nChars (pre ++ [0]) 0 [] = .ok cs ∧ Reads enc nChars (pre ++ [0]) 0 cs :=
  readText_stops_at_nul enc nChars _ hu (by simp)

/-- one char-info per consumed character, never more than `nChars` -/
theorem cinfo_count_le (enc : Enc) (nChars : Nat) (mem : Mem) (cs : List (Nat × Nat)) (h : Reads enc nChars mem 0 cs) :
    cs.length ≤ nChars := h.length_le

/-- `gr_cinfo_base` values are strictly increasing code-unit offsets starting at 0 (also quoted by C05) -/
theorem cinfo_bases_increasing (enc : Enc) (nChars : Nat) (mem : Mem) (cs : List (Nat × Nat)) (h : Reads enc nChars mem 0 cs) :
    (cs.map Prod.snd).Pairwise (· < ·) ∧ ∀ p ∈ cs.head?, p.2 = 0 := ⟨h.bases.2.1, h.bases.2.2⟩

/-- the result does not depend on `nChars` once it is large enough: if fewer than `nChars` characters were produced the
text ended at a NUL, and every larger `nChars` gives the same char-infos (so an over-estimate is harmless) -/
theorem Reads.stable {enc : Enc} {n : Nat} {mem : Mem} {off : Nat} {cs : List (Nat × Nat)} (h : Reads enc n mem off cs)
    (hlt : cs.length < n) : ∀ m, cs.length < m → Reads enc m mem off cs := by
  induction h with
  | budget => simp at hlt
  | nul n mem off k hd =>
    intro m hm
    obtain ⟨m', rfl⟩ : ∃ m', m = m' + 1 := ⟨m - 1, by omega⟩
    exact .nul _ _ _ _ hd
  | good n mem off u k cs hd hu hk hr ih =>
    intro m hm
    simp only [List.length_cons] at hlt hm
    obtain ⟨m', rfl⟩ : ∃ m', m = m' + 1 := ⟨m - 1, by omega⟩
    exact .good _ _ _ _ _ _ hd hu hk (ih (by omega) m' (by omega))
  | bad n mem off k cs hd hk1 hk2 htr hr ih =>
    intro m hm
    simp only [List.length_cons] at hlt hm
    obtain ⟨m', rfl⟩ : ∃ m', m = m' + 1 := ⟨m - 1, by omega⟩
    exact .bad _ _ _ _ _ hd hk1 hk2 htr (ih (by omega) m' (by omega))

/-! ### non-vacuity: "abc\0" with nChars = 10 -/
example : ∃ cs, readText .utf8 10 [0x61, 0x62, 0x63, 0] 0 [] = .ok cs ∧ cs = [(0x61, 0), (0x62, 1), (0x63, 2)] := by
  exact ⟨_, by decide, rfl⟩

end GrVerif.Props.C12

import GrVerif.Model.Tag
import GrVerif.Proofs.Bits
/-!
# C20 — tag/string conversions honour their documented buffer contracts
-/
namespace GrVerif.Props.C20
open GrVerif GrVerif.Tag

/-- big-endian tag of (up to) four bytes, zero padded -/
def beTag (l : List Nat) : Nat :=
  l.getD 0 0 * 2^24 + l.getD 1 0 * 2^16 + l.getD 2 0 * 2^8 + l.getD 3 0

/-- `c` is a C string held in an exact-size buffer: its last cell is the first NUL -/
structure ExactCStr (c : Buf) (z : Nat) : Prop where
  size : c.size = z + 1
  nul : c[z]'(by omega) = 0
  nonzero : ∀ i (h : i < z), c[i]'(by omega) ≠ 0
  bytes : IsBytes c

theorem strlenGo_exact {c : Buf} {z : Nat} (h : ExactCStr c z) (i : Nat) (hi : i ≤ z) :
    strlenGo c i = .ok z := by
  induction hk : z - i generalizing i with
  | zero =>
    have : i = z := by omega
    subst this
    unfold strlenGo
    have := h.size
    simp [show i < c.size by omega, h.nul]
  | succ k ih =>
    unfold strlenGo
    have hs := h.size
    have hiz : i < z := by omega
    simp [show i < c.size by omega, h.nonzero i hiz]
    exact ih (i+1) (by omega) (by omega)

/-- **strToTag_reads + strToTag_value.**  On a buffer that ends at the terminating NUL the model of
`gr_str_to_tag` never faults (reads no byte after the NUL) and returns the big-endian tag of the first
`min 4 length` characters padded with zero bytes, for all byte values. -/
theorem strToTag_exact (c : Buf) (z : Nat) (h : ExactCStr c z) :
    strToTag c = .ok (beTag ((c.toList.take z).take 4)) := by
  have hs := h.size
  have hb := h.bytes
  have hlen : strlen c = .ok z := strlenGo_exact h 0 (by omega)
  unfold strToTag
  simp only [hlen, bind, Except.bind, pure, Except.pure]
  have b0 : ∀ i (hi : i < c.size), c[i] < 256 := hb
  rcases Nat.lt_or_ge z 1 with hz | hz
  · -- empty string
    have : z = 0 := by omega
    subst this
    simp [beTag]
  rcases Nat.lt_or_ge z 2 with hz2 | hz2
  · have : z = 1 := by omega
    subst this
    have r0 : rd c 0 = .ok c[0] := rd_ok (by omega)
    have e0 : c[0]? = some c[0] := Array.getElem?_eq_getElem (by omega)
    simp [r0, e0, beTag, List.getD_eq_getElem?_getD, List.getElem?_take, Nat.shiftLeft_eq]
  rcases Nat.lt_or_ge z 3 with hz3 | hz3
  · have : z = 2 := by omega
    subst this
    have r0 : rd c 0 = .ok c[0] := rd_ok (by omega)
    have e0 : c[0]? = some c[0] := Array.getElem?_eq_getElem (by omega)
    have r1 : rd c 1 = .ok c[1] := rd_ok (by omega)
    have e1 : c[1]? = some c[1] := Array.getElem?_eq_getElem (by omega)
    have := b0 1 (by omega)
    simp [r0, r1, e0, e1, beTag, List.getD_eq_getElem?_getD, List.getElem?_take]
    rw [Bits.or_shl _ _ 24 (by simp [Nat.shiftLeft_eq]; omega), Nat.shiftLeft_eq]
  rcases Nat.lt_or_ge z 4 with hz4 | hz4
  · have : z = 3 := by omega
    subst this
    have r0 : rd c 0 = .ok c[0] := rd_ok (by omega)
    have e0 : c[0]? = some c[0] := Array.getElem?_eq_getElem (by omega)
    have r1 : rd c 1 = .ok c[1] := rd_ok (by omega)
    have e1 : c[1]? = some c[1] := Array.getElem?_eq_getElem (by omega)
    have r2 : rd c 2 = .ok c[2] := rd_ok (by omega)
    have e2 : c[2]? = some c[2] := Array.getElem?_eq_getElem (by omega)
    have := b0 1 (by omega)
    have := b0 2 (by omega)
    simp [r0, r1, r2, e0, e1, e2, beTag, List.getD_eq_getElem?_getD, List.getElem?_take]
    rw [Bits.or_shl _ _ 16 (by simp [Nat.shiftLeft_eq]; omega), Bits.or_shl _ _ 24 (by simp [Nat.shiftLeft_eq]; omega), Nat.shiftLeft_eq]
    omega
  · have r0 : rd c 0 = .ok c[0] := rd_ok (by omega)
    have e0 : c[0]? = some c[0] := Array.getElem?_eq_getElem (by omega)
    have r1 : rd c 1 = .ok c[1] := rd_ok (by omega)
    have e1 : c[1]? = some c[1] := Array.getElem?_eq_getElem (by omega)
    have r2 : rd c 2 = .ok c[2] := rd_ok (by omega)
    have e2 : c[2]? = some c[2] := Array.getElem?_eq_getElem (by omega)
    have r3 : rd c 3 = .ok c[3] := rd_ok (by omega)
    have e3 : c[3]? = some c[3] := Array.getElem?_eq_getElem (by omega)
    have := b0 1 (by omega)
    have := b0 2 (by omega)
    have := b0 3 (by omega)
    have hm : min z 4 = 4 := by omega
    simp [hm, r0, r1, r2, r3, e0, e1, e2, e3, beTag, List.getD_eq_getElem?_getD, List.getElem?_take,
      show 0 < z by omega, show 1 < z by omega, show 2 < z by omega, show 3 < z by omega]
    rw [Bits.or_shl _ _ 8 (by omega), Bits.or_shl _ _ 16 (by omega), Bits.or_shl _ _ 24 (by omega)]
    omega

/-- non-vacuity: "ab" in a three-byte buffer is an exact C string and converts to 'ab\0\0' -/
example : ExactCStr #[0x61, 0x62, 0] 2 :=
  ⟨rfl, rfl, by intro i h; match i, h with | 0, _ => simp | 1, _ => simp, by
    intro i h; match i, h with | 0, _ => simp | 1, _ => simp | 2, _ => simp⟩
example : strToTag #[0x61, 0x62, 0] = .ok 0x61620000 := by
  rw [strToTag_exact _ 2 ⟨rfl, rfl, by intro i h; match i, h with | 0, _ => simp | 1, _ => simp, by
    intro i h; match i, h with | 0, _ => simp | 1, _ => simp | 2, _ => simp⟩]; rfl

/-! ### gr_tag_to_str -/

def tagBytes (t : Nat) : List Nat := [(t >>> 24) % 256, (t >>> 16) % 256, (t >>> 8) % 256, t % 256]

/-- **tagToStr_writes.** `gr_tag_to_str` stores exactly cells 0..3: on any buffer of at least four cells
it succeeds, the first four cells become the tag bytes and every later cell is untouched; in particular
it never faults on a four-byte buffer. -/
theorem tagToStr_writes (t : Nat) (buf : Buf) (h : 4 ≤ buf.size) :
    ∃ out, tagToStr t buf = .ok out ∧ out.size = buf.size ∧ out.toList.take 4 = tagBytes t ∧
      ∀ i, 4 ≤ i → out[i]? = buf[i]? := by
  unfold tagToStr tagToStrWrites
  simp only [applyWrites, Array.size_setIfInBounds, Array.set!_eq_setIfInBounds]
  have h0 : 0 < buf.size := by omega
  have h1 : 1 < buf.size := by omega
  have h2 : 2 < buf.size := by omega
  have h3 : 3 < buf.size := by omega
  simp only [h0, h1, h2, h3, if_true]
  refine ⟨_, rfl, by simp, ?_, ?_⟩
  · apply List.ext_getElem?
    intro i
    simp only [List.getElem?_take, Array.getElem?_toList, tagBytes]
    match i with
    | 0 => simp [Array.getElem?_setIfInBounds, h0]
    | 1 => simp [Array.getElem?_setIfInBounds, h1]
    | 2 => simp [Array.getElem?_setIfInBounds, h2]
    | 3 => simp [Array.getElem?_setIfInBounds, h3]
    | n+4 => simp; omega
  · intro i hi
    simp only [Array.getElem?_setIfInBounds]
    have : ¬ 0 = i := by omega
    have : ¬ 1 = i := by omega
    have : ¬ 2 = i := by omega
    have : ¬ 3 = i := by omega
    simp [*]

theorem tagToStr_exact4 (t : Nat) (buf : Buf) (h : buf.size = 4) :
    tagToStr t buf = .ok (tagBytes t).toArray := by
  obtain ⟨out, ho, hsz, htk, _⟩ := tagToStr_writes t buf (by omega)
  rw [ho]; congr 1
  apply Array.ext'
  rw [← htk, List.take_of_length_le]; simp [hsz, h]

private theorem be_of_bytes (t : Nat) (ht : t < 2^32) :
    (t >>> 24) % 256 * 2^24 + (t >>> 16) % 256 * 2^16 + (t >>> 8) % 256 * 2^8 + t % 256 = t := by
  simp only [Nat.shiftRight_eq_div_pow]; omega

/-- **tag_roundtrip.** On four-character tags (no zero byte) the two conversions are inverse. -/
theorem tag_roundtrip (t : Nat) (ht : t < 2^32) (hnz : ∀ x ∈ tagBytes t, x ≠ 0) (buf : Buf) (h : buf.size = 4) :
    ∃ out, tagToStr t buf = .ok out ∧ strToTag (out.push 0) = .ok t := by
  refine ⟨_, tagToStr_exact4 t buf h, ?_⟩
  have hx : ExactCStr ((tagBytes t).toArray.push 0) 4 := by
    refine ⟨by simp [tagBytes], by simp [tagBytes], ?_, ?_⟩
    · intro i hi
      have : (tagBytes t)[i]'(by simp [tagBytes]; omega) ∈ tagBytes t := List.getElem_mem _
      have := hnz _ this
      have hi' : i < (tagBytes t).toArray.size := by simp [tagBytes]; omega
      rw [Array.getElem_push_lt hi']
      simpa using this
    · intro i hi
      simp [tagBytes] at hi
      match i, hi with
      | 0, _ => simp [tagBytes]; omega
      | 1, _ => simp [tagBytes]; omega
      | 2, _ => simp [tagBytes]; omega
      | 3, _ => simp [tagBytes]; omega
      | 4, _ => simp [tagBytes]
  rw [strToTag_exact _ 4 hx]
  congr 1
  have := be_of_bytes t ht
  simpa [beTag, tagBytes] using this

example : ∀ x ∈ tagBytes 0x6C61746E, x ≠ 0 := by decide   -- 'latn' satisfies the hypotheses

/-! ### padding -/

/-- spec: trailing space bytes of a four-byte tag become zero bytes -/
def zeroTrailingSpaces (l : List Nat) : List Nat :=
  (l.reverse.takeWhile (· = 0x20)).map (fun _ => 0) |>.reverse |> fun z => l.take (l.length - z.length) ++ z

/-- the two source copies of the padding chain are the same function -/
theorem pad_copies_agree : Gen.zeropadChain = Gen.scriptStripChain := by decide

theorem scriptStrip_eq_zeropad (x : Nat) : scriptStrip x = zeropad x := by
  unfold scriptStrip zeropad; rw [pad_copies_agree]

private theorem m24 (x : Nat) : x &&& 0x00FFFFFF = x % 2^24 := Bits.and_low x 24
private theorem m16 (x : Nat) : x &&& 0x0000FFFF = x % 2^16 := Bits.and_low x 16
private theorem m8 (x : Nat) : x &&& 0x000000FF = x % 2^8 := Bits.and_low x 8
private theorem m32 (x : Nat) : x &&& 0xFFFFFFFF = x % 2^32 := Bits.and_low x 32
private theorem k24 (x : Nat) (h : x < 2^32) : x &&& 0xFF000000 = x - x % 2^24 := Bits.and_high x 24 32 h (by omega)
private theorem k16 (x : Nat) (h : x < 2^32) : x &&& 0xFFFF0000 = x - x % 2^16 := Bits.and_high x 16 32 h (by omega)
private theorem k8 (x : Nat) (h : x < 2^32) : x &&& 0xFFFFFF00 = x - x % 2^8 := Bits.and_high x 8 32 h (by omega)

/-- **pad_equiv.** `zeropad` (as extracted from the source) maps a tag with `k` trailing spaces to the same
tag with `k` trailing zero bytes, for every four-byte tag. -/
theorem zeropad_spec (b0 b1 b2 b3 : Nat) (h0 : b0 < 256) (h1 : b1 < 256) (h2 : b2 < 256) (h3 : b3 < 256) :
    zeropad (beTag [b0, b1, b2, b3]) = beTag (zeroTrailingSpaces [b0, b1, b2, b3]) := by
  have hv : beTag [b0, b1, b2, b3] = b0 * 16777216 + b1 * 65536 + b2 * 256 + b3 := by simp [beTag]
  have hx : beTag [b0, b1, b2, b3] < 2^32 := by rw [hv]; omega
  have lhs : zeropad (beTag [b0, b1, b2, b3]) =
      if b0 = 32 ∧ b1 = 32 ∧ b2 = 32 ∧ b3 = 32 then 0
      else if b1 = 32 ∧ b2 = 32 ∧ b3 = 32 then b0 * 16777216
      else if b2 = 32 ∧ b3 = 32 then b0 * 16777216 + b1 * 65536
      else if b3 = 32 then b0 * 16777216 + b1 * 65536 + b2 * 256
      else b0 * 16777216 + b1 * 65536 + b2 * 256 + b3 := by
    unfold zeropad Gen.zeropadChain
    simp only [applyChain, m24, m16, m8, m32, k24 _ hx, k16 _ hx, k8 _ hx, Nat.and_zero]
    rw [hv]
    repeat' split
    all_goals omega
  rw [lhs]
  by_cases e3 : b3 = 0x20
  · by_cases e2 : b2 = 0x20
    · by_cases e1 : b1 = 0x20
      · by_cases e0 : b0 = 0x20
        · subst e0 e1 e2 e3; decide
        · subst e1 e2 e3
          simp [beTag, zeroTrailingSpaces, e0, List.takeWhile]
      · subst e2 e3
        simp [beTag, zeroTrailingSpaces, e1, List.takeWhile]
    · subst e3
      simp [beTag, zeroTrailingSpaces, e2, List.takeWhile]
  · simp [beTag, zeroTrailingSpaces, e3, List.takeWhile]

/-- space-padded and zero-padded spellings of a tag are identified, and `zeropad` is idempotent -/
theorem zeropad_idem (b0 b1 b2 b3 : Nat) (h0 : b0 < 256) (h1 : b1 < 256) (h2 : b2 < 256) (h3 : b3 < 256) :
    zeropad (zeropad (beTag [b0, b1, b2, b3])) = zeropad (beTag [b0, b1, b2, b3]) := by
  rw [zeropad_spec b0 b1 b2 b3 h0 h1 h2 h3]
  by_cases e3 : b3 = 0x20
  · by_cases e2 : b2 = 0x20
    · by_cases e1 : b1 = 0x20
      · by_cases e0 : b0 = 0x20
        · subst e0 e1 e2 e3; decide
        · subst e1 e2 e3
          have := zeropad_spec b0 0 0 0 h0 (by omega) (by omega) (by omega)
          simpa [zeroTrailingSpaces, e0, List.takeWhile] using this
      · subst e2 e3
        have := zeropad_spec b0 b1 0 0 h0 h1 (by omega) (by omega)
        simpa [zeroTrailingSpaces, e1, List.takeWhile] using this
    · subst e3
      have := zeropad_spec b0 b1 b2 0 h0 h1 h2 (by omega)
      simpa [zeroTrailingSpaces, e2, List.takeWhile] using this
  · have := zeropad_spec b0 b1 b2 b3 h0 h1 h2 h3
    simpa [zeroTrailingSpaces, e3, List.takeWhile] using this

example : zeropad 0x6B6E2020 = 0x6B6E0000 := by decide     -- 'kn  ' ↦ 'kn\0\0'

end GrVerif.Props.C20

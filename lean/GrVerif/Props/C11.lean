import GrVerif.Proofs.UtfPut
/-!
# C11 — UTF-8/16/32 text is decoded exactly and never read past its end

Model: `GrVerif.Utf` (`Model/Utf.lean`, tables regenerated in `Gen.Utf`).  Specification: `Spec/Utf.lean`
(Unicode Table 3-7, D91, D90).  `countBounded enc text` models
`gr_count_unicode_characters(enc, begin, end, &err)` where `text` is exactly `[begin,end)`;
a read outside `text` is a `Fault`.
-/
set_option linter.unusedSimpArgs false
set_option linter.unusedVariables false
namespace GrVerif.Props.C11
open GrVerif GrVerif.Utf GrVerif.Spec.Utf

def truncatedTail : Enc → Mem → Bool
  | .utf8 => truncatedTail8 | .utf16 => truncatedTail16 | .utf32 => fun _ => false

/-- what the specification says about `text`: characters before the first NUL / ill-formed sequence, offset, reason -/
def specScan (enc : Enc) (text : Mem) : Nat × Nat × Stop := scan (dec enc) (text.length + 1) text 0 0

local macro "ann_omega" : tactic => `(tactic| first | omega | (split <;> first | omega | (split <;> omega)))

theorem validate8_eq (text : Mem) (hu : UnitsOK .utf8 text) : validate8 text = !truncatedTail8 text := by
  unfold validate8 truncatedTail8
  have hr : ∀ x ∈ text.reverse, x < 256 := fun x hx => hu x (List.mem_reverse.mp hx)
  generalize text.reverse = rv at hr
  match rv, hr with
  | [], _ => rfl
  | [x], hr =>
    have := hr x (by simp)
    by_cases a : x < 128 <;> by_cases b : x ≥ 192 <;> simp [a, b, isCont, inR] <;> omega
  | [x, y], hr =>
    have := hr x (by simp); have := hr y (by simp)
    by_cases a : x < 128 <;> by_cases b : x ≥ 192 <;> by_cases c : y < 128 <;> by_cases d : y ≥ 224 <;> by_cases e : y ≥ 192 <;>
      simp [a, b, c, d, e, isCont, inR, announced] <;> ann_omega
  | x :: y :: z :: _, hr =>
    have := hr x (by simp); have := hr y (by simp); have := hr z (by simp)
    by_cases a : x < 128 <;> by_cases b : x ≥ 192 <;> by_cases c : y < 128 <;> by_cases d : y ≥ 224 <;> by_cases e : y ≥ 192 <;>
      by_cases f : z < 128 <;> by_cases g : z ≥ 240 <;> by_cases h : z ≥ 192 <;>
      simp [a, b, c, d, e, f, g, h, isCont, inR, announced] <;> ann_omega

theorem validate_eq (enc : Enc) (text : Mem) (hu : UnitsOK enc text) : validate enc text = !truncatedTail enc text := by
  cases enc
  · exact validate8_eq text hu
  · simp only [validate, validate16, truncatedTail, truncatedTail16]
    cases text.getLast? with
    | none => rfl
    | some u => simp [inR]; by_cases a : u < 55296 <;> by_cases b : 56319 < u <;> simp [a, b] <;> omega
  · rfl

/-- **count_spec** — the refinement theorem all clauses follow from: for every text in every encoding the bounded
call never faults and returns exactly what the specification's scan says, or `(0, last-1)` when the buffer ends in a
truncated multi-unit sequence. -/
theorem count_spec (enc : Enc) (text : Mem) (hu : UnitsOK enc text) :
    countBounded enc text = .ok (
      if truncatedTail enc text then (0, some (text.length - 1))
      else ((specScan enc text).1, if (specScan enc text).2.2 = .illFormed then some (specScan enc text).2.1 else none)) := by
  unfold countBounded
  rw [validate_eq enc text hu]
  by_cases ht : truncatedTail enc text = true
  · simp [ht]
  · have hv : validate enc text = true := by rw [validate_eq enc text hu]; simp [ht]
    simp only [ht, Bool.not_false, not_true_eq_false, if_false, Bool.false_eq_true]
    rw [countLoop_eq_scan enc text hu (fun pre mem hs hne => validate_no_fault enc text pre mem hu hv hs hne)
      (text.length + 1) text [] 0 0 rfl (by omega)]
    simp only [scanOut, specScan]
    by_cases hi : (scan (dec enc) (text.length + 1) text 0 0).2.2 = .illFormed <;> simp [hi]

/-- **count_no_fault**: `gr_count_unicode_characters` never reads outside `[buffer_begin, buffer_end)`. -/
theorem count_no_fault (enc : Enc) (text : Mem) (hu : UnitsOK enc text) : ∃ r, countBounded enc text = .ok r :=
  ⟨_, count_spec enc text hu⟩

/-- **count_exact**: text before the first NUL well-formed and no truncated tail ⇒ exact count, no error. -/
theorem count_exact (enc : Enc) (text : Mem) (hu : UnitsOK enc text) (ht : truncatedTail enc text = false)
    (hwf : (specScan enc text).2.2 ≠ .illFormed) :
    countBounded enc text = .ok ((specScan enc text).1, none) := by
  rw [count_spec enc text hu]; simp [ht, hwf]

/-- **count_reports_illformed**: ill-formed text ⇒ an error is reported. -/
theorem count_reports_illformed (enc : Enc) (text : Mem) (hu : UnitsOK enc text)
    (hill : (specScan enc text).2.2 = .illFormed) :
    ∃ n p, countBounded enc text = .ok (n, some p) := by
  rw [count_spec enc text hu]
  by_cases ht : truncatedTail enc text = true
  · exact ⟨0, text.length - 1, by simp [ht]⟩
  · exact ⟨(specScan enc text).1, (specScan enc text).2.1, by simp [ht, hill]⟩

theorem truncatedTail_ne_nil (enc : Enc) (text : Mem) (h : truncatedTail enc text = true) : text ≠ [] := by
  intro e; subst e; cases enc <;> simp [truncatedTail, truncatedTail8, truncatedTail16] at h

/-- **err_inside_and_count_le**: a reported error points inside the buffer and the count does not exceed the number
of well-formed characters before the first ill-formed sequence. -/
theorem err_inside_and_count_le (enc : Enc) (text : Mem) (hu : UnitsOK enc text) (n p : Nat)
    (h : countBounded enc text = .ok (n, some p)) :
    p < text.length ∧ n ≤ (specScan enc text).1 := by
  by_cases ht : truncatedTail enc text = true
  · rw [count_spec enc text hu] at h
    simp [ht] at h
    have hne := truncatedTail_ne_nil enc text ht
    have : 0 < text.length := by
      cases text with
      | nil => exact absurd rfl hne
      | cons a t => simp
    omega
  · have hv : validate enc text = true := by rw [validate_eq enc text hu]; simp [ht]
    have hspec := count_spec enc text hu
    simp only [ht, if_false, Bool.false_eq_true] at hspec
    rw [hspec] at h
    simp only [Except.ok.injEq, Prod.mk.injEq] at h
    obtain ⟨hn, hp⟩ := h
    refine ⟨?_, by omega⟩
    -- the offset reported by the loop is inside the text
    have hl := countLoop_eq_scan enc text hu (fun pre mem hs hne => validate_no_fault enc text pre mem hu hv hs hne)
      (text.length + 1) text [] 0 0 rfl (by omega)
    have hoff := countLoop_off enc text hu (text.length + 1) text [] 0 0 _ rfl hl
    by_cases hill : (specScan enc text).2.2 = .illFormed
    · simp only [hill, if_true, Option.some.injEq] at hp
      have := hoff.2.1 (by simp [scanOut]; exact hill)
      simp [scanOut] at this
      unfold specScan at hp
      omega
    · simp [hill] at hp

/-- **nul_terminated_no_overread**: with `buffer_end = NULL`, on any memory that contains a NUL unit the call never
faults (so in particular not when the caller's memory ends at the terminator) and returns the specification's scan. -/
theorem countNul_spec (enc : Enc) (mem : Mem) (hu : UnitsOK enc mem) (hz : 0 ∈ mem) :
    countNul enc mem = .ok ((specScan enc mem).1, if (specScan enc mem).2.2 = .illFormed then some (specScan enc mem).2.1 else none) := by
  unfold countNul
  rw [countNulLoop_eq_scan enc (mem.length + 1) mem 0 0 hu hz (by omega)]
  simp only [scanOut, specScan]
  by_cases hi : (scan (dec enc) (mem.length + 1) mem 0 0).2.2 = .illFormed <;> simp [hi]

/-- **get_put**: the codecs are inverse on every Unicode scalar value. -/
theorem get_put (enc : Enc) (u : Nat) (hs : isScalar u) (r : Mem) :
    get enc (put enc u ++ r) = .ok (u, ((put enc u).length : Int)) := Utf.get_put enc u hs r

/-- **get_exact**: `get` returns a scalar without the error flag exactly for well-formed sequences, and U+FFFD with the
error flag otherwise, always advancing by at least one unit. -/
theorem get_exact (enc : Enc) (l : Mem) (hu : UnitsOK enc l) (u : Nat) (sl : Int) (h : get enc l = .ok (u, sl)) :
    1 ≤ sl.natAbs ∧ sl.natAbs ≤ l.length ∧
      (if sl < 1 then u = 0xFFFD ∧ dec enc l = none else dec enc l = some (u, sl.natAbs)) := by
  have := get_spec enc l hu; rw [h] at this; exact this

/-- a trailing unit never starts a character -/
theorem trail_not_start (enc : Enc) (c : Nat) (r : Mem) (h : isTrail enc c = true) (hc : c < 2^32) : dec enc (c :: r) = none := by
  cases enc
  · simp only [isTrail, decide_eq_true_eq] at h
    exact dec8_af0 c r (by omega)
  · simp only [isTrail, decide_eq_true_eq] at h
    have a : ¬ (c < 55296 ∨ 57343 < c ∧ c < 65536) := by omega
    have b : ¬ c ≤ 56319 := by omega
    simp [dec, dec16, a, b]
  · simp [isTrail] at h

/-- **resync**: whatever an ill-formed sequence swallows after its first unit are trailing units, none of which can
start a character, so a well-formed sequence that follows is decoded intact. -/
theorem resync (enc : Enc) (l : Mem) (hu : UnitsOK enc l) (u : Nat) (sl : Int) (h : get enc l = .ok (u, sl)) :
    ∀ c ∈ (l.take sl.natAbs).tail, isTrail enc c = true :=
  get_consumed enc l hu u sl h

/-- **cross_encoding**: the same scalar sequence supplied as UTF-8, UTF-16 or UTF-32 is read back as the same scalars. -/
theorem cross_encoding (us : List Nat) (hs : ∀ u ∈ us, isScalar u ∧ u ≠ 0) (tail : Mem) (enc : Enc) :
    ∃ cs, readText enc us.length (encode enc us ++ tail) 0 [] = .ok cs ∧ cs.map Prod.fst = us := by
  obtain ⟨cs, h1, h2⟩ := readText_encode enc us hs tail us.length 0 [] (Nat.le_refl _)
  exact ⟨cs, by simpa using h1, h2⟩

/-! ### non-vacuity -/
example : UnitsOK .utf8 [0x61, 0xE0, 0xA0, 0x80] := by intro x hx; simp at hx; rcases hx with rfl | rfl | rfl | rfl <;> decide
example : truncatedTail .utf8 [0x61, 0xE0, 0xA0, 0x80] = false := by decide
example : specScan .utf8 [0x61, 0xE0, 0xA0, 0x80] = (2, 4, .endOfText) := by decide
example : specScan .utf8 [0x61, 0xED, 0xA0, 0x80] = (1, 1, .illFormed) := by decide
example : truncatedTail .utf8 [0x61, 0xE0, 0xA0] = true := by decide
example : isScalar 0x10FFFF ∧ ¬ isScalar 0xD800 := by unfold isScalar; omega

end GrVerif.Props.C11

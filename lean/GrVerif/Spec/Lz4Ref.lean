import GrVerif.Model.Basic
/-!
# The LZ4 block format: a reference decoder   (C14)

Written from the format description (lz4 "Block format": a block is a series of sequences; a sequence is a token, an optional literal
length continuation, the literals, a little-endian 16-bit match offset, an optional match length continuation; the match length is the
coded value + 4; the match is copied from `offset` bytes back in the output, byte by byte, so that it may overlap what it writes; the
last sequence holds literals only and ends with the block).  Nothing of `src/Decompressor.cpp` is used here: lengths are unbounded
natural numbers, the output is a list that grows, there are no word copies, no output buffer and no end-of-block restrictions beyond
the format's own.  `Proofs/Lz4Sound.lean` shows that whenever the model of `lz4::decompress` returns a byte count, this decoder accepts
the block and the first `count` bytes of the output buffer are what it produces; the correspondence check compares this decoder with
liblz4 on every generated block liblz4 accepts.
-/
namespace GrVerif.Lz4Ref
open GrVerif

/-- continuation of a length: bytes are added until one is not 255 -/
def ext (src : Buf) : Nat → Nat → Nat → Option (Nat × Nat)
  | 0, _, _ => none
  | fuel + 1, s, acc =>
    match src[s]? with
    | none => none
    | some b => if b = 255 then ext src fuel (s + 1) (acc + 255) else some (s + 1, acc + b)

/-- a 4-bit length field `l` read at `s`: 15 announces a continuation -/
def len (src : Buf) (s l : Nat) : Option (Nat × Nat) :=
  if l = 15 then ext src (src.size - s + 1) s 15 else some (s, l)

/-- `n` bytes of the input from `s` -/
def lits (src : Buf) (s n : Nat) : List Nat := (List.range n).map fun j => src.getD (s + j) 0

/-- the match: `n` bytes, each the byte `dist` back from the end of the output as it stands -/
def copyMatch (dist : Nat) : Nat → List Nat → List Nat
  | 0, out => out
  | n + 1, out => copyMatch dist n (out ++ [out.getD (out.length - dist) 0])

/-- sequences from `s` on, appended to `out` -/
def decode (src : Buf) : Nat → Nat → List Nat → Option (List Nat)
  | 0, _, _ => none
  | fuel + 1, s, out =>
    match src[s]? with
    | none => none
    | some token =>
      match len src (s + 1) (token >>> 4) with
      | none => none
      | some (s1, ll) =>
        if s1 + ll > src.size then none else
        let out := out ++ lits src s1 ll
        if s1 + ll = src.size then some out else          -- the last sequence: literals only
        if s1 + ll + 2 > src.size then none else
        let dist := src.getD (s1 + ll) 0 + 256 * src.getD (s1 + ll + 1) 0
        match len src (s1 + ll + 2) (token &&& 0xf) with
        | none => none
        | some (s2, ml) =>
          if dist = 0 ∨ dist > out.length then none else
          decode src fuel s2 (copyMatch dist (ml + 4) out)

/-- the number of literals of the last sequence (the format asks encoders for at least five: "the last 5 bytes of input are always
literals") -/
def finalLits (src : Buf) : Nat → Nat → Option Nat
  | 0, _ => none
  | fuel + 1, s =>
    match src[s]? with
    | none => none
    | some token =>
      match len src (s + 1) (token >>> 4) with
      | none => none
      | some (s1, ll) =>
        if s1 + ll > src.size then none else
        if s1 + ll = src.size then some ll else
        if s1 + ll + 2 > src.size then none else
        match len src (s1 + ll + 2) (token &&& 0xf) with
        | none => none
        | some (s2, _) => finalLits src fuel s2

/-- a whole block -/
def decompress (src : Buf) : Option (List Nat) := decode src src.size 0 []

end GrVerif.Lz4Ref

/-!
# Unicode well-formedness (reference semantics for C11/C12/C05)

Transcribed from The Unicode Standard, Table 3-7 "Well-Formed UTF-8 Byte Sequences", D91 (UTF-16) and
D90 (UTF-32).  Nothing here mentions graphite's code.  Validated against Python's strict codecs by the
correspondence check (the predicate evaluated on the implementation's outputs uses those codecs).
-/
namespace GrVerif.Spec.Utf

def inR (x lo hi : Nat) : Bool := decide (lo ≤ x) && decide (x ≤ hi)
def isCont (x : Nat) : Bool := inR x 0x80 0xBF

/-- one well-formed UTF-8 sequence at the head of the list: `(scalar, number of bytes)` -/
def dec8 : List Nat → Option (Nat × Nat)
  | [] => none
  | b0 :: r =>
    if b0 ≤ 0x7F then some (b0, 1)
    else if inR b0 0xC2 0xDF then
      match r with
      | b1 :: _ => if isCont b1 then some ((b0 - 0xC0) * 64 + (b1 - 0x80), 2) else none
      | _ => none
    else if inR b0 0xE0 0xEF then
      match r with
      | b1 :: b2 :: _ =>
        if inR b1 (if b0 = 0xE0 then 0xA0 else 0x80) (if b0 = 0xED then 0x9F else 0xBF) && isCont b2
        then some ((b0 - 0xE0) * 4096 + (b1 - 0x80) * 64 + (b2 - 0x80), 3) else none
      | _ => none
    else if inR b0 0xF0 0xF4 then
      match r with
      | b1 :: b2 :: b3 :: _ =>
        if inR b1 (if b0 = 0xF0 then 0x90 else 0x80) (if b0 = 0xF4 then 0x8F else 0xBF) && isCont b2 && isCont b3
        then some ((b0 - 0xF0) * 262144 + (b1 - 0x80) * 4096 + (b2 - 0x80) * 64 + (b3 - 0x80), 4) else none
      | _ => none
    else none

/-- D91: a BMP non-surrogate unit, or a lead surrogate followed by a trail surrogate -/
def dec16 : List Nat → Option (Nat × Nat)
  | [] => none
  | u :: r =>
    if u < 0xD800 ∨ (0xDFFF < u ∧ u < 0x10000) then some (u, 1)
    else if u ≤ 0xDBFF then
      match r with
      | t :: _ => if inR t 0xDC00 0xDFFF then some (0x10000 + (u - 0xD800) * 1024 + (t - 0xDC00), 2) else none
      | _ => none
    else none

/-- D90: a Unicode scalar value -/
def dec32 : List Nat → Option (Nat × Nat)
  | [] => none
  | u :: _ => if u < 0xD800 ∨ (0xDFFF < u ∧ u < 0x110000) then some (u, 1) else none

def isScalar (u : Nat) : Prop := u < 0xD800 ∨ (0xDFFF < u ∧ u < 0x110000)

inductive Stop | nul | illFormed | endOfText
  deriving DecidableEq, Repr

/-- Scan well-formed characters from the head: stop at a NUL character, at the first ill-formed
sequence or at the end of the text.  Result: characters counted, units consumed, reason. -/
def scan (dec : List Nat → Option (Nat × Nat)) : Nat → List Nat → Nat → Nat → Nat × Nat × Stop
  | 0, _, off, n => (n, off, .endOfText)
  | fuel + 1, mem, off, n =>
    if mem.isEmpty then (n, off, .endOfText)
    else match dec mem with
      | none => (n, off, .illFormed)
      | some (u, k) => if u = 0 then (n, off, .nul) else scan dec fuel (mem.drop k) (off + k) (n + 1)

/-- "the buffer ends in a truncated multi-unit sequence": a lead byte (≥ 0xC0) followed, up to the end of the
buffer, only by continuation bytes and fewer of them than the lead announces -/
def announced (lead : Nat) : Nat := if lead < 0xE0 then 2 else if lead < 0xF0 then 3 else 4

def truncatedTail8 (text : List Nat) : Bool :=
  match text.reverse with
  | [] => false
  | x :: r1 =>
    if x ≥ 0xC0 then true                                      -- lead is the last byte
    else if !isCont x then false
    else match r1 with
      | [] => false
      | y :: r2 =>
        if y ≥ 0xC0 then decide (announced y > 2)              -- lead + 1 continuation
        else if !isCont y then false
        else match r2 with
          | [] => false
          | z :: _ => if z ≥ 0xC0 then decide (announced z > 3) else false

def truncatedTail16 (text : List Nat) : Bool :=
  match text.getLast? with
  | none => false
  | some u => inR u 0xD800 0xDBFF

end GrVerif.Spec.Utf

/-!
# Opcode specification (reference semantics for C07)

Written from `doc/OpCodes.adoc` ("General arithmetic operations", PopRet/RetZero/RetTrue, and the bit operations
0x3E–0x41), on mathematical integers with an explicit 32-bit two's-complement wrap.  The stack is a list with the top
at the head.  Nothing here refers to graphite's code.
-/
namespace GrVerif.Spec.Vm

def INT_MIN : Int := -2147483648
/-- reduce to the signed 32-bit range (two's complement) -/
def wrap32 (x : Int) : Int := (x + 2147483648) % 4294967296 - 2147483648
/-- the unsigned 32-bit pattern of a value -/
def pat (x : Int) : Nat := (x % 4294967296).toNat
def bool (b : Bool) : Int := if b then 1 else 0

inductive Outcome where
  | next (st : List Int) (params : Nat)     -- continue; `params` operand bytes were consumed
  | ret (v : Int) (st : List Int)           -- the program returns `v`; `st` is what is left below it
  | die (st : List Int)                     -- division failed safely (the divisor is consumed, the rest of the stack stays)
  | stuck                                   -- not enough operands / operand bytes / not a scalar opcode
  deriving Repr, DecidableEq

def sext (bits : Nat) (x : Nat) : Int := if x < 2 ^ (bits - 1) then x else (x : Int) - 2 ^ bits

/-- one instruction: opcode number, operand bytes that follow, stack -/
def step (opc : Nat) (ops : List Nat) (st : List Int) : Outcome :=
  match opc, ops, st with
  | 0x00, _, st => .next st 0                                                          -- NOP
  | 0x01, b :: _, st => .next (sext 8 b :: st) 1                                       -- PushByte  <byte>
  | 0x02, b :: _, st => .next ((b : Int) :: st) 1                                      -- PushByteU {byte}
  | 0x03, a :: b :: _, st => .next (sext 16 (a * 256 + b) :: st) 2                     -- PushShort <short>
  | 0x04, a :: b :: _, st => .next (((a * 256 + b : Nat) : Int) :: st) 2               -- PushShortU {short}
  | 0x05, a :: b :: c :: d :: _, st => .next (sext 32 (((a * 256 + b) * 256 + c) * 256 + d) :: st) 4   -- PushLong
  | 0x06, _, x :: y :: st => .next (wrap32 (y + x) :: st) 0                            -- Add
  | 0x07, _, x :: y :: st => .next (wrap32 (y - x) :: st) 0                            -- Sub: top-most from the next
  | 0x08, _, x :: y :: st => .next (wrap32 (y * x) :: st) 0                            -- Mul
  | 0x09, _, x :: y :: st =>                                                           -- Div: second by the first
      if x = 0 ∨ (y = INT_MIN ∧ x = -1) then .die (y :: st) else .next (Int.tdiv y x :: st) 0
  | 0x0A, _, x :: y :: st => .next (min y x :: st) 0                                   -- Min (signed)
  | 0x0B, _, x :: y :: st => .next (max y x :: st) 0                                   -- Max (signed)
  | 0x0C, _, x :: st => .next (wrap32 (-x) :: st) 0                                    -- Neg
  | 0x0D, _, x :: st => .next ((pat x % 256 : Nat) :: st) 0                            -- Trunc8 (zero extending)
  | 0x0E, _, x :: st => .next ((pat x % 65536 : Nat) :: st) 0                          -- Trunc16
  | 0x0F, _, f :: t :: c :: st => .next ((if c = 0 then f else t) :: st) 0             -- Cond
  | 0x10, _, x :: y :: st => .next (bool (y ≠ 0 ∧ x ≠ 0) :: st) 0                      -- And
  | 0x11, _, x :: y :: st => .next (bool (y ≠ 0 ∨ x ≠ 0) :: st) 0                      -- Or
  | 0x12, _, x :: st => .next (bool (x = 0) :: st) 0                                   -- Not
  | 0x13, _, x :: y :: st => .next (bool (y = x) :: st) 0                              -- Equal
  | 0x14, _, x :: y :: st => .next (bool (y ≠ x) :: st) 0                              -- NotEq
  | 0x15, _, x :: y :: st => .next (bool (y < x) :: st) 0                              -- Less: 2nd < 1st (signed)
  | 0x16, _, x :: y :: st => .next (bool (y > x) :: st) 0                              -- Gtr
  | 0x17, _, x :: y :: st => .next (bool (y ≤ x) :: st) 0                              -- LessEq
  | 0x18, _, x :: y :: st => .next (bool (y ≥ x) :: st) 0                              -- GtrEq
  | 0x30, _, x :: st => .ret x st                                                      -- PopRet
  | 0x31, _, st => .ret 0 st                                                           -- RetZero
  | 0x32, _, st => .ret 1 st                                                           -- RetTrue
  | 0x36, _ :: _, st => .next (1 :: st) 1                                              -- PushProcState {dummy}
  | 0x37, _, st => .next (0x00030000 :: st) 0                                          -- PushVersion
  | 0x3E, _, x :: y :: st => .next (wrap32 ((pat y ||| pat x : Nat)) :: st) 0          -- BitOr
  | 0x3F, _, x :: y :: st => .next (wrap32 ((pat y &&& pat x : Nat)) :: st) 0          -- BitAnd
  | 0x40, _, x :: st => .next (wrap32 (-x - 1) :: st) 0                                -- BitNot
  | 0x41, a :: b :: c :: d :: _, x :: st =>                                            -- BitSet {mask:short} {value:short}
      .next (wrap32 (((pat x &&& (4294967295 - (a * 256 + b))) ||| (c * 256 + d) : Nat)) :: st) 4
  | _, _, _ => .stuck

inductive Result where
  | returned (v : Int) (below : List Int)
  | died (st : List Int)
  | overflow (st : List Int)         -- the stack grew to the machine's limit
  | stuck
  deriving Repr, DecidableEq

/-- run a straight-line program: opcodes with their operand bytes laid out in order in `data`.
`limit` = the machine's stack capacity (`STACK_MAX`): execution stops when the stack reaches it. -/
def eval (limit : Nat) : List Nat → List Nat → List Int → Result
  | [], _, _ => .stuck
  | opc :: rest, data, st =>
    match step opc data st with
    | .next st' k => if st'.length < limit then eval limit rest (data.drop k) st' else .overflow st'
    | .ret v below => .returned v below
    | .die st' => .died st'
    | .stuck => .stuck

end GrVerif.Spec.Vm

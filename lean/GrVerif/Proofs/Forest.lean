import GrVerif.Proofs.HeapAssoc
/-!
# The attachment forest (C04)

`Forest s`: over the slots that are not temporary copies ("real" slots), the `parent` / `child` / `sibling` pointers of
the arena form a forest –
* `kids`: the chain `child i, sibling, sibling, …` of a real slot `i` ends, has no repetition, consists exactly of the
  real slots whose `parent` is `i`;
* `acyc`: there is a depth function that strictly increases from parent to child (no cycles through `parent`);
* `root`: a real slot without a parent has no sibling;
* `par`: the parent of a real slot is real and not on the free list;
* `free`: slots on the free list are real and isolated.

Temporary copies (`temp_copy`) carry a stale image of another slot's pointers; nothing is claimed about their fields,
only that real slots never point at them.

This file: the chain primitives (`sibling`, `child`, `removeSib`, `removeChild`) as list operations.
-/
set_option linter.unusedSimpArgs false
set_option linter.unusedVariables false
namespace GrVerif.Seg

def Real (s : Seg) (j : Nat) : Prop := (s.get j).copied = false

/-- following `sibling` from the pointer `o` visits exactly the slots of `l` and then arrives at the pointer `e` -/
def SibSeg (s : Seg) : Option Nat → List Nat → Option Nat → Prop
  | o, [], e => o = e
  | o, j :: rest, e => o = some j ∧ SibSeg s (s.get j).sibling rest e

/-- the sibling chain that starts at `o` is the list `l` (and ends there) -/
abbrev SibChain (s : Seg) (o : Option Nat) (l : List Nat) : Prop := SibSeg s o l none

/-- `l` is the list of attached slots of `i` -/
structure Kids (s : Seg) (i : Nat) (l : List Nat) : Prop where
  chain : SibChain s (s.get i).child l
  nodup : l.Nodup
  mem : ∀ j ∈ l, (s.get j).parent = some i ∧ Real s j
  all : ∀ j, Real s j → (s.get j).parent = some i → j ∈ l

structure Forest (s : Seg) : Prop where
  kids : ∀ i, Real s i → ∃ l, Kids s i l
  acyc : ∃ depth : Nat → Nat, ∀ j i, Real s j → (s.get j).parent = some i → depth i < depth j
  root : ∀ j, Real s j → (s.get j).parent = none → (s.get j).sibling = none
  par : ∀ j i, Real s j → (s.get j).parent = some i → Real s i ∧ i ∉ s.free
  free : ∀ f ∈ s.free, Real s f ∧ (s.get f).child = none ∧ (s.get f).parent = none

/-! ## chains -/

theorem sibSeg_congr {s s' : Seg} {e : Option Nat} : ∀ {l : List Nat} {o : Option Nat}, (∀ j ∈ l, (s'.get j).sibling = (s.get j).sibling) →
    SibSeg s o l e → SibSeg s' o l e := by
  intro l
  induction l with
  | nil => intro o _ h; exact h
  | cons j rest ih =>
    intro o hs h
    obtain ⟨h1, h2⟩ := h
    refine ⟨h1, ?_⟩
    rw [hs j List.mem_cons_self]
    exact ih (fun x hx => hs x (List.mem_cons_of_mem _ hx)) h2

theorem sibSeg_append {s : Seg} {e : Option Nat} : ∀ {a b : List Nat} {o : Option Nat},
    SibSeg s o (a ++ b) e ↔ ∃ m, SibSeg s o a m ∧ SibSeg s m b e := by
  intro a
  induction a with
  | nil =>
    intro b o
    simp only [List.nil_append, SibSeg]
    constructor
    · intro h; exact ⟨o, rfl, h⟩
    · rintro ⟨m, h1, h2⟩; rw [h1]; exact h2
  | cons j rest ih =>
    intro b o
    simp only [List.cons_append, SibSeg]
    rw [ih]
    constructor
    · rintro ⟨h1, m, h2, h3⟩; exact ⟨m, ⟨h1, h2⟩, h3⟩
    · rintro ⟨m, ⟨h1, h2⟩, h3⟩; exact ⟨h1, m, h2, h3⟩

/-- a chain is determined by its start -/
theorem sibChain_unique {s : Seg} : ∀ {l l' : List Nat} {o : Option Nat}, SibChain s o l → SibChain s o l' → l = l' := by
  intro l
  induction l with
  | nil =>
    intro l' o h h'
    cases l' with
    | nil => rfl
    | cons j r =>
      have h0 : o = none := h
      rw [h0] at h'; cases h'.1
  | cons j rest ih =>
    intro l' o h h'
    cases l' with
    | nil =>
      have h0 : o = none := h'
      rw [h0] at h; cases h.1
    | cons j' r' =>
      have e : j = j' := by have := h.1; rw [h'.1] at this; cases this; rfl
      subst e
      rw [ih h.2 h'.2]

/-- the pointer found in the middle of a chain -/
theorem sibSeg_mid {s : Seg} {e o : Option Nat} {a b : List Nat} {x : Nat} (h : SibSeg s o (a ++ x :: b) e) :
    SibSeg s o a (some x) ∧ SibSeg s (s.get x).sibling b e := by
  rw [sibSeg_append] at h
  obtain ⟨m, h1, h2, h3⟩ := h
  rw [h2] at h1
  exact ⟨h1, h3⟩

theorem sibSeg_upd_notin {s : Seg} {e o : Option Nat} {l : List Nat} (x : Nat) (f : Slot → Slot) (hx : x ∉ l)
    (h : SibSeg s o l e) : SibSeg (s.upd x f) o l e :=
  sibSeg_congr (fun j hj => by
    have hne : j ≠ x := fun hh => hx (by rw [← hh]; exact hj)
    rw [get_upd_ne _ _ _ _ hne]) h

theorem sibSeg_upd_keep {s : Seg} {e o : Option Nat} {l : List Nat} (x : Nat) (f : Slot → Slot) (hf : ∀ a, (f a).sibling = a.sibling)
    (h : SibSeg s o l e) : SibSeg (s.upd x f) o l e :=
  sibSeg_congr (fun j hj => by rw [get_upd]; split <;> first | exact hf _ | rfl) h

theorem parent_inb {s : Seg} {j i : Nat} (h : (s.get j).parent = some i) : j < s.slots.size := by
  apply Classical.byContradiction
  intro hn
  rw [get_oob s j (by omega)] at h
  cases h

theorem sibSeg_head {s : Seg} {o e : Option Nat} {j : Nat} {rest : List Nat} (h : SibSeg s o (j :: rest) e) : o = some j := h.1

theorem sibChain_next {s : Seg} {j : Nat} {rest : List Nat} {o : Option Nat} (h : SibChain s o (j :: rest)) :
    (s.get j).sibling = rest.head? := by
  cases rest with
  | nil => exact h.2
  | cons k r => exact h.2.1

/-! ## `Slot::sibling` / `Slot::child`: appending to a chain -/

theorem sibling_append (s : Seg) (ap : Nat) : ∀ (fuel : Nat) (l : List Nat) (c : Nat), SibChain s (some c) l → ap ∉ l →
    l.length ≤ fuel →
    ∃ last, l.getLast? = some last ∧ sibling s fuel c (some ap) = (true, s.upd last fun sl => sl.setSibling (some ap)) := by
  intro fuel
  induction fuel with
  | zero =>
    intro l c h _ hl
    cases l with
    | nil => cases (show (some c : Option Nat) = none from h)
    | cons j rest => simp at hl
  | succ f ih =>
    intro l c h hap hl
    cases l with
    | nil => cases (show (some c : Option Nat) = none from h)
    | cons j rest =>
      have hcj : c = j := by have := h.1; cases this; rfl
      subst hcj
      have hne : c ≠ ap := fun hh => hap (by rw [hh]; exact List.mem_cons_self)
      have hsib := sibChain_next h
      unfold sibling
      have h1 : ¬ (some c = some ap) := fun hh => hne (by cases hh; rfl)
      rw [if_neg h1]
      cases rest with
      | nil =>
        simp only [List.head?_nil] at hsib
        have h2 : ¬ (some ap = (s.get c).sibling) := by rw [hsib]; intro hh; cases hh
        rw [if_neg h2, hsib]
        exact ⟨c, by simp, rfl⟩
      | cons k r =>
        simp only [List.head?_cons] at hsib
        have hka : k ≠ ap := fun hh => hap (by rw [← hh]; simp)
        have h2 : ¬ (some ap = (s.get c).sibling) := by rw [hsib]; intro hh; cases hh; exact hka rfl
        rw [if_neg h2, hsib]
        simp only []
        obtain ⟨last, h3, h4⟩ := ih (k :: r) k (by have := h.2; rw [hsib] at this; exact this)
          (fun hh => hap (List.mem_cons_of_mem _ hh)) (by simp at hl ⊢; omega)
        exact ⟨last, by rw [List.getLast?_cons_cons]; exact h3, h4⟩

/-- `Slot::child(ap)` on a slot whose chain is `l`: the new child goes to the end -/
theorem child_append (s : Seg) (i ap : Nat) (l : List Nat) (hk : SibChain s (s.get i).child l) (hap : ap ∉ l) (hia : i ≠ ap)
    (hlen : l.length ≤ s.slots.size) :
    child s i ap = (true, match l.getLast? with
      | none => s.upd i fun sl => sl.setChild (some ap)
      | some last => s.upd last fun sl => sl.setSibling (some ap)) := by
  unfold child
  rw [if_neg hia]
  cases l with
  | nil =>
    have h0 : (s.get i).child = none := hk
    rw [h0]
    simp
  | cons c rest =>
    have h0 : (s.get i).child = some c := hk.1
    have hca : c ≠ ap := fun hh => hap (by rw [hh]; exact List.mem_cons_self)
    rw [h0]
    have h1 : ¬ (some ap = some c) := fun hh => hca (by cases hh; rfl)
    rw [if_neg h1]
    simp only []
    obtain ⟨last, h3, h4⟩ := sibling_append s ap (s.slots.size + 1) (c :: rest) c (by rw [h0] at hk; exact hk) hap (by omega)
    rw [h4, h3]

/-! ## `Slot::removeChild`: erasing from a chain -/

theorem removeSib_found (s : Seg) (ap : Nat) : ∀ (fuel : Nat) (pre : List Nat) (c pp : Nat),
    SibSeg s (some c) (pre ++ [pp]) (some ap) → ap ∉ pre ++ [pp] → pre.length + 1 ≤ fuel →
    removeSib s ap fuel (some c) =
      (true, (s.upd pp fun sl => sl.setSibling ((s.get ap).sibling)).upd ap fun sl => sl.setSibling none) := by
  intro fuel
  induction fuel with
  | zero => intro pre c pp _ _ hl; omega
  | succ f ih =>
    intro pre c pp h hap hl
    unfold removeSib
    cases pre with
    | nil =>
      simp only [List.nil_append, SibSeg] at h
      have hc : c = pp := by have := h.1; cases this; rfl
      subst hc
      rw [if_pos h.2]
    | cons x rest =>
      simp only [List.cons_append, SibSeg] at h
      have hc : c = x := by have := h.1; cases this; rfl
      subst hc
      have hsome : ∃ y, (s.get c).sibling = some y ∧ y ∈ rest ++ [pp] := by
        cases rest with
        | nil => exact ⟨pp, h.2.1, by simp⟩
        | cons y r => exact ⟨y, h.2.1, by simp⟩
      obtain ⟨y, hy, hym⟩ := hsome
      have hne : ¬ ((s.get c).sibling = some ap) := by
        rw [hy]; intro hh; cases hh
        exact hap (List.mem_cons_of_mem _ hym)
      rw [if_neg hne, hy]
      exact ih rest y pp (by rw [← hy]; exact h.2) (fun hh => hap (List.mem_cons_of_mem _ hh)) (by simp at hl ⊢; omega)

/-- the walk does not find `ap`: nothing changes -/
theorem removeSib_absent (s : Seg) (ap : Nat) : ∀ (fuel : Nat) (l : List Nat) (o : Option Nat),
    SibChain s o l → ap ∉ l.tail → (removeSib s ap fuel o).2 = s := by
  intro fuel
  induction fuel with
  | zero => intro l o _ _; unfold removeSib; rfl
  | succ f ih =>
    intro l o h hap
    cases l with
    | nil =>
      have h0 : o = none := h
      rw [h0]; unfold removeSib; rfl
    | cons c rest =>
      rw [h.1]
      unfold removeSib
      have hs := sibChain_next h
      have hne : ¬ ((s.get c).sibling = some ap) := by
        rw [hs]; intro hh
        simp only [List.tail_cons] at hap
        exact hap (List.mem_of_head? hh)
      rw [if_neg hne]
      exact ih rest _ h.2 (fun hh => hap (by simp only [List.tail_cons]; exact List.mem_of_mem_tail hh))

/-- `removeChild(i, ap)` when `ap` is in `i`'s chain `a ++ ap :: b` -/
theorem removeChild_found (s : Seg) (i ap : Nat) (a b : List Nat) (hk : SibChain s (s.get i).child (a ++ ap :: b))
    (hnd : (a ++ ap :: b).Nodup) (hia : i ≠ ap) (hlen : (a ++ ap :: b).length ≤ s.slots.size) :
    removeChild s i ap = (true, match a.getLast? with
      | none => (s.upd ap fun sl => sl.setSibling none).upd i fun sl => sl.setChild ((s.get ap).sibling)
      | some pp => (s.upd pp fun sl => sl.setSibling ((s.get ap).sibling)).upd ap fun sl => sl.setSibling none) := by
  unfold removeChild
  rw [if_neg hia]
  rcases List.eq_nil_or_concat a with ha | ⟨pre, pp, ha⟩
  · subst ha
    simp only [List.nil_append] at hk
    have h0 : (s.get i).child = some ap := hk.1
    rw [h0]
    simp
  · rw [List.concat_eq_append] at ha
    subst ha
    have hmid := sibSeg_mid hk
    have hapn : ap ∉ pre ++ [pp] := fun hh => (List.nodup_append.mp hnd).2.2 ap hh ap List.mem_cons_self rfl
    obtain ⟨c, rest, hpre⟩ : ∃ c rest, pre ++ [pp] = c :: rest := by
      cases pre with
      | nil => exact ⟨pp, [], rfl⟩
      | cons x r => exact ⟨x, r ++ [pp], rfl⟩
    have h0 : (s.get i).child = some c := by
      have := hmid.1; rw [hpre] at this; exact this.1
    have hca : c ≠ ap := fun hh => hapn (by rw [hpre, ← hh]; exact List.mem_cons_self)
    rw [h0]
    simp only [hca, if_false]
    have hseg : SibSeg s (some c) (pre ++ [pp]) (some ap) := by rw [← h0]; exact hmid.1
    rw [removeSib_found s ap (s.slots.size + 1) pre c pp hseg hapn (by simp at hlen; omega)]
    simp

/-- `removeChild(i, ap)` when `ap` is not in `i`'s chain: nothing changes -/
theorem removeChild_absent (s : Seg) (i ap : Nat) (l : List Nat) (hk : SibChain s (s.get i).child l) (hap : ap ∉ l) :
    (removeChild s i ap).2 = s := by
  unfold removeChild
  split
  · rfl
  · cases l with
    | nil =>
      have h0 : (s.get i).child = none := hk
      rw [h0]
    | cons c rest =>
      have h0 : (s.get i).child = some c := hk.1
      have hca : c ≠ ap := fun hh => hap (by rw [hh]; exact List.mem_cons_self)
      rw [h0]
      simp only [hca, if_false]
      exact removeSib_absent s ap _ (c :: rest) (some c) (by rw [← h0]; exact hk) (fun hh => hap (List.mem_of_mem_tail hh))

end GrVerif.Seg

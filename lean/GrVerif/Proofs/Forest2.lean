import GrVerif.Proofs.Forest
/-!
# The attachment forest: detaching and attaching a slot

Extensional descriptions (`Detached`, `Attached`) of what the attachment primitives do to the tree fields of the arena,
and the proofs that they keep `Forest`.  The concrete operations (`unparent`, `detachChildren`, `attach`, …) are shown to
meet these descriptions in `Forest3.lean`.
-/
set_option linter.unusedSimpArgs false
set_option linter.unusedVariables false
namespace GrVerif.Seg

theorem kids_unique {s : Seg} {i : Nat} {l l' : List Nat} (h : Kids s i l) (h' : Kids s i l') : l = l' :=
  sibChain_unique h.chain h'.chain

/-- members of a chain lie inside the arena -/
theorem Kids.inb {s : Seg} {i : Nat} {l : List Nat} (h : Kids s i l) : ∀ j ∈ l, j < s.slots.size :=
  fun j hj => parent_inb (h.mem j hj).1

theorem Kids.length_le {s : Seg} {i : Nat} {l : List Nat} (h : Kids s i l) : l.length ≤ s.slots.size := by
  have hsub : l ⊆ List.range s.slots.size := fun j hj => List.mem_range.mpr (h.inb j hj)
  have := List.Nodup.length_le_of_subset h.nodup hsub  -- provisional name, replaced below if absent
  simpa using this

/-- a slot is not its own child -/
theorem Forest.not_self {s : Seg} (h : Forest s) {j : Nat} (hr : Real s j) : (s.get j).parent ≠ some j := by
  obtain ⟨d, hd⟩ := h.acyc
  intro hp
  have := hd j j hr hp
  omega

/-- `s'` is `s` with the real slot `a` taken out of the chain `l` of its parent `p` and made a root -/
structure Detached (s s' : Seg) (p a : Nat) (l : List Nat) : Prop where
  free : s'.free = s.free
  cop : ∀ j, (s'.get j).copied = (s.get j).copied
  par : ∀ j, (s'.get j).parent = if j = a then none else (s.get j).parent
  chi : ∀ j, j ≠ p → (s'.get j).child = (s.get j).child
  kidsP : SibChain s' (s'.get p).child (l.erase a)
  sibA : (s'.get a).sibling = none
  sibO : ∀ j, j ∉ l → (s'.get j).sibling = (s.get j).sibling

theorem real_iff {s s' : Seg} (h : ∀ j, (s'.get j).copied = (s.get j).copied) (j : Nat) : Real s' j ↔ Real s j := by
  unfold Real; rw [h j]

theorem forest_of_detached {s s' : Seg} {p a : Nat} {l : List Nat} (hF : Forest s) (hp : Real s p) (hk : Kids s p l) (ha : a ∈ l)
    (hd : Detached s s' p a l) : Forest s' := by
  have hreal := real_iff hd.cop
  have hap : (s.get a).parent = some p := (hk.mem a ha).1
  refine ⟨?_, ?_, ?_, ?_, ?_⟩
  · -- kids
    intro i hi
    have hi' := (hreal i).mp hi
    by_cases hip : i = p
    · subst hip
      refine ⟨l.erase a, hd.kidsP, hk.nodup.erase a, ?_, ?_⟩
      · intro j hj
        have hjl : j ∈ l := List.mem_of_mem_erase hj
        have hja : j ≠ a := fun hh => by
          rw [hh] at hj
          exact (List.Nodup.mem_erase_iff hk.nodup).mp hj |>.1 rfl
        rw [hd.par j, if_neg hja]
        exact ⟨(hk.mem j hjl).1, (hreal j).mpr (hk.mem j hjl).2⟩
      · intro j hj hjp
        rw [hd.par j] at hjp
        split at hjp
        · cases hjp
        · rename_i hja
          exact (List.mem_erase_of_ne hja).mpr (hk.all j ((hreal j).mp hj) hjp)
    · obtain ⟨li, hki⟩ := hF.kids i hi'
      -- members of `li` have parent `i ≠ p`, so none of them is in `l`
      have hdisj : ∀ j ∈ li, j ∉ l := fun j hj hjl => by
        have h1 := (hki.mem j hj).1
        have h2 := (hk.mem j hjl).1
        rw [h1] at h2; cases h2; exact hip rfl
      refine ⟨li, ?_, hki.nodup, ?_, ?_⟩
      · rw [hd.chi i hip]
        exact sibSeg_congr (fun j hj => hd.sibO j (hdisj j hj)) hki.chain
      · intro j hj
        have hja : j ≠ a := fun hh => hdisj j hj (hh ▸ ha)
        rw [hd.par j, if_neg hja]
        exact ⟨(hki.mem j hj).1, (hreal j).mpr (hki.mem j hj).2⟩
      · intro j hj hjp
        rw [hd.par j] at hjp
        split at hjp
        · cases hjp
        · exact hki.all j ((hreal j).mp hj) hjp
  · obtain ⟨d, hdp⟩ := hF.acyc
    refine ⟨d, fun j i hj hji => ?_⟩
    rw [hd.par j] at hji
    split at hji
    · cases hji
    · exact hdp j i ((hreal j).mp hj) hji
  · intro j hj hjp
    by_cases hja : j = a
    · rw [hja]; exact hd.sibA
    · rw [hd.par j, if_neg hja] at hjp
      have hjl : j ∉ l := fun hh => by rw [(hk.mem j hh).1] at hjp; cases hjp
      rw [hd.sibO j hjl]
      exact hF.root j ((hreal j).mp hj) hjp
  · intro j i hj hji
    rw [hd.par j] at hji
    split at hji
    · cases hji
    · have := hF.par j i ((hreal j).mp hj) hji
      exact ⟨(hreal i).mpr this.1, by rw [hd.free]; exact this.2⟩
  · intro f hf
    rw [hd.free] at hf
    obtain ⟨f1, f2, f3⟩ := hF.free f hf
    have hfp : f ≠ p := fun hh => by
      rw [hh] at f2
      have hc := hk.chain
      rw [f2] at hc
      cases l with
      | nil => cases ha
      | cons x r => cases hc.1
    refine ⟨(hreal f).mpr f1, by rw [hd.chi f hfp]; exact f2, ?_⟩
    rw [hd.par f]; split
    · rfl
    · exact f3

/-! ## attaching a root under a slot -/

/-- the `k`-th ancestor of `j` (`up 0 j = j`) -/
def up (s : Seg) : Nat → Nat → Option Nat
  | 0, j => some j
  | k + 1, j =>
    match (s.get j).parent with
    | none => none
    | some i => up s k i

/-- `a` is `j` or an ancestor of `j` -/
def Anc (s : Seg) (a j : Nat) : Prop := ∃ k, up s k j = some a

theorem anc_step {s : Seg} {a j i : Nat} (hja : j ≠ a) (hp : (s.get j).parent = some i) : Anc s a j ↔ Anc s a i := by
  constructor
  · rintro ⟨k, hk⟩
    cases k with
    | zero => simp only [up] at hk; cases hk; exact absurd rfl hja
    | succ k => simp only [up, hp] at hk; exact ⟨k, hk⟩
  · rintro ⟨k, hk⟩
    exact ⟨k + 1, by simp only [up, hp]; exact hk⟩

theorem anc_root {s : Seg} {a j : Nat} (hja : j ≠ a) (hp : (s.get j).parent = none) : ¬ Anc s a j := by
  rintro ⟨k, hk⟩
  cases k with
  | zero => simp only [up] at hk; cases hk; exact hja rfl
  | succ k => simp only [up, hp] at hk; cases hk

/-- `s'` is `s` with the root `a` appended to the chain `l` of `p` -/
structure Attached (s s' : Seg) (p a : Nat) (l : List Nat) : Prop where
  free : s'.free = s.free
  cop : ∀ j, (s'.get j).copied = (s.get j).copied
  par : ∀ j, (s'.get j).parent = if j = a then some p else (s.get j).parent
  chi : ∀ j, j ≠ p → (s'.get j).child = (s.get j).child
  kidsP : SibChain s' (s'.get p).child (l ++ [a])
  sibO : ∀ j, j ∉ l → (s'.get j).sibling = (s.get j).sibling

open Classical in
theorem forest_of_attached {s s' : Seg} {p a : Nat} {l : List Nat} (hF : Forest s) (hp : Real s p) (ha : Real s a) (hk : Kids s p l)
    (hroot : (s.get a).parent = none) (hne : a ≠ p) (hanc : ¬ Anc s a p) (hpf : p ∉ s.free) (haf : a ∉ s.free)
    (hd : Attached s s' p a l) : Forest s' := by
  have hreal := real_iff hd.cop
  have hal : a ∉ l := fun hh => by rw [(hk.mem a hh).1] at hroot; cases hroot
  refine ⟨?_, ?_, ?_, ?_, ?_⟩
  · intro i hi
    have hi' := (hreal i).mp hi
    by_cases hip : i = p
    · subst hip
      refine ⟨l ++ [a], hd.kidsP, ?_, ?_, ?_⟩
      · refine List.nodup_append.mpr ⟨hk.nodup, by simp, ?_⟩
        intro x hx y hy hxy
        simp only [List.mem_singleton] at hy
        exact hal (hy ▸ hxy ▸ hx)
      · intro j hj
        rcases List.mem_append.mp hj with hj | hj
        · have hja : j ≠ a := fun hh => hal (hh ▸ hj)
          rw [hd.par j, if_neg hja]
          exact ⟨(hk.mem j hj).1, (hreal j).mpr (hk.mem j hj).2⟩
        · simp only [List.mem_singleton] at hj
          rw [hj, hd.par a, if_pos rfl]
          exact ⟨rfl, (hreal a).mpr ha⟩
      · intro j hj hjp
        rw [hd.par j] at hjp
        split at hjp
        · rename_i hja; rw [hja]; simp
        · exact List.mem_append_left _ (hk.all j ((hreal j).mp hj) hjp)
    · obtain ⟨li, hki⟩ := hF.kids i hi'
      have hdisj : ∀ j ∈ li, j ∉ l := fun j hj hjl => by
        have h1 := (hki.mem j hj).1
        have h2 := (hk.mem j hjl).1
        rw [h1] at h2; cases h2; exact hip rfl
      have hali : a ∉ li := fun hh => by rw [(hki.mem a hh).1] at hroot; cases hroot
      refine ⟨li, ?_, hki.nodup, ?_, ?_⟩
      · rw [hd.chi i hip]
        exact sibSeg_congr (fun j hj => hd.sibO j (hdisj j hj)) hki.chain
      · intro j hj
        have hja : j ≠ a := fun hh => hali (hh ▸ hj)
        rw [hd.par j, if_neg hja]
        exact ⟨(hki.mem j hj).1, (hreal j).mpr (hki.mem j hj).2⟩
      · intro j hj hjp
        rw [hd.par j] at hjp
        split at hjp
        · cases hjp; exact absurd rfl hip
        · exact hki.all j ((hreal j).mp hj) hjp
  · -- the depth function: everything at or below `a` moves down by `depth p + 1`
    obtain ⟨d, hdp⟩ := hF.acyc
    refine ⟨fun j => d j + (if Anc s a j then d p + 1 else 0), fun j i hj hji => ?_⟩
    rw [hd.par j] at hji
    split at hji
    · rename_i hja
      cases hji
      subst hja
      have h1 : Anc s j j := ⟨0, rfl⟩
      simp only [h1, hanc, if_true, if_false]
      omega
    · rename_i hja
      have h0 := hdp j i ((hreal j).mp hj) hji
      have := anc_step (a := a) hja hji
      by_cases h1 : Anc s a j
      · have h2 := this.mp h1
        simp only [h1, h2, if_true]; omega
      · have h2 : ¬ Anc s a i := fun hh => h1 (this.mpr hh)
        simp only [h1, h2, if_false]; omega
  · intro j hj hjp
    rw [hd.par j] at hjp
    split at hjp
    · cases hjp
    · have hjl : j ∉ l := fun hh => by rw [(hk.mem j hh).1] at hjp; cases hjp
      rw [hd.sibO j hjl]
      exact hF.root j ((hreal j).mp hj) hjp
  · intro j i hj hji
    rw [hd.par j] at hji
    split at hji
    · cases hji; exact ⟨(hreal p).mpr hp, by rw [hd.free]; exact hpf⟩
    · have := hF.par j i ((hreal j).mp hj) hji
      exact ⟨(hreal i).mpr this.1, by rw [hd.free]; exact this.2⟩
  · intro f hf
    rw [hd.free] at hf
    obtain ⟨f1, f2, f3⟩ := hF.free f hf
    have hfp : f ≠ p := fun hh => hpf (hh ▸ hf)
    have hfa : f ≠ a := fun hh => haf (hh ▸ hf)
    refine ⟨(hreal f).mpr f1, by rw [hd.chi f hfp]; exact f2, ?_⟩
    rw [hd.par f, if_neg hfa]; exact f3

end GrVerif.Seg

namespace GrVerif.Seg

/-! ## transfer along equal tree fields -/

/-- `s'` has the same tree fields, copy flags and free list as `s` -/
structure TreeSame (s s' : Seg) : Prop where
  free : s'.free = s.free
  fld : ∀ j, (s'.get j).parent = (s.get j).parent ∧ (s'.get j).child = (s.get j).child ∧
    (s'.get j).sibling = (s.get j).sibling ∧ (s'.get j).copied = (s.get j).copied

theorem TreeSame.rfl' (s : Seg) : TreeSame s s := ⟨rfl, fun _ => ⟨rfl, rfl, rfl, rfl⟩⟩
theorem TreeSame.trans {s t u : Seg} (h1 : TreeSame s t) (h2 : TreeSame t u) : TreeSame s u :=
  ⟨by rw [h2.free, h1.free], fun j => by
    have a := h1.fld j; have b := h2.fld j
    exact ⟨by rw [b.1, a.1], by rw [b.2.1, a.2.1], by rw [b.2.2.1, a.2.2.1], by rw [b.2.2.2, a.2.2.2]⟩⟩
theorem TreeSame.symm {s t : Seg} (h : TreeSame s t) : TreeSame t s :=
  ⟨h.free.symm, fun j => by have a := h.fld j; exact ⟨a.1.symm, a.2.1.symm, a.2.2.1.symm, a.2.2.2.symm⟩⟩

theorem TreeSame.upd (s : Seg) (i : Nat) (f : Slot → Slot)
    (hf : ∀ a, (f a).parent = a.parent ∧ (f a).child = a.child ∧ (f a).sibling = a.sibling ∧ (f a).copied = a.copied) :
    TreeSame s (s.upd i f) :=
  ⟨rfl, fun j => by rw [get_upd]; split <;> first | exact hf _ | exact ⟨rfl, rfl, rfl, rfl⟩⟩

theorem sibSeg_treeSame {s s' : Seg} (h : TreeSame s s') {o e : Option Nat} {l : List Nat} (hc : SibSeg s o l e) : SibSeg s' o l e :=
  sibSeg_congr (fun j _ => (h.fld j).2.2.1) hc

theorem forest_congr {s s' : Seg} (h : TreeSame s s') (hF : Forest s) : Forest s' := by
  have hreal : ∀ j, Real s' j ↔ Real s j := fun j => by unfold Real; rw [(h.fld j).2.2.2]
  refine ⟨?_, ?_, ?_, ?_, ?_⟩
  · intro i hi
    obtain ⟨l, hk⟩ := hF.kids i ((hreal i).mp hi)
    refine ⟨l, by rw [(h.fld i).2.1]; exact sibSeg_treeSame h hk.chain, hk.nodup, ?_, ?_⟩
    · intro j hj; rw [(h.fld j).1]; exact ⟨(hk.mem j hj).1, (hreal j).mpr (hk.mem j hj).2⟩
    · intro j hj hp; rw [(h.fld j).1] at hp; exact hk.all j ((hreal j).mp hj) hp
  · obtain ⟨d, hd⟩ := hF.acyc
    exact ⟨d, fun j i hj hp => by rw [(h.fld j).1] at hp; exact hd j i ((hreal j).mp hj) hp⟩
  · intro j hj hp
    rw [(h.fld j).1] at hp; rw [(h.fld j).2.2.1]
    exact hF.root j ((hreal j).mp hj) hp
  · intro j i hj hp
    rw [(h.fld j).1] at hp
    have := hF.par j i ((hreal j).mp hj) hp
    exact ⟨(hreal i).mpr this.1, by rw [h.free]; exact this.2⟩
  · intro f hf
    rw [h.free] at hf
    obtain ⟨f1, f2, f3⟩ := hF.free f hf
    exact ⟨(hreal f).mpr f1, by rw [(h.fld f).2.1]; exact f2, by rw [(h.fld f).1]; exact f3⟩

/-! ## all the children of a slot made roots -/

/-- `s'` is `s` with every member of the chain `l` of `a` made a root, and `a` childless -/
structure DetachedAll (s s' : Seg) (a : Nat) (l : List Nat) : Prop where
  free : s'.free = s.free
  cop : ∀ j, (s'.get j).copied = (s.get j).copied
  par : ∀ j, (s'.get j).parent = if j ∈ l then none else (s.get j).parent
  chiA : (s'.get a).child = none
  chi : ∀ j, j ≠ a → (s'.get j).child = (s.get j).child
  sib : ∀ j, (s'.get j).sibling = if j ∈ l then none else (s.get j).sibling

theorem forest_of_detachedAll {s s' : Seg} {a : Nat} {l : List Nat} (hF : Forest s) (ha : Real s a) (hk : Kids s a l)
    (hd : DetachedAll s s' a l) : Forest s' := by
  have hreal := real_iff hd.cop
  refine ⟨?_, ?_, ?_, ?_, ?_⟩
  · intro i hi
    have hi' := (hreal i).mp hi
    by_cases hia : i = a
    · subst hia
      refine ⟨[], hd.chiA, List.nodup_nil, fun j hj => (by cases hj), ?_⟩
      intro j hj hjp
      rw [hd.par j] at hjp
      split at hjp
      · cases hjp
      · rename_i hjl; exact absurd (hk.all j ((hreal j).mp hj) hjp) hjl
    · obtain ⟨li, hki⟩ := hF.kids i hi'
      have hdisj : ∀ j ∈ li, j ∉ l := fun j hj hjl => by
        have h1 := (hki.mem j hj).1
        have h2 := (hk.mem j hjl).1
        rw [h1] at h2; cases h2; exact hia rfl
      refine ⟨li, ?_, hki.nodup, ?_, ?_⟩
      · rw [hd.chi i hia]
        exact sibSeg_congr (fun j hj => by rw [hd.sib j, if_neg (hdisj j hj)]) hki.chain
      · intro j hj
        rw [hd.par j, if_neg (hdisj j hj)]
        exact ⟨(hki.mem j hj).1, (hreal j).mpr (hki.mem j hj).2⟩
      · intro j hj hjp
        rw [hd.par j] at hjp
        split at hjp
        · cases hjp
        · exact hki.all j ((hreal j).mp hj) hjp
  · obtain ⟨d, hdp⟩ := hF.acyc
    refine ⟨d, fun j i hj hji => ?_⟩
    rw [hd.par j] at hji
    split at hji
    · cases hji
    · exact hdp j i ((hreal j).mp hj) hji
  · intro j hj hjp
    rw [hd.sib j]
    split
    · rfl
    · rename_i hjl
      rw [hd.par j, if_neg hjl] at hjp
      exact hF.root j ((hreal j).mp hj) hjp
  · intro j i hj hji
    rw [hd.par j] at hji
    split at hji
    · cases hji
    · have := hF.par j i ((hreal j).mp hj) hji
      exact ⟨(hreal i).mpr this.1, by rw [hd.free]; exact this.2⟩
  · intro f hf
    rw [hd.free] at hf
    obtain ⟨f1, f2, f3⟩ := hF.free f hf
    refine ⟨(hreal f).mpr f1, ?_, ?_⟩
    · by_cases hfa : f = a
      · rw [hfa]; exact hd.chiA
      · rw [hd.chi f hfa]; exact f2
    · rw [hd.par f]; split
      · rfl
      · exact f3

/-! ## a root without children is returned to the free list -/

/-- `s'` is `s` with the slot `a` reset and pushed on the free list -/
structure Recycled (s s' : Seg) (a : Nat) : Prop where
  free : s'.free = a :: s.free
  slotA : (s'.get a).parent = none ∧ (s'.get a).child = none ∧ (s'.get a).sibling = none ∧ (s'.get a).copied = false
  other : ∀ j, j ≠ a → (s'.get j).parent = (s.get j).parent ∧ (s'.get j).child = (s.get j).child ∧
    (s'.get j).sibling = (s.get j).sibling ∧ (s'.get j).copied = (s.get j).copied

/-- recycling a slot that no real slot points at keeps the forest -/
theorem forest_of_recycled_gen {s s' : Seg} {a : Nat} (hF : Forest s)
    (hnone : ∀ j, Real s j → j ≠ a → (s.get j).parent ≠ some a)
    (hout : ∀ i l, Real s i → i ≠ a → Kids s i l → a ∉ l)
    (hr : Recycled s s' a) : Forest s' := by
  have hreal : ∀ j, j ≠ a → (Real s' j ↔ Real s j) := fun j hj => by unfold Real; rw [(hr.other j hj).2.2.2]
  have hra : Real s' a := hr.slotA.2.2.2
  refine ⟨?_, ?_, ?_, ?_, ?_⟩
  · intro i hi
    by_cases hia : i = a
    · subst hia
      refine ⟨[], hr.slotA.2.1, List.nodup_nil, fun j hj => (by cases hj), ?_⟩
      intro j hj hjp
      by_cases hji : j = i
      · rw [hji, hr.slotA.1] at hjp; cases hjp
      · rw [(hr.other j hji).1] at hjp
        exact absurd hjp (hnone j ((hreal j hji).mp hj) hji)
    · obtain ⟨l, hk⟩ := hF.kids i ((hreal i hia).mp hi)
      have hal : a ∉ l := hout i l ((hreal i hia).mp hi) hia hk
      refine ⟨l, ?_, hk.nodup, ?_, ?_⟩
      · rw [(hr.other i hia).2.1]
        exact sibSeg_congr (fun j hj => (hr.other j (fun hh => hal (hh ▸ hj))).2.2.1) hk.chain
      · intro j hj
        have hja : j ≠ a := fun hh => hal (hh ▸ hj)
        rw [(hr.other j hja).1]
        exact ⟨(hk.mem j hj).1, (hreal j hja).mpr (hk.mem j hj).2⟩
      · intro j hj hjp
        by_cases hja : j = a
        · rw [hja, hr.slotA.1] at hjp; cases hjp
        · rw [(hr.other j hja).1] at hjp
          exact hk.all j ((hreal j hja).mp hj) hjp
  · obtain ⟨d, hdp⟩ := hF.acyc
    refine ⟨d, fun j i hj hji => ?_⟩
    by_cases hja : j = a
    · rw [hja, hr.slotA.1] at hji; cases hji
    · rw [(hr.other j hja).1] at hji
      exact hdp j i ((hreal j hja).mp hj) hji
  · intro j hj hjp
    by_cases hja : j = a
    · rw [hja]; exact hr.slotA.2.2.1
    · rw [(hr.other j hja).1] at hjp; rw [(hr.other j hja).2.2.1]
      exact hF.root j ((hreal j hja).mp hj) hjp
  · intro j i hj hji
    by_cases hja : j = a
    · rw [hja, hr.slotA.1] at hji; cases hji
    · rw [(hr.other j hja).1] at hji
      have hjr := (hreal j hja).mp hj
      have := hF.par j i hjr hji
      have hia : i ≠ a := fun hh => hnone j hjr hja (hh ▸ hji)
      refine ⟨(hreal i hia).mpr this.1, ?_⟩
      rw [hr.free]
      intro hh
      rcases List.mem_cons.mp hh with h1 | h1
      · exact hia h1
      · exact this.2 h1
  · intro f hf
    rw [hr.free] at hf
    rcases List.mem_cons.mp hf with h1 | h1
    · rw [h1]; exact ⟨hra, hr.slotA.2.1, hr.slotA.1⟩
    · obtain ⟨f1, f2, f3⟩ := hF.free f h1
      by_cases hfa : f = a
      · rw [hfa]; exact ⟨hra, hr.slotA.2.1, hr.slotA.1⟩
      · exact ⟨(hreal f hfa).mpr f1, by rw [(hr.other f hfa).2.1]; exact f2, by rw [(hr.other f hfa).1]; exact f3⟩

/-- recycling a real, isolated root keeps the forest -/
theorem forest_of_recycled {s s' : Seg} {a : Nat} (hF : Forest s) (ha : Real s a) (hp : (s.get a).parent = none)
    (hc : (s.get a).child = none) (hr : Recycled s s' a) : Forest s' := by
  refine forest_of_recycled_gen hF ?_ ?_ hr
  · intro j hj _ hjp
    obtain ⟨l, hk⟩ := hF.kids a ha
    have := hk.all j hj hjp
    have hch := hk.chain
    rw [hc] at hch
    cases l with
    | nil => cases this
    | cons x r => cases hch.1
  · intro i l _ _ hk hh
    rw [(hk.mem a hh).1] at hp; cases hp

/-- recycling a temporary copy keeps the forest -/
theorem forest_of_recycled_copy {s s' : Seg} {a : Nat} (hF : Forest s) (ha : ¬ Real s a) (hr : Recycled s s' a) : Forest s' := by
  refine forest_of_recycled_gen hF ?_ ?_ hr
  · intro j hj _ hjp; exact ha (hF.par j a hj hjp).1
  · intro i l _ _ hk hh; exact ha (hk.mem a hh).2

end GrVerif.Seg

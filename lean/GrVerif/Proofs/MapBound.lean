import GrVerif.Proofs.Cursor
/-!
# The `map` register of a rule action stays inside the slot map

`next`/`copy_next` advance `map` while it stands inside the `m_size` cells of the map (`if (map - &smap[0] >= int(smap.size())) DIE`),
`insert` moves it back (not in front of cell 0): so `0 ≤ map ≤ m_size + 1` throughout, and with `m_size ≤ MAX_SLOTS` the array of
`MAX_SLOTS + 2` cells (after the repair `fix: the slot map has room …`; the pinned tree had `MAX_SLOTS + 1`) is never left: neither
`temp_copy`'s `*map = copy` nor the write-back `*map = is` of `Machine::run` is out of bounds.
-/
set_option linter.unusedVariables false
set_option linter.unusedSimpArgs false
namespace GrVerif.Action
open GrVerif.Vm GrVerif.Seg GrVerif.Gen.Vm

/-- the `map` register stands on a cell of the array, at most one cell behind the cells in use -/
def MB (c : Ctx) : Prop := 0 ≤ c.map ∧ c.map ≤ (c.size : Int) + 1 ∧ c.size + 2 ≤ c.smap.size

/-- the three things `MB` reads are unchanged -/
def SameMap (c c' : Ctx) : Prop := c'.map = c.map ∧ c'.size = c.size ∧ c'.smap.size = c.smap.size

theorem MB.same {c c' : Ctx} (h : MB c) (hs : SameMap c c') : MB c' := by
  obtain ⟨e1, e2, e3⟩ := hs
  unfold MB; rw [e1, e2, e3]; exact h

theorem SameMap.rfl' (c : Ctx) : SameMap c c := ⟨rfl, rfl, rfl⟩
theorem SameMap.tr {a b c : Ctx} (h1 : SameMap a b) (h2 : SameMap b c) : SameMap a c :=
  ⟨h2.1.trans h1.1, h2.2.1.trans h1.2.1, h2.2.2.trans h1.2.2⟩

theorem sameMap_withSeg (c : Ctx) (sg : Seg) : SameMap c (c.withSeg sg) := ⟨rfl, rfl, rfl⟩
theorem sameMap_setIs (c : Ctx) (v : Option Nat) : SameMap c (c.setIs v) := ⟨rfl, rfl, rfl⟩
theorem sameMap_setStatus (c : Ctx) (v : Status) : SameMap c (c.setStatus v) := ⟨rfl, rfl, rfl⟩
theorem sameMap_setMaxSize (c : Ctx) (v : Int) : SameMap c (c.setMaxSize v) := ⟨rfl, rfl, rfl⟩
theorem sameMap_setCell (c : Ctx) (k : Nat) (v : Option Nat) : SameMap c (c.setCell k v) :=
  ⟨rfl, rfl, by unfold Ctx.setCell; simp⟩
theorem sameMap_markHighpassed (c : Ctx) (b : Bool) : SameMap c (c.markHighpassed b) := by
  unfold Ctx.markHighpassed; split <;> exact ⟨rfl, rfl, rfl⟩
theorem sameMap_moveHighwater (c : Ctx) (v : Option Nat) : SameMap c (c.moveHighwater v) := by
  unfold Ctx.moveHighwater; split <;> exact ⟨rfl, rfl, rfl⟩
theorem sameMap_backOnto (c : Ctx) (v : Option Nat) : SameMap c (c.backOnto v) := by
  unfold Ctx.backOnto; split
  · exact sameMap_markHighpassed _ _
  · exact SameMap.rfl' c
theorem sameMap_slotat (c : Ctx) (x : Int) : SameMap c (slotat c x).2 := by
  unfold slotat; simp only []; split <;> exact ⟨rfl, rfl, rfl⟩
theorem sameMap_die (c : Ctx) : SameMap c ((c.setIs c.seg.last).setStatus .died_early) := ⟨rfl, rfl, rfl⟩

theorem die_MB (c : Ctx) (h : MB c) : OutcomeP MB (die c) := h.same (sameMap_die c)

theorem next_MB (c : Ctx) (h : MB c) : OutcomeP MB (opNext c) := by
  unfold opNext
  split
  · exact die_MB c h
  · rename_i hlt
    obtain ⟨h0, h1, h2⟩ := h
    split
    · show MB _
      refine ⟨?_, ?_, ?_⟩
      · show 0 ≤ c.map + 1; omega
      · show c.map + 1 ≤ ((c.markHighpassed true).size : Int) + 1
        rw [(sameMap_markHighpassed c true).2.1]; omega
      · show (c.markHighpassed true).size + 2 ≤ (c.markHighpassed true).smap.size
        rw [(sameMap_markHighpassed c true).2.1, (sameMap_markHighpassed c true).2.2]; exact h2
    · show MB _
      exact ⟨by show 0 ≤ c.map + 1; omega, by show c.map + 1 ≤ (c.size : Int) + 1; omega, h2⟩

theorem insert_MB (c : Ctx) (h : MB c) : OutcomeP MB (opInsert c) := by
  unfold opInsert
  simp only []
  have h' : MB (c.setMaxSize (c.maxSize - 1)) := h.same (sameMap_setMaxSize _ _)
  split
  · exact die_MB _ h'
  · split
    · exact die_MB _ h'
    · rename_i n seg heq
      show MB _
      have hs : SameMap c ((((c.setMaxSize (c.maxSize - 1)).markHighpassed false).withSeg ((seg.linkNew n (skipDeleted seg (seg.slots.size + 1) (c.setMaxSize (c.maxSize - 1)).is)).addGlyphs 1)).setIs (some n)) :=
        SameMap.tr (SameMap.tr (SameMap.tr (sameMap_setMaxSize c _) (sameMap_markHighpassed _ _)) (sameMap_withSeg _ _)) (sameMap_setIs _ _)
      obtain ⟨h0, h1, h2⟩ := h
      obtain ⟨e1, e2, e3⟩ := hs
      refine ⟨?_, ?_, ?_⟩
      · show 0 ≤ (if (c.setMaxSize (c.maxSize - 1)).map ≠ 0 then (c.setMaxSize (c.maxSize - 1)).map - 1 else (c.setMaxSize (c.maxSize - 1)).map)
        show 0 ≤ (if c.map ≠ 0 then c.map - 1 else c.map)
        split <;> omega
      · show (if c.map ≠ 0 then c.map - 1 else c.map) ≤ _
        simp only [Ctx.setMap]
        rw [e2]
        split <;> omega
      · simp only [Ctx.setMap]
        rw [e2, e3]; exact h2

theorem delete_MB (c : Ctx) (h : MB c) : OutcomeP MB (opDelete c) := by
  unfold opDelete
  split
  · exact die_MB c h
  · simp only []
    split
    · exact die_MB c h
    · show MB _
      exact h.same (SameMap.tr (SameMap.tr (SameMap.tr (sameMap_moveHighwater c _) (sameMap_withSeg _ _)) (sameMap_setIs _ _)) (sameMap_backOnto _ _))

theorem putCopy_MB (c : Ctx) (r : Int) (h : MB c) : OutcomeP MB (opPutCopy c r) := by
  unfold opPutCopy
  split
  · exact h
  · simp only []
    split
    · exact h
    · have hs := h.same (sameMap_slotat c r)
      split
      · split
        · split
          · exact die_MB _ hs
          · exact hs.same (sameMap_withSeg _ _)
        · exact hs.same (sameMap_withSeg _ _)
      · exact hs.same (sameMap_withSeg _ _)

theorem assocFold_sameMap (c0 : Ctx) : ∀ (refs : List Int) (acc : Int × Int × Ctx), SameMap c0 acc.2.2 → SameMap c0 (refs.foldl assocStep acc).2.2 := by
  intro refs
  induction refs with
  | nil => intro acc hs; exact hs
  | cons r rest ih =>
    intro acc hs
    apply ih
    unfold assocStep
    simp only []
    split <;> exact SameMap.tr hs (sameMap_slotat _ _)

theorem assoc_MB (c : Ctx) (rs : List Int) (h : MB c) : OutcomeP MB (opAssoc c rs) := by
  unfold opAssoc
  simp only []
  have hs := assocFold_sameMap c rs (-1, -1, c) (SameMap.rfl' c)
  split
  · split
    · exact (h.same hs).same (sameMap_withSeg _ _)
    · trivial
  · exact h.same hs

theorem tempCopy_MB (c : Ctx) (h : MB c) : OutcomeP MB (opTempCopy c) := by
  unfold opTempCopy
  split
  · split
    · exact (h.same (sameMap_withSeg _ _)).same (sameMap_setCell _ _ _)
    · trivial
  · exact die_MB c h

theorem setAttTo_sameMap (c : Ctx) (i sub : Nat) (v : Int) : SameMap c (setAttTo c i sub v) := by
  unfold setAttTo
  simp only []
  split
  · split
    · exact SameMap.rfl' c
    · split
      · exact SameMap.rfl' c
      · exact sameMap_withSeg _ _
  · exact SameMap.rfl' c

theorem attrSet_MB (c : Ctx) (a b : Nat) (v : Int) (h : MB c) : OutcomeP MB (opAttrSet c a b v) := by
  unfold opAttrSet
  split
  · trivial
  · simp only []
    split
    · exact h.same (setAttTo_sameMap _ _ _ _)
    · split <;> first | exact h.same (sameMap_withSeg _ _) | exact h

theorem putGlyph_MB (c : Ctx) (k : Nat) (h : MB c) : OutcomeP MB (opPutGlyph c k) := by
  unfold opPutGlyph
  split
  · exact h.same (sameMap_withSeg _ _)
  · trivial

theorem putSubs_MB (c : Ctx) (r : Int) (i o : Nat) (h : MB c) : OutcomeP MB (opPutSubs c r i o) := by
  unfold opPutSubs
  simp only []
  have hs := h.same (sameMap_slotat c r)
  split
  · split
    · exact hs.same (sameMap_withSeg _ _)
    · trivial
  · exact hs

theorem ops_MB : OpsPreserve MB :=
  ⟨next_MB, insert_MB, delete_MB, putCopy_MB, assoc_MB, tempCopy_MB, attrSet_MB, putGlyph_MB, putSubs_MB, fun c x h => h.same (sameMap_slotat c x)⟩

/-! ## no opcode faults on the `map` register -/

def mapFault (w : String) : Prop := w = "*map = is outside m_slot_map" ∨ w = "temp_copy: *map outside m_slot_map"

instance (w : String) : Decidable (mapFault w) := by unfold mapFault; infer_instance

/-- the faults of the model that the theorems of this group exclude: a write through a null cursor, a write outside the slot map, an
operand read outside the code's data area -/
def engineFault (w : String) : Prop := nullFault w ∨ mapFault w ∨ w = "data"

theorem not_mapFault_stack : ¬ mapFault "stack" := by unfold mapFault; decide
theorem not_mapFault_data : ¬ mapFault "data" := by unfold mapFault; decide
theorem not_mapFault_opcode : ¬ mapFault "opcode not modelled" := by unfold mapFault; decide

theorem next_noFault (c : Ctx) (w : String) : opNext c ≠ .fault w := by
  unfold opNext
  split
  · unfold Seg.die; intro h; cases h
  · split <;> (intro h; cases h)

theorem assoc_notMap (c : Ctx) (rs : List Int) (w : String) (h : opAssoc c rs = .fault w) : ¬ mapFault w := by
  unfold opAssoc at h
  simp only [] at h
  split at h
  · split at h
    · cases h
    · cases h; unfold mapFault; decide
  · cases h

theorem attrSet_notMap (c : Ctx) (a b : Nat) (v : Int) (w : String) (h : opAttrSet c a b v = .fault w) : ¬ mapFault w := by
  unfold opAttrSet at h
  split at h
  · cases h; unfold mapFault; decide
  · simp only [] at h
    split at h
    · cases h
    · split at h <;> cases h

theorem putGlyph_notMap (c : Ctx) (k : Nat) (w : String) (h : opPutGlyph c k = .fault w) : ¬ mapFault w := by
  unfold opPutGlyph at h
  split at h
  · cases h
  · cases h; unfold mapFault; decide

theorem putSubs_notMap (c : Ctx) (r : Int) (i o : Nat) (w : String) (h : opPutSubs c r i o = .fault w) : ¬ mapFault w := by
  unfold opPutSubs at h
  simp only [] at h
  split at h
  · split at h
    · cases h
    · cases h; unfold mapFault; decide
  · cases h

theorem tempCopy_noFault (c : Ctx) (hm : MB c) (w : String) : opTempCopy c ≠ .fault w := by
  unfold opTempCopy
  obtain ⟨h0, h1, h2⟩ := hm
  split
  · split
    · intro h; cases h
    · rename_i hn
      exact absurd ⟨h0, by omega⟩ hn
  · unfold Seg.die; intro h; cases h

theorem withCtx_fault {vm : Vm} {o : Outcome} {d : Nat} {w : String} (h : withCtx vm o d = .inr (.fault w)) : o = .fault w ∨ w = "stack" := by
  unfold withCtx at h
  cases o with
  | cont c => cases h
  | died c =>
    simp only [] at h
    split at h
    · cases h
    · cases h; exact .inr rfl
  | fault w' => cases h; exact .inl rfl

/-- one instruction: under `MB` no fault is a fault of the `map` register -/
theorem stepInstr_noMapFault (s : St) (i : Instr) (hm : MB s.ctx) {w : String} (h : stepInstr s i = .inr (.fault w)) : ¬ mapFault w := by
  obtain ⟨opc, ps⟩ := i
  have wc : ∀ (o : Outcome) (d : Nat), (∀ w', o = .fault w' → ¬ mapFault w') → withCtx s.vm o d = .inr (.fault w) → ¬ mapFault w := by
    intro o d ho hw
    rcases withCtx_fault hw with h1 | h1
    · exact ho w h1
    · rw [h1]; exact not_mapFault_stack
  unfold stepInstr at h
  simp only at h
  split at h
  · exact wc _ _ (fun w' hw' => absurd hw' (next_noFault _ _)) h
  · exact wc _ _ (fun w' hw' => absurd hw' (next_noFault _ _)) h
  · exact wc _ _ (fun w' hw' => absurd hw' (insert_noFault _ _)) h
  · exact wc _ _ (fun w' hw' => absurd hw' (delete_noFault _ _)) h
  · exact wc _ _ (fun w' hw' => absurd hw' (putCopy_noFault _ _ _)) h
  · exact wc _ _ (fun w' hw' => assoc_notMap _ _ _ hw') h
  · exact wc _ _ (fun w' hw' => absurd hw' (tempCopy_noFault _ hm _)) h
  · exact wc _ _ (fun w' hw' => putGlyph_notMap _ _ _ hw') h
  · exact wc _ _ (fun w' hw' => putSubs_notMap _ _ _ _ _ hw') h
  · split at h
    · split at h
      · cases h
      · cases h; exact not_mapFault_stack
    · cases h
  · split at h
    · split at h
      · cases h
      · cases h; exact not_mapFault_stack
    · cases h
  · split at h
    · split at h
      · cases h
      · cases h; exact not_mapFault_stack
    · cases h
  · split at h
    · split at h
      · cases h
      · cases h
      · rename_i heq; cases h; exact attrSet_notMap _ _ _ _ _ heq
    · cases h; exact not_mapFault_stack
  · split at h
    · split at h
      · cases h
      · cases h
      · rename_i heq; cases h; exact attrSet_notMap _ _ _ _ _ heq
    · cases h; exact not_mapFault_stack
  · split at h
    · split at h
      · cases h
      · cases h
      · rename_i heq; cases h; exact attrSet_notMap _ _ _ _ _ heq
    · cases h; exact not_mapFault_stack
  · split at h
    · split at h
      · cases h
      · cases h
      · rename_i heq; cases h; exact attrSet_notMap _ _ _ _ _ heq
    · cases h; exact not_mapFault_stack
  · exact wc _ _ (fun w' hw' => putGlyph_notMap _ _ _ hw') h
  · exact wc _ _ (fun w' hw' => putSubs_notMap _ _ _ _ _ hw') h
  · split at h
    · cases h; exact not_mapFault_opcode
    · split at h
      · cases h
      · cases h
      · cases h; exact not_mapFault_stack
      · cases h; exact not_mapFault_data

theorem runLoop_noMapFault : ∀ (is : List Instr) (s : St), MB s.ctx → ∀ {w : String}, runLoop is s = .fault w → ¬ mapFault w := by
  intro is
  induction is with
  | nil => intro s _ w h; unfold runLoop at h; cases h
  | cons i rest ih =>
    intro s hm w h
    have hp := stepInstr_preserves MB ops_MB s i hm
    unfold runLoop at h
    split at h
    · rename_i e heq
      subst h
      exact stepInstr_noMapFault s i hm heq
    · rename_i s' heq
      rw [heq] at hp
      split at h
      · exact ih s' hp h
      · cases h

theorem finishAction_noMapFault (s : St) (dl : Bool) (hm : MB s.ctx) {w : String} (e : finishAction s dl = .error w) : ¬ mapFault w := by
  unfold finishAction at e
  simp only [] at e
  obtain ⟨h0, h1, h2⟩ := hm
  split at e
  · rename_i hn
    exact absurd ⟨h0, by omega⟩ hn
  · split at e
    · cases e; exact not_mapFault_stack
    · split at e
      · cases e
      · split at e <;> cases e

/-- **An action never leaves the slot map**: started with the `map` register inside the map, neither `temp_copy` nor the write-back of
`Machine::run` writes outside `m_slot_map`, whatever the code -/
theorem doAction_noMapFault {is : List Instr} {dl : Bool} {mr : Nat} {data : List Nat} {ctx : Ctx} (hm : MB (enterCtx (startCtx ctx)))
    {w : String} (e : doAction is dl mr data ctx = .error w) : ¬ mapFault w := by
  unfold doAction at e
  simp only [] at e
  split at e
  · cases e
  · have hr := runLoop_preserves MB ops_MB is { vm := initVm data, ctx := enterCtx (startCtx ctx) } hm
    split at e
    · rename_i w' heq
      cases e
      exact runLoop_noMapFault is _ hm heq
    · rename_i s heq
      rw [heq] at hr
      exact finishAction_noMapFault s dl hr e

end GrVerif.Action

import GrVerif.Proofs.PassLoad
import GrVerif.Proofs.Loader
import GrVerif.Proofs.FsmSafe
set_option linter.unusedVariables false
set_option linter.unusedSimpArgs false
/-!
# From the loader to the matcher   (C01 → C02)

What `Pass::readPass` accepts (layout, `readRanges`, `readStates`) has the shape `Pass::runFSM` relies on: the pass-engine
model's `PassT` built from the loaded tables satisfies `TablesWF`, hence (`Proofs/FsmSafe.lean`) the matcher never indexes
outside a table of an accepted pass.  (The rule records and their code – `readRules`, the code loader – are not modelled.)
-/
namespace GrVerif.Loader
open GrVerif.Pass GrVerif.Gen.Err

/-- the pass as the engine sees it after a successful load: the transition table row by row, the rule list of each success
state cut out of the rule map -/
def toPassT (L : PassLayout) (cols : List Nat) (T : PassTables) (es : List Nat) (rules : Array Rule) : PassT :=
  { maxLoop := L.hdr.maxLoop, minPre := L.arr.minPre, maxPre := L.arr.maxPre, numColumns := L.hdr.numColumns,
    numTransition := L.hdr.numTransition, numStates := L.hdr.numStates, numSuccess := L.hdr.numSuccess,
    cols := cols.toArray, starts := T.starts.toArray,
    trans := ((List.range L.hdr.numTransition).map fun s => ((T.trans.drop (s * L.hdr.numColumns)).take L.hdr.numColumns).toArray).toArray,
    ruleMap := (T.ruleRange.map fun (r : Nat × Nat) => (es.drop r.1).take (r.2 - r.1)).toArray,
    rules := rules, reverseDir := (L.hdr.flags / 32) % 2 = 1 }

/-- **an accepted pass has well-formed state tables** -/
theorem loaded_tables_wf (b : List Nat) (L : PassLayout) (hL : LayoutOK b L) (cols : List Nat) (hc : ColsOK L.hdr.numColumns cols)
    (T : PassTables) (hT : TablesOK L T) (es : List Nat) (rules : Array Rule) : TablesWF (toPassT L cols T es rules) := by
  refine ⟨?_, ?_, ?_, ?_, ?_⟩
  · exact ⟨hL.hdr.fsm.1, hL.hdr.fsm.2.1, hL.hdr.fsm.2.2.1⟩
  · intro g hg
    have hg' : g < cols.length := by simpa [toPassT] using hg
    have : (toPassT L cols T es rules).cols.getD g 0xFFFF = cols[g] := by
      simp [toPassT, Array.getD_eq_getD_getElem?, hg']
    rw [this]
    exact hc cols[g] (List.getElem_mem hg')
  · simp [toPassT]
  · intro s hs
    have hs' : s < L.hdr.numTransition := hs
    have hrow : (toPassT L cols T es rules).trans.getD s #[] = ((T.trans.drop (s * L.hdr.numColumns)).take L.hdr.numColumns).toArray := by
      simp [toPassT, Array.getD_eq_getD_getElem?, hs']
    rw [hrow]
    have hlen : T.trans.length = L.hdr.numTransition * L.hdr.numColumns := hT.trans.1
    have hfit : s * L.hdr.numColumns + L.hdr.numColumns ≤ T.trans.length := by
      rw [hlen]
      have : (s + 1) * L.hdr.numColumns ≤ L.hdr.numTransition * L.hdr.numColumns := Nat.mul_le_mul_right _ (by omega)
      rw [Nat.add_mul] at this
      omega
    refine ⟨by simp [toPassT]; omega, fun c hcn => ?_⟩
    have hc' : c < L.hdr.numColumns := hcn
    have hin : c < ((T.trans.drop (s * L.hdr.numColumns)).take L.hdr.numColumns).length := by simp; omega
    have : (((T.trans.drop (s * L.hdr.numColumns)).take L.hdr.numColumns).toArray).getD c 0 =
        ((T.trans.drop (s * L.hdr.numColumns)).take L.hdr.numColumns)[c] := by
      rw [Array.getD_eq_getD_getElem?]
      simp only [List.getElem?_toArray]
      rw [List.getElem?_eq_getElem hin]; rfl
    rw [this]
    have hm : ((T.trans.drop (s * L.hdr.numColumns)).take L.hdr.numColumns)[c] ∈ T.trans :=
      List.mem_of_mem_drop (List.mem_of_mem_take (List.getElem_mem hin))
    exact hT.trans.2 _ hm
  · simp [toPassT, hT.rules.1]

/-- … hence the matcher run on it never indexes outside a table (and is the modelled walk) -/
theorem loaded_pass_matcher_safe (b : List Nat) (L : PassLayout) (hL : LayoutOK b L) (cols : List Nat) (hc : ColsOK L.hdr.numColumns cols)
    (T : PassTables) (hT : TablesOK L T) (es : List Nat) (rules : Array Rule) (gids : List Nat) (state free : Nat) (rs : List Nat) (pushed : Nat) :
    fsmScanC (toPassT L cols T es rules) gids state free rs pushed = .ok (fsmScan (toPassT L cols T es rules) gids state free rs pushed) :=
  fsmScanC_eq _ (loaded_tables_wf b L hL cols hc T hT es rules) gids state free rs pushed

end GrVerif.Loader

import GrVerif.Model.Feat
/-! Bit-field lemmas for feature packing: writing a field and reading it back, and leaving other fields alone. -/
set_option linter.unusedSimpArgs false
set_option linter.unusedVariables false
namespace GrVerif.Feat

/-- the field `[bits, bits+need)` of a 32-bit word -/
def inField (bits need i : Nat) : Bool := decide (bits ≤ i) && decide (i < bits + need)

/-- `(w & ~mask) | (v << bits)` on 32-bit words -/
def putField (bits need w v : Nat) : Nat :=
  (w &&& (4294967295 - ((2 ^ need - 1) <<< bits) % 2^32)) ||| ((v <<< bits) % 2^32)
/-- `(w & mask) >> bits` -/
def getField (bits need w : Nat) : Nat := (w &&& ((2 ^ need - 1) <<< bits) % 2^32) >>> bits

theorem mask_small (bits need : Nat) (h : bits + need ≤ 32) : ((2 ^ need - 1) <<< bits) < 2^32 := by
  rw [Nat.shiftLeft_eq]
  have h1 : 2 ^ need - 1 < 2 ^ need := Nat.sub_lt (Nat.two_pow_pos _) (by decide)
  calc (2 ^ need - 1) * 2 ^ bits < 2 ^ need * 2 ^ bits := Nat.mul_lt_mul_of_pos_right h1 (Nat.two_pow_pos _)
    _ = 2 ^ (need + bits) := by rw [Nat.pow_add]
    _ ≤ 2 ^ 32 := Nat.pow_le_pow_right (by decide) (by omega)

theorem testBit_mask (bits need i : Nat) (h : bits + need ≤ 32) :
    (((2 ^ need - 1) <<< bits) % 2^32).testBit i = inField bits need i := by
  rw [Nat.mod_eq_of_lt (mask_small bits need h), Nat.testBit_shiftLeft, Nat.testBit_two_pow_sub_one]
  unfold inField
  by_cases c : bits ≤ i
  · simp [c]; omega
  · simp [c]

theorem testBit_notmask (bits need i : Nat) (h : bits + need ≤ 32) :
    (4294967295 - ((2 ^ need - 1) <<< bits) % 2^32).testBit i = (decide (i < 32) && !inField bits need i) := by
  have hm := mask_small bits need h
  rw [Nat.mod_eq_of_lt hm]
  have e : 4294967295 - (2 ^ need - 1) <<< bits = 2 ^ 32 - ((2 ^ need - 1) <<< bits + 1) := by omega
  rw [e, Nat.testBit_two_pow_sub_succ hm]
  have := testBit_mask bits need i h
  rw [Nat.mod_eq_of_lt hm] at this
  rw [this]

theorem testBit_val (bits v i : Nat) :
    ((v <<< bits) % 2^32).testBit i = (decide (i < 32) && decide (bits ≤ i) && v.testBit (i - bits)) := by
  rw [Nat.testBit_mod_two_pow, Nat.testBit_shiftLeft]
  simp [Bool.and_assoc]

theorem testBit_putField (bits need w v i : Nat) (h : bits + need ≤ 32) :
    (putField bits need w v).testBit i =
      ((w.testBit i && decide (i < 32) && !inField bits need i) || (decide (i < 32) && decide (bits ≤ i) && v.testBit (i - bits))) := by
  unfold putField
  rw [Nat.testBit_or, Nat.testBit_and, testBit_notmask bits need i h, testBit_val]
  simp [Bool.and_assoc]

theorem testBit_ge_false {v n i : Nat} (hv : v < 2 ^ n) (hi : n ≤ i) : v.testBit i = false :=
  Nat.testBit_lt_two_pow (Nat.lt_of_lt_of_le hv (Nat.pow_le_pow_right (by decide) hi))

/-- **write then read**: the field holds exactly the value written -/
theorem get_put (bits need w v : Nat) (h : bits + need ≤ 32) (hv : v < 2 ^ need) :
    getField bits need (putField bits need w v) = v := by
  apply Nat.eq_of_testBit_eq
  intro j
  unfold getField
  rw [Nat.testBit_shiftRight, Nat.testBit_and, testBit_mask _ _ _ h, testBit_putField _ _ _ _ _ h]
  by_cases c : j < need
  · have : inField bits need (bits + j) = true := by simp [inField]; omega
    have h32 : bits + j < 32 := by omega
    simp [this, h32]
  · have : inField bits need (bits + j) = false := by simp [inField]; omega
    simp [this, testBit_ge_false hv (by omega : need ≤ j)]

/-- **frame**: a disjoint field of the same word is not affected -/
theorem get_put_other (bits need bits' need' w v : Nat) (h : bits + need ≤ 32) (h' : bits' + need' ≤ 32)
    (hv : v < 2 ^ need) (hd : bits' + need' ≤ bits ∨ bits + need ≤ bits') :
    getField bits' need' (putField bits need w v) = getField bits' need' w := by
  apply Nat.eq_of_testBit_eq
  intro j
  unfold getField
  rw [Nat.testBit_shiftRight, Nat.testBit_shiftRight, Nat.testBit_and, Nat.testBit_and, testBit_mask _ _ _ h',
    testBit_putField _ _ _ _ _ h]
  by_cases c : j < need'
  · have i32 : bits' + j < 32 := by omega
    have nf : inField bits need (bits' + j) = false := by simp [inField]; omega
    rcases hd with hd | hd
    · have : ¬ bits ≤ bits' + j := by omega
      simp [nf, i32, this]
    · have : v.testBit (bits' + j - bits) = false := testBit_ge_false hv (by omega)
      simp [nf, i32, this]
  · have : inField bits' need' (bits' + j) = false := by simp [inField]; omega
    simp [this]

theorem putField_lt (bits need w v : Nat) (hw : w < 2^32) : putField bits need w v < 2^32 := by
  unfold putField
  apply Nat.or_lt_two_pow
  · exact Nat.lt_of_le_of_lt Nat.and_le_left hw
  · exact Nat.mod_lt _ (Nat.two_pow_pos 32)

theorem getField_zero (bits need : Nat) : getField bits need 0 = 0 := by simp [getField]

end GrVerif.Feat

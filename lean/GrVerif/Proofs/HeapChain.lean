import GrVerif.Proofs.HeapLift
set_option linter.unusedVariables false
set_option linter.unusedSimpArgs false
namespace GrVerif.Seg

/-- `l` is a doubly linked run: the first element's `prev` is `p`, the last element's `next` is `e` -/
def Chain (s : Seg) (e : Option Nat) : Option Nat → List Nat → Prop
  | _, [] => True
  | p, i :: rest => (s.get i).prev = p ∧ (s.get i).next = (rest.head?).or e ∧ Chain s e (some i) rest

theorem chain_congr {s s' : Seg} {e : Option Nat} : ∀ {l : List Nat} {p : Option Nat},
    (∀ j ∈ l, (s'.get j).next = (s.get j).next ∧ (s'.get j).prev = (s.get j).prev) → Chain s e p l → Chain s' e p l := by
  intro l
  induction l with
  | nil => intro p _ _; trivial
  | cons i rest ih =>
    intro p h hc
    obtain ⟨h1, h2, h3⟩ := hc
    have hi := h i (List.mem_cons_self)
    exact ⟨by rw [hi.2]; exact h1, by rw [hi.1]; exact h2, ih (fun j hj => h j (List.mem_cons_of_mem _ hj)) h3⟩

theorem chain_append {s : Seg} {e : Option Nat} : ∀ {a b : List Nat} {p : Option Nat},
    Chain s e p (a ++ b) ↔ Chain s ((b.head?).or e) p a ∧ Chain s e ((a.getLast?).or p) b := by
  intro a
  induction a with
  | nil => intro b p; simp [Chain]
  | cons i rest ih =>
    intro b p
    simp only [List.cons_append, Chain]
    rw [ih]
    have hh : (rest ++ b).head?.or e = (rest.head?).or ((b.head?).or e) := by
      cases rest <;> simp
    have hl : ((i :: rest).getLast?).or p = (rest.getLast?).or (some i) := by
      cases rest with
      | nil => simp
      | cons x xs =>
        rw [List.getLast?_cons_cons]
        cases hq : (x :: xs).getLast? with
        | none => simp at hq
        | some q => simp
    rw [hh, hl]
    constructor
    · rintro ⟨h1, h2, h3, h4⟩; exact ⟨⟨h1, h2, h3⟩, h4⟩
    · rintro ⟨⟨h1, h2, h3⟩, h4⟩; exact ⟨h1, h2, h3, h4⟩

theorem chain_upd_notin {s : Seg} {e p : Option Nat} {l : List Nat} (i : Nat) (f : Slot → Slot) (hi : i ∉ l)
    (h : Chain s e p l) : Chain (s.upd i f) e p l :=
  chain_congr (fun j hj => by
    have hne : j ≠ i := fun hh => hi (by rw [← hh]; exact hj)
    rw [get_upd_ne _ _ _ _ hne]; exact ⟨rfl, rfl⟩) h

theorem chain_upd_keep {s : Seg} {e p : Option Nat} {l : List Nat} (i : Nat) (f : Slot → Slot)
    (hf : ∀ a, (f a).next = a.next ∧ (f a).prev = a.prev) (h : Chain s e p l) : Chain (s.upd i f) e p l :=
  chain_congr (fun j hj => by rw [get_upd]; split <;> first | exact hf _ | exact ⟨rfl, rfl⟩) h

/-- the `next` of the last element is redirected -/
theorem chain_setEnd {s : Seg} {e e' p : Option Nat} {a : List Nat} {x : Nat} (hx : x ∉ a) (hs : x < s.slots.size)
    (h : Chain s e p (a ++ [x])) : Chain (s.upd x fun sl => sl.setNext e') e' p (a ++ [x]) := by
  rw [chain_append] at h ⊢
  obtain ⟨h1, h2⟩ := h
  refine ⟨chain_upd_notin x _ hx h1, ?_⟩
  simp only [Chain] at h2 ⊢
  rw [get_upd_self _ _ _ hs]
  exact ⟨h2.1, by simp, trivial⟩

/-- the `prev` of the first element is redirected -/
theorem chain_setStart {s : Seg} {e p p' : Option Nat} {b : List Nat} {y : Nat} (hy : y ∉ b) (hs : y < s.slots.size)
    (h : Chain s e p (y :: b)) : Chain (s.upd y fun sl => sl.setPrev p') e p' (y :: b) := by
  simp only [Chain] at h ⊢
  rw [get_upd_self _ _ _ hs]
  exact ⟨by simp, by simpa using h.2.1, chain_upd_notin y _ hy h.2.2⟩

/-- the stream of a segment -/
structure Linked (s : Seg) (l : List Nat) : Prop where
  nodup : l.Nodup
  inb : ∀ i ∈ l, i < s.slots.size
  first : s.first = l.head?
  last : s.last = l.getLast?
  chain : Chain s none none l

theorem chain_mid {s : Seg} {e p : Option Nat} {a b : List Nat} {i : Nat} (h : Chain s e p (a ++ i :: b)) :
    (s.get i).prev = (a.getLast?).or p ∧ (s.get i).next = (b.head?).or e ∧
    Chain s (some i) p a ∧ Chain s e (some i) b := by
  rw [chain_append] at h
  obtain ⟨h1, h2⟩ := h
  simp only [Chain, List.head?_cons, Option.or_some] at h1 h2
  exact ⟨h2.1, h2.2.1, h1, h2.2.2⟩


/-- flags and free-list side of the stream invariant -/
structure Clean (s : Seg) (l : List Nat) : Prop where
  live : ∀ i ∈ l, (s.get i).deleted = false ∧ (s.get i).copied = false
  freeNodup : s.free.Nodup
  freeInb : ∀ f ∈ s.free, f < s.slots.size
  freeOut : ∀ f ∈ s.free, f ∉ l
  freeClean : ∀ f ∈ s.free, (s.get f).prev = none ∧ (s.get f).deleted = false ∧ (s.get f).copied = false
  count : s.numGlyphs = (l.length : Int)

/-- every slot in use that is neither marked deleted nor a temporary copy is a slot of the stream -/
def Alloc (s : Seg) (l : List Nat) : Prop :=
  ∀ j, j < s.slots.size → j ∉ s.free → (s.get j).copied = false → (s.get j).deleted = false → j ∈ l

/-- where the `is` register may point: nowhere, into the stream, or at the deleted former first slot -/
def IsOK (s : Seg) (l : List Nat) (is : Option Nat) : Prop :=
  is = none ∨ (∃ i, is = some i ∧ i ∈ l) ∨
  (∃ d, is = some d ∧ d ∉ l ∧ (s.get d).deleted = true ∧ (s.get d).next = l.head? ∧ (s.get d).prev = none ∧ (s.get d).copied = false)

/-- `s'` agrees with `s` on everything the stream invariant reads -/
structure StreamSame (s s' : Seg) : Prop where
  slot : ∀ j, (s'.get j).next = (s.get j).next ∧ (s'.get j).prev = (s.get j).prev ∧
    (s'.get j).deleted = (s.get j).deleted ∧ (s'.get j).copied = (s.get j).copied
  size : s'.slots.size = s.slots.size
  first : s'.first = s.first
  last : s'.last = s.last
  free : s'.free = s.free
  numGlyphs : s'.numGlyphs = s.numGlyphs

theorem StreamSame.ofSameT {s s' : Seg} (h : SameT s s') : StreamSame s s' :=
  ⟨fun j => by have := h.slot j; unfold TreeOnly at this; exact ⟨this.1, this.2.1, this.2.2.2.2.2.2.2.1, this.2.2.2.2.2.2.2.2⟩,
   h.size, h.first, h.last, h.free, h.numGlyphs⟩

theorem StreamSame.upd (s : Seg) (i : Nat) (f : Slot → Slot)
    (hf : ∀ a, (f a).next = a.next ∧ (f a).prev = a.prev ∧ (f a).deleted = a.deleted ∧ (f a).copied = a.copied) :
    StreamSame s (s.upd i f) :=
  ⟨fun j => by rw [get_upd]; split <;> first | exact hf _ | exact ⟨rfl, rfl, rfl, rfl⟩, by simp, rfl, rfl, rfl, rfl⟩

theorem Linked.same {s s' : Seg} {l : List Nat} (hs : StreamSame s s') (h : Linked s l) : Linked s' l :=
  ⟨h.nodup, fun i hi => by rw [hs.size]; exact h.inb i hi, by rw [hs.first]; exact h.first, by rw [hs.last]; exact h.last,
   chain_congr (fun j _ => ⟨(hs.slot j).1, (hs.slot j).2.1⟩) h.chain⟩

theorem Clean.same {s s' : Seg} {l : List Nat} (hs : StreamSame s s') (h : Clean s l) : Clean s' l :=
  ⟨fun i hi => by rw [(hs.slot i).2.2.1, (hs.slot i).2.2.2]; exact h.live i hi,
   by rw [hs.free]; exact h.freeNodup,
   fun f hf => by rw [hs.size]; exact h.freeInb f (by rw [← hs.free]; exact hf),
   fun f hf => h.freeOut f (by rw [← hs.free]; exact hf),
   fun f hf => by rw [(hs.slot f).2.1, (hs.slot f).2.2.1, (hs.slot f).2.2.2]; exact h.freeClean f (by rw [← hs.free]; exact hf),
   by rw [hs.numGlyphs]; exact h.count⟩

theorem Alloc.same {s s' : Seg} {l : List Nat} (hs : StreamSame s s') (h : Alloc s l) : Alloc s' l := by
  intro j h1 h2 h3 h4
  rw [hs.size] at h1; rw [hs.free] at h2; rw [(hs.slot j).2.2.2] at h3; rw [(hs.slot j).2.2.1] at h4
  exact h j h1 h2 h3 h4

theorem IsOK.same {s s' : Seg} {l : List Nat} {is : Option Nat} (hs : StreamSame s s') (h : IsOK s l is) : IsOK s' l is := by
  rcases h with h | h | ⟨d, h1, h2, h3, h4, h5, h6⟩
  · exact .inl h
  · exact .inr (.inl h)
  · exact .inr (.inr ⟨d, h1, h2, by rw [(hs.slot d).2.2.1]; exact h3, by rw [(hs.slot d).1]; exact h4, by rw [(hs.slot d).2.1]; exact h5, by rw [(hs.slot d).2.2.2]; exact h6⟩)

theorem deleted_inb {s : Seg} {d : Nat} (h : (s.get d).deleted = true) : d < s.slots.size := by
  apply Classical.byContradiction
  intro hn
  rw [get_oob s d (by omega)] at h
  cases h

theorem get_grow' (s : Seg) (k j : Nat) (fr : List Nat) :
    ({ s with slots := s.slots ++ Array.replicate k {}, free := fr } : Seg).get j = s.get j := by
  unfold Seg.get
  simp only [Array.getD_eq_getD_getElem?, Array.getElem?_append]
  split
  · rfl
  · rename_i h
    rw [Array.getElem?_eq_none (by omega : s.slots.size ≤ j)]
    simp [Array.getElem?_replicate]
    split <;> rfl

/-- after `newSlot` the only slot in use outside the stream is the new one -/
theorem newSlot_alloc {s s' : Seg} {l : List Nat} {g k : Nat} (ha : Alloc s l) (e : s.newSlot g = some (k, s')) :
    ∀ j, j < s'.slots.size → j ∉ s'.free → (s'.get j).copied = false → (s'.get j).deleted = false → j ∈ l ∨ j = k := by
  unfold Seg.newSlot at e
  split at e
  · rename_i i rest hfree
    simp only [Option.some.injEq, Prod.mk.injEq] at e
    obtain ⟨e1, e2⟩ := e
    subst e1
    intro j h1 h2 h3 h4
    by_cases hji : j = i
    · exact .inr hji
    · left
      rw [← e2] at h1 h2 h3 h4
      have g : ({ (s.upd i fun sl => sl.setNext none) with free := rest } : Seg).get j = s.get j := get_upd_ne s i j _ hji
      rw [g] at h3 h4
      refine ha j (by simpa using h1) ?_ h3 h4
      rw [hfree]
      intro hh
      rcases List.mem_cons.mp hh with h | h
      · exact hji h
      · exact h2 h
  · rename_i hfree
    split at e
    · cases e
    · simp only [Option.some.injEq, Prod.mk.injEq] at e
      obtain ⟨e1, e2⟩ := e
      intro j h1 h2 h3 h4
      rw [← e2] at h1 h2 h3 h4
      rw [get_grow'] at h3 h4
      by_cases hjs : j < s.slots.size
      · exact .inl (ha j hjs (by rw [hfree]; simp) h3 h4)
      · right
        rw [← e1]
        simp only [Array.size_append, Array.size_replicate] at h1
        apply Classical.byContradiction
        intro hne
        apply h2
        show j ∈ (List.range (max s.bufSize 1 - 1)).map (· + s.slots.size + 1)
        exact List.mem_map.mpr ⟨j - s.slots.size - 1, List.mem_range.mpr (by omega), by omega⟩

/-- what `newSlot` guarantees about the slot it hands out -/
theorem newSlot_spec {s s' : Seg} {l : List Nat} {g k : Nat} {is : Option Nat}
    (hl : Linked s l) (hc : Clean s l) (hi : IsOK s l is) (e : s.newSlot g = some (k, s')) :
    Linked s' l ∧ IsOK s' l is ∧ k ∉ l ∧ k < s'.slots.size ∧ k ∉ s'.free ∧
    (s'.get k).prev = none ∧ (s'.get k).deleted = false ∧ (s'.get k).copied = false ∧
    Clean s' l := by
  unfold Seg.newSlot at e
  split at e
  · rename_i i rest hfree
    simp only [Option.some.injEq, Prod.mk.injEq] at e
    obtain ⟨e1, e2⟩ := e
    subst e1
    have hmem : i ∈ s.free := by rw [hfree]; exact List.mem_cons_self
    have hnd : (i :: rest).Nodup := by rw [← hfree]; exact hc.freeNodup
    have hss : StreamSame s (s.upd i fun sl => sl.setNext none) → True := fun _ => trivial
    have hfc := hc.freeClean i hmem
    have hin := hc.freeInb i hmem
    have hout := hc.freeOut i hmem
    rw [← e2]
    have gk : ∀ j, j ≠ i → ({ (s.upd i fun sl => sl.setNext none) with free := rest } : Seg).get j = s.get j :=
      fun j hj => get_upd_ne s i j _ hj
    have gi : ({ (s.upd i fun sl => sl.setNext none) with free := rest } : Seg).get i = (s.get i).setNext none :=
      get_upd_self s i _ hin
    refine ⟨⟨hl.nodup, fun j hj => by simpa using hl.inb j hj, hl.first, hl.last, ?_⟩, ?_, hout, by simpa using hin,
      (List.nodup_cons.mp hnd).1, by rw [gi]; exact hfc.1, by rw [gi]; exact hfc.2.1, by rw [gi]; exact hfc.2.2, ?_⟩
    · exact chain_congr (fun j hj => by rw [gk j (fun hh => hout (hh ▸ hj))]; exact ⟨rfl, rfl⟩) hl.chain
    · rcases hi with h | h | ⟨d, h1, h2, h3, h4, h5, h6⟩
      · exact .inl h
      · exact .inr (.inl h)
      · have hdi : d ≠ i := fun hh => by rw [hh] at h3; rw [hfc.2.1] at h3; cases h3
        exact .inr (.inr ⟨d, h1, h2, by rw [gk d hdi]; exact h3, by rw [gk d hdi]; exact h4, by rw [gk d hdi]; exact h5, by rw [gk d hdi]; exact h6⟩)
    · refine ⟨fun j hj => by rw [gk j (fun hh => hout (hh ▸ hj))]; exact hc.live j hj, (List.nodup_cons.mp hnd).2,
        fun f hf => by simpa using hc.freeInb f (by rw [hfree]; exact List.mem_cons_of_mem _ hf),
        fun f hf => hc.freeOut f (by rw [hfree]; exact List.mem_cons_of_mem _ hf),
        fun f hf => ?_, hc.count⟩
      have hfi : f ≠ i := fun hh => (List.nodup_cons.mp hnd).1 (hh ▸ hf)
      rw [gk f hfi]; exact hc.freeClean f (by rw [hfree]; exact List.mem_cons_of_mem _ hf)
  · rename_i hfree
    split at e
    · cases e
    · simp only [Option.some.injEq, Prod.mk.injEq] at e
      obtain ⟨e1, e2⟩ := e
      subst e1
      rw [← e2]
      have gg := get_grow' s (max s.bufSize 1) 
      refine ⟨⟨hl.nodup, fun j hj => by simp; have := hl.inb j hj; omega, hl.first, hl.last, ?_⟩, ?_, ?_, ?_, ?_, ?_, ?_, ?_, ?_⟩
      · exact chain_congr (fun j _ => by rw [gg]; exact ⟨rfl, rfl⟩) hl.chain
      · rcases hi with h | h | ⟨d, h1, h2, h3, h4, h5, h6⟩
        · exact .inl h
        · exact .inr (.inl h)
        · exact .inr (.inr ⟨d, h1, h2, by rw [gg]; exact h3, by rw [gg]; exact h4, by rw [gg]; exact h5, by rw [gg]; exact h6⟩)
      · intro hk; have := hl.inb _ hk; omega
      · simp; omega
      · simp; intro x _ ; omega
      · rw [gg, get_oob s _ (Nat.le_refl _)]
      · rw [gg, get_oob s _ (Nat.le_refl _)]
      · rw [gg, get_oob s _ (Nat.le_refl _)]
      · refine ⟨fun j hj => by rw [gg]; exact hc.live j hj, ?_, ?_, ?_, ?_, hc.count⟩
        · simp only []
          exact List.Pairwise.map _ (fun a b (hab : a ≠ b) => by simp only [ne_eq]; omega) List.nodup_range
        · intro f hf; simp at hf ⊢; obtain ⟨x, hx, rfl⟩ := hf; omega
        · intro f hf hfl; simp at hf; obtain ⟨x, hx, rfl⟩ := hf; have := hl.inb _ hfl; omega
        · intro f hf; simp at hf; obtain ⟨x, hx, rfl⟩ := hf
          rw [gg, get_oob s _ (by omega)]; exact ⟨rfl, rfl, rfl⟩


/-- `s'` differs from `s` only inside the slots of `l`, and not in flags, free list, size or glyph count -/
structure Touch (l : List Nat) (s s' : Seg) : Prop where
  size : s'.slots.size = s.slots.size
  free : s'.free = s.free
  numGlyphs : s'.numGlyphs = s.numGlyphs
  flags : ∀ j, (s'.get j).deleted = (s.get j).deleted ∧ (s'.get j).copied = (s.get j).copied
  out : ∀ j, j ∉ l → s'.get j = s.get j

theorem Touch.rfl' (l : List Nat) (s : Seg) : Touch l s s := ⟨rfl, rfl, rfl, fun _ => ⟨rfl, rfl⟩, fun _ _ => rfl⟩
theorem Touch.trans {l : List Nat} {s t u : Seg} (h1 : Touch l s t) (h2 : Touch l t u) : Touch l s u :=
  ⟨by rw [h2.size, h1.size], by rw [h2.free, h1.free], by rw [h2.numGlyphs, h1.numGlyphs],
   fun j => ⟨by rw [(h2.flags j).1, (h1.flags j).1], by rw [(h2.flags j).2, (h1.flags j).2]⟩,
   fun j hj => by rw [h2.out j hj, h1.out j hj]⟩
theorem Touch.upd {l : List Nat} (s : Seg) (i : Nat) (f : Slot → Slot) (hi : i ∈ l)
    (hf : ∀ a, (f a).deleted = a.deleted ∧ (f a).copied = a.copied) : Touch l s (s.upd i f) :=
  ⟨by simp, rfl, rfl, fun j => by rw [get_upd]; split <;> first | exact hf _ | exact ⟨rfl, rfl⟩,
   fun j hj => get_upd_ne _ _ _ _ (fun hh => hj (hh ▸ hi))⟩
theorem Touch.setFirst {l : List Nat} (s : Seg) (v : Option Nat) : Touch l s (s.setFirst v) := ⟨rfl, rfl, rfl, fun _ => ⟨rfl, rfl⟩, fun _ _ => rfl⟩
theorem Touch.setLast {l : List Nat} (s : Seg) (v : Option Nat) : Touch l s (s.setLast v) := ⟨rfl, rfl, rfl, fun _ => ⟨rfl, rfl⟩, fun _ _ => rfl⟩

theorem chain_setFirst {s : Seg} {e p : Option Nat} {l : List Nat} (v : Option Nat) (h : Chain s e p l) : Chain (s.setFirst v) e p l :=
  chain_congr (s := s) (s' := s.setFirst v) (fun _ _ => ⟨rfl, rfl⟩) h
theorem chain_setLast {s : Seg} {e p : Option Nat} {l : List Nat} (v : Option Nat) (h : Chain s e p l) : Chain (s.setLast v) e p l :=
  chain_congr (s := s) (s' := s.setLast v) (fun _ _ => ⟨rfl, rfl⟩) h

theorem getLast?_concat' (a : List Nat) (x : Nat) : (a ++ [x]).getLast? = some x := by simp

/-- `delete_`'s relinking takes slot `i` out of the stream -/
theorem unlink_linked {s : Seg} {a b : List Nat} {i : Nat} (h : Linked s (a ++ i :: b)) :
    Linked (s.unlink i) (a ++ b) ∧ Touch (a ++ b) s (s.unlink i) := by
  have hnd := h.nodup
  have hmid := chain_mid h.chain
  obtain ⟨hp, hn, hA, hB⟩ := hmid
  simp only [Option.or_none] at hp hn
  have hia : i ∉ a := fun hh => by
    have := List.nodup_append.mp hnd
    exact this.2.2 i hh i List.mem_cons_self rfl
  have hib : i ∉ b := (List.nodup_cons.mp (List.nodup_append.mp hnd).2.1).1
  have hndb : b.Nodup := (List.nodup_cons.mp (List.nodup_append.mp hnd).2.1).2
  have hnda : a.Nodup := (List.nodup_append.mp hnd).1
  have hab : ∀ x, x ∈ a → x ∉ b := fun x hx hxb => (List.nodup_append.mp hnd).2.2 x hx x (List.mem_cons_of_mem _ hxb) rfl
  have hinb : ∀ x, x ∈ a ++ b → x < s.slots.size := fun x hx => h.inb x (by
    rcases List.mem_append.mp hx with hx | hx
    · exact List.mem_append_left _ hx
    · exact List.mem_append_right _ (List.mem_cons_of_mem _ hx))
  unfold Seg.unlink
  rw [hp, hn]
  -- the first step: the predecessor (or `first`) now points at the successor
  have step1 : ∃ s1, s1 = s.setNextOf a.getLast? b.head? ∧ Chain s1 b.head? none a ∧ Chain s1 none (some i) b ∧ Touch (a ++ b) s s1 ∧
      s1.first = (a ++ b).head? ∧ s1.last = s.last := by
    refine ⟨_, rfl, ?_⟩
    unfold Seg.setNextOf
    rcases List.eq_nil_or_concat a with ha | ⟨a', x, ha⟩
    · subst ha
      simp only [List.getLast?_nil, List.nil_append]
      exact ⟨trivial, chain_setFirst _ hB, Touch.setFirst _ _, rfl, rfl⟩
    · rw [List.concat_eq_append] at ha
      subst ha
      rw [getLast?_concat']
      simp only []
      have hxa : x ∉ a' := by
        have := List.nodup_append.mp hnda
        exact fun hh => this.2.2 x hh x (List.mem_singleton.mpr rfl) rfl
      have hxs : x < s.slots.size := hinb x (by simp)
      refine ⟨chain_setEnd hxa hxs hA, chain_upd_notin x _ (hab x (by simp)) hB,
        Touch.upd s x _ (by simp) (fun _ => ⟨rfl, rfl⟩), ?_, rfl⟩
      have := h.first
      simp only [upd_first]
      rw [this]
      cases a' <;> simp
  obtain ⟨s1, hs1, c1, c2, t1, f1, l1⟩ := step1
  rw [← hs1]
  unfold Seg.setPrevOf
  rcases b with _ | ⟨y, b'⟩
  · simp only [List.head?_nil, List.append_nil] at *
    refine ⟨⟨hnda, fun x hx => by rw [setLast_size, t1.size]; exact hinb x hx, by simpa using f1, ?_, ?_⟩, t1.trans (Touch.setLast _ _)⟩
    · simp
    · exact chain_setLast _ c1
  · simp only [List.head?_cons] at *
    have hys : y < s1.slots.size := by rw [t1.size]; exact hinb y (by simp)
    have hyb : y ∉ b' := (List.nodup_cons.mp hndb).1
    have hya : y ∉ a := fun hh => hab y hh List.mem_cons_self
    refine ⟨⟨?_, fun x hx => by rw [upd_size, t1.size]; exact hinb x hx, by simpa using f1, ?_, ?_⟩,
      t1.trans (Touch.upd s1 y _ (by simp) (fun _ => ⟨rfl, rfl⟩))⟩
    · refine List.nodup_append.mpr ⟨hnda, hndb, fun x hx z hz hxz => ?_⟩
      subst hxz
      exact hab x hx hz
    · simp only [upd_last]
      rw [l1, h.last]
      simp [List.getLast?_append, List.getLast?_cons_cons]
    · rw [chain_append]
      simp only [List.head?_cons, Option.some_or]
      exact ⟨chain_upd_notin y _ hya c1, by simpa using chain_setStart hyb hys c2⟩


theorem Touch.mono {l l' : List Nat} {s s' : Seg} (hsub : ∀ x, x ∈ l → x ∈ l') (h : Touch l s s') : Touch l' s s' :=
  ⟨h.size, h.free, h.numGlyphs, h.flags, fun j hj => h.out j (fun hh => hj (hsub j hh))⟩

theorem Touch.updR {l : List Nat} {s t : Seg} (i : Nat) (f : Slot → Slot) (hi : i ∈ l)
    (hf : ∀ a, (f a).deleted = a.deleted ∧ (f a).copied = a.copied) (h : Touch l s t) : Touch l s (t.upd i f) :=
  h.trans (Touch.upd t i f hi hf)
theorem Touch.updR' {l : List Nat} {s t : Seg} (h : Touch l s t) (i : Nat) (f : Slot → Slot) (hi : i ∈ l)
    (hf : ∀ a, (f a).deleted = a.deleted ∧ (f a).copied = a.copied) : Touch l s (t.upd i f) :=
  h.trans (Touch.upd t i f hi hf)
theorem Touch.setFirstR {l : List Nat} {s t : Seg} (v : Option Nat) (h : Touch l s t) : Touch l s (t.setFirst v) := h.trans (Touch.setFirst _ _)
theorem Touch.setLastR {l : List Nat} {s t : Seg} (v : Option Nat) (h : Touch l s t) : Touch l s (t.setLast v) := h.trans (Touch.setLast _ _)

/-- discharges `Touch l s (… s …)` goals built from `upd` (on members of `l`, keeping the flags), `setFirst`, `setLast` -/
macro "touch" : tactic => `(tactic| repeat (first
  | exact Touch.rfl' _ _
  | apply Touch.setLastR
  | apply Touch.setFirstR
  | refine Touch.updR' ?_ _ _ (by simp) (fun _ => ⟨rfl, rfl⟩)))

/-- `insert` with a null `iss`: the new slot `k` is linked behind the last slot -/
theorem linkAtEnd_spec {s : Seg} {a : List Nat} {k : Nat} (h : Linked s a) (hk : k ∉ a) (hks : k < s.slots.size)
    (hkp : (s.get k).prev = none) :
    Chain (s.linkAtEnd k) (some k) none a ∧ ((s.linkAtEnd k).get k).prev = a.getLast? ∧
    (s.linkAtEnd k).first = (a ++ [k]).head? ∧ (s.linkAtEnd k).last = some k ∧ Touch (a ++ [k]) s (s.linkAtEnd k) := by
  unfold Seg.linkAtEnd
  rw [h.last]
  rcases List.eq_nil_or_concat a with ha | ⟨a', x, ha⟩
  · subst ha
    simp only [List.getLast?_nil, List.nil_append, List.head?_cons]
    exact ⟨trivial, hkp, rfl, rfl, by touch⟩
  · rw [List.concat_eq_append] at ha
    subst ha
    rw [getLast?_concat']
    simp only []
    have hxa : x ∉ a' := fun hh => (List.nodup_append.mp h.nodup).2.2 x hh x (List.mem_singleton.mpr rfl) rfl
    have hxs : x < s.slots.size := h.inb x (by simp)
    have hkx : k ≠ x := fun hh => hk (by simp [hh])
    have c0 : Chain s none none (a' ++ [x]) := h.chain
    refine ⟨chain_setLast _ (chain_upd_notin k _ hk (chain_setEnd hxa hxs c0)), ?_, ?_, rfl, ?_⟩
    · simp only [setLast_get]
      rw [get_upd_self _ _ _ (by simpa using hks)]
      simp
    · simp only [setLast_first, upd_first]
      rw [h.first]
      cases a' <;> simp
    · touch

/-- `insert` with `iss` in the stream: the new slot `k` is linked in front of `i` (only the left side here) -/
theorem linkBefore_spec {s : Seg} {a b : List Nat} {i k : Nat} (h : Linked s (a ++ i :: b)) (hk : k ∉ a ++ i :: b)
    (hks : k < s.slots.size) :
    Chain (s.linkBefore k i) (some k) none a ∧ ((s.linkBefore k i).get k).prev = a.getLast? ∧
    Chain (s.linkBefore k i) none a.getLast? (i :: b) ∧
    (s.linkBefore k i).first = (a ++ k :: i :: b).head? ∧ (s.linkBefore k i).last = s.last ∧
    Touch (a ++ k :: i :: b) s (s.linkBefore k i) := by
  obtain ⟨hp, hn, hA, hB⟩ := chain_mid h.chain
  simp only [Option.or_none] at hp hn
  have hB' : Chain s none a.getLast? (i :: b) := by
    have := (chain_append (a := a) (b := i :: b)).mp h.chain
    simpa using this.2
  have hka : k ∉ a := fun hh => hk (List.mem_append_left _ hh)
  have hkib : k ∉ i :: b := fun hh => hk (List.mem_append_right _ hh)
  unfold Seg.linkBefore
  rw [hp]
  rcases List.eq_nil_or_concat a with ha | ⟨a', x, ha⟩
  · subst ha
    simp only [List.getLast?_nil, List.nil_append, List.head?_cons]
    refine ⟨trivial, ?_, ?_, rfl, rfl, ?_⟩
    · simp only [setFirst_get]; rw [get_upd_self _ _ _ hks]; simp
    · exact chain_setFirst _ (chain_upd_notin k _ hkib hB')
    · touch
  · rw [List.concat_eq_append] at ha
    subst ha
    rw [getLast?_concat']
    simp only []
    have hnd := h.nodup
    have hxa : x ∉ a' := fun hh => (List.nodup_append.mp (List.nodup_append.mp hnd).1).2.2 x hh x (List.mem_singleton.mpr rfl) rfl
    have hxs : x < s.slots.size := h.inb x (List.mem_append_left _ (by simp))
    have hxib : x ∉ i :: b := fun hh => (List.nodup_append.mp hnd).2.2 x (List.mem_append_right _ (List.mem_singleton.mpr rfl)) x hh rfl
    refine ⟨chain_upd_notin k _ hka (chain_setEnd hxa hxs hA), ?_, ?_, ?_, rfl, ?_⟩
    · rw [get_upd_self _ _ _ (by simpa using hks)]; simp
    · rw [getLast?_concat'] at hB'
      exact chain_upd_notin k _ hkib (chain_upd_notin x _ hxib hB')
    · simp only [upd_first]; rw [h.first]; cases a' <;> simp
    · touch

/-- the second half of `insert` -/
theorem finishNew_spec {s : Seg} {a b : List Nat} {k : Nat} {pb : Option Nat} (hka : k ∉ a) (hkb : k ∉ b) (hks : k < s.slots.size)
    (hab : ∀ x ∈ b, x ∉ a)
    (hbs : ∀ x ∈ b, x < s.slots.size) (hbn : b.Nodup)
    (cA : Chain s (some k) none a) (hkp : (s.get k).prev = a.getLast?) (cB : Chain s none pb b) :
    Chain (s.finishNew k b.head?) none none (a ++ k :: b) ∧ (s.finishNew k b.head?).first = s.first ∧
    (s.finishNew k b.head?).last = s.last ∧ Touch (a ++ k :: b) s (s.finishNew k b.head?) := by
  unfold Seg.finishNew
  simp only []
  have hks1 : k < (s.upd k fun sl => sl.setNext b.head?).slots.size := by simpa using hks
  rcases b with _ | ⟨i, b'⟩
  · simp only [List.head?_nil] at hks1 ⊢
    have key : ∀ (f : Slot → Slot), (∀ sl, (f sl).next = sl.next ∧ (f sl).prev = sl.prev ∧ (f sl).deleted = sl.deleted ∧ (f sl).copied = sl.copied) →
        Chain (((s.upd k fun sl => sl.setNext none)).upd k f) none none (a ++ [k]) ∧
        (((s.upd k fun sl => sl.setNext none)).upd k f).first = s.first ∧ (((s.upd k fun sl => sl.setNext none)).upd k f).last = s.last ∧
        Touch (a ++ [k]) s (((s.upd k fun sl => sl.setNext none)).upd k f) := by
      intro f hf
      refine ⟨?_, rfl, rfl, Touch.updR' (Touch.updR' (Touch.rfl' _ _) k (fun sl => sl.setNext none) (List.mem_append_right _ (List.mem_singleton.mpr rfl)) (fun _ => ⟨rfl, rfl⟩)) k f (List.mem_append_right _ (List.mem_singleton.mpr rfl)) (fun sl => ⟨(hf sl).2.2.1, (hf sl).2.2.2⟩)⟩
      rw [chain_append]
      simp only [List.head?_cons, Option.some_or, Option.or_none, Chain, List.head?_nil]
      refine ⟨chain_upd_notin k _ hka (chain_upd_notin k _ hka cA), ?_, ?_, trivial⟩
      · rw [get_upd_self _ _ _ hks1, (hf _).2.1, get_upd_self _ _ _ hks]; simpa using hkp
      · rw [get_upd_self _ _ _ hks1, (hf _).1, get_upd_self _ _ _ hks]; simp
    split
    · exact key _ (fun _ => ⟨rfl, rfl, rfl, rfl⟩)
    · exact key _ (fun _ => ⟨rfl, rfl, rfl, rfl⟩)
  · simp only [List.head?_cons]
    have hik : i ≠ k := fun hh => hkb (by simp [hh])
    have hib : i ∉ b' := (List.nodup_cons.mp hbn).1
    have his : i < (s.upd k fun sl => sl.setNext (some i)).slots.size := by simpa using hbs i (by simp)
    have hks2 : k < ((s.upd k fun sl => sl.setNext (some i)).upd i fun sl => sl.setPrev (some k)).slots.size := by simpa using hks
    refine ⟨?_, rfl, rfl, by touch⟩
    rw [chain_append]
    simp only [List.head?_cons, Option.some_or, Option.or_none]
    have hia' : i ∉ a := hab i (by simp)
    have hkb' : k ∉ b' := fun hh => hkb (List.mem_cons_of_mem _ hh)
    have hki : k ≠ i := fun hh => hik hh.symm
    refine ⟨?_, ?_⟩
    · exact chain_upd_notin k _ hka (chain_upd_notin i _ (fun hh => by exact absurd hh hia') (chain_upd_notin k _ hka cA))
    · simp only [Chain, List.head?_cons] at cB ⊢
      refine ⟨?_, ?_, ?_⟩
      · rw [get_upd_self _ _ _ hks2]; simp only [setAfter_prev, setOriginal_prev]
        rw [get_upd_ne _ _ _ _ hki, get_upd_self _ _ _ hks]; simpa using hkp
      · rw [get_upd_self _ _ _ hks2]; simp only [setAfter_next, setOriginal_next]
        rw [get_upd_ne _ _ _ _ hki, get_upd_self _ _ _ hks]; simp
      · have c1 : Chain (s.upd k fun sl => sl.setNext (some i)) none pb (i :: b') := chain_upd_notin k _ hkb (by simpa [Chain] using cB)
        have c2 := chain_setStart (p' := some k) hib his c1
        have c3 := chain_upd_notin k (fun sl => (sl.setOriginal (((s.upd k fun sl => sl.setNext (some i)).upd i fun sl => sl.setPrev (some k)).get i).original).setAfter
          (((s.upd k fun sl => sl.setNext (some i)).upd i fun sl => sl.setPrev (some k)).get i).before) hkb c2
        simpa [Chain] using c3


/-- `insert`: the new slot `k` enters the stream in front of `b` -/
theorem linkNew_linked {s : Seg} {a b : List Nat} {k : Nat} (h : Linked s (a ++ b)) (hk : k ∉ a ++ b) (hks : k < s.slots.size)
    (hkp : (s.get k).prev = none) :
    Linked (s.linkNew k b.head?) (a ++ k :: b) ∧ Touch (a ++ k :: b) s (s.linkNew k b.head?) := by
  have hka : k ∉ a := fun hh => hk (List.mem_append_left _ hh)
  have hkb : k ∉ b := fun hh => hk (List.mem_append_right _ hh)
  have hnd := h.nodup
  have hab : ∀ x ∈ b, x ∉ a := fun x hx hxa => (List.nodup_append.mp hnd).2.2 x hxa x hx rfl
  have hndl : (a ++ k :: b).Nodup := by
    refine List.nodup_append.mpr ⟨(List.nodup_append.mp hnd).1, List.nodup_cons.mpr ⟨hkb, (List.nodup_append.mp hnd).2.1⟩, ?_⟩
    intro x hx y hy hxy
    subst hxy
    rcases List.mem_cons.mp hy with hy | hy
    · exact hka (hy ▸ hx)
    · exact hab x hy hx
  unfold Seg.linkNew
  rcases b with _ | ⟨i, b'⟩
  · simp only [List.head?_nil, List.append_nil] at *
    obtain ⟨cA, hp, hf, hl, ht⟩ := linkAtEnd_spec h hk hks hkp
    have hks' : k < (s.linkAtEnd k).slots.size := by rw [ht.size]; exact hks
    obtain ⟨c, f2, l2, t2⟩ := finishNew_spec (b := []) (pb := none) hka (by simp) hks' (by simp) (by simp) (by simp) cA hp trivial
    simp only [List.head?_nil] at c f2 l2 t2
    refine ⟨⟨hndl, ?_, ?_, ?_, c⟩, ht.trans t2⟩
    · intro x hx
      rw [t2.size, ht.size]
      rcases List.mem_append.mp hx with hx | hx
      · exact h.inb x hx
      · rw [List.mem_singleton.mp hx]; exact hks
    · rw [f2, hf]
    · rw [l2, hl]; simp
  · simp only [List.head?_cons]
    obtain ⟨cA, hp, cB, hf, hl, ht⟩ := linkBefore_spec h hk hks
    have hks' : k < (s.linkBefore k i).slots.size := by rw [ht.size]; exact hks
    have hbs : ∀ x ∈ i :: b', x < (s.linkBefore k i).slots.size := fun x hx => by rw [ht.size]; exact h.inb x (List.mem_append_right _ hx)
    obtain ⟨c, f2, l2, t2⟩ := finishNew_spec (b := i :: b') hka hkb hks' hab hbs (List.nodup_append.mp hnd).2.1 cA hp cB
    simp only [List.head?_cons] at c f2 l2 t2
    refine ⟨⟨hndl, ?_, ?_, ?_, c⟩, ht.trans t2⟩
    · intro x hx
      rw [t2.size, ht.size]
      rcases List.mem_append.mp hx with hx | hx
      · exact h.inb x (List.mem_append_left _ hx)
      · rcases List.mem_cons.mp hx with hx | hx
        · rw [hx]; exact hks
        · exact h.inb x (List.mem_append_right _ hx)
    · rw [f2, hf]
    · rw [l2, hl, h.last]
      simp [List.getLast?_append, List.getLast?_cons_cons]

end GrVerif.Seg

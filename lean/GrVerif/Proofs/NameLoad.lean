import GrVerif.Model.NameLoad
import GrVerif.Proofs.PassLoad
set_option linter.unusedVariables false
set_option linter.unusedSimpArgs false
namespace GrVerif.Loader

theorem recField_ok (b : List Nat) (i f : Nat) (hf : f < 6) (h : 6 + 12 * (i + 1) ≤ b.length) : ∃ v, recField b i f = .ok v := by
  unfold recField; exact be16_ok b _ (by omega)

theorem findPlat_ok (b : List Nat) (plat enc count : Nat) (hc : 6 + 12 * count ≤ b.length) :
    ∀ fuel i, ∃ r, findPlat b plat enc count fuel i = .ok r ∧ (i ≤ count → r ≤ count) := by
  intro fuel
  induction fuel with
  | zero => intro i; exact ⟨_, rfl, fun h => h⟩
  | succ fuel ih =>
    intro i
    unfold findPlat
    by_cases hi : i < count
    · rw [if_pos hi]
      obtain ⟨p, ep⟩ := recField_ok b i 0 (by omega) (by omega)
      obtain ⟨e, ee⟩ := recField_ok b i 1 (by omega) (by omega)
      simp only [bind, Except.bind, pure, Except.pure, ep, ee]
      by_cases hm : p = plat ∧ e = enc
      · rw [if_pos hm]; exact ⟨_, rfl, fun _ => by omega⟩
      · rw [if_neg hm]
        obtain ⟨r, er, hr⟩ := ih (i + 1)
        exact ⟨r, er, fun _ => hr (by omega)⟩
    · rw [if_neg hi]; exact ⟨_, rfl, fun h => h⟩

theorem lastPlat_ok (b : List Nat) (plat enc count : Nat) (hc : 6 + 12 * count ≤ b.length) :
    ∀ fuel i last, ∃ r, lastPlat b plat enc count fuel i last = .ok r ∧ (r = last ∨ r < count) := by
  intro fuel
  induction fuel with
  | zero => intro i last; exact ⟨_, rfl, Or.inl rfl⟩
  | succ fuel ih =>
    intro i last
    unfold lastPlat
    by_cases hi : i < count
    · rw [if_pos hi]
      obtain ⟨p, ep⟩ := recField_ok b i 0 (by omega) (by omega)
      obtain ⟨e, ee⟩ := recField_ok b i 1 (by omega) (by omega)
      simp only [bind, Except.bind, pure, Except.pure, ep, ee]
      by_cases hm : p = plat ∧ e = enc
      · rw [if_pos hm]
        obtain ⟨r, er, hr⟩ := ih (i + 1) i
        exact ⟨r, er, by rcases hr with h | h <;> omega⟩
      · rw [if_neg hm]; exact ⟨_, rfl, Or.inl rfl⟩
    · rw [if_neg hi]; exact ⟨_, rfl, Or.inl rfl⟩

/-- what the constructor establishes -/
structure NameOK (b : List Nat) (t : NameTab) : Prop where
  recs : 6 + 12 * t.count < b.length ∧ 18 < b.length
  plat : t.platLast < max t.count 1
  data : t.dataOff + t.dataLen ≤ b.length

/-- **`NameTable::NameTable` / `setPlatformEncoding`**: for every byte string as the name table and every platform and encoding, the
header and the name records are read inside the table -/
theorem nameInit_total (b : List Nat) (plat enc : Nat) : ∃ r, nameInit b plat enc = .ok r ∧ ∀ t, r = some t → NameOK b t := by
  unfold nameInit
  by_cases h0 : b.length ≤ 18
  · simp only [h0, if_true, pure, Except.pure]; exact ⟨_, rfl, fun _ h => by cases h⟩
  obtain ⟨count, ec⟩ := be16_ok b 2 (by omega)
  simp only [h0, if_false, bind, Except.bind, pure, Except.pure, ec]
  by_cases h1 : b.length ≤ (if count = 0 then 6 else 18 + 12 * (count - 1))
  · rw [if_pos h1]; exact ⟨_, rfl, fun _ h => by cases h⟩
  rw [if_neg h1]
  have hrec : 6 + 12 * count < b.length := by split at h1 <;> omega
  obtain ⟨off, eo⟩ := be16_ok b 4 (by omega)
  rw [eo]
  simp only []
  by_cases h2 : off ≥ b.length
  · rw [if_pos h2]; exact ⟨_, rfl, fun _ h => by cases h⟩
  rw [if_neg h2]
  obtain ⟨i, ei, hi⟩ := findPlat_ok b plat enc count (by omega) count 0
  rw [ei]
  simp only []
  obtain ⟨last, el, hl⟩ := lastPlat_ok b plat enc count (by omega) count (i + 1) (if i < count then i else 0)
  rw [el]
  refine ⟨_, rfl, fun t ht => ?_⟩
  cases ht
  refine ⟨⟨hrec, by omega⟩, ?_, ?_⟩
  · simp only []
    rcases hl with h | h
    · split at h <;> omega
    · omega
  · simp only []
    have := Nat.mod_le (b.length - off) 65536
    omega

theorem readUnits_ok (b : List Nat) : ∀ (n off : Nat), off + 2 * n ≤ b.length → ∃ r, readUnits b off n = .ok r := by
  intro n
  induction n with
  | zero => intro off _; exact ⟨_, rfl⟩
  | succ n ih =>
    intro off h
    unfold readUnits
    obtain ⟨u, eu⟩ := be16_ok b off (by omega)
    obtain ⟨r, er⟩ := ih (off + 2) (by omega)
    simp only [bind, Except.bind, pure, Except.pure, eu, er]; exact ⟨_, rfl⟩

theorem scanNames_ok (b : List Nat) (langId nameId last : Nat) (hl : 6 + 12 * (last + 1) ≤ b.length) :
    ∀ fuel i acc, (acc.1 ≤ last ∨ acc.1 = 0xFFFF) → (acc.2.1 ≤ last ∨ acc.2.1 = 0xFFFF) → (acc.2.2 ≤ last ∨ acc.2.2 = 0xFFFF) →
      ∃ r, scanNames b langId nameId last fuel i acc = .ok r ∧ (r.1 ≤ last ∨ r.1 = 0xFFFF) ∧ (r.2.1 ≤ last ∨ r.2.1 = 0xFFFF) ∧ (r.2.2 ≤ last ∨ r.2.2 = 0xFFFF) := by
  intro fuel
  induction fuel with
  | zero => intro i acc h1 h2 h3; exact ⟨_, rfl, h1, h2, h3⟩
  | succ fuel ih =>
    intro i acc h1 h2 h3
    obtain ⟨best, enUS, anyL⟩ := acc
    unfold scanNames
    by_cases hi : i ≤ last
    · rw [if_pos hi]
      obtain ⟨nid, en⟩ := recField_ok b i 3 (by omega) (by omega)
      simp only [bind, Except.bind, pure, Except.pure, en]
      by_cases hn : nid = nameId
      · rw [if_pos hn]
        obtain ⟨lid, elid⟩ := recField_ok b i 2 (by omega) (by omega)
        rw [elid]
        simp only []
        by_cases c1 : lid = langId
        · rw [if_pos c1]; exact ⟨_, rfl, Or.inl hi, h2, h3⟩
        rw [if_neg c1]
        by_cases c2 : lid % 256 = langId % 256
        · rw [if_pos c2]; exact ih (i + 1) (i, enUS, anyL) (Or.inl hi) h2 h3
        rw [if_neg c2]
        by_cases c3 : lid = 0x409
        · rw [if_pos c3]; exact ih (i + 1) (best, i, anyL) h1 (Or.inl hi) h3
        rw [if_neg c3]
        exact ih (i + 1) (best, enUS, i) h1 h2 (Or.inl hi)
      · rw [if_neg hn]; exact ih (i + 1) (best, enUS, anyL) h1 h2 h3
    · rw [if_neg hi]; exact ⟨_, rfl, h1, h2, h3⟩

/-- **`NameTable::getName`**: for every table the constructor accepted, every language and name id: the scan over the platform's
records, the chosen record and the string it names (after the test `offset + length > m_nameDataLength`) are read inside the table -/
theorem getNameUnits_total (b : List Nat) (t : NameTab) (h : NameOK b t) (langId nameId : Nat) : ∃ r, getNameUnits b t langId nameId = .ok r := by
  unfold getNameUnits
  have hr := h.recs
  have hp := h.plat
  have hlast : 6 + 12 * (t.platLast + 1) ≤ b.length := by
    by_cases hc : t.count = 0
    · rw [hc] at hp; simp only [Nat.zero_max] at hp; omega
    · have : max t.count 1 = t.count := by omega
      rw [this] at hp; omega
  obtain ⟨r, er, hb, he, ha⟩ := scanNames_ok b langId nameId t.platLast hlast (t.platLast + 2) t.platOff (0xFFFF, 0xFFFF, 0xFFFF) (Or.inr rfl) (Or.inr rfl) (Or.inr rfl)
  simp only [bind, Except.bind, pure, Except.pure, er]
  obtain ⟨best, enUS, anyL⟩ := r
  simp only []
  generalize hbest : (if best ≠ 0xFFFF then best else if enUS ≠ 0xFFFF then enUS else anyL) = bb
  have hbb : bb ≤ t.platLast ∨ bb = 0xFFFF := by rw [← hbest]; split <;> (try split) <;> assumption
  by_cases h0 : bb = 0xFFFF
  · rw [if_pos h0]; exact ⟨_, rfl⟩
  rw [if_neg h0]
  have hbb' : bb ≤ t.platLast := by rcases hbb with h | h <;> omega
  obtain ⟨lang, el⟩ := recField_ok b bb 2 (by omega) (by omega)
  obtain ⟨len, eln⟩ := recField_ok b bb 4 (by omega) (by omega)
  obtain ⟨off, eof⟩ := recField_ok b bb 5 (by omega) (by omega)
  rw [el, eln, eof]
  simp only []
  by_cases hx : off + len > t.dataLen
  · rw [if_pos hx]; exact ⟨_, rfl⟩
  rw [if_neg hx]
  have hd := h.data
  obtain ⟨us, eus⟩ := readUnits_ok b (len / 2) (t.dataOff + off) (by omega)
  rw [eus]
  simp only []
  by_cases hs : endsInHighSurrogate us = true
  · rw [if_pos hs]; exact ⟨_, rfl⟩
  · rw [if_neg hs]; exact ⟨_, rfl⟩

end GrVerif.Loader

import GrVerif.Model.RulesLoad
import GrVerif.Proofs.CodeLoop
import GrVerif.Proofs.PassLoad
import GrVerif.Proofs.Loader
set_option linter.unusedVariables false
set_option linter.unusedSimpArgs false
namespace GrVerif.Loader
open GrVerif.Gen.Err GrVerif.CodeLoad

theorem slice_length (b : List Nat) (lo hi : Nat) (h : hi ≤ b.length) : (slice b lo hi).length = hi - lo := by
  unfold slice
  simp only [List.length_take, List.length_drop]; omega

theorem totalSz_le (p : Loaded) (len : Nat) (h1 : p.instrs.length ≤ len) (h2 : p.dataSize ≤ len) : totalSz (some p) ≤ 9 * len + 15 := by
  unfold totalSz
  simp only []
  omega

theorem totalSz_le_c (p : Loaded) (len : Nat) (h : p.instrs.length + (p.dataSize + 7) / 8 ≤ len) : totalSz (some p) ≤ 8 * len + 8 := by
  unfold totalSz
  simp only []
  omega

/-- loading one code into the pool: given room for the worst case of decoding (`9·len`) and for the result, no write leaves the pool -/
theorem loadInPool_ok (l : Limits) (constraint : Bool) (pt : Nat) (code : List Nat) (free poolSz : Nat)
    (hrl : constraint = false → l.ruleLength ≤ 254)
    (hroom : free + (if constraint then 8 * code.length + 8 else 9 * code.length + 15) ≤ poolSz) (hdec : free + 9 * code.length ≤ poolSz) :
    ∃ r free', loadInPool l constraint pt code free poolSz = .ok (r, free') ∧ free ≤ free' ∧
      free' ≤ free + (if constraint then 8 * code.length + 8 else 9 * code.length + 15) := by
  unfold loadInPool
  by_cases he : code.isEmpty = true
  · simp only [he, if_true, pure, Except.pure]
    exact ⟨_, _, rfl, Nat.le_refl _, by split <;> omega⟩
  simp only [he, Bool.false_eq_true, if_false, bind, Except.bind, pure, Except.pure]
  rw [if_neg (by omega)]
  obtain ⟨r, hr, hp⟩ := load_total l constraint pt code hrl
  rw [hr]
  simp only []
  cases r with
  | error s => exact ⟨_, _, rfl, Nat.le_refl _, by split <;> omega⟩
  | ok p =>
    simp only []
    cases p with
    | none =>
      have : totalSz none = 0 := rfl
      rw [this]
      simp only [Nat.add_zero]
      rw [if_neg (by omega)]
      exact ⟨_, _, rfl, Nat.le_refl _, by split <;> omega⟩
    | some p =>
      obtain ⟨h1, h2, _, h4⟩ := hp p rfl
      have hb : totalSz (some p) ≤ (if constraint then 8 * code.length + 8 else 9 * code.length + 15) := by
        cases constraint with
        | true => simp only [if_true]; exact totalSz_le_c p _ (h4 rfl)
        | false => simp only [Bool.false_eq_true, if_false]; exact totalSz_le p _ h1 h2
      rw [if_neg (by omega)]
      exact ⟨_, _, rfl, by omega, by omega⟩

/-- what `readRules` has established about a rule it accepted -/
structure RuleOK (b : List Nat) (L : PassLayout) (x : RuleRec) : Prop where
  sort : x.sort ≤ 63 ∧ x.pre < x.sort
  pre : L.arr.minPre ≤ x.pre ∧ x.pre ≤ L.arr.maxPre
  ac : x.acBegin ≤ x.acEnd ∧ x.acEnd ≤ b.length
  rc : x.rcBegin ≤ x.rcEnd ∧ x.rcEnd ≤ b.length

theorem estimate_eq (a r s : Nat) : estimate (a + r) 2 s = 9 * a + 9 * r + 16 + 8 * s := by unfold estimate; omega

/-- **the loop of `Pass::readRules`**: the rule records and the code offsets are read inside the pass, and no code – while it is
decoded or when it is done – writes outside the program pool, whatever the pool's size: the per-rule reservation test
(`estimateCodeDataOut(action + constraint bytes, 2, sort) > pool left`) is what makes that so -/
theorem rulesLoop_total (b : List Nat) (L : PassLayout) (hL : LayoutOK b L) (f : FontLimits) (pt poolSz : Nat) :
    ∀ (n acEnd rcEnd free : Nat), n ≤ L.hdr.numRules → free ≤ poolSz →
      ∃ r, rulesLoop b L f pt poolSz n acEnd rcEnd free = .ok r ∧ ∀ rs, r = .ok rs → ∀ x ∈ rs, RuleOK b L x := by
  intro n
  induction n with
  | zero => intro _ _ _ _ _; exact ⟨_, rfl, fun rs h x hx => by simp only [Except.ok.injEq] at h; subst h; cases hx⟩
  | succ n ih =>
    intro acEnd rcEnd free hn hfree
    unfold rulesLoop
    have a := hL.arr
    have c := hL.codes
    have h1 := a.precontext
    have h2 := a.sortKeys
    have h3 := a.oActions
    have h4 := a.states
    have h5 := a.oConstraint
    have hend := c.endp
    have haC := c.aCode
    rw [byteAt_ok b (L.arr.precontext + n) (by omega)]
    obtain ⟨sort, e1⟩ := be16_ok b (L.arr.sortKeys + n * 2) (by omega)
    simp only [bind, Except.bind, pure, Except.pure, e1]
    generalize hpre : b[L.arr.precontext + n]'(by omega) = pre
    by_cases c1 : sort > 63 ∨ pre ≥ sort ∨ pre > L.arr.maxPre ∨ pre < L.arr.minPre
    · rw [if_pos c1]; exact ⟨_, rfl, fun _ h => by cases h⟩
    rw [if_neg c1]
    obtain ⟨oa, e2⟩ := be16_ok b (L.arr.oActions + n * 2) (by omega)
    obtain ⟨oc, e3⟩ := be16_ok b (L.arr.oConstraint + n * 2) (by omega)
    simp only [e2, e3]
    generalize hrb : (if oc ≠ 0 then L.codes.rcCode + oc else rcEnd) = rcBegin
    by_cases c2 : L.codes.aCode + oa > acEnd ∨ L.codes.aCode + oa > L.codes.aCode + L.codes.acLen ∨ acEnd > L.codes.aCode + L.codes.acLen ∨
        rcBegin > rcEnd ∨ rcBegin > L.codes.rcCode + L.codes.rcLen ∨ rcEnd > L.codes.rcCode + L.codes.rcLen
    · rw [if_pos c2]; exact ⟨_, rfl, fun _ h => by cases h⟩
    rw [if_neg c2]
    by_cases c3 : estimate (acEnd - (L.codes.aCode + oa) + (rcEnd - rcBegin)) 2 sort > poolSz - free
    · rw [if_pos c3]; exact ⟨_, rfl, fun _ h => by cases h⟩
    rw [if_neg c3]
    have hae : acEnd ≤ b.length := by omega
    have hre : rcEnd ≤ b.length := by omega
    have hest := estimate_eq (acEnd - (L.codes.aCode + oa)) (rcEnd - rcBegin) sort
    have hla := slice_length b (L.codes.aCode + oa) acEnd hae
    have hlr := slice_length b rcBegin rcEnd hre
    obtain ⟨ra, free1, ea, hf1, hf1'⟩ := loadInPool_ok (f.toLimits pre sort) false pt (slice b (L.codes.aCode + oa) acEnd) free poolSz
      (fun _ => by show sort ≤ 254; omega) (by simp only [Bool.false_eq_true, if_false]; omega) (by omega)
    rw [ea]
    simp only [Bool.false_eq_true, if_false] at hf1'
    obtain ⟨rc, free2, ec, hf2, hf2'⟩ := loadInPool_ok (f.toLimits pre sort) true pt (slice b rcBegin rcEnd) free1 poolSz
      (fun h => by cases h) (by simp only [if_true]; omega) (by omega)
    simp only []
    rw [ec]
    simp only [if_true] at hf2'
    simp only []
    cases ra with
    | error s => exact ⟨_, rfl, fun _ h => by cases h⟩
    | ok pa =>
      simp only []
      cases rc with
      | error s => exact ⟨_, rfl, fun _ h => by cases h⟩
      | ok pc =>
        simp only []
        by_cases hmut : mutableCode pc = true
        · rw [if_pos hmut]; exact ⟨_, rfl, fun _ h => by cases h⟩
        · rw [if_neg hmut]
          obtain ⟨r, er, hr⟩ := ih (L.codes.aCode + oa) rcBegin free2 (by omega) (by omega)
          rw [er]
          cases r with
          | error e => exact ⟨_, rfl, fun _ h => by cases h⟩
          | ok rest =>
            simp only []
            refine ⟨_, rfl, fun rs hrs x hx => ?_⟩
            cases hrs
            rcases List.mem_append.mp hx with hx | hx
            · exact hr rest rfl x hx
            · simp only [List.mem_singleton] at hx
              subst hx
              exact ⟨by simp only []; omega, by simp only []; omega, by simp only []; omega, by simp only []; omega⟩

theorem sumSorts_total (b : List Nat) (L : PassLayout) (hL : LayoutOK b L) : ∀ n, n ≤ L.hdr.numRules → ∃ r, sumSorts b L n = .ok r := by
  intro n
  induction n with
  | zero => intro _; exact ⟨_, rfl⟩
  | succ n ih =>
    intro hn
    unfold sumSorts
    have h2 := hL.arr.sortKeys
    obtain ⟨s, e1⟩ := be16_ok b (L.arr.sortKeys + n * 2) (by omega)
    obtain ⟨r, er⟩ := ih (by omega)
    simp only [bind, Except.bind, pure, Except.pure, e1, er]
    split
    · exact ⟨_, rfl⟩
    · cases r <;> exact ⟨_, rfl⟩

/-- **`Pass::readRules`** on an accepted layout: total, in bounds, and inside the program pool -/
theorem readRules_total (b : List Nat) (L : PassLayout) (hL : LayoutOK b L) (f : FontLimits) (pt : Nat) :
    ∃ r, readRules b L f pt = .ok r ∧ ∀ rs, r = .ok rs → ∀ x ∈ rs, RuleOK b L x := by
  unfold readRules
  obtain ⟨t, et⟩ := sumSorts_total b L hL L.hdr.numRules (Nat.le_refl _)
  simp only [bind, Except.bind, pure, Except.pure, et]
  cases t with
  | none => exact ⟨_, rfl, fun _ h => by cases h⟩
  | some total =>
    simp only []
    obtain ⟨r, er, hr⟩ := rulesLoop_total b L hL f pt (estimate (L.codes.acLen + L.codes.rcLen) (2 * L.hdr.numRules) total) L.hdr.numRules
      (L.codes.aCode + L.codes.acLen) (L.codes.rcCode + L.codes.rcLen) 0 (Nat.le_refl _) (Nat.zero_le _)
    rw [er]
    cases r with
    | error e => exact ⟨_, rfl, fun _ h => by cases h⟩
    | ok rs =>
      simp only []
      split
      · exact ⟨_, rfl, fun _ h => by cases h⟩
      · exact ⟨_, rfl, fun rs' h => by cases h; exact hr rs rfl⟩

/-- **`Pass::readPass` is total and in bounds for every byte string** – whatever the bytes of the pass, the sub-table base, the
font's collision set-up, the limits the code loader takes from the font and the pass type are: the layout, the pass constraint,
`readRanges`, `readRules` with every rule's constraint and action code laid out in the program pool, the rule map and `readStates`
read nothing outside the pass and write nothing outside the pool -/
theorem readPassAll_total (b : List Nat) (base : Nat) (collOK : Bool) (f : FontLimits) (pt : Nat) :
    ∃ r, readPassAll b base collOK f pt = .ok r ∧ ∀ P, r = .ok P → LayoutOK b P.layout ∧ ∀ x ∈ P.rules, RuleOK b P.layout x := by
  unfold readPassAll
  obtain ⟨rl, el, hl⟩ := readPassLayout_total b base collOK
  simp only [bind, Except.bind, pure, Except.pure, el]
  cases rl with
  | error e => exact ⟨_, rfl, fun _ h => by cases h⟩
  | ok L =>
    simp only []
    have hL := hl L rfl
    have a := hL.arr
    have ho := a.order
    have h5 := a.oConstraint
    -- the pass constraint
    obtain ⟨pcons, epc⟩ : ∃ v, loadPassConstraint b L f = .ok v := by
      unfold loadPassConstraint
      by_cases h0 : L.arr.pcLen = 0
      · rw [if_pos h0]; exact ⟨_, rfl⟩
      · rw [if_neg h0, byteAt_ok b L.arr.precontext (by omega)]
        obtain ⟨s, es⟩ := be16_ok b L.arr.sortKeys (by omega)
        rw [es]
        simp only []
        obtain ⟨r, er, _⟩ := load_total (f.toLimits (b[L.arr.precontext]'(by omega)) s) true 0 (slice b L.codes.pcCode (L.codes.pcCode + L.arr.pcLen)) (fun h => by cases h)
        exact ⟨r, er⟩
    rw [epc]
    simp only []
    cases pcons with
    | error s => exact ⟨_, rfl, fun _ h => by cases h⟩
    | ok pcv =>
      simp only []
      by_cases hr0 : L.hdr.numRules = 0
      · rw [if_pos hr0]
        exact ⟨_, rfl, fun P h => by cases h; exact ⟨hL, fun x hx => by cases hx⟩⟩
      rw [if_neg hr0]
      obtain ⟨rr, err, _⟩ := readRanges_total L.arr.numGlyphs L.hdr.numColumns ((b.drop L.arr.ranges).take (L.hdr.numRanges * 6)) L.hdr.numRanges
        (by have := a.ranges; simp only [List.length_take, List.length_drop]; omega)
      rw [err]
      cases rr with
      | none => exact ⟨_, rfl, fun _ h => by cases h⟩
      | some cols =>
        simp only []
        obtain ⟨r2, e2, h2⟩ := readRules_total b L hL f pt
        rw [e2]
        cases r2 with
        | error e => exact ⟨_, rfl, fun _ h => by cases h⟩
        | ok rules =>
          simp only []
          obtain ⟨r3, e3, _⟩ := readRuleMap_total b L hL
          rw [e3]
          cases r3 with
          | error e => exact ⟨_, rfl, fun _ h => by cases h⟩
          | ok rm =>
            simp only []
            obtain ⟨r4, e4, _⟩ := readStates_total b L hL
            rw [e4]
            cases r4 with
            | error e => exact ⟨_, rfl, fun _ h => by cases h⟩
            | ok T => exact ⟨_, rfl, fun P h => by cases h; exact ⟨hL, h2 rules rfl⟩⟩

end GrVerif.Loader

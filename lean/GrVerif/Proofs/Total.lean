import GrVerif.Proofs.CursorShape
import GrVerif.Proofs.LoopBound2
import GrVerif.Proofs.AssocSafe
/-!
# The pipeline model is total on the fonts of its fragment

Every way the pipeline model (`shape`) can stop with an error is excluded by a theorem of C02/C05 – the machine stack
(`no_code_leaves_the_stack`), the cursor, the slot map and the operand bytes (`shape_noNullCursor`), the recursion fuel (`shape_error`),
`associateChars` (`reassociation_stays_inside_cinfo`) – except the two that say "this font is outside the model": code the decoder cannot
cut into instructions and opcodes the model has no semantics for.  This file closes the list: an error of one rule application or pass
constraint is a stack fault, one of the engine faults, or one of those two (`findNDoRule_closed`, `testPassConstraint_closed`: no invariant
needed, only the shape of the functions), the error of `shape` comes from a pass of the font (`shape_errorOf`), hence `shape_total`: for a font
whose rule code decodes, uses modelled opcodes and passes the loader's cursor tests, `shape` returns a segment (or `none`: the engine gave up)
for every text, direction and fuel – it never faults.
-/
set_option linter.unusedVariables false
set_option linter.unusedSimpArgs false
namespace GrVerif.Action
open GrVerif.Vm GrVerif.Seg GrVerif.Gen.Vm

/-- the opcodes the action model gives a meaning: the slot opcodes of `stepInstr` and the translated scalar bodies -/
def modelledOp (opc : Nat) : Bool :=
  [25, 27, 31, 32, 30, 33, 67, 59, 56, 41, 60, 40, 35, 36, 37, 38, 28, 29].contains opc || (scalarOp opc).isSome

/-- the errors that are excluded by invariants elsewhere: the machine stack and the engine faults -/
def safeErr (w : String) : Prop := w = "stack" ∨ engineFault w

theorem safeErr_stack : safeErr "stack" := .inl rfl
theorem safeErr_data : safeErr "data" := .inr (.inr (.inr rfl))
theorem safeErr_null {w : String} (h : nullFault w) : safeErr w := .inr (.inl h)
theorem safeErr_map {w : String} (h : mapFault w) : safeErr w := .inr (.inr (.inl h))

theorem assoc_fault {c : Ctx} {rs : List Int} {w : String} (h : opAssoc c rs = .fault w) : safeErr w := by
  unfold opAssoc at h
  simp only [] at h
  split at h
  · split at h
    · cases h
    · cases h; exact safeErr_null (.inl rfl)
  · cases h

theorem attrSet_fault {c : Ctx} {a b : Nat} {v : Int} {w : String} (h : opAttrSet c a b v = .fault w) : safeErr w := by
  unfold opAttrSet at h
  split at h
  · cases h; exact safeErr_null (.inr (.inl rfl))
  · simp only [] at h
    split at h
    · cases h
    · split at h <;> cases h

theorem putGlyph_fault {c : Ctx} {k : Nat} {w : String} (h : opPutGlyph c k = .fault w) : safeErr w := by
  unfold opPutGlyph at h
  split at h
  · cases h
  · cases h; exact safeErr_null (.inr (.inr (.inl rfl)))

theorem putSubs_fault {c : Ctx} {r : Int} {i o : Nat} {w : String} (h : opPutSubs c r i o = .fault w) : safeErr w := by
  unfold opPutSubs at h
  simp only [] at h
  split at h
  · split at h
    · cases h
    · cases h; exact safeErr_null (.inr (.inr (.inr rfl)))
  · cases h

theorem tempCopy_fault {c : Ctx} {w : String} (h : opTempCopy c = .fault w) : safeErr w := by
  unfold opTempCopy at h
  split at h
  · split at h
    · cases h
    · cases h; exact safeErr_map (.inr rfl)
  · unfold Seg.die at h; cases h

/-- one instruction with a modelled opcode: whatever fault it reports is one of the excluded ones -/
theorem stepInstr_closed (s : St) (i : Instr) (hm : modelledOp i.1 = true) {w : String} (h : stepInstr s i = .inr (.fault w)) : safeErr w := by
  obtain ⟨opc, ps⟩ := i
  have wc : ∀ (o : Outcome) (d : Nat), (∀ w', o = .fault w' → safeErr w') → withCtx s.vm o d = .inr (.fault w) → safeErr w := by
    intro o d ho hw
    rcases withCtx_fault hw with h1 | h1
    · exact ho w h1
    · rw [h1]; exact safeErr_stack
  unfold stepInstr at h
  simp only at h
  split at h
  · exact wc _ _ (fun w' hw' => absurd hw' (next_noFault _ _)) h
  · exact wc _ _ (fun w' hw' => absurd hw' (next_noFault _ _)) h
  · exact wc _ _ (fun w' hw' => absurd hw' (insert_noFault _ _)) h
  · exact wc _ _ (fun w' hw' => absurd hw' (delete_noFault _ _)) h
  · exact wc _ _ (fun w' hw' => absurd hw' (putCopy_noFault _ _ _)) h
  · exact wc _ _ (fun w' hw' => assoc_fault hw') h
  · exact wc _ _ (fun w' hw' => tempCopy_fault hw') h
  · exact wc _ _ (fun w' hw' => putGlyph_fault hw') h
  · exact wc _ _ (fun w' hw' => putSubs_fault hw') h
  · split at h
    · split at h
      · cases h
      · cases h; exact safeErr_stack
    · cases h
  · split at h
    · split at h
      · cases h
      · cases h; exact safeErr_stack
    · cases h
  · split at h
    · split at h
      · cases h
      · cases h; exact safeErr_stack
    · cases h
  · split at h
    · split at h
      · cases h
      · cases h
      · rename_i heq; cases h; exact attrSet_fault heq
    · cases h; exact safeErr_stack
  · split at h
    · split at h
      · cases h
      · cases h
      · rename_i heq; cases h; exact attrSet_fault heq
    · cases h; exact safeErr_stack
  · split at h
    · split at h
      · cases h
      · cases h
      · rename_i heq; cases h; exact attrSet_fault heq
    · cases h; exact safeErr_stack
  · split at h
    · split at h
      · cases h
      · cases h
      · rename_i heq; cases h; exact attrSet_fault heq
    · cases h; exact safeErr_stack
  · exact wc _ _ (fun w' hw' => putGlyph_fault hw') h
  · exact wc _ _ (fun w' hw' => putSubs_fault hw') h
  · split at h
    · rename_i hnone
      -- a modelled opcode outside the explicit arms has a translated body
      exfalso
      unfold modelledOp at hm
      simp only [Bool.or_eq_true, List.contains_eq_mem, List.mem_cons, List.mem_nil_iff, or_false, decide_eq_true_eq] at hm
      rcases hm with hm | hm
      · rcases hm with e | e | e | e | e | e | e | e | e | e | e | e | e | e | e | e | e | e <;> subst e <;> simp_all
      · rw [hnone] at hm; cases hm
    · split at h
      · cases h
      · cases h
      · cases h; exact safeErr_stack
      · cases h; exact safeErr_data

theorem runLoop_closed : ∀ (is : List Instr) (s : St), (∀ i ∈ is, modelledOp i.1 = true) → ∀ {w : String}, runLoop is s = .fault w → safeErr w := by
  intro is
  induction is with
  | nil => intro s _ w h; unfold runLoop at h; cases h
  | cons i rest ih =>
    intro s hm w h
    unfold runLoop at h
    split at h
    · rename_i e heq
      subst h
      exact stepInstr_closed s i (hm i List.mem_cons_self) heq
    · split at h
      · exact ih _ (fun j hj => hm j (List.mem_cons_of_mem _ hj)) h
      · cases h

theorem doAction_closed {is : List Instr} {dl : Bool} {mr : Nat} {data : List Nat} {ctx : Ctx} (hm : ∀ i ∈ is, modelledOp i.1 = true)
    {w : String} (e : doAction is dl mr data ctx = .error w) : safeErr w := by
  unfold doAction at e
  simp only [] at e
  split at e
  · cases e
  · split at e
    · rename_i w' heq
      cases e
      exact runLoop_closed is _ hm heq
    · unfold finishAction at e
      simp only [] at e
      split at e
      · cases e; exact safeErr_map (.inl rfl)
      · split at e
        · cases e; exact safeErr_stack
        · split at e
          · cases e
          · split at e <;> cases e

end GrVerif.Action

namespace GrVerif.Pass
open GrVerif.Vm GrVerif.Seg GrVerif.Action GrVerif.Gen.Vm

/-- the code is empty (and then not run), or the decoder cuts it into instructions whose opcodes are all modelled -/
def codeFull (bytes : List Nat) (isAction : Bool) : Bool :=
  bytes.isEmpty || (match mkCode bytes isAction with
    | some k => k.instrs.all fun i => modelledOp i.1
    | none => false)

def ruleFull (r : Rule) : Bool := codeFull r.constraint false && codeFull r.action true
def passFull (p : PassT) : Bool := p.rules.all ruleFull && codeFull p.pconstraint false
/-- the font lies inside the modelled fragment -/
def fontFull (font : Font) : Bool := font.passes.all passFull

theorem codeFull_some {bytes : List Nat} {isAction : Bool} (h : codeFull bytes isAction = true) (hne : ¬ bytes.isEmpty = true) :
    ∃ k, mkCode bytes isAction = some k ∧ ∀ i ∈ k.instrs, modelledOp i.1 = true := by
  unfold codeFull at h
  simp only [Bool.or_eq_true] at h
  rcases h with h | h
  · exact absurd h hne
  · cases hk : mkCode bytes isAction with
    | none => rw [hk] at h; cases h
    | some k =>
      rw [hk] at h
      exact ⟨k, rfl, fun i hi => (List.all_eq_true.mp h) i hi⟩

theorem passFull_rule {p : PassT} (h : passFull p = true) (r : Nat) : ruleFull (p.rules.getD r default) = true := by
  unfold passFull at h
  simp only [Bool.and_eq_true] at h
  by_cases hr : r < p.rules.size
  · have := (Array.all_eq_true.mp h.1) r hr
    simpa [Array.getD_eq_getD_getElem?, hr] using this
  · simp only [Array.getD_eq_getD_getElem?, Array.getElem?_eq_none (Nat.le_of_not_lt hr)]
    decide

theorem runConstraint_closed (k : Code) (c : Ctx) (cell : Int) (hm : ∀ i ∈ k.instrs, modelledOp i.1 = true) {w : String}
    (e : runConstraint k c cell = .error w) : safeErr w := by
  unfold runConstraint at e
  split at e
  · cases e
  · split at e
    · rename_i w' hw
      cases e
      exact runLoop_closed k.instrs _ hm hw
    · split at e
      · cases e; exact safeErr_stack
      · cases e

theorem testConstraint_go_closed (c : Ctx) (k : Code) (hm : ∀ i ∈ k.instrs, modelledOp i.1 = true) :
    ∀ (n cell : Nat) {w : String}, testConstraint.go c k n cell = .error w → safeErr w := by
  intro n
  induction n with
  | zero => intro cell w e; unfold testConstraint.go at e; cases e
  | succ n ih =>
    intro cell w e
    unfold testConstraint.go at e
    split at e
    · exact ih _ e
    · split at e
      · rename_i w' hw
        cases e
        exact runConstraint_closed k c cell hm hw
      · split at e
        · cases e
        · exact ih _ e

theorem testConstraint_closed (r : Rule) (c : Ctx) (hr : ruleFull r = true) {w : String} (e : testConstraint r c = .error w) : safeErr w := by
  unfold ruleFull at hr
  simp only [Bool.and_eq_true] at hr
  unfold testConstraint at e
  split at e
  · cases e
  · simp only [] at e
    split at e
    · cases e
    · split at e
      · cases e
      · rename_i hne
        obtain ⟨k, hk, hm⟩ := codeFull_some hr.1 hne
        rw [hk] at e
        simp only [] at e
        exact testConstraint_go_closed c k hm _ _ e

theorem pickRule_closed (p : PassT) (c : Ctx) (hp : passFull p = true) : ∀ (rs : List Nat) {w : String}, pickRule p c rs = .error w → safeErr w := by
  intro rs
  induction rs with
  | nil => intro w e; unfold pickRule at e; cases e
  | cons r rest ih =>
    intro w e
    unfold pickRule at e
    split at e
    · rename_i w' hw
      cases e
      exact testConstraint_closed _ c (passFull_rule hp r) hw
    · cases e
    · split at e
      · cases e
      · exact ih e

/-- **one rule application on a pass of the modelled fragment**: whatever error it reports is a stack fault or an engine fault -/
theorem findNDoRule_closed (p : PassT) (hp : passFull p = true) (c : Ctx) (slot : Nat) {w : String} (e : findNDoRule p c slot = .error w) : safeErr w := by
  unfold findNDoRule at e
  revert e
  generalize runFSM p c slot = r
  obtain ⟨ok, c1, rules⟩ := r
  intro e
  simp only [] at e
  split at e
  · cases e
  · split at e
    · rename_i w' hw
      cases e
      exact pickRule_closed p c1 hp rules hw
    · split at e <;> cases e
    · rename_i r st hpick
      split at e
      · cases e
      · rename_i hne
        have hr := passFull_rule hp r
        unfold ruleFull at hr
        simp only [Bool.and_eq_true] at hr
        obtain ⟨k, hk, hm⟩ := codeFull_some hr.2 hne
        rw [hk] at e
        simp only [] at e
        split at e
        · rename_i w' hw
          cases e
          exact doAction_closed hm hw
        · split at e <;> cases e

theorem testPassConstraint_closed (p : PassT) (hp : passFull p = true) (c : Ctx) (s0 : Nat) {w : String}
    (e : testPassConstraint p c s0 = .error w) : safeErr w := by
  unfold passFull at hp
  simp only [Bool.and_eq_true] at hp
  unfold testPassConstraint at e
  split at e
  · cases e
  · rename_i hne
    obtain ⟨k, hk, hm⟩ := codeFull_some hp.2 hne
    rw [hk] at e
    simp only [] at e
    split at e
    · rename_i w' hw
      cases e
      exact runConstraint_closed k _ _ hm hw
    · cases e

/-! ## where an error of the pipeline comes from -/

/-- an error of one rule application or of the pass constraint of pass `p` -/
def EngineErrorOf (p : PassT) (w : String) : Prop :=
  (∃ c s, findNDoRule p c s = .error w) ∨ (∃ c s, testPassConstraint p c s = .error w)

theorem runPassDir_errorOf (p : PassT) (hL : 1 ≤ p.maxLoop) (c : Ctx) (fuel : Nat) (ar : Bool) (h : WF c.seg) {w : String}
    (e : runPassDir p c fuel ar = .error w) : EngineErrorOf p w := by
  unfold runPassDir at e
  split at e
  · cases e
  · simp only [] at e
    split at e
    · rename_i hpc
      cases e
      exact Or.inr ⟨c, _, hpc⟩
    · split at e
      · cases e
      · split at e
        · cases e
        · split at e
          · obtain ⟨c', s', hh⟩ := runPass_error p hL (c.withSeg (c.seg.reverseSlots (isMark c c.seg))) fuel (reverse_wf h _) e
            exact Or.inl ⟨c', s', hh⟩
          · obtain ⟨c', s', hh⟩ := runPass_error p hL c fuel h e
            exact Or.inl ⟨c', s', hh⟩

theorem runPhase_errorOf (passes : Array PassT) (bPass : Nat) (c : Ctx) (lo hi : Nat) (dobidi : Bool) (fuel aMirror : Nat) (h : WF c.seg)
    (hL : ∀ k, lo ≤ k → k < hi → 1 ≤ (passes.getD k default).maxLoop) {w : String}
    (e : runPhase passes bPass c lo hi dobidi fuel aMirror = .error w) : ∃ k, lo ≤ k ∧ k < hi ∧ EngineErrorOf (passes.getD k default) w := by
  obtain ⟨ar, k, c1, h1, h2, hw, he⟩ := runPhase_err (fun c => WF c.seg) passes bPass lo hi dobidi fuel aMirror
    (fun ar k _ _ c1 c2 h1 e1 => runPassDir_spec _ c1 fuel ar h1 e1) (fun c l h => h) (fun c h => bidiStep_wf h aMirror) c h e
  exact ⟨k, h1, h2, runPassDir_errorOf _ (hL k h1 h2) c1 fuel ar hw he⟩

/-- **an error of the pipeline comes from a pass of the font** – a rule application or a pass constraint of one of its passes; the
recursion fuel and `associateChars` are never the reason -/
theorem shape_errorOf (font : Font) (text : List Nat) (fuel : Nat) (dir : Nat) (hi : font.ipos ≤ font.passes.size)
    (hL : ∀ k, k < font.passes.size → 1 ≤ (font.passes.getD k default).maxLoop) {w : String}
    (e : shape font text fuel dir = .error w) : ∃ k, k < font.passes.size ∧ EngineErrorOf (font.passes.getD k default) w := by
  unfold shape at e
  split at e
  · cases e
  · rename_i hn0
    have hn : 0 < text.length := Nat.pos_of_ne_zero hn0
    split at e
    · rename_i w1 h1
      cases e
      obtain ⟨k, _, hk, hh⟩ := runPhase_errorOf _ _ _ _ _ _ _ _ (startMirror_wf font (initSeg_wf font text dir)) (fun k _ hk => hL k (by omega)) h1
      exact ⟨k, by omega, hh⟩
    · cases e
    · rename_i c1 h1
      have w1 : WF c1.seg := runPhase_spec _ _ _ _ _ _ _ (startMirror_wf font (initSeg_wf font text dir)) h1
      obtain ⟨r, hr⟩ := reassociation_stays_inside_cinfo font text fuel dir hn h1
      rw [hr] at e
      simp only [] at e
      have w2 : WF r.1 := reassoc_wf w1 hr
      split at e
      · rename_i w2' h2
        cases e
        obtain ⟨k, _, hk, hh⟩ := runPhase_errorOf _ _ _ _ _ _ _ _ w2 (fun k _ hk => hL k hk) h2
        exact ⟨k, hk, hh⟩
      · cases e
      · cases e

theorem fontFull_pass {font : Font} (h : fontFull font = true) {k : Nat} (hk : k < font.passes.size) : passFull (font.passes.getD k default) = true := by
  unfold fontFull at h
  have := (Array.all_eq_true.mp h) k hk
  simpa [Array.getD_eq_getD_getElem?, hk] using this

/-- **The pipeline model never faults on a font of its fragment.**  For every font whose rule code decodes into modelled opcodes
(`fontFull`) and passes the loader's cursor tests (`fontOK`), whose positioning-pass index and loop limits are what the loader makes them,
every text, direction and fuel: `shape` returns – a segment, or `none` where the engine gives up (a machine that did not finish, a segment
that outgrew its limit) – and never an error: no access outside the machine stack, no write through a null cursor, no write outside the
slot map, no operand read outside the code, no char-info access out of range, no running out of recursion fuel. -/
theorem shape_total (font : Font) (hfull : fontFull font = true) (hok : fontOK font = true) (hi : font.ipos ≤ font.passes.size)
    (hL : ∀ k, k < font.passes.size → 1 ≤ (font.passes.getD k default).maxLoop) (text : List Nat) (fuel : Nat) (dir : Nat) :
    ∃ r, shape font text fuel dir = .ok r := by
  cases hs : shape font text fuel dir with
  | ok r => exact ⟨r, rfl⟩
  | error w =>
    exfalso
    obtain ⟨k, hk, hE⟩ := shape_errorOf font text fuel dir hi hL hs
    have hp := fontFull_pass hfull hk
    have hsafe : safeErr w := by
      rcases hE with ⟨c, s, h⟩ | ⟨c, s, h⟩
      · exact findNDoRule_closed _ hp c s h
      · exact testPassConstraint_closed _ hp c s h
    rcases hsafe with h | h
    · rcases shape_error font text fuel dir hi hL hs with (⟨p, c, s, h1⟩ | ⟨p, c, s, h1⟩) | h1
      · exact findNDoRule_noStack p c s h1 h
      · exact testPassConstraint_noStack p c s h1 h
      · rw [h1] at h; exact absurd h (by decide)
    · exact shape_noNullCursor font hok text fuel dir hs h

end GrVerif.Pass

import GrVerif.Proofs.Heap
namespace GrVerif.Action
open GrVerif.Vm GrVerif.Seg GrVerif.Gen.Vm

def OutcomeP (P : Ctx → Prop) : Outcome → Prop
  | .cont c => P c
  | .died c => P c
  | .fault _ => True

def StepP (P : Ctx → Prop) : Sum St End → Prop
  | .inl s => P s.ctx
  | .inr (.normal s) => P s.ctx
  | .inr (.fault _) => True

def EndP (P : Ctx → Prop) : End → Prop
  | .normal s => P s.ctx
  | .fault _ => True

theorem OutcomeP.mono {P Q : Ctx → Prop} {o : Outcome} (h : OutcomeP P o) (f : ∀ c, P c → Q c) : OutcomeP Q o := by
  cases o with
  | cont c => exact f c h
  | died c => exact f c h
  | fault w => trivial

structure OpsPreserve (P : Ctx → Prop) : Prop where
  next : ∀ c, P c → OutcomeP P (opNext c)
  insert : ∀ c, P c → OutcomeP P (opInsert c)
  delete : ∀ c, P c → OutcomeP P (opDelete c)
  putCopy : ∀ c r, P c → OutcomeP P (opPutCopy c r)
  assoc : ∀ c rs, P c → OutcomeP P (opAssoc c rs)
  tempCopy : ∀ c, P c → OutcomeP P (opTempCopy c)
  attrSet : ∀ c a b v, P c → OutcomeP P (opAttrSet c a b v)
  putGlyph : ∀ c k, P c → OutcomeP P (opPutGlyph c k)
  putSubs : ∀ c r i o, P c → OutcomeP P (opPutSubs c r i o)
  slotat : ∀ c x, P c → P (slotat c x).2

theorem stepInstr_preserves (P : Ctx → Prop) (H : OpsPreserve P) (s : St) (i : Instr) (h : P s.ctx) : StepP P (stepInstr s i) := by
  obtain ⟨opc, ps⟩ := i
  have wc : ∀ (o : Outcome) (d : Nat), OutcomeP P o → StepP P
      (match o with
      | .cont c => (Sum.inl { vm := { s.vm with dp := s.vm.dp + d }, ctx := c } : Sum St End)
      | .died c =>
        (match push 1 { s.vm with status := .died_early } with
         | .ok _ vm => .inr (.normal { vm := vm, ctx := c })
         | .stop _ _ => .inr (.fault "stack"))
      | .fault w => .inr (.fault w)) := by
    intro o d ho
    cases o with
    | cont c => exact ho
    | died c => simp only; split <;> first | exact ho | trivial
    | fault w => trivial
  unfold stepInstr
  simp only
  split
  · exact wc _ _ (H.next _ h)
  · exact wc _ _ (H.next _ h)
  · exact wc _ _ (H.insert _ h)
  · exact wc _ _ (H.delete _ h)
  · exact wc _ _ (H.putCopy _ _ h)
  · exact wc _ _ (H.assoc _ _ h)
  · exact wc _ _ (H.tempCopy _ h)
  · exact wc _ _ (H.putGlyph _ _ h)
  · exact wc _ _ (H.putSubs _ _ _ _ h)
  · have hs := H.slotat s.ctx (s8 (ps.getD 1 0)) h
    split
    · split
      · exact hs
      · trivial
    · exact hs
  · have hs := H.slotat s.ctx (s8 (ps.getD 2 0)) h
    split
    · split
      · exact hs
      · trivial
    · exact hs
  · have hs := H.slotat s.ctx (s8 (ps.getD 1 0)) h
    split
    · split
      · exact hs
      · trivial
    · exact hs
  · split
    · have := H.attrSet s.ctx (ps.getD 0 0) 0 (i16 ‹Int›) h
      split <;> rename_i heq <;> rw [heq] at this <;> first | exact this | trivial
    · trivial
  · split
    · have := H.attrSet s.ctx (ps.getD 0 0) 0 (i16 (i32 (‹Int› + curAttr s.ctx (ps.getD 0 0)))) h
      split <;> rename_i heq <;> rw [heq] at this <;> first | exact this | trivial
    · trivial
  · split
    · have := H.attrSet s.ctx (ps.getD 0 0) 0 (i16 (i32 (curAttr s.ctx (ps.getD 0 0) - ‹Int›))) h
      split <;> rename_i heq <;> rw [heq] at this <;> first | exact this | trivial
    · trivial
  · split
    · have := H.attrSet s.ctx (ps.getD 0 0) ((if ps.getD 0 0 = 2 then s.ctx.map - 1 else 0 : Int) % 256).toNat (i16 (i32 (‹Int› + (if ps.getD 0 0 = 2 then s.ctx.map - 1 else 0)))) h
      split <;> rename_i heq <;> rw [heq] at this <;> first | exact this | trivial
    · trivial
  · exact wc _ _ (H.putGlyph _ _ h)
  · exact wc _ _ (H.putSubs _ _ _ _ h)
  · split
    · trivial
    · split <;> first | exact h | trivial

theorem runLoop_preserves (P : Ctx → Prop) (H : OpsPreserve P) : ∀ (is : List Instr) (s : St), P s.ctx → EndP P (runLoop is s) := by
  intro is
  induction is with
  | nil => intro s h; exact h
  | cons i rest ih =>
    intro s h
    unfold runLoop
    have := stepInstr_preserves P H s i h
    split
    · rename_i e heq; rw [heq] at this
      cases e with
      | normal s' => exact this
      | fault w => trivial
    · rename_i s' heq; rw [heq] at this
      split
      · exact ih _ this
      · exact this

/-! ## C05: the association range invariant -/
def RangeOK (n : Int) (sl : Slot) : Prop :=
  0 ≤ sl.before ∧ sl.before < n ∧ 0 ≤ sl.after ∧ sl.after < n ∧ 0 ≤ sl.original ∧ sl.original < n

def AssocOK (n : Int) (s : Seg) : Prop := (∀ j, RangeOK n (s.get j)) ∧ 0 ≤ s.defaultOriginal ∧ s.defaultOriginal < n

theorem rangeOK_default (n : Int) (hn : 0 < n) : RangeOK n {} := by
  unfold RangeOK; simp; exact hn

theorem AssocOK.upd {n : Int} {s : Seg} (h : AssocOK n s) (i : Nat) (f : Slot → Slot) (hf : RangeOK n (f (s.get i))) : AssocOK n (s.upd i f) := by
  refine ⟨fun j => ?_, h.2⟩
  rw [get_upd]; split
  · rename_i hh; rw [hh.1]; exact hf
  · exact h.1 j

theorem AssocOK.sameT {n : Int} {s s' : Seg} (h : AssocOK n s) (hs : SameT s s') : AssocOK n s' := by
  refine ⟨fun j => ?_, by rw [hs.defaultOriginal]; exact h.2⟩
  have := hs.slot j
  have h1 := h.1 j
  unfold TreeOnly at this; unfold RangeOK at *
  obtain ⟨_, _, _, ho, hb, ha, _⟩ := this
  rw [ho, hb, ha]; exact h1

end GrVerif.Action

import GrVerif.Model.Assoc
/-!
# `Segment::associateChars` covers every character   (C05, coverage clause)

For a stream whose slots carry proper ranges (`0 ≤ before ≤ after < n`) and that is not empty, after `associateChars` every character
index lies in the `[before, after]` range of some slot.  Characters inside an input range stay inside it (ranges only grow); a character
in no input range is claimed by the third loop: by the first slot of the stream whose range ends just in front of the gap the character
lies in (`fwd`), or – for a gap at the start of the segment – by the first slot whose range begins just behind it (`bwd`).
-/
set_option linter.unusedVariables false
namespace GrVerif.Assoc

/-- `charinfo(j)->after()` / `before()`; −1 outside the array -/
def aft (cs : List CI) (j : Int) : Int := match getC cs j with | some c => c.after | none => -1
def bef (cs : List CI) (j : Int) : Int := match getC cs j with | some c => c.before | none => -1

/-- character `x` lies in the range of some slot -/
def Cov (S : List (Int × Int)) (x : Int) : Prop := ∃ p ∈ S, p.1 ≤ x ∧ x ≤ p.2

/-- the slots carry proper ranges inside the segment's characters -/
def Proper (n : Int) (S : List (Int × Int)) : Prop := ∀ p ∈ S, 0 ≤ p.1 ∧ p.1 ≤ p.2 ∧ p.2 < n

theorem getC_some {cs : List CI} {j : Int} (h0 : 0 ≤ j) (h1 : j < cs.length) : ∃ c, getC cs j = some c ∧ cs[j.toNat]? = some c := by
  unfold getC
  rw [if_neg (by omega)]
  have : j.toNat < cs.length := by omega
  exact ⟨cs[j.toNat], by simp [this], by simp [this]⟩

theorem getC_none_of_ge {cs : List CI} {j : Int} (h1 : (cs.length : Int) ≤ j) : getC cs j = none := by
  unfold getC
  rw [if_neg (by omega)]
  have : cs.length ≤ j.toNat := by omega
  simp [this]

theorem getC_set {cs : List CI} {j k : Int} (c : CI) (hk0 : 0 ≤ k) (hk1 : k < cs.length) (hj : 0 ≤ j) :
    getC (cs.set k.toNat c) j = if j = k then some c else getC cs j := by
  by_cases e : j = k
  · subst e
    rw [if_pos rfl]
    unfold getC
    rw [if_neg (by omega)]
    have : j.toNat < cs.length := by omega
    simp [this]
  · rw [if_neg e]
    unfold getC
    rw [if_neg (by omega), if_neg (by omega)]
    have : k.toNat ≠ j.toNat := by omega
    simp [List.getElem?_set, this]

theorem aft_set {cs : List CI} {j k : Int} (c : CI) (hk0 : 0 ≤ k) (hk1 : k < cs.length) :
    aft (cs.set k.toNat c) j = if j = k then c.after else aft cs j := by
  unfold aft
  by_cases hj : 0 ≤ j
  · rw [getC_set c hk0 hk1 hj]
    by_cases e : j = k
    · rw [if_pos e, if_pos e]
    · rw [if_neg e, if_neg e]
  · have h1 : getC (cs.set k.toNat c) j = none := by unfold getC; rw [if_pos (by omega)]
    have h2 : getC cs j = none := by unfold getC; rw [if_pos (by omega)]
    rw [h1, h2, if_neg (by omega)]

theorem bef_set {cs : List CI} {j k : Int} (c : CI) (hk0 : 0 ≤ k) (hk1 : k < cs.length) :
    bef (cs.set k.toNat c) j = if j = k then c.before else bef cs j := by
  unfold bef
  by_cases hj : 0 ≤ j
  · rw [getC_set c hk0 hk1 hj]
    by_cases e : j = k
    · rw [if_pos e, if_pos e]
    · rw [if_neg e, if_neg e]
  · have h1 : getC (cs.set k.toNat c) j = none := by unfold getC; rw [if_pos (by omega)]
    have h2 : getC cs j = none := by unfold getC; rw [if_pos (by omega)]
    rw [h1, h2, if_neg (by omega)]

theorem aft_of_getC {cs : List CI} {j : Int} {c : CI} (h : getC cs j = some c) : aft cs j = c.after := by unfold aft; rw [h]
theorem bef_of_getC {cs : List CI} {j : Int} {c : CI} (h : getC cs j = some c) : bef cs j = c.before := by unfold bef; rw [h]

/-- what the forward scan of the third loop does: it claims (`after := i`) the maximal run of characters from `s` on whose `after` is
still negative, and touches nothing else -/
theorem fwd_spec (n i : Int) : ∀ (fuel : Nat) (s : Int) (cs : List CI) (f : Bool), 0 ≤ s → (cs.length : Int) = n → n - s < fuel →
    (fwd n i fuel s cs f).2.1.length = cs.length ∧ s ≤ (fwd n i fuel s cs f).1 ∧
    (∀ x, s ≤ x → x < (fwd n i fuel s cs f).1 → x < n ∧ aft cs x < 0) ∧
    ((fwd n i fuel s cs f).1 < n → 0 ≤ aft cs (fwd n i fuel s cs f).1) ∧
    (∀ x, aft (fwd n i fuel s cs f).2.1 x = if s ≤ x ∧ x < (fwd n i fuel s cs f).1 then i else aft cs x) ∧
    (∀ x, bef (fwd n i fuel s cs f).2.1 x = bef cs x) := by
  intro fuel
  induction fuel with
  | zero =>
    intro s cs f h0 hl hf
    unfold fwd
    refine ⟨rfl, Int.le_refl _, fun x h1 h2 => by omega, fun h => by simp only [] at h; omega, fun x => by rw [if_neg (by omega)], fun x => rfl⟩
  | succ k ih =>
    intro s cs f h0 hl hf
    by_cases hsn : s < n
    · obtain ⟨c, hc, hc2⟩ := getC_some h0 (by omega : s < cs.length)
      by_cases hneg : c.after < 0
      · have e : fwd n i (k + 1) s cs f = fwd n i k (s + 1) (cs.set s.toNat { c with after := i }) f := by
          conv => lhs; unfold fwd
          rw [if_pos hsn, hc]
          simp only []
          rw [if_pos hneg]
        rw [e]
        have hlen : ((cs.set s.toNat { c with after := i }).length : Int) = n := by rw [List.length_set]; exact hl
        obtain ⟨a1, a2, a3, a4, a5, a6⟩ := ih (s + 1) (cs.set s.toNat { c with after := i }) f (by omega) hlen (by omega)
        refine ⟨by rw [a1, List.length_set], by omega, fun x h1 h2 => ?_, fun h => ?_, fun x => ?_, fun x => ?_⟩
        · by_cases e : x = s
          · subst e; exact ⟨hsn, by rw [aft_of_getC hc]; exact hneg⟩
          · have := a3 x (by omega) h2
            rw [aft_set _ h0 (by omega), if_neg e] at this
            exact this
        · have := a4 h
          rw [aft_set _ h0 (by omega), if_neg (by omega)] at this
          exact this
        · rw [a5 x, aft_set _ h0 (by omega)]
          by_cases e : x = s
          · subst e
            rw [if_neg (by omega), if_pos rfl, if_pos ⟨Int.le_refl _, by omega⟩]
          · rw [if_neg e]
            by_cases h1 : s + 1 ≤ x ∧ x < (fwd n i k (s + 1) (cs.set s.toNat { c with after := i }) f).1
            · rw [if_pos h1, if_pos ⟨by omega, h1.2⟩]
            · rw [if_neg h1, if_neg (by omega)]
        · rw [a6 x, bef_set _ h0 (by omega)]
          by_cases e : x = s
          · subst e; rw [if_pos rfl, bef_of_getC hc]
          · rw [if_neg e]
      · have e : fwd n i (k + 1) s cs f = (s, cs, f) := by
          conv => lhs; unfold fwd
          rw [if_pos hsn, hc]
          simp only []
          rw [if_neg hneg]
        rw [e]
        refine ⟨rfl, Int.le_refl _, fun x h1 h2 => by omega, fun _ => by rw [aft_of_getC hc]; omega, fun x => by rw [if_neg (by omega)], fun x => rfl⟩
    · have e : fwd n i (k + 1) s cs f = (s, cs, f) := by
        conv => lhs; unfold fwd
        rw [if_neg hsn]
      rw [e]
      refine ⟨rfl, Int.le_refl _, fun x h1 h2 => by omega, fun h => by simp only [] at h; omega, fun x => by rw [if_neg (by omega)], fun x => rfl⟩

/-- the backward scan: it claims (`before := i`) the maximal run of characters from `s` down whose `before` is still negative -/
theorem bwd_spec (i : Int) : ∀ (fuel : Nat) (s : Int) (cs : List CI) (f : Bool), s < (cs.length : Int) → s + 1 < fuel →
    (bwd i fuel s cs f).2.1.length = cs.length ∧ (bwd i fuel s cs f).1 ≤ s ∧
    (∀ x, (bwd i fuel s cs f).1 < x → x ≤ s → 0 ≤ x ∧ bef cs x < 0) ∧
    (0 ≤ (bwd i fuel s cs f).1 → 0 ≤ bef cs (bwd i fuel s cs f).1) ∧
    (∀ x, bef (bwd i fuel s cs f).2.1 x = if (bwd i fuel s cs f).1 < x ∧ x ≤ s then i else bef cs x) ∧
    (∀ x, aft (bwd i fuel s cs f).2.1 x = aft cs x) := by
  intro fuel
  induction fuel with
  | zero =>
    intro s cs f hl hf
    unfold bwd
    refine ⟨rfl, Int.le_refl _, fun x h1 h2 => by simp only [] at h1; omega, fun h => by simp only [] at h; omega, fun x => by rw [if_neg (by simp only []; omega)], fun x => rfl⟩
  | succ k ih =>
    intro s cs f hl hf
    by_cases hs0 : s ≥ 0
    · obtain ⟨c, hc, hc2⟩ := getC_some hs0 hl
      by_cases hneg : c.before < 0
      · have e : bwd i (k + 1) s cs f = bwd i k (s - 1) (cs.set s.toNat { c with before := i }) f := by
          conv => lhs; unfold bwd
          rw [if_pos hs0, hc]
          simp only []
          rw [if_pos hneg]
        rw [e]
        have hlen : s - 1 < ((cs.set s.toNat { c with before := i }).length : Int) := by rw [List.length_set]; omega
        obtain ⟨a1, a2, a3, a4, a5, a6⟩ := ih (s - 1) (cs.set s.toNat { c with before := i }) f hlen (by omega)
        refine ⟨by rw [a1, List.length_set], by omega, fun x h1 h2 => ?_, fun h => ?_, fun x => ?_, fun x => ?_⟩
        · by_cases e : x = s
          · subst e; exact ⟨hs0, by rw [bef_of_getC hc]; exact hneg⟩
          · have := a3 x h1 (by omega)
            rw [bef_set _ hs0 hl, if_neg e] at this
            exact this
        · have := a4 h
          rw [bef_set _ hs0 hl, if_neg (by omega)] at this
          exact this
        · rw [a5 x, bef_set _ hs0 hl]
          by_cases e : x = s
          · subst e
            rw [if_neg (by omega), if_pos rfl, if_pos ⟨by omega, Int.le_refl _⟩]
          · rw [if_neg e]
            by_cases h1 : (bwd i k (s - 1) (cs.set s.toNat { c with before := i }) f).1 < x ∧ x ≤ s - 1
            · rw [if_pos h1, if_pos ⟨h1.1, by omega⟩]
            · rw [if_neg h1, if_neg (by omega)]
        · rw [a6 x, aft_set _ hs0 hl]
          by_cases e : x = s
          · subst e; rw [if_pos rfl, aft_of_getC hc]
          · rw [if_neg e]
      · have e : bwd i (k + 1) s cs f = (s, cs, f) := by
          conv => lhs; unfold bwd
          rw [if_pos hs0, hc]
          simp only []
          rw [if_neg hneg]
        rw [e]
        refine ⟨rfl, Int.le_refl _, fun x h1 h2 => by simp only [] at h1; omega, fun _ => by rw [bef_of_getC hc]; omega, fun x => by rw [if_neg (by simp only []; omega)], fun x => rfl⟩
    · have e : bwd i (k + 1) s cs f = (s, cs, f) := by
        conv => lhs; unfold bwd
        rw [if_neg hs0]
      rw [e]
      refine ⟨rfl, Int.le_refl _, fun x h1 h2 => by simp only [] at h1; omega, fun h => by simp only [] at h; omega, fun x => by rw [if_neg (by simp only []; omega)], fun x => rfl⟩

/-! ## the second loop -/

/-- what the second loop writes into a char-info that slot `i` covers -/
def touch (i : Int) (c : CI) : CI :=
  let c := if c.before = -1 ∨ i < c.before then { c with before := i } else c
  if c.after < i then { c with after := i } else c

theorem touch_after (i : Int) (c : CI) (hi : 0 ≤ i) : 0 ≤ (touch i c).after := by
  unfold touch
  by_cases h1 : c.before = -1 ∨ i < c.before
  · simp only [h1, if_true]
    by_cases h2 : c.after < i
    · simp only [h2, if_true]; exact hi
    · simp only [h2, if_false]; omega
  · simp only [h1, if_false]
    by_cases h2 : c.after < i
    · simp only [h2, if_true]; exact hi
    · simp only [h2, if_false]; omega

theorem touch_before (i : Int) (c : CI) (hi : 0 ≤ i) (hc : -1 ≤ c.before) : 0 ≤ (touch i c).before := by
  unfold touch
  by_cases h1 : c.before = -1 ∨ i < c.before
  · simp only [h1, if_true]
    by_cases h2 : c.after < i
    · simp only [h2, if_true]; exact hi
    · simp only [h2, if_false]; exact hi
  · simp only [h1, if_false]
    by_cases h2 : c.after < i
    · simp only [h2, if_true]; omega
    · simp only [h2, if_false]; omega

theorem cover_spec (i : Int) (hi : 0 ≤ i) : ∀ (fuel : Nat) (j : Int) (cs : List CI) (f : Bool), 0 ≤ j → j + fuel ≤ cs.length →
    (∀ x, -1 ≤ bef cs x) →
    (cover i fuel j cs f).1.length = cs.length ∧ (cover i fuel j cs f).2 = f ∧ (∀ x, -1 ≤ bef (cover i fuel j cs f).1 x) ∧
    (∀ x, j ≤ x → x < j + fuel → 0 ≤ aft (cover i fuel j cs f).1 x ∧ 0 ≤ bef (cover i fuel j cs f).1 x) ∧
    (∀ x, ¬ (j ≤ x ∧ x < j + fuel) → aft (cover i fuel j cs f).1 x = aft cs x ∧ bef (cover i fuel j cs f).1 x = bef cs x) := by
  intro fuel
  induction fuel with
  | zero =>
    intro j cs f h0 hl hb
    unfold cover
    exact ⟨rfl, rfl, hb, fun x h1 h2 => by omega, fun x _ => ⟨rfl, rfl⟩⟩
  | succ k ih =>
    intro j cs f h0 hl hb
    obtain ⟨c, hc, _⟩ := getC_some h0 (by omega : j < cs.length)
    have e : cover i (k + 1) j cs f = cover i k (j + 1) (cs.set j.toNat (touch i c)) f := by
      conv => lhs; unfold cover
      rw [hc]
      rfl
    rw [e]
    have hjl : j < cs.length := by omega
    have hb' : ∀ x, -1 ≤ bef (cs.set j.toNat (touch i c)) x := by
      intro x
      rw [bef_set _ h0 hjl]
      by_cases ex : x = j
      · rw [if_pos ex]; have := touch_before i c hi (by have := hb j; rw [bef_of_getC hc] at this; exact this); omega
      · rw [if_neg ex]; exact hb x
    obtain ⟨a1, a2, a3, a4, a5⟩ := ih (j + 1) (cs.set j.toNat (touch i c)) f (by omega) (by rw [List.length_set]; omega) hb'
    refine ⟨by rw [a1, List.length_set], a2, a3, fun x h1 h2 => ?_, fun x hx => ?_⟩
    · by_cases ex : x = j
      · have := a5 x (by omega)
        rw [this.1, this.2, aft_set _ h0 hjl, bef_set _ h0 hjl, if_pos ex, if_pos ex]
        exact ⟨touch_after i c hi, touch_before i c hi (by have := hb j; rw [bef_of_getC hc] at this; exact this)⟩
      · exact a4 x (by omega) (by omega)
    · have := a5 x (by omega)
      rw [this.1, this.2, aft_set _ h0 hjl, bef_set _ h0 hjl, if_neg (by omega), if_neg (by omega)]
      exact ⟨rfl, rfl⟩

/-- after the second loop: a character in some slot's range has `before` and `after` set, every other character is as it was -/
theorem loop2_spec (n : Int) : ∀ (S : List (Int × Int)) (i : Int) (cs : List CI) (f : Bool), 0 ≤ i → Proper n S → (cs.length : Int) = n →
    (∀ x, -1 ≤ bef cs x) →
    (loop2 S i cs f).1.length = cs.length ∧ (loop2 S i cs f).2 = f ∧
    (∀ x, Cov S x → 0 ≤ aft (loop2 S i cs f).1 x ∧ 0 ≤ bef (loop2 S i cs f).1 x) ∧
    (∀ x, ¬ Cov S x → aft (loop2 S i cs f).1 x = aft cs x ∧ bef (loop2 S i cs f).1 x = bef cs x) ∧
    (∀ x, 0 ≤ aft cs x → 0 ≤ aft (loop2 S i cs f).1 x) ∧ (∀ x, 0 ≤ bef cs x → 0 ≤ bef (loop2 S i cs f).1 x) := by
  intro S
  induction S with
  | nil =>
    intro i cs f _ _ _ _
    unfold loop2
    exact ⟨rfl, ⟨rfl, fun x hx => (by obtain ⟨p, hp, _⟩ := hx; cases hp), fun x _ => ⟨rfl, rfl⟩, fun x h => h, fun x h => h⟩⟩
  | cons p rest ih =>
    intro i cs f hi hP hl hb
    obtain ⟨b, a⟩ := p
    have hp := hP (b, a) List.mem_cons_self
    simp only [] at hp
    have e : loop2 ((b, a) :: rest) i cs f = loop2 rest (i + 1) (cover i (a - b + 1).toNat b cs f).1 (cover i (a - b + 1).toNat b cs f).2 := by
      conv => lhs; unfold loop2
      rw [if_neg (by omega)]
    rw [e]
    have hfu : ((a - b + 1).toNat : Int) = a - b + 1 := by omega
    obtain ⟨c1, c2, c3, c4, c5⟩ := cover_spec i hi (a - b + 1).toNat b cs f hp.1 (by omega) hb
    rw [hfu] at c4 c5
    rw [c2]
    obtain ⟨d1, d2, d3, d4, d5, d6⟩ := ih (i + 1) (cover i (a - b + 1).toNat b cs f).1 f (by omega)
      (fun q hq => hP q (List.mem_cons_of_mem _ hq)) (by rw [c1]; exact hl) c3
    have inrange : ∀ x, (b ≤ x ∧ x < b + (a - b + 1)) ↔ (b ≤ x ∧ x ≤ a) := fun x => by constructor <;> intro h <;> omega
    refine ⟨by rw [d1, c1], d2, fun x hx => ?_, fun x hx => ?_, fun x hx => ?_, fun x hx => ?_⟩
    · obtain ⟨q, hq, hq1, hq2⟩ := hx
      rcases List.mem_cons.mp hq with hq | hq
      · cases hq
        have := c4 x hq1 (by omega)
        exact ⟨d5 x this.1, d6 x this.2⟩
      · exact d3 x ⟨q, hq, hq1, hq2⟩
    · have hnr : ¬ Cov rest x := fun ⟨q, hq, h1, h2⟩ => hx ⟨q, List.mem_cons_of_mem _ hq, h1, h2⟩
      have hnb : ¬ (b ≤ x ∧ x < b + (a - b + 1)) := fun h => hx ⟨(b, a), List.mem_cons_self, h.1, by omega⟩
      rw [(d4 x hnr).1, (d4 x hnr).2]
      exact c5 x hnb
    · by_cases hin : b ≤ x ∧ x < b + (a - b + 1)
      · exact d5 x (c4 x hin.1 hin.2).1
      · exact d5 x (by rw [(c5 x hin).1]; exact hx)
    · by_cases hin : b ≤ x ∧ x < b + (a - b + 1)
      · exact d6 x (c4 x hin.1 hin.2).2
      · exact d6 x (by rw [(c5 x hin).2]; exact hx)

/-! ## the third loop -/

theorem loop3_cons (n : Int) (b a : Int) (rest : List (Int × Int)) (i : Int) (cs : List CI) (f : Bool) :
    (loop3 n ((b, a) :: rest) i cs f).1 =
      ((bwd i (cs.length + 1) (b - 1) (fwd n i (cs.length + 1) (a + 1) cs f).2.1 (fwd n i (cs.length + 1) (a + 1) cs f).2.2).1 + 1,
        (fwd n i (cs.length + 1) (a + 1) cs f).1 - 1) ::
      (loop3 n rest (i + 1) (bwd i (cs.length + 1) (b - 1) (fwd n i (cs.length + 1) (a + 1) cs f).2.1 (fwd n i (cs.length + 1) (a + 1) cs f).2.2).2.1
        (bwd i (cs.length + 1) (b - 1) (fwd n i (cs.length + 1) (a + 1) cs f).2.1 (fwd n i (cs.length + 1) (a + 1) cs f).2.2).2.2).1 := by
  conv => lhs; unfold loop3

/-- ranges only grow: every slot's range after the third loop contains its range before -/
theorem loop3_grow (n : Int) : ∀ (S : List (Int × Int)) (i : Int) (cs : List CI) (f : Bool), Proper n S → (cs.length : Int) = n →
    ∀ p ∈ S, ∃ q ∈ (loop3 n S i cs f).1, q.1 ≤ p.1 ∧ p.2 ≤ q.2 := by
  intro S
  induction S with
  | nil => intro i cs f _ _ p hp; cases hp
  | cons p0 rest ih =>
    intro i cs f hP hl p hp
    obtain ⟨b, a⟩ := p0
    have hba := hP (b, a) List.mem_cons_self
    simp only [] at hba
    rw [loop3_cons]
    obtain ⟨f1, f2, _, _, _, _⟩ := fwd_spec n i (cs.length + 1) (a + 1) cs f (by omega) hl (by omega)
    obtain ⟨g1, g2, _, _, _, _⟩ := bwd_spec i (cs.length + 1) (b - 1) (fwd n i (cs.length + 1) (a + 1) cs f).2.1 (fwd n i (cs.length + 1) (a + 1) cs f).2.2
      (by rw [f1]; omega) (by omega)
    rcases List.mem_cons.mp hp with hp | hp
    · cases hp
      exact ⟨_, List.mem_cons_self, by simp only []; omega, by simp only []; omega⟩
    · obtain ⟨q, hq, h1, h2⟩ := ih (i + 1) _ _ (fun q hq => hP q (List.mem_cons_of_mem _ hq)) (by rw [g1, f1]; exact hl) p hp
      exact ⟨q, List.mem_cons_of_mem _ hq, h1, h2⟩

/-- a character behind the range end `y`, with nothing but uncovered characters between: the first slot of the stream whose range ends at
`y` claims it in its forward scan -/
theorem loop3_left (n : Int) (All : List (Int × Int)) (hPall : Proper n All) (x y : Int) (hy : Cov All y) (hyx : y < x) (hxn : x < n)
    (hgap : ∀ z, y < z → z ≤ x → ¬ Cov All z) :
    ∀ (rest : List (Int × Int)) (i : Int) (cs : List CI) (f : Bool), 0 ≤ i → (∀ p ∈ rest, p ∈ All) → (cs.length : Int) = n →
      (∀ z, Cov All z → 0 ≤ aft cs z) → (∀ z, y < z → z ≤ x → aft cs z < 0) → (∃ p ∈ rest, p.2 = y) →
      ∃ q ∈ (loop3 n rest i cs f).1, q.1 ≤ x ∧ x ≤ q.2 := by
  intro rest
  induction rest with
  | nil => intro i cs f _ _ _ _ _ he; obtain ⟨p, hp, _⟩ := he; cases hp
  | cons p0 tail ih =>
    intro i cs f hi hsub hl hcov hneg he
    obtain ⟨b, a⟩ := p0
    have hmem := hsub (b, a) List.mem_cons_self
    have hba := hPall (b, a) hmem
    simp only [] at hba
    rw [loop3_cons]
    obtain ⟨f1, f2, f3, f4, f5, f6⟩ := fwd_spec n i (cs.length + 1) (a + 1) cs f (by omega) hl (by omega)
    obtain ⟨g1, g2, g3, g4, g5, g6⟩ := bwd_spec i (cs.length + 1) (b - 1) (fwd n i (cs.length + 1) (a + 1) cs f).2.1 (fwd n i (cs.length + 1) (a + 1) cs f).2.2
      (by rw [f1]; omega) (by omega)
    by_cases hay : a = y
    · refine ⟨_, List.mem_cons_self, by simp only []; omega, ?_⟩
      simp only []
      apply Classical.byContradiction
      intro hc
      have hlt : (fwd n i (cs.length + 1) (a + 1) cs f).1 < n := by omega
      have h1 := f4 hlt
      have h2 := hneg (fwd n i (cs.length + 1) (a + 1) cs f).1 (by omega) (by omega)
      omega
    · have hacov : Cov All a := ⟨(b, a), hmem, hba.2.1, Int.le_refl _⟩
      obtain ⟨q, hq, hq1, hq2⟩ := ih (i + 1) _ _ (by omega) (fun p hp => hsub p (List.mem_cons_of_mem _ hp)) (by rw [g1, f1]; exact hl)
        (fun z hz => by
          rw [g6 z, f5 z]
          by_cases hin : a + 1 ≤ z ∧ z < (fwd n i (cs.length + 1) (a + 1) cs f).1
          · rw [if_pos hin]; exact hi
          · rw [if_neg hin]; exact hcov z hz)
        (fun z hz1 hz2 => by
          rw [g6 z, f5 z]
          rw [if_neg]
          · exact hneg z hz1 hz2
          · intro hin
            have hale : a ≤ y := by
              apply Classical.byContradiction
              intro hgt
              exact hgap a (by omega) (by omega) hacov
            have hy2 := f3 y (by omega) (by omega)
            have := hcov y hy
            omega)
        (by
          obtain ⟨p, hp, hpy⟩ := he
          rcases List.mem_cons.mp hp with hp | hp
          · cases hp; exact absurd hpy hay
          · exact ⟨p, hp, hpy⟩)
      exact ⟨q, List.mem_cons_of_mem _ hq, hq1, hq2⟩

/-- a character in front of the range start `y`, with nothing but uncovered characters between: the first slot of the stream whose range
begins at `y` claims it in its backward scan -/
theorem loop3_right (n : Int) (All : List (Int × Int)) (hPall : Proper n All) (x y : Int) (hy : Cov All y) (hxy : x < y) (hx0 : 0 ≤ x)
    (hgap : ∀ z, x ≤ z → z < y → ¬ Cov All z) :
    ∀ (rest : List (Int × Int)) (i : Int) (cs : List CI) (f : Bool), 0 ≤ i → (∀ p ∈ rest, p ∈ All) → (cs.length : Int) = n →
      (∀ z, Cov All z → 0 ≤ bef cs z) → (∀ z, x ≤ z → z < y → bef cs z < 0) → (∃ p ∈ rest, p.1 = y) →
      ∃ q ∈ (loop3 n rest i cs f).1, q.1 ≤ x ∧ x ≤ q.2 := by
  intro rest
  induction rest with
  | nil => intro i cs f _ _ _ _ _ he; obtain ⟨p, hp, _⟩ := he; cases hp
  | cons p0 tail ih =>
    intro i cs f hi hsub hl hcov hneg he
    obtain ⟨b, a⟩ := p0
    have hmem := hsub (b, a) List.mem_cons_self
    have hba := hPall (b, a) hmem
    simp only [] at hba
    rw [loop3_cons]
    obtain ⟨f1, f2, f3, f4, f5, f6⟩ := fwd_spec n i (cs.length + 1) (a + 1) cs f (by omega) hl (by omega)
    obtain ⟨g1, g2, g3, g4, g5, g6⟩ := bwd_spec i (cs.length + 1) (b - 1) (fwd n i (cs.length + 1) (a + 1) cs f).2.1 (fwd n i (cs.length + 1) (a + 1) cs f).2.2
      (by rw [f1]; omega) (by omega)
    by_cases hby : b = y
    · refine ⟨_, List.mem_cons_self, ?_, by simp only []; omega⟩
      simp only []
      apply Classical.byContradiction
      intro hc
      have hge : 0 ≤ (bwd i (cs.length + 1) (b - 1) (fwd n i (cs.length + 1) (a + 1) cs f).2.1 (fwd n i (cs.length + 1) (a + 1) cs f).2.2).1 := by omega
      have h1 := g4 hge
      rw [f6] at h1
      have h2 := hneg _ (by omega : x ≤ (bwd i (cs.length + 1) (b - 1) (fwd n i (cs.length + 1) (a + 1) cs f).2.1 (fwd n i (cs.length + 1) (a + 1) cs f).2.2).1) (by omega)
      omega
    · have hbcov : Cov All b := ⟨(b, a), hmem, Int.le_refl _, hba.2.1⟩
      obtain ⟨q, hq, hq1, hq2⟩ := ih (i + 1) _ _ (by omega) (fun p hp => hsub p (List.mem_cons_of_mem _ hp)) (by rw [g1, f1]; exact hl)
        (fun z hz => by
          rw [g5 z]
          by_cases hin : (bwd i (cs.length + 1) (b - 1) (fwd n i (cs.length + 1) (a + 1) cs f).2.1 (fwd n i (cs.length + 1) (a + 1) cs f).2.2).1 < z ∧ z ≤ b - 1
          · rw [if_pos hin]; exact hi
          · rw [if_neg hin, f6 z]; exact hcov z hz)
        (fun z hz1 hz2 => by
          rw [g5 z]
          rw [if_neg]
          · rw [f6 z]; exact hneg z hz1 hz2
          · intro hin
            have hbge : y ≤ b := by
              apply Classical.byContradiction
              intro hlt
              exact hgap b (by omega) (by omega) hbcov
            have hy2 := g3 y (by omega) (by omega)
            rw [f6] at hy2
            have := hcov y hy
            omega)
        (by
          obtain ⟨p, hp, hpy⟩ := he
          rcases List.mem_cons.mp hp with hp | hp
          · cases hp; exact absurd hpy hby
          · exact ⟨p, hp, hpy⟩)
      exact ⟨q, List.mem_cons_of_mem _ hq, hq1, hq2⟩

/-! ## every character is covered -/

theorem nearest_left (S : List (Int × Int)) : ∀ (d : Nat) (x : Int), (∃ y, Cov S y ∧ y < x ∧ x - y ≤ d) →
    ∃ y, Cov S y ∧ y < x ∧ ∀ z, y < z → z < x → ¬ Cov S z := by
  intro d
  induction d with
  | zero => intro x ⟨y, _, h1, h2⟩; omega
  | succ d ih =>
    intro x ⟨y, hy, h1, h2⟩
    by_cases h : ∃ y', Cov S y' ∧ y < y' ∧ y' < x
    · obtain ⟨y', hy', h3, h4⟩ := h
      exact ih x ⟨y', hy', h4, by omega⟩
    · exact ⟨y, hy, h1, fun z hz1 hz2 hcz => h ⟨z, hcz, hz1, hz2⟩⟩

theorem nearest_right (S : List (Int × Int)) : ∀ (d : Nat) (x : Int), (∃ y, Cov S y ∧ x < y ∧ y - x ≤ d) →
    ∃ y, Cov S y ∧ x < y ∧ ∀ z, x < z → z < y → ¬ Cov S z := by
  intro d
  induction d with
  | zero => intro x ⟨y, _, h1, h2⟩; omega
  | succ d ih =>
    intro x ⟨y, hy, h1, h2⟩
    by_cases h : ∃ y', Cov S y' ∧ x < y' ∧ y' < y
    · obtain ⟨y', hy', h3, h4⟩ := h
      exact ih x ⟨y', hy', h3, by omega⟩
    · exact ⟨y, hy, h1, fun z hz1 hz2 hcz => h ⟨z, hcz, hz1, hz2⟩⟩

theorem aft_replicate (n : Nat) (x : Int) : aft (List.replicate n ({} : CI)) x = -1 := by
  unfold aft getC
  by_cases h : x < 0
  · rw [if_pos h]
  · rw [if_neg h]
    by_cases h2 : x.toNat < n
    · simp [h2]
    · simp [h2]

theorem bef_replicate (n : Nat) (x : Int) : bef (List.replicate n ({} : CI)) x = -1 := by
  unfold bef getC
  by_cases h : x < 0
  · rw [if_pos h]
  · rw [if_neg h]
    by_cases h2 : x.toNat < n
    · simp [h2]
    · simp [h2]

/-- **`Segment::associateChars` covers every character**: for a non-empty stream of slots with proper ranges inside the segment's `n`
characters, every character index lies in the range `[before, after]` of some slot afterwards -/
theorem associateChars_covers (n : Nat) (S : List (Int × Int)) (hP : Proper n S) (hne : S ≠ []) (j : Int) (h0 : 0 ≤ j) (hn : j < n) :
    ∃ q ∈ (associateChars n S).1, q.1 ≤ j ∧ j ≤ q.2 := by
  unfold associateChars
  simp only []
  have hlen : ((List.replicate n ({} : CI)).length : Int) = n := by simp
  obtain ⟨l1, l2, l3, l4, _, _⟩ := loop2_spec n S 0 (List.replicate n {}) false (by omega) hP hlen (fun x => by rw [bef_replicate]; omega)
  have hl2 : ((loop2 S 0 (List.replicate n {}) false).1.length : Int) = n := by rw [l1]; exact hlen
  by_cases hc : Cov S j
  · obtain ⟨p, hp, hp1, hp2⟩ := hc
    obtain ⟨q, hq, hq1, hq2⟩ := loop3_grow n S 0 _ (loop2 S 0 (List.replicate n {}) false).2 hP hl2 p hp
    exact ⟨q, hq, by omega, by omega⟩
  · by_cases hl : ∃ y, Cov S y ∧ y < j
    · obtain ⟨y0, hy0, hy0j⟩ := hl
      obtain ⟨y, hy, hyj, hgap⟩ := nearest_left S (j - y0).toNat j ⟨y0, hy0, hy0j, by omega⟩
      have hgap' : ∀ z, y < z → z ≤ j → ¬ Cov S z := by
        intro z hz1 hz2
        by_cases e : z = j
        · rw [e]; exact hc
        · exact hgap z hz1 (by omega)
      have hend : ∃ p ∈ S, p.2 = y := by
        obtain ⟨p, hp, hp1, hp2⟩ := hy
        refine ⟨p, hp, ?_⟩
        apply Classical.byContradiction
        intro hne2
        exact hgap' (y + 1) (by omega) (by omega) ⟨p, hp, by omega, by omega⟩
      exact loop3_left n S hP j y hy hyj hn hgap' S 0 _ _ (by omega) (fun p hp => hp) hl2 (fun z hz => (l3 z hz).1)
        (fun z hz1 hz2 => by rw [(l4 z (hgap' z hz1 hz2)).1, aft_replicate]; omega) hend
    · -- nothing is covered to the left of `j`: the stream is not empty, so something is covered to the right
      obtain ⟨p0, hp0⟩ := List.exists_mem_of_ne_nil S hne
      have hpp := hP p0 hp0
      have hc0 : Cov S p0.1 := ⟨p0, hp0, Int.le_refl _, hpp.2.1⟩
      have hgt : j < p0.1 := by
        apply Classical.byContradiction
        intro hle
        by_cases e : p0.1 = j
        · rw [e] at hc0; exact hc hc0
        · exact hl ⟨p0.1, hc0, by omega⟩
      obtain ⟨y, hy, hjy, hgap⟩ := nearest_right S (p0.1 - j).toNat j ⟨p0.1, hc0, hgt, by omega⟩
      have hgap' : ∀ z, j ≤ z → z < y → ¬ Cov S z := by
        intro z hz1 hz2
        by_cases e : z = j
        · rw [e]; exact hc
        · exact hgap z (by omega) hz2
      have hstart : ∃ p ∈ S, p.1 = y := by
        obtain ⟨p, hp, hp1, hp2⟩ := hy
        refine ⟨p, hp, ?_⟩
        apply Classical.byContradiction
        intro hne2
        exact hgap' (y - 1) (by omega) (by omega) ⟨p, hp, by omega, by omega⟩
      exact loop3_right n S hP j y hy hjy h0 hgap' S 0 _ _ (by omega) (fun p hp => hp) hl2 (fun z hz => (l3 z hz).2)
        (fun z hz1 hz2 => by rw [(l4 z (hgap' z hz1 hz2)).2, bef_replicate]; omega) hstart

/-! ## no char-info is left without a slot -/

theorem loop3_cons_cs (n : Int) (b a : Int) (rest : List (Int × Int)) (i : Int) (cs : List CI) (f : Bool) :
    (loop3 n ((b, a) :: rest) i cs f).2.1 =
      (loop3 n rest (i + 1) (bwd i (cs.length + 1) (b - 1) (fwd n i (cs.length + 1) (a + 1) cs f).2.1 (fwd n i (cs.length + 1) (a + 1) cs f).2.2).2.1
        (bwd i (cs.length + 1) (b - 1) (fwd n i (cs.length + 1) (a + 1) cs f).2.1 (fwd n i (cs.length + 1) (a + 1) cs f).2.2).2.2).2.1 := by
  conv => lhs; unfold loop3

/-- the third loop never takes a slot away from a character -/
theorem loop3_mono (n : Int) : ∀ (S : List (Int × Int)) (i : Int) (cs : List CI) (f : Bool), 0 ≤ i → Proper n S → (cs.length : Int) = n →
    ((loop3 n S i cs f).2.1.length : Int) = n ∧
    ∀ x, (0 ≤ aft cs x → 0 ≤ aft (loop3 n S i cs f).2.1 x) ∧ (0 ≤ bef cs x → 0 ≤ bef (loop3 n S i cs f).2.1 x) := by
  intro S
  induction S with
  | nil => intro i cs f _ _ hl; unfold loop3; exact ⟨hl, fun x => ⟨fun h => h, fun h => h⟩⟩
  | cons p0 rest ih =>
    intro i cs f hi hP hl
    obtain ⟨b, a⟩ := p0
    have hba := hP (b, a) List.mem_cons_self
    simp only [] at hba
    rw [loop3_cons_cs]
    obtain ⟨f1, f2, f3, f4, f5, f6⟩ := fwd_spec n i (cs.length + 1) (a + 1) cs f (by omega) hl (by omega)
    obtain ⟨g1, g2, g3, g4, g5, g6⟩ := bwd_spec i (cs.length + 1) (b - 1) (fwd n i (cs.length + 1) (a + 1) cs f).2.1 (fwd n i (cs.length + 1) (a + 1) cs f).2.2
      (by rw [f1]; omega) (by omega)
    obtain ⟨h1, h2⟩ := ih (i + 1) _ _ (by omega) (fun q hq => hP q (List.mem_cons_of_mem _ hq)) (by rw [g1, f1]; exact hl)
    refine ⟨h1, fun x => ⟨fun hx => (h2 x).1 ?_, fun hx => (h2 x).2 ?_⟩⟩
    · rw [g6 x, f5 x]
      by_cases hin : a + 1 ≤ x ∧ x < (fwd n i (cs.length + 1) (a + 1) cs f).1
      · rw [if_pos hin]; exact hi
      · rw [if_neg hin]; exact hx
    · rw [g5 x]
      by_cases hin : (bwd i (cs.length + 1) (b - 1) (fwd n i (cs.length + 1) (a + 1) cs f).2.1 (fwd n i (cs.length + 1) (a + 1) cs f).2.2).1 < x ∧ x ≤ b - 1
      · rw [if_pos hin]; exact hi
      · rw [if_neg hin, f6 x]; exact hx

theorem loop3_left_cs (n : Int) (All : List (Int × Int)) (hPall : Proper n All) (x y : Int) (hy : Cov All y) (hyx : y < x) (hxn : x < n)
    (hgap : ∀ z, y < z → z ≤ x → ¬ Cov All z) :
    ∀ (rest : List (Int × Int)) (i : Int) (cs : List CI) (f : Bool), 0 ≤ i → (∀ p ∈ rest, p ∈ All) → (cs.length : Int) = n →
      (∀ z, Cov All z → 0 ≤ aft cs z) → (∀ z, y < z → z ≤ x → aft cs z < 0) → (∃ p ∈ rest, p.2 = y) →
      0 ≤ aft (loop3 n rest i cs f).2.1 x := by
  intro rest
  induction rest with
  | nil => intro i cs f _ _ _ _ _ he; obtain ⟨p, hp, _⟩ := he; cases hp
  | cons p0 tail ih =>
    intro i cs f hi hsub hl hcov hneg he
    obtain ⟨b, a⟩ := p0
    have hmem := hsub (b, a) List.mem_cons_self
    have hba := hPall (b, a) hmem
    simp only [] at hba
    rw [loop3_cons_cs]
    obtain ⟨f1, f2, f3, f4, f5, f6⟩ := fwd_spec n i (cs.length + 1) (a + 1) cs f (by omega) hl (by omega)
    obtain ⟨g1, g2, g3, g4, g5, g6⟩ := bwd_spec i (cs.length + 1) (b - 1) (fwd n i (cs.length + 1) (a + 1) cs f).2.1 (fwd n i (cs.length + 1) (a + 1) cs f).2.2
      (by rw [f1]; omega) (by omega)
    have hPt : Proper n tail := fun q hq => hPall q (hsub q (List.mem_cons_of_mem _ hq))
    by_cases hay : a = y
    · have hreach : x < (fwd n i (cs.length + 1) (a + 1) cs f).1 := by
        apply Classical.byContradiction
        intro hc
        have hlt : (fwd n i (cs.length + 1) (a + 1) cs f).1 < n := by omega
        have h1 := f4 hlt
        have h2 := hneg (fwd n i (cs.length + 1) (a + 1) cs f).1 (by omega) (by omega)
        omega
      refine ((loop3_mono n tail (i + 1) _ _ (by omega) hPt (by rw [g1, f1]; exact hl)).2 x).1 ?_
      rw [g6 x, f5 x, if_pos ⟨by omega, hreach⟩]
      exact hi
    · have hacov : Cov All a := ⟨(b, a), hmem, hba.2.1, Int.le_refl _⟩
      exact ih (i + 1) _ _ (by omega) (fun p hp => hsub p (List.mem_cons_of_mem _ hp)) (by rw [g1, f1]; exact hl)
        (fun z hz => by
          rw [g6 z, f5 z]
          by_cases hin : a + 1 ≤ z ∧ z < (fwd n i (cs.length + 1) (a + 1) cs f).1
          · rw [if_pos hin]; exact hi
          · rw [if_neg hin]; exact hcov z hz)
        (fun z hz1 hz2 => by
          rw [g6 z, f5 z]
          rw [if_neg]
          · exact hneg z hz1 hz2
          · intro hin
            have hale : a ≤ y := by
              apply Classical.byContradiction
              intro hgt
              exact hgap a (by omega) (by omega) hacov
            have hy2 := f3 y (by omega) (by omega)
            have := hcov y hy
            omega)
        (by
          obtain ⟨p, hp, hpy⟩ := he
          rcases List.mem_cons.mp hp with hp | hp
          · cases hp; exact absurd hpy hay
          · exact ⟨p, hp, hpy⟩)

theorem loop3_right_cs (n : Int) (All : List (Int × Int)) (hPall : Proper n All) (x y : Int) (hy : Cov All y) (hxy : x < y) (hx0 : 0 ≤ x)
    (hgap : ∀ z, x ≤ z → z < y → ¬ Cov All z) :
    ∀ (rest : List (Int × Int)) (i : Int) (cs : List CI) (f : Bool), 0 ≤ i → (∀ p ∈ rest, p ∈ All) → (cs.length : Int) = n →
      (∀ z, Cov All z → 0 ≤ bef cs z) → (∀ z, x ≤ z → z < y → bef cs z < 0) → (∃ p ∈ rest, p.1 = y) →
      0 ≤ bef (loop3 n rest i cs f).2.1 x := by
  intro rest
  induction rest with
  | nil => intro i cs f _ _ _ _ _ he; obtain ⟨p, hp, _⟩ := he; cases hp
  | cons p0 tail ih =>
    intro i cs f hi hsub hl hcov hneg he
    obtain ⟨b, a⟩ := p0
    have hmem := hsub (b, a) List.mem_cons_self
    have hba := hPall (b, a) hmem
    simp only [] at hba
    rw [loop3_cons_cs]
    obtain ⟨f1, f2, f3, f4, f5, f6⟩ := fwd_spec n i (cs.length + 1) (a + 1) cs f (by omega) hl (by omega)
    obtain ⟨g1, g2, g3, g4, g5, g6⟩ := bwd_spec i (cs.length + 1) (b - 1) (fwd n i (cs.length + 1) (a + 1) cs f).2.1 (fwd n i (cs.length + 1) (a + 1) cs f).2.2
      (by rw [f1]; omega) (by omega)
    have hPt : Proper n tail := fun q hq => hPall q (hsub q (List.mem_cons_of_mem _ hq))
    by_cases hby : b = y
    · have hreach : (bwd i (cs.length + 1) (b - 1) (fwd n i (cs.length + 1) (a + 1) cs f).2.1 (fwd n i (cs.length + 1) (a + 1) cs f).2.2).1 < x := by
        apply Classical.byContradiction
        intro hc
        have hge : 0 ≤ (bwd i (cs.length + 1) (b - 1) (fwd n i (cs.length + 1) (a + 1) cs f).2.1 (fwd n i (cs.length + 1) (a + 1) cs f).2.2).1 := by omega
        have h1 := g4 hge
        rw [f6] at h1
        have h2 := hneg _ (by omega : x ≤ (bwd i (cs.length + 1) (b - 1) (fwd n i (cs.length + 1) (a + 1) cs f).2.1 (fwd n i (cs.length + 1) (a + 1) cs f).2.2).1) (by omega)
        omega
      refine ((loop3_mono n tail (i + 1) _ _ (by omega) hPt (by rw [g1, f1]; exact hl)).2 x).2 ?_
      rw [g5 x, if_pos ⟨hreach, by omega⟩]
      exact hi
    · have hbcov : Cov All b := ⟨(b, a), hmem, Int.le_refl _, hba.2.1⟩
      exact ih (i + 1) _ _ (by omega) (fun p hp => hsub p (List.mem_cons_of_mem _ hp)) (by rw [g1, f1]; exact hl)
        (fun z hz => by
          rw [g5 z]
          by_cases hin : (bwd i (cs.length + 1) (b - 1) (fwd n i (cs.length + 1) (a + 1) cs f).2.1 (fwd n i (cs.length + 1) (a + 1) cs f).2.2).1 < z ∧ z ≤ b - 1
          · rw [if_pos hin]; exact hi
          · rw [if_neg hin, f6 z]; exact hcov z hz)
        (fun z hz1 hz2 => by
          rw [g5 z]
          rw [if_neg]
          · rw [f6 z]; exact hneg z hz1 hz2
          · intro hin
            have hbge : y ≤ b := by
              apply Classical.byContradiction
              intro hlt
              exact hgap b (by omega) (by omega) hbcov
            have hy2 := g3 y (by omega) (by omega)
            rw [f6] at hy2
            have := hcov y hy
            omega)
        (by
          obtain ⟨p, hp, hpy⟩ := he
          rcases List.mem_cons.mp hp with hp | hp
          · cases hp; exact absurd hpy hby
          · exact ⟨p, hp, hpy⟩)

theorem closeEnds_nonneg (c : CI) (h : 0 ≤ c.after ∨ 0 ≤ c.before) : 0 ≤ (closeEnds c).before ∧ 0 ≤ (closeEnds c).after := by
  unfold closeEnds
  by_cases h1 : c.before < 0
  · simp only [h1, if_true]
    by_cases h2 : c.after < 0
    · omega
    · simp only [h2, if_false]; omega
  · simp only [h1, if_false]
    by_cases h2 : c.after < 0
    · simp only [h2, if_true]; omega
    · simp only [h2, if_false]; omega

/-- **no char-info is left without a slot**: for a non-empty stream of proper ranges every char-info ends up with `before ≥ 0` and
`after ≥ 0` -/
theorem associateChars_cinfo_set (n : Nat) (S : List (Int × Int)) (hP : Proper n S) (hne : S ≠ []) (j : Int) (h0 : 0 ≤ j) (hn : j < n) :
    0 ≤ aft (loop3 n S 0 (loop2 S 0 (List.replicate n {}) false).1 (loop2 S 0 (List.replicate n {}) false).2).2.1 j ∨
    0 ≤ bef (loop3 n S 0 (loop2 S 0 (List.replicate n {}) false).1 (loop2 S 0 (List.replicate n {}) false).2).2.1 j := by
  have hlen : ((List.replicate n ({} : CI)).length : Int) = n := by simp
  obtain ⟨l1, l2, l3, l4, _, _⟩ := loop2_spec n S 0 (List.replicate n {}) false (by omega) hP hlen (fun x => by rw [bef_replicate]; omega)
  have hl2 : ((loop2 S 0 (List.replicate n {}) false).1.length : Int) = n := by rw [l1]; exact hlen
  by_cases hc : Cov S j
  · left
    exact ((loop3_mono n S 0 _ _ (by omega) hP hl2).2 j).1 (l3 j hc).1
  · by_cases hl : ∃ y, Cov S y ∧ y < j
    · left
      obtain ⟨y0, hy0, hy0j⟩ := hl
      obtain ⟨y, hy, hyj, hgap⟩ := nearest_left S (j - y0).toNat j ⟨y0, hy0, hy0j, by omega⟩
      have hgap' : ∀ z, y < z → z ≤ j → ¬ Cov S z := by
        intro z hz1 hz2
        by_cases e : z = j
        · rw [e]; exact hc
        · exact hgap z hz1 (by omega)
      have hend : ∃ p ∈ S, p.2 = y := by
        obtain ⟨p, hp, hp1, hp2⟩ := hy
        refine ⟨p, hp, ?_⟩
        apply Classical.byContradiction
        intro hne2
        exact hgap' (y + 1) (by omega) (by omega) ⟨p, hp, by omega, by omega⟩
      exact loop3_left_cs n S hP j y hy hyj hn hgap' S 0 _ _ (by omega) (fun p hp => hp) hl2 (fun z hz => (l3 z hz).1)
        (fun z hz1 hz2 => by rw [(l4 z (hgap' z hz1 hz2)).1, aft_replicate]; omega) hend
    · right
      obtain ⟨p0, hp0⟩ := List.exists_mem_of_ne_nil S hne
      have hpp := hP p0 hp0
      have hc0 : Cov S p0.1 := ⟨p0, hp0, Int.le_refl _, hpp.2.1⟩
      have hgt : j < p0.1 := by
        apply Classical.byContradiction
        intro hle
        by_cases e : p0.1 = j
        · rw [e] at hc0; exact hc hc0
        · exact hl ⟨p0.1, hc0, by omega⟩
      obtain ⟨y, hy, hjy, hgap⟩ := nearest_right S (p0.1 - j).toNat j ⟨p0.1, hc0, hgt, by omega⟩
      have hgap' : ∀ z, j ≤ z → z < y → ¬ Cov S z := by
        intro z hz1 hz2
        by_cases e : z = j
        · rw [e]; exact hc
        · exact hgap z (by omega) hz2
      have hstart : ∃ p ∈ S, p.1 = y := by
        obtain ⟨p, hp, hp1, hp2⟩ := hy
        refine ⟨p, hp, ?_⟩
        apply Classical.byContradiction
        intro hne2
        exact hgap' (y - 1) (by omega) (by omega) ⟨p, hp, by omega, by omega⟩
      exact loop3_right_cs n S hP j y hy hjy h0 hgap' S 0 _ _ (by omega) (fun p hp => hp) hl2 (fun z hz => (l3 z hz).2)
        (fun z hz1 hz2 => by rw [(l4 z (hgap' z hz1 hz2)).2, bef_replicate]; omega) hstart

/-- … and after the closing loop both ends are set: every char-info of the result has `before ≥ 0` and `after ≥ 0` -/
theorem associateChars_cinfo_nonneg (n : Nat) (S : List (Int × Int)) (hP : Proper n S) (hne : S ≠ []) :
    ∀ c ∈ (associateChars n S).2.1, 0 ≤ c.before ∧ 0 ≤ c.after := by
  intro c hc
  unfold associateChars at hc
  simp only [] at hc
  obtain ⟨c0, hc0, rfl⟩ := List.mem_map.mp hc
  obtain ⟨k, hk, hkc⟩ := List.getElem_of_mem hc0
  have hlen : ((List.replicate n ({} : CI)).length : Int) = n := by simp
  obtain ⟨l1, _, _, _, _, _⟩ := loop2_spec n S 0 (List.replicate n {}) false (by omega) hP hlen (fun x => by rw [bef_replicate]; omega)
  have hl2 : ((loop2 S 0 (List.replicate n {}) false).1.length : Int) = n := by rw [l1]; exact hlen
  have hl3 := (loop3_mono n S 0 _ (loop2 S 0 (List.replicate n {}) false).2 (by omega) hP hl2).1
  have hkn : (k : Int) < n := by omega
  have := associateChars_cinfo_set n S hP hne (k : Int) (by omega) hkn
  have hget : getC (loop3 n S 0 (loop2 S 0 (List.replicate n {}) false).1 (loop2 S 0 (List.replicate n {}) false).2).2.1 (k : Int) = some c0 := by
    unfold getC
    rw [if_neg (by omega)]
    simp only [Int.toNat_natCast]
    rw [List.getElem?_eq_getElem hk, hkc]
  rw [aft_of_getC hget, bef_of_getC hget] at this
  exact closeEnds_nonneg c0 this

end GrVerif.Assoc

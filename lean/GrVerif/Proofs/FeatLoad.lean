import GrVerif.Model.Feat
set_option linter.unusedVariables false
set_option linter.unusedSimpArgs false
/-!
# `FeatureMap::readFeats` and `SillMap::readSill` never read outside their tables   (C01, C18)
-/
namespace GrVerif.Feat
open GrVerif

theorem be16_ok (b : Buf) (i : Nat) (h : i + 2 ≤ b.size) : ∃ v, be16 b i = .ok v := by
  unfold be16
  simp only [bind, Except.bind, pure, Except.pure, rd_ok (show i < b.size by omega), rd_ok (show i + 1 < b.size by omega)]
  exact ⟨_, rfl⟩

theorem be32_ok (b : Buf) (i : Nat) (h : i + 4 ≤ b.size) : ∃ v, be32 b i = .ok v := by
  unfold be32
  obtain ⟨a, ea⟩ := be16_ok b i (by omega)
  obtain ⟨c, ec⟩ := be16_ok b (i + 2) (by omega)
  simp only [bind, Except.bind, pure, Except.pure, ea, ec]
  exact ⟨_, rfl⟩

theorem readSettings_ok (t : Buf) : ∀ (n p : Nat), p + n * 4 ≤ t.size → ∃ r, readSettings t n p = .ok r := by
  intro n
  induction n with
  | zero => intro p _; exact ⟨_, rfl⟩
  | succ n ih =>
    intro p h
    unfold readSettings
    obtain ⟨v, ev⟩ := be16_ok t p (by omega)
    obtain ⟨l, el⟩ := be16_ok t (p + 2) (by omega)
    obtain ⟨r, er⟩ := ih (p + 4) (by omega)
    simp only [bind, Except.bind, pure, Except.pure, ev, el, er]
    exact ⟨_, rfl⟩

/-- **the feature records of `Feat`**: with `n` records of at most 16 bytes inside the table, every field and – after the loader's own
test of `settings_offset + num_settings·4` against the table size – every setting is read inside the table -/
theorem readRecs_ok (t : Buf) (version : Nat) : ∀ (n p : Nat), p + n * 16 ≤ t.size → ∃ r, readRecs t version n p = .ok r := by
  intro n
  induction n with
  | zero => intro p _; exact ⟨_, rfl⟩
  | succ n ih =>
    intro p h
    unfold readRecs
    by_cases hv : version < 0x00020000
    · have hv2 : ¬ version ≥ 0x00020000 := by omega
      obtain ⟨x, ex⟩ := be16_ok t p (by omega)
      obtain ⟨ns, ens⟩ := be16_ok t (p + 2) (by omega)
      obtain ⟨so, eso⟩ := be32_ok t (p + 2 + 2) (by omega)
      obtain ⟨fl, efl⟩ := be16_ok t (p + 2 + 2 + 4) (by omega)
      obtain ⟨ui, eui⟩ := be16_ok t (p + 2 + 2 + 6) (by omega)
      simp only [bind, Except.bind, pure, Except.pure, hv, hv2, if_true, if_false, ex, ens, eso, efl, eui]
      by_cases hb : so > t.size ∨ so + ns * 4 > t.size
      · rw [if_pos hb]; exact ⟨_, rfl⟩
      rw [if_neg hb]
      obtain ⟨r, er⟩ := ih (p + 2 + 2 + 8) (by omega)
      by_cases h0 : ns ≠ 0
      · obtain ⟨ss, ess⟩ := readSettings_ok t ns so (by omega)
        simp only [h0, if_true, ess, er, ne_eq, not_false_eq_true]
        cases r <;> exact ⟨_, rfl⟩
      · simp only [h0, if_false, er]
        cases r <;> exact ⟨_, rfl⟩
    · have hv2 : version ≥ 0x00020000 := by omega
      obtain ⟨x, ex⟩ := be32_ok t p (by omega)
      obtain ⟨ns, ens⟩ := be16_ok t (p + 4) (by omega)
      obtain ⟨so, eso⟩ := be32_ok t (p + 4 + 4) (by omega)
      obtain ⟨fl, efl⟩ := be16_ok t (p + 4 + 4 + 4) (by omega)
      obtain ⟨ui, eui⟩ := be16_ok t (p + 4 + 4 + 6) (by omega)
      simp only [bind, Except.bind, pure, Except.pure, hv, hv2, if_true, if_false, ex, ens, eso, efl, eui]
      by_cases hb : so > t.size ∨ so + ns * 4 > t.size
      · rw [if_pos hb]; exact ⟨_, rfl⟩
      rw [if_neg hb]
      obtain ⟨r, er⟩ := ih (p + 4 + 4 + 8) (by omega)
      by_cases h0 : ns ≠ 0
      · obtain ⟨ss, ess⟩ := readSettings_ok t ns so (by omega)
        simp only [h0, if_true, ess, er, ne_eq, not_false_eq_true]
        cases r <;> exact ⟨_, rfl⟩
      · simp only [h0, if_false, er]
        cases r <;> exact ⟨_, rfl⟩

/-- **`FeatureMap::readFeats` is total and in bounds for every byte string given as the Feat table** -/
theorem readFeats_total (t : Buf) : ∃ r, readFeats t = .ok r := by
  unfold readFeats
  by_cases h4 : t.size < 4
  · simp only [h4, if_true, pure, Except.pure]; exact ⟨_, rfl⟩
  by_cases h12 : t.size < 12
  · simp only [h4, h12, if_true, if_false, pure, Except.pure]; exact ⟨_, rfl⟩
  obtain ⟨v, ev⟩ := be32_ok t 0 (by omega)
  obtain ⟨nf, enf⟩ := be16_ok t 4 (by omega)
  simp only [h4, h12, if_false, bind, Except.bind, pure, Except.pure, ev, enf]
  by_cases h0 : nf = 0
  · rw [if_pos h0]; exact ⟨_, rfl⟩
  rw [if_neg h0]
  by_cases hb : v < 0x00010000 ∨ 12 + nf * 16 > t.size
  · rw [if_pos hb]; exact ⟨_, rfl⟩
  rw [if_neg hb]
  obtain ⟨r, er⟩ := readRecs_ok t v nf 12 (by omega)
  rw [er]
  cases r with
  | none => exact ⟨_, rfl⟩
  | some recs =>
    simp only []
    cases alloc 0 recs with
    | none => exact ⟨_, rfl⟩
    | some rb => exact ⟨_, rfl⟩

theorem readLangSettings_ok (t : Buf) (fm : FeatureMap) : ∀ (n p : Nat) (fv : FVal), p + n * 8 ≤ t.size → ∃ r, readLangSettings t fm n p fv = .ok r := by
  intro n
  induction n with
  | zero => intro p fv _; exact ⟨_, rfl⟩
  | succ n ih =>
    intro p fv h
    unfold readLangSettings
    obtain ⟨nm, enm⟩ := be32_ok t p (by omega)
    obtain ⟨vl, evl⟩ := be16_ok t (p + 4) (by omega)
    simp only [bind, Except.bind, pure, Except.pure, enm, evl]
    exact ih (p + 8) _ (by omega)

theorem readSillLoop_ok (t : Buf) (fm : FeatureMap) : ∀ (n p : Nat), p + n * 8 ≤ t.size → ∃ r, readSillLoop t fm n p = .ok r := by
  intro n
  induction n with
  | zero => intro p _; exact ⟨_, rfl⟩
  | succ n ih =>
    intro p h
    unfold readSillLoop
    obtain ⟨li, eli⟩ := be32_ok t p (by omega)
    obtain ⟨ns, ens⟩ := be16_ok t (p + 4) (by omega)
    obtain ⟨off, eoff⟩ := be16_ok t (p + 6) (by omega)
    simp only [bind, Except.bind, pure, Except.pure, eli, ens, eoff]
    by_cases hb : off + 8 * ns > t.size ∧ ns > 0
    · rw [if_pos hb]; exact ⟨_, rfl⟩
    rw [if_neg hb]
    obtain ⟨fv, efv⟩ : ∃ r, readLangSettings t fm ns off fm.defaults = .ok r := by
      by_cases h0 : ns = 0
      · subst h0; exact ⟨_, rfl⟩
      · exact readLangSettings_ok t fm ns off _ (by omega)
    rw [efv]
    simp only []
    obtain ⟨r, er⟩ := ih (p + 8) (by omega)
    rw [er]
    cases r <;> exact ⟨_, rfl⟩

/-- **`SillMap::readSill` is total and in bounds for every byte string given as the Sill table** (and every feature map) -/
theorem readSill_total (t : Buf) (fm : FeatureMap) : ∃ r, readSill t fm = .ok r := by
  unfold readSill
  by_cases h4 : t.size < 4
  · simp only [h4, if_true, pure, Except.pure]; exact ⟨_, rfl⟩
  by_cases h12 : t.size < 12
  · simp only [h4, h12, if_true, if_false, pure, Except.pure]; exact ⟨_, rfl⟩
  obtain ⟨v, ev⟩ := be32_ok t 0 (by omega)
  obtain ⟨nl, enl⟩ := be16_ok t 4 (by omega)
  simp only [h4, h12, if_false, bind, Except.bind, pure, Except.pure, ev, enl]
  by_cases hv : v ≠ 0x00010000
  · rw [if_pos hv]; exact ⟨_, rfl⟩
  rw [if_neg hv]
  by_cases he : fm.feats.isEmpty = true
  · simp only [he, if_true]; exact ⟨_, rfl⟩
  simp only [he, Bool.false_eq_true, if_false]
  by_cases hs : t.size < nl * 8 + 12
  · rw [if_pos hs]; exact ⟨_, rfl⟩
  rw [if_neg hs]
  obtain ⟨r, er⟩ := readSillLoop_ok t fm nl 12 (by omega)
  rw [er]
  cases r <;> exact ⟨_, rfl⟩

end GrVerif.Feat

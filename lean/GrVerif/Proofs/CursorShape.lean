import GrVerif.Proofs.CursorPass
import GrVerif.Proofs.ShapeStream
/-!
# The null-cursor theorem for the whole pipeline (`shape`)

Between passes the stream invariant is carried together with the high-water mark of the previous pass (`WFh`): the pass
constraint runs before the rule loop resets the mark, and a stale mark must still be a slot of the stream (it is: reversal
and mirroring keep the set of slots).
-/
set_option linter.unusedVariables false
set_option linter.unusedSimpArgs false
namespace GrVerif.Pass
open GrVerif.Vm GrVerif.Seg GrVerif.Action GrVerif.Gen.Vm

/-- a well-formed stream that contains the slot `h` (if any) -/
def WFh (h : Option Nat) (s : Seg) : Prop := ∃ l, Linked s l ∧ Clean s l ∧ Alloc s l ∧ HwOK h l

theorem WFh.wf {h : Option Nat} {s : Seg} (w : WFh h s) : WF s := by
  obtain ⟨l, a, b, c, _⟩ := w; exact ⟨l, a, b, c⟩

theorem WF.wfh_none {s : Seg} (w : WF s) : WFh none s := by
  obtain ⟨l, a, b, c⟩ := w; exact ⟨l, a, b, c, fun x hx => by cases hx⟩

theorem wfh_reverse {h : Option Nat} {s : Seg} (w : WFh h s) (mark : Nat → Bool) : WFh h (s.reverseSlots mark) := by
  obtain ⟨l, hl, hc, ha, hh⟩ := w
  obtain ⟨l', hp, h1, h2, h3⟩ := reverseSlots_wf hl hc ha mark
  exact ⟨l', h1, h2, h3, fun x hx => (hp.mem_iff).mpr (hh x hx)⟩

theorem wfh_setGlyph {h : Option Nat} {s : Seg} (w : WFh h s) (gadv : Array Int) (i g : Nat) : WFh h (s.upd i fun sl => sl.setGlyph gadv g) := by
  obtain ⟨l, hl, hc, ha, hh⟩ := w
  have ss := StreamSame.upd s i (fun sl => sl.setGlyph gadv g) (fun _ => ⟨rfl, rfl, rfl, rfl⟩)
  exact ⟨l, hl.same ss, hc.same ss, ha.same ss, hh⟩

theorem bidiStep_highwater (c : Ctx) (aMirror : Nat) : (bidiStep c aMirror).highwater = c.highwater := by
  unfold bidiStep turnStep
  split <;> split <;> rfl

theorem bidiStep_wfh {c : Ctx} (w : WFh c.highwater c.seg) (aMirror : Nat) : WFh (bidiStep c aMirror).highwater (bidiStep c aMirror).seg := by
  rw [bidiStep_highwater]
  exact bidiStep_ind (WFh c.highwater) aMirror (fun s mark hs => wfh_reverse hs mark) (fun gadv s i g hs => wfh_setGlyph hs gadv i g) c w

theorem runPass_wfh (p : PassT) (c : Ctx) (fuel : Nat) (h : WFh c.highwater c.seg) {c' : Ctx} (e : runPass p c fuel = .ok (some c')) :
    WFh c'.highwater c'.seg := by
  obtain ⟨l, hl, hc, hal, hh⟩ := h
  unfold runPass at e
  split at e
  · cases e; exact ⟨l, hl, hc, hal, hh⟩
  · rename_i s0 hs0
    split at e
    · cases e; exact ⟨l, hl, hc, hal, hh⟩
    · simp only [] at e
      split at e
      · cases e
      · cases e
      · rename_i c2 it hr
        cases e
        have hs0l : s0 ∈ l := head?_mem (by rw [← hl.first]; exact hs0)
        have j0 : JO (c.restartAt s0) l (some s0) :=
          JO.mk' hl hc (isok_of_mem hs0l) (fun x hx => next_mem hl hs0l x hx) hal
        obtain ⟨l', j'⟩ := ruleLoop_spec p _ _ s0 _ 0 j0 hr
        exact ⟨l', by rw [noteLoop_seg]; exact JO.linked j', by rw [noteLoop_seg]; exact JO.clean j', by rw [noteLoop_seg]; exact JO.alloc j',
          by rw [noteLoop_highwater]; exact JO.hw j'⟩

theorem runPassDir_wfh (p : PassT) (c : Ctx) (fuel : Nat) (ar : Bool) (h : WFh c.highwater c.seg) {c' : Ctx}
    (e : runPassDir p c fuel ar = .ok (some c')) : WFh c'.highwater c'.seg := by
  unfold runPassDir at e
  split at e
  · cases e; exact h
  · simp only [] at e
    split at e
    · cases e
    · split at e
      · cases e
      · split at e
        · cases e; exact h
        · refine runPass_wfh p _ fuel ?_ e
          split
          · exact wfh_reverse h _
          · exact h

theorem testPassConstraint_safe (p : PassT) (hp : passOK p = true) (c : Ctx) (s0 : Nat) {l : List Nat} (hl : Linked c.seg l)
    (hc : Clean c.seg l) (hal : Alloc c.seg l) (hh : HwOK c.highwater l) (hs0 : s0 ∈ l) {w : String}
    (e : testPassConstraint p c s0 = .error w) : ¬ engineFault w := by
  unfold testPassConstraint at e
  split at e
  · cases e
  · rename_i hne
    split at e
    · cases e; unfold engineFault nullFault mapFault; decide
    · rename_i k hk
      simp only [] at e
      split at e
      · rename_i w' hw
        cases e
        unfold passOK at hp
        simp only [Bool.and_eq_true, Bool.or_eq_true] at hp
        rcases hp.2 with h1 | h1
        · exact absurd h1 hne
        · obtain ⟨cur', hrun, _⟩ := codeOK_run h1 hk
          have hjo : JO (c.resetMap (((Array.replicate (MAX_SLOTS + 2) none).setIfInBounds 0 (c.seg.get s0).prev).setIfInBounds 1 (some s0)) 1 0) l none :=
            JO.mk' (show Linked c.seg l from hl) (show Clean c.seg l from hc) (.inl rfl) (show HwOK c.highwater l from hh) (show Alloc c.seg l from hal)
          refine runConstraint_safe k _ 1 hjo (by simp [Ctx.resetMap, MAX_SLOTS]) (by simp [Ctx.resetMap]) (mkCode_data hk) (i := s0) ?_ hs0 hrun hw
          simp [Ctx.resetMap, MAX_SLOTS]
      · cases e

/-- **a pass with its constraint and direction step**: no write through a null cursor -/
theorem runPassDir_safe (p : PassT) (hp : passOK p = true) (c : Ctx) (fuel : Nat) (ar : Bool) (h : WFh c.highwater c.seg) {w : String}
    (e : runPassDir p c fuel ar = .error w) : ¬ engineFault w := by
  unfold runPassDir at e
  split at e
  · cases e
  · rename_i s0 hs0
    simp only [] at e
    split at e
    · rename_i w' hw
      cases e
      obtain ⟨l, hl, hc, hal, hh⟩ := h
      exact testPassConstraint_safe p hp c s0 hl hc hal hh (head?_mem (by rw [← hl.first]; exact hs0)) hw
    · split at e
      · cases e
      · split at e
        · cases e
        · refine runPass_safe p hp _ fuel ?_ e
          split
          · exact (wfh_reverse h _).wf
          · exact h.wf

theorem runPhase_begin (passes : Array PassT) (bPass : Nat) (c : Ctx) (lo hi : Nat) (dobidi : Bool) (fuel aMirror : Nat) :
    runPhase passes bPass c lo hi dobidi fuel aMirror =
      runPhase passes bPass (c.beginRange (c.seg.numGlyphs * 64)) lo hi dobidi fuel aMirror := rfl

/-- **a call of `Silf::runGraphite`**: on a font all of whose passes passed the loader's cursor tests, no write through a null cursor -/
theorem runPhase_safe (passes : Array PassT) (hp : ∀ k, passOK (passes.getD k default) = true) (bPass : Nat) (c : Ctx) (lo hi : Nat)
    (dobidi : Bool) (fuel aMirror : Nat) (h : WF c.seg) {w : String} (e : runPhase passes bPass c lo hi dobidi fuel aMirror = .error w) :
    ¬ engineFault w := by
  rw [runPhase_begin] at e
  obtain ⟨ar, k, c1, _, _, h1, e1⟩ := runPhase_err (fun c => WFh c.highwater c.seg) passes bPass lo hi dobidi fuel aMirror
    (fun ar k _ _ c1 c2 h1 e1 => runPassDir_wfh _ c1 fuel ar h1 e1) (fun c l h => (WFh.wf h).wfh_none) (fun c h => bidiStep_wfh h aMirror)
    (c.beginRange (c.seg.numGlyphs * 64)) (show WFh none c.seg from h.wfh_none) e
  exact runPassDir_safe _ (hp k) c1 fuel ar h1 e1

/-- the loader's cursor tests for a whole font -/
def fontOK (font : Font) : Bool := font.passes.all passOK

theorem fontOK_pass {font : Font} (h : fontOK font = true) (k : Nat) : passOK (font.passes.getD k default) = true := by
  unfold fontOK at h
  by_cases hr : k < font.passes.size
  · have := (Array.all_eq_true.mp h) k hr
    simpa [Array.getD_eq_getD_getElem?, hr] using this
  · simp only [Array.getD_eq_getD_getElem?, Array.getElem?_eq_none (Nat.le_of_not_lt hr)]
    show passOK (default : PassT) = true
    decide +kernel

/-- **The pipeline, every text, every font whose code passed the loader's cursor tests**: whatever error the model reports, it is
neither a write through a null cursor (`is->setGlyph`, `is->setAttr`, `is->before/after` with `is == NULL`), nor a write outside the slot map
(`*map = …` with `map` outside `m_slot_map`), nor an operand read outside the code's data area. -/
theorem shape_noNullCursor (font : Font) (hf : fontOK font = true) (text : List Nat) (fuel : Nat) (dir : Nat) {w : String}
    (e : shape font text fuel dir = .error w) : ¬ engineFault w := by
  unfold shape at e
  split at e
  · cases e
  · split at e
    · rename_i w' hw
      cases e
      exact runPhase_safe _ (fontOK_pass hf) _ _ _ _ _ _ _ (startMirror_wf font (initSeg_wf font text dir)) hw
    · cases e
    · rename_i c1 h1
      have w1 : WF c1.seg := runPhase_spec _ _ _ _ _ _ _ (startMirror_wf font (initSeg_wf font text dir)) h1
      split at e
      · cases e; unfold engineFault nullFault mapFault; decide
      · rename_i seg' ci' hre
        have w2 : WF seg' := reassoc_wf w1 hre
        split at e
        · rename_i w' hw
          cases e
          exact runPhase_safe _ (fontOK_pass hf) _ _ _ _ _ _ _ w2 hw
        · cases e
        · cases e

end GrVerif.Pass

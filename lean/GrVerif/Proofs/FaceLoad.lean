import GrVerif.Model.FaceLoad
import GrVerif.Proofs.SilfLoad
import GrVerif.Proofs.GlyphLoad
import GrVerif.Proofs.FeatLoad
set_option linter.unusedVariables false
set_option linter.unusedSimpArgs false
namespace GrVerif.Loader

/-- **`gr_make_face*` over the five Graphite tables is total and memory-safe**: whatever bytes are handed out as `Silf`, `Gloc`, `Glat`,
`Feat` and `Sill` (the bytes being bytes, `Gloc` shorter than 2⁶⁴), whatever `maxp` says the glyph count is, loading glyphs on demand or
all at once – the glyph cache, the feature map, the language map and the whole Silf table with its class maps, passes, rule records and
bytecode are read without an access outside the table concerned, without a write outside a buffer the loader laid out, and the loader
ends (the model's recursion is structural or fuel that provably suffices) -/
theorem loadFace_total (silf gloc glat feat sill : List Nat) (ngg : Nat) (preload : Bool)
    (hb : ∀ x ∈ gloc, x < 256) (hs : gloc.length < 18446744073709551616) :
    ∃ r, loadFace silf gloc glat feat sill ngg preload = .ok r := by
  unfold loadFace
  by_cases h4 : silf.length < 4
  · simp only [h4, if_true, pure, Except.pure]; exact ⟨_, rfl⟩
  simp only [h4, if_false, bind, Except.bind, pure, Except.pure]
  obtain ⟨gc, egc, _⟩ := glyphCache_total gloc glat ngg preload [] hb hs
  rw [egc]
  simp only [Except.mapError]
  cases gc with
  | none => exact ⟨_, rfl⟩
  | some gc =>
    simp only []
    obtain ⟨fm, efm⟩ := Feat.readFeats_total (toBuf feat)
    rw [efm]
    simp only [Except.mapError]
    cases fm with
    | none => exact ⟨_, rfl⟩
    | some fm =>
      simp only []
      obtain ⟨sm, esm⟩ := Feat.readSill_total (toBuf sill) fm
      rw [esm]
      simp only [Except.mapError]
      cases sm with
      | none => exact ⟨_, rfl⟩
      | some sm =>
        simp only []
        obtain ⟨ts, ets⟩ := readSilfTable_total silf gc.numGlyphs gc.numAttrs gc.hasBoxes fm.feats.length
        rw [ets]
        simp only [Except.mapError]
        cases ts with
        | error e => exact ⟨_, rfl⟩
        | ok ts =>
          simp only []
          split <;> exact ⟨_, rfl⟩

end GrVerif.Loader

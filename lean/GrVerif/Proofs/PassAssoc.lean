import GrVerif.Proofs.ShapeStream
import GrVerif.Proofs.HeapAssoc
/-!
# Character associations through the whole pass engine (C05, slot side)

Any property of the segment that every rule action keeps is kept by the engine (`runRange_keeps`): the matcher,
`adjustSlot`, the rule loop and the pass sequencing never write the segment.  With `doAction_assoc`, `read_text` and the
range lemmas about `associateChars` below this gives: every slot of a segment returned by the modelled pipeline has
`before`, `after` and `original` in `[0, n)`.
-/
set_option linter.unusedVariables false
set_option linter.unusedSimpArgs false
namespace GrVerif.Pass
open GrVerif.Vm GrVerif.Seg GrVerif.Action GrVerif.Gen.Vm

/-! ## the engine writes the segment only through rule actions -/

theorem runFSM_seg (p : PassT) (c : Ctx) (slot : Nat) : (runFSM p c slot).2.1.seg = c.seg := by
  unfold runFSM
  simp only []
  split <;> rfl

theorem adjustBack_seg : ∀ (fuel : Nat) (c : Ctx) (d : Int) (so : Option Nat), (adjustBack fuel c d so).1.seg = c.seg := by
  intro fuel
  induction fuel with
  | zero => intro c d so; unfold adjustBack; rfl
  | succ f ih =>
    intro c d so
    cases so with
    | none => unfold adjustBack; rfl
    | some s =>
      unfold adjustBack
      split
      · split
        · rw [ih]; rfl
        · rw [ih]
      · rfl

theorem adjustFwd_seg : ∀ (fuel : Nat) (c : Ctx) (d : Int) (so : Option Nat), (adjustFwd fuel c d so).1.seg = c.seg := by
  intro fuel
  induction fuel with
  | zero => intro c d so; unfold adjustFwd; rfl
  | succ f ih =>
    intro c d so
    cases so with
    | none => unfold adjustFwd; rfl
    | some s =>
      unfold adjustFwd
      split
      · split
        · rw [ih]; rfl
        · rw [ih]
      · rfl

theorem adjustStart_seg (c : Ctx) (d : Int) : (adjustStart c d).1.seg = c.seg := by
  unfold adjustStart
  split
  · split <;> rfl
  · rfl

theorem adjustSlot_seg (c : Ctx) (d : Int) (so : Option Nat) : (adjustSlot c d so).1.seg = c.seg := by
  unfold adjustSlot
  cases so with
  | some x =>
    simp only []
    split
    · exact adjustBack_seg _ _ _ _
    · split
      · exact adjustFwd_seg _ _ _ _
      · rfl
  | none =>
    simp only []
    split
    · rw [adjustBack_seg]; exact adjustStart_seg c d
    · split
      · rw [adjustFwd_seg]; exact adjustStart_seg c d
      · exact adjustStart_seg c d

/-- a property of the segment that every rule action whose code satisfies `OK`, with the garbage collection after it, keeps -/
def ActionKeepsIf (OK : List Instr → Prop) (Q : Seg → Prop) : Prop :=
  ∀ (is : List Instr) (dl : Bool) (mr : Nat) (data : List Nat) (ctx : Ctx) (r : Int) (st : Status) (so : Option Nat) (c : Ctx),
    OK is → Q ctx.seg → doAction is dl mr data ctx = .ok (r, st, so, c) → Q c.seg

/-- the action code of every rule of the pass (as the loader decodes it, with its `temp_copy` insertions) satisfies `OK` -/
def PassOK (OK : List Instr → Prop) (p : PassT) : Prop :=
  ∀ (r : Nat) (k : Code), mkCode (p.rules.getD r default).action true = some k → OK k.instrs

theorem findNDoRule_keepsIf (OK : List Instr → Prop) (Q : Seg → Prop) (hQ : ActionKeepsIf OK Q) (p : PassT) (hp : PassOK OK p) (c : Ctx) (slot : Nat) (h : Q c.seg)
    {c' : Ctx} {s' : Option Nat} {st : Status} (e : findNDoRule p c slot = .ok (c', s', st)) : Q c'.seg := by
  have f1 := runFSM_seg p c slot
  unfold findNDoRule at e
  revert f1 e
  generalize runFSM p c slot = r
  obtain ⟨ok, c1, rules⟩ := r
  intro e f1
  simp only [] at f1 e
  have h1 : Q c1.seg := by rw [f1]; exact h
  split at e
  · cases e; exact h1
  · split at e
    · cases e
    · split at e
      · cases e; exact h1
      · cases e; exact h1
    · split at e
      · cases e; exact h1
      · split at e
        · cases e
        · rename_i k hk
          split at e
          · cases e
          · rename_i ret status slotOut c2 hact
            have h2 : Q c2.seg := hQ _ _ _ _ _ _ _ _ _ (hp _ _ hk) h1 hact
            split at e
            · cases e; exact h2
            · have a1 := adjustSlot_seg c2 ret slotOut
              revert a1 e
              generalize adjustSlot c2 ret slotOut = ar
              obtain ⟨c3, so3⟩ := ar
              intro e a1
              simp only [] at a1 e
              cases e
              rw [a1]; exact h2

theorem ruleLoop_keepsIf (OK : List Instr → Prop) (Q : Seg → Prop) (hQ : ActionKeepsIf OK Q) (p : PassT) (hp : PassOK OK p) : ∀ (fuel : Nat) (c : Ctx) (s : Nat) (lc : Int) (it : Nat),
    Q c.seg → ∀ {c' : Ctx} {n : Nat}, ruleLoop p fuel c s lc it = .ok (some c', n) → Q c'.seg := by
  intro fuel
  induction fuel with
  | zero => intro c s lc it _ c' n e; unfold ruleLoop at e; cases e
  | succ f ih =>
    intro c s lc it h c' n e
    unfold ruleLoop at e
    split at e
    · cases e
    · rename_i c1 s1 st hf
      have h1 : Q c1.seg := findNDoRule_keepsIf OK Q hQ p hp c s h hf
      split at e
      · cases e
      · split at e
        · cases e; exact h1
        · rename_i s2
          simp only [] at e
          by_cases hit : (some s2 = c1.highwater ∨ c1.highpassed = true)
          · simp only [hit, if_true, true_or] at e
            split at e
            · exact ih _ _ _ _ (show Q (c1.restartAt _).seg from h1) e
            · cases e; exact h1
          · simp only [hit, if_false, false_or] at e
            split at e
            · split at e
              · exact ih _ _ _ _ (show Q (c1.restartAt _).seg from h1) e
              · cases e; exact h1
            · exact ih _ _ _ _ h1 e

theorem runPass_keepsIf (OK : List Instr → Prop) (Q : Seg → Prop) (hQ : ActionKeepsIf OK Q) (p : PassT) (hp : PassOK OK p) (c : Ctx) (fuel : Nat) (h : Q c.seg) {c' : Ctx}
    (e : runPass p c fuel = .ok (some c')) : Q c'.seg := by
  unfold runPass at e
  split at e
  · cases e; exact h
  · split at e
    · cases e; exact h
    · simp only [] at e
      split at e
      · cases e
      · cases e
      · rename_i c2 it hr
        cases e
        rw [noteLoop_seg]
        exact ruleLoop_keepsIf OK Q hQ p hp _ _ _ _ 0 (show Q (c.restartAt _).seg from h) hr

/-- the property survives a reversal of the stream -/
def ReverseKeeps (Q : Seg → Prop) : Prop := ∀ (s : Seg) (mark : Nat → Bool), Q s → Q (s.reverseSlots mark)

theorem runPassDir_keepsIf (OK : List Instr → Prop) (Q : Seg → Prop) (hQ : ActionKeepsIf OK Q) (hR : ReverseKeeps Q) (p : PassT) (hp : PassOK OK p) (c : Ctx) (fuel : Nat) (ar : Bool) (h : Q c.seg) {c' : Ctx}
    (e : runPassDir p c fuel ar = .ok (some c')) : Q c'.seg := by
  unfold runPassDir at e
  split at e
  · cases e; exact h
  · simp only [] at e
    split at e
    · cases e
    · split at e
      · cases e
      · split at e
        · cases e; exact h
        · refine runPass_keepsIf OK Q hQ p hp _ fuel ?_ e
          split
          · exact hR _ _ h
          · exact h

theorem runRange_keepsIf (OK : List Instr → Prop) (Q : Seg → Prop) (hQ : ActionKeepsIf OK Q) (hR : ReverseKeeps Q) (passes : Array PassT) (c : Ctx) (lo hi fuel : Nat)
    (hpo : ∀ k, k < hi - lo → PassOK OK (passes.getD (lo + k) default)) (h : Q c.seg)
    {c' : Ctx} (e : runRange passes c lo hi fuel = .ok (some c')) : Q c'.seg := by
  unfold runRange at e
  exact runPasses_ind (fun x => Q x.seg) passes _ true lo hi fuel
    (fun k hk c1 c2 h1 e1 => runPassDir_keepsIf OK Q hQ hR _ (hpo k hk) c1 fuel true h1 e1) (c.beginRange (c.seg.numGlyphs * 64)) h e

/-- the property survives a glyph change of one slot (mirroring) -/
def GlyphKeeps (Q : Seg → Prop) : Prop := ∀ (gadv : Array Int) (s : Seg) (i g : Nat), Q s → Q (s.upd i fun sl => sl.setGlyph gadv g)

theorem bidiStep_keeps (Q : Seg → Prop) (hR : ReverseKeeps Q) (hG : GlyphKeeps Q) (c : Ctx) (aMirror : Nat) (h : Q c.seg) : Q (bidiStep c aMirror).seg :=
  bidiStep_ind Q aMirror hR hG c h

theorem startMirror_keeps (Q : Seg → Prop) (hG : GlyphKeeps Q) (font : Font) (c : Ctx) (h : Q c.seg) : Q (startMirror font c).seg := by
  unfold startMirror
  split
  · exact doMirror_ind Q c font.aMirror (fun s i g hs => hG _ s i g hs) h
  · exact h

theorem runPhase_keepsIf (OK : List Instr → Prop) (Q : Seg → Prop) (hQ : ActionKeepsIf OK Q) (hR : ReverseKeeps Q) (hG : GlyphKeeps Q) (passes : Array PassT) (bPass : Nat) (c : Ctx)
    (lo hi : Nat) (dobidi : Bool) (fuel : Nat)
    (hpo : ∀ k, lo ≤ k → k < hi → PassOK OK (passes.getD k default)) (h : Q c.seg) {aMirror : Nat}
    {c' : Ctx} (e : runPhase passes bPass c lo hi dobidi fuel aMirror = .ok (some c')) : Q c'.seg :=
  runPhase_ind (fun x => Q x.seg) passes bPass lo hi dobidi fuel aMirror
    (fun ar k h1k h2k c1 c2 h1 e1 => runPassDir_keepsIf OK Q hQ hR _ (hpo k h1k h2k) c1 fuel ar h1 e1)
    (fun x l hx => hx) (fun x hx => bidiStep_keeps Q hR hG x aMirror hx) c h e

/-! the unconditional versions: every rule action keeps the property -/

/-- a property of the segment that every rule action, with the garbage collection after it, keeps -/
def ActionKeeps (Q : Seg → Prop) : Prop :=
  ∀ (is : List Instr) (dl : Bool) (mr : Nat) (data : List Nat) (ctx : Ctx) (r : Int) (st : Status) (so : Option Nat) (c : Ctx),
    Q ctx.seg → doAction is dl mr data ctx = .ok (r, st, so, c) → Q c.seg

theorem ActionKeeps.toIf {Q : Seg → Prop} (h : ActionKeeps Q) : ActionKeepsIf (fun _ => True) Q :=
  fun is dl mr data ctx r st so c _ hq e => h is dl mr data ctx r st so c hq e

theorem runPass_keeps (Q : Seg → Prop) (hQ : ActionKeeps Q) (p : PassT) (c : Ctx) (fuel : Nat) (h : Q c.seg) {c' : Ctx}
    (e : runPass p c fuel = .ok (some c')) : Q c'.seg :=
  runPass_keepsIf (fun _ => True) Q hQ.toIf p (fun _ _ _ => trivial) c fuel h e

theorem runRange_keeps (Q : Seg → Prop) (hQ : ActionKeeps Q) (hR : ReverseKeeps Q) (passes : Array PassT) (c : Ctx) (lo hi fuel : Nat) (h : Q c.seg)
    {c' : Ctx} (e : runRange passes c lo hi fuel = .ok (some c')) : Q c'.seg :=
  runRange_keepsIf (fun _ => True) Q hQ.toIf hR passes c lo hi fuel (fun _ _ _ _ _ => trivial) h e

theorem runPhase_keeps (Q : Seg → Prop) (hQ : ActionKeeps Q) (hR : ReverseKeeps Q) (hG : GlyphKeeps Q) (passes : Array PassT) (bPass : Nat) (c : Ctx) (lo hi : Nat) (dobidi : Bool) (fuel : Nat)
    (h : Q c.seg) {aMirror : Nat} {c' : Ctx} (e : runPhase passes bPass c lo hi dobidi fuel aMirror = .ok (some c')) : Q c'.seg :=
  runPhase_keepsIf (fun _ => True) Q hQ.toIf hR hG passes bPass c lo hi dobidi fuel (fun _ _ _ _ _ _ => trivial) h e

theorem glyph_assoc (n : Int) : GlyphKeeps (AssocOK n) :=
  fun gadv s i g h => h.updKeep _ _ (fun _ => ⟨rfl, rfl, rfl⟩)

theorem reverse_assoc (n : Int) : ReverseKeeps (AssocOK n) := by
  intro s mark h
  have hs := reverseSlots_same s mark
  refine ⟨fun j => ?_, by rw [hs.defaultOriginal]; exact h.2.1, by rw [hs.defaultOriginal]; exact h.2.2⟩
  have := hs.slot j
  unfold LinkOnly at this
  rw [this]
  exact h.1 j

/-! ## `read_text` -/

theorem pushBack_assoc {n : Int} {s : Seg} (h : AssocOK n s) (a : Nat) : AssocOK n (s.pushBack a) := by
  unfold Seg.pushBack
  simp only []
  have h1 : AssocOK n (match s.last with
      | some l => s.upd l fun sl => sl.setNext (some a)
      | none => s) := by
    split
    · exact h.updKeep _ _ (fun _ => ⟨rfl, rfl, rfl⟩)
    · exact h
  have h2 := (h1.updKeep a (fun sl => sl.setPrev s.last) (fun _ => ⟨rfl, rfl, rfl⟩)).setLast (some a)
  split
  · exact h2.setFirst _
  · exact h2

theorem appendSlot_assoc {n : Int} {s : Seg} (h : AssocOK n s) (id gid g : Nat) (adv : Int) (hid : (id : Int) < n) :
    AssocOK n (s.appendSlot id gid g adv) := by
  unfold Seg.appendSlot
  split
  · exact h
  · rename_i a s1 e
    have h1 := newSlot_assoc h e
    apply pushBack_assoc
    apply h1.upd
    unfold Slot.initFor RangeOK
    simp only []
    omega

theorem appendAll_assoc {n : Int} (gf : Nat → Nat) (af : Nat → Int) : ∀ (xs : List (Nat × Nat)) (s : Seg), AssocOK n s →
    (∀ x ∈ xs, (x.2 : Int) < n) → AssocOK n (xs.foldl (fun s (x : Nat × Nat) => s.appendSlot x.2 (gf x.1) 64 (af x.1)) s) := by
  intro xs
  induction xs with
  | nil => intro s h _; exact h
  | cons x rest ih =>
    intro s h hx
    simp only [List.foldl_cons]
    exact ih _ (appendSlot_assoc h _ _ _ _ (hx x List.mem_cons_self)) (fun y hy => hx y (List.mem_cons_of_mem _ hy))

/-- `read_text`: slot `k` is associated with character `k` -/
theorem initSeg_assoc (font : Font) (text : List Nat) (hn : 0 < text.length) (dir : Nat := 0) : AssocOK (text.length : Int) (initSeg font text dir) := by
  unfold initSeg
  simp only []
  refine appendAll_assoc font.cmap (fun ch => font.gadv.getD (font.cmap ch) 0) text.zipIdx _ ⟨fun j => ?_, ?_, ?_⟩ ?_
  · rw [get_replicate_default (text.length + 10) j _ rfl]; exact rangeOK_default _ (by omega)
  · show (0 : Int) ≤ 0; omega
  · show (0 : Int) < text.length; omega
  · intro x hx
    have := (List.mem_zipIdx' hx).1
    omega

end GrVerif.Pass

/-! ## `associateChars`: the slot ranges it hands back -/
namespace GrVerif.Assoc

theorem fwd_bounds (n i : Int) : ∀ (fuel : Nat) (a : Int) (cs : List CI) (f : Bool),
    a ≤ (fwd n i fuel a cs f).1 ∧ ((fwd n i fuel a cs f).1 ≤ n ∨ (fwd n i fuel a cs f).1 = a) := by
  intro fuel
  induction fuel with
  | zero => intro a cs f; unfold fwd; exact ⟨Int.le_refl _, .inr rfl⟩
  | succ k ih =>
    intro a cs f
    unfold fwd
    split
    · rename_i han
      split
      · exact ⟨Int.le_refl _, .inr rfl⟩
      · split
        · generalize (cs.set a.toNat _) = cs'
          have := ih (a + 1) cs' f
          constructor
          · omega
          · left; rcases this.2 with h | h <;> omega
        · exact ⟨Int.le_refl _, .inr rfl⟩
    · exact ⟨Int.le_refl _, .inr rfl⟩

theorem bwd_bounds (i : Int) : ∀ (fuel : Nat) (a : Int) (cs : List CI) (f : Bool),
    (bwd i fuel a cs f).1 ≤ a ∧ (-1 ≤ (bwd i fuel a cs f).1 ∨ (bwd i fuel a cs f).1 = a) := by
  intro fuel
  induction fuel with
  | zero => intro a cs f; unfold bwd; exact ⟨Int.le_refl _, .inr rfl⟩
  | succ k ih =>
    intro a cs f
    unfold bwd
    split
    · rename_i han
      split
      · exact ⟨Int.le_refl _, .inr rfl⟩
      · split
        · generalize (cs.set a.toNat _) = cs'
          have := ih (a - 1) cs' f
          constructor
          · omega
          · left; rcases this.2 with h | h <;> omega
        · exact ⟨Int.le_refl _, .inr rfl⟩
    · exact ⟨Int.le_refl _, .inr rfl⟩

/-- the third loop only ever widens a slot's range, and never beyond the characters of the segment -/
theorem loop3_ranges (n : Int) : ∀ (slots : List (Int × Int)) (i : Int) (cs : List CI) (f : Bool),
    (∀ p ∈ slots, 0 ≤ p.1 ∧ p.1 < n ∧ 0 ≤ p.2 ∧ p.2 < n) →
    ∀ q ∈ (loop3 n slots i cs f).1, 0 ≤ q.1 ∧ q.1 < n ∧ 0 ≤ q.2 ∧ q.2 < n := by
  intro slots
  induction slots with
  | nil => intro i cs f _ q hq; simp [loop3] at hq
  | cons p rest ih =>
    intro i cs f hp q hq
    obtain ⟨b, a⟩ := p
    unfold loop3 at hq
    simp only [List.mem_cons] at hq
    have hba := hp (b, a) List.mem_cons_self
    simp only [] at hba
    rcases hq with hq | hq
    · have h1 := fwd_bounds n i (cs.length + 1) (a + 1) cs f
      have h2 := bwd_bounds i (cs.length + 1) (b - 1) (fwd n i (cs.length + 1) (a + 1) cs f).2.1 (fwd n i (cs.length + 1) (a + 1) cs f).2.2
      rw [hq]
      refine ⟨?_, ?_, ?_, ?_⟩
      · rcases h2.2 with h | h <;> omega
      · omega
      · omega
      · rcases h1.2 with h | h <;> omega
    · exact ih _ _ _ (fun p' hp' => hp p' (List.mem_cons_of_mem _ hp')) q hq

/-! ### the char-info side: `before`/`after` are slot indices or −1 -/

/-- every char-info's `before` and `after` is −1 or an index below `L` -/
def CIOK (L : Int) (cs : List CI) : Prop := ∀ c ∈ cs, -1 ≤ c.before ∧ c.before < L ∧ -1 ≤ c.after ∧ c.after < L

theorem CIOK.set {L : Int} {cs : List CI} (h : CIOK L cs) (k : Nat) (c : CI)
    (hc : -1 ≤ c.before ∧ c.before < L ∧ -1 ≤ c.after ∧ c.after < L) : CIOK L (cs.set k c) := by
  intro x hx
  rcases List.mem_or_eq_of_mem_set hx with h1 | h1
  · exact h x h1
  · rw [h1]; exact hc

theorem getC_mem {cs : List CI} {a : Int} {c : CI} (h : getC cs a = some c) : c ∈ cs := by
  unfold getC at h
  split at h
  · cases h
  · exact List.mem_of_getElem? h

theorem cover_ciok {L : Int} (i : Int) (hi : 0 ≤ i ∧ i < L) : ∀ (fuel : Nat) (j : Int) (cs : List CI) (f : Bool),
    CIOK L cs → CIOK L (cover i fuel j cs f).1 := by
  intro fuel
  induction fuel with
  | zero => intro j cs f h; unfold cover; exact h
  | succ k ih =>
    intro j cs f h
    unfold cover
    split
    · exact h
    · rename_i c hc
      have hm := h c (getC_mem hc)
      apply ih
      apply h.set
      by_cases h1 : (c.before = -1 ∨ i < c.before) <;> by_cases h2 : c.after < i <;> simp [h1, h2] <;> omega

theorem loop2_ciok {L : Int} : ∀ (slots : List (Int × Int)) (i : Int) (cs : List CI) (f : Bool),
    0 ≤ i → i + slots.length ≤ L → CIOK L cs → CIOK L (loop2 slots i cs f).1 := by
  intro slots
  induction slots with
  | nil => intro i cs f _ _ h; unfold loop2; exact h
  | cons p rest ih =>
    intro i cs f h0 hl h
    obtain ⟨b, a⟩ := p
    unfold loop2
    simp only [List.length_cons] at hl
    split
    · exact ih _ _ _ (by omega) (by omega) h
    · exact ih _ _ _ (by omega) (by omega) (cover_ciok i ⟨h0, by omega⟩ _ _ _ _ h)

theorem fwd_ciok {L : Int} (n i : Int) (hi : 0 ≤ i ∧ i < L) : ∀ (fuel : Nat) (a : Int) (cs : List CI) (f : Bool),
    CIOK L cs → CIOK L (fwd n i fuel a cs f).2.1 := by
  intro fuel
  induction fuel with
  | zero => intro a cs f h; unfold fwd; exact h
  | succ k ih =>
    intro a cs f h
    unfold fwd
    split
    · split
      · exact h
      · rename_i c hc
        have hm := h c (getC_mem hc)
        split
        · apply ih
          apply h.set
          simp only []
          omega
        · exact h
    · exact h

theorem bwd_ciok {L : Int} (i : Int) (hi : 0 ≤ i ∧ i < L) : ∀ (fuel : Nat) (a : Int) (cs : List CI) (f : Bool),
    CIOK L cs → CIOK L (bwd i fuel a cs f).2.1 := by
  intro fuel
  induction fuel with
  | zero => intro a cs f h; unfold bwd; exact h
  | succ k ih =>
    intro a cs f h
    unfold bwd
    split
    · split
      · exact h
      · rename_i c hc
        have hm := h c (getC_mem hc)
        split
        · apply ih
          apply h.set
          simp only []
          omega
        · exact h
    · exact h

theorem loop3_ciok {L : Int} (n : Int) : ∀ (slots : List (Int × Int)) (i : Int) (cs : List CI) (f : Bool),
    0 ≤ i → i + slots.length ≤ L → CIOK L cs → CIOK L (loop3 n slots i cs f).2.1 := by
  intro slots
  induction slots with
  | nil => intro i cs f _ _ h; unfold loop3; exact h
  | cons p rest ih =>
    intro i cs f h0 hl h
    obtain ⟨b, a⟩ := p
    unfold loop3
    simp only [List.length_cons] at hl
    simp only []
    apply ih _ _ _ (by omega) (by omega)
    exact bwd_ciok i ⟨h0, by omega⟩ _ _ _ _ (fwd_ciok n i ⟨h0, by omega⟩ _ _ _ _ h)

/-- **C05, char-info side (ranges).** After `associateChars` every char-info's `before` and `after` is a slot index of the
stream (`< number of slots`) or −1 -/
theorem associateChars_cinfo_range (n : Nat) (slots : List (Int × Int)) :
    ∀ c ∈ (associateChars n slots).2.1, -1 ≤ c.before ∧ c.before < (slots.length : Int) ∧ -1 ≤ c.after ∧ c.after < (slots.length : Int) := by
  unfold associateChars
  simp only []
  have h0 : CIOK (slots.length : Int) (List.replicate n ({} : CI)) := by
    intro c hc
    rw [List.eq_of_mem_replicate hc]
    exact ⟨by decide, by show (-1 : Int) < _; omega, by decide, by show (-1 : Int) < _; omega⟩
  have h2 := loop2_ciok slots 0 _ false (Int.le_refl 0) (by omega) h0
  have h3 := loop3_ciok n slots 0 _ (loop2 slots 0 (List.replicate n ({} : CI)) false).2 (Int.le_refl 0) (by omega) h2
  intro c hc
  obtain ⟨c0, hc0, rfl⟩ := List.mem_map.mp hc
  have := h3 c0 hc0
  unfold closeEnds
  by_cases h1 : c0.before < 0 <;> by_cases h2 : c0.after < 0 <;> simp [h1, h2] <;> omega

theorem associateChars_ranges (n : Nat) (slots : List (Int × Int))
    (h : ∀ p ∈ slots, 0 ≤ p.1 ∧ p.1 < (n : Int) ∧ 0 ≤ p.2 ∧ p.2 < (n : Int)) :
    ∀ q ∈ (associateChars n slots).1, 0 ≤ q.1 ∧ q.1 < (n : Int) ∧ 0 ≤ q.2 ∧ q.2 < (n : Int) := by
  unfold associateChars
  simp only []
  exact loop3_ranges n slots 0 _ _ h

end GrVerif.Assoc

namespace GrVerif.Pass
open GrVerif.Vm GrVerif.Seg GrVerif.Action GrVerif.Gen.Vm

theorem foldl_upd_assoc {α : Type} {n : Int} (ix : α → Nat) (f : α → Slot → Slot) : ∀ (xs : List α) (s : Seg), AssocOK n s →
    (∀ x ∈ xs, ∀ a, RangeOK n a → RangeOK n (f x a)) → AssocOK n (xs.foldl (fun s x => s.upd (ix x) (f x)) s) := by
  intro xs
  induction xs with
  | nil => intro s h _; exact h
  | cons x rest ih =>
    intro s h hf
    simp only [List.foldl_cons]
    exact ih _ (h.updWith _ _ (hf x List.mem_cons_self)) (fun y hy => hf y (List.mem_cons_of_mem _ hy))

/-- `associateChars` hands every slot a range inside the segment's characters -/
theorem reassoc_assoc {seg seg' : Seg} {n : Nat} {ci : List Assoc.CI} (h : AssocOK (n : Int) seg) (e : reassoc seg n = some (seg', ci)) :
    AssocOK (n : Int) seg' := by
  unfold reassoc at e
  simp only [] at e
  split at e
  · cases e
  · simp only [Option.some.injEq, Prod.mk.injEq] at e
    rw [← e.1]
    apply foldl_upd_assoc (fun (x : Nat × Nat) => x.1) (fun x sl => sl.setIndex x.2)
    · apply foldl_upd_assoc (fun (x : Nat × Int × Int) => x.1) (fun x sl => (sl.setBefore x.2.1).setAfter x.2.2) _ _ h
      intro x hx a ha
      have hmem : x.2 ∈ (Assoc.associateChars n ((ahead seg (2 * seg.slots.size + 8) seg.first).map fun i => ((seg.get i).before, (seg.get i).after))).1 :=
        (List.of_mem_zip (show (x.1, x.2) ∈ _ from hx)).2
      have hr := Assoc.associateChars_ranges n _ (fun p hp => by
        obtain ⟨i, _, rfl⟩ := List.mem_map.mp hp
        exact ⟨(h.bef i).1, (h.bef i).2, (h.aft i).1, (h.aft i).2⟩) x.2 hmem
      exact (ha.setBefore _ ⟨hr.1, hr.2.1⟩).setAfter _ ⟨hr.2.2.1, hr.2.2.2⟩
    · intro x _ a ha; exact ha

/-- **C05, slot side, whole pipeline.** Whatever the font's passes, rules and action programs, and whatever the (non-empty)
text of `n` characters: every slot record of a segment the modelled pipeline returns has `before`, `after` and `original`
in `[0, n)`. -/
theorem shape_assoc (font : Font) (text : List Nat) (fuel : Nat) (dir : Nat) (hn : 0 < text.length) {c : Ctx} {ci : List Assoc.CI}
    (e : shape font text fuel dir = .ok (some (c, ci))) : AssocOK (text.length : Int) c.seg := by
  have hk : ActionKeeps (AssocOK (text.length : Int)) := fun is dl mr data ctx r st so c h e => doAction_assoc (by omega) is dl mr data ctx h e
  unfold shape at e
  split at e
  · omega
  · split at e
    · cases e
    · cases e
    · rename_i c1 h1
      have w1 : AssocOK (text.length : Int) c1.seg := runPhase_keeps _ hk (reverse_assoc _) (glyph_assoc _) _ _ _ _ _ _ _ (startMirror_keeps _ (glyph_assoc _) font _ (initSeg_assoc font text hn dir)) h1
      split at e
      · cases e
      · rename_i seg' ci' hre
        have w2 := reassoc_assoc w1 hre
        split at e
        · cases e
        · cases e
        · rename_i c2 h2
          simp only [Except.ok.injEq, Option.some.injEq, Prod.mk.injEq] at e
          rw [← e.1]
          exact runPhase_keeps _ hk (reverse_assoc _) (glyph_assoc _) _ _ _ _ _ _ _ w2 h2

end GrVerif.Pass

import GrVerif.Model.Vm
import GrVerif.Spec.Opcodes
set_option linter.unusedVariables false
set_option linter.unusedSimpArgs false
/-!
# The loader's stack-depth bookkeeping is sound for the opcode specification   (C07)

`load_defined`: a program over the scalar opcodes that `Machine::Code`'s loader accepts (`Vm.load`: opcode known and implemented,
operand bytes present, `_stack_depth` never underfull at a pop, last instruction a return) is one on which the specification's
evaluation is defined: it never gets stuck for want of an operand, an operand byte or an instruction.
-/
namespace GrVerif.Vm
open GrVerif.Gen.Vm GrVerif.Spec.Vm

/-- the instruction list ends in a return -/
def EndsInReturn (is : List Nat) : Prop := ∃ init last, is = init ++ [last] ∧ isReturn last = true

/-- the parameter sizes of the scalar opcodes in the regenerated table -/
def pszRow (o : Nat) : Bool :=
  match opcodeTable[o]? with
  | some (_, psz, _, _) =>
    decide (o = 0 → psz = 0) && decide ((o = 1 ∨ o = 2 ∨ o = 54) → psz = 1) && decide ((o = 3 ∨ o = 4) → psz = 2) && decide ((o = 5 ∨ o = 65) → psz = 4) &&
    decide ((6 ≤ o ∧ o ≤ 24 ∨ o = 48 ∨ o = 49 ∨ o = 50 ∨ o = 55 ∨ o = 62 ∨ o = 63 ∨ o = 64) → psz = 0)
  | none => true

theorem pszRows_checked : (List.range 68).all pszRow = true := by decide

theorem table_psz (opc : Nat) (nm : String) (psz : Nat) (a c : Bool) (h : opcodeTable[opc]? = some (nm, psz, a, c)) (hp : psz ≠ 255)
    (d : Int) (d' : Int) (hd : depthAfter opc d = .ok d') :
    (opc = 0 ∧ psz = 0) ∨ ((opc = 1 ∨ opc = 2 ∨ opc = 54) ∧ psz = 1) ∨ ((opc = 3 ∨ opc = 4) ∧ psz = 2) ∨ (opc = 5 ∧ psz = 4) ∨ (opc = 65 ∧ psz = 4) ∨
    ((6 ≤ opc ∧ opc ≤ 24 ∨ opc = 48 ∨ opc = 49 ∨ opc = 50 ∨ opc = 55 ∨ opc = 62 ∨ opc = 63 ∨ opc = 64) ∧ psz = 0) := by
  have hlt : opc < 68 := by
    by_cases hh : opc < 68
    · exact hh
    · have : opcodeTable.length = 68 := by decide
      rw [List.getElem?_eq_none (by omega)] at h; cases h
  have hrow := List.all_eq_true.mp pszRows_checked opc (List.mem_range.mpr hlt)
  unfold pszRow at hrow
  rw [h] at hrow
  simp only [Bool.and_eq_true, decide_eq_true_eq] at hrow
  have : (opc = 0 → psz = 0) ∧ ((opc = 1 ∨ opc = 2 ∨ opc = 54) → psz = 1) ∧ ((opc = 3 ∨ opc = 4) → psz = 2) ∧ ((opc = 5 ∨ opc = 65) → psz = 4) ∧
      ((6 ≤ opc ∧ opc ≤ 24 ∨ opc = 48 ∨ opc = 49 ∨ opc = 50 ∨ opc = 55 ∨ opc = 62 ∨ opc = 63 ∨ opc = 64) → psz = 0) :=
    ⟨hrow.1.1.1.1, hrow.1.1.1.2, hrow.1.1.2, hrow.1.2, hrow.2⟩
  unfold depthAfter at hd
  by_cases h0 : opc = 0
  · left; exact ⟨h0, this.1 h0⟩
  by_cases h1 : opc = 1 ∨ opc = 2 ∨ opc = 54
  · right; left; exact ⟨h1, this.2.1 h1⟩
  by_cases h2 : opc = 3 ∨ opc = 4
  · right; right; left; exact ⟨h2, this.2.2.1 h2⟩
  by_cases h3 : opc = 5
  · right; right; right; left; exact ⟨h3, this.2.2.2.1 (Or.inl h3)⟩
  by_cases h4 : opc = 65
  · right; right; right; right; left; exact ⟨h4, this.2.2.2.1 (Or.inr h4)⟩
  by_cases h5 : 6 ≤ opc ∧ opc ≤ 24 ∨ opc = 48 ∨ opc = 49 ∨ opc = 50 ∨ opc = 55 ∨ opc = 62 ∨ opc = 63 ∨ opc = 64
  · right; right; right; right; right; exact ⟨h5, this.2.2.2.2 h5⟩
  -- every other opcode is outside the subset: `depthAfter` refuses it
  exfalso
  simp only [h0, if_false] at hd
  repeat' (split at hd <;> try (first | omega | cases hd))

theorem list_len1 {α} (l : List α) (h : l.length = 1) : ∃ a, l = [a] := by
  match l, h with
  | [a], _ => exact ⟨a, rfl⟩
theorem list_len2 {α} (l : List α) (h : l.length = 2) : ∃ a b, l = [a, b] := by
  match l, h with
  | [a, b], _ => exact ⟨a, b, rfl⟩
theorem list_len4 {α} (l : List α) (h : l.length = 4) : ∃ a b c d, l = [a, b, c, d] := by
  match l, h with
  | [a, b, c, d], _ => exact ⟨a, b, c, d, rfl⟩
theorem list_ge1 (l : List Int) (h : (1 : Int) ≤ l.length) : ∃ x t, l = x :: t := by
  match l, h with
  | x :: t, _ => exact ⟨x, t, rfl⟩
theorem list_ge2 (l : List Int) (h : (2 : Int) ≤ l.length) : ∃ x y t, l = x :: y :: t := by
  match l, h with
  | x :: y :: t, _ => exact ⟨x, y, t, rfl⟩
  | [_], h => simp at h
theorem list_ge3 (l : List Int) (h : (3 : Int) ≤ l.length) : ∃ x y z t, l = x :: y :: z :: t := by
  match l, h with
  | x :: y :: z :: t, _ => exact ⟨x, y, z, t, rfl⟩
  | [_], h => simp at h
  | [_, _], h => simp at h

/-- what `depthAfter` accepting an opcode says about the depth before and after -/
theorem depthAfter_cases (opc : Nat) (d d' : Int) (h : depthAfter opc d = .ok d') :
    (opc = 0 ∧ d' = d) ∨ ((1 ≤ opc ∧ opc ≤ 5 ∨ opc = 54 ∨ opc = 55) ∧ d' = d + 1) ∨
    (((6 ≤ opc ∧ opc ≤ 11) ∨ opc = 16 ∨ opc = 17 ∨ (19 ≤ opc ∧ opc ≤ 24) ∨ opc = 62 ∨ opc = 63) ∧ 2 ≤ d ∧ d' = d - 1) ∨
    (((12 ≤ opc ∧ opc ≤ 14) ∨ opc = 18 ∨ opc = 64 ∨ opc = 65) ∧ 1 ≤ d ∧ d' = d) ∨ (opc = 15 ∧ 3 ≤ d ∧ d' = d - 2) ∨
    (opc = 48 ∧ 1 ≤ d ∧ d' = d - 1) ∨ ((opc = 49 ∨ opc = 50) ∧ d' = d) := by
  unfold depthAfter at h
  by_cases h0 : opc = 0
  · rw [if_pos h0] at h; cases h; exact Or.inl ⟨h0, rfl⟩
  rw [if_neg h0] at h
  by_cases h1 : 1 ≤ opc ∧ opc ≤ 5
  · rw [if_pos h1] at h; cases h; exact Or.inr (Or.inl ⟨Or.inl h1, rfl⟩)
  rw [if_neg h1] at h
  by_cases h2 : (6 ≤ opc ∧ opc ≤ 11) ∨ opc = 16 ∨ opc = 17 ∨ (19 ≤ opc ∧ opc ≤ 24) ∨ opc = 62 ∨ opc = 63
  · rw [if_pos h2] at h
    by_cases hd : d - 1 ≤ 0
    · rw [if_pos hd] at h; cases h
    · rw [if_neg hd] at h; cases h; exact Or.inr (Or.inr (Or.inl ⟨h2, by omega, rfl⟩))
  rw [if_neg h2] at h
  by_cases h3 : (12 ≤ opc ∧ opc ≤ 14) ∨ opc = 18 ∨ opc = 64 ∨ opc = 65
  · rw [if_pos h3] at h
    by_cases hd : d ≤ 0
    · rw [if_pos hd] at h; cases h
    · rw [if_neg hd] at h; cases h; exact Or.inr (Or.inr (Or.inr (Or.inl ⟨h3, by omega, rfl⟩)))
  rw [if_neg h3] at h
  by_cases h4 : opc = 15
  · rw [if_pos h4] at h
    by_cases hd : d - 2 ≤ 0
    · rw [if_pos hd] at h; cases h
    · rw [if_neg hd] at h; cases h; exact Or.inr (Or.inr (Or.inr (Or.inr (Or.inl ⟨h4, by omega, rfl⟩))))
  rw [if_neg h4] at h
  by_cases h5 : opc = 48
  · rw [if_pos h5] at h
    by_cases hd : d - 1 < 0
    · rw [if_pos hd] at h; cases h
    · rw [if_neg hd] at h; cases h; exact Or.inr (Or.inr (Or.inr (Or.inr (Or.inr (Or.inl ⟨h5, by omega, rfl⟩)))))
  rw [if_neg h5] at h
  by_cases h6 : opc = 49 ∨ opc = 50
  · rw [if_pos h6] at h; cases h; exact Or.inr (Or.inr (Or.inr (Or.inr (Or.inr (Or.inr ⟨h6, rfl⟩)))))
  rw [if_neg h6] at h
  by_cases h7 : opc = 54 ∨ opc = 55
  · rw [if_pos h7] at h; cases h; exact Or.inr (Or.inl ⟨Or.inr h7, rfl⟩)
  rw [if_neg h7] at h
  cases h

/-- what one accepted opcode does in the specification: it is not stuck, and when it continues it has consumed its operand bytes and
the stack has the length the loader computed -/
theorem step_ok (opc psz : Nat) (ps ds' : List Nat) (st : List Int) (d d' : Int) (hps : ps.length = psz)
    (hcls : (opc = 0 ∧ psz = 0) ∨ ((opc = 1 ∨ opc = 2 ∨ opc = 54) ∧ psz = 1) ∨ ((opc = 3 ∨ opc = 4) ∧ psz = 2) ∨ (opc = 5 ∧ psz = 4) ∨ (opc = 65 ∧ psz = 4) ∨
      ((6 ≤ opc ∧ opc ≤ 24 ∨ opc = 48 ∨ opc = 49 ∨ opc = 50 ∨ opc = 55 ∨ opc = 62 ∨ opc = 63 ∨ opc = 64) ∧ psz = 0))
    (hd : depthAfter opc d = .ok d') (hst : (st.length : Int) = d) :
    (∃ st', step opc (ps ++ ds') st = .next st' psz ∧ (st'.length : Int) = d') ∨ (∃ v below, step opc (ps ++ ds') st = .ret v below) ∨
      (∃ st', step opc (ps ++ ds') st = .die st') := by
  have hdc := depthAfter_cases opc d d' hd
  rcases hcls with ⟨rfl, rfl⟩ | ⟨ho, rfl⟩ | ⟨ho, rfl⟩ | ⟨rfl, rfl⟩ | ⟨rfl, rfl⟩ | ⟨ho, rfl⟩
  · have hd' : d' = d := by omega
    subst hd'
    exact Or.inl ⟨st, rfl, hst⟩
  · obtain ⟨b, rfl⟩ := list_len1 ps hps
    have hd' : d' = d + 1 := by omega
    subst hd'
    rcases ho with rfl | rfl | rfl <;> exact Or.inl ⟨_, rfl, by simp only [List.length_cons]; omega⟩
  · obtain ⟨a, b, rfl⟩ := list_len2 ps hps
    have hd' : d' = d + 1 := by omega
    subst hd'
    rcases ho with rfl | rfl <;> exact Or.inl ⟨_, rfl, by simp only [List.length_cons]; omega⟩
  · obtain ⟨a, b, c, e, rfl⟩ := list_len4 ps hps
    have hd' : d' = d + 1 := by omega
    subst hd'
    exact Or.inl ⟨_, rfl, by simp only [List.length_cons]; omega⟩
  · obtain ⟨a, b, c, e, rfl⟩ := list_len4 ps hps
    have hd' : 1 ≤ d ∧ d' = d := by omega
    obtain ⟨x, t, rfl⟩ := list_ge1 st (by omega)
    exact Or.inl ⟨_, rfl, by simp only [List.length_cons] at hst ⊢; omega⟩
  · have hps0 : ps = [] := List.eq_nil_of_length_eq_zero hps
    subst hps0
    simp only [List.nil_append]
    -- binary operators
    by_cases hb : (6 ≤ opc ∧ opc ≤ 8) ∨ opc = 10 ∨ opc = 11 ∨ opc = 16 ∨ opc = 17 ∨ (19 ≤ opc ∧ opc ≤ 24) ∨ opc = 62 ∨ opc = 63
    · have hd' : 2 ≤ d ∧ d' = d - 1 := by omega
      obtain ⟨x, y, t, rfl⟩ := list_ge2 st (by omega)
      have hc : opc = 6 ∨ opc = 7 ∨ opc = 8 ∨ opc = 10 ∨ opc = 11 ∨ opc = 16 ∨ opc = 17 ∨ opc = 19 ∨ opc = 20 ∨ opc = 21 ∨ opc = 22 ∨ opc = 23 ∨ opc = 24 ∨ opc = 62 ∨ opc = 63 := by omega
      rcases hc with rfl | rfl | rfl | rfl | rfl | rfl | rfl | rfl | rfl | rfl | rfl | rfl | rfl | rfl | rfl <;>
        exact Or.inl ⟨_, rfl, by simp only [List.length_cons] at hst ⊢; omega⟩
    by_cases h9 : opc = 9
    · subst h9
      have hd' : 2 ≤ d ∧ d' = d - 1 := by omega
      obtain ⟨x, y, t, rfl⟩ := list_ge2 st (by omega)
      by_cases hz : x = 0 ∨ (y = INT_MIN ∧ x = -1)
      · exact Or.inr (Or.inr ⟨y :: t, by simp [step, hz]⟩)
      · exact Or.inl ⟨Int.tdiv y x :: t, by simp [step, hz], by simp only [List.length_cons] at hst ⊢; omega⟩
    by_cases hu : (12 ≤ opc ∧ opc ≤ 14) ∨ opc = 18 ∨ opc = 64
    · have hd' : 1 ≤ d ∧ d' = d := by omega
      obtain ⟨x, t, rfl⟩ := list_ge1 st (by omega)
      have hc : opc = 12 ∨ opc = 13 ∨ opc = 14 ∨ opc = 18 ∨ opc = 64 := by omega
      rcases hc with rfl | rfl | rfl | rfl | rfl <;> exact Or.inl ⟨_, rfl, by simp only [List.length_cons] at hst ⊢; omega⟩
    by_cases h15 : opc = 15
    · subst h15
      have hd' : 3 ≤ d ∧ d' = d - 2 := by omega
      obtain ⟨x, y, z, t, rfl⟩ := list_ge3 st (by omega)
      exact Or.inl ⟨_, rfl, by simp only [List.length_cons] at hst ⊢; omega⟩
    by_cases h48 : opc = 48
    · subst h48
      have hd' : 1 ≤ d := by omega
      obtain ⟨x, t, rfl⟩ := list_ge1 st (by omega)
      exact Or.inr (Or.inl ⟨_, _, rfl⟩)
    by_cases h49 : opc = 49 ∨ opc = 50
    · rcases h49 with rfl | rfl <;> exact Or.inr (Or.inl ⟨_, _, rfl⟩)
    have h55 : opc = 55 := by omega
    subst h55
    have hd' : d' = d + 1 := by omega
    subst hd'
    exact Or.inl ⟨_, rfl, by simp only [List.length_cons]; omega⟩

theorem endsInReturn_tail (opc : Nat) (is : List Nat) (h : EndsInReturn (opc :: is)) (hn : isReturn opc = false) : EndsInReturn is := by
  obtain ⟨init, last, e, hl⟩ := h
  cases init with
  | nil =>
    simp only [List.nil_append, List.cons.injEq] at e
    rw [← e.1] at hl; rw [hl] at hn; cases hn
  | cons a init' =>
    simp only [List.cons_append, List.cons.injEq] at e
    exact ⟨init', last, e.2, hl⟩

theorem loadLoop_defined (constraint : Bool) (lim : Nat) : ∀ (fuel : Nat) (bytes : List Nat) (depth : Int) (is ds : List Nat),
    loadLoop constraint fuel bytes depth = .ok (is, ds) → EndsInReturn is →
    ∀ (st : List Int), (st.length : Int) = depth → eval lim is ds st ≠ .stuck := by
  intro fuel
  induction fuel with
  | zero =>
    intro bytes depth is ds h he st hst
    unfold loadLoop at h
    cases h
    obtain ⟨init, last, e, _⟩ := he
    cases init <;> cases e
  | succ fuel ih =>
    intro bytes depth is ds h he st hst
    cases bytes with
    | nil =>
      unfold loadLoop at h
      cases h
      obtain ⟨init, last, e, _⟩ := he
      cases init <;> cases e
    | cons opc rest =>
      unfold loadLoop at h
      by_cases hm : opc ≥ MAX_OPCODE
      · rw [if_pos hm] at h; cases h
      rw [if_neg hm] at h
      cases ht : opcodeTable[opc]? with
      | none => rw [ht] at h; cases h
      | some row =>
        obtain ⟨nm, psz, implA, implC⟩ := row
        rw [ht] at h
        simp only [] at h
        by_cases hi : (!(if constraint = true then implC else implA)) = true
        · rw [if_pos hi] at h; cases h
        rw [if_neg hi] at h
        by_cases hv : psz = 255
        · rw [if_pos hv] at h; cases h
        rw [if_neg hv] at h
        by_cases hx : psz > rest.length
        · rw [if_pos hx] at h; cases h
        rw [if_neg hx] at h
        cases hda : depthAfter opc depth with
        | error e => rw [hda] at h; cases h
        | ok d' =>
          rw [hda] at h
          simp only [] at h
          cases hrec : loadLoop constraint fuel (rest.drop psz) d' with
          | error e => rw [hrec] at h; cases h
          | ok r =>
            obtain ⟨is', ds'⟩ := r
            rw [hrec] at h
            simp only [Except.ok.injEq, Prod.mk.injEq] at h
            obtain ⟨rfl, rfl⟩ := h
            have hcls := table_psz opc nm psz implA implC ht hv depth d' hda
            have hlen : (rest.take psz).length = psz := by simp only [List.length_take]; omega
            unfold eval
            rcases step_ok opc psz (rest.take psz) ds' st depth d' hlen hcls hda hst with ⟨st', e1, hl⟩ | ⟨v, below, e1⟩ | ⟨st', e1⟩
            · rw [e1]
              simp only []
              split
              · have hdrop : (rest.take psz ++ ds').drop psz = ds' := by
                  rw [List.drop_append_of_le_length (by omega)]
                  simp [List.drop_eq_nil_of_le (show (rest.take psz).length ≤ psz by omega)]
                rw [hdrop]
                have hnr : isReturn opc = false := by
                  -- a return does not continue
                  cases hr : isReturn opc with
                  | false => rfl
                  | true =>
                    unfold isReturn at hr
                    simp only [decide_eq_true_eq] at hr
                    rcases hr with rfl | rfl | rfl <;> (simp [step] at e1 <;> (cases st <;> simp at e1))
                exact ih (rest.drop psz) d' is' ds' hrec (endsInReturn_tail opc is' he hnr) st' hl
              · intro hh; cases hh
            · rw [e1]; intro hh; cases hh
            · rw [e1]; intro hh; cases hh

/-- **load_defined**: a program over the scalar opcodes that the loader accepts is one on which the opcode specification's evaluation
is defined (it is never stuck): every opcode finds the operand bytes and the stack operands it needs – the loader's `_stack_depth`
equals the length of the specification's stack at every instruction – and the run reaches a return before it runs out of
instructions -/
theorem load_defined (constraint : Bool) (bytes : List Nat) (p : Program) (h : load constraint bytes = (.loaded, some p)) (lim : Nat) :
    eval lim p.instrs p.data [] ≠ .stuck := by
  unfold load at h
  by_cases he : bytes.isEmpty = true
  · rw [if_pos he] at h; cases h
  rw [if_neg he] at h
  cases hl : loadLoop constraint bytes.length bytes 0 with
  | error e => rw [hl] at h; cases h
  | ok r =>
    obtain ⟨is, ds⟩ := r
    rw [hl] at h
    simp only [] at h
    by_cases h1 : is.isEmpty = true
    · rw [if_pos h1] at h; cases h
    rw [if_neg h1] at h
    by_cases h2 : (!(isReturn (is.getLast?.getD 0))) = true
    · rw [if_pos h2] at h; cases h
    rw [if_neg h2] at h
    simp only [Prod.mk.injEq, Option.some.injEq, true_and] at h
    subst h
    have hne : is ≠ [] := by intro hh; rw [hh] at h1; simp at h1
    have hend : EndsInReturn is := by
      refine ⟨is.dropLast, is.getLast hne, (List.dropLast_concat_getLast hne).symm, ?_⟩
      have : is.getLast?.getD 0 = is.getLast hne := by rw [List.getLast?_eq_getLast hne]; rfl
      rw [this] at h2
      simpa using h2
    exact loadLoop_defined constraint lim bytes.length bytes 0 is ds hl hend [] rfl

theorem loadLoop_cons_inv (constraint : Bool) (fuel opc : Nat) (rest : List Nat) (depth : Int) (is ds : List Nat)
    (h : loadLoop constraint (fuel + 1) (opc :: rest) depth = .ok (is, ds)) :
    ∃ psz d' is' ds', psz ≤ rest.length ∧ loadLoop constraint fuel (rest.drop psz) d' = .ok (is', ds') ∧ is = opc :: is' ∧ ds = rest.take psz ++ ds' := by
  unfold loadLoop at h
  by_cases hm : opc ≥ MAX_OPCODE
  · rw [if_pos hm] at h; cases h
  rw [if_neg hm] at h
  cases ht : opcodeTable[opc]? with
  | none => rw [ht] at h; cases h
  | some row =>
    obtain ⟨nm, psz, implA, implC⟩ := row
    rw [ht] at h
    simp only [] at h
    by_cases hi : (!(if constraint = true then implC else implA)) = true
    · rw [if_pos hi] at h; cases h
    rw [if_neg hi] at h
    by_cases hv : psz = 255
    · rw [if_pos hv] at h; cases h
    rw [if_neg hv] at h
    by_cases hx : psz > rest.length
    · rw [if_pos hx] at h; cases h
    rw [if_neg hx] at h
    cases hda : depthAfter opc depth with
    | error e => rw [hda] at h; cases h
    | ok d' =>
      rw [hda] at h
      simp only [] at h
      cases hrec : loadLoop constraint fuel (rest.drop psz) d' with
      | error e => rw [hrec] at h; cases h
      | ok r =>
        obtain ⟨is', ds'⟩ := r
        rw [hrec] at h
        simp only [Except.ok.injEq, Prod.mk.injEq] at h
        exact ⟨psz, d', is', ds', by omega, hrec, h.1.symm, h.2.symm⟩

/-- the operand bytes of a loaded program are bytes of the bytecode -/
theorem loadLoop_data_sub (constraint : Bool) : ∀ (fuel : Nat) (bytes : List Nat) (depth : Int) (is ds : List Nat),
    loadLoop constraint fuel bytes depth = .ok (is, ds) → ∀ b ∈ ds, b ∈ bytes := by
  intro fuel
  induction fuel with
  | zero => intro bytes depth is ds h b hb; unfold loadLoop at h; cases h; cases hb
  | succ fuel ih =>
    intro bytes depth is ds h b hb
    cases bytes with
    | nil => unfold loadLoop at h; cases h; cases hb
    | cons opc rest =>
      obtain ⟨psz, d', is', ds', _, hrec, _, rfl⟩ := loadLoop_cons_inv constraint fuel opc rest depth is ds h
      rcases List.mem_append.mp hb with hb | hb
      · exact List.mem_cons_of_mem _ (List.mem_of_mem_take hb)
      · exact List.mem_cons_of_mem _ (List.mem_of_mem_drop (ih _ _ _ _ hrec b hb))

theorem load_data_bytes (constraint : Bool) (bytes : List Nat) (p : Program) (h : load constraint bytes = (.loaded, some p))
    (hb : ∀ b ∈ bytes, b < 256) : ∀ b ∈ p.data, b < 256 := by
  unfold load at h
  by_cases he : bytes.isEmpty = true
  · rw [if_pos he] at h; cases h
  rw [if_neg he] at h
  cases hl : loadLoop constraint bytes.length bytes 0 with
  | error e => rw [hl] at h; cases h
  | ok r =>
    obtain ⟨is, ds⟩ := r
    rw [hl] at h
    simp only [] at h
    by_cases h1 : is.isEmpty = true
    · rw [if_pos h1] at h; cases h
    rw [if_neg h1] at h
    by_cases h2 : (!(isReturn (is.getLast?.getD 0))) = true
    · rw [if_pos h2] at h; cases h
    rw [if_neg h2] at h
    simp only [Prod.mk.injEq, Option.some.injEq, true_and] at h
    subst h
    intro b hbm
    exact hb b (loadLoop_data_sub constraint _ _ _ _ _ hl b hbm)

end GrVerif.Vm

import GrVerif.Proofs.HeapChain
import GrVerif.Model.Lines
set_option linter.unusedVariables false
set_option linter.unusedSimpArgs false
namespace GrVerif.Seg

/-- **C19, cutting.** `gr_slot_linebreak_before(p)` on an interior slot splits the stream into two well-formed chains: the
slots before `p` and the slots from `p` on, each in its old order; nothing else is written. -/
theorem linebreak_splits {s : Seg} {a b : List Nat} {p : Nat} (h : Linked s (a ++ p :: b)) (ha : a ≠ []) :
    ∃ s', s.linebreakBefore p = some s' ∧ Chain s' none none a ∧ Chain s' none none (p :: b) ∧
      s'.first = a.head? ∧ s'.last = (p :: b).getLast? ∧
      (∀ j, (s'.get j).deleted = (s.get j).deleted ∧ (s'.get j).gid = (s.get j).gid) := by
  obtain ⟨hp, hn, hA, hB⟩ := chain_mid h.chain
  simp only [Option.or_none] at hp hn
  rcases List.eq_nil_or_concat a with hnil | ⟨a', q, hq⟩
  · exact absurd hnil ha
  · rw [List.concat_eq_append] at hq
    subst hq
    rw [getLast?_concat'] at hp
    have hnd := h.nodup
    have hqa : q ∉ a' := fun hh => (List.nodup_append.mp (List.nodup_append.mp hnd).1).2.2 q hh q (List.mem_singleton.mpr rfl) rfl
    have hqs : q < s.slots.size := h.inb q (List.mem_append_left _ (by simp))
    have hps : p < s.slots.size := h.inb p (by simp)
    have hpq : p ≠ q := fun hh => (List.nodup_append.mp hnd).2.2 q (by simp) p List.mem_cons_self hh.symm
    have hqpb : q ∉ p :: b := fun hh => (List.nodup_append.mp hnd).2.2 q (by simp) q hh rfl
    have hpa : p ∉ a' ++ [q] := fun hh => (List.nodup_append.mp hnd).2.2 p hh p List.mem_cons_self rfl
    have hpb : p ∉ b := (List.nodup_cons.mp (List.nodup_append.mp hnd).2.1).1
    refine ⟨(s.upd q fun sl => (sl.setSibling none).setNext none).upd p fun sl => sl.setPrev none, ?_, ?_, ?_, ?_, ?_, ?_⟩
    · unfold Seg.linebreakBefore; rw [hp]
    · -- the left part: its last `next` is cut
      have c1 : Chain (s.upd q fun sl => (sl.setSibling none).setNext none) none none (a' ++ [q]) := by
        rw [chain_append] at hA ⊢
        refine ⟨chain_upd_notin q _ hqa hA.1, ?_⟩
        simp only [Chain] at hA ⊢
        rw [get_upd_self _ _ _ hqs]
        exact ⟨hA.2.1, rfl, trivial⟩
      exact chain_upd_notin p _ hpa c1
    · have hB' : Chain s none (some q) (p :: b) := ⟨hp, by simpa using hn, hB⟩
      have c1 := chain_upd_notin q (fun sl => (sl.setSibling none).setNext none) hqpb hB'
      exact chain_setStart hpb (by simpa using hps) c1
    · simp only [upd_first]; rw [h.first]; cases a' <;> simp
    · simp only [upd_last]; rw [h.last]
      rw [List.getLast?_append]
      cases hq' : (p :: b).getLast? with
      | none => simp at hq'
      | some x => simp
    · intro j
      rw [get_upd, get_upd]
      split <;> split <;> exact ⟨rfl, rfl⟩

end GrVerif.Seg

namespace GrVerif.Seg

theorem getLast?_mem' {l : List Nat} {x : Nat} (h : l.getLast? = some x) : x ∈ l := List.mem_of_getLast? h
theorem head?_mem' {l : List Nat} {x : Nat} (h : l.head? = some x) : x ∈ l := List.mem_of_head? h

theorem freeSlot_size (s : Seg) (e : Nat) : (s.freeSlot e).slots.size = s.slots.size := by
  unfold Seg.freeSlot Seg.recycle
  simp only [upd_size]
  have h1 : (s.dropEnds e).slots.size = s.slots.size := by
    unfold Seg.dropEnds; simp only []; split <;> split <;> rfl
  have h2 : ((s.dropEnds e).unchild e).slots.size = (s.dropEnds e).slots.size := by
    unfold Seg.unchild; split
    · exact (removeChild_same _ _ _).size
    · rfl
  rw [(detachChildren_same _ _ _).size, h2, h1]

theorem freeSlot_streamFrame (s : Seg) (e : Nat) (hf : s.first ≠ some e) (hl : s.last ≠ some e) :
    (s.freeSlot e).first = s.first ∧ (s.freeSlot e).last = s.last ∧
    ∀ j, j ≠ e → ((s.freeSlot e).get j).next = (s.get j).next ∧ ((s.freeSlot e).get j).prev = (s.get j).prev := by
  have hde : s.dropEnds e = s := by
    unfold Seg.dropEnds
    simp only []
    rw [if_neg hl, if_neg hf]
  unfold Seg.freeSlot
  simp only []
  rw [hde]
  have hT : SameT s (detachChildren (s.unchild e) e ((s.unchild e).slots.size + 1)) := by
    refine SameT.tr ?_ (detachChildren_same _ _ _)
    unfold Seg.unchild
    split
    · exact removeChild_same _ _ _
    · exact SameT.rfl' _
  have ss := StreamSame.ofSameT hT
  revert ss
  generalize (detachChildren (s.unchild e) e ((s.unchild e).slots.size + 1)) = t
  intro ss
  unfold Seg.recycle
  refine ⟨ss.first, ss.last, fun j hj => ?_⟩
  have : ({ (t.upd e fun _ => { next := t.free.head? }) with free := e :: t.free } : Seg).get j = t.get j := get_upd_ne t e j _ hj
  rw [this]
  exact ⟨(ss.slot j).1, (ss.slot j).2.1⟩

/-- **C19, line-end sentinels.** Inserting the line-end sentinel in front of a stream slot `n` and removing it again
(`addLineEnd(n)` … `delLineEnd`) leaves the stream exactly as it was: same `first`/`last`, same links of every slot. -/
theorem lineend_roundtrip {s : Seg} {l : List Nat} {n g e : Nat} {s1 s2 : Seg} (hl : Linked s l) (hc : Clean s l) (hn : n ∈ l)
    (hadd : s.addLineEnd (some n) g = some (e, s1)) (hdel : s1.delLineEnd e = some s2) : Linked s2 l := by
  unfold Seg.addLineEnd at hadd
  split at hadd
  · cases hadd
  · rename_i k s0 hnew
    obtain ⟨l0, _, hkl, hks, hkf, hkp, hkd, hkc, c0⟩ := newSlot_spec hl hc (is := none) (.inl rfl) hnew
    simp only [Option.some.injEq, Prod.mk.injEq] at hadd
    obtain ⟨he, hs1⟩ := hadd
    subst he
    have hkn : k ≠ n := fun hh => hkl (hh ▸ hn)
    have hns : n < s0.slots.size := l0.inb n hn
    obtain ⟨a, b, rfl⟩ := List.append_of_mem hn
    obtain ⟨hp, hnx, hA, hB⟩ := chain_mid l0.chain
    simp only [Option.or_none] at hp hnx
    -- the state after addLineEnd, slot by slot
    have g1k : (s1.get k).next = some n ∧ (s1.get k).prev = a.getLast? := by
      rw [← hs1]
      split <;> (rw [get_upd_self _ _ _ (by simpa using hks)]; simp only [setAfter_next, setAfter_prev]
                 rw [get_upd_self _ _ _ (by simpa using hks)]; simp only [setBefore_next, setBefore_prev]
                 rw [get_upd_ne _ _ _ _ hkn, get_upd_self _ _ _ hks]; simp [hp])
    have g1n : (s1.get n).prev = some k ∧ (s1.get n).next = (s0.get n).next := by
      rw [← hs1]
      split <;> (rw [get_upd_ne _ _ _ _ hkn.symm, get_upd_ne _ _ _ _ hkn.symm, get_upd_self _ _ _ (by simpa using hns)]; simp
                 rw [get_upd_ne _ _ _ _ hkn.symm])
    have g1o : ∀ j, j ≠ k → j ≠ n → s1.get j = s0.get j := by
      intro j hjk hjn
      rw [← hs1]
      split <;> (rw [get_upd_ne _ _ _ _ hjk, get_upd_ne _ _ _ _ hjk, get_upd_ne _ _ _ _ hjn, get_upd_ne _ _ _ _ hjk])
    have f1 : s1.first = s0.first ∧ s1.last = s0.last ∧ s1.slots.size = s0.slots.size := by
      rw [← hs1]; split <;> simp
    have hnd := l0.nodup
    have hna : n ∉ a := fun hh => (List.nodup_append.mp hnd).2.2 n hh n List.mem_cons_self rfl
    unfold Seg.delLineEnd at hdel
    rw [g1k.1] at hdel
    simp only [Option.some.injEq] at hdel
    have gAk : ((s1.upd n fun sl => sl.setPrev (s1.get k).prev).get k).prev = a.getLast? := by
      rw [get_upd_ne _ _ _ _ hkn]; exact g1k.2
    rw [gAk, g1k.2] at hdel
    have hfirst : s0.first ≠ some k := fun hh => hkl (head?_mem' (by rw [← l0.first]; exact hh))
    have hlast : s0.last ≠ some k := fun hh => hkl (getLast?_mem' (by rw [← l0.last]; exact hh))
    -- the state before the sentinel is recycled
    have key : ∀ sB : Seg, sB.first = s0.first → sB.last = s0.last → sB.slots.size = s0.slots.size →
        (∀ j ∈ a ++ n :: b, (sB.get j).next = (s0.get j).next ∧ (sB.get j).prev = (s0.get j).prev) →
        Linked (sB.freeSlot k) (a ++ n :: b) := by
      intro sB hf hl' hsz hj
      obtain ⟨ff, fl, fj⟩ := freeSlot_streamFrame sB k (by rw [hf]; exact hfirst) (by rw [hl']; exact hlast)
      have hsize := freeSlot_size sB k
      refine ⟨l0.nodup, fun x hx => by rw [hsize, hsz]; exact l0.inb x hx, by rw [ff, hf]; exact l0.first, by rw [fl, hl']; exact l0.last, ?_⟩
      refine chain_congr (fun j hjl => ?_) l0.chain
      have hjk : j ≠ k := fun hh => hkl (hh ▸ hjl)
      rw [(fj j hjk).1, (fj j hjk).2]
      exact hj j hjl
    rw [← hdel]
    rcases List.eq_nil_or_concat a with hnil | ⟨a', q, hq⟩
    · subst hnil
      simp only [List.getLast?_nil]
      apply key _ (by simpa using f1.1) (by simpa using f1.2.1) (by simpa using f1.2.2)
      intro j hjl
      have hjk : j ≠ k := fun hh => hkl (hh ▸ hjl)
      rw [get_upd]
      split
      · rename_i hh
        rw [hh.1]
        simp only [setPrev_next, setPrev_prev]
        exact ⟨g1n.2, by simpa using hp.symm⟩
      · rename_i hh
        have hjn : j ≠ n := fun e => hh ⟨e, by rw [f1.2.2]; exact hns⟩
        rw [g1o j hjk hjn]; exact ⟨rfl, rfl⟩
    · rw [List.concat_eq_append] at hq
      subst hq
      rw [getLast?_concat'] at hp ⊢
      simp only []
      have hqn : q ≠ n := fun hh => hna (by simp [hh])
      have hqk : q ≠ k := fun hh => hkl (by simp [hh])
      have hqs : q < s0.slots.size := l0.inb q (by simp)
      have hqnext : (s0.get q).next = some n := by
        have := (chain_append (a := a') (b := [q])).mp hA
        simpa [Chain] using this.2.2.1
      apply key _ (by simpa using f1.1) (by simpa using f1.2.1) (by simpa using f1.2.2)
      intro j hjl
      have hjk : j ≠ k := fun hh => hkl (hh ▸ hjl)
      rw [get_upd]
      split
      · rename_i hh
        rw [hh.1]
        simp only [setNext_next, setNext_prev]
        rw [get_upd_ne _ _ _ _ hqn, g1o q hqk hqn]
        exact ⟨hqnext.symm, rfl⟩
      · rename_i hh
        have hjq : j ≠ q := fun e => hh ⟨e, by simp only [upd_size]; rw [f1.2.2]; exact hqs⟩
        rw [get_upd]
        split
        · rename_i hh2
          rw [hh2.1]
          simp only [setPrev_next, setPrev_prev]
          exact ⟨g1n.2, hp.symm⟩
        · rename_i hh2
          have hjn : j ≠ n := fun e => hh2 ⟨e, by rw [f1.2.2]; exact hns⟩
          rw [g1o j hjk hjn]; exact ⟨rfl, rfl⟩

end GrVerif.Seg

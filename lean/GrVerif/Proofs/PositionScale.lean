import GrVerif.Model.Position
set_option linter.unusedVariables false
set_option linter.unusedSimpArgs false
namespace GrVerif.Pos
open GrVerif.Seg

def scaleP (k : Rat) (p : P) : P := (k * p.1, k * p.2)
def scaleSt (k : Rat) (st : St) : St := { pos := st.pos.map (scaleP k), clusterMin := k * st.clusterMin }

theorem scaleP_add (k : Rat) (a b : P) : scaleP k (P.add a b) = P.add (scaleP k a) (scaleP k b) := by
  unfold scaleP P.add; simp only []; congr 1 <;> grind

theorem scaleSt_getPos (k : Rat) (st : St) (i : Nat) : (scaleSt k st).getPos i = scaleP k (st.getPos i) := by
  unfold scaleSt St.getPos
  simp only [Array.getD_eq_getD_getElem?, Array.getElem?_map]
  cases st.pos[i]? <;> simp [scaleP]

theorem scaleSt_setPos (k : Rat) (st : St) (i : Nat) (p : P) : (scaleSt k st).setPos i (scaleP k p) = scaleSt k (st.setPos i p) := by
  unfold scaleSt St.setPos
  simp only [Array.map_setIfInBounds]

theorem scaleSt_cm (k : Rat) (st : St) (c : Rat) : { scaleSt k st with clusterMin := k * c } = scaleSt k { st with clusterMin := c } := rfl

theorem lt_scale {k a b : Rat} (hk : 0 < k) : k * a < k * b ↔ a < b := Rat.mul_lt_mul_left hk

theorem floodShift_scale (seg : Seg) (k : Rat) (adj : P) : ∀ (fuel s : Nat) (st : St),
    floodShift seg (scaleP k adj) fuel s (scaleSt k st) = scaleSt k (floodShift seg adj fuel s st) := by
  intro fuel
  induction fuel with
  | zero => intro s st; rfl
  | succ f ih =>
    intro s st
    unfold floodShift
    simp only []
    rw [scaleSt_getPos, ← scaleP_add, scaleSt_setPos]
    cases (seg.get s).child with
    | none =>
      cases (seg.get s).sibling with
      | none => rfl
      | some b => exact ih b _
    | some c =>
      simp only []
      rw [ih c _]
      cases (seg.get s).sibling with
      | none => rfl
      | some b => exact ih b _

end GrVerif.Pos

namespace GrVerif.Pos
open GrVerif.Seg

theorem place_scale (sl : Seg.Slot) (k : Rat) (hk : 0 < k) (base : P) (cm : Rat) (rtl : Bool) :
    place sl k (scaleP k base) (k * cm) rtl =
      (scaleP k (place sl 1 base cm rtl).1, scaleP k (place sl 1 base cm rtl).2.1, k * (place sl 1 base cm rtl).2.2) := by
  unfold place
  cases hp : sl.parent with
  | none =>
    simp only [scaleP, P.add]
    refine Prod.ext ?_ (Prod.ext ?_ ?_) <;> simp only [] <;> (try (refine Prod.ext ?_ ?_ <;> simp only [])) <;> grind
  | some q =>
    simp only [scaleP, P.add]
    -- the two comparisons are invariant under scaling
    have e0 : (k * base.1 + k * ↑(sl.shiftDir rtl) + k * (↑sl.attX - ↑sl.withX) : Rat) = k * (base.1 + 1 * ↑(sl.shiftDir rtl) + 1 * (↑sl.attX - ↑sl.withX)) := by grind
    have c1 : (k * base.1 + k * ↑(sl.shiftDir rtl) + k * (↑sl.attX - ↑sl.withX) < 0) ↔ (base.1 + 1 * ↑(sl.shiftDir rtl) + 1 * (↑sl.attX - ↑sl.withX) < 0) := by
      rw [e0]
      have := lt_scale (a := base.1 + 1 * ↑(sl.shiftDir rtl) + 1 * (↑sl.attX - ↑sl.withX)) (b := 0) hk
      simpa using this
    have c2 : (k * base.1 + k * ↑(sl.shiftDir rtl) + k * (↑sl.attX - ↑sl.withX) < k * cm) ↔ (base.1 + 1 * ↑(sl.shiftDir rtl) + 1 * (↑sl.attX - ↑sl.withX) < cm) := by
      rw [e0]; exact lt_scale hk
    by_cases ha : sl.advX ≥ 1
    · by_cases hc : (base.1 + 1 * ↑(sl.shiftDir rtl) + 1 * (↑sl.attX - ↑sl.withX) < cm)
      · simp only [ha, true_or, true_and, if_true, c2, hc]
        refine Prod.ext ?_ (Prod.ext ?_ ?_) <;> simp only [] <;> (try (refine Prod.ext ?_ ?_ <;> simp only [])) <;> grind
      · simp only [ha, true_or, true_and, if_true, c2, hc, if_false]
        refine Prod.ext ?_ (Prod.ext ?_ ?_) <;> simp only [] <;> (try (refine Prod.ext ?_ ?_ <;> simp only [])) <;> grind
    · by_cases hc : ((base.1 + 1 * ↑(sl.shiftDir rtl) + 1 * (↑sl.attX - ↑sl.withX) < 0) ∧ base.1 + 1 * ↑(sl.shiftDir rtl) + 1 * (↑sl.attX - ↑sl.withX) < cm)
      · simp only [ha, false_or, if_false, c1, c2, hc, and_self, if_true]
        refine Prod.ext ?_ (Prod.ext ?_ ?_) <;> simp only [] <;> (try (refine Prod.ext ?_ ?_ <;> simp only [])) <;> grind
      · simp only [ha, false_or, if_false, c1, c2, hc]
        refine Prod.ext ?_ (Prod.ext ?_ ?_) <;> simp only [] <;> (try (refine Prod.ext ?_ ?_ <;> simp only [])) <;> grind

end GrVerif.Pos

namespace GrVerif.Pos
open GrVerif.Seg

theorem pickMax_scale (k : Rat) (hk : 0 < k) (cond : Bool) (res : P) (r : P × St) :
    pickMax cond (scaleP k res) (scaleP k r.1, scaleSt k r.2) = (scaleP k (pickMax cond res r).1, scaleSt k (pickMax cond res r).2) := by
  unfold pickMax
  have c : (scaleP k r.1).1 > (scaleP k res).1 ↔ r.1.1 > res.1 := by
    simp only [scaleP]; exact lt_scale hk
  by_cases h : cond = true ∧ r.1.1 > res.1
  · have h' : cond = true ∧ (scaleP k r.1).1 > (scaleP k res).1 := ⟨h.1, c.mpr h.2⟩
    rw [if_pos h, if_pos h']
  · have h' : ¬ (cond = true ∧ (scaleP k r.1).1 > (scaleP k res).1) := fun hh => h ⟨hh.1, c.mp hh.2⟩
    rw [if_neg h, if_neg h']

theorem adjustCluster_scale (seg : Seg) (k : Rat) (hk : 0 < k) (sl : Seg.Slot) (s : Nat) (base res : P) (st : St) :
    adjustCluster seg sl s (scaleP k base) (scaleP k res) (scaleSt k st) =
      (scaleP k (adjustCluster seg sl s base res st).1, scaleSt k (adjustCluster seg sl s base res st).2) := by
  unfold adjustCluster
  have c : (scaleSt k st).clusterMin < (scaleP k base).1 ↔ st.clusterMin < base.1 := by
    simp only [scaleSt, scaleP]; exact lt_scale hk
  by_cases h : sl.parent.isNone = true ∧ st.clusterMin < base.1
  · have h' : sl.parent.isNone = true ∧ (scaleSt k st).clusterMin < (scaleP k base).1 := ⟨h.1, c.mpr h.2⟩
    rw [if_pos h, if_pos h']
    simp only []
    have eadj : (((scaleSt k st).getPos s).1 - (scaleSt k st).clusterMin, (0 : Rat)) = scaleP k ((st.getPos s).1 - st.clusterMin, 0) := by
      rw [scaleSt_getPos]; simp only [scaleP, scaleSt]; refine Prod.ext ?_ ?_ <;> simp only [] <;> grind
    have e2 : P.add ((scaleSt k st).getPos s) (scaleP k ((st.getPos s).1 - st.clusterMin, 0)) = scaleP k (P.add (st.getPos s) ((st.getPos s).1 - st.clusterMin, 0)) := by
      rw [scaleSt_getPos, scaleP_add]
    have e3 : P.add (scaleP k res) (scaleP k ((st.getPos s).1 - st.clusterMin, 0)) = scaleP k (P.add res ((st.getPos s).1 - st.clusterMin, 0)) := (scaleP_add _ _ _).symm
    rw [eadj, e2, e3, scaleSt_setPos]
    cases sl.child with
    | none => rfl
    | some c => simp only []; rw [floodShift_scale]
  · have h' : ¬ (sl.parent.isNone = true ∧ (scaleSt k st).clusterMin < (scaleP k base).1) := fun hh => h ⟨hh.1, c.mp hh.2⟩
    rw [if_neg h, if_neg h']

theorem childStage_scale (seg : Seg) (k : Rat) (hk : 0 < k) (sl : Seg.Slot) (s : Nat) (res pos : P) (st : St)
    (rk r1 : Nat → P → St → P × St) (ih : ∀ c b t, rk c (scaleP k b) (scaleSt k t) = (scaleP k (r1 c b t).1, scaleSt k (r1 c b t).2)) :
    childStage seg sl s (scaleP k res) (scaleP k pos) (scaleSt k st) rk =
      (scaleP k (childStage seg sl s res pos st r1).1, scaleSt k (childStage seg sl s res pos st r1).2) := by
  unfold childStage
  cases sl.child with
  | none => rfl
  | some c =>
    simp only []
    split
    · rw [ih c pos st]; exact pickMax_scale k hk _ _ _
    · rfl

theorem siblingStage_scale (seg : Seg) (k : Rat) (hk : 0 < k) (sl : Seg.Slot) (s : Nat) (base : P) (r : P × St)
    (rk r1 : Nat → P → St → P × St) (ih : ∀ c b t, rk c (scaleP k b) (scaleSt k t) = (scaleP k (r1 c b t).1, scaleSt k (r1 c b t).2)) :
    siblingStage seg sl s (scaleP k base) (scaleP k r.1, scaleSt k r.2) rk =
      (scaleP k (siblingStage seg sl s base r r1).1, scaleSt k (siblingStage seg sl s base r r1).2) := by
  unfold siblingStage
  cases sl.parent with
  | none => rfl
  | some p =>
    cases sl.sibling with
    | none => rfl
    | some b =>
      simp only []
      split
      · rw [ih b base r.2]; exact pickMax_scale k hk _ _ _
      · rfl

/-- **C15, the core.** Final positioning with a font of scale `k > 0` gives exactly `k` times what positioning in design
units gives: every origin, the running cluster minimum and the returned advance point. -/
theorem finalise_scale (seg : Seg) (k : Rat) (hk : 0 < k) (rtl : Bool) : ∀ (fuel s : Nat) (base : P) (st : St),
    finalise seg k rtl fuel s (scaleP k base) (scaleSt k st) =
      (scaleP k (finalise seg 1 rtl fuel s base st).1, scaleSt k (finalise seg 1 rtl fuel s base st).2) := by
  intro fuel
  induction fuel with
  | zero => intro s base st; simp [finalise, scaleP]
  | succ f ih =>
    intro s base st
    unfold finalise
    simp only []
    have hpl := place_scale (seg.get s) k hk base st.clusterMin rtl
    have hcm : (scaleSt k st).clusterMin = k * st.clusterMin := rfl
    rw [hcm, hpl]
    simp only []
    have hst : ({ scaleSt k st with clusterMin := k * (place (seg.get s) 1 base st.clusterMin rtl).2.2 } : St).setPos s
        (scaleP k (place (seg.get s) 1 base st.clusterMin rtl).2.1) =
        scaleSt k (({ st with clusterMin := (place (seg.get s) 1 base st.clusterMin rtl).2.2 } : St).setPos s (place (seg.get s) 1 base st.clusterMin rtl).2.1) := by
      rw [scaleSt_cm, scaleSt_setPos]
    rw [hst]
    rw [childStage_scale seg k hk (seg.get s) s _ _ _ _ (fun c b t => finalise seg 1 rtl f c b t) (fun c b t => ih c b t)]
    rw [siblingStage_scale seg k hk (seg.get s) s base _ _ (fun c b t => finalise seg 1 rtl f c b t) (fun c b t => ih c b t)]
    exact adjustCluster_scale seg k hk _ s base _ _

theorem positionFold_scale (seg : Seg) (k : Rat) (hk : 0 < k) (rtl : Bool) : ∀ (l : List Nat) (acc : P × St),
    l.foldl (fun (acc : P × St) s =>
      if (seg.get s).parent.isNone then finalise seg k rtl 101 s acc.1 { acc.2 with clusterMin := acc.1.1 } else acc) (scaleP k acc.1, scaleSt k acc.2) =
    (scaleP k (l.foldl (fun (acc : P × St) s =>
      if (seg.get s).parent.isNone then finalise seg 1 rtl 101 s acc.1 { acc.2 with clusterMin := acc.1.1 } else acc) acc).1,
     scaleSt k (l.foldl (fun (acc : P × St) s =>
      if (seg.get s).parent.isNone then finalise seg 1 rtl 101 s acc.1 { acc.2 with clusterMin := acc.1.1 } else acc) acc).2) := by
  intro l
  induction l with
  | nil => intro acc; rfl
  | cons s rest ih =>
    intro acc
    simp only [List.foldl_cons]
    by_cases hb : (seg.get s).parent.isNone = true
    · simp only [hb, if_true]
      have e : ({ scaleSt k acc.2 with clusterMin := (scaleP k acc.1).1 } : St) = scaleSt k { acc.2 with clusterMin := acc.1.1 } := rfl
      rw [e, finalise_scale seg k hk rtl]
      exact ih _
    · simp only [hb, if_false]
      exact ih acc

/-- **C15.** The whole run: with a font of scale `k > 0` every slot origin and the run's advance are `k` times the
design-unit values. -/
theorem positionSlots_scale (seg : Seg) (k : Rat) (hk : 0 < k) (l : List Nat) (rtl : Bool := false) :
    positionSlots seg k l rtl = (scaleP k (positionSlots seg 1 l rtl).1, scaleSt k (positionSlots seg 1 l rtl).2) := by
  unfold positionSlots
  have h0 : (((0, 0) : P), ({ pos := Array.replicate seg.slots.size (0, 0), clusterMin := 0 } : St)) =
      (scaleP k ((0, 0) : P), scaleSt k { pos := Array.replicate seg.slots.size (0, 0), clusterMin := 0 }) := by
    simp [scaleP, scaleSt]
  have := positionFold_scale seg k hk rtl (if rtl then l.reverse else l) (((0, 0) : P), ({ pos := Array.replicate seg.slots.size (0, 0), clusterMin := 0 } : St))
  rw [← h0] at this
  exact this

end GrVerif.Pos

import GrVerif.Proofs.Zones
import GrVerif.Model.Collider
/-!
# The geometry of `ShiftCollider::mergeSlot`

`OverlapQ t b px py sx sy`: the target octabox `t` placed at the rational point `(px, py)` and the neighbour octabox `b`
placed at `(sx, sy)` overlap – all four projections (x, y, s = x + y, d = x − y) overlap in an open interval.

For each of the four movement axes, the numbers `mergeSlot` computes are exactly the set of positions along that axis at
which the two octaboxes overlap (`axis*_overlap_iff`).
-/
set_option linter.unusedSimpArgs false
set_option linter.unusedVariables false
namespace GrVerif.Collider
open GrVerif.Zones GrVerif.Props.C17

def OverlapQ (t b : Box) (px py : Rat) (sx sy : Int) : Prop :=
  (t.xi : Rat) + px < b.xa + sx ∧ (b.xi : Rat) + sx < t.xa + px ∧
  (t.yi : Rat) + py < b.ya + sy ∧ (b.yi : Rat) + sy < t.ya + py ∧
  (t.si : Rat) + (px + py) < b.sa + (sx + sy) ∧ (b.si : Rat) + (sx + sy) < t.sa + (px + py) ∧
  (t.di : Rat) + (px - py) < b.da + (sx - sy) ∧ (b.di : Rat) + (sx - sy) < t.da + (px - py)

theorem max3_lt (a b c : Int) (v : Rat) : ((max (max a b) c : Int) : Rat) < v ↔ (a : Rat) < v ∧ (b : Rat) < v ∧ (c : Rat) < v := by
  have h : max (max a b) c = a ∨ max (max a b) c = b ∨ max (max a b) c = c := by omega
  have h1 : a ≤ max (max a b) c := by omega
  have h2 : b ≤ max (max a b) c := by omega
  have h3 : c ≤ max (max a b) c := by omega
  have q1 := intCast_le _ _ h1
  have q2 := intCast_le _ _ h2
  have q3 := intCast_le _ _ h3
  constructor
  · intro hv; exact ⟨by grind, by grind, by grind⟩
  · intro ⟨ha, hb, hc⟩
    rcases h with h | h | h <;> rw [h] <;> assumption

theorem lt_min3 (a b c : Int) (v : Rat) : v < ((min (min a b) c : Int) : Rat) ↔ v < (a : Rat) ∧ v < (b : Rat) ∧ v < (c : Rat) := by
  have h : min (min a b) c = a ∨ min (min a b) c = b ∨ min (min a b) c = c := by omega
  have h1 : min (min a b) c ≤ a := by omega
  have h2 : min (min a b) c ≤ b := by omega
  have h3 : min (min a b) c ≤ c := by omega
  have q1 := intCast_le _ _ h1
  have q2 := intCast_le _ _ h2
  have q3 := intCast_le _ _ h3
  constructor
  · intro hv; exact ⟨by grind, by grind, by grind⟩
  · intro ⟨ha, hb, hc⟩
    rcases h with h | h | h <;> rw [h] <;> assumption

/-- what `mergeSlot`'s numbers for an axis say about a position `v` on that axis -/
def Hits (d : AxisData) (v : Rat) : Prop :=
  (d.vmin : Rat) < v ∧ v < (d.vmax : Rat) ∧ (d.omin : Rat) < (d.otmax : Rat) ∧ (d.otmin : Rat) < (d.omax : Rat)

/-- the target's position (relative to its anchor) when it sits at `v` on axis `i`, the other coordinate being that of
its current position `(tx, ty)` -/
def posOn (i : Nat) (tx ty : Int) (v : Rat) : Rat × Rat :=
  match i with
  | 0 => (v, ty)
  | 1 => (tx, v)
  | 2 => ((v + (tx - ty : Int)) / 2, (v - (tx - ty : Int)) / 2)
  | _ => (((tx + ty : Int) + v) / 2, ((tx + ty : Int) - v) / 2)

macro "geom" : tactic => `(tactic|
  (unfold Hits axisData OverlapQ posOn
   simp only []
   rw [max3_lt, lt_min3]
   simp only [Rat.intCast_add, Rat.intCast_sub, Rat.intCast_mul, Rat.intCast_neg, Rat.intCast_ofNat]
   constructor
   · intro h; refine ⟨⟨?_, ?_, ?_⟩, ⟨?_, ?_, ?_⟩, ?_, ?_⟩ <;> grind
   · intro h; refine ⟨?_, ?_, ?_, ?_, ?_, ?_, ?_, ?_⟩ <;> grind))

/-- moving along x: the target at `(v, ty)` overlaps the neighbour exactly for `vmin < v < vmax`, provided the y
projections overlap -/
theorem axis0_overlap_iff (t b : Box) (sx sy tx ty : Int) (v : Rat) :
    OverlapQ t b (posOn 0 tx ty v).1 (posOn 0 tx ty v).2 sx sy ↔ Hits (axisData 0 t b sx sy tx ty) v := by geom

/-- moving along y -/
theorem axis1_overlap_iff (t b : Box) (sx sy tx ty : Int) (v : Rat) :
    OverlapQ t b (posOn 1 tx ty v).1 (posOn 1 tx ty v).2 sx sy ↔ Hits (axisData 1 t b sx sy tx ty) v := by geom

/-- moving along the positively sloped diagonal (`v` is the target's `x + y`, its `x − y` stays) -/
theorem axis2_overlap_iff (t b : Box) (sx sy tx ty : Int) (v : Rat) :
    OverlapQ t b (posOn 2 tx ty v).1 (posOn 2 tx ty v).2 sx sy ↔ Hits (axisData 2 t b sx sy tx ty) v := by geom

/-- moving along the negatively sloped diagonal (`v` is the target's `x − y`, its `x + y` stays) -/
theorem axis3_overlap_iff (t b : Box) (sx sy tx ty : Int) (v : Rat) :
    OverlapQ t b (posOn 3 tx ty v).1 (posOn 3 tx ty v).2 sx sy ↔ Hits (axisData 3 t b sx sy tx ty) v := by geom

/-! ## from the numbers to the interval sets -/

theorem cast_lt {a b : Int} (h : (a : Rat) < (b : Rat)) : a < b := by exact_mod_cast h
theorem cast_lt' {a b : Int} (h : a < b) : (a : Rat) < (b : Rat) := by exact_mod_cast h

/-- once a box's operations have been applied to an axis' interval set – whatever was done to the set before and whatever
is done afterwards – `closest` offers no position at which the box overlaps the target -/
theorem boxOps_sound (i : Nat) (d : AxisData) (lm ml mwt : Int) (z : Zones) (hz : ZInv z) (more : List Op) (origin : Int) (c p : Rat)
    (h : ((boxOps i d lm ml mwt ++ more).foldl Zones.step z).closestBest origin = some (c, p)) : ¬ Hits d p := by
  intro ⟨h1, h2, h3, h4⟩
  unfold boxOps at h
  split at h
  · rename_i hc
    have := cast_lt h3; omega
  · split at h
    · rename_i hc
      have := cast_lt h4; omega
    · unfold excludeWithMargins at h
      simp only [List.cons_append, List.foldl_cons, List.nil_append] at h
      have hvv : d.vmin < d.vmax := cast_lt (by grind)
      have h0 : Avoids d.vmin d.vmax (Zones.step z (.exclude d.vmin d.vmax)).excl := remove_avoids_any z hz _ _ hvv
      have hz0 : ZInv (Zones.step z (.exclude d.vmin d.vmax)) := remove_inv z _ _ hz
      have hz1 := insert_inv _ (weightedAxis i (d.vmin - ml) d.vmin 0 0 mwt (d.vmin - ml) 0 0 false) hz0
      have h1' := step_avoids d.vmin d.vmax _ hz0 h0 (.weighted (weightedAxis i (d.vmin - ml) d.vmin 0 0 mwt (d.vmin - ml) 0 0 false))
      have hz2 := insert_inv _ (weightedAxis i d.vmax (d.vmax + ml) 0 0 mwt (d.vmax + ml) 0 0 false) hz1
      have h2' := step_avoids d.vmin d.vmax _ hz1 h1' (.weighted (weightedAxis i d.vmax (d.vmax + ml) 0 0 mwt (d.vmax + ml) 0 0 false))
      obtain ⟨hzf, haf⟩ := steps_keep d.vmin d.vmax more _ hz2 h2'
      exact offered_not_inside _ hzf _ _ haf origin c p h ⟨h1, h2⟩

/-- a rejected box cannot overlap the target at any position inside the axis' bounds -/
theorem rejects_sound (d : AxisData) (cl : Int × Int) (lm : Int) (hlm : 0 ≤ lm) (hr : rejects d cl lm = true) (p : Rat)
    (hlo : ((cl.1 - lm : Int) : Rat) ≤ p) (hhi : p ≤ ((cl.2 + lm : Int) : Rat)) : ¬ Hits d p := by
  intro ⟨h1, h2, h3, h4⟩
  unfold rejects at hr
  simp only [Bool.or_eq_true, decide_eq_true_eq] at hr
  rcases hr with ((hr | hr) | hr) | hr
  · have := cast_lt' hr; grind
  · have := cast_lt' hr; grind
  · have := cast_lt h4; omega
  · have := cast_lt h3; omega

/-- the neighbour's shape meets the target at position `p` of axis `i`: its bounding octabox does and, when it has
sub-boxes, one of them does -/
def ShapeHits (i : Nat) (c : Params) (g : Glyph) (sx sy : Int) (p : Rat) : Prop :=
  Hits (axisData i c.tbox g.box sx sy (c.offx + c.shx) (c.offy + c.shy)) p ∧
  (g.subs = [] ∨ ∃ sb ∈ g.subs, Hits (axisData i c.tbox sb sx sy (c.offx + c.shx) (c.offy + c.shy)) p)

/-- **one neighbour, one axis.** After the operations `mergeSlot` derives from a neighbour glyph have been applied to an
axis' interval set (any well-formed set whose bounds lie within the target's limits along that axis), and whatever
operations follow, `closest` offers no position at which the neighbour's shape overlaps the target. -/
theorem axisOps_sound (i : Nat) (c : Params) (g : Glyph) (sx sy : Int) (z : Zones) (hz : ZInv z) (more : List Op)
    (origin : Int) (cost p : Rat) (hlm : 0 ≤ c.lmargin i)
    (hb1 : (climits i c).1 - c.lmargin i ≤ z.pos) (hb2 : z.posm ≤ (climits i c).2 + c.lmargin i)
    (h : (((axisOps i c g sx sy).1 ++ more).foldl Zones.step z).closestBest origin = some (cost, p)) :
    ¬ ShapeHits i c g sx sy p := by
  intro ⟨hm, hs⟩
  -- the offered position lies inside the set's bounds
  have hzf : ZInv (((axisOps i c g sx sy).1 ++ more).foldl Zones.step z) := steps_inv _ _ hz
  have hbd := offered_in_bounds _ hzf origin cost p h
  have hsb := steps_bounds ((axisOps i c g sx sy).1 ++ more) z
  rw [hsb.1, hsb.2] at hbd
  have hlo : (((climits i c).1 - c.lmargin i : Int) : Rat) ≤ p := by have := intCast_le _ _ hb1; grind
  have hhi : p ≤ (((climits i c).2 + c.lmargin i : Int) : Rat) := by have := intCast_le _ _ hb2; grind
  unfold axisOps at h
  simp only [] at h
  split at h
  · rename_i hr
    exact rejects_sound _ _ _ hlm hr p hlo hhi hm
  · split at h
    · exact boxOps_sound i _ _ _ _ z hz more origin cost p h hm
    · rename_i hne
      rcases hs with hs | ⟨sb, hsb', hh⟩
      · rw [hs] at hne; exact hne rfl
      · by_cases hr : rejects (axisData i c.tbox sb sx sy (c.offx + c.shx) (c.offy + c.shy)) (climits i c) (c.lmargin i) = true
        · exact rejects_sound _ _ _ hlm hr p hlo hhi hh
        · -- the sub-box's operations are a block of the list
          have hmem : boxOps i (axisData i c.tbox sb sx sy (c.offx + c.shx) (c.offy + c.shy)) (c.lmargin i) (c.lmargin i) c.marginWt ∈
              g.subs.filterMap (fun sb =>
                if rejects (axisData i c.tbox sb sx sy (c.offx + c.shx) (c.offy + c.shy)) (climits i c) (c.lmargin i) = true then none
                else some (boxOps i (axisData i c.tbox sb sx sy (c.offx + c.shx) (c.offy + c.shy)) (c.lmargin i) (c.lmargin i) c.marginWt)) := by
            apply List.mem_filterMap.mpr
            exact ⟨sb, hsb', by simp [hr]⟩
          obtain ⟨l1, l2, hl⟩ := List.append_of_mem hmem
          rw [hl] at h
          simp only [List.flatten_append, List.flatten_cons, List.append_assoc, List.foldl_append] at h
          have hz1 : ZInv (l1.flatten.foldl Zones.step z) := steps_inv _ _ hz
          rw [← List.foldl_append, ← List.foldl_append] at h
          exact boxOps_sound i _ _ _ _ _ hz1 (l2.flatten ++ more) origin cost p (by simpa [List.foldl_append] using h) hh

/-! ## the collider as a whole: `initSlot`, any number of `mergeSlot`s, `resolve` -/

/-- a neighbour: glyph and the offset of its (shifted) origin from the target's anchor -/
abbrev Nbor := Glyph × Int × Int

/-- all the `mergeSlot` calls of `Pass::resolveCollisions` -/
def mergeAll (c : Coll) (nbs : List Nbor) : Coll := nbs.foldl (fun c nb => (mergeSlot c nb.1 nb.2.1 nb.2.2).1) c

/-- the operations the neighbours cause on axis `i`, in order -/
def allOps (i : Nat) (p : Params) (nbs : List Nbor) : List Op :=
  (nbs.map fun nb => if inReach p nb.1.box nb.2.1 nb.2.2 then (axisOps i p nb.1 nb.2.1 nb.2.2).1 else []).flatten

theorem mergeSlot_p (c : Coll) (g : Glyph) (sx sy : Int) : (mergeSlot c g sx sy).1.p = c.p := by
  unfold mergeSlot; split <;> rfl

theorem mergeSlot_range (c : Coll) (g : Glyph) (sx sy : Int) (i : Nat) :
    (mergeSlot c g sx sy).1.range i =
      (if inReach c.p g.box sx sy then (axisOps i c.p g sx sy).1 else []).foldl Zones.step (c.range i) := by
  unfold mergeSlot
  by_cases h : inReach c.p g.box sx sy = true
  · simp only [h, not_true_eq_false, if_false, if_true]
    match i with
    | 0 => rfl
    | 1 => rfl
    | 2 => rfl
    | (n + 3) =>
      cases n with
      | zero => rfl
      | succ m =>
        -- axes beyond 3 do not exist: `range` and `axisOps` both treat them as axis 3
        simp only [Coll.range]
        have : axisOps (m + 1 + 3) c.p g sx sy = axisOps 3 c.p g sx sy := by
          unfold axisOps Params.lmargin climits axisData boxOps excludeWithMargins weightedAxis
          simp only []
          have : ¬ (m + 1 + 3 < 2) := by omega
          simp [this]
        rw [this]
  · simp only [h, if_true, if_false, List.foldl_nil]
    simp

theorem mergeAll_spec (i : Nat) : ∀ (nbs : List Nbor) (c : Coll),
    (mergeAll c nbs).p = c.p ∧ (mergeAll c nbs).range i = (allOps i c.p nbs).foldl Zones.step (c.range i) := by
  intro nbs
  induction nbs with
  | nil => intro c; exact ⟨rfl, rfl⟩
  | cons nb rest ih =>
    intro c
    unfold mergeAll allOps
    simp only [List.foldl_cons, List.map_cons, List.flatten_cons, List.foldl_append]
    have := ih (mergeSlot c nb.1 nb.2.1 nb.2.2).1
    unfold mergeAll allOps at this
    rw [this.1, this.2, mergeSlot_p, mergeSlot_range]
    exact ⟨rfl, rfl⟩

theorem axis_overlap_iff (i : Nat) (hi : i < 4) (t b : Box) (sx sy tx ty : Int) (v : Rat) :
    OverlapQ t b (posOn i tx ty v).1 (posOn i tx ty v).2 sx sy ↔ Hits (axisData i t b sx sy tx ty) v := by
  match i, hi with
  | 0, _ => exact axis0_overlap_iff t b sx sy tx ty v
  | 1, _ => exact axis1_overlap_iff t b sx sy tx ty v
  | 2, _ => exact axis2_overlap_iff t b sx sy tx ty v
  | 3, _ => exact axis3_overlap_iff t b sx sy tx ty v

/-- the neighbour's shape – its sub-boxes cut to its bounding octabox, or the bounding octabox when it has none – placed
at `(sx, sy)` overlaps the target octabox placed at `(px, py)` -/
def ShapeOverlap (t : Box) (g : Glyph) (px py : Rat) (sx sy : Int) : Prop :=
  OverlapQ t g.box px py sx sy ∧ (g.subs = [] ∨ ∃ sb ∈ g.subs, OverlapQ t sb px py sx sy)

theorem shapeHits_iff (i : Nat) (hi : i < 4) (c : Params) (g : Glyph) (sx sy : Int) (v : Rat) :
    ShapeOverlap c.tbox g (posOn i (c.offx + c.shx) (c.offy + c.shy) v).1 (posOn i (c.offx + c.shx) (c.offy + c.shy) v).2 sx sy ↔
      ShapeHits i c g sx sy v := by
  unfold ShapeOverlap ShapeHits
  rw [axis_overlap_iff i hi]
  constructor
  · rintro ⟨h1, h2⟩
    refine ⟨h1, ?_⟩
    rcases h2 with h2 | ⟨sb, hs, h2⟩
    · exact .inl h2
    · exact .inr ⟨sb, hs, (axis_overlap_iff i hi _ _ _ _ _ _ _).mp h2⟩
  · rintro ⟨h1, h2⟩
    refine ⟨h1, ?_⟩
    rcases h2 with h2 | ⟨sb, hs, h2⟩
    · exact .inl h2
    · exact .inr ⟨sb, hs, (axis_overlap_iff i hi _ _ _ _ _ _ _).mpr h2⟩

/-- what the theorems assume about the call of `initSlot`: a right-to-left run, or a left-to-right run with an
x-symmetric limit (for left-to-right runs the code replaces `_limit.bl.x` by the mirrored right bound); non-negative
margins; a target box whose bounds are in order -/
structure Setup (tbox : Box) (limit : Rect) (margin dmargin : Int) (dir : Nat) : Prop where
  rtl : dir % 2 = 1 ∨ limit.blx = -limit.trx
  margin : 0 ≤ margin
  dmargin : 0 ≤ dmargin
  bx : tbox.xi ≤ tbox.xa
  by_ : tbox.yi ≤ tbox.ya
  bs : tbox.si ≤ tbox.sa
  bd : tbox.di ≤ tbox.da

@[simp] theorem weightedAxis_x (i : Nat) (a b : Int) (f a0 m xi ai c : Rat) (n : Bool) : (weightedAxis i a b f a0 m xi ai c n).x = a := by
  unfold weightedAxis; split <;> rfl
@[simp] theorem weightedAxis_xm (i : Nat) (a b : Int) (f a0 m xi ai c : Rat) (n : Bool) : (weightedAxis i a b f a0 m xi ai c n).xm = b := by
  unfold weightedAxis; split <;> rfl

theorem initSlot_range (i : Nat) (hi : i < 4) (tbox : Box) (limit : Rect) (margin dmargin mwt shx shy offx offy : Int) (dir : Nat) :
    (initSlot tbox limit margin dmargin mwt shx shy offx offy dir).range i = initRange i limit shx shy offx offy := by
  match i, hi with
  | 0, _ => rfl
  | 1, _ => rfl
  | 2, _ => rfl
  | 3, _ => rfl

/-- the interval set of an axis with room is well formed, and its bounds lie within the limits `mergeSlot` tests against -/
theorem initRange_spec (i : Nat) (hi : i < 4) (tbox : Box) (limit : Rect) (margin dmargin mwt shx shy offx offy : Int) (dir : Nat)
    (hs : Setup tbox limit margin dmargin dir)
    (hroom : (initRange i limit shx shy offx offy).pos < (initRange i limit shx shy offx offy).posm) :
    ZInv (initRange i limit shx shy offx offy) ∧
    0 ≤ (initSlot tbox limit margin dmargin mwt shx shy offx offy dir).p.lmargin i ∧
    (climits i (initSlot tbox limit margin dmargin mwt shx shy offx offy dir).p).1 -
        (initSlot tbox limit margin dmargin mwt shx shy offx offy dir).p.lmargin i ≤ (initRange i limit shx shy offx offy).pos ∧
    (initRange i limit shx shy offx offy).posm ≤ (climits i (initSlot tbox limit margin dmargin mwt shx shy offx offy dir).p).2 +
        (initSlot tbox limit margin dmargin mwt shx shy offx offy dir).p.lmargin i := by
  have hm := hs.margin; have hd := hs.dmargin
  have b1 := hs.bx; have b2 := hs.by_; have b3 := hs.bs; have b4 := hs.bd
  have hr := hs.rtl
  refine ⟨?_, ?_, ?_, ?_⟩
  · unfold ZInv
    unfold initRange initZone at hroom ⊢
    simp only [] at hroom ⊢
    unfold Props.C17.Inv
    simp only [weightedAxis_x, weightedAxis_xm]
    exact ⟨Int.le_refl _, hroom, Int.le_refl _, trivial⟩
  · unfold initSlot Params.lmargin; simp only []; split <;> assumption
  · match i, hi with
    | 0, _ => unfold initSlot Params.lmargin climits initRange initZone initAxis; simp only []; split <;> simp <;> omega
    | 1, _ => unfold initSlot Params.lmargin climits initRange initZone initAxis; simp only []; split <;> simp <;> omega
    | 2, _ => unfold initSlot Params.lmargin climits initRange initZone initAxis; simp only []; split <;> simp <;> omega
    | 3, _ => unfold initSlot Params.lmargin climits initRange initZone initAxis; simp only []; split <;> simp <;> omega
  · match i, hi with
    | 0, _ => unfold initSlot Params.lmargin climits initRange initZone initAxis; simp only []; split <;> simp <;> omega
    | 1, _ => unfold initSlot Params.lmargin climits initRange initZone initAxis; simp only []; split <;> simp <;> omega
    | 2, _ => unfold initSlot Params.lmargin climits initRange initZone initAxis; simp only []; split <;> simp <;> omega
    | 3, _ => unfold initSlot Params.lmargin climits initRange initZone initAxis; simp only []; split <;> simp <;> omega

/-- the operations of a neighbour in reach form a block of the operations of all neighbours -/
theorem allOps_split (i : Nat) (p : Params) (nbs : List Nbor) (nb : Nbor) (hn : nb ∈ nbs) (hr : inReach p nb.1.box nb.2.1 nb.2.2 = true) :
    ∃ pre post, allOps i p nbs = pre ++ (axisOps i p nb.1 nb.2.1 nb.2.2).1 ++ post := by
  obtain ⟨l1, l2, hl⟩ := List.append_of_mem hn
  refine ⟨allOps i p l1, allOps i p l2, ?_⟩
  unfold allOps
  rw [hl]
  simp only [List.map_append, List.map_cons, List.flatten_append, List.flatten_cons, hr, if_true, List.append_assoc]

/-- **C17, the "resolved" verdict, one axis.** Set the collider up for a target (`initSlot`), merge any neighbours
(`mergeSlot`, in any number and order): a position that `closest` then offers on axis `i` is one at which the target –
moved there along that axis – overlaps none of the merged neighbours that are within reach of its limit rectangle. -/
theorem offered_position_is_free (i : Nat) (hi : i < 4) (tbox : Box) (limit : Rect) (margin dmargin mwt shx shy offx offy : Int)
    (dir : Nat) (hs : Setup tbox limit margin dmargin dir)
    (hroom : (initRange i limit shx shy offx offy).pos < (initRange i limit shx shy offx offy).posm)
    (nbs : List Nbor) (origin : Int) (cost v : Rat)
    (h : ((mergeAll (initSlot tbox limit margin dmargin mwt shx shy offx offy dir) nbs).range i).closestBest origin = some (cost, v))
    (nb : Nbor) (hn : nb ∈ nbs)
    (hr : inReach (initSlot tbox limit margin dmargin mwt shx shy offx offy dir).p nb.1.box nb.2.1 nb.2.2 = true) :
    ¬ ShapeOverlap tbox nb.1 (posOn i (offx + shx) (offy + shy) v).1 (posOn i (offx + shx) (offy + shy) v).2 nb.2.1 nb.2.2 := by
  obtain ⟨hz, hlm, hb1, hb2⟩ := initRange_spec i hi tbox limit margin dmargin mwt shx shy offx offy dir hs hroom
  have hm := mergeAll_spec i nbs (initSlot tbox limit margin dmargin mwt shx shy offx offy dir)
  rw [hm.2, initSlot_range i hi] at h
  obtain ⟨pre, post, hsp⟩ := allOps_split i _ nbs nb hn hr
  rw [hsp] at h
  simp only [List.foldl_append] at h
  have hz1 : ZInv (pre.foldl Zones.step (initRange i limit shx shy offx offy)) := steps_inv _ _ hz
  have hb := steps_bounds pre (initRange i limit shx shy offx offy)
  have key := axisOps_sound i (initSlot tbox limit margin dmargin mwt shx shy offx offy dir).p nb.1 nb.2.1 nb.2.2 _ hz1 post
    origin cost v hlm (by rw [hb.1]; exact hb1) (by rw [hb.2]; exact hb2) (by simpa [List.foldl_append] using h)
  intro ho
  exact key ((shapeHits_iff i hi (initSlot tbox limit margin dmargin mwt shx shy offx offy dir).p nb.1 nb.2.1 nb.2.2 v).mp ho)

/-! ### `resolve` -/

theorem closest_some (z : Zones) (origin : Int) (h : (z.closest origin).2 ≥ 0) :
    z.closestBest origin = some ((z.closest origin).2, (z.closest origin).1) := by
  unfold Zones.closest at h ⊢
  split at h
  · simp at h
    exact absurd h (by decide)
  · rename_i c p heq
    simp only [heq]

/-- the loop invariant of `resolve`: nothing accepted yet (`isCol` still set, `totalCost` still the initial one), or the
result is the shift for a position that `closest` offered on one of the axes -/
def ResInv (c : Coll) (acc : (Rat × Rat) × Bool × Option Rat) : Prop :=
  (acc.2.1 = true ∧ acc.2.2 = none) ∨
  (acc.2.1 = false ∧ ∃ j, j < 4 ∧ ∃ cost v, (c.range j).closestBest 0 = some (cost, v) ∧ 0 ≤ cost ∧ acc.1 = shiftOn c.p j v)

theorem resolveStep_inv (c : Coll) (acc : (Rat × Rat) × Bool × Option Rat) (i : Nat) (hi : i < 4) (h : ResInv c acc) :
    ResInv c (resolveStep c acc i) := by
  unfold resolveStep
  simp only []
  by_cases hge : ((c.range i).closest 0).2 ≥ 0
  · have hcs := closest_some (c.range i) 0 hge
    simp only [hge, if_true]
    cases hq : acc.2.2 with
    | none =>
      simp only [if_true]
      exact .inr ⟨rfl, i, hi, _, _, hcs, hge, rfl⟩
    | some t =>
      simp only []
      split
      · exact .inr ⟨rfl, i, hi, _, _, hcs, hge, rfl⟩
      · rcases h with ⟨_, h2⟩ | ⟨_, h2⟩
        · rw [hq] at h2; cases h2
        · exact .inr ⟨rfl, h2⟩
  · simp only [hge, if_false]
    exact h

/-- what `resolve` answers: still colliding, or the shift for a position that `closest` offered on one of the axes -/
theorem resolve_spec (c : Coll) (x y : Rat) (h : resolve c = (x, y, false)) :
    ∃ i, i < 4 ∧ ∃ cost v, (c.range i).closestBest 0 = some (cost, v) ∧ 0 ≤ cost ∧ (x, y) = shiftOn c.p i v := by
  unfold resolve at h
  simp only [List.foldl_cons, List.foldl_nil] at h
  have h0 : ResInv c (((0 : Rat), (0 : Rat)), true, none) := .inl ⟨rfl, rfl⟩
  have h1 := resolveStep_inv c _ 0 (by omega) h0
  have h2 := resolveStep_inv c _ 1 (by omega) h1
  have h3 := resolveStep_inv c _ 2 (by omega) h2
  have h4 := resolveStep_inv c _ 3 (by omega) h3
  revert h h4
  generalize resolveStep c (resolveStep c (resolveStep c (resolveStep c (((0 : Rat), (0 : Rat)), true, none) 0) 1) 2) 3 = r
  intro h h4
  simp only [Prod.mk.injEq] at h
  rcases h4 with ⟨ht, _⟩ | ⟨_, j, hj, cost, v, hc, hge, he⟩
  · rw [h.2.2] at ht; cases ht
  · refine ⟨j, hj, cost, v, hc, hge, ?_⟩
    rw [← he, ← h.1, ← h.2.1]

theorem mergeAll_p (c : Coll) (nbs : List Nbor) : (mergeAll c nbs).p = c.p := (mergeAll_spec 0 nbs c).1

/-- the shift `resolve` reports for position `v` of axis `i` puts the target at `posOn i … v` -/
theorem shiftOn_posOn (i : Nat) (hi : i < 4) (p : Params) (v : Rat) :
    ((p.offx : Rat) + (shiftOn p i v).1, (p.offy : Rat) + (shiftOn p i v).2) = posOn i (p.offx + p.shx) (p.offy + p.shy) v := by
  match i, hi with
  | 0, _ => unfold shiftOn posOn; simp only [Rat.intCast_add, Prod.mk.injEq]; constructor <;> grind
  | 1, _ => unfold shiftOn posOn; simp only [Rat.intCast_add, Prod.mk.injEq]; constructor <;> grind
  | 2, _ => unfold shiftOn posOn; simp only [Rat.intCast_add, Rat.intCast_sub, Prod.mk.injEq]; constructor <;> grind
  | 3, _ => unfold shiftOn posOn; simp only [Rat.intCast_add, Rat.intCast_sub, Prod.mk.injEq]; constructor <;> grind

/-- every axis has room to move: its interval set was initialised with a non-empty range -/
def Room (limit : Rect) (shx shy offx offy : Int) : Prop :=
  ∀ i, i < 4 → (initRange i limit shx shy offx offy).pos < (initRange i limit shx shy offx offy).posm

/-- **C17, second sentence.** Whenever the fixer reports a glyph as resolved – `resolve` clears `isCol` after any
sequence of `mergeSlot` calls – the glyph's bounding octabox at its shifted position overlaps the octabox (the
sub-octaboxes, for a glyph that has them) of no merged neighbour within reach of its limit rectangle. -/
theorem resolved_means_no_overlap (tbox : Box) (limit : Rect) (margin dmargin mwt shx shy offx offy : Int) (dir : Nat)
    (hs : Setup tbox limit margin dmargin dir) (hroom : Room limit shx shy offx offy) (nbs : List Nbor) (x y : Rat)
    (h : resolve (mergeAll (initSlot tbox limit margin dmargin mwt shx shy offx offy dir) nbs) = (x, y, false))
    (nb : Nbor) (hn : nb ∈ nbs)
    (hr : inReach (initSlot tbox limit margin dmargin mwt shx shy offx offy dir).p nb.1.box nb.2.1 nb.2.2 = true) :
    ¬ ShapeOverlap tbox nb.1 ((offx : Rat) + x) ((offy : Rat) + y) nb.2.1 nb.2.2 := by
  obtain ⟨i, hi, cost, v, hc, _, hxy⟩ := resolve_spec _ x y h
  have key := offered_position_is_free i hi tbox limit margin dmargin mwt shx shy offx offy dir hs (hroom i hi) nbs 0 cost v hc nb hn hr
  have hp := shiftOn_posOn i hi (mergeAll (initSlot tbox limit margin dmargin mwt shx shy offx offy dir) nbs).p v
  rw [mergeAll_p] at hp hxy
  have e1 : x = (shiftOn (initSlot tbox limit margin dmargin mwt shx shy offx offy dir).p i v).1 := by rw [← hxy]
  have e2 : y = (shiftOn (initSlot tbox limit margin dmargin mwt shx shy offx offy dir).p i v).2 := by rw [← hxy]
  have hp1 := congrArg Prod.fst hp
  have hp2 := congrArg Prod.snd hp
  simp only [] at hp1 hp2
  have f1 : (offx : Rat) + x = (posOn i (offx + shx) (offy + shy) v).1 := by rw [e1]; exact hp1
  have f2 : (offy : Rat) + y = (posOn i (offx + shx) (offy + shy) v).2 := by rw [e2]; exact hp2
  rw [f1, f2]
  exact key

/-- **C17, first sentence.** The shift `resolve` computes keeps the glyph's accumulated collision offset inside the limit
rectangle: `offset + shift` lies in `limit` (the coordinate an axis does not move is the current one, assumed inside). -/
theorem resolved_within_limit (tbox : Box) (limit : Rect) (margin dmargin mwt shx shy offx offy : Int) (dir : Nat)
    (hroom : Room limit shx shy offx offy) (nbs : List Nbor) (x y : Rat)
    (hcur : limit.blx ≤ offx + shx ∧ offx + shx ≤ limit.trx ∧ limit.bly ≤ offy + shy ∧ offy + shy ≤ limit.try_)
    (h : resolve (mergeAll (initSlot tbox limit margin dmargin mwt shx shy offx offy dir) nbs) = (x, y, false)) :
    (limit.blx : Rat) ≤ offx + x ∧ (offx : Rat) + x ≤ limit.trx ∧ (limit.bly : Rat) ≤ offy + y ∧ (offy : Rat) + y ≤ limit.try_ := by
  obtain ⟨i, hi, cost, v, hc, _, hxy⟩ := resolve_spec _ x y h
  have hm := mergeAll_spec i nbs (initSlot tbox limit margin dmargin mwt shx shy offx offy dir)
  rw [hm.2, initSlot_range i hi] at hc
  have hz : ZInv (initRange i limit shx shy offx offy) := by
    have hr := hroom i hi
    unfold ZInv
    unfold initRange initZone at hr ⊢
    simp only [] at hr ⊢
    unfold Props.C17.Inv
    simp only [weightedAxis_x, weightedAxis_xm]
    exact ⟨Int.le_refl _, hr, Int.le_refl _, trivial⟩
  have hzf := steps_inv (allOps i (initSlot tbox limit margin dmargin mwt shx shy offx offy dir).p nbs) _ hz
  have hb := offered_in_bounds _ hzf 0 cost v hc
  have hsb := steps_bounds (allOps i (initSlot tbox limit margin dmargin mwt shx shy offx offy dir).p nbs) (initRange i limit shx shy offx offy)
  rw [hsb.1, hsb.2] at hb
  rw [mergeAll_p] at hxy
  have e1 : x = (shiftOn (initSlot tbox limit margin dmargin mwt shx shy offx offy dir).p i v).1 := by rw [← hxy]
  have e2 : y = (shiftOn (initSlot tbox limit margin dmargin mwt shx shy offx offy dir).p i v).2 := by rw [← hxy]
  obtain ⟨c1, c2, c3, c4⟩ := hcur
  have q1 := intCast_le _ _ c1; have q2 := intCast_le _ _ c2; have q3 := intCast_le _ _ c3; have q4 := intCast_le _ _ c4
  simp only [Rat.intCast_add] at q1 q2 q3 q4
  match i, hi with
  | 0, _ =>
    have hp : (initRange 0 limit shx shy offx offy).pos = limit.blx := by unfold initRange initZone initAxis; simp only []; omega
    have hq : (initRange 0 limit shx shy offx offy).posm = limit.trx := by unfold initRange initZone initAxis; simp only []; omega
    rw [hp, hq] at hb
    rw [e1, e2]; unfold shiftOn initSlot; simp only []
    refine ⟨?_, ?_, ?_, ?_⟩ <;> grind
  | 1, _ =>
    have hp : (initRange 1 limit shx shy offx offy).pos = limit.bly := by unfold initRange initZone initAxis; simp only []; omega
    have hq : (initRange 1 limit shx shy offx offy).posm = limit.try_ := by unfold initRange initZone initAxis; simp only []; omega
    rw [hp, hq] at hb
    rw [e1, e2]; unfold shiftOn initSlot; simp only []
    refine ⟨?_, ?_, ?_, ?_⟩ <;> grind
  | 2, _ =>
    have hp1 : 2 * limit.blx - ((offx + shx) - (offy + shy)) ≤ (initRange 2 limit shx shy offx offy).pos := by
      unfold initRange initZone initAxis; simp only []; omega
    have hp2 : 2 * limit.bly + ((offx + shx) - (offy + shy)) ≤ (initRange 2 limit shx shy offx offy).pos := by
      unfold initRange initZone initAxis; simp only []; omega
    have hq1 : (initRange 2 limit shx shy offx offy).posm ≤ 2 * limit.trx - ((offx + shx) - (offy + shy)) := by
      unfold initRange initZone initAxis; simp only []; omega
    have hq2 : (initRange 2 limit shx shy offx offy).posm ≤ 2 * limit.try_ + ((offx + shx) - (offy + shy)) := by
      unfold initRange initZone initAxis; simp only []; omega
    have r1 := intCast_le _ _ hp1; have r2 := intCast_le _ _ hp2; have r3 := intCast_le _ _ hq1; have r4 := intCast_le _ _ hq2
    simp only [Rat.intCast_add, Rat.intCast_sub, Rat.intCast_mul, Rat.intCast_ofNat] at r1 r2 r3 r4
    rw [e1, e2]; unfold shiftOn initSlot; simp only [Rat.intCast_add, Rat.intCast_sub]
    refine ⟨?_, ?_, ?_, ?_⟩ <;> grind
  | 3, _ =>
    have hp1 : 2 * limit.blx - ((offx + shx) + (offy + shy)) ≤ (initRange 3 limit shx shy offx offy).pos := by
      unfold initRange initZone initAxis; simp only []; omega
    have hp2 : ((offx + shx) + (offy + shy)) - 2 * limit.try_ ≤ (initRange 3 limit shx shy offx offy).pos := by
      unfold initRange initZone initAxis; simp only []; omega
    have hq1 : (initRange 3 limit shx shy offx offy).posm ≤ 2 * limit.trx - ((offx + shx) + (offy + shy)) := by
      unfold initRange initZone initAxis; simp only []; omega
    have hq2 : (initRange 3 limit shx shy offx offy).posm ≤ ((offx + shx) + (offy + shy)) - 2 * limit.bly := by
      unfold initRange initZone initAxis; simp only []; omega
    have r1 := intCast_le _ _ hp1; have r2 := intCast_le _ _ hp2; have r3 := intCast_le _ _ hq1; have r4 := intCast_le _ _ hq2
    simp only [Rat.intCast_add, Rat.intCast_sub, Rat.intCast_mul, Rat.intCast_ofNat] at r1 r2 r3 r4
    rw [e1, e2]; unfold shiftOn initSlot; simp only [Rat.intCast_add, Rat.intCast_sub]
    refine ⟨?_, ?_, ?_, ?_⟩ <;> grind

end GrVerif.Collider

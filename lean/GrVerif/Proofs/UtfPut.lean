import GrVerif.Proofs.UtfCount
/-! `put` followed by `get` is the identity on Unicode scalar values, in all three encodings. -/
set_option linter.unusedSimpArgs false
namespace GrVerif.Utf
open GrVerif.Spec.Utf

theorem and3F (x : Nat) : x &&& 0x3F = x % 64 := Bits.and_low x 6
theorem and3FF (x : Nat) : x &&& 0x3FF = x % 1024 := Bits.and_low x 10

theorem put8_arith (u : Nat) : put8 u =
    if u < 0x80 then [u]
    else if u < 0x800 then [0xC0 + u / 64, 0x80 + u % 64]
    else if u < 0x10000 then [0xE0 + u / 4096, 0x80 + (u / 64) % 64, 0x80 + u % 64]
    else [0xF0 + u / 262144, 0x80 + (u / 4096) % 64, 0x80 + (u / 64) % 64, 0x80 + u % 64] := by
  simp only [put8, and3F, Nat.shiftRight_eq_div_pow]

theorem get8_put8 (u : Nat) (hs : isScalar u) (r : Mem) :
    get8 (put8 u ++ r) = .ok (u, ((put8 u).length : Int)) := by
  unfold isScalar at hs
  rw [put8_arith]
  by_cases c1 : u < 0x80
  · simp only [c1, if_true]; exact get8_1 u r c1
  by_cases c2 : u < 0x800
  · simp only [c1, c2, if_true, if_false]
    have := get8_2 (0xC0 + u / 64) (0x80 + u % 64) r (by omega) (by omega)
    simp only [List.cons_append, List.nil_append, List.length_cons, List.length_nil]
    rw [this]; simp; omega
  by_cases c3 : u < 0x10000
  · simp only [c1, c2, c3, if_true, if_false]
    have := get8_3 (0xE0 + u / 4096) (0x80 + (u / 64) % 64) (0x80 + u % 64) r (by omega)
      (by split <;> split <;> omega) (by omega)
    simp only [List.cons_append, List.nil_append, List.length_cons, List.length_nil]
    rw [this]; simp; omega
  · simp only [c1, c2, c3, if_false]
    have := get8_4 (0xF0 + u / 262144) (0x80 + (u / 4096) % 64) (0x80 + (u / 64) % 64) (0x80 + u % 64) r (by omega)
      (by split <;> split <;> omega) (by omega) (by omega)
    simp only [List.cons_append, List.nil_append, List.length_cons, List.length_nil]
    rw [this]; simp; omega

theorem get16_put16 (u : Nat) (hs : isScalar u) (r : Mem) :
    get16 (put16 u ++ r) = .ok (u, ((put16 u).length : Int)) := by
  unfold isScalar at hs
  unfold put16
  by_cases c1 : u < 0x10000
  · have : u % 2^16 = u := Nat.mod_eq_of_lt (by omega)
    simp only [c1, if_true, this, List.cons_append, List.nil_append, get16]
    have : u < 55296 ∨ u > 57343 := by omega
    simp [this]
  · simp only [c1, if_false, and3FF, Nat.shiftRight_eq_div_pow, Gen.leadOffset, List.cons_append, List.nil_append, get16]
    have e1 : ((55232 : Int) + ((u / 2 ^ 10 : Nat) : Int)).toNat % 2 ^ 16 = 55232 + u / 1024 := by omega
    have e2 : (56320 + u % 1024) % 2 ^ 16 = 56320 + u % 1024 := by omega
    rw [e1, e2]
    have a1 : ¬ (55232 + u / 1024 < 55296 ∨ 55232 + u / 1024 > 57343) := by omega
    have a2 : ¬ (55232 + u / 1024 > 56319) := by omega
    have a3 : ¬ (56320 + u % 1024 < 56320 ∨ 56320 + u % 1024 > 57343) := by omega
    simp only [a1, a2, a3, if_false, Gen.surrogateOffset, Nat.shiftLeft_eq]
    simp
    omega

theorem get32_put32 (u : Nat) (hs : isScalar u) (r : Mem) :
    get32 (put32 u ++ r) = .ok (u, ((put32 u).length : Int)) := by
  unfold isScalar at hs
  simp only [put32, List.cons_append, List.nil_append, get32, Gen.utf32Limit]
  have : u < 1114112 ∧ (u < 55296 ∨ u > 57343) := by omega
  simp [this]

theorem get_put (enc : Enc) (u : Nat) (hs : isScalar u) (r : Mem) :
    get enc (put enc u ++ r) = .ok (u, ((put enc u).length : Int)) := by
  cases enc
  · exact get8_put8 u hs r
  · exact get16_put16 u hs r
  · exact get32_put32 u hs r

/-- encode a scalar list -/
def encode (enc : Enc) (us : List Nat) : Mem := us.flatMap (put enc)

theorem put_length_pos (enc : Enc) (u : Nat) : 1 ≤ (put enc u).length := by
  cases enc
  · simp only [put, put8]; split <;> (try split) <;> (try split) <;> simp
  · simp only [put, put16]; split <;> simp
  · simp [put, put32]

/-- **cross-encoding**: reading the encoding of any list of non-NUL scalar values, in any of the three encodings,
yields exactly those scalars, in order (the bases are the running lengths of the encoded characters). -/
theorem readText_encode (enc : Enc) (us : List Nat) (hs : ∀ u ∈ us, isScalar u ∧ u ≠ 0) (tail : Mem) :
    ∀ n off acc, us.length ≤ n →
      ∃ cs, readText enc us.length (encode enc us ++ tail) off acc = .ok (acc.reverse ++ cs) ∧ cs.map Prod.fst = us := by
  induction us with
  | nil => intro n off acc _; exact ⟨[], by simp [readText], rfl⟩
  | cons u us ih =>
    intro n off acc hn
    have hu := hs u (List.mem_cons_self ..)
    have hg := get_put enc u hu.1 (encode enc us ++ tail)
    simp only [encode, List.flatMap_cons, List.append_assoc, List.length_cons] at *
    unfold readText
    simp only [hg]
    have hl := put_length_pos enc u
    have hnot : ¬ (u = 0 ∧ ¬ ((put enc u).length : Int) < 1) := fun h => hu.2 h.1
    simp only [hnot, if_false, Int.natAbs_natCast, List.drop_left]
    obtain ⟨cs, hcs, hmap⟩ := ih (fun v hv => hs v (List.mem_cons_of_mem _ hv)) (n - 1) (off + (put enc u).length) ((u, off) :: acc) (by omega)
    exact ⟨(u, off) :: cs, by simp [hcs], by simp [hmap]⟩

end GrVerif.Utf

import GrVerif.Model.Cmap
/-!
# The cache walk over sorted ranges   (C13: cached = direct, abstract part)

`cache_subtable` walks a subtable with `NextCodepoint` and stores the keyed look-up of every code point it is handed.  This file is about
the walk alone: `nextA` is `CmapSubtable4/12NextCodepoint` over two functions `st`/`en` (the start and end code of range `i`), and for
ranges that are sorted and disjoint it hands out, in ascending order, exactly the code points that lie in a range – so that a cache that
was zero before holds the direct look-up's answer for every code point below the limit afterwards (`cacheLoop_spec`).
-/
namespace GrVerif.Cmap

/-- ranges `0 … N-1` are well formed: start ≤ end, and each range ends before the next begins -/
def Sorted (st en : Nat → Nat) (N : Nat) : Prop := (∀ i, i < N → st i ≤ en i) ∧ (∀ i, i + 1 < N → en i < st (i + 1))

def InRange (st en : Nat → Nat) (N u : Nat) : Prop := ∃ k, k < N ∧ st k ≤ u ∧ u ≤ en k

theorem sorted_lt {st en : Nat → Nat} {N : Nat} (h : Sorted st en N) : ∀ j i, i < j → j < N → en i < st j := by
  intro j
  induction j with
  | zero => intro i hi; omega
  | succ j ih =>
    intro i hi hj
    by_cases e : i = j
    · subst e; exact h.2 i hj
    · have h1 := ih i (by omega) (by omega)
      have h2 := h.1 j (by omega)
      have h3 := h.2 j hj
      omega

theorem sorted_st_mono {st en : Nat → Nat} {N : Nat} (h : Sorted st en N) (i j : Nat) (hij : i ≤ j) (hj : j < N) : st i ≤ st j := by
  by_cases e : i = j
  · subst e; omega
  · have := sorted_lt h j i (by omega) hj
    have := h.1 i (by omega)
    omega

theorem sorted_en_mono {st en : Nat → Nat} {N : Nat} (h : Sorted st en N) (i j : Nat) (hij : i ≤ j) (hj : j < N) : en i ≤ en j := by
  by_cases e : i = j
  · subst e; omega
  · have := sorted_lt h j i (by omega) hj
    have := h.1 j hj
    omega

/-- "just in case we have a bad key": down while the range starts above `usv` -/
def downA (st : Nat → Nat) (usv : Nat) : Nat → Nat → Nat
  | 0, i => i
  | f + 1, i => if i > 0 then (if st i > usv then downA st usv f (i - 1) else i) else i

/-- up while the range ends below `usv` -/
def upA (en : Nat → Nat) (N usv : Nat) : Nat → Nat → Nat
  | 0, i => i
  | f + 1, i => if i + 1 < N then (if en i < usv then upA en N usv f (i + 1) else i) else i

theorem downA_spec (st : Nat → Nat) (usv : Nat) : ∀ f i, i < f → downA st usv f i ≤ i ∧ (downA st usv f i = 0 ∨ st (downA st usv f i) ≤ usv) := by
  intro f
  induction f with
  | zero => intro i hi; omega
  | succ f ih =>
    intro i hi
    unfold downA
    by_cases h0 : i > 0
    · rw [if_pos h0]
      by_cases h1 : st i > usv
      · rw [if_pos h1]
        have := ih (i - 1) (by omega)
        omega
      · rw [if_neg h1]; omega
    · rw [if_neg h0]; omega

theorem upA_spec (en : Nat → Nat) (N usv : Nat) : ∀ f i, N ≤ i + f → i < N →
    i ≤ upA en N usv f i ∧ upA en N usv f i < N ∧ (∀ j, i ≤ j → j < upA en N usv f i → en j < usv) ∧
      (upA en N usv f i + 1 = N ∨ usv ≤ en (upA en N usv f i)) := by
  intro f
  induction f with
  | zero => intro i hi hN; omega
  | succ f ih =>
    intro i hi hN
    unfold upA
    by_cases h0 : i + 1 < N
    · rw [if_pos h0]
      by_cases h1 : en i < usv
      · rw [if_pos h1]
        obtain ⟨a, b, c, d⟩ := ih (i + 1) (by omega) h0
        refine ⟨by omega, b, fun j hj hj2 => ?_, d⟩
        by_cases e : j = i
        · subst e; exact h1
        · exact c j (by omega) hj2
      · rw [if_neg h1]
        exact ⟨by omega, hN, fun j hj hj2 => by omega, Or.inr (by omega)⟩
    · rw [if_neg h0]
      exact ⟨by omega, hN, fun j hj hj2 => by omega, Or.inl (by omega)⟩

/-- `CmapSubtable4NextCodepoint` / `CmapSubtable12NextCodepoint` over `st`/`en`; `lastKey` is the key answered with the limit -/
def nextA (st en : Nat → Nat) (N lim lastKey : Nat) (usv key : Nat) : Nat × Nat :=
  if usv = 0 then (st 0, 0) else
  if usv ≥ lim then (lim, lastKey) else
  let i := upA en N usv (N + 1) (downA st usv (key + 1) key)
  let prev := if st i > usv then st i - 1 else usv
  if en i > prev then (prev + 1, i) else
  if i + 1 ≥ N then (lim, i + 1) else (st (i + 1), i + 1)

/-- what `NextCodepoint` answers for sorted ranges: the next code point above `usv` that lies in a range, with that range as the key -/
theorem nextA_spec {st en : Nat → Nat} {N : Nat} (hS : Sorted st en N) (lim lastKey usv key : Nat) (h0 : 0 < usv) (hl : usv < lim) (hk : key < N) :
    usv < (nextA st en N lim lastKey usv key).1 ∧
    (∀ u, usv < u → u < (nextA st en N lim lastKey usv key).1 → u < lim → ¬ InRange st en N u) ∧
    ((nextA st en N lim lastKey usv key).1 < lim →
      (nextA st en N lim lastKey usv key).2 < N ∧ st (nextA st en N lim lastKey usv key).2 ≤ (nextA st en N lim lastKey usv key).1 ∧
        (nextA st en N lim lastKey usv key).1 ≤ en (nextA st en N lim lastKey usv key).2) := by
  unfold nextA
  rw [if_neg (by omega), if_neg (by omega)]
  obtain ⟨d1, d2⟩ := downA_spec st usv (key + 1) key (by omega)
  generalize downA st usv (key + 1) key = d at d1 d2
  obtain ⟨u1, u2, u3, u4⟩ := upA_spec en N usv (N + 1) d (by omega) (by omega)
  generalize upA en N usv (N + 1) d = i at u1 u2 u3 u4
  -- every range below `i` ends below `usv`
  have hbelow : ∀ j, j < i → en j < usv := by
    intro j hj
    by_cases hjd : d ≤ j
    · exact u3 j hjd hj
    · rcases d2 with d0 | dst
      · omega
      · have := sorted_lt hS d j (by omega) (by omega); omega
  have hsi := hS.1 i u2
  dsimp only
  by_cases hst : st i > usv
  · rw [if_pos hst]
    rw [if_pos (by omega)]
    refine ⟨by dsimp only; omega, fun u hu1 hu2 _ hin => ?_, fun _ => ⟨u2, by dsimp only; omega, by dsimp only; omega⟩⟩
    obtain ⟨k, hk1, hk2, hk3⟩ := hin
    dsimp only at hu2
    by_cases hki : k < i
    · have := hbelow k hki; omega
    · have := sorted_st_mono hS i k (by omega) hk1; omega
  · rw [if_neg hst]
    by_cases hen : en i > usv
    · rw [if_pos hen]
      exact ⟨by dsimp only; omega, fun u hu1 hu2 _ => by dsimp only at hu2; omega, fun _ => ⟨u2, by dsimp only; omega, by dsimp only; omega⟩⟩
    · rw [if_neg hen]
      by_cases hlast : i + 1 ≥ N
      · rw [if_pos hlast]
        refine ⟨hl, fun u hu1 _ _ hin => ?_, fun h => by dsimp only at h; omega⟩
        obtain ⟨k, hk1, hk2, hk3⟩ := hin
        have := sorted_en_mono hS k i (by omega) u2
        omega
      · rw [if_neg hlast]
        have heq : en i = usv := by rcases u4 with h | h <;> omega
        have hnx := hS.2 i (by omega)
        refine ⟨by dsimp only; omega, fun u hu1 hu2 _ hin => ?_, fun _ => ⟨by dsimp only; omega, by dsimp only; omega, by dsimp only; exact hS.1 (i + 1) (by omega)⟩⟩
        obtain ⟨k, hk1, hk2, hk3⟩ := hin
        dsimp only at hu2
        by_cases hki : k ≤ i
        · have := sorted_en_mono hS k i hki u2; omega
        · have := sorted_st_mono hS (i + 1) k (by omega) hk1; omega

/-! ## the cache -/

theorem getD_setIfInBounds (c : Cache) (i v u : Nat) :
    (c.setIfInBounds i v).getD u 0 = if u = i ∧ i < c.size then v else c.getD u 0 := by
  simp only [Array.getD_eq_getD_getElem?, Array.getElem?_setIfInBounds]
  by_cases h : i = u
  · subst h
    by_cases h2 : i < c.size
    · simp [h2]
    · simp [h2]
  · have : ¬ u = i := fun e => h e.symm
    simp [h, this]

/-- the state of `cache_subtable`'s loop: everything below `cp` is cached as the direct look-up answers it, everything from `cp` to the limit
is still zero, `key` names the range `cp` lies in -/
structure WInv (st en : Nat → Nat) (N lim sz : Nat) (D : Nat → Nat) (c0 : Cache) (cp prev key : Nat) (c : Cache) : Prop where
  size : c.size = sz
  done : ∀ u, u < cp → u < lim → c.getD u 0 = D u
  todo : ∀ u, cp ≤ u → u < lim → c.getD u 0 = 0
  rest : ∀ u, lim ≤ u → c.getD u 0 = c0.getD u 0
  key : cp < lim → key < N ∧ st key ≤ cp ∧ cp ≤ en key
  ord : prev < cp ∨ (cp = 0 ∧ prev = 0)

/-- **the walk caches the direct answers**: over sorted ranges, with a keyed look-up that agrees with the direct one inside the range the key
names, and a direct look-up that answers 0 outside every range -/
theorem cacheLoop_spec (nxt : Nat → Nat → Except Fault (Nat × Nat)) (lk : Nat → Nat → Except Fault Nat)
    (st en : Nat → Nat) (N lim lastKey sz : Nat) (D : Nat → Nat) (c0 : Cache)
    (hS : Sorted st en N) (hlim : 1 < lim) (hsz : lim < sz)
    (hnxt : ∀ usv key, key < N → nxt usv key = .ok (nextA st en N lim lastKey usv key))
    (hlk : ∀ u k, k < N → st k ≤ u → u ≤ en k → lk u k = .ok (D u))
    (hlk0 : ∀ u, lk u 0 = .ok (D u))
    (hD0 : ∀ u, u < lim → ¬ InRange st en N u → D u = 0) :
    ∀ fuel cp prev key c, WInv st en N lim sz D c0 cp prev key c → lim + 1 ≤ fuel + cp →
      ∃ c', cacheLoop nxt lk lim fuel cp prev key c = .ok c' ∧ c'.size = sz ∧ (∀ u, u < lim → c'.getD u 0 = D u) ∧
        (∀ u, lim ≤ u → c'.getD u 0 = c0.getD u 0) := by
  intro fuel
  induction fuel with
  | zero =>
    intro cp prev key c I hf
    exact ⟨c, rfl, I.size, fun u hu => I.done u (by omega) hu, I.rest⟩
  | succ fuel ih =>
    intro cp prev key c I hf
    unfold cacheLoop
    by_cases hcl : cp ≥ lim
    · rw [if_pos hcl]
      exact ⟨c, rfl, I.size, fun u hu => I.done u (by omega) hu, I.rest⟩
    · rw [if_neg hcl]
      obtain ⟨k1, k2, k3⟩ := I.key (by omega)
      rw [hlk cp key k1 k2 k3]
      simp only [bind, Except.bind, pure, Except.pure]
      rcases I.ord with hord | ⟨hc0, hp0⟩
      · -- the ordinary step
        rw [if_neg (by omega : ¬ cp ≤ prev)]
        rw [if_neg (by omega)]
        rw [hnxt cp key k1]
        simp only []
        obtain ⟨n1, n2, n3⟩ := nextA_spec hS lim lastKey cp key (by omega) (by omega) k1
        refine ih _ cp _ _ ⟨by rw [Array.size_setIfInBounds]; exact I.size, fun u hu hul => ?_, fun u hu hul => ?_, fun u hu => ?_, n3, Or.inl n1⟩ (by omega)
        · rw [getD_setIfInBounds]
          by_cases e : u = cp
          · subst e; rw [if_pos ⟨rfl, by rw [I.size]; omega⟩]
          · rw [if_neg (fun h => e h.1)]
            by_cases hlt : u < cp
            · exact I.done u hlt hul
            · rw [I.todo u (by omega) hul, hD0 u hul (n2 u (by omega) hu hul)]
        · rw [getD_setIfInBounds, if_neg (by omega)]
          exact I.todo u (by omega) hul
        · rw [getD_setIfInBounds, if_neg (by omega)]
          exact I.rest u hu
      · -- the first range begins at 0: "prevent infinite loop" moves on to 1, which is looked up directly
        subst hc0; subst hp0
        simp only [Nat.le_refl, if_true, Nat.zero_add, true_and]
        rw [if_pos hlim]
        rw [hlk0 1]
        simp only []
        rw [hnxt 1 key k1]
        simp only []
        obtain ⟨n1, n2, n3⟩ := nextA_spec hS lim lastKey 1 key (by omega) hlim k1
        refine ih _ 1 _ _ ⟨by rw [Array.size_setIfInBounds, Array.size_setIfInBounds]; exact I.size, fun u hu hul => ?_, fun u hu hul => ?_, fun u hu => ?_, n3, Or.inl n1⟩ (by omega)
        · rw [getD_setIfInBounds, getD_setIfInBounds, Array.size_setIfInBounds]
          by_cases e1 : u = 1
          · subst e1; rw [if_pos ⟨rfl, by rw [I.size]; omega⟩]
          · rw [if_neg (fun h => e1 h.1)]
            by_cases e0 : u = 0
            · subst e0; rw [if_pos ⟨rfl, by rw [I.size]; omega⟩]
            · rw [if_neg (fun h => e0 h.1)]
              rw [I.todo u (by omega) hul, hD0 u hul (n2 u (by omega) hu hul)]
        · rw [getD_setIfInBounds, getD_setIfInBounds, if_neg (by omega), if_neg (by omega)]
          exact I.todo u (by omega) hul
        · rw [getD_setIfInBounds, getD_setIfInBounds, if_neg (by omega), if_neg (by omega)]
          exact I.rest u hu

/-- `cache_subtable` as a whole, from a cache that is zero below the limit -/
theorem cacheSubtable_spec (nxt : Nat → Nat → Except Fault (Nat × Nat)) (lk : Nat → Nat → Except Fault Nat)
    (st en : Nat → Nat) (N lim lastKey sz : Nat) (D : Nat → Nat) (c0 : Cache)
    (hS : Sorted st en N) (hN : 0 < N) (hlim : 1 < lim) (hsz : lim < sz) (hc0 : c0.size = sz) (hz : ∀ u, u < lim → c0.getD u 0 = 0)
    (hnxt : ∀ usv key, key < N → nxt usv key = .ok (nextA st en N lim lastKey usv key))
    (hlk : ∀ u k, k < N → st k ≤ u → u ≤ en k → lk u k = .ok (D u))
    (hlk0 : ∀ u, lk u 0 = .ok (D u))
    (hD0 : ∀ u, u < lim → ¬ InRange st en N u → D u = 0) :
    ∃ c', cacheSubtable nxt lk lim c0 = .ok c' ∧ c'.size = sz ∧ (∀ u, u < lim → c'.getD u 0 = D u) ∧
      (∀ u, lim ≤ u → c'.getD u 0 = c0.getD u 0) := by
  unfold cacheSubtable
  rw [hnxt 0 0 hN]
  simp only [bind, Except.bind, nextA, if_true]
  refine cacheLoop_spec nxt lk st en N lim lastKey sz D c0 hS hlim hsz hnxt hlk hlk0 hD0 _ (st 0) 0 0 c0
    ⟨hc0, fun u hu hul => ?_, fun u _ hul => hz u hul, fun u _ => rfl, fun _ => ⟨hN, Nat.le_refl _, hS.1 0 hN⟩, by omega⟩ (by omega)
  rw [hz u hul, hD0 u hul]
  rintro ⟨k, hk1, hk2, hk3⟩
  have := sorted_st_mono hS 0 k (by omega) hk1
  omega

end GrVerif.Cmap

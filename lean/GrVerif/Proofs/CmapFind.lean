import GrVerif.Model.Cmap
set_option linter.unusedVariables false
set_option linter.unusedSimpArgs false
/-!
# Finding and checking the cmap subtables never reads outside the cmap table   (C13, C01)
-/
namespace GrVerif.Cmap
open GrVerif
open GrVerif.Feat (be16 be32)

theorem rd16_ok (t : Buf) (i : Nat) (h : i + 2 ≤ t.size) : ∃ v, be16 t i = .ok v := by
  unfold be16
  simp only [bind, Except.bind, pure, Except.pure, rd_ok (show i < t.size by omega), rd_ok (show i + 1 < t.size by omega)]
  exact ⟨_, rfl⟩

theorem rd32_ok (t : Buf) (i : Nat) (h : i + 4 ≤ t.size) : ∃ v, be32 t i = .ok v := by
  unfold be32
  obtain ⟨a, ea⟩ := rd16_ok t i (by omega)
  obtain ⟨c, ec⟩ := rd16_ok t (i + 2) (by omega)
  simp only [bind, Except.bind, pure, Except.pure, ea, ec]
  exact ⟨_, rfl⟩

/-- the reader ends without a fault -/
def T {α : Type} (r : Except Fault α) : Prop := ∃ v, r = .ok v

theorem T.pure {α : Type} (x : α) : T (pure x : Except Fault α) := ⟨x, rfl⟩
theorem T.ok {α : Type} (x : α) : T (Except.ok x : Except Fault α) := ⟨x, rfl⟩
theorem T.ite {α : Type} {c : Prop} [Decidable c] {a b : Except Fault α} (ha : c → T a) (hb : ¬ c → T b) : T (if c then a else b) := by
  by_cases h : c
  · rw [if_pos h]; exact ha h
  · rw [if_neg h]; exact hb h
theorem T.b16 {α : Type} {t : Buf} {i : Nat} {k : Nat → Except Fault α} (hi : i + 2 ≤ t.size) (h : ∀ v, T (k v)) : T (be16 t i >>= k) := by
  obtain ⟨v, e⟩ := rd16_ok t i hi; rw [e]; exact h v
theorem T.b32 {α : Type} {t : Buf} {i : Nat} {k : Nat → Except Fault α} (hi : i + 4 ≤ t.size) (h : ∀ v, T (k v)) : T (be32 t i >>= k) := by
  obtain ⟨v, e⟩ := rd32_ok t i hi; rw [e]; exact h v
theorem T.bind {α β : Type} {r : Except Fault β} {k : β → Except Fault α} (hr : T r) (h : ∀ v, T (k v)) : T (r >>= k) := by
  obtain ⟨v, e⟩ := hr; rw [e]; exact h v

theorem findLoop_total (t : Buf) (plat enc n : Nat) (hn : n = 0 ∨ 12 + 8 * (n - 1) ≤ t.size) :
    ∀ fuel i, T (findLoop t plat enc n fuel i) := by
  intro fuel
  induction fuel with
  | zero => intro i; exact ⟨_, rfl⟩
  | succ fuel ih =>
    intro i
    unfold findLoop
    refine T.ite (fun _ => T.pure _) fun hi => ?_
    have hsz : 12 + 8 * i ≤ t.size := by rcases hn with h | h <;> omega
    refine T.b16 (by omega) fun p => ?_
    refine T.b16 (by omega) fun e => ?_
    refine T.ite (fun _ => ?_) (fun _ => ih _)
    refine T.b32 (by omega) fun off => ?_
    refine T.ite (fun _ => T.pure _) fun h1 => ?_
    refine T.b16 (by omega) fun fmt => ?_
    have hnext : i + 1 ≠ n → 8 + 8 * (i + 1) + 4 ≤ t.size := by
      intro hne; rcases hn with h | h <;> omega
    -- the format 12 block (and the final `return`), which every path of the format 4 block continues with
    have h12 : T (if fmt = 12 then
          (if off + 6 > Array.size t then pure none
           else do
            let sl ← be32 t (off + 2)
            if i + 1 = n then (if sl > Array.size t - off then pure none else pure (some off))
            else do
              let nxt ← be32 t (8 + 8 * (i + 1))
              if sl > nxt then pure none else pure (some off))
        else pure (some off) : Except Fault (Option Nat)) := by
      refine T.ite (fun _ => ?_) (fun _ => T.pure _)
      refine T.ite (fun _ => T.pure _) fun h6 => ?_
      refine T.b32 (by omega) fun sl => ?_
      refine T.ite (fun _ => T.ite (fun _ => T.pure _) (fun _ => T.pure _)) fun hne => ?_
      refine T.b32 (hnext hne) fun nxt => ?_
      exact T.ite (fun _ => T.pure _) (fun _ => T.pure _)
    dsimp only
    refine T.ite (fun _ => ?_) (fun _ => h12)
    refine T.ite (fun _ => T.pure _) fun h4 => ?_
    refine T.b16 (by omega) fun sl => ?_
    refine T.ite (fun _ => T.ite (fun _ => T.pure _) (fun _ => h12)) fun hne => ?_
    refine T.b32 (hnext hne) fun nxt => ?_
    exact T.ite (fun _ => T.pure _) (fun _ => h12)

theorem findSubtable_total (t : Buf) (plat enc : Nat) (h4 : 4 ≤ t.size) : T (findSubtable t plat enc) := by
  unfold findSubtable
  refine T.b16 (by omega) fun n => ?_
  refine T.ite (fun _ => T.pure _) fun hc => ?_
  exact findLoop_total t plat enc n (by omega) n 0

theorem check4_total (t : Buf) (st : Option Nat) : T (check4 t st) := by
  unfold check4
  cases st with
  | none => exact T.pure _
  | some o =>
    simp only []
    refine T.ite (fun _ => T.pure _) fun h6 => ?_
    refine T.b16 (by omega) fun fmt => ?_
    refine T.ite (fun _ => T.pure _) fun _ => ?_
    refine T.ite (fun _ => T.pure _) fun h16 => ?_
    refine T.b16 (by omega) fun len => ?_
    refine T.ite (fun _ => T.pure _) fun hl => ?_
    refine T.ite (fun _ => T.pure _) fun hl2 => ?_
    refine T.b16 (by omega) fun nr2 => ?_
    refine T.ite (fun _ => T.pure _) fun hn => ?_
    refine T.b16 (by omega) fun ce => ?_
    exact T.pure _

theorem check12_total (t : Buf) (st : Option Nat) : T (check12 t st) := by
  unfold check12
  cases st with
  | none => exact T.pure _
  | some o =>
    simp only []
    refine T.ite (fun _ => T.pure _) fun h6 => ?_
    refine T.b16 (by omega) fun fmt => ?_
    refine T.ite (fun _ => T.pure _) fun _ => ?_
    refine T.ite (fun _ => T.pure _) fun h28 => ?_
    refine T.b32 (by omega) fun len => ?_
    refine T.ite (fun _ => T.pure _) fun hl => ?_
    refine T.ite (fun _ => T.pure _) fun hl2 => ?_
    refine T.b32 (by omega) fun ng => ?_
    refine T.ite (fun _ => T.pure _) fun hn => ?_
    exact T.pure _

theorem firstChecked_total (t : Buf) (chk : Buf → Option Nat → Except Fault Bool) (hchk : ∀ st, T (chk t st)) (h4 : 4 ≤ t.size) :
    ∀ l, T (firstChecked t chk l) := by
  intro l
  induction l with
  | nil => exact T.ok _
  | cons pe rest ih =>
    obtain ⟨p, e⟩ := pe
    unfold firstChecked
    refine T.bind (findSubtable_total t p e h4) fun st => ?_
    refine T.bind (hchk st) fun ok => ?_
    cases ok with
    | true => exact T.pure _
    | false => exact ih

/-- **finding the Unicode subtables of a cmap** (`bmp_subtable`, `smp_subtable`: `FindCmapSubtable` over the preference lists and
`CheckCmapSubtable4/12`) reads nothing outside the cmap table, whatever its bytes (`Face::Table` hands out at least 4) -/
theorem bmpSubtable_total (t : Buf) (h4 : 4 ≤ t.size) : T (bmpSubtable t) := by
  unfold bmpSubtable
  refine T.ite (fun _ => T.ok _) fun _ => ?_
  exact firstChecked_total t check4 (check4_total t) h4 _

theorem smpSubtable_total (t : Buf) (h4 : 4 ≤ t.size) : T (smpSubtable t) := by
  unfold smpSubtable
  refine T.ite (fun _ => T.ok _) fun _ => ?_
  exact firstChecked_total t check12 (check12_total t) h4 _

end GrVerif.Cmap

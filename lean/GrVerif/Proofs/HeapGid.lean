import GrVerif.Proofs.HeapAssoc
/-!
# C03: every heap primitive and every opcode keeps the glyph ids below the glyph count

The glyph id of a slot is written by `read_text` (from the cmap), by `put_glyph`/`put_subs` (from an output class of the Silf class map), by
`put_copy`/`temp_copy` (from another slot) and by `insert`/`freeSlot` (0).  With a class map that names only real glyphs – the class map
travels in the rule context and is never written – every slot of the heap keeps a glyph id below the glyph count through any action
program and the garbage collection after it.
-/
set_option linter.unusedVariables false
set_option linter.unusedSimpArgs false
namespace GrVerif.Action
open GrVerif.Vm GrVerif.Seg GrVerif.Gen.Vm

/-- every slot of the heap (live or free) has a glyph id below `N` -/
def GidOK (N : Nat) (s : Seg) : Prop := ∀ j, (s.get j).gid < N

/-- the class map names only glyphs below `N` -/
def ClassesOK (N : Nat) (K : Array (List Nat)) : Prop := ∀ l ∈ K, ∀ g ∈ l, g < N

theorem GidOK.upd {N : Nat} {s : Seg} (h : GidOK N s) (i : Nat) (f : Slot → Slot) (hf : (f (s.get i)).gid < N) : GidOK N (s.upd i f) := by
  intro j
  rw [get_upd]; split
  · rename_i hh; rw [hh.1]; exact hf
  · exact h j

theorem GidOK.updKeep {N : Nat} {s : Seg} (h : GidOK N s) (i : Nat) (f : Slot → Slot) (hf : ∀ a, (f a).gid = a.gid) : GidOK N (s.upd i f) :=
  h.upd i f (by rw [hf]; exact h i)

theorem GidOK.sameT {N : Nat} {s s' : Seg} (h : GidOK N s) (hs : SameT s s') : GidOK N s' := by
  intro j
  rw [(hs.slot j).2.2.1]; exact h j

theorem GidOK.congr {N : Nat} {s s' : Seg} (h : GidOK N s) (hs : ∀ j, s'.get j = s.get j) : GidOK N s' :=
  fun j => by rw [hs]; exact h j

theorem GidOK.setFirst {N : Nat} {s : Seg} (h : GidOK N s) (v : Option Nat) : GidOK N (s.setFirst v) := h.congr (fun _ => rfl)
theorem GidOK.setLast {N : Nat} {s : Seg} (h : GidOK N s) (v : Option Nat) : GidOK N (s.setLast v) := h.congr (fun _ => rfl)
theorem GidOK.addGlyphs {N : Nat} {s : Seg} (h : GidOK N s) (d : Int) : GidOK N (s.addGlyphs d) := h.congr (fun _ => rfl)

theorem classGlyph_lt {N : Nat} (hN : 0 < N) (c : Ctx) (hK : ClassesOK N c.classes) (cid idx : Nat) : classGlyph c cid idx < N := by
  unfold classGlyph
  cases h : c.classes[cid]? with
  | none => exact hN
  | some l =>
    simp only []
    have hl : l ∈ c.classes := Array.mem_of_getElem? h
    rw [List.getD_eq_getElem?_getD]
    cases h2 : l[idx]? with
    | none => exact hN
    | some g => exact hK l hl g (List.mem_of_getElem? h2)

section slotgid
variable (a : Slot)
@[simp] theorem setPrev_gid (v : Option Nat) : (a.setPrev v).gid = a.gid := rfl
@[simp] theorem setNext_gid (v : Option Nat) : (a.setNext v).gid = a.gid := rfl
@[simp] theorem setBefore_gid (v : Int) : (a.setBefore v).gid = a.gid := rfl
@[simp] theorem setAfter_gid (v : Int) : (a.setAfter v).gid = a.gid := rfl
@[simp] theorem setOriginal_gid (v : Int) : (a.setOriginal v).gid = a.gid := rfl
end slotgid

section cls
variable (c : Ctx)
@[simp] theorem withSeg_classes (s : Seg) : (c.withSeg s).classes = c.classes := rfl
@[simp] theorem setIs_classes (v : Option Nat) : (c.setIs v).classes = c.classes := rfl
@[simp] theorem setMap_classes (m : Int) : (c.setMap m).classes = c.classes := rfl
@[simp] theorem setStatus_classes (st : Status) : (c.setStatus st).classes = c.classes := rfl
@[simp] theorem setMaxSize_classes (m : Int) : (c.setMaxSize m).classes = c.classes := rfl
@[simp] theorem setCell_classes (k : Nat) (v : Option Nat) : (c.setCell k v).classes = c.classes := rfl
@[simp] theorem markHighpassed_classes (b : Bool) : (c.markHighpassed b).classes = c.classes := by unfold Ctx.markHighpassed; split <;> rfl
@[simp] theorem moveHighwater_classes (v : Option Nat) : (c.moveHighwater v).classes = c.classes := by unfold Ctx.moveHighwater; split <;> rfl
@[simp] theorem backOnto_classes (v : Option Nat) : (c.backOnto v).classes = c.classes := by unfold Ctx.backOnto; split; exact markHighpassed_classes _ _; rfl
@[simp] theorem slotat_classes (x : Int) : (slotat c x).2.classes = c.classes := by unfold slotat; simp only []; split <;> rfl
end cls

/-- the rule context carries the class map `K`, and the heap's glyph ids are below `N` -/
def PGid (N : Nat) (K : Array (List Nat)) (c : Ctx) : Prop := c.classes = K ∧ GidOK N c.seg

theorem die_PGid {N : Nat} {K : Array (List Nat)} (c : Ctx) (h : PGid N K c) : OutcomeP (PGid N K) (Seg.die c) := by
  unfold Seg.die; exact ⟨h.1, h.2⟩

theorem next_PGid {N : Nat} {K : Array (List Nat)} (c : Ctx) (h : PGid N K c) : OutcomeP (PGid N K) (opNext c) := by
  unfold opNext
  split
  · exact die_PGid c h
  · split
    · exact ⟨by simp only [setMap_classes, setIs_classes, markHighpassed_classes]; exact h.1,
        by show GidOK N _; simp only [setMap_seg, setIs_seg, markHighpassed_seg]; exact h.2⟩
    · exact ⟨h.1, h.2⟩

theorem newSlot_gid {N : Nat} (hN : 0 < N) {s s' : Seg} {g a : Nat} (h : GidOK N s) (e : s.newSlot g = some (a, s')) : GidOK N s' := by
  unfold Seg.newSlot at e
  split at e
  · simp only [Option.some.injEq, Prod.mk.injEq] at e
    rw [← e.2]
    exact h.updKeep (s := s) ‹Nat› (fun sl => { sl with next := none }) (fun _ => rfl)
  · split at e
    · cases e
    · simp only [Option.some.injEq, Prod.mk.injEq] at e
      rw [← e.2]
      exact fun j => by rw [get_grow]; exact h j

theorem setNextOf_gid {N : Nat} {s : Seg} (h : GidOK N s) (p v : Option Nat) : GidOK N (s.setNextOf p v) := by
  unfold Seg.setNextOf
  split
  · exact h.updKeep _ _ (fun _ => rfl)
  · exact h.setFirst _

theorem setPrevOf_gid {N : Nat} {s : Seg} (h : GidOK N s) (p v : Option Nat) : GidOK N (s.setPrevOf p v) := by
  unfold Seg.setPrevOf
  split
  · exact h.updKeep _ _ (fun _ => rfl)
  · exact h.setLast _

theorem unlink_gid {N : Nat} {s : Seg} (h : GidOK N s) (i : Nat) : GidOK N (s.unlink i) :=
  setPrevOf_gid (setNextOf_gid h _ _) _ _

theorem detach_gid {N : Nat} {s : Seg} (h : GidOK N s) (i : Nat) : GidOK N (s.detach i) := by
  unfold Seg.detach
  exact h.sameT (SameT.tr (unparent_same s i) (detachChildren_same _ _ _))

theorem delete_PGid {N : Nat} {K : Array (List Nat)} (c : Ctx) (h : PGid N K c) : OutcomeP (PGid N K) (opDelete c) := by
  unfold opDelete
  split
  · exact die_PGid c h
  · simp only []
    split
    · exact die_PGid c h
    · rename_i i _ _
      have h1 : GidOK N (c.seg.upd i fun sl => sl.setDeleted true) := h.2.updKeep _ _ (fun _ => rfl)
      have h2 := (detach_gid (unlink_gid h1 i) i).addGlyphs (-1)
      refine ⟨by simp only [backOnto_classes, setIs_classes, withSeg_classes, moveHighwater_classes]; exact h.1, ?_⟩
      show GidOK N (Ctx.backOnto _ _).seg
      rw [backOnto_seg]
      exact h2

theorem linkAtEnd_gid {N : Nat} {s : Seg} (h : GidOK N s) (k : Nat) : GidOK N (s.linkAtEnd k) := by
  unfold Seg.linkAtEnd
  split
  · simp only []
    apply GidOK.setLast
    exact (h.updKeep _ _ (fun a => setNext_gid a _)).updKeep _ _ (fun a => by rw [setBefore_gid, setPrev_gid])
  · exact (h.setFirst _).setLast _

theorem linkBefore_gid {N : Nat} {s : Seg} (h : GidOK N s) (k i : Nat) : GidOK N (s.linkBefore k i) := by
  unfold Seg.linkBefore
  split
  · simp only []
    exact (h.updKeep _ _ (fun a => setNext_gid a _)).updKeep _ _ (fun a => by rw [setBefore_gid, setPrev_gid])
  · simp only []
    apply GidOK.setFirst
    exact h.updKeep _ _ (fun a => by rw [setBefore_gid, setPrev_gid])

theorem finishNew_gid {N : Nat} {s : Seg} (h : GidOK N s) (k : Nat) (iss : Option Nat) : GidOK N (s.finishNew k iss) := by
  unfold Seg.finishNew
  have h2 : GidOK N (s.upd k fun sl => sl.setNext iss) := h.updKeep _ _ (fun a => setNext_gid a _)
  simp only []
  split
  · exact ((h2.updKeep _ _ (fun a => setPrev_gid a _)).updKeep _ _ (fun a => by rw [setAfter_gid, setOriginal_gid]))
  · split
    · exact h2.updKeep _ _ (fun a => by rw [setAfter_gid, setOriginal_gid])
    · exact h2.updKeep _ _ (fun a => setOriginal_gid a _)

theorem linkNew_gid {N : Nat} {s : Seg} (h : GidOK N s) (k : Nat) (iss : Option Nat) : GidOK N (s.linkNew k iss) := by
  unfold Seg.linkNew
  apply finishNew_gid
  split
  · exact linkAtEnd_gid h k
  · exact linkBefore_gid h k _

theorem insert_PGid {N : Nat} {K : Array (List Nat)} (hN : 0 < N) (c : Ctx) (h : PGid N K c) : OutcomeP (PGid N K) (opInsert c) := by
  unfold opInsert
  simp only []
  have hc : PGid N K (c.setMaxSize (c.maxSize - 1)) := ⟨h.1, h.2⟩
  split
  · exact die_PGid _ hc
  · split
    · exact die_PGid _ hc
    · rename_i k seg heq
      have h1 := newSlot_gid hN h.2 heq
      have h2 := (linkNew_gid h1 k (skipDeleted seg (seg.slots.size + 1) c.is)).addGlyphs 1
      split <;> exact ⟨by simp only [setMap_classes, setIs_classes, withSeg_classes, markHighpassed_classes, setMaxSize_classes]; exact h.1, h2⟩

theorem copySlot_gid {N : Nat} {s : Seg} (h : GidOK N s) (i rf : Nat) : GidOK N (s.copySlot i rf) := by
  unfold Seg.copySlot
  simp only []
  have h1 : GidOK N (s.upd i fun si => si.copyFrom (s.get rf)) := h.upd _ _ (h rf)
  split
  · split
    · exact h1.sameT (SameT.updParent _ _ _)
    · split
      · exact h1.sameT (child_same _ _ _)
      · exact h1.sameT (SameT.tr (child_same _ _ _) (SameT.updParent _ _ _))
  · exact h1

theorem unmark_gid {N : Nat} {s : Seg} (h : GidOK N s) (i : Nat) : GidOK N (s.unmark i) :=
  h.updKeep _ _ (fun _ => rfl)

theorem slotat_PGid {N : Nat} {K : Array (List Nat)} (c : Ctx) (x : Int) (h : PGid N K c) : PGid N K (slotat c x).2 :=
  ⟨by rw [slotat_classes]; exact h.1, by show GidOK N _; rw [slotat_seg]; exact h.2⟩

theorem putCopy_PGid {N : Nat} {K : Array (List Nat)} (c : Ctx) (r : Int) (h : PGid N K c) : OutcomeP (PGid N K) (opPutCopy c r) := by
  unfold opPutCopy
  split
  · exact h
  · split
    · exact h
    · simp only []
      have h' := slotat_PGid c r h
      split
      · split
        · split
          · exact die_PGid _ h'
          · exact ⟨h'.1, unmark_gid (copySlot_gid h'.2 _ _) _⟩
        · exact ⟨h'.1, unmark_gid h'.2 _⟩
      · exact ⟨h'.1, unmark_gid h'.2 _⟩

theorem assocStep_frame (acc : Int × Int × Ctx) (sr : Int) :
    (assocStep acc sr).2.2.seg = acc.2.2.seg ∧ (assocStep acc sr).2.2.classes = acc.2.2.classes := by
  unfold assocStep
  simp only []
  split
  · exact ⟨slotat_seg _ _, slotat_classes _ _⟩
  · exact ⟨slotat_seg _ _, slotat_classes _ _⟩

theorem assocFold_frame : ∀ (refs : List Int) (acc : Int × Int × Ctx),
    (refs.foldl assocStep acc).2.2.seg = acc.2.2.seg ∧ (refs.foldl assocStep acc).2.2.classes = acc.2.2.classes := by
  intro refs
  induction refs with
  | nil => intro acc; exact ⟨rfl, rfl⟩
  | cons r rest ih =>
    intro acc
    have h1 := assocStep_frame acc r
    have h2 := ih (assocStep acc r)
    exact ⟨by rw [List.foldl_cons, h2.1, h1.1], by rw [List.foldl_cons, h2.2, h1.2]⟩

theorem assoc_PGid {N : Nat} {K : Array (List Nat)} (c : Ctx) (rs : List Int) (h : PGid N K c) : OutcomeP (PGid N K) (opAssoc c rs) := by
  unfold opAssoc
  simp only []
  have hf := assocFold_frame rs (-1, -1, c)
  have h' : PGid N K (rs.foldl assocStep (-1, -1, c)).2.2 := ⟨by rw [hf.2]; exact h.1, by show GidOK N _; rw [hf.1]; exact h.2⟩
  split
  · split
    · exact ⟨h'.1, h'.2.updKeep _ _ (fun a => by rw [setAfter_gid, setBefore_gid])⟩
    · trivial
  · exact h'

theorem tempCopy_PGid {N : Nat} {K : Array (List Nat)} (hN : 0 < N) (c : Ctx) (h : PGid N K c) : OutcomeP (PGid N K) (opTempCopy c) := by
  unfold opTempCopy
  split
  · rename_i k seg i heq _
    have h1 := newSlot_gid hN h.2 heq
    split
    · exact ⟨h.1, h1.upd _ _ (h1 i)⟩
    · trivial
  · exact die_PGid c h

theorem attrSet_PGid {N : Nat} {K : Array (List Nat)} (c : Ctx) (a b : Nat) (v : Int) (h : PGid N K c) : OutcomeP (PGid N K) (opAttrSet c a b v) := by
  unfold opAttrSet
  split
  · trivial
  · split
    · refine ⟨?_, GidOK.sameT h.2 (setAttTo_same _ _ _ _)⟩
      unfold setAttTo
      simp only []
      split
      · split
        · exact h.1
        · split
          · exact h.1
          · exact h.1
      · exact h.1
    · simp only []
      split <;> first | exact ⟨h.1, GidOK.updKeep h.2 _ _ (fun _ => rfl)⟩ | exact h

theorem putGlyph_PGid {N : Nat} {K : Array (List Nat)} (hN : 0 < N) (hK : ClassesOK N K) (c : Ctx) (k : Nat) (h : PGid N K c) :
    OutcomeP (PGid N K) (opPutGlyph c k) := by
  unfold opPutGlyph
  split
  · exact ⟨h.1, h.2.upd _ _ (classGlyph_lt hN c (by rw [h.1]; exact hK) _ _)⟩
  · trivial

theorem putSubs_PGid {N : Nat} {K : Array (List Nat)} (hN : 0 < N) (hK : ClassesOK N K) (c : Ctx) (r : Int) (i o : Nat) (h : PGid N K c) :
    OutcomeP (PGid N K) (opPutSubs c r i o) := by
  unfold opPutSubs
  simp only []
  have h' := slotat_PGid c r h
  split
  · split
    · exact ⟨h'.1, h'.2.upd _ _ (classGlyph_lt hN _ (by rw [h'.1]; exact hK) _ _)⟩
    · trivial
  · exact h'

theorem ops_PGid {N : Nat} {K : Array (List Nat)} (hN : 0 < N) (hK : ClassesOK N K) : OpsPreserve (PGid N K) :=
  ⟨next_PGid, insert_PGid hN, delete_PGid, putCopy_PGid, assoc_PGid, tempCopy_PGid hN, attrSet_PGid, putGlyph_PGid hN hK, putSubs_PGid hN hK, slotat_PGid⟩

theorem freeSlot_gid {N : Nat} (hN : 0 < N) {s : Seg} (h : GidOK N s) (a : Nat) : GidOK N (s.freeSlot a) := by
  unfold Seg.freeSlot
  simp only []
  have h1 : GidOK N (s.dropEnds a) := by
    unfold Seg.dropEnds
    simp only []
    split <;> split <;> first | exact (h.setLast _).setFirst _ | exact h.setLast _ | exact h.setFirst _ | exact h
  have h2 : GidOK N ((s.dropEnds a).unchild a) := by
    unfold Seg.unchild
    split
    · exact h1.sameT (removeChild_same _ _ _)
    · exact h1
  have h3 := h2.sameT (detachChildren_same (((s.dropEnds a).unchild a).slots.size + 1) _ a)
  unfold Seg.recycle
  exact (h3.upd a _ hN).congr (fun _ => rfl)

theorem gcStep_PGid {N : Nat} {K : Array (List Nat)} (hN : 0 < N) (acc : Ctx × Option Nat) (k : Nat) (h : PGid N K acc.1) : PGid N K (gcStep acc k).1 := by
  unfold gcStep
  split
  · simp only []
    split
    · exact ⟨h.1, freeSlot_gid hN h.2 _⟩
    · exact h
  · exact h

theorem gc_PGid {N : Nat} {K : Array (List Nat)} (hN : 0 < N) (c : Ctx) (a : Option Nat) (h : PGid N K c) : PGid N K (collectGarbage c a).1 := by
  rw [collectGarbage_fst]; unfold gcCells
  generalize (List.range (c.size - 1)) = ks
  have : ∀ (ks : List Nat) (acc : Ctx × Option Nat), PGid N K acc.1 → PGid N K (ks.foldl gcStep acc).1 := by
    intro ks
    induction ks with
    | nil => intro acc h; exact h
    | cons k rest ih => intro acc h; exact ih _ (gcStep_PGid hN acc k h)
  exact this ks (c, a) h

theorem finishAction_PGid {N : Nat} {K : Array (List Nat)} (hN : 0 < N) (s : St) (dl : Bool) (h : PGid N K s.ctx)
    {r : Int} {st : Status} {so : Option Nat} {c : Ctx} (e : finishAction s dl = .ok (r, st, so, c)) : PGid N K c := by
  unfold finishAction at e
  simp only [] at e
  split at e
  · cases e
  · split at e
    · cases e
    · split at e
      · cases e; exact h
      · split at e
        · cases e; exact gc_PGid hN _ _ h
        · cases e; exact h

/-- **C03, rule actions.**  Whatever action code a rule runs, and after the garbage collection that follows it, every slot of the heap has
a glyph id below the glyph count, provided the class map names only real glyphs; the class map itself is not touched. -/
theorem doAction_gid {N : Nat} {K : Array (List Nat)} (hN : 0 < N) (hK : ClassesOK N K) (is : List Instr) (dl : Bool) (mr : Nat) (data : List Nat) (ctx : Ctx)
    (h : PGid N K ctx) {r : Int} {st : Status} {so : Option Nat} {c : Ctx}
    (e : doAction is dl mr data ctx = .ok (r, st, so, c)) : PGid N K c := by
  unfold doAction at e
  simp only [] at e
  split at e
  · cases e; exact h
  · have hr := runLoop_preserves (PGid N K) (ops_PGid hN hK) is { vm := initVm data, ctx := enterCtx (startCtx ctx) } ⟨h.1, h.2⟩
    split at e
    · cases e
    · rename_i s heq
      rw [heq] at hr
      exact finishAction_PGid hN s dl hr e
end GrVerif.Action

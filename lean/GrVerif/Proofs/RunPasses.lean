import GrVerif.Model.Pass
/-!
# Induction over a run of passes

`runPasses` is a fold over the pass numbers; every invariant of the engine is lifted from one pass (`runPassDir`) to a run of passes by
the two lemmas below, and from there to a call of `Silf::runGraphite` with or without the bidi step (`runPhase`).
-/
set_option linter.unusedVariables false
namespace GrVerif.Pass
open GrVerif.Seg

/-- an invariant that every pass of the range keeps is kept by the run -/
theorem runPasses_ind (I : Ctx → Prop) (passes : Array PassT) (limit : Int) (ar : Bool) (lo hi fuel : Nat)
    (hstep : ∀ k, k < hi - lo → ∀ c c', I c → runPassDir (passes.getD (lo + k) default) c fuel ar = .ok (some c') → I c')
    (c : Ctx) (h : I c) {c' : Ctx} (e : runPasses passes limit ar c lo hi fuel = .ok (some c')) : I c' := by
  unfold runPasses at e
  have : ∀ (ks : List Nat), (∀ k ∈ ks, k < hi - lo) → ∀ (acc : Except String (Option Ctx)), (∀ x, acc = .ok (some x) → I x) →
      ∀ x, ks.foldl (fun (acc : Except String (Option Ctx)) k =>
        match acc with
        | .ok (some c1) =>
          (match runPassDir (passes.getD (lo + k) default) c1 fuel ar with
           | .ok (some c2) => if c2.seg.numGlyphs > 0 ∧ c2.seg.numGlyphs > limit then .ok none else .ok (some c2)
           | o => o)
        | o => o) acc = .ok (some x) → I x := by
    intro ks
    induction ks with
    | nil => intro _ acc ha x hx; exact ha x hx
    | cons k rest ih =>
      intro hk acc ha x hx
      simp only [List.foldl_cons] at hx
      refine ih (fun k' hk' => hk k' (List.mem_cons_of_mem _ hk')) _ ?_ x hx
      intro y hy
      split at hy
      · rename_i c1
        split at hy
        · rename_i c2 hp
          split at hy
          · cases hy
          · cases hy
            exact hstep k (hk k List.mem_cons_self) c1 _ (ha c1 rfl) hp
        · rename_i o hno
          exact absurd hy (by
            intro hh
            exact hno y (by rw [hh]))
      · rename_i o hno
        exact absurd hy (fun hh => hno y hh)
  exact this (List.range (hi - lo)) (fun k hk => List.mem_range.mp hk) (.ok (some c)) (fun x hx => by cases hx; exact h) c' e

/-- an error of the run is the error of one of its passes, started from a context that satisfies the invariant -/
theorem runPasses_err (I : Ctx → Prop) (passes : Array PassT) (limit : Int) (ar : Bool) (lo hi fuel : Nat)
    (hstep : ∀ k, k < hi - lo → ∀ c c', I c → runPassDir (passes.getD (lo + k) default) c fuel ar = .ok (some c') → I c')
    (c : Ctx) (h : I c) {w : String} (e : runPasses passes limit ar c lo hi fuel = .error w) :
    ∃ k c1, k < hi - lo ∧ I c1 ∧ runPassDir (passes.getD (lo + k) default) c1 fuel ar = .error w := by
  unfold runPasses at e
  have : ∀ (ks : List Nat), (∀ k ∈ ks, k < hi - lo) → ∀ (acc : Except String (Option Ctx)),
      ((∀ x, acc = .ok (some x) → I x) ∧ (∀ w, acc = .error w → ∃ k c1, k < hi - lo ∧ I c1 ∧ runPassDir (passes.getD (lo + k) default) c1 fuel ar = .error w)) →
      ∀ w, ks.foldl (fun (acc : Except String (Option Ctx)) k =>
        match acc with
        | .ok (some c1) =>
          (match runPassDir (passes.getD (lo + k) default) c1 fuel ar with
           | .ok (some c2) => if c2.seg.numGlyphs > 0 ∧ c2.seg.numGlyphs > limit then .ok none else .ok (some c2)
           | o => o)
        | o => o) acc = .error w → ∃ k c1, k < hi - lo ∧ I c1 ∧ runPassDir (passes.getD (lo + k) default) c1 fuel ar = .error w := by
    intro ks
    induction ks with
    | nil => intro _ acc ha w hw; exact ha.2 w hw
    | cons k rest ih =>
      intro hk acc ha w hw
      simp only [List.foldl_cons] at hw
      refine ih (fun k' hk' => hk k' (List.mem_cons_of_mem _ hk')) _ ⟨?_, ?_⟩ w hw
      · intro y hy
        split at hy
        · rename_i c1
          split at hy
          · rename_i c2 hp
            split at hy
            · cases hy
            · cases hy
              exact hstep k (hk k List.mem_cons_self) c1 _ (ha.1 c1 rfl) hp
          · rename_i o hno
            exact absurd hy (by
              intro hh
              exact hno y (by rw [hh]))
        · rename_i o hno
          exact absurd hy (fun hh => hno y hh)
      · intro w' hw'
        split at hw'
        · rename_i c1
          split at hw'
          · split at hw' <;> cases hw'
          · rename_i o hno
            exact ⟨k, c1, hk k List.mem_cons_self, ha.1 c1 rfl, hw'⟩
        · exact ha.2 w' hw'
  exact this (List.range (hi - lo)) (fun k hk => List.mem_range.mp hk) (.ok (some c)) ⟨fun x hx => by cases hx; exact h, fun w hw => by cases hw⟩ w e

/-- … and by a whole call of `Silf::runGraphite`, with the bidi step inside it or not, when setting up the call and the bidi step keep it too -/
theorem runPhase_ind (I : Ctx → Prop) (passes : Array PassT) (bPass lo hi : Nat) (dobidi : Bool) (fuel aMirror : Nat)
    (hstep : ∀ ar k, lo ≤ k → k < hi → ∀ c c', I c → runPassDir (passes.getD k default) c fuel ar = .ok (some c') → I c')
    (hbegin : ∀ c l, I c → I (c.beginRange l)) (hbidi : ∀ c, I c → I (bidiStep c aMirror))
    (c : Ctx) (h : I c) {c' : Ctx} (e : runPhase passes bPass c lo hi dobidi fuel aMirror = .ok (some c')) : I c' := by
  unfold runPhase at e
  simp only [] at e
  have h0 := hbegin c (c.seg.numGlyphs * 64) h
  split at e
  · rename_i hb
    split at e
    · rename_i c1 h1
      have hle : lo ≤ bPass := by rcases hb.2 with ⟨a, _⟩ | ⟨_, a⟩ <;> omega
      have w1 : I c1 := runPasses_ind I passes _ false lo bPass fuel (fun k hk => hstep false (lo + k) (by omega) (by
          rcases hb.2 with ⟨_, a⟩ | ⟨_, a⟩
          · omega
          · omega)) _ h0 h1
      exact runPasses_ind I passes _ false bPass hi fuel (fun k hk => hstep false (bPass + k) (by omega) (by omega)) _ (hbidi c1 w1) e
    · rename_i o hno
      exact absurd e (fun hh => hno c' hh)
  · exact runPasses_ind I passes _ true lo hi fuel (fun k hk => hstep true (lo + k) (by omega) (by omega)) _ h0 e

/-- the error version -/
theorem runPhase_err (I : Ctx → Prop) (passes : Array PassT) (bPass lo hi : Nat) (dobidi : Bool) (fuel aMirror : Nat)
    (hstep : ∀ ar k, lo ≤ k → k < hi → ∀ c c', I c → runPassDir (passes.getD k default) c fuel ar = .ok (some c') → I c')
    (hbegin : ∀ c l, I c → I (c.beginRange l)) (hbidi : ∀ c, I c → I (bidiStep c aMirror))
    (c : Ctx) (h : I c) {w : String} (e : runPhase passes bPass c lo hi dobidi fuel aMirror = .error w) :
    ∃ ar k c1, lo ≤ k ∧ k < hi ∧ I c1 ∧ runPassDir (passes.getD k default) c1 fuel ar = .error w := by
  unfold runPhase at e
  simp only [] at e
  have h0 := hbegin c (c.seg.numGlyphs * 64) h
  split at e
  · rename_i hb
    have hle : lo ≤ bPass := by rcases hb.2 with ⟨a, _⟩ | ⟨_, a⟩ <;> omega
    have hs1 : ∀ k, k < bPass - lo → ∀ c c', I c → runPassDir (passes.getD (lo + k) default) c fuel false = .ok (some c') → I c' :=
      fun k hk => hstep false (lo + k) (by omega) (by
          rcases hb.2 with ⟨_, a⟩ | ⟨_, a⟩
          · omega
          · omega)
    split at e
    · rename_i c1 h1
      have w1 : I c1 := runPasses_ind I passes _ false lo bPass fuel hs1 _ h0 h1
      obtain ⟨k, c2, hk, hi2, he⟩ := runPasses_err I passes _ false bPass hi fuel (fun k hk => hstep false (bPass + k) (by omega) (by omega)) _ (hbidi c1 w1) e
      exact ⟨false, bPass + k, c2, by omega, by omega, hi2, he⟩
    · rename_i o hno
      obtain ⟨k, c2, hk, hi2, he⟩ := runPasses_err I passes _ false lo bPass fuel hs1 _ h0 e
      exact ⟨false, lo + k, c2, by omega, by
          rcases hb.2 with ⟨_, a⟩ | ⟨_, a⟩
          · omega
          · omega, hi2, he⟩
  · obtain ⟨k, c2, hk, hi2, he⟩ := runPasses_err I passes _ true lo hi fuel (fun k hk => hstep true (lo + k) (by omega) (by omega)) _ h0 e
    exact ⟨true, lo + k, c2, by omega, by omega, hi2, he⟩

/-- an invariant of the segment that a glyph change of one slot keeps is kept by `doMirror` -/
theorem doMirror_ind (I : Seg → Prop) (c : Ctx) (aMirror : Nat)
    (hupd : ∀ (s : Seg) (i g : Nat), I s → I (s.upd i fun sl => sl.setGlyph c.gadv g)) (h : I c.seg) : I (doMirror c aMirror) := by
  unfold doMirror
  generalize (ahead c.seg (2 * c.seg.slots.size + 8) c.seg.first) = l
  have : ∀ (l : List Nat) (s0 : Seg), I s0 → I (l.foldl (fun (s : Seg) i =>
      let gid := (s.get i).gid
      let g := (glyphAttr c gid aMirror % 65536).toNat
      if g ≠ 0 ∧ ((c.seg.dir / 4) % 2 = 0 ∨ glyphAttr c gid (aMirror + 1) = 0) then s.upd i fun sl => sl.setGlyph c.gadv g else s) s0) := by
    intro l
    induction l with
    | nil => intro s0 h0; exact h0
    | cons i rest ih =>
      intro s0 h0
      simp only [List.foldl_cons]
      apply ih
      split
      · exact hupd _ _ _ h0
      · exact h0
  exact this l c.seg h

/-- … and by the bidi step, when the reversal keeps it too -/
theorem bidiStep_ind (I : Seg → Prop) (aMirror : Nat) (hrev : ∀ (s : Seg) (mark : Nat → Bool), I s → I (s.reverseSlots mark))
    (hupd : ∀ (gadv : Array Int) (s : Seg) (i g : Nat), I s → I (s.upd i fun sl => sl.setGlyph gadv g)) (c : Ctx) (h : I c.seg) :
    I (bidiStep c aMirror).seg := by
  have h1 : I (turnStep c).seg := by
    unfold turnStep
    split
    · exact hrev _ _ h
    · exact h
  unfold bidiStep
  split
  · exact doMirror_ind I _ aMirror (fun s i g hs => hupd _ s i g hs) h1
  · exact h1

/-- the class map and the other tables of the rule context are not touched by the bidi step -/
theorem bidiStep_classes (c : Ctx) (aMirror : Nat) : (bidiStep c aMirror).classes = c.classes := by
  unfold bidiStep turnStep
  split <;> split <;> rfl

theorem bidiStep_vExceeded (c : Ctx) (aMirror : Nat) : (bidiStep c aMirror).vExceeded = c.vExceeded := by
  unfold bidiStep turnStep
  split <;> split <;> rfl

theorem startMirror_vExceeded (font : Font) (c : Ctx) : (startMirror font c).vExceeded = c.vExceeded := by
  unfold startMirror
  split <;> rfl

theorem startMirror_classes (font : Font) (c : Ctx) : (startMirror font c).classes = c.classes := by
  unfold startMirror
  split <;> rfl

end GrVerif.Pass

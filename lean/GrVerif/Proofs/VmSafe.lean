import GrVerif.Model.Vm
set_option linter.unusedVariables false
set_option linter.unusedSimpArgs false
/-!
# The machine's stack accesses stay inside `_stack[]` – for every program (C02, C07)

`Machine::run` works on the array `_stack[STACK_MAX + 2*STACK_GUARD]`.  The model makes every access to it explicit
(`rdStack`, `wrStack`: an index outside the array is a `stackFault`).  Here: whatever the instruction list is – accepted by
the loader or not – no instruction ever produces a `stackFault`.  The argument is the one the C++ relies on: at the start of an
instruction `STACK_GUARD ≤ sp < STACK_GUARD + STACK_MAX` (the `ENDOP` test, an *unsigned* division), one instruction pops at
most three cells and pushes at most one, and the array has `STACK_GUARD` spare cells at either end.

`Ok lo hi m lo' hi'` is a window judgement for the translated opcode bodies: started with `lo ≤ sp ≤ hi` on an array of the
declared size, `m` makes no access outside the array, and if it continues, `lo' ≤ sp ≤ hi'`.
-/
namespace GrVerif.Vm
open GrVerif.Gen.Vm

structure Ok {α : Type} (lo hi : Int) (m : VmM α) (lo' hi' : Int) : Prop where
  run : ∀ s : Vm, s.stack.size = stackSize → lo ≤ s.sp → s.sp ≤ hi →
    match m s with
    | .ok _ s' => s'.stack.size = stackSize ∧ lo' ≤ s'.sp ∧ s'.sp ≤ hi'
    | .stop w s' => (∀ i, w ≠ .stackFault i) ∧ s'.stack.size = stackSize

theorem Ok.pure {α : Type} (lo hi : Int) (x : α) : Ok lo hi (pure x : VmM α) lo hi := by
  exact ⟨fun s hs h1 h2 => ⟨hs, h1, h2⟩⟩

theorem rdStack_ok (s : Vm) (i : Int) (hs : s.stack.size = stackSize) (h0 : 0 ≤ i) (h1 : i < stackSize) :
    ∃ v, rdStack i s = .ok v s := by
  unfold rdStack
  rw [if_pos h0]
  have : i.toNat < s.stack.size := by rw [hs]; omega
  rw [Array.getElem?_eq_getElem this]
  exact ⟨_, rfl⟩

theorem wrStack_ok (s : Vm) (i v : Int) (hs : s.stack.size = stackSize) (h0 : 0 ≤ i) (h1 : i < stackSize) :
    wrStack i v s = .ok () { s with stack := s.stack.setIfInBounds i.toNat v } := by
  unfold wrStack
  have : i.toNat < s.stack.size := by rw [hs]; omega
  rw [if_pos ⟨h0, this⟩]

theorem Ok.pop (lo hi : Int) (h0 : 0 ≤ lo) (h1 : hi < stackSize) : Ok lo hi pop (lo - 1) (hi - 1) := by
  refine ⟨fun s hs a b => ?_⟩
  obtain ⟨v, hv⟩ := rdStack_ok s s.sp hs (by omega) (by omega)
  unfold Vm.pop
  rw [hv]
  exact ⟨hs, by show lo - 1 ≤ s.sp - 1; omega, by show s.sp - 1 ≤ hi - 1; omega⟩

theorem Ok.top (lo hi : Int) (h0 : 0 ≤ lo) (h1 : hi < stackSize) : Ok lo hi top lo hi := by
  refine ⟨fun s hs a b => ?_⟩
  obtain ⟨v, hv⟩ := rdStack_ok s s.sp hs (by omega) (by omega)
  unfold Vm.top
  rw [hv]
  exact ⟨hs, a, b⟩

theorem Ok.setTop (lo hi : Int) (v : Int) (h0 : 0 ≤ lo) (h1 : hi < stackSize) : Ok lo hi (setTop v) lo hi := by
  refine ⟨fun s hs a b => ?_⟩
  unfold Vm.setTop
  rw [wrStack_ok s s.sp v hs (by omega) (by omega)]
  exact ⟨by simp [hs], a, b⟩

theorem Ok.push (lo hi : Int) (v : Int) (h0 : 0 ≤ lo + 1) (h1 : hi + 1 < stackSize) : Ok lo hi (push v) (lo + 1) (hi + 1) := by
  refine ⟨fun s hs a b => ?_⟩
  unfold Vm.push
  rw [wrStack_ok { s with sp := s.sp + 1 } (s.sp + 1) v hs (by omega) (by omega)]
  exact ⟨by simp [hs], by show lo + 1 ≤ s.sp + 1; omega, by show s.sp + 1 ≤ hi + 1; omega⟩

theorem Ok.exit (lo hi : Int) (v : Int) (h0 : 0 ≤ lo + 1) (h1 : hi + 1 < stackSize) : Ok lo hi (exit v) (lo + 1) (hi + 1) := by
  refine ⟨fun s hs a b => ?_⟩
  have := (Ok.push lo hi v h0 h1).run s hs a b
  unfold Vm.exit
  revert this
  cases Vm.push v s with
  | ok x s' => intro h; exact ⟨fun i hh => (by cases hh), h.1⟩
  | stop w s' => intro h; exact h

theorem Ok.die (lo hi : Int) (h0 : 0 ≤ lo + 1) (h1 : hi + 1 < stackSize) : Ok lo hi die (lo + 1) (hi + 1) := by
  refine ⟨fun s hs a b => ?_⟩
  exact (Ok.exit lo hi 1 h0 h1).run { s with status := .died_early } hs a b

theorem Ok.declareParams (lo hi : Int) (n : Nat) : Ok lo hi (declareParams n) lo hi := by
  exact ⟨fun s hs a b => ⟨hs, a, b⟩⟩
theorem Ok.useParams (lo hi : Int) (n : Nat) : Ok lo hi (useParams n) lo hi := by
  exact ⟨fun s hs a b => ⟨hs, a, b⟩⟩
theorem Ok.param (lo hi : Int) (base : Nat) (i : Int) : Ok lo hi (param base i) lo hi := by
  refine ⟨fun s hs a b => ?_⟩
  unfold Vm.param
  cases s.data[base + i.toNat]? with
  | some v => exact ⟨hs, a, b⟩
  | none => exact ⟨fun i hh => (by cases hh), hs⟩

theorem Ok.bind {α β : Type} {lo hi lo1 hi1 lo2 hi2 : Int} {m : VmM α} {f : α → VmM β}
    (h1 : Ok lo hi m lo1 hi1) (h2 : ∀ x, Ok lo1 hi1 (f x) lo2 hi2) : Ok lo hi (m >>= f) lo2 hi2 := by
  refine ⟨fun s hs a b => ?_⟩
  have := h1.run s hs a b
  simp only [bind_apply]
  revert this
  cases m s with
  | ok x s' => intro h; exact (h2 x).run s' h.1 h.2.1 h.2.2
  | stop w s' => intro h; exact h

theorem Ok.weaken {α : Type} {lo hi a b a' b' : Int} {m : VmM α} (h : Ok lo hi m a b) (ha : a' ≤ a) (hb : b ≤ b') : Ok lo hi m a' b' := by
  refine ⟨fun s hs x y => ?_⟩
  have := h.run s hs x y
  revert this
  cases m s with
  | ok v s' => intro h; exact ⟨h.1, by omega, by omega⟩
  | stop w s' => intro h; exact h

theorem Ok.ite {α : Type} {lo hi a1 b1 a2 b2 : Int} {c : Prop} [Decidable c] {t e : VmM α}
    (h1 : Ok lo hi t a1 b1) (h2 : Ok lo hi e a2 b2) : Ok lo hi (if c then t else e) (min a1 a2) (max b1 b2) := by
  split
  · exact h1.weaken (Int.min_le_left _ _) (Int.le_max_left _ _)
  · exact h2.weaken (Int.min_le_right _ _) (Int.le_max_right _ _)

/-- one instruction: started inside the working part of the stack, it ends at most three cells lower or one cell higher -/
def OpSafe (op : VmM Unit) : Prop := Ok STACK_GUARD (STACK_GUARD + STACK_MAX - 1) op ((STACK_GUARD : Int) - 3) (STACK_GUARD + STACK_MAX)

/-- discharges `Ok` goals for the translated bodies: structural rules, side conditions by evaluation -/
macro "vm_ok" : tactic => `(tactic|
  repeat (first
    | intro _
    | exact Ok.pure _ _ _
    | (apply Ok.bind)
    | (apply Ok.ite)
    | (apply Ok.pop <;> decide)
    | (apply Ok.top <;> decide)
    | (apply Ok.setTop <;> decide)
    | (apply Ok.push <;> decide)
    | (apply Ok.exit <;> decide)
    | (apply Ok.die <;> decide)
    | exact Ok.declareParams _ _ _
    | exact Ok.useParams _ _ _
    | exact Ok.param _ _ _ _
    | dsimp only))

macro "op_safe" : tactic => `(tactic|
  (apply Ok.weaken
   case h => vm_ok
   all_goals decide))

theorem safe_nop : OpSafe op_nop := by unfold OpSafe op_nop; op_safe
theorem safe_push_byte : OpSafe op_push_byte := by unfold OpSafe op_push_byte; op_safe
theorem safe_push_byte_u : OpSafe op_push_byte_u := by unfold OpSafe op_push_byte_u; op_safe
theorem safe_push_short : OpSafe op_push_short := by unfold OpSafe op_push_short; op_safe
theorem safe_push_short_u : OpSafe op_push_short_u := by unfold OpSafe op_push_short_u; op_safe
theorem safe_push_long : OpSafe op_push_long := by unfold OpSafe op_push_long; op_safe
theorem safe_add : OpSafe op_add := by unfold OpSafe op_add; op_safe
theorem safe_sub : OpSafe op_sub := by unfold OpSafe op_sub; op_safe
theorem safe_mul : OpSafe op_mul := by unfold OpSafe op_mul; op_safe
theorem safe_div_ : OpSafe op_div_ := by unfold OpSafe op_div_; op_safe
theorem safe_min_ : OpSafe op_min_ := by unfold OpSafe op_min_; op_safe
theorem safe_max_ : OpSafe op_max_ := by unfold OpSafe op_max_; op_safe
theorem safe_neg : OpSafe op_neg := by unfold OpSafe op_neg; op_safe
theorem safe_trunc8 : OpSafe op_trunc8 := by unfold OpSafe op_trunc8; op_safe
theorem safe_trunc16 : OpSafe op_trunc16 := by unfold OpSafe op_trunc16; op_safe
theorem safe_cond : OpSafe op_cond := by unfold OpSafe op_cond; op_safe
theorem safe_and_ : OpSafe op_and_ := by unfold OpSafe op_and_; op_safe
theorem safe_or_ : OpSafe op_or_ := by unfold OpSafe op_or_; op_safe
theorem safe_not_ : OpSafe op_not_ := by unfold OpSafe op_not_; op_safe
theorem safe_equal : OpSafe op_equal := by unfold OpSafe op_equal; op_safe
theorem safe_not_eq_ : OpSafe op_not_eq_ := by unfold OpSafe op_not_eq_; op_safe
theorem safe_less : OpSafe op_less := by unfold OpSafe op_less; op_safe
theorem safe_gtr : OpSafe op_gtr := by unfold OpSafe op_gtr; op_safe
theorem safe_less_eq : OpSafe op_less_eq := by unfold OpSafe op_less_eq; op_safe
theorem safe_gtr_eq : OpSafe op_gtr_eq := by unfold OpSafe op_gtr_eq; op_safe
theorem safe_pop_ret : OpSafe op_pop_ret := by unfold OpSafe op_pop_ret; op_safe
theorem safe_ret_zero : OpSafe op_ret_zero := by unfold OpSafe op_ret_zero; op_safe
theorem safe_ret_true : OpSafe op_ret_true := by unfold OpSafe op_ret_true; op_safe
theorem safe_push_proc_state : OpSafe op_push_proc_state := by unfold OpSafe op_push_proc_state; op_safe
theorem safe_push_version : OpSafe op_push_version := by unfold OpSafe op_push_version; op_safe
theorem safe_band : OpSafe op_band := by unfold OpSafe op_band; op_safe
theorem safe_bor : OpSafe op_bor := by unfold OpSafe op_bor; op_safe
theorem safe_bnot : OpSafe op_bnot := by unfold OpSafe op_bnot; op_safe
theorem safe_setbits : OpSafe op_setbits := by unfold OpSafe op_setbits; op_safe

/-- every translated opcode body, by opcode number -/
theorem scalar_safe (opc : Nat) (op : VmM Unit) (h : scalarOp opc = some op) : OpSafe op := by
  unfold scalarOp at h
  split at h
  · cases h; exact safe_nop
  · cases h; exact safe_push_byte
  · cases h; exact safe_push_byte_u
  · cases h; exact safe_push_short
  · cases h; exact safe_push_short_u
  · cases h; exact safe_push_long
  · cases h; exact safe_add
  · cases h; exact safe_sub
  · cases h; exact safe_mul
  · cases h; exact safe_div_
  · cases h; exact safe_min_
  · cases h; exact safe_max_
  · cases h; exact safe_neg
  · cases h; exact safe_trunc8
  · cases h; exact safe_trunc16
  · cases h; exact safe_cond
  · cases h; exact safe_and_
  · cases h; exact safe_or_
  · cases h; exact safe_not_
  · cases h; exact safe_equal
  · cases h; exact safe_not_eq_
  · cases h; exact safe_less
  · cases h; exact safe_gtr
  · cases h; exact safe_less_eq
  · cases h; exact safe_gtr_eq
  · cases h; exact safe_pop_ret
  · cases h; exact safe_ret_zero
  · cases h; exact safe_ret_true
  · cases h; exact safe_push_proc_state
  · cases h; exact safe_push_version
  · cases h; exact safe_bor
  · cases h; exact safe_band
  · cases h; exact safe_bnot
  · cases h; exact safe_setbits
  · cases h

/-! ## the dispatch loop -/

/-- the `ENDOP` test lets the loop continue only with the stack pointer back in the working part of the stack -/
theorem continues_window (sp : Int) (h1 : (STACK_GUARD : Int) - 3 ≤ sp) (h2 : sp ≤ STACK_GUARD + STACK_MAX)
    (hc : continues (sp - STACK_GUARD) = true) : (STACK_GUARD : Int) ≤ sp ∧ sp ≤ STACK_GUARD + STACK_MAX - 1 := by
  unfold continues stackMaxUnsigned at hc
  simp only [if_true, decide_eq_true_eq] at hc
  have e1 : ((STACK_GUARD : Nat) : Int) = 2 := rfl
  have e2 : ((STACK_MAX : Nat) : Int) = 1024 := rfl
  rw [e1] at h1 h2 hc ⊢
  rw [e2] at h2 hc ⊢
  constructor
  · apply Classical.byContradiction
    intro hn
    have : (sp - 2) % 18446744073709551616 = sp - 2 + 18446744073709551616 := by omega
    rw [this] at hc
    omega
  · apply Classical.byContradiction
    intro hn
    have hsp : sp = 1026 := by omega
    subst hsp
    revert hc
    decide

theorem cont_is_continues (drv : Driver) : drv.cont = continues := by cases drv <;> rfl

/-- **no instruction list makes the machine touch memory outside `_stack[]`** (either driver, any data bytes) -/
theorem runLoop_stack_safe (drv : Driver) : ∀ (fuel : Nat) (is : List Nat) (s : Vm), s.stack.size = stackSize →
    (STACK_GUARD : Int) ≤ s.sp → s.sp ≤ STACK_GUARD + STACK_MAX - 1 →
    match runLoop drv.cont fuel is s with
    | .fault w _ => ∀ i, w ≠ .stackFault i
    | .normal s' => s'.stack.size = stackSize
    | .ranOff s' => s'.stack.size = stackSize := by
  intro fuel
  induction fuel with
  | zero => intro is s hs _ _; unfold runLoop; exact hs
  | succ f ih =>
    intro is s hs h1 h2
    cases is with
    | nil => unfold runLoop; exact hs
    | cons opc rest =>
      unfold runLoop
      cases hop : scalarOp opc with
      | none => exact hs
      | some op =>
        simp only []
        have hsafe := (scalar_safe opc op hop).run s hs h1 h2
        revert hsafe
        cases op s with
        | stop w s' =>
          intro hsafe
          cases w with
          | exited => exact hsafe.2
          | stackFault i => exact absurd rfl (hsafe.1 i)
          | dataFault i => intro j hh; cases hh
        | ok u s' =>
          intro hsafe
          simp only []
          by_cases hc : drv.cont (s'.sp - STACK_GUARD) = true
          · rw [if_pos hc]
            rw [cont_is_continues] at hc
            obtain ⟨w1, w2⟩ := continues_window s'.sp hsafe.2.1 hsafe.2.2 hc
            exact ih rest s' hsafe.1 w1 w2
          · rw [if_neg hc]
            exact hsafe.1

/-- … in particular from the machine's initial state -/
theorem run_stack_safe (drv : Driver) (fuel : Nat) (is : List Nat) (data : List Nat) :
    ∀ w s, runLoop drv.cont fuel is (initVm data) = .fault w s → ∀ i, w ≠ .stackFault i := by
  intro w s e
  have := runLoop_stack_safe drv fuel is (initVm data) (by simp [initVm, stackSize]) (by simp [initVm]) (by simp [initVm]; decide)
  rw [e] at this
  exact this

end GrVerif.Vm

import GrVerif.Proofs.CmapFind
import GrVerif.Props.C13
set_option linter.unusedVariables false
set_option linter.unusedSimpArgs false
namespace GrVerif.Cmap
open GrVerif GrVerif.Props.C13

/-- the subtable `firstChecked` answers has passed its check -/
theorem firstChecked_checked (t : Buf) (chk : Buf → Option Nat → Except Fault Bool) (hnone : chk t none = .ok false) :
    ∀ l o, firstChecked t chk l = .ok (some o) → chk t (some o) = .ok true := by
  intro l
  induction l with
  | nil => intro o h; unfold firstChecked at h; cases h
  | cons pe rest ih =>
    intro o h
    obtain ⟨p, e⟩ := pe
    unfold firstChecked at h
    cases hf : findSubtable t p e with
    | error x => rw [hf] at h; cases h
    | ok st =>
      rw [hf] at h
      simp only [bind, Except.bind] at h
      cases hc : chk t st with
      | error x => rw [hc] at h; cases h
      | ok b =>
        rw [hc] at h
        cases b with
        | true =>
          simp only [if_true, pure, Except.pure] at h
          cases h
          exact hc
        | false =>
          simp only [Bool.false_eq_true, if_false] at h
          exact ih o h

theorem bmp_checked (t : Buf) (o : Nat) (h : bmpSubtable t = .ok (some o)) : check4 t (some o) = .ok true := by
  unfold bmpSubtable at h
  split at h
  · cases h
  · exact firstChecked_checked t check4 rfl _ o h

theorem smp_checked (t : Buf) (o : Nat) (h : smpSubtable t = .ok (some o)) : check12 t (some o) = .ok true := by
  unfold smpSubtable at h
  split at h
  · cases h
  · exact firstChecked_checked t check12 rfl _ o h

/-- **the direct cmap as a whole**: for every cmap table `Face::Table` hands out (at least 4 bytes, any content), choosing the Unicode
subtables and – when a BMP subtable was found, which is what makes the `DirectCmap` usable – looking up any code point reads nothing
outside the table -/
theorem direct_cmap_in_bounds (t : Buf) (h4 : 4 ≤ t.size) :
    ∃ bmp smp, bmpSubtable t = .ok bmp ∧ smpSubtable t = .ok smp ∧ (bmp.isSome → ∀ usv, ∃ g, directGet t bmp smp usv = .ok g) := by
  obtain ⟨bmp, eb⟩ := bmpSubtable_total t h4
  obtain ⟨smp, es⟩ := smpSubtable_total t h4
  refine ⟨bmp, smp, eb, es, fun hb usv => ?_⟩
  unfold directGet
  by_cases hu : usv > 0xFFFF
  · rw [if_pos hu]
    cases smp with
    | none => exact ⟨_, rfl⟩
    | some o => exact lookup12_in_bounds t o (smp_checked t o es) usv 0
  · rw [if_neg hu]
    cases bmp with
    | none => cases hb
    | some o => exact direct_lookup4_in_bounds t o (bmp_checked t o eb) usv

end GrVerif.Cmap

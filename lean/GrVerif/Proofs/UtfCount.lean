import GrVerif.Proofs.Utf8
/-! The decoders of the three encodings against the specification, `validate` ⇒ no fault, and the counting loops
as refinements of the specification's `scan`. -/
set_option linter.unusedSimpArgs false
set_option linter.unusedVariables false
namespace GrVerif.Utf
open GrVerif.Spec.Utf

/-- code units of the right width -/
def UnitsOK : Enc → Mem → Prop
  | .utf8, l => ∀ x ∈ l, x < 2^8
  | .utf16, l => ∀ x ∈ l, x < 2^16
  | .utf32, l => ∀ x ∈ l, x < 2^32

theorem UnitsOK.drop {enc : Enc} {l : Mem} (h : UnitsOK enc l) (k : Nat) : UnitsOK enc (l.drop k) := by
  cases enc <;> exact fun x hx => h x (List.mem_of_mem_drop hx)

def dec : Enc → Mem → Option (Nat × Nat)
  | .utf8 => dec8 | .utf16 => dec16 | .utf32 => dec32

/-- what `get` may return on memory `l` (faults are characterised separately) -/
def GetSpec (enc : Enc) (l : Mem) : Except Fault Got → Prop
  | .error _ => True
  | .ok (u, sl) =>
      1 ≤ sl.natAbs ∧ sl.natAbs ≤ l.length ∧
      (if sl < 1 then u = 0xFFFD ∧ dec enc l = none else dec enc l = some (u, sl.natAbs))

theorem get32_spec (l : Mem) : GetSpec .utf32 l (get32 l) := by
  cases l with
  | nil => simp [get32, GetSpec]
  | cons c r =>
    simp only [get32, Gen.utf32Limit]
    by_cases h : c < 1114112 ∧ (c < 55296 ∨ c > 57343)
    · have : c < 55296 ∨ 57343 < c ∧ c < 1114112 := by omega
      simp [h, GetSpec, dec, dec32, this]
    · have : ¬ (c < 55296 ∨ 57343 < c ∧ c < 1114112) := by omega
      simp [h, GetSpec, dec, dec32, this]

theorem get16_spec (l : Mem) (hu : UnitsOK .utf16 l) : GetSpec .utf16 l (get16 l) := by
  match l, hu with
  | [], _ => simp [get16, GetSpec]
  | uh :: rest, hu =>
    have h0 : uh < 65536 := hu uh (List.mem_cons_self ..)
    simp only [get16]
    by_cases c1 : uh < 0xD800 ∨ uh > 0xDFFF
    · have : uh < 55296 ∨ 57343 < uh ∧ uh < 65536 := by omega
      simp [c1, GetSpec, dec, dec16, this]
    · have n1 : ¬ (uh < 55296 ∨ 57343 < uh ∧ uh < 65536) := by omega
      by_cases c2 : uh > 0xDBFF
      · have : ¬ uh ≤ 56319 := by omega
        simp [c1, c2, GetSpec, dec, dec16, n1, this]
      · have le : uh ≤ 56319 := by omega
        match rest, hu with
        | [], _ => simp [c1, c2, GetSpec]
        | ul :: r, hu =>
          by_cases c3 : ul < 0xDC00 ∨ ul > 0xDFFF
          · have : ¬ (56320 ≤ ul ∧ ul ≤ 57343) := by omega
            simp [c1, c2, c3, GetSpec, dec, dec16, n1, le, inR, this]
          · have hin : 56320 ≤ ul ∧ ul ≤ 57343 := by omega
            simp only [c1, c2, c3, if_false, GetSpec, dec, dec16, n1, le, inR, hin, Gen.surrogateOffset]
            simp [Nat.shiftLeft_eq]
            omega

theorem get8_getSpec (l : Mem) (hu : UnitsOK .utf8 l) : GetSpec .utf8 l (get8 l) := by
  have h := get8_spec l hu
  cases hg : get8 l with
  | error e => simp [GetSpec]
  | ok r =>
    obtain ⟨u, sl⟩ := r
    rw [hg] at h
    exact ⟨h.1, h.2.1, h.2.2.2⟩

theorem get_spec (enc : Enc) (l : Mem) (hu : UnitsOK enc l) : GetSpec enc l (get enc l) := by
  cases enc
  · exact get8_getSpec l hu
  · exact get16_spec l hu
  · exact get32_spec l

/-! ### `validate` makes every later `get` safe -/

theorem validate8_no_fault (text pre mem : Mem) (hu : UnitsOK .utf8 text) (hv : validate8 text = true)
    (hs : text = pre ++ mem) (hne : mem ≠ []) : ∃ r, get8 mem = .ok r := by
  have hum : UnitsOK .utf8 mem := by
    intro x hx; exact hu x (by rw [hs]; exact List.mem_append_right _ hx)
  have h := get8_spec mem hum
  cases hg : get8 mem with
  | ok r => exact ⟨r, rfl⟩
  | error e =>
    exfalso
    rw [hg] at h
    rcases h with h | ⟨c0, rest, rfl, hc0, hlen, hcont⟩
    · exact hne h
    · have hc0b : c0 < 256 := hum c0 (List.mem_cons_self ..)
      have hann : announced c0 ≤ 4 := by unfold announced; split <;> (try split) <;> omega
      match rest, hlen, hcont, hum with
      | [], _, _, _ =>
        have : text.reverse = c0 :: pre.reverse := by rw [hs]; simp
        unfold validate8 at hv
        rw [this] at hv
        have a1 : ¬ c0 < 128 := by omega
        simp [a1, hc0] at hv
      | [b1], hlen, hcont, hum =>
        have hb1 : b1 / 64 = 2 := hcont b1 (by simp)
        have hb1b : b1 < 256 := hum b1 (by simp)
        have : text.reverse = b1 :: c0 :: pre.reverse := by rw [hs]; simp
        unfold validate8 at hv
        rw [this] at hv
        have a1 : ¬ b1 < 128 := by omega
        have a2 : ¬ b1 ≥ 192 := by omega
        have a3 : ¬ c0 < 128 := by omega
        have a4 : c0 ≥ 224 := by
          unfold announced at hlen; simp at hlen
          split at hlen <;> omega
        simp [a1, a2, a3, a4] at hv
      | [b1, b2], hlen, hcont, hum =>
        have hb1 : b1 / 64 = 2 := hcont b1 (by simp)
        have hb2 : b2 / 64 = 2 := hcont b2 (by simp)
        have hb1b : b1 < 256 := hum b1 (by simp)
        have hb2b : b2 < 256 := hum b2 (by simp)
        have : text.reverse = b2 :: b1 :: c0 :: pre.reverse := by rw [hs]; simp
        unfold validate8 at hv
        rw [this] at hv
        have a1 : ¬ b2 < 128 := by omega
        have a2 : ¬ b2 ≥ 192 := by omega
        have a3 : ¬ b1 < 128 := by omega
        have a4 : ¬ b1 ≥ 224 := by omega
        have a5 : ¬ b1 ≥ 192 := by omega
        have a6 : ¬ c0 < 128 := by omega
        have a7 : c0 ≥ 240 := by
          unfold announced at hlen; simp at hlen
          split at hlen <;> (try split at hlen) <;> omega
        simp [a1, a2, a3, a4, a5, a6, a7] at hv
      | _ :: _ :: _ :: _, hlen, _, _ => simp at hlen; omega

theorem validate16_no_fault (text pre mem : Mem) (hv : validate16 text = true)
    (hs : text = pre ++ mem) (hne : mem ≠ []) : ∃ r, get16 mem = .ok r := by
  match mem, hne with
  | uh :: rest, _ =>
    simp only [get16]
    by_cases c1 : uh < 0xD800 ∨ uh > 0xDFFF
    · simp [c1]
    · by_cases c2 : uh > 0xDBFF
      · simp [c1, c2]
      · match rest with
        | ul :: r => by_cases c3 : ul < 0xDC00 ∨ ul > 0xDFFF <;> simp [c1, c2, c3]
        | [] =>
          exfalso
          have : text.getLast? = some uh := by rw [hs]; simp
          unfold validate16 at hv
          rw [this] at hv
          simp at hv
          omega

theorem validate_no_fault (enc : Enc) (text pre mem : Mem) (hu : UnitsOK enc text) (hv : validate enc text = true)
    (hs : text = pre ++ mem) (hne : mem ≠ []) : ∃ r, get enc mem = .ok r := by
  cases enc
  · exact validate8_no_fault text pre mem hu hv hs hne
  · exact validate16_no_fault text pre mem hv hs hne
  · match mem, hne with
    | c :: r, _ => simp only [get, get32]; split <;> exact ⟨_, rfl⟩

/-! ### the counting loops refine the specification's `scan` -/

theorem UnitsOK.of_suffix {enc : Enc} {text pre mem : Mem} (hu : UnitsOK enc text) (hs : text = pre ++ mem) :
    UnitsOK enc mem := by
  cases enc <;> exact fun x hx => hu x (by rw [hs]; exact List.mem_append_right _ hx)

/-- result of `scan` as the loop reports it: count, offset, error flag -/
def scanOut (r : Nat × Nat × Stop) : Nat × Nat × Bool := (r.1, r.2.1, decide (r.2.2 = .illFormed))

theorem countLoop_eq_scan (enc : Enc) (text : Mem) (hu : UnitsOK enc text)
    (hnf : ∀ pre mem, text = pre ++ mem → mem ≠ [] → ∃ r, get enc mem = .ok r) :
    ∀ fuel mem pre off n, text = pre ++ mem → mem.length < fuel →
      countLoop enc fuel mem off n = .ok (scanOut (scan (dec enc) fuel mem off n)) := by
  intro fuel
  induction fuel with
  | zero => intro mem pre off n _ h; omega
  | succ fuel ih =>
    intro mem pre off n hs hlen
    unfold countLoop scan
    by_cases he : mem.isEmpty = true
    · simp [he, scanOut]
    · have hne : mem ≠ [] := by simpa using he
      simp only [he, Bool.false_eq_true, if_false]
      obtain ⟨⟨u, sl⟩, hg⟩ := hnf pre mem hs hne
      have hsp := get_spec enc mem (hu.of_suffix hs)
      rw [hg] at hsp
      obtain ⟨h1, h2, h3⟩ := hsp
      simp only [hg]
      by_cases hsl : sl < 1
      · simp only [hsl, if_true] at h3
        simp [hsl, h3.2, scanOut]
      · simp only [hsl, if_false] at h3
        rw [h3]
        by_cases hz : u = 0
        · simp [hz, hsl, scanOut]
        · simp only [hz, hsl, or_self, if_false]
          have hs' : text = (pre ++ mem.take sl.natAbs) ++ mem.drop sl.natAbs := by
            rw [List.append_assoc, List.take_append_drop]; exact hs
          exact ih (mem.drop sl.natAbs) _ _ _ hs' (by simp; omega)

/-- the iterator never leaves the text, and an error position is strictly inside it -/
theorem countLoop_off (enc : Enc) (text : Mem) (hu : UnitsOK enc text) :
    ∀ fuel mem pre off n r, text = pre ++ mem → countLoop enc fuel mem off n = .ok r →
      r.2.1 ≤ off + mem.length ∧ (r.2.2 = true → r.2.1 < off + mem.length) ∧ n ≤ r.1 := by
  intro fuel
  induction fuel with
  | zero => intro mem pre off n r _ h; simp [countLoop] at h; subst h; simp
  | succ fuel ih =>
    intro mem pre off n r hs h
    unfold countLoop at h
    by_cases he : mem.isEmpty = true
    · simp [he] at h; subst h; simp
    · have hne : mem ≠ [] := by simpa using he
      have hpos : 0 < mem.length := by cases mem <;> simp_all
      simp only [he, Bool.false_eq_true, if_false] at h
      cases hg : get enc mem with
      | error e => simp [hg] at h
      | ok g =>
        obtain ⟨u, sl⟩ := g
        have hsp := get_spec enc mem (hu.of_suffix hs)
        rw [hg] at hsp
        obtain ⟨h1, h2, h3⟩ := hsp
        simp only [hg] at h
        by_cases hc : u = 0 ∨ sl < 1
        · simp [hc] at h; subst h; simp; omega
        · simp only [hc, if_false] at h
          have hs' : text = (pre ++ mem.take sl.natAbs) ++ mem.drop sl.natAbs := by
            rw [List.append_assoc, List.take_append_drop]; exact hs
          have := ih (mem.drop sl.natAbs) _ _ _ r hs' h
          rw [List.length_drop] at this
          obtain ⟨t1, t2, t3⟩ := this
          generalize sl.natAbs = k at *
          refine ⟨by omega, fun hb => ?_, by omega⟩
          have := t2 hb
          omega

/-! ### consumed units, NUL handling -/

/-- a unit that can only continue a sequence, never start a character -/
def isTrail : Enc → Nat → Bool
  | .utf8, c => c / 64 = 2
  | .utf16, c => decide (0xDC00 ≤ c ∧ c ≤ 0xDFFF)
  | .utf32, _ => false

theorem isTrail_ne_zero (enc : Enc) (c : Nat) (h : isTrail enc c = true) : c ≠ 0 := by
  cases enc <;> simp [isTrail] at h <;> omega

/-- whatever `get` consumes after the first unit are trailing units -/
theorem get_consumed (enc : Enc) (l : Mem) (hu : UnitsOK enc l) (u : Nat) (sl : Int) (h : get enc l = .ok (u, sl)) :
    ∀ c ∈ (l.take sl.natAbs).tail, isTrail enc c = true := by
  cases enc
  · have := get8_spec l hu
    simp only [get] at h
    rw [h] at this
    intro c hc
    simpa [isTrail] using this.2.2.1 c hc
  · simp only [get] at h
    match l with
    | [] => simp [get16] at h
    | uh :: rest =>
      simp only [get16] at h
      split at h
      · simp at h; obtain ⟨_, rfl⟩ := h; simp
      · split at h
        · simp at h; obtain ⟨_, rfl⟩ := h; simp
        · match rest with
          | [] => simp at h
          | ul :: r =>
            simp only at h
            split at h
            · simp at h; obtain ⟨_, rfl⟩ := h; simp
            · rename_i c3
              simp at h; obtain ⟨_, rfl⟩ := h
              simp [isTrail]; omega
  · simp only [get] at h
    match l with
    | [] => simp [get32] at h
    | c :: r =>
      simp only [get32] at h
      split at h <;> (simp at h; obtain ⟨_, rfl⟩ := h; simp)

theorem get_zero_head (enc : Enc) (r : Mem) : get enc (0 :: r) = .ok (0, 1) := by
  cases enc
  · exact get8_1 0 r (by omega)
  · simp [get, get16]
  · simp [get, get32, Gen.utf32Limit]

theorem get_no_fault_of_nul (enc : Enc) (mem : Mem) (hu : UnitsOK enc mem) (hz : 0 ∈ mem) : ∃ r, get enc mem = .ok r := by
  cases hg : get enc mem with
  | ok r => exact ⟨r, rfl⟩
  | error e =>
    exfalso
    cases enc
    · have := get8_spec mem hu
      simp only [get] at hg
      rw [hg] at this
      rcases this with h | ⟨c0, rest, rfl, hc0, _, hcont⟩
      · subst h; simp at hz
      · rcases List.mem_cons.mp hz with h | h
        · omega
        · have := hcont 0 h; omega
    · simp only [get] at hg
      match mem with
      | [] => simp at hz
      | uh :: rest =>
        simp only [get16] at hg
        split at hg
        · simp at hg
        · split at hg
          · simp at hg
          · match rest with
            | [] => simp at hz; omega
            | ul :: r => simp only at hg; split at hg <;> simp at hg
    · simp only [get] at hg
      match mem with
      | [] => simp at hz
      | c :: r => simp only [get32] at hg; split at hg <;> simp at hg

/-- if `get` did not decode a NUL character, no consumed unit is zero, so a NUL further on stays ahead -/
theorem nul_mem_drop (enc : Enc) (mem : Mem) (hu : UnitsOK enc mem) (hz : 0 ∈ mem) (u : Nat) (sl : Int)
    (hg : get enc mem = .ok (u, sl)) (hnz : ¬ (u = 0 ∧ ¬ sl < 1)) : 0 ∈ mem.drop sl.natAbs := by
  have hsp := get_spec enc mem hu
  rw [hg] at hsp
  obtain ⟨h1, h2, _⟩ := hsp
  have hcons := get_consumed enc mem hu u sl hg
  match mem with
  | [] => simp at hz
  | c0 :: rest =>
    have hc0 : c0 ≠ 0 := by
      intro h; subst h
      rw [get_zero_head] at hg
      simp at hg; obtain ⟨rfl, rfl⟩ := hg
      exact hnz ⟨rfl, by omega⟩
    have : 0 ∈ (c0 :: rest).take sl.natAbs ∨ 0 ∈ (c0 :: rest).drop sl.natAbs := by
      rw [← List.mem_append, List.take_append_drop]; exact hz
    rcases this with h | h
    · exfalso
      obtain ⟨k, hk⟩ : ∃ k, sl.natAbs = k + 1 := ⟨sl.natAbs - 1, by omega⟩
      rw [hk] at h hcons
      simp only [List.take_succ_cons, List.mem_cons] at h
      rcases h with h | h
      · exact hc0 h.symm
      · exact isTrail_ne_zero enc 0 (hcons 0 (by simpa using h)) rfl
    · exact h

theorem countNulLoop_eq_scan (enc : Enc) :
    ∀ fuel mem off n, UnitsOK enc mem → 0 ∈ mem → mem.length < fuel →
      countNulLoop enc fuel mem off n = .ok (scanOut (scan (dec enc) fuel mem off n)) := by
  intro fuel
  induction fuel with
  | zero => intro mem off n _ _ h; omega
  | succ fuel ih =>
    intro mem off n hu hz hlen
    have hne : mem.isEmpty = false := by cases mem <;> simp_all
    unfold countNulLoop scan
    obtain ⟨⟨u, sl⟩, hg⟩ := get_no_fault_of_nul enc mem hu hz
    have hsp := get_spec enc mem hu
    rw [hg] at hsp
    obtain ⟨h1, h2, h3⟩ := hsp
    simp only [hg, hne, Bool.false_eq_true, if_false]
    by_cases hsl : sl < 1
    · simp only [hsl, if_true] at h3
      simp [hsl, h3.2, scanOut]
    · simp only [hsl, if_false] at h3
      rw [h3]
      by_cases hzu : u = 0
      · simp [hzu, hsl, scanOut]
      · simp only [hzu, hsl, ne_eq, not_false_eq_true, and_self, if_true, if_false]
        exact ih _ _ _ (hu.drop _) (nul_mem_drop enc mem hu hz u sl hg (by simp [hzu])) (by simp; omega)

/-! ### text consumption of `gr_make_seg` (`readText`) -/

/-- Specification of the char-infos `(scalar, base)` produced from `mem` at code-unit offset `off` with a budget of
`n` characters: well-formed sequences give their scalar, an ill-formed one gives U+FFFD and skips at least one unit and
otherwise only trailing units, a NUL character or an exhausted budget ends the text. -/
inductive Reads (enc : Enc) : Nat → Mem → Nat → List (Nat × Nat) → Prop
  | budget (mem off) : Reads enc 0 mem off []
  | nul (n mem off k) : dec enc mem = some (0, k) → Reads enc (n + 1) mem off []
  | good (n mem off u k cs) : dec enc mem = some (u, k) → u ≠ 0 → 1 ≤ k → Reads enc n (mem.drop k) (off + k) cs →
      Reads enc (n + 1) mem off ((u, off) :: cs)
  | bad (n mem off k cs) : dec enc mem = none → 1 ≤ k → k ≤ mem.length →
      (∀ c ∈ (mem.take k).tail, isTrail enc c = true) → Reads enc n (mem.drop k) (off + k) cs →
      Reads enc (n + 1) mem off ((0xFFFD, off) :: cs)

theorem readText_reads (enc : Enc) :
    ∀ n mem off acc, UnitsOK enc mem → 0 ∈ mem →
      ∃ cs, readText enc n mem off acc = .ok (acc.reverse ++ cs) ∧ Reads enc n mem off cs := by
  intro n
  induction n with
  | zero => intro mem off acc _ _; exact ⟨[], by simp [readText], .budget ..⟩
  | succ n ih =>
    intro mem off acc hu hz
    obtain ⟨⟨u, sl⟩, hg⟩ := get_no_fault_of_nul enc mem hu hz
    have hsp := get_spec enc mem hu
    rw [hg] at hsp
    obtain ⟨h1, h2, h3⟩ := hsp
    have hcons := get_consumed enc mem hu u sl hg
    unfold readText
    simp only [hg]
    by_cases hstop : u = 0 ∧ ¬ sl < 1
    · simp only [hstop.2, if_false] at h3
      refine ⟨[], by simp [hstop], ?_⟩
      rw [hstop.1] at h3
      exact .nul _ _ _ _ h3
    · simp only [hstop, if_false]
      obtain ⟨cs, hcs, hr⟩ := ih (mem.drop sl.natAbs) (off + sl.natAbs) ((u, off) :: acc) (hu.drop _)
        (nul_mem_drop enc mem hu hz u sl hg hstop)
      refine ⟨(u, off) :: cs, by simp [hcs], ?_⟩
      by_cases hsl : sl < 1
      · simp only [hsl, if_true] at h3
        rw [h3.1]
        exact .bad _ _ _ _ _ h3.2 h1 h2 hcons hr
      · simp only [hsl, if_false] at h3
        have : u ≠ 0 := fun h => hstop ⟨h, hsl⟩
        exact .good _ _ _ _ _ _ h3 this h1 hr

/-- consequences of the specification that the properties quote -/
theorem Reads.length_le {enc n mem off cs} (h : Reads enc n mem off cs) : cs.length ≤ n := by
  induction h with
  | budget => simp
  | nul => simp
  | good _ _ _ _ _ _ _ _ _ _ ih => simp; omega
  | bad _ _ _ _ _ _ _ _ _ _ ih => simp; omega

theorem Reads.bases {enc n mem off cs} (h : Reads enc n mem off cs) :
    (∀ p ∈ cs, off ≤ p.2) ∧ (cs.map Prod.snd).Pairwise (· < ·) ∧ (∀ p ∈ cs.head?, p.2 = off) := by
  induction h with
  | budget => simp
  | nul => simp
  | good n mem off u k cs hd hu hk hr ih =>
    refine ⟨?_, ?_, by simp⟩
    · intro p hp
      rcases List.mem_cons.mp hp with rfl | hp
      · simp
      · have := ih.1 p hp; omega
    · simp only [List.map_cons, List.pairwise_cons]
      refine ⟨?_, ih.2.1⟩
      intro b hb
      obtain ⟨p, hp, rfl⟩ := List.mem_map.mp hb
      have := ih.1 p hp; omega
  | bad n mem off k cs hd hk1 hk2 htr hr ih =>
    refine ⟨?_, ?_, by simp⟩
    · intro p hp
      rcases List.mem_cons.mp hp with rfl | hp
      · simp
      · have := ih.1 p hp; omega
    · simp only [List.map_cons, List.pairwise_cons]
      refine ⟨?_, ih.2.1⟩
      intro b hb
      obtain ⟨p, hp, rfl⟩ := List.mem_map.mp hb
      have := ih.1 p hp; omega

end GrVerif.Utf

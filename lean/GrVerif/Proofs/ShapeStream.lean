import GrVerif.Proofs.PassStream
/-!
# The glyph stream of a whole shaping call

`Segment::read_text` builds a well-formed stream (one slot per character), every run of passes keeps it well formed
(Proofs/PassStream), and `associateChars` only rewrites `before/after/index`.  Hence: whatever the font's rules do, the
segment that `shape` returns has a well-formed doubly linked stream whose length is the glyph count.
-/
set_option linter.unusedVariables false
set_option linter.unusedSimpArgs false
namespace GrVerif.Pass
open GrVerif.Vm GrVerif.Seg GrVerif.Action GrVerif.Gen.Vm

/-- `Clean` without the glyph count (which `read_text` sets before the slots exist) -/
structure CleanX (s : Seg) (l : List Nat) : Prop where
  live : ∀ i ∈ l, (s.get i).deleted = false ∧ (s.get i).copied = false
  freeNodup : s.free.Nodup
  freeInb : ∀ f ∈ s.free, f < s.slots.size
  freeOut : ∀ f ∈ s.free, f ∉ l
  freeClean : ∀ f ∈ s.free, (s.get f).prev = none ∧ (s.get f).deleted = false ∧ (s.get f).copied = false

theorem CleanX.toClean {s : Seg} {l : List Nat} (h : CleanX s l) (hc : s.numGlyphs = (l.length : Int)) : Clean s l :=
  ⟨h.live, h.freeNodup, h.freeInb, h.freeOut, h.freeClean, hc⟩

/-- `newSlot` when the free list is not empty -/
theorem newSlot_free_spec {s : Seg} {l : List Nat} {k : Nat} {rest : List Nat} (g : Nat) (hl : Linked s l) (hc : CleanX s l)
    (hf : s.free = k :: rest) (hnx : ∀ f ∈ s.free, (s.get f).next = none ∨ True) :
    ∃ s', s.newSlot g = some (k, s') ∧ Linked s' l ∧ CleanX s' l ∧ k ∉ l ∧ k < s'.slots.size ∧ s'.free = rest ∧
      (s'.get k).next = none ∧ (s'.get k).deleted = false ∧ (s'.get k).copied = false ∧ s'.numGlyphs = s.numGlyphs := by
  have hmem : k ∈ s.free := by rw [hf]; exact List.mem_cons_self
  have hnd : (k :: rest).Nodup := by rw [← hf]; exact hc.freeNodup
  have hkr : k ∉ rest := (List.nodup_cons.mp hnd).1
  have hin := hc.freeInb k hmem
  have hout := hc.freeOut k hmem
  have hfc := hc.freeClean k hmem
  refine ⟨{ (s.upd k fun sl => sl.setNext none) with free := rest }, ?_, ?_, ?_, hout, by simpa using hin, rfl, ?_, ?_, ?_, rfl⟩
  · unfold Seg.newSlot; rw [hf]
  · have gk : ∀ j, j ≠ k → ({ (s.upd k fun sl => sl.setNext none) with free := rest } : Seg).get j = s.get j :=
      fun j hj => get_upd_ne s k j _ hj
    exact ⟨hl.nodup, fun j hj => by simpa using hl.inb j hj, hl.first, hl.last,
      chain_congr (fun j hj => by rw [gk j (fun hh => hout (hh ▸ hj))]; exact ⟨rfl, rfl⟩) hl.chain⟩
  · have gk : ∀ j, j ≠ k → ({ (s.upd k fun sl => sl.setNext none) with free := rest } : Seg).get j = s.get j :=
      fun j hj => get_upd_ne s k j _ hj
    refine ⟨fun j hj => by rw [gk j (fun hh => hout (hh ▸ hj))]; exact hc.live j hj, (List.nodup_cons.mp hnd).2,
      fun f hf' => by simpa using hc.freeInb f (by rw [hf]; exact List.mem_cons_of_mem _ hf'),
      fun f hf' => hc.freeOut f (by rw [hf]; exact List.mem_cons_of_mem _ hf'), fun f hf' => ?_⟩
    have hfk : f ≠ k := fun hh => hkr (hh ▸ hf')
    rw [gk f hfk]
    exact hc.freeClean f (by rw [hf]; exact List.mem_cons_of_mem _ hf')
  · show ((s.upd k fun sl => sl.setNext none).get k).next = none
    rw [get_upd_self _ _ _ hin]; rfl
  · show ((s.upd k fun sl => sl.setNext none).get k).deleted = false
    rw [get_upd_self _ _ _ hin]; exact hfc.2.1
  · show ((s.upd k fun sl => sl.setNext none).get k).copied = false
    rw [get_upd_self _ _ _ hin]; exact hfc.2.2

/-- the tail of `appendSlot` links the new slot behind the last one -/
theorem pushBack_spec {s : Seg} {l : List Nat} {k : Nat} (h : Linked s l) (hk : k ∉ l) (hks : k < s.slots.size)
    (hkn : (s.get k).next = none) :
    Linked (s.pushBack k) (l ++ [k]) ∧ Touch (l ++ [k]) s (s.pushBack k) := by
  unfold Seg.pushBack
  rw [h.last, h.first]
  have hndl : (l ++ [k]).Nodup := by
    refine List.nodup_append.mpr ⟨h.nodup, by simp, ?_⟩
    intro x hx y hy hxy
    simp only [List.mem_singleton] at hy
    exact hk (hy ▸ hxy ▸ hx)
  rcases List.eq_nil_or_concat l with ha | ⟨a', x, ha⟩
  · subst ha
    simp only [List.getLast?_nil, List.head?_nil, Option.isNone_none, ↓reduceIte, List.nil_append]
    refine ⟨⟨by simp, fun j hj => by simp at hj; subst hj; simpa using hks, rfl, rfl, ?_⟩, by touch⟩
    simp only [Chain, setFirst_get, setLast_get, List.head?_nil, Option.none_or]
    rw [get_upd_self _ _ _ hks]
    exact ⟨rfl, by simpa using hkn, trivial⟩
  · rw [List.concat_eq_append] at ha
    subst ha
    rw [getLast?_concat']
    have hne : ((a' ++ [x]).head?).isNone = false := by cases a' <;> simp
    simp only [hne, Bool.false_eq_true, ↓reduceIte]
    have hxa : x ∉ a' := fun hh => (List.nodup_append.mp h.nodup).2.2 x hh x (List.mem_singleton.mpr rfl) rfl
    have hxs : x < s.slots.size := h.inb x (by simp)
    have hkx : k ≠ x := fun hh => hk (by simp [hh])
    have c0 : Chain s none none (a' ++ [x]) := h.chain
    refine ⟨⟨hndl, ?_, ?_, by simp, ?_⟩, by touch⟩
    · intro j hj
      simp only [setLast_size, upd_size]
      rcases List.mem_append.mp hj with hj | hj
      · exact h.inb j hj
      · simp only [List.mem_singleton] at hj; rw [hj]; exact hks
    · simp only [setLast_first, upd_first]
      rw [h.first]
      cases a' <;> simp
    · rw [chain_append]
      constructor
      · simp only [List.head?_cons, Option.some_or]
        exact chain_setLast _ (chain_upd_notin k _ hk (chain_setEnd hxa hxs c0))
      · simp only [Chain, setLast_get, List.head?_nil, Option.none_or, getLast?_concat', Option.some_or]
        rw [get_upd_self _ _ _ (by simpa using hks)]
        refine ⟨rfl, ?_, trivial⟩
        simp only [setPrev_next]
        rw [get_upd_ne _ _ _ _ hkx]
        exact hkn

/-- `appendSlot` with a non-empty free list -/
theorem appendSlot_spec {s : Seg} {l : List Nat} {k : Nat} {rest : List Nat} (id gid g : Nat) (adv : Int)
    (hl : Linked s l) (hc : CleanX s l) (hf : s.free = k :: rest) :
    Linked (s.appendSlot id gid g adv) (l ++ [k]) ∧ CleanX (s.appendSlot id gid g adv) (l ++ [k]) ∧
    (s.appendSlot id gid g adv).free = rest ∧ (s.appendSlot id gid g adv).numGlyphs = s.numGlyphs ∧
    (s.appendSlot id gid g adv).slots.size = s.slots.size := by
  obtain ⟨s1, e1, l1, c1, hkl, hks, hfr, hkn, hkd, hkc, hng⟩ := newSlot_free_spec g hl hc hf (fun _ _ => .inr trivial)
  unfold Seg.appendSlot
  rw [e1]
  simp only []
  have ss : StreamSame s1 (s1.upd k fun sl => sl.initFor id gid adv) := StreamSame.upd _ _ _ (fun _ => ⟨rfl, rfl, rfl, rfl⟩)
  have l2 := l1.same ss
  have hkn2 : ((s1.upd k fun sl => sl.initFor id gid adv).get k).next = none := by rw [(ss.slot k).1]; exact hkn
  obtain ⟨l3, t3⟩ := pushBack_spec l2 hkl (by simpa using hks) hkn2
  have hsz1 : s1.slots.size = s.slots.size := by
    unfold Seg.newSlot at e1; rw [hf] at e1; simp only [Option.some.injEq, Prod.mk.injEq] at e1; rw [← e1.2]; simp
  refine ⟨l3, ⟨?_, ?_, ?_, ?_, ?_⟩, by rw [t3.free, ss.free, hfr], by rw [t3.numGlyphs, ss.numGlyphs, hng], by rw [t3.size, ss.size, hsz1]⟩
  · intro j hj
    rw [(t3.flags j).1, (t3.flags j).2, (ss.slot j).2.2.1, (ss.slot j).2.2.2]
    rcases List.mem_append.mp hj with hj | hj
    · exact c1.live j hj
    · simp only [List.mem_singleton] at hj; rw [hj]; exact ⟨hkd, hkc⟩
  · rw [t3.free, ss.free]; exact c1.freeNodup
  · intro f hf'; rw [t3.free, ss.free] at hf'; rw [t3.size, ss.size]; exact c1.freeInb f hf'
  · intro f hf'; rw [t3.free, ss.free] at hf'
    intro hh
    rcases List.mem_append.mp hh with hh | hh
    · exact c1.freeOut f hf' hh
    · simp only [List.mem_singleton] at hh
      have hnd : (k :: rest).Nodup := by rw [← hf]; exact hc.freeNodup
      exact (List.nodup_cons.mp hnd).1 (by rw [← hh, ← hfr]; exact hf')
  · intro f hf'; rw [t3.free, ss.free] at hf'
    have hfo : f ∉ l ++ [k] := by
      intro hh
      rcases List.mem_append.mp hh with hh | hh
      · exact c1.freeOut f hf' hh
      · simp only [List.mem_singleton] at hh
        have hnd : (k :: rest).Nodup := by rw [← hf]; exact hc.freeNodup
        exact (List.nodup_cons.mp hnd).1 (by rw [← hh, ← hfr]; exact hf')
    rw [t3.out f hfo, (ss.slot f).2.1, (ss.slot f).2.2.1, (ss.slot f).2.2.2]
    exact c1.freeClean f hf'

/-- appending one slot per element, as long as the free list lasts -/
theorem appendAll_spec (gidOf advOf : Nat → Nat → Int) (gf : Nat → Nat) (af : Nat → Int) :
    ∀ (xs : List (Nat × Nat)) (s : Seg) (l : List Nat), Linked s l → CleanX s l → xs.length ≤ s.free.length →
    (∀ j, j < s.slots.size → j ∉ s.free → j ∈ l) →
    ∃ l', Linked (xs.foldl (fun s (x : Nat × Nat) => s.appendSlot x.2 (gf x.1) 64 (af x.1)) s) l' ∧
      CleanX (xs.foldl (fun s (x : Nat × Nat) => s.appendSlot x.2 (gf x.1) 64 (af x.1)) s) l' ∧
      l'.length = l.length + xs.length ∧
      (xs.foldl (fun s (x : Nat × Nat) => s.appendSlot x.2 (gf x.1) 64 (af x.1)) s).numGlyphs = s.numGlyphs ∧
      (∀ j, j < (xs.foldl (fun s (x : Nat × Nat) => s.appendSlot x.2 (gf x.1) 64 (af x.1)) s).slots.size →
        j ∉ (xs.foldl (fun s (x : Nat × Nat) => s.appendSlot x.2 (gf x.1) 64 (af x.1)) s).free → j ∈ l') := by
  intro xs
  induction xs with
  | nil => intro s l hl hc _ hA; exact ⟨l, hl, hc, by simp, rfl, hA⟩
  | cons x rest ih =>
    intro s l hl hc hlen hA
    simp only [List.foldl_cons]
    cases hfree : s.free with
    | nil => rw [hfree] at hlen; simp at hlen
    | cons k fr =>
      obtain ⟨a1, a2, a3, a4, a5⟩ := appendSlot_spec x.2 (gf x.1) 64 (af x.1) hl hc hfree
      have hA' : ∀ j, j < (s.appendSlot x.2 (gf x.1) 64 (af x.1)).slots.size → j ∉ (s.appendSlot x.2 (gf x.1) 64 (af x.1)).free →
          j ∈ l ++ [k] := by
        intro j h1 h2
        rw [a5] at h1; rw [a3] at h2
        by_cases hjk : j = k
        · rw [hjk]; simp
        · exact List.mem_append_left _ (hA j h1 (by rw [hfree]; intro hh; rcases List.mem_cons.mp hh with h | h; exact hjk h; exact h2 h))
      obtain ⟨l', b1, b2, b3, b4, b5⟩ := ih _ (l ++ [k]) a1 a2 (by rw [a3]; rw [hfree] at hlen; simp at hlen ⊢; omega) hA'
      exact ⟨l', b1, b2, by rw [b3]; simp; omega, by rw [b4, a4], b5⟩

theorem get_replicate_default (n j : Nat) (s : Seg) (h : s.slots = Array.replicate n {}) : s.get j = {} := by
  unfold Seg.get
  rw [h]
  simp only [Array.getD_eq_getD_getElem?, Array.getElem?_replicate]
  split <;> rfl

/-- **`read_text` builds a well-formed stream** of one slot per character -/
theorem initSeg_wf (font : Font) (text : List Nat) (dir : Nat := 0) : WF (initSeg font text dir) := by
  unfold initSeg
  simp only []
  let s0 : Seg := { numGlyphs := text.length, numChars := text.length, slots := Array.replicate (text.length + 10) ({} : Slot), free := List.range (text.length + 10), bufSize := Nat.log2 text.length + 1, dir := dir }
  have hg : ∀ j, s0.get j = {} := fun j => get_replicate_default (text.length + 10) j s0 rfl
  have hl0 : Linked s0 [] := ⟨by simp, fun i hi => (by cases hi), rfl, rfl, trivial⟩
  have hinb : ∀ f ∈ s0.free, f < s0.slots.size := fun f hf => by
    have : f < text.length + 10 := List.mem_range.mp hf
    show f < (Array.replicate (text.length + 10) ({} : Slot)).size
    simpa using this
  have hc0 : CleanX s0 [] := ⟨fun i hi => (by cases hi), List.nodup_range, hinb, fun f _ hh => (by cases hh),
    fun f _ => (by rw [hg f]; exact ⟨rfl, rfl, rfl⟩)⟩
  obtain ⟨l', h1, h2, h3, h4, h5⟩ := appendAll_spec (fun _ _ => 0) (fun _ _ => 0) font.cmap (fun ch => font.gadv.getD (font.cmap ch) 0)
    text.zipIdx s0 [] hl0 hc0 (by show text.zipIdx.length ≤ (List.range (text.length + 10)).length; simp)
    (fun j hj hjf => by
      exfalso; apply hjf
      show j ∈ List.range (text.length + 10)
      have : j < (Array.replicate (text.length + 10) ({} : Slot)).size := hj
      exact List.mem_range.mpr (by simpa using this))
  refine ⟨l', h1, h2.toClean ?_, fun j a1 a2 _ _ => h5 j a1 a2⟩
  rw [h4, h3]
  show ((text.length : Nat) : Int) = (([] : List Nat).length + text.zipIdx.length : Nat)
  simp

/-- rewriting `before/after/index` of some slots does not touch the stream -/
theorem foldl_upd_wf {α : Type} (ix : α → Nat) (f : α → Slot → Slot)
    (hf : ∀ x a, (f x a).next = a.next ∧ (f x a).prev = a.prev ∧ (f x a).deleted = a.deleted ∧ (f x a).copied = a.copied) :
    ∀ (xs : List α) (s : Seg), WF s → WF (xs.foldl (fun s x => s.upd (ix x) (f x)) s) := by
  intro xs
  induction xs with
  | nil => intro s h; exact h
  | cons x rest ih =>
    intro s h
    simp only [List.foldl_cons]
    apply ih
    obtain ⟨l, hl, hc, ha⟩ := h
    have ss := StreamSame.upd s (ix x) (f x) (hf x)
    exact ⟨l, hl.same ss, hc.same ss, ha.same ss⟩

theorem reassoc_wf {seg seg' : Seg} {n : Nat} {ci : List Assoc.CI} (h : WF seg) (e : reassoc seg n = some (seg', ci)) : WF seg' := by
  unfold reassoc at e
  simp only [] at e
  split at e
  · cases e
  · simp only [Option.some.injEq, Prod.mk.injEq] at e
    rw [← e.1]
    apply foldl_upd_wf (fun (x : Nat × Nat) => x.1) (fun x sl => sl.setIndex x.2) (fun _ _ => ⟨rfl, rfl, rfl, rfl⟩)
    exact foldl_upd_wf (fun (x : Nat × Int × Int) => x.1) (fun x sl => (sl.setBefore x.2.1).setAfter x.2.2)
      (fun _ _ => ⟨rfl, rfl, rfl, rfl⟩) _ _ h

/-- **the whole pipeline keeps the stream.** Whatever the font's passes, rules, constraints and actions, and whatever the
text: when `shape` returns a segment, its slots form a well-formed doubly linked list – `first`/`last` are its ends,
`next`/`prev` are mutually consistent, no slot occurs twice, none is marked deleted or copied, and its length is the
segment's glyph count. -/
theorem shape_wf (font : Font) (text : List Nat) (fuel : Nat) (dir : Nat) {c : Ctx} {ci : List Assoc.CI}
    (e : shape font text fuel dir = .ok (some (c, ci))) : WF c.seg := by
  unfold shape at e
  split at e
  · simp only [Except.ok.injEq, Option.some.injEq, Prod.mk.injEq] at e
    rw [← e.1]
    exact ⟨[], ⟨by simp, fun i hi => (by cases hi), rfl, rfl, trivial⟩,
      ⟨fun i hi => (by cases hi), (by show ([] : List Nat).Nodup; simp), fun f hf => (by cases hf), fun f hf => (by cases hf),
       fun f hf => (by cases hf), rfl⟩, fun j hj => (by have : j < (#[] : Array Slot).size := hj; simp at this)⟩
  · split at e
    · cases e
    · cases e
    · rename_i c1 h1
      have w1 : WF c1.seg := runPhase_spec _ _ _ _ _ _ _ (startMirror_wf font (initSeg_wf font text dir)) h1
      split at e
      · cases e
      · rename_i seg' ci' hre
        have w2 : WF seg' := reassoc_wf w1 hre
        split at e
        · cases e
        · cases e
        · rename_i c2 h2
          simp only [Except.ok.injEq, Option.some.injEq, Prod.mk.injEq] at e
          rw [← e.1]
          exact runPhase_spec _ _ _ _ _ _ _ w2 h2

end GrVerif.Pass

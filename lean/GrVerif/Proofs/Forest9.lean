import GrVerif.Proofs.Forest8
/-!
# `Segment::linkClusters`: the bases of the stream are chained through `sibling`

The last step of `Segment::finalise`.  In a segment whose attachment pointers form a forest, it turns the bases (the
slots of the stream without a parent) into one `sibling` chain in stream order, and touches nothing else.
-/
set_option linter.unusedSimpArgs false
set_option linter.unusedVariables false
namespace GrVerif.Pass
open GrVerif.Vm GrVerif.Seg GrVerif.Action GrVerif.Gen.Vm

/-- `ls->sibling(s)` on a slot without a sibling -/
theorem sibling_set (s : Seg) (a b : Nat) (fuel : Nat) (hab : a ≠ b) (hs : (s.get a).sibling = none) :
    (sibling s (fuel + 1) a (some b)).2 = s.upd a fun sl => sl.setSibling (some b) := by
  unfold sibling
  have h1 : ¬ (some a = some b) := fun hh => hab (by cases hh; rfl)
  have h2 : ¬ (some b = (s.get a).sibling) := by rw [hs]; intro hh; cases hh
  rw [if_neg h1, if_neg h2, hs]

theorem sibling_self (s : Seg) (a : Nat) (fuel : Nat) : (sibling s (fuel + 1) a (some a)).2 = s := by
  unfold sibling
  rw [if_pos rfl]

/-- chaining the slots of `cur :: todo`, none of which has a sibling yet -/
theorem linkFold_spec : ∀ (todo : List Nat) (s : Seg) (cur : Nat), (cur :: todo).Nodup →
    (∀ x ∈ cur :: todo, (s.get x).sibling = none ∧ x < s.slots.size) →
    SibSeg (todo.foldl (linkStep 0) (s, cur)).1 (some cur) (cur :: todo) none ∧
    (todo.foldl (linkStep 0) (s, cur)).1.free = s.free ∧ (todo.foldl (linkStep 0) (s, cur)).1.slots.size = s.slots.size ∧
    (∀ j, ((todo.foldl (linkStep 0) (s, cur)).1.get j).parent = (s.get j).parent ∧
      ((todo.foldl (linkStep 0) (s, cur)).1.get j).child = (s.get j).child ∧
      ((todo.foldl (linkStep 0) (s, cur)).1.get j).copied = (s.get j).copied ∧
      ((todo.foldl (linkStep 0) (s, cur)).1.get j).deleted = (s.get j).deleted) ∧
    (∀ j, j ∉ cur :: todo → ((todo.foldl (linkStep 0) (s, cur)).1.get j).sibling = (s.get j).sibling) := by
  intro todo
  induction todo with
  | nil =>
    intro s cur _ h
    exact ⟨⟨rfl, (h cur List.mem_cons_self).1⟩, rfl, rfl, fun _ => ⟨rfl, rfl, rfl, rfl⟩, fun _ _ => rfl⟩
  | cons b rest ih =>
    intro s cur hnd h
    simp only [List.foldl_cons]
    have hcb : cur ≠ b := fun hh => (List.nodup_cons.mp hnd).1 (by rw [hh]; exact List.mem_cons_self)
    have hstep : linkStep 0 (s, cur) b = (s.upd cur fun sl => sl.setSibling (some b), b) := by
      unfold linkStep
      simp only [Nat.zero_mod, Nat.zero_ne_one, if_false]
      rw [sibling_set s cur b _ hcb (h cur List.mem_cons_self).1]
    rw [hstep]
    have hcs := (h cur List.mem_cons_self).2
    have h' : ∀ x ∈ b :: rest, ((s.upd cur fun sl => sl.setSibling (some b)).get x).sibling = none ∧
        x < (s.upd cur fun sl => sl.setSibling (some b)).slots.size := by
      intro x hx
      have hxc : x ≠ cur := fun hh => (List.nodup_cons.mp hnd).1 (hh ▸ hx)
      rw [get_upd_ne _ _ _ _ hxc]
      exact ⟨(h x (List.mem_cons_of_mem _ hx)).1, by simpa using (h x (List.mem_cons_of_mem _ hx)).2⟩
    obtain ⟨i1, i2, i3, i4, i5⟩ := ih (s.upd cur fun sl => sl.setSibling (some b)) b (List.nodup_cons.mp hnd).2 h'
    refine ⟨⟨rfl, ?_⟩, by rw [i2]; simp, by rw [i3]; simp, fun j => ?_, fun j hj => ?_⟩
    · rw [i5 cur (List.nodup_cons.mp hnd).1, get_upd_self _ _ _ hcs]
      exact i1
    · have := i4 j
      rw [this.1, this.2.1, this.2.2.1, this.2.2.2]
      refine ⟨?_, ?_, ?_, ?_⟩ <;> (rw [get_upd]; split <;> rfl)
    · have hjc : j ≠ cur := fun hh => hj (by rw [hh]; exact List.mem_cons_self)
      rw [i5 j (fun hh => hj (List.mem_cons_of_mem _ hh)), get_upd_ne _ _ _ _ hjc]

/-- **C04, last clause: the base chain.** In a segment whose stream is `l` and whose attachments form a forest,
`linkClusters` chains the bases – the slots of the stream without a parent, in stream order – through `sibling`, each
exactly once, and changes no other pointer: every attached slot keeps its `sibling`, every slot its `parent` and `child`. -/
theorem linkClusters_spec {s : Seg} {l : List Nat} (hF : Forest s) (hl : Linked s l) (hc : Clean s l) :
    SibChain (linkClusters s 0) (l.filter fun i => (s.get i).parent.isNone).head? (l.filter fun i => (s.get i).parent.isNone) ∧
    (∀ j, ((linkClusters s 0).get j).parent = (s.get j).parent ∧ ((linkClusters s 0).get j).child = (s.get j).child ∧
      ((linkClusters s 0).get j).copied = (s.get j).copied) ∧
    (∀ j, (s.get j).parent ≠ none → ((linkClusters s 0).get j).sibling = (s.get j).sibling) := by
  unfold linkClusters
  simp only []
  rw [ahead_stream hl]
  cases hb : (l.filter fun i => (s.get i).parent.isNone) with
  | nil =>
    exact ⟨rfl, fun _ => ⟨rfl, rfl, rfl⟩, fun _ _ => rfl⟩
  | cons b0 rest =>
    simp only [List.head?_cons]
    have hmem : ∀ x ∈ b0 :: rest, x ∈ l ∧ (s.get x).parent = none := by
      intro x hx
      rw [← hb] at hx
      have := List.mem_filter.mp hx
      refine ⟨this.1, ?_⟩
      cases hq : (s.get x).parent with
      | none => rfl
      | some p => rw [hq] at this; simp at this
    have hnd : (b0 :: rest).Nodup := by rw [← hb]; exact hl.nodup.filter _
    have hroots : ∀ x ∈ b0 :: rest, (s.get x).sibling = none ∧ x < s.slots.size := fun x hx =>
      ⟨hF.root x (hc.live x (hmem x hx).1).2 (hmem x hx).2, hl.inb x (hmem x hx).1⟩
    -- the first step links the first base with itself: nothing happens
    have hfirst : linkStep 0 (s, b0) b0 = (s, b0) := by
      unfold linkStep
      simp only [Nat.zero_mod, Nat.zero_ne_one, if_false]
      rw [sibling_self]
    rw [List.foldl_cons, hfirst]
    obtain ⟨i1, _, _, i4, i5⟩ := linkFold_spec rest s b0 hnd hroots
    refine ⟨i1, fun j => ⟨(i4 j).1, (i4 j).2.1, (i4 j).2.2.1⟩, fun j hj => i5 j (fun hh => hj (hmem j hh).2)⟩

end GrVerif.Pass

import GrVerif.Proofs.Rules
set_option linter.unusedVariables false
set_option linter.unusedSimpArgs false
namespace GrVerif.Pass
open GrVerif.Vm GrVerif.Seg GrVerif.Action

/-! ## the declarative reading of a pass's state machine -/

/-- the column of a glyph id, if it has one -/
def colOf (p : PassT) (g : Nat) : Option Nat :=
  if g < p.cols.size ∧ p.cols.getD g 0xFFFF ≠ 0xFFFF then some (p.cols.getD g 0xFFFF) else none

/-- the columns of the glyphs ahead, up to the first glyph that is in no column -/
def colWord (p : PassT) : List Nat → List Nat
  | [] => []
  | g :: rest => match colOf p g with
    | some c => c :: colWord p rest
    | none => []

/-- `l` holds, in precedence order, exactly the rules whose (non-empty) pattern is a prefix of the column word `u` -/
def RulesFor (p : PassT) (pats : Array (List Nat)) (u : List Nat) (l : List Nat) : Prop :=
  Sorted p l ∧ ∀ r, r ∈ l ↔ (r < pats.size ∧ pats.getD r [] ≠ [] ∧ pats.getD r [] <+: u)

/-- what makes the tables of a pass a faithful encoding of the rule patterns `pats` (all conditions are finite checks;
`lab s` is the column word that leads to state `s`) -/
structure TrieOK (p : PassT) (pats : Array (List Nat)) (lab : Nat → List Nat) : Prop where
  ss_pos : 0 < p.successStart
  ss_le : p.successStart ≤ p.numStates
  start : lab 0 = []
  small : 2 * pats.size ≤ MAX_RULES
  nonempty : ∀ r, r < pats.size → pats.getD r [] ≠ []
  inRange : ∀ s, s < p.numTransition → ∀ c, c < p.numColumns → (p.trans.getD s #[]).getD c 0 < p.numStates
  dead : ∀ s, s < p.numTransition → ∀ c, c < p.numColumns → (p.trans.getD s #[]).getD c 0 = 0 →
      ∀ r, r < pats.size → ¬ (lab s ++ [c] <+: pats.getD r [])
  live : ∀ s, s < p.numTransition → ∀ c, c < p.numColumns → (p.trans.getD s #[]).getD c 0 ≠ 0 →
      lab ((p.trans.getD s #[]).getD c 0) = lab s ++ [c]
  colsOK : ∀ g, g < p.cols.size → p.cols.getD g 0xFFFF = 0xFFFF ∨ p.cols.getD g 0xFFFF < p.numColumns
  leaf : ∀ s, p.numTransition ≤ s → s < p.numStates → ∀ r, r < pats.size → lab s <+: pats.getD r [] → pats.getD r [] = lab s
  succ : ∀ s, p.successStart ≤ s → s < p.numStates → (p.ruleMap.getD (s - p.successStart) []).Nodup ∧
      ∀ r, r ∈ p.ruleMap.getD (s - p.successStart) [] ↔ (r < pats.size ∧ pats.getD r [] = lab s)
  nonsucc : ∀ s, s < p.successStart → ∀ r, r < pats.size → pats.getD r [] ≠ lab s ∨ s = 0
  depth : ∀ s, s < p.numStates → (lab s).length + 2 ≤ MAX_SLOTS

theorem sorted_nodup {p : PassT} {l : List Nat} (h : Sorted p l) : l.Nodup := by
  unfold Sorted at h
  exact h.imp (fun {a b} hab e => by rw [e, ruleLt_irrefl] at hab; cases hab)

theorem length_le_of_bounded : ∀ (n : Nat) (l : List Nat), l.Nodup → (∀ x ∈ l, x < n) → l.length ≤ n := by
  intro n
  induction n with
  | zero => intro l _ h; cases l with | nil => simp | cons a t => exact absurd (h a List.mem_cons_self) (by omega)
  | succ k ih =>
    intro l hn hb
    -- remove k from l
    have h1 : (l.erase k).length ≤ k := ih (l.erase k) (hn.erase k) (fun x hx => by
      have hx' := List.mem_of_mem_erase hx
      have hne : x ≠ k := fun e => by rw [e] at hx; exact (List.Nodup.mem_erase_iff hn).mp hx |>.1 rfl
      have := hb x hx'; omega)
    have h2 : l.length ≤ (l.erase k).length + 1 := by
      by_cases hk : k ∈ l
      · rw [List.length_erase_of_mem hk]; omega
      · rw [List.erase_of_not_mem hk]; omega
    omega

/-- a proper extension of `u` inside `u ++ c :: w` starts with `u ++ [c]` -/
theorem prefix_split {a u w : List Nat} {c : Nat} (h : a <+: u ++ c :: w) : a <+: u ∨ u ++ [c] <+: a := by
  rcases List.prefix_or_prefix_of_prefix h (List.prefix_append u (c :: w)) with h1 | h1
  · exact .inl h1
  · obtain ⟨t, rfl⟩ := h1
    cases t with
    | nil => exact .inl (by simp)
    | cons x y =>
      right
      have : x :: y <+: c :: w := (List.prefix_append_right_inj u).mp h
      obtain ⟨z, hz⟩ := this
      simp only [List.cons_append, List.cons.injEq] at hz
      rw [hz.1]
      exact ⟨y, by simp⟩

end GrVerif.Pass

namespace GrVerif.Pass

theorem rulesFor_extend {p : PassT} {pats : Array (List Nat)} {u w l : List Nat} (h : RulesFor p pats u l)
    (hw : ∀ r, r < pats.size → pats.getD r [] <+: u ++ w → pats.getD r [] <+: u) : RulesFor p pats (u ++ w) l := by
  refine ⟨h.1, fun r => ?_⟩
  rw [h.2 r]
  constructor
  · rintro ⟨h1, h2, h3⟩
    exact ⟨h1, h2, h3.trans (List.prefix_append u w)⟩
  · rintro ⟨h1, h2, h3⟩
    exact ⟨h1, h2, hw r h1 h3⟩

theorem rulesFor_len {p : PassT} {pats : Array (List Nat)} {u l : List Nat} (h : RulesFor p pats u l) : l.length ≤ pats.size :=
  length_le_of_bounded pats.size l (sorted_nodup h.1) (fun x hx => ((h.2 x).mp hx).1)

theorem colOf_lt {p : PassT} {pats : Array (List Nat)} {lab : Nat → List Nat} (ok : TrieOK p pats lab) {g c : Nat}
    (h : colOf p g = some c) : c < p.numColumns ∧ g < p.cols.size ∧ p.cols.getD g 0xFFFF = c ∧ c ≠ 0xFFFF := by
  unfold colOf at h
  split at h
  · rename_i hh
    simp only [Option.some.injEq] at h
    rcases ok.colsOK g hh.1 with e | e
    · exact absurd e hh.2
    · exact ⟨by rw [← h]; exact e, hh.1, h, by rw [← h]; exact hh.2⟩
  · cases h

/-- **C06, matching.** When the tables of a pass encode the rule patterns `pats` (`TrieOK`), the state machine walk over the
glyphs ahead collects – in precedence order, each once – exactly the rules whose pattern is a prefix of the column word of
those glyphs (and it never runs out of the 64 slot-map cells). -/
theorem fsmScan_spec {p : PassT} {pats : Array (List Nat)} {lab : Nat → List Nat} (ok : TrieOK p pats lab) :
    ∀ (gids : List Nat) (s : Nat) (u : List Nat) (free : Nat) (rules : List Nat) (pushed : Nat),
      s < p.numStates → lab s = u → RulesFor p pats u rules → free + u.length = MAX_SLOTS →
      (fsmScan p gids s free rules pushed).1 = true ∧
      RulesFor p pats (u ++ colWord p gids) (fsmScan p gids s free rules pushed).2.2.2 := by
  intro gids
  induction gids with
  | nil =>
    intro s u free rules pushed _ _ hr _
    simp only [fsmScan, colWord, List.append_nil]
    exact ⟨by trivial, hr⟩
  | cons g rest ih =>
    intro s u free rules pushed hs hl hr hfree
    unfold fsmScan
    simp only []
    cases hc : colOf p g with
    | none =>
      have hcond : g ≥ p.cols.size ∨ p.cols.getD g 0xFFFF = 0xFFFF := by
        unfold colOf at hc
        split at hc
        · cases hc
        · rename_i hh
          by_cases h1 : g < p.cols.size
          · right
            apply Classical.byContradiction
            intro h2; exact hh ⟨h1, h2⟩
          · left; omega
      rw [if_pos hcond]
      simp only [colWord, hc, List.append_nil]
      exact ⟨by trivial, hr⟩
    | some c =>
      obtain ⟨hcn, hgs, hcv, hcf⟩ := colOf_lt ok hc
      have hncond : ¬ (g ≥ p.cols.size ∨ p.cols.getD g 0xFFFF = 0xFFFF) := by
        rw [hcv]; intro h; rcases h with h | h
        · omega
        · exact hcf h
      rw [if_neg hncond]
      have hf1 : ¬ (free - 1 = 0) := by have := ok.depth s hs; rw [hl] at this; omega
      rw [if_neg hf1]
      have hword : colWord p (g :: rest) = c :: colWord p rest := by simp [colWord, hc]
      rw [hword]
      by_cases hleaf : s ≥ p.numTransition
      · rw [if_pos hleaf]
        refine ⟨rfl, rulesFor_extend hr (fun r hrs hp => ?_)⟩
        rcases List.prefix_or_prefix_of_prefix hp (List.prefix_append u _) with h1 | h1
        · exact h1
        · have := ok.leaf s hleaf hs r hrs (by rw [hl]; exact h1)
          rw [this, hl]; exact List.prefix_refl _
      · rw [if_neg hleaf]
        have hst : s < p.numTransition := by omega
        rw [hcv]
        generalize ht : (p.trans.getD s #[]).getD c 0 = t
        have htr := ok.inRange s hst c hcn
        rw [ht] at htr
        by_cases ht0 : t = 0
        · -- dead transition
          subst ht0
          have hss : ¬ (0 ≥ p.successStart) := by have := ok.ss_pos; omega
          rw [if_neg hss]
          have hstop : ¬ ((0 : Nat) ≠ 0 ∧ ¬ rest.isEmpty = true) := by simp
          rw [if_neg hstop]
          refine ⟨rfl, rulesFor_extend hr (fun r hrs hp => ?_)⟩
          rcases prefix_split hp with h1 | h1
          · exact h1
          · exact absurd (by rw [hl]; exact h1) (ok.dead s hst c hcn ht r hrs)
        · have hlab : lab t = u ++ [c] := by rw [← ht, ← hl]; exact ok.live s hst c hcn (by rw [ht]; exact ht0)
          -- the rules after this step
          have hrules : RulesFor p pats (u ++ [c])
              (if t ≥ p.successStart then accumulate p rules (sortRules p (p.ruleMap.getD (t - p.successStart) [])) else rules) := by
            split
            · rename_i hsucc
              obtain ⟨hnd, hmem⟩ := ok.succ t hsucc htr
              have hsr := sortRules_spec p _ hnd
              have hlen1 := rulesFor_len hr
              have hlen2 : (sortRules p (p.ruleMap.getD (t - p.successStart) [])).length ≤ pats.size :=
                length_le_of_bounded pats.size _ (sorted_nodup hsr.1) (fun x hx => ((hmem x).mp ((hsr.2 x).mp hx)).1)
              have hacc := accumulate_spec p rules _ hr.1 hsr.1 (by have := ok.small; omega)
              refine ⟨hacc.1, fun r => ?_⟩
              rw [hacc.2 r, hr.2 r, hsr.2 r, hmem r, hlab]
              constructor
              · rintro (⟨h1, h2, h3⟩ | ⟨h1, h2⟩)
                · exact ⟨h1, h2, h3.trans (List.prefix_append u [c])⟩
                · exact ⟨h1, ok.nonempty r h1, by rw [h2]; exact List.prefix_refl _⟩
              · rintro ⟨h1, h2, h3⟩
                rcases prefix_split (w := []) h3 with h4 | h4
                · exact .inl ⟨h1, h2, h4⟩
                · exact .inr ⟨h1, List.IsPrefix.eq_of_length_le h3 (List.IsPrefix.length_le h4)⟩
            · rename_i hns
              refine ⟨hr.1, fun r => ?_⟩
              rw [hr.2 r]
              constructor
              · rintro ⟨h1, h2, h3⟩
                exact ⟨h1, h2, h3.trans (List.prefix_append u [c])⟩
              · rintro ⟨h1, h2, h3⟩
                rcases prefix_split (w := []) h3 with h4 | h4
                · exact ⟨h1, h2, h4⟩
                · have heq := List.IsPrefix.eq_of_length_le h3 (List.IsPrefix.length_le h4)
                  rcases ok.nonsucc t (by omega) r h1 with h5 | h5
                  · exact absurd (by rw [heq, hlab]) h5
                  · exact absurd h5 ht0
          revert hrules
          generalize (if t ≥ p.successStart then accumulate p rules (sortRules p (p.ruleMap.getD (t - p.successStart) [])) else rules) = rules'
          intro hrules
          by_cases hgo : t ≠ 0 ∧ ¬ rest.isEmpty = true
          · rw [if_pos hgo]
            have := ih t (u ++ [c]) (free - 1) rules' (pushed + 1) htr hlab hrules (by simp only [List.length_append, List.length_singleton]; omega)
            simpa [List.append_assoc] using this
          · rw [if_neg hgo]
            have hre : rest = [] := by
              cases rest with
              | nil => rfl
              | cons a b => exact absurd ⟨ht0, by simp⟩ hgo
            subst hre
            simp only [colWord]
            exact ⟨by trivial, hrules⟩

end GrVerif.Pass

namespace GrVerif.Pass
/-- the statement at the start state: this is what `runFSM` hands to the rule search -/
theorem fsm_matches_patterns {p : PassT} {pats : Array (List Nat)} {lab : Nat → List Nat} (ok : TrieOK p pats lab) (gids : List Nat) :
    (fsmScan p gids 0 MAX_SLOTS [] 0).1 = true ∧
    RulesFor p pats (colWord p gids) (fsmScan p gids 0 MAX_SLOTS [] 0).2.2.2 := by
  have h0 : RulesFor p pats [] [] := by
    refine ⟨by simp [Sorted], fun r => ?_⟩
    constructor
    · intro h; cases h
    · rintro ⟨h1, h2, h3⟩
      exact absurd (List.prefix_nil.mp h3) h2
  have := fsmScan_spec ok gids 0 [] MAX_SLOTS [] 0 (by have := ok.ss_pos; have := ok.ss_le; omega) ok.start h0 (by simp)
  simpa using this
end GrVerif.Pass

namespace GrVerif.Pass

/-- the labels of the states: the column word that leads to each state, found by following the transitions from the start
state (breadth first, `fuel` rounds); unreachable states keep `[]` -/
def labelStates (p : PassT) : Array (List Nat) :=
  let init : Array (List Nat) := Array.replicate p.numStates []
  let round (lab : Array (List Nat)) : Array (List Nat) :=
    (List.range p.numTransition).foldl (fun lab s =>
      (List.range p.numColumns).foldl (fun lab c =>
        let t := (p.trans.getD s #[]).getD c 0
        if t ≠ 0 ∧ (s = 0 ∨ lab.getD s [] ≠ []) then lab.setIfInBounds t (lab.getD s [] ++ [c]) else lab) lab) lab
  (List.range (MAX_SLOTS + 1)).foldl (fun lab _ => round lab) init

/-- the finite checks of `TrieOK`, as one Boolean -/
def trieCheck (p : PassT) (pats : Array (List Nat)) (lab : Nat → List Nat) : Bool :=
  decide (0 < p.successStart) && decide (p.successStart ≤ p.numStates) && decide (lab 0 = []) && decide (2 * pats.size ≤ MAX_RULES) &&
  decide (∀ r, r < pats.size → pats.getD r [] ≠ []) &&
  decide (∀ s, s < p.numTransition → ∀ c, c < p.numColumns → (p.trans.getD s #[]).getD c 0 < p.numStates) &&
  decide (∀ s, s < p.numTransition → ∀ c, c < p.numColumns → (p.trans.getD s #[]).getD c 0 = 0 →
      ∀ r, r < pats.size → ¬ (lab s ++ [c] <+: pats.getD r [])) &&
  decide (∀ s, s < p.numTransition → ∀ c, c < p.numColumns → (p.trans.getD s #[]).getD c 0 ≠ 0 →
      lab ((p.trans.getD s #[]).getD c 0) = lab s ++ [c]) &&
  decide (∀ g, g < p.cols.size → p.cols.getD g 0xFFFF = 0xFFFF ∨ p.cols.getD g 0xFFFF < p.numColumns) &&
  decide (∀ s, s < p.numStates → p.numTransition ≤ s → ∀ r, r < pats.size → lab s <+: pats.getD r [] → pats.getD r [] = lab s) &&
  decide (∀ s, s < p.numStates → p.successStart ≤ s → (p.ruleMap.getD (s - p.successStart) []).Nodup) &&
  decide (∀ s, s < p.numStates → p.successStart ≤ s → ∀ r, r ∈ p.ruleMap.getD (s - p.successStart) [] → (r < pats.size ∧ pats.getD r [] = lab s)) &&
  decide (∀ s, s < p.numStates → ∀ r, r < pats.size → (s < p.successStart ∨ pats.getD r [] ≠ lab s ∨ r ∈ p.ruleMap.getD (s - p.successStart) [])) &&
  decide (∀ s, s < p.successStart → ∀ r, r < pats.size → pats.getD r [] ≠ lab s ∨ s = 0) &&
  decide (∀ s, s < p.numStates → (lab s).length + 2 ≤ MAX_SLOTS)

theorem trieCheck_sound {p : PassT} {pats : Array (List Nat)} {lab : Nat → List Nat} (h : trieCheck p pats lab = true) : TrieOK p pats lab := by
  unfold trieCheck at h
  simp only [Bool.and_eq_true, decide_eq_true_eq] at h
  obtain ⟨⟨⟨⟨⟨⟨⟨⟨⟨⟨⟨⟨⟨⟨h1, h2⟩, h3⟩, h4⟩, h5⟩, h6⟩, h7⟩, h8⟩, h9⟩, h10⟩, h11a⟩, h11b⟩, h11c⟩, h12⟩, h13⟩ := h
  exact ⟨h1, h2, h3, h4, h5, h6, h7, h8, h9, fun s a b => h10 s b a,
    fun s a b => ⟨h11a s b a, fun r => ⟨h11b s b a r, fun hh => by rcases h11c s b r hh.1 with e | e | e; omega; exact absurd hh.2 e; exact e⟩⟩, h12, h13⟩

end GrVerif.Pass

import GrVerif.Model.Action
/-!
# Basic facts about the slot arena: reading after writing, frame lemmas of the attachment primitives
-/
set_option linter.unusedSimpArgs false
set_option linter.unusedVariables false
namespace GrVerif.Seg

theorem get_upd (s : Seg) (i j : Nat) (f : Slot → Slot) :
    (s.upd i f).get j = if j = i ∧ i < s.slots.size then f (s.get j) else s.get j := by
  unfold Seg.upd Seg.get
  simp only [Array.getD_eq_getD_getElem?, Array.getElem?_modify]
  by_cases hj : j = i
  · subst hj
    by_cases hi : j < s.slots.size
    · simp [hi]
    · simp [hi]
  · have : ¬ i = j := fun h => hj h.symm
    simp [hj, this]

theorem get_upd_self (s : Seg) (i : Nat) (f : Slot → Slot) (h : i < s.slots.size) : (s.upd i f).get i = f (s.get i) := by
  rw [get_upd]; simp [h]

theorem get_upd_ne (s : Seg) (i j : Nat) (f : Slot → Slot) (h : j ≠ i) : (s.upd i f).get j = s.get j := by
  rw [get_upd]; simp [h]

@[simp] theorem upd_size (s : Seg) (i : Nat) (f : Slot → Slot) : (s.upd i f).slots.size = s.slots.size := by
  simp [Seg.upd]
@[simp] theorem upd_first (s : Seg) (i : Nat) (f : Slot → Slot) : (s.upd i f).first = s.first := rfl
@[simp] theorem upd_last (s : Seg) (i : Nat) (f : Slot → Slot) : (s.upd i f).last = s.last := rfl
@[simp] theorem upd_free (s : Seg) (i : Nat) (f : Slot → Slot) : (s.upd i f).free = s.free := rfl
@[simp] theorem upd_numGlyphs (s : Seg) (i : Nat) (f : Slot → Slot) : (s.upd i f).numGlyphs = s.numGlyphs := rfl
@[simp] theorem upd_numChars (s : Seg) (i : Nat) (f : Slot → Slot) : (s.upd i f).numChars = s.numChars := rfl
@[simp] theorem upd_defaultOriginal (s : Seg) (i : Nat) (f : Slot → Slot) : (s.upd i f).defaultOriginal = s.defaultOriginal := rfl
@[simp] theorem upd_bufSize (s : Seg) (i : Nat) (f : Slot → Slot) : (s.upd i f).bufSize = s.bufSize := rfl


/-! setters and getters -/
section setters
variable (sl : Slot) (v : Option Nat) (b : Bool) (x : Int)
@[simp] theorem setNext_next : (sl.setNext v).next = v := rfl
@[simp] theorem setNext_prev : (sl.setNext v).prev = sl.prev := rfl
@[simp] theorem setNext_parent : (sl.setNext v).parent = sl.parent := rfl
@[simp] theorem setNext_child : (sl.setNext v).child = sl.child := rfl
@[simp] theorem setNext_sibling : (sl.setNext v).sibling = sl.sibling := rfl
@[simp] theorem setNext_deleted : (sl.setNext v).deleted = sl.deleted := rfl
@[simp] theorem setNext_copied : (sl.setNext v).copied = sl.copied := rfl
@[simp] theorem setNext_before : (sl.setNext v).before = sl.before := rfl
@[simp] theorem setNext_after : (sl.setNext v).after = sl.after := rfl
@[simp] theorem setNext_original : (sl.setNext v).original = sl.original := rfl
@[simp] theorem setPrev_next : (sl.setPrev v).next = sl.next := rfl
@[simp] theorem setPrev_prev : (sl.setPrev v).prev = v := rfl
@[simp] theorem setPrev_parent : (sl.setPrev v).parent = sl.parent := rfl
@[simp] theorem setPrev_child : (sl.setPrev v).child = sl.child := rfl
@[simp] theorem setPrev_sibling : (sl.setPrev v).sibling = sl.sibling := rfl
@[simp] theorem setPrev_deleted : (sl.setPrev v).deleted = sl.deleted := rfl
@[simp] theorem setPrev_copied : (sl.setPrev v).copied = sl.copied := rfl
@[simp] theorem setPrev_before : (sl.setPrev v).before = sl.before := rfl
@[simp] theorem setPrev_after : (sl.setPrev v).after = sl.after := rfl
@[simp] theorem setPrev_original : (sl.setPrev v).original = sl.original := rfl
@[simp] theorem setDeleted_next : (sl.setDeleted b).next = sl.next := rfl
@[simp] theorem setDeleted_prev : (sl.setDeleted b).prev = sl.prev := rfl
@[simp] theorem setDeleted_deleted : (sl.setDeleted b).deleted = b := rfl
@[simp] theorem setDeleted_copied : (sl.setDeleted b).copied = sl.copied := rfl
@[simp] theorem setDeleted_parent : (sl.setDeleted b).parent = sl.parent := rfl
@[simp] theorem setDeleted_child : (sl.setDeleted b).child = sl.child := rfl
@[simp] theorem setDeleted_sibling : (sl.setDeleted b).sibling = sl.sibling := rfl
@[simp] theorem setCopied_next : (sl.setCopied b).next = sl.next := rfl
@[simp] theorem setCopied_prev : (sl.setCopied b).prev = sl.prev := rfl
@[simp] theorem setCopied_deleted : (sl.setCopied b).deleted = sl.deleted := rfl
@[simp] theorem setCopied_copied : (sl.setCopied b).copied = b := rfl
@[simp] theorem setBefore_next : (sl.setBefore x).next = sl.next := rfl
@[simp] theorem setBefore_prev : (sl.setBefore x).prev = sl.prev := rfl
@[simp] theorem setBefore_deleted : (sl.setBefore x).deleted = sl.deleted := rfl
@[simp] theorem setBefore_copied : (sl.setBefore x).copied = sl.copied := rfl
@[simp] theorem setAfter_next : (sl.setAfter x).next = sl.next := rfl
@[simp] theorem setAfter_prev : (sl.setAfter x).prev = sl.prev := rfl
@[simp] theorem setAfter_deleted : (sl.setAfter x).deleted = sl.deleted := rfl
@[simp] theorem setAfter_copied : (sl.setAfter x).copied = sl.copied := rfl
@[simp] theorem setOriginal_next : (sl.setOriginal x).next = sl.next := rfl
@[simp] theorem setOriginal_prev : (sl.setOriginal x).prev = sl.prev := rfl
@[simp] theorem setOriginal_deleted : (sl.setOriginal x).deleted = sl.deleted := rfl
@[simp] theorem setOriginal_copied : (sl.setOriginal x).copied = sl.copied := rfl
@[simp] theorem setParent_next : (sl.setParent v).next = sl.next := rfl
@[simp] theorem setParent_prev : (sl.setParent v).prev = sl.prev := rfl
@[simp] theorem setParent_deleted : (sl.setParent v).deleted = sl.deleted := rfl
@[simp] theorem setParent_copied : (sl.setParent v).copied = sl.copied := rfl
end setters

@[simp] theorem setFirst_get (s : Seg) (v : Option Nat) (j : Nat) : (s.setFirst v).get j = s.get j := rfl
@[simp] theorem setLast_get (s : Seg) (v : Option Nat) (j : Nat) : (s.setLast v).get j = s.get j := rfl
@[simp] theorem addGlyphs_get (s : Seg) (d : Int) (j : Nat) : (s.addGlyphs d).get j = s.get j := rfl
@[simp] theorem setFirst_first (s : Seg) (v : Option Nat) : (s.setFirst v).first = v := rfl
@[simp] theorem setFirst_last (s : Seg) (v : Option Nat) : (s.setFirst v).last = s.last := rfl
@[simp] theorem setLast_first (s : Seg) (v : Option Nat) : (s.setLast v).first = s.first := rfl
@[simp] theorem setLast_last (s : Seg) (v : Option Nat) : (s.setLast v).last = v := rfl
@[simp] theorem addGlyphs_first (s : Seg) (d : Int) : (s.addGlyphs d).first = s.first := rfl
@[simp] theorem addGlyphs_last (s : Seg) (d : Int) : (s.addGlyphs d).last = s.last := rfl
@[simp] theorem addGlyphs_num (s : Seg) (d : Int) : (s.addGlyphs d).numGlyphs = s.numGlyphs + d := rfl
@[simp] theorem setFirst_num (s : Seg) (v : Option Nat) : (s.setFirst v).numGlyphs = s.numGlyphs := rfl
@[simp] theorem setLast_num (s : Seg) (v : Option Nat) : (s.setLast v).numGlyphs = s.numGlyphs := rfl
@[simp] theorem setFirst_size (s : Seg) (v : Option Nat) : (s.setFirst v).slots.size = s.slots.size := rfl
@[simp] theorem setLast_size (s : Seg) (v : Option Nat) : (s.setLast v).slots.size = s.slots.size := rfl
@[simp] theorem addGlyphs_size (s : Seg) (d : Int) : (s.addGlyphs d).slots.size = s.slots.size := rfl
@[simp] theorem setFirst_free (s : Seg) (v : Option Nat) : (s.setFirst v).free = s.free := rfl
@[simp] theorem setLast_free (s : Seg) (v : Option Nat) : (s.setLast v).free = s.free := rfl
@[simp] theorem addGlyphs_free (s : Seg) (d : Int) : (s.addGlyphs d).free = s.free := rfl
@[simp] theorem setFirst_do (s : Seg) (v : Option Nat) : (s.setFirst v).defaultOriginal = s.defaultOriginal := rfl
@[simp] theorem setLast_do (s : Seg) (v : Option Nat) : (s.setLast v).defaultOriginal = s.defaultOriginal := rfl
@[simp] theorem addGlyphs_do (s : Seg) (d : Int) : (s.addGlyphs d).defaultOriginal = s.defaultOriginal := rfl


/-! projections through the context updates -/
section ctx
variable (c : Ctx) (v : Option Nat) (b : Bool) (m : Int) (st : Vm.Status) (k : Nat) (sg : Seg)
@[simp] theorem withSeg_seg : (c.withSeg sg).seg = sg := rfl
@[simp] theorem withSeg_is : (c.withSeg sg).is = c.is := rfl
@[simp] theorem setIs_seg : (c.setIs v).seg = c.seg := rfl
@[simp] theorem setIs_is : (c.setIs v).is = v := rfl
@[simp] theorem setMap_seg : (c.setMap m).seg = c.seg := rfl
@[simp] theorem setMap_is : (c.setMap m).is = c.is := rfl
@[simp] theorem setStatus_seg : (c.setStatus st).seg = c.seg := rfl
@[simp] theorem setStatus_is : (c.setStatus st).is = c.is := rfl
@[simp] theorem setMaxSize_seg : (c.setMaxSize m).seg = c.seg := rfl
@[simp] theorem setMaxSize_is : (c.setMaxSize m).is = c.is := rfl
@[simp] theorem setCell_seg : (c.setCell k v).seg = c.seg := rfl
@[simp] theorem setCell_is : (c.setCell k v).is = c.is := rfl
@[simp] theorem withSeg_highwater : (c.withSeg sg).highwater = c.highwater := rfl
@[simp] theorem setIs_highwater : (c.setIs v).highwater = c.highwater := rfl
@[simp] theorem setMap_highwater : (c.setMap m).highwater = c.highwater := rfl
@[simp] theorem setStatus_highwater : (c.setStatus st).highwater = c.highwater := rfl
@[simp] theorem setMaxSize_highwater : (c.setMaxSize m).highwater = c.highwater := rfl
@[simp] theorem setCell_highwater : (c.setCell k v).highwater = c.highwater := rfl
@[simp] theorem markHighpassed_highwater : (c.markHighpassed b).highwater = c.highwater := by unfold Ctx.markHighpassed; split <;> rfl
theorem moveHighwater_highwater : (c.moveHighwater v).highwater = if c.is = c.highwater then v else c.highwater := by
  unfold Ctx.moveHighwater; split <;> rfl
@[simp] theorem markHighpassed_seg : (c.markHighpassed b).seg = c.seg := by unfold Ctx.markHighpassed; split <;> rfl
@[simp] theorem markHighpassed_is : (c.markHighpassed b).is = c.is := by unfold Ctx.markHighpassed; split <;> rfl
@[simp] theorem moveHighwater_seg : (c.moveHighwater v).seg = c.seg := by unfold Ctx.moveHighwater; split <;> rfl
@[simp] theorem moveHighwater_is : (c.moveHighwater v).is = c.is := by unfold Ctx.moveHighwater; split <;> rfl
@[simp] theorem backOnto_seg : (c.backOnto v).seg = c.seg := by unfold Ctx.backOnto; split; exact markHighpassed_seg _ _; rfl
@[simp] theorem backOnto_is : (c.backOnto v).is = c.is := by unfold Ctx.backOnto; split; exact markHighpassed_is _ _; rfl
@[simp] theorem backOnto_smap : (c.backOnto v).smap = c.smap := by unfold Ctx.backOnto Ctx.markHighpassed; split; split <;> rfl; rfl
@[simp] theorem backOnto_highwater : (c.backOnto v).highwater = c.highwater := by unfold Ctx.backOnto; split; exact markHighpassed_highwater _ _; rfl
end ctx

theorem get_oob (s : Seg) (i : Nat) (h : s.slots.size ≤ i) : s.get i = {} := by
  unfold Seg.get; simp [Array.getD_eq_getD_getElem?, h]

/-! ## relations "same outside a set of fields": `Same R s s'` says every slot of `s'` is `R`-related to the slot of `s`,
and the segment-level fields are unchanged -/

/-- `s'` differs from `s` only in slot fields, each slot related by `R` -/
structure Same (R : Slot → Slot → Prop) (s s' : Seg) : Prop where
  slot : ∀ j, R (s.get j) (s'.get j)
  size : s'.slots.size = s.slots.size
  first : s'.first = s.first
  last : s'.last = s.last
  free : s'.free = s.free
  numGlyphs : s'.numGlyphs = s.numGlyphs
  numChars : s'.numChars = s.numChars
  defaultOriginal : s'.defaultOriginal = s.defaultOriginal
  bufSize : s'.bufSize = s.bufSize

theorem Same.refl {R : Slot → Slot → Prop} (hR : ∀ a, R a a) (s : Seg) : Same R s s :=
  ⟨fun _ => hR _, rfl, rfl, rfl, rfl, rfl, rfl, rfl, rfl⟩

theorem Same.trans {R : Slot → Slot → Prop} (hR : ∀ a b c, R a b → R b c → R a c) {s t u : Seg}
    (h1 : Same R s t) (h2 : Same R t u) : Same R s u :=
  ⟨fun j => hR _ _ _ (h1.slot j) (h2.slot j), by rw [h2.size, h1.size], by rw [h2.first, h1.first], by rw [h2.last, h1.last],
   by rw [h2.free, h1.free], by rw [h2.numGlyphs, h1.numGlyphs], by rw [h2.numChars, h1.numChars],
   by rw [h2.defaultOriginal, h1.defaultOriginal], by rw [h2.bufSize, h1.bufSize]⟩

theorem Same.upd {R : Slot → Slot → Prop} (hR : ∀ a, R a a) (s : Seg) (i : Nat) (f : Slot → Slot) (hf : ∀ a, R a (f a)) :
    Same R s (s.upd i f) := by
  refine ⟨fun j => ?_, by simp, rfl, rfl, rfl, rfl, rfl, rfl, rfl⟩
  rw [get_upd]; split
  · exact hf _
  · exact hR _

/-- the attachment primitives only write `parent`, `child`, `sibling` -/
def TreeOnly (a b : Slot) : Prop :=
  b.next = a.next ∧ b.prev = a.prev ∧ b.gid = a.gid ∧ b.original = a.original ∧ b.before = a.before ∧ b.after = a.after ∧
  b.index = a.index ∧ b.deleted = a.deleted ∧ b.copied = a.copied

theorem TreeOnly.rfl' (a : Slot) : TreeOnly a a := ⟨rfl, rfl, rfl, rfl, rfl, rfl, rfl, rfl, rfl⟩
theorem TreeOnly.trans' (a b c : Slot) (h1 : TreeOnly a b) (h2 : TreeOnly b c) : TreeOnly a c := by
  unfold TreeOnly at *; grind

abbrev SameT := Same TreeOnly
theorem SameT.rfl' (s : Seg) : SameT s s := Same.refl TreeOnly.rfl' s
theorem SameT.tr {s t u : Seg} (h1 : SameT s t) (h2 : SameT t u) : SameT s u := Same.trans TreeOnly.trans' h1 h2
theorem SameT.updSib (s : Seg) (i : Nat) (v : Option Nat) : SameT s (s.upd i fun sl => sl.setSibling v) :=
  Same.upd TreeOnly.rfl' s i _ (fun a => ⟨rfl, rfl, rfl, rfl, rfl, rfl, rfl, rfl, rfl⟩)
theorem SameT.updChild (s : Seg) (i : Nat) (v : Option Nat) : SameT s (s.upd i fun sl => sl.setChild v) :=
  Same.upd TreeOnly.rfl' s i _ (fun a => ⟨rfl, rfl, rfl, rfl, rfl, rfl, rfl, rfl, rfl⟩)
theorem SameT.updParent (s : Seg) (i : Nat) (v : Option Nat) : SameT s (s.upd i fun sl => sl.setParent v) :=
  Same.upd TreeOnly.rfl' s i _ (fun a => ⟨rfl, rfl, rfl, rfl, rfl, rfl, rfl, rfl, rfl⟩)

theorem sibling_same (s : Seg) : ∀ (fuel i : Nat) (ap : Option Nat), SameT s (sibling s fuel i ap).2 := by
  intro fuel
  induction fuel with
  | zero => intro i ap; exact SameT.rfl' s
  | succ n ih =>
    intro i ap
    unfold sibling
    split
    · exact SameT.rfl' s
    · split
      · exact SameT.rfl' s
      · split
        · exact SameT.updSib s i _
        · exact SameT.updSib s i _
        · exact ih _ _

theorem child_same (s : Seg) (i ap : Nat) : SameT s (child s i ap).2 := by
  unfold child
  split
  · exact SameT.rfl' s
  · split
    · exact SameT.rfl' s
    · split
      · exact SameT.updChild s i _
      · exact sibling_same s _ _ _

theorem removeSib_same (s : Seg) (ap : Nat) : ∀ (fuel : Nat) (p : Option Nat), SameT s (removeSib s ap fuel p).2 := by
  intro fuel
  induction fuel with
  | zero => intro p; exact SameT.rfl' s
  | succ n ih =>
    intro p
    cases p with
    | none => exact SameT.rfl' s
    | some p =>
      unfold removeSib
      split
      · exact SameT.tr (SameT.updSib s p _) (SameT.updSib _ ap _)
      · exact ih _

theorem removeChild_same (s : Seg) (i ap : Nat) : SameT s (removeChild s i ap).2 := by
  unfold removeChild
  split
  · exact SameT.rfl' s
  · split
    · exact SameT.rfl' s
    · split
      · exact SameT.tr (SameT.updSib s _ _) (SameT.updChild _ i _)
      · exact removeSib_same s ap _ _

theorem detachChildren_same : ∀ (fuel : Nat) (s : Seg) (a : Nat), SameT s (detachChildren s a fuel) := by
  intro fuel
  induction fuel with
  | zero => intro s a; exact SameT.rfl' s
  | succ n ih =>
    intro s a
    unfold detachChildren
    split
    · exact SameT.rfl' s
    · split
      · exact SameT.tr (SameT.tr (SameT.updParent s _ _) (removeChild_same _ _ _)) (ih _ _)
      · exact SameT.tr (SameT.updChild s a _) (ih _ _)

end GrVerif.Seg

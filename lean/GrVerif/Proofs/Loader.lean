import GrVerif.Model.Loader
set_option linter.unusedVariables false
set_option linter.unusedSimpArgs false
namespace GrVerif.Loader

theorem be16_ok (b : List Nat) (i : Nat) (h : i + 2 ≤ b.length) : ∃ v, be16 b i = .ok v := by
  unfold be16
  have h1 : i < b.length := by omega
  have h2 : i + 1 < b.length := by omega
  simp [List.getElem?_eq_getElem h1, List.getElem?_eq_getElem h2]

theorem be32_ok (b : List Nat) (i : Nat) (h : i + 4 ≤ b.length) : ∃ v, be32 b i = .ok v := by
  unfold be32
  have h1 : i < b.length := by omega
  have h2 : i + 1 < b.length := by omega
  have h3 : i + 2 < b.length := by omega
  have h4 : i + 3 < b.length := by omega
  simp [List.getElem?_eq_getElem h1, List.getElem?_eq_getElem h2, List.getElem?_eq_getElem h3, List.getElem?_eq_getElem h4]

/-- what the constructor establishes -/
structure FaceOK (file : List Nat) (f : FileFace) : Prop where
  len : f.fileLen = file.length
  hdr : f.header.length = 12
  dir : ∃ n, be16 f.header 4 = .ok n ∧ f.dir.length = 16 * n

theorem openFile_total (file : List Nat) : ∃ r, openFile file = .ok r ∧ ∀ f, r = some f → FaceOK file f := by
  unfold openFile
  split
  · exact ⟨none, rfl, fun f h => by cases h⟩
  · rename_i hlen
    have hl : (file.take 12).length = 12 := by simp; omega
    obtain ⟨sc, hsc⟩ := be32_ok (file.take 12) 0 (by omega)
    obtain ⟨nt, hnt⟩ := be16_ok (file.take 12) 4 (by omega)
    simp only [hsc, hnt]
    split
    · exact ⟨none, rfl, fun f h => by cases h⟩
    · split
      · exact ⟨none, rfl, fun f h => by cases h⟩
      · rename_i hd
        refine ⟨_, rfl, fun f h => ?_⟩
        simp only [Option.some.injEq] at h
        subst h
        exact ⟨rfl, hl, ⟨nt, hnt, by simp; omega⟩⟩

theorem tableInfo_go_total (f : FileFace) (tag n : Nat) (hd : f.dir.length = 16 * n) :
    ∀ k i, i + k = n → ∃ r, tableInfo.go f tag k i = .ok r := by
  intro k
  induction k with
  | zero => intro i _; exact ⟨none, rfl⟩
  | succ k ih =>
    intro i hik
    unfold tableInfo.go
    obtain ⟨t, ht⟩ := be32_ok f.dir (16 * i) (by omega)
    obtain ⟨o, ho⟩ := be32_ok f.dir (16 * i + 8) (by omega)
    obtain ⟨l, hl⟩ := be32_ok f.dir (16 * i + 12) (by omega)
    simp only [ht, ho, hl]
    split
    · exact ⟨_, rfl⟩
    · exact ih (i + 1) (by omega)

/-- **C01, file faces.** Whatever bytes the file holds, opening it and asking for any table never reads outside the file:
the constructor and the directory search are total, and a table that is handed out lies inside the file. -/
theorem file_face_total (file : List Nat) (tag : Nat) :
    ∃ r, openFile file = .ok r ∧ ∀ f, r = some f →
      ∃ t, getTable file f tag = .ok t ∧ ∀ off len, t = some (off, len) → off + len ≤ file.length := by
  obtain ⟨r, hr, hok⟩ := openFile_total file
  refine ⟨r, hr, fun f hf => ?_⟩
  obtain ⟨hlen, hhdr, n, hn, hdir⟩ := hok f hf
  unfold getTable
  have hti : ∃ ti, tableInfo f tag = .ok ti := by
    unfold tableInfo
    simp only [hn]
    split
    · exact ⟨none, rfl⟩
    · exact tableInfo_go_total f tag n hdir n 0 (by omega)
  obtain ⟨ti, hti⟩ := hti
  simp only [hti]
  cases ti with
  | none => exact ⟨none, rfl, fun _ _ h => by cases h⟩
  | some p =>
    obtain ⟨off, len⟩ := p
    simp only []
    split
    · exact ⟨none, rfl, fun _ _ h => by cases h⟩
    · rename_i hb
      refine ⟨_, rfl, fun o l h => ?_⟩
      simp only [Option.some.injEq, Prod.mk.injEq] at h
      rw [← h.1, ← h.2, ← hlen]
      omega

end GrVerif.Loader

namespace GrVerif.Loader

/-- every entry is "no column" or a column below `nc` -/
def ColsOK (nc : Nat) (cols : List Nat) : Prop := ∀ v ∈ cols, v = 0xFFFF ∨ v < nc

theorem fill_total (ng nc col : Nat) (hcol : col < nc) : ∀ (fuel : Nat) (cols : List Nat) (ci ciEnd : Nat),
    cols.length = ng → ci ≤ ciEnd → ciEnd ≤ ng → ColsOK nc cols →
    ∃ cols' ci', readRanges.fill cols ci ciEnd col fuel = .ok (cols', ci') ∧ cols'.length = ng ∧ ColsOK nc cols' := by
  intro fuel
  induction fuel with
  | zero => intro cols ci ciEnd hl _ _ hc; exact ⟨cols, ci, rfl, hl, hc⟩
  | succ f ih =>
    intro cols ci ciEnd hl h1 h2 hc
    unfold readRanges.fill
    split
    · rename_i hne
      have hlt : ci < cols.length := by omega
      simp only [List.getElem?_eq_getElem hlt]
      split
      · have hc' : ColsOK nc (cols.set ci col) := by
          intro v hv
          rcases List.mem_or_eq_of_mem_set hv with h | h
          · exact hc v h
          · right; rw [h]; exact hcol
        exact ih (cols.set ci col) (ci + 1) ciEnd (by simp [hl]) (by omega) h2 hc'
      · exact ⟨cols, ci, rfl, hl, hc⟩
    · exact ⟨cols, ci, rfl, hl, hc⟩

theorem readRanges_go_total (ng nc : Nat) (ranges : List Nat) : ∀ (n p : Nat) (cols : List Nat),
    p + 6 * n ≤ ranges.length → cols.length = ng → ColsOK nc cols →
    ∃ r, readRanges.go ng nc ranges n p cols = .ok r ∧ ∀ c, r = some c → c.length = ng ∧ ColsOK nc c := by
  intro n
  induction n with
  | zero => intro p cols _ hl hc; exact ⟨some cols, rfl, fun c h => by cases h; exact ⟨hl, hc⟩⟩
  | succ n ih =>
    intro p cols hp hl hc
    unfold readRanges.go
    obtain ⟨a, ha⟩ := be16_ok ranges p (by omega)
    obtain ⟨b, hb⟩ := be16_ok ranges (p + 2) (by omega)
    obtain ⟨c, hcc⟩ := be16_ok ranges (p + 4) (by omega)
    simp only [ha, hb, hcc]
    split
    · exact ⟨none, rfl, fun _ h => by cases h⟩
    · rename_i hg
      have hg' : a < b + 1 ∧ b + 1 ≤ ng ∧ c < nc := by omega
      obtain ⟨cols', ci', hf, hl', hc'⟩ := fill_total ng nc c hg'.2.2 (ng + 1) cols a (b + 1) hl (by omega) hg'.2.1 hc
      simp only [hf]
      split
      · exact ⟨none, rfl, fun _ h => by cases h⟩
      · exact ih (p + 6) cols' (by omega) hl' hc'

/-- **C01, `Pass::readRanges`.** For any range records (the caller has checked that `6 × numRanges` bytes are there), the
column map is built without a single access outside `m_cols[0 .. numGlyphs)` or outside the records, and an accepted map
holds only "no column" or columns below `numColumns`. -/
theorem readRanges_total (ng nc : Nat) (ranges : List Nat) (nr : Nat) (h : 6 * nr ≤ ranges.length) :
    ∃ r, readRanges ng nc ranges nr = .ok r ∧ ∀ c, r = some c → c.length = ng ∧ ColsOK nc c := by
  unfold readRanges
  exact readRanges_go_total ng nc ranges nr 0 _ (by omega) (by simp) (by intro v hv; left; exact (List.mem_replicate.mp hv).2)

end GrVerif.Loader

import GrVerif.Model.Utf
import GrVerif.Spec.Utf
import GrVerif.Proofs.Bits
/-! Helper lemmas about the UTF-8 codec model (`get8`, `contLoop`, `validate8`). -/
set_option linter.unusedSimpArgs false
set_option linter.unusedVariables false
namespace GrVerif.Utf
open GrVerif.Spec.Utf

def IsByteList (l : List Nat) : Prop := ∀ x ∈ l, x < 256

theorem IsByteList.tail {a : Nat} {l : List Nat} (h : IsByteList (a :: l)) : IsByteList l :=
  fun x hx => h x (List.mem_cons_of_mem _ hx)
theorem IsByteList.head {a : Nat} {l : List Nat} (h : IsByteList (a :: l)) : a < 256 :=
  h a (List.mem_cons_self ..)
theorem IsByteList.drop {l : List Nat} (h : IsByteList l) (k : Nat) : IsByteList (l.drop k) :=
  fun x hx => h x (List.mem_of_mem_drop hx)

/-! ### bit operations as arithmetic -/
theorem step_arith (u c : Nat) : (u <<< 6) ||| (c &&& 0x3F) = u * 64 + c % 64 := by
  have h : c &&& 0x3F = c % 2^6 := Bits.and_low c 6
  rw [h, Bits.shl_or u _ 6 (Nat.mod_lt _ (by decide))]
theorem shr6 (c : Nat) : c >>> 6 = c / 64 := by rw [Nat.shiftRight_eq_div_pow]
theorem shr4 (c : Nat) : c >>> 4 = c / 16 := by rw [Nat.shiftRight_eq_div_pow]

theorem seqSz_table : ∀ c, c < 256 →
    seqSz c = if c < 0x80 then 1 else if c < 0xC0 then 0 else if c < 0xE0 then 2 else if c < 0xF0 then 3 else 4 := by
  decide +kernel

theorem seqSz_eq (c : Nat) (h : c < 256) :
    seqSz c = if c < 0x80 then 1 else if c < 0xC0 then 0 else if c < 0xE0 then 2 else if c < 0xF0 then 3 else 4 :=
  seqSz_table c h

theorem mask1 (c : Nat) : c &&& mask 1 = c % 256 := Bits.and_low c 8
theorem mask2 (c : Nat) : c &&& mask 2 = c % 64 := Bits.and_low c 6
theorem mask3 (c : Nat) : c &&& mask 3 = c % 32 := Bits.and_low c 5
theorem mask4 (c : Nat) : c &&& mask 4 = c % 16 := Bits.and_low c 4

/-- `contLoop` with bit operations replaced by arithmetic -/
theorem contLoop_cons (c : Nat) (cs : Mem) (th : Nat) (ths : List Nat) (u l : Nat) (t : Bool) :
    contLoop (c :: cs) (th :: ths) u l t =
      if c / 64 ≠ 2 then .ok (u * 64 + c % 64, l, t)
      else contLoop cs ths (u * 64 + c % 64) (l + 1) (t || decide (u * 64 + c % 64 < th)) := by
  simp only [contLoop, step_arith, shr6]

theorem contLoop_nil_th (mem : Mem) (u l : Nat) (t : Bool) : contLoop mem [] u l t = .ok (u, l, t) := by
  cases mem <;> rfl

theorem get8_cons (c0 : Nat) (rest : Mem) :
    get8 (c0 :: rest) =
      if seqSz c0 = 0 then .ok (0xFFFD, -1) else
      match contLoop rest (thresholds (seqSz c0)) (c0 &&& mask (seqSz c0)) 1 false with
      | .error e => .error e
      | .ok (u, l, t) =>
        if l ≠ seqSz c0 ∨ t ∨ u ≥ Gen.utf8Limit ∨ (0xD800 ≤ u ∧ u ≤ 0xDFFF) then .ok (0xFFFD, -(l : Int)) else .ok (u, (l : Int)) := by
  rfl

theorem get8_1 (b0 : Nat) (r : Mem) (h0 : b0 < 0x80) : get8 (b0 :: r) = .ok (b0, 1) := by
  rw [get8_cons, seqSz_eq b0 (by omega)]
  simp [h0, thresholds, contLoop_nil_th, mask1, Gen.utf8Limit]
  rw [Nat.mod_eq_of_lt (by omega), if_neg (by omega)]

theorem get8_2 (b0 b1 : Nat) (r : Mem) (h0 : 0xC2 ≤ b0 ∧ b0 ≤ 0xDF) (h1 : 0x80 ≤ b1 ∧ b1 ≤ 0xBF) :
    get8 (b0 :: b1 :: r) = .ok ((b0 - 0xC0) * 64 + (b1 - 0x80), 2) := by
  rw [get8_cons, seqSz_eq b0 (by omega)]
  have e1 : ¬ b0 < 128 := by omega
  have e2 : ¬ b0 < 192 := by omega
  have e3 : b0 < 224 := by omega
  have k1 : b1 / 64 = 2 := by omega
  have v : b0 % 64 * 64 + b1 % 64 = (b0 - 192) * 64 + (b1 - 128) := by omega
  simp only [e1, e2, e3, if_true, if_false, thresholds, contLoop_cons, contLoop_nil_th, mask2, Gen.tooLong2, Gen.utf8Limit, k1, v]
  have t1 : ¬ ((b0 - 192) * 64 + (b1 - 128) < 128) := by omega
  have t2 : ¬ ((b0 - 192) * 64 + (b1 - 128) ≥ 1114112) := by omega
  have t3 : ¬ (55296 ≤ (b0 - 192) * 64 + (b1 - 128)) := by omega
  simp [t1, t2, t3]

theorem get8_3 (b0 b1 b2 : Nat) (r : Mem) (h0 : 0xE0 ≤ b0 ∧ b0 ≤ 0xEF)
    (h1 : (if b0 = 0xE0 then 0xA0 else 0x80) ≤ b1 ∧ b1 ≤ (if b0 = 0xED then 0x9F else 0xBF)) (h2 : 0x80 ≤ b2 ∧ b2 ≤ 0xBF) :
    get8 (b0 :: b1 :: b2 :: r) = .ok ((b0 - 0xE0) * 4096 + (b1 - 0x80) * 64 + (b2 - 0x80), 3) := by
  rw [get8_cons, seqSz_eq b0 (by omega)]
  have e1 : ¬ b0 < 128 := by omega
  have e2 : ¬ b0 < 192 := by omega
  have e3 : ¬ b0 < 224 := by omega
  have e4 : b0 < 240 := by omega
  have hb1 : 0x80 ≤ b1 ∧ b1 ≤ 0xBF := by split at h1 <;> split at h1 <;> omega
  have k1 : b1 / 64 = 2 := by omega
  have k2 : b2 / 64 = 2 := by omega
  have v1 : b0 % 32 * 64 + b1 % 64 = (b0 - 224) * 64 + (b1 - 128) := by omega
  have v2 : ((b0 - 224) * 64 + (b1 - 128)) * 64 + b2 % 64 = (b0 - 224) * 4096 + (b1 - 128) * 64 + (b2 - 128) := by omega
  simp only [e1, e2, e3, e4, if_true, if_false, thresholds, contLoop_cons, contLoop_nil_th, mask3, Gen.tooLong2, Gen.tooLong3, Gen.utf8Limit, k1, k2, v1, v2]
  have t0 : ¬ ((b0 - 224) * 64 + (b1 - 128) < 32) := by split at h1 <;> split at h1 <;> omega
  have t1 : ¬ ((b0 - 224) * 4096 + (b1 - 128) * 64 + (b2 - 128) < 128) := by omega
  have t2 : ¬ ((b0 - 224) * 4096 + (b1 - 128) * 64 + (b2 - 128) ≥ 1114112) := by omega
  have t3 : ¬ (55296 ≤ (b0 - 224) * 4096 + (b1 - 128) * 64 + (b2 - 128) ∧ (b0 - 224) * 4096 + (b1 - 128) * 64 + (b2 - 128) ≤ 57343) := by
    split at h1 <;> split at h1 <;> omega
  simp [t0, t1, t2, t3]

theorem get8_4 (b0 b1 b2 b3 : Nat) (r : Mem) (h0 : 0xF0 ≤ b0 ∧ b0 ≤ 0xF4)
    (h1 : (if b0 = 0xF0 then 0x90 else 0x80) ≤ b1 ∧ b1 ≤ (if b0 = 0xF4 then 0x8F else 0xBF)) (h2 : 0x80 ≤ b2 ∧ b2 ≤ 0xBF)
    (h3 : 0x80 ≤ b3 ∧ b3 ≤ 0xBF) :
    get8 (b0 :: b1 :: b2 :: b3 :: r) = .ok ((b0 - 0xF0) * 262144 + (b1 - 0x80) * 4096 + (b2 - 0x80) * 64 + (b3 - 0x80), 4) := by
  rw [get8_cons, seqSz_eq b0 (by omega)]
  have e1 : ¬ b0 < 128 := by omega
  have e2 : ¬ b0 < 192 := by omega
  have e3 : ¬ b0 < 224 := by omega
  have e4 : ¬ b0 < 240 := by omega
  have hb1 : 0x80 ≤ b1 ∧ b1 ≤ 0xBF := by split at h1 <;> split at h1 <;> omega
  have hb1' : (b0 = 240 → 144 ≤ b1) ∧ (b0 = 244 → b1 ≤ 143) := by split at h1 <;> split at h1 <;> omega
  clear h1
  have k1 : b1 / 64 = 2 := by omega
  have k2 : b2 / 64 = 2 := by omega
  have k3 : b3 / 64 = 2 := by omega
  have t0 : ¬ (b0 % 16 * 64 + b1 % 64 < 16) := by omega
  have t00 : ¬ ((b0 % 16 * 64 + b1 % 64) * 64 + b2 % 64 < 32) := by omega
  have t1 : ¬ (((b0 % 16 * 64 + b1 % 64) * 64 + b2 % 64) * 64 + b3 % 64 < 128) := by omega
  have t3 : ¬ (55296 ≤ ((b0 % 16 * 64 + b1 % 64) * 64 + b2 % 64) * 64 + b3 % 64 ∧ ((b0 % 16 * 64 + b1 % 64) * 64 + b2 % 64) * 64 + b3 % 64 ≤ 57343) := by omega
  have t2 : ¬ (1114112 ≤ ((b0 % 16 * 64 + b1 % 64) * 64 + b2 % 64) * 64 + b3 % 64) := by omega
  simp [e1, e2, e3, e4, thresholds, contLoop_cons, contLoop_nil_th, mask4, Gen.tooLong2, Gen.tooLong3, Gen.tooLong4, Gen.utf8Limit, k1, k2, k3, t0, t00, t1, t2, t3]
  omega

/-- **get8 decodes every well-formed sequence exactly** (Table 3-7) -/
theorem get8_of_dec8 (l : Mem) (u k : Nat) (h : dec8 l = some (u, k)) :
    get8 l = .ok (u, (k : Int)) := by
  cases l with
  | nil => simp [dec8] at h
  | cons b0 r =>
    simp only [dec8] at h
    by_cases c1 : b0 ≤ 0x7F
    · rw [if_pos c1] at h
      obtain ⟨rfl, rfl⟩ := by simpa using h
      exact get8_1 b0 r (by omega)
    rw [if_neg c1] at h
    by_cases c2 : inR b0 0xC2 0xDF = true
    · rw [if_pos c2] at h
      cases r with
      | nil => simp at h
      | cons b1 r =>
        simp only at h
        by_cases c3 : isCont b1 = true
        · rw [if_pos c3] at h
          obtain ⟨rfl, rfl⟩ := by simpa using h
          simp [inR, isCont] at c2 c3
          exact get8_2 b0 b1 r c2 c3
        · rw [if_neg c3] at h; simp at h
    rw [if_neg c2] at h
    by_cases c4 : inR b0 0xE0 0xEF = true
    · rw [if_pos c4] at h
      match r with
      | [] => simp at h
      | [_] => simp at h
      | b1 :: b2 :: r =>
        simp only at h
        by_cases c3 : (inR b1 (if b0 = 0xE0 then 0xA0 else 0x80) (if b0 = 0xED then 0x9F else 0xBF) && isCont b2) = true
        · rw [if_pos c3] at h
          obtain ⟨rfl, rfl⟩ := by simpa using h
          simp only [inR, isCont, Bool.and_eq_true, decide_eq_true_eq] at c4 c3
          exact get8_3 b0 b1 b2 r c4 ⟨c3.1.1, c3.1.2⟩ c3.2
        · rw [if_neg c3] at h; simp at h
    rw [if_neg c4] at h
    by_cases c5 : inR b0 0xF0 0xF4 = true
    · rw [if_pos c5] at h
      match r with
      | [] => simp at h
      | [_] => simp at h
      | [_, _] => simp at h
      | b1 :: b2 :: b3 :: r =>
        simp only at h
        by_cases c3 : (inR b1 (if b0 = 0xF0 then 0x90 else 0x80) (if b0 = 0xF4 then 0x8F else 0xBF) && isCont b2 && isCont b3) = true
        · rw [if_pos c3] at h
          obtain ⟨rfl, rfl⟩ := by simpa using h
          simp only [inR, isCont, Bool.and_eq_true, decide_eq_true_eq] at c5 c3
          exact get8_4 b0 b1 b2 b3 r c5 ⟨c3.1.1.1, c3.1.1.2⟩ c3.1.2 c3.2
        · rw [if_neg c3] at h; simp at h
    rw [if_neg c5] at h
    simp at h

/-! ### normal forms of `get8` by lead-byte class (arithmetic only) -/

theorem get8_nf0 (c0 : Nat) (r : Mem) (h : 0x80 ≤ c0 ∧ c0 < 0xC0) : get8 (c0 :: r) = .ok (0xFFFD, -1) := by
  rw [get8_cons, seqSz_eq c0 (by omega)]
  have e1 : ¬ c0 < 128 := by omega
  have e2 : c0 < 192 := by omega
  simp [e1, e2]

theorem get8_nf2_nil (c0 : Nat) (h : 0xC0 ≤ c0 ∧ c0 < 0xE0) : get8 [c0] = .error oob := by
  rw [get8_cons, seqSz_eq c0 (by omega)]
  have e1 : ¬ c0 < 128 := by omega
  have e2 : ¬ c0 < 192 := by omega
  have e3 : c0 < 224 := by omega
  simp [e1, e2, e3, thresholds, contLoop]

theorem get8_nf2 (c0 b1 : Nat) (r : Mem) (h : 0xC0 ≤ c0 ∧ c0 < 0xE0) :
    get8 (c0 :: b1 :: r) =
      if b1 / 64 ≠ 2 then .ok (0xFFFD, -1)
      else if c0 % 64 * 64 + b1 % 64 < 128 then .ok (0xFFFD, -2)
      else .ok (c0 % 64 * 64 + b1 % 64, 2) := by
  rw [get8_cons, seqSz_eq c0 (by omega)]
  have e1 : ¬ c0 < 128 := by omega
  have e2 : ¬ c0 < 192 := by omega
  have e3 : c0 < 224 := by omega
  have t2 : ¬ (1114112 ≤ c0 % 64 * 64 + b1 % 64) := by omega
  have t3 : ¬ (55296 ≤ c0 % 64 * 64 + b1 % 64) := by omega
  by_cases k1 : b1 / 64 = 2
  · by_cases t1 : c0 % 64 * 64 + b1 % 64 < 128
    · simp [e1, e2, e3, thresholds, contLoop_cons, contLoop_nil_th, mask2, Gen.tooLong2, Gen.utf8Limit, k1, t1]
    · simp [e1, e2, e3, thresholds, contLoop_cons, contLoop_nil_th, mask2, Gen.tooLong2, Gen.utf8Limit, k1, t1, t2, t3]
  · simp [e1, e2, e3, thresholds, contLoop_cons, contLoop_nil_th, mask2, Gen.tooLong2, Gen.utf8Limit, k1]

theorem get8_nf3_nil (c0 : Nat) (h : 0xE0 ≤ c0 ∧ c0 < 0xF0) : get8 [c0] = .error oob := by
  rw [get8_cons, seqSz_eq c0 (by omega)]
  have e1 : ¬ c0 < 128 := by omega
  have e2 : ¬ c0 < 192 := by omega
  have e3 : ¬ c0 < 224 := by omega
  have e4 : c0 < 240 := by omega
  simp [e1, e2, e3, e4, thresholds, contLoop]

theorem get8_nf3_one (c0 b1 : Nat) (h : 0xE0 ≤ c0 ∧ c0 < 0xF0) :
    get8 [c0, b1] = if b1 / 64 ≠ 2 then .ok (0xFFFD, -1) else .error oob := by
  rw [get8_cons, seqSz_eq c0 (by omega)]
  have e1 : ¬ c0 < 128 := by omega
  have e2 : ¬ c0 < 192 := by omega
  have e3 : ¬ c0 < 224 := by omega
  have e4 : c0 < 240 := by omega
  by_cases k1 : b1 / 64 = 2
  · simp [e1, e2, e3, e4, thresholds, contLoop_cons, contLoop, k1]
  · simp [e1, e2, e3, e4, thresholds, contLoop_cons, contLoop, k1]

theorem get8_nf3 (c0 b1 b2 : Nat) (r : Mem) (h : 0xE0 ≤ c0 ∧ c0 < 0xF0) :
    get8 (c0 :: b1 :: b2 :: r) =
      if b1 / 64 ≠ 2 then .ok (0xFFFD, -1)
      else if b2 / 64 ≠ 2 then .ok (0xFFFD, -2)
      else if c0 % 32 * 64 + b1 % 64 < 32 ∨ (c0 % 32 * 64 + b1 % 64) * 64 + b2 % 64 < 128
            ∨ (55296 ≤ (c0 % 32 * 64 + b1 % 64) * 64 + b2 % 64 ∧ (c0 % 32 * 64 + b1 % 64) * 64 + b2 % 64 ≤ 57343)
        then .ok (0xFFFD, -3)
      else .ok ((c0 % 32 * 64 + b1 % 64) * 64 + b2 % 64, 3) := by
  rw [get8_cons, seqSz_eq c0 (by omega)]
  have e1 : ¬ c0 < 128 := by omega
  have e2 : ¬ c0 < 192 := by omega
  have e3 : ¬ c0 < 224 := by omega
  have e4 : c0 < 240 := by omega
  have t2 : ¬ (1114112 ≤ (c0 % 32 * 64 + b1 % 64) * 64 + b2 % 64) := by omega
  by_cases k1 : b1 / 64 = 2
  · by_cases k2 : b2 / 64 = 2
    · by_cases t0 : c0 % 32 * 64 + b1 % 64 < 32
      · simp [e1, e2, e3, e4, thresholds, contLoop_cons, contLoop_nil_th, mask3, Gen.tooLong2, Gen.tooLong3, Gen.utf8Limit, k1, k2, t0]
      · by_cases t1 : (c0 % 32 * 64 + b1 % 64) * 64 + b2 % 64 < 128
        · simp [e1, e2, e3, e4, thresholds, contLoop_cons, contLoop_nil_th, mask3, Gen.tooLong2, Gen.tooLong3, Gen.utf8Limit, k1, k2, t0, t1]
        · simp [e1, e2, e3, e4, thresholds, contLoop_cons, contLoop_nil_th, mask3, Gen.tooLong2, Gen.tooLong3, Gen.utf8Limit, k1, k2, t0, t1, t2]
    · simp [e1, e2, e3, e4, thresholds, contLoop_cons, contLoop_nil_th, mask3, Gen.tooLong2, Gen.tooLong3, Gen.utf8Limit, k1, k2]
  · simp [e1, e2, e3, e4, thresholds, contLoop_cons, contLoop_nil_th, mask3, Gen.tooLong2, Gen.tooLong3, Gen.utf8Limit, k1]

theorem seqSz4 (c0 : Nat) (h : 0xF0 ≤ c0 ∧ c0 < 256) : seqSz c0 = 4 := by
  rw [seqSz_eq c0 h.2]
  have e1 : ¬ c0 < 128 := by omega
  have e2 : ¬ c0 < 192 := by omega
  have e3 : ¬ c0 < 224 := by omega
  have e4 : ¬ c0 < 240 := by omega
  simp [e1, e2, e3, e4]

theorem get8_nf4_nil (c0 : Nat) (h : 0xF0 ≤ c0 ∧ c0 < 256) : get8 [c0] = .error oob := by
  rw [get8_cons, seqSz4 c0 h]; simp [thresholds, contLoop]

theorem get8_nf4_one (c0 b1 : Nat) (h : 0xF0 ≤ c0 ∧ c0 < 256) :
    get8 [c0, b1] = if b1 / 64 ≠ 2 then .ok (0xFFFD, -1) else .error oob := by
  rw [get8_cons, seqSz4 c0 h]
  by_cases k1 : b1 / 64 = 2 <;> simp [thresholds, contLoop_cons, contLoop, k1]

theorem get8_nf4_two (c0 b1 b2 : Nat) (h : 0xF0 ≤ c0 ∧ c0 < 256) :
    get8 [c0, b1, b2] = if b1 / 64 ≠ 2 then .ok (0xFFFD, -1) else if b2 / 64 ≠ 2 then .ok (0xFFFD, -2) else .error oob := by
  rw [get8_cons, seqSz4 c0 h]
  by_cases k1 : b1 / 64 = 2
  · by_cases k2 : b2 / 64 = 2 <;> simp [thresholds, contLoop, shr6, step_arith, k1, k2]
  · simp [thresholds, contLoop, shr6, step_arith, k1]

theorem get8_nf4 (c0 b1 b2 b3 : Nat) (r : Mem) (h : 0xF0 ≤ c0 ∧ c0 < 256) :
    get8 (c0 :: b1 :: b2 :: b3 :: r) =
      if b1 / 64 ≠ 2 then .ok (0xFFFD, -1)
      else if b2 / 64 ≠ 2 then .ok (0xFFFD, -2)
      else if b3 / 64 ≠ 2 then .ok (0xFFFD, -3)
      else if c0 % 16 * 64 + b1 % 64 < 16 ∨ (c0 % 16 * 64 + b1 % 64) * 64 + b2 % 64 < 32
            ∨ ((c0 % 16 * 64 + b1 % 64) * 64 + b2 % 64) * 64 + b3 % 64 < 128
            ∨ 1114112 ≤ ((c0 % 16 * 64 + b1 % 64) * 64 + b2 % 64) * 64 + b3 % 64
        then .ok (0xFFFD, -4)
      else .ok (((c0 % 16 * 64 + b1 % 64) * 64 + b2 % 64) * 64 + b3 % 64, 4) := by
  rw [get8_cons, seqSz4 c0 h]
  by_cases k1 : b1 / 64 = 2
  · by_cases k2 : b2 / 64 = 2
    · by_cases k3 : b3 / 64 = 2
      · by_cases t0 : c0 % 16 * 64 + b1 % 64 < 16
        · simp [thresholds, contLoop_cons, contLoop_nil_th, mask4, Gen.tooLong2, Gen.tooLong3, Gen.tooLong4, Gen.utf8Limit, k1, k2, k3, t0]
        · by_cases t00 : (c0 % 16 * 64 + b1 % 64) * 64 + b2 % 64 < 32
          · simp [thresholds, contLoop_cons, contLoop_nil_th, mask4, Gen.tooLong2, Gen.tooLong3, Gen.tooLong4, Gen.utf8Limit, k1, k2, k3, t0, t00]
          · by_cases t1 : ((c0 % 16 * 64 + b1 % 64) * 64 + b2 % 64) * 64 + b3 % 64 < 128
            · simp [thresholds, contLoop_cons, contLoop_nil_th, mask4, Gen.tooLong2, Gen.tooLong3, Gen.tooLong4, Gen.utf8Limit, k1, k2, k3, t0, t00, t1]
            · by_cases t2 : 1114112 ≤ ((c0 % 16 * 64 + b1 % 64) * 64 + b2 % 64) * 64 + b3 % 64
              · simp [thresholds, contLoop_cons, contLoop_nil_th, mask4, Gen.tooLong2, Gen.tooLong3, Gen.tooLong4, Gen.utf8Limit, k1, k2, k3, t0, t00, t1, t2]
              · have t3 : ¬ (55296 ≤ ((c0 % 16 * 64 + b1 % 64) * 64 + b2 % 64) * 64 + b3 % 64 ∧ ((c0 % 16 * 64 + b1 % 64) * 64 + b2 % 64) * 64 + b3 % 64 ≤ 57343) := by omega
                simp [thresholds, contLoop_cons, contLoop_nil_th, mask4, Gen.tooLong2, Gen.tooLong3, Gen.tooLong4, Gen.utf8Limit, k1, k2, k3, t0, t00, t1, t2, t3]
      · simp [thresholds, contLoop_cons, contLoop_nil_th, mask4, Gen.tooLong2, Gen.tooLong3, Gen.tooLong4, Gen.utf8Limit, k1, k2, k3]
    · simp [thresholds, contLoop_cons, contLoop_nil_th, mask4, Gen.tooLong2, Gen.tooLong3, Gen.tooLong4, Gen.utf8Limit, k1, k2]
  · simp [thresholds, contLoop_cons, contLoop_nil_th, mask4, Gen.tooLong2, Gen.tooLong3, Gen.tooLong4, Gen.utf8Limit, k1]

/-! ### the same normal forms for the specification `dec8` (Table 3-7 in arithmetic form) -/

theorem dec8_af1 (c0 : Nat) (r : Mem) (h : c0 < 0x80) : dec8 (c0 :: r) = some (c0, 1) := by
  simp [dec8]; omega

theorem dec8_af0 (c0 : Nat) (r : Mem) (h : 0x80 ≤ c0 ∧ c0 < 0xC2) : dec8 (c0 :: r) = none := by
  have e1 : ¬ c0 ≤ 127 := by omega
  have e2 : ¬ 194 ≤ c0 := by omega
  have e3 : ¬ 224 ≤ c0 := by omega
  have e4 : ¬ 240 ≤ c0 := by omega
  simp [dec8, inR, e1, e2, e3, e4]

theorem dec8_hi (c0 : Nat) (r : Mem) (h : 0xF5 ≤ c0) : dec8 (c0 :: r) = none := by
  have e1 : ¬ c0 ≤ 127 := by omega
  have e2 : ¬ c0 ≤ 223 := by omega
  have e3 : ¬ c0 ≤ 239 := by omega
  have e4 : ¬ c0 ≤ 244 := by omega
  simp [dec8, inR, e1, e2, e3, e4]

theorem dec8_short1 (c0 : Nat) (h : 0x80 ≤ c0) : dec8 [c0] = none := by
  have e1 : ¬ c0 ≤ 127 := by omega
  simp only [dec8, e1, if_false]
  split <;> (try split) <;> (try split) <;> simp

theorem dec8_short2 (c0 b1 : Nat) (h : 0xE0 ≤ c0) : dec8 [c0, b1] = none := by
  have e1 : ¬ c0 ≤ 127 := by omega
  have e2 : ¬ c0 ≤ 223 := by omega
  simp only [dec8, inR, e1, e2, if_false]
  simp

theorem dec8_short3 (c0 b1 b2 : Nat) (h : 0xF0 ≤ c0) : dec8 [c0, b1, b2] = none := by
  have e1 : ¬ c0 ≤ 127 := by omega
  have e2 : ¬ c0 ≤ 223 := by omega
  have e3 : ¬ c0 ≤ 239 := by omega
  simp only [dec8, inR, e1, e2, e3, if_false]
  simp

theorem dec8_af2 (c0 b1 : Nat) (r : Mem) (h : 0xC0 ≤ c0 ∧ c0 < 0xE0) (h1 : b1 < 256) :
    dec8 (c0 :: b1 :: r) =
      if b1 / 64 ≠ 2 then none
      else if c0 % 64 * 64 + b1 % 64 < 128 then none
      else some (c0 % 64 * 64 + b1 % 64, 2) := by
  simp only [dec8, inR, isCont]
  have e1 : ¬ c0 ≤ 127 := by omega
  simp only [e1, if_false]
  have e3 : ¬ 224 ≤ c0 := by omega
  have e4 : ¬ 240 ≤ c0 := by omega
  by_cases k1 : b1 / 64 = 2
  · have : 128 ≤ b1 ∧ b1 ≤ 191 := by omega
    by_cases t1 : c0 % 64 * 64 + b1 % 64 < 128
    · have : ¬ 194 ≤ c0 := by omega
      simp [k1, t1, this, e3, e4]
    · have : 194 ≤ c0 ∧ c0 ≤ 223 := by omega
      simp [k1, t1, this, *]
      omega
  · have : ¬ (128 ≤ b1 ∧ b1 ≤ 191) := by omega
    by_cases c2 : 194 ≤ c0
    · simp [k1, this, e3, e4, c2]
    · simp [k1, this, e3, e4, c2]

theorem dec8_af3 (c0 b1 b2 : Nat) (r : Mem) (h : 0xE0 ≤ c0 ∧ c0 < 0xF0) (h1 : b1 < 256) (h2 : b2 < 256) :
    dec8 (c0 :: b1 :: b2 :: r) =
      if b1 / 64 ≠ 2 then none
      else if b2 / 64 ≠ 2 then none
      else if c0 % 32 * 64 + b1 % 64 < 32 ∨ (c0 % 32 * 64 + b1 % 64) * 64 + b2 % 64 < 128
            ∨ (55296 ≤ (c0 % 32 * 64 + b1 % 64) * 64 + b2 % 64 ∧ (c0 % 32 * 64 + b1 % 64) * 64 + b2 % 64 ≤ 57343)
        then none
      else some ((c0 % 32 * 64 + b1 % 64) * 64 + b2 % 64, 3) := by
  simp only [dec8, inR, isCont]
  have e1 : ¬ c0 ≤ 127 := by omega
  have e2 : ¬ c0 ≤ 223 := by omega
  have e3 : 224 ≤ c0 ∧ c0 ≤ 239 := by omega
  simp only [e1, e2, e3, if_false, decide_false, decide_true, Bool.and_false, Bool.and_true, Bool.false_eq_true, if_true, Bool.and_self]
  by_cases k1 : b1 / 64 = 2
  · by_cases k2 : b2 / 64 = 2
    · have c2 : 128 ≤ b2 ∧ b2 ≤ 191 := by omega
      by_cases t : c0 % 32 * 64 + b1 % 64 < 32 ∨ (c0 % 32 * 64 + b1 % 64) * 64 + b2 % 64 < 128
            ∨ (55296 ≤ (c0 % 32 * 64 + b1 % 64) * 64 + b2 % 64 ∧ (c0 % 32 * 64 + b1 % 64) * 64 + b2 % 64 ≤ 57343)
      · have : ¬ ((if c0 = 224 then 160 else 128) ≤ b1 ∧ b1 ≤ (if c0 = 237 then 159 else 191)) := by
          split <;> split <;> omega
        simp [k1, k2, t, this]
      · have : ((if c0 = 224 then 160 else 128) ≤ b1 ∧ b1 ≤ (if c0 = 237 then 159 else 191)) := by
          split <;> split <;> omega
        simp [k1, k2, t, this, c2]
        omega
    · have : ¬ (128 ≤ b2 ∧ b2 ≤ 191) := by omega
      simp [k1, k2, this]
  · have : ¬ ((if c0 = 224 then 160 else 128) ≤ b1 ∧ b1 ≤ (if c0 = 237 then 159 else 191)) := by
      split <;> split <;> omega
    simp [k1, this]

theorem dec8_af4 (c0 b1 b2 b3 : Nat) (r : Mem) (h : 0xF0 ≤ c0 ∧ c0 < 256) (h1 : b1 < 256) (h2 : b2 < 256) (h3 : b3 < 256) :
    dec8 (c0 :: b1 :: b2 :: b3 :: r) =
      if b1 / 64 ≠ 2 then none
      else if b2 / 64 ≠ 2 then none
      else if b3 / 64 ≠ 2 then none
      else if c0 % 16 * 64 + b1 % 64 < 16 ∨ (c0 % 16 * 64 + b1 % 64) * 64 + b2 % 64 < 32
            ∨ ((c0 % 16 * 64 + b1 % 64) * 64 + b2 % 64) * 64 + b3 % 64 < 128
            ∨ 1114112 ≤ ((c0 % 16 * 64 + b1 % 64) * 64 + b2 % 64) * 64 + b3 % 64
        then none
      else some (((c0 % 16 * 64 + b1 % 64) * 64 + b2 % 64) * 64 + b3 % 64, 4) := by
  by_cases hi : 0xF5 ≤ c0
  · rw [dec8_hi _ _ hi]
    have : 1114112 ≤ ((c0 % 16 * 64 + b1 % 64) * 64 + b2 % 64) * 64 + b3 % 64 := by omega
    simp [this]
  simp only [dec8, inR, isCont]
  have e1 : ¬ c0 ≤ 127 := by omega
  have e2 : ¬ c0 ≤ 223 := by omega
  have e3 : ¬ c0 ≤ 239 := by omega
  have e4 : 240 ≤ c0 ∧ c0 ≤ 244 := by omega
  simp only [e1, e2, e3, e4, if_false, decide_false, decide_true, Bool.and_false, Bool.and_true, Bool.false_eq_true, if_true, Bool.and_self]
  by_cases k1 : b1 / 64 = 2
  · by_cases k2 : b2 / 64 = 2
    · have c2 : 128 ≤ b2 ∧ b2 ≤ 191 := by omega
      by_cases k3 : b3 / 64 = 2
      · have c3 : 128 ≤ b3 ∧ b3 ≤ 191 := by omega
        by_cases t : c0 % 16 * 64 + b1 % 64 < 16 ∨ (c0 % 16 * 64 + b1 % 64) * 64 + b2 % 64 < 32
            ∨ ((c0 % 16 * 64 + b1 % 64) * 64 + b2 % 64) * 64 + b3 % 64 < 128
            ∨ 1114112 ≤ ((c0 % 16 * 64 + b1 % 64) * 64 + b2 % 64) * 64 + b3 % 64
        · have : ¬ ((if c0 = 240 then 144 else 128) ≤ b1 ∧ b1 ≤ (if c0 = 244 then 143 else 191)) := by
            split <;> split <;> omega
          simp [k1, k2, k3, t, this]
        · have : ((if c0 = 240 then 144 else 128) ≤ b1 ∧ b1 ≤ (if c0 = 244 then 143 else 191)) := by
            split <;> split <;> omega
          simp [k1, k2, k3, t, this, c2, c3]
          omega
      · have : ¬ (128 ≤ b3 ∧ b3 ≤ 191) := by omega
        simp [k1, k2, k3, this]
    · have : ¬ (128 ≤ b2 ∧ b2 ≤ 191) := by omega
      simp [k1, k2, this]
  · have : ¬ ((if c0 = 240 then 144 else 128) ≤ b1 ∧ b1 ≤ (if c0 = 244 then 143 else 191)) := by
      split <;> split <;> omega
    simp [k1, this]

/-! ### master characterisation of `get8` against the specification -/

/-- what `get8` may do on memory `l` -/
def Get8Spec (l : Mem) : Except Fault Got → Prop
  | .error _ => l = [] ∨ ∃ c0 rest, l = c0 :: rest ∧ 0xC0 ≤ c0 ∧ rest.length + 1 < announced c0 ∧ ∀ c ∈ rest, c / 64 = 2
  | .ok (u, sl) =>
      1 ≤ sl.natAbs ∧ sl.natAbs ≤ l.length ∧ (∀ c ∈ (l.take sl.natAbs).tail, c / 64 = 2) ∧
      (if sl < 1 then u = 0xFFFD ∧ dec8 l = none else dec8 l = some (u, sl.natAbs))

theorem get8_spec (l : Mem) (hb : IsByteList l) : Get8Spec l (get8 l) := by
  match l, hb with
  | [], _ => simp [get8, Get8Spec]
  | c0 :: rest, hb =>
    have h0 : c0 < 256 := hb.head
    by_cases c1 : c0 < 0x80
    · rw [get8_1 c0 rest c1, Get8Spec]
      simp [dec8_af1 c0 rest c1]
    by_cases c2 : c0 < 0xC0
    · rw [get8_nf0 c0 rest ⟨by omega, c2⟩, Get8Spec]
      simp [dec8_af0 c0 rest ⟨by omega, by omega⟩]
    by_cases c3 : c0 < 0xE0
    · match rest, hb with
      | [], _ =>
        rw [get8_nf2_nil c0 ⟨by omega, c3⟩, Get8Spec]
        exact Or.inr ⟨c0, [], rfl, by omega, by simp [announced, c3], by simp⟩
      | b1 :: r, hb =>
        have h1 : b1 < 256 := hb.tail.head
        rw [get8_nf2 c0 b1 r ⟨by omega, c3⟩]
        have hd := dec8_af2 c0 b1 r ⟨by omega, c3⟩ h1
        by_cases k1 : b1 / 64 = 2
        · by_cases t1 : c0 % 64 * 64 + b1 % 64 < 128
          · simp [k1, t1, Get8Spec, hd]
          · simp [k1, t1, Get8Spec, hd]
        · simp [k1, Get8Spec, hd]
    by_cases c4 : c0 < 0xF0
    · match rest, hb with
      | [], _ =>
        rw [get8_nf3_nil c0 ⟨by omega, c4⟩, Get8Spec]
        exact Or.inr ⟨c0, [], rfl, by omega, by simp [announced, c3, c4], by simp⟩
      | [b1], hb =>
        rw [get8_nf3_one c0 b1 ⟨by omega, c4⟩]
        by_cases k1 : b1 / 64 = 2
        · simp only [k1, ne_eq, not_true_eq_false, if_false, Get8Spec]
          exact Or.inr ⟨c0, [b1], rfl, by omega, by simp [announced, c3, c4], by simp [k1]⟩
        · simp [k1, Get8Spec, dec8_short2 c0 b1 (by omega)]
      | b1 :: b2 :: r, hb =>
        have h1 : b1 < 256 := hb.tail.head
        have h2 : b2 < 256 := hb.tail.tail.head
        rw [get8_nf3 c0 b1 b2 r ⟨by omega, c4⟩]
        have hd := dec8_af3 c0 b1 b2 r ⟨by omega, c4⟩ h1 h2
        by_cases k1 : b1 / 64 = 2
        · by_cases k2 : b2 / 64 = 2
          · by_cases t : c0 % 32 * 64 + b1 % 64 < 32 ∨ (c0 % 32 * 64 + b1 % 64) * 64 + b2 % 64 < 128
              ∨ (55296 ≤ (c0 % 32 * 64 + b1 % 64) * 64 + b2 % 64 ∧ (c0 % 32 * 64 + b1 % 64) * 64 + b2 % 64 ≤ 57343)
            · simp [k1, k2, t, Get8Spec, hd]
            · simp [k1, k2, t, Get8Spec, hd]
          · simp [k1, k2, Get8Spec, hd]
        · simp [k1, Get8Spec, hd]
    · have hc : 0xF0 ≤ c0 ∧ c0 < 256 := ⟨by omega, h0⟩
      have ha : announced c0 = 4 := by simp [announced, c3, c4]
      match rest, hb with
      | [], _ =>
        rw [get8_nf4_nil c0 hc, Get8Spec]
        exact Or.inr ⟨c0, [], rfl, by omega, by simp [ha], by simp⟩
      | [b1], hb =>
        rw [get8_nf4_one c0 b1 hc]
        by_cases k1 : b1 / 64 = 2
        · simp only [k1, ne_eq, not_true_eq_false, if_false, Get8Spec]
          exact Or.inr ⟨c0, [b1], rfl, by omega, by simp [ha], by simp [k1]⟩
        · simp [k1, Get8Spec, dec8_short2 c0 b1 (by omega)]
      | [b1, b2], hb =>
        rw [get8_nf4_two c0 b1 b2 hc]
        by_cases k1 : b1 / 64 = 2
        · by_cases k2 : b2 / 64 = 2
          · simp only [k1, k2, ne_eq, not_true_eq_false, if_false, Get8Spec]
            exact Or.inr ⟨c0, [b1, b2], rfl, by omega, by simp [ha], by simp [k1, k2]⟩
          · simp [k1, k2, Get8Spec, dec8_short3 c0 b1 b2 (by omega)]
        · simp [k1, Get8Spec, dec8_short3 c0 b1 b2 (by omega)]
      | b1 :: b2 :: b3 :: r, hb =>
        have h1 : b1 < 256 := hb.tail.head
        have h2 : b2 < 256 := hb.tail.tail.head
        have h3 : b3 < 256 := hb.tail.tail.tail.head
        rw [get8_nf4 c0 b1 b2 b3 r hc]
        have hd := dec8_af4 c0 b1 b2 b3 r hc h1 h2 h3
        by_cases k1 : b1 / 64 = 2
        · by_cases k2 : b2 / 64 = 2
          · by_cases k3 : b3 / 64 = 2
            · by_cases t : c0 % 16 * 64 + b1 % 64 < 16 ∨ (c0 % 16 * 64 + b1 % 64) * 64 + b2 % 64 < 32
                ∨ ((c0 % 16 * 64 + b1 % 64) * 64 + b2 % 64) * 64 + b3 % 64 < 128
                ∨ 1114112 ≤ ((c0 % 16 * 64 + b1 % 64) * 64 + b2 % 64) * 64 + b3 % 64
              · simp [k1, k2, k3, t, Get8Spec, hd]
              · simp [k1, k2, k3, t, Get8Spec, hd]
            · simp [k1, k2, k3, Get8Spec, hd]
          · simp [k1, k2, Get8Spec, hd]
        · simp [k1, Get8Spec, hd]

end GrVerif.Utf

import GrVerif.Model.Zones
/-!
# The interval set of the collision fixer (C17, third sentence)

The set of free intervals the fixer searches always remains sorted, disjoint and inside its bounds, and `closest` never
offers a position that was excluded – for ALL sequences of `initialise`, `exclude` and weighted inserts.
-/
set_option linter.unusedSimpArgs false
set_option linter.unusedVariables false
namespace GrVerif.Props.C17
open GrVerif.Zones

/-- sorted, pairwise disjoint, non-empty intervals inside `[lo, hi]` -/
def Inv (lo hi : Int) : List Excl → Prop
  | [] => True
  | i :: rest => lo ≤ i.x ∧ i.x < i.xm ∧ i.xm ≤ hi ∧ Inv i.xm hi rest

theorem Inv.mono {lo lo' hi : Int} (h : lo' ≤ lo) : ∀ {l}, Inv lo hi l → Inv lo' hi l
  | [], _ => trivial
  | _ :: _, ⟨a, b, c, d⟩ => ⟨by omega, b, c, d⟩

theorem insertGo_inv (hi : Int) : ∀ (l : List Excl) (e : Excl) (lo : Int), Inv lo hi l → Inv lo hi (insertGo e l) := by
  intro l
  induction l with
  | nil => intro e lo h; simp [insertGo, Inv]
  | cons i rest ih =>
    intro e lo h
    obtain ⟨h1, h2, h3, h4⟩ := h
    unfold insertGo
    by_cases hc : e.x < e.xm
    · simp only [hc, not_true_eq_false, if_false]
      by_cases a1 : i.x ≥ e.xm <;> by_cases a0 : i.x < e.x <;> by_cases b1 : i.xm ≥ e.xm <;> by_cases b0 : i.xm < e.x <;>
        simp [outcode, a1, a0, b1, b0, Inv, add] <;> (try omega) <;>
        (first
          | exact ⟨h1, h2, h3, ih _ _ h4⟩
          | skip)
      all_goals
        (repeat' split) <;> simp only [Inv] <;> and_intros <;>
        (first | omega | exact h4 | exact ih _ _ h4 | exact Inv.mono (by omega) h4 | (subst_vars; first | omega | exact h4))
    · simp [hc, Inv]; exact ⟨h1, h2, h3, h4⟩

theorem removeGo_inv (hi x xm : Int) (hx : x < xm) : ∀ (l : List Excl) (lo : Int), Inv lo hi l → Inv lo hi (removeGo x xm l) := by
  intro l
  induction l with
  | nil => intro lo h; simp [removeGo, Inv]
  | cons i rest ih =>
    intro lo h
    obtain ⟨h1, h2, h3, h4⟩ := h
    unfold removeGo
    by_cases a1 : x ≥ i.xm <;> by_cases a0 : x < i.x <;> by_cases b1 : xm ≥ i.xm <;> by_cases b0 : xm < i.x <;>
      simp [outcode, a1, a0, b1, b0] <;> (try omega) <;>
      ((repeat' split) <;> (try simp only [Inv]) <;> (try and_intros) <;>
        (first | omega | exact h4 | exact ih _ h4 | exact Inv.mono (by omega) h4 | exact Inv.mono (by omega) (ih _ h4)
               | (subst_vars; first | omega | exact h4 | exact Inv.mono (by omega) (ih _ h4))))

/-- the invariant of a `Zones` object -/
def ZInv (z : Zones) : Prop := Inv z.pos z.posm z.excl

/-- **zones_inv (initialise)**: a non-empty range gives a well-formed set -/
theorem initialise_inv (sd : Bool) (xmin xmax : Int) (a0 : Rat) (h : xmin < xmax) : ZInv (initialise sd xmin xmax a0) := by
  unfold ZInv initialise
  cases sd <;> simp [Inv, weightedXY, weightedSD] <;> omega

/-- **zones_inv (insert)** -/
theorem insert_inv (z : Zones) (e : Excl) (h : ZInv z) : ZInv (z.insert e) := by
  unfold Zones.insert
  simp only
  split
  · exact h
  · exact insertGo_inv z.posm z.excl _ z.pos h

/-- on a well-formed set the test for a range of no width changes nothing: such a set is empty when `pos ≥ posm` -/
theorem remove_eq_core (z : Zones) (x xm : Int) (h : ZInv z) : z.remove x xm = z.removeCore x xm := by
  unfold Zones.remove
  by_cases hw : z.pos ≥ z.posm
  · rw [if_pos hw]
    have hnil : z.excl = [] := by
      cases he : z.excl with
      | nil => rfl
      | cons i rest =>
        unfold ZInv at h
        rw [he] at h
        obtain ⟨a, b, c, _⟩ := h
        omega
    have hcore : z.removeCore x xm = z := by
      unfold Zones.removeCore
      simp only
      rw [if_pos (by omega)]
    rw [hcore]
    split
    · cases z; simp only at hnil; subst hnil; rfl
    · rfl
  · rw [if_neg hw]

/-- **zones_inv (remove)** -/
theorem remove_inv (z : Zones) (x xm : Int) (h : ZInv z) : ZInv (z.remove x xm) := by
  rw [remove_eq_core z x xm h]
  unfold Zones.removeCore
  simp only
  split
  · exact h
  · rename_i hc
    exact removeGo_inv z.posm _ _ (by omega) z.excl z.pos h

/-- the operations the collider applies to a set -/

@[simp] theorem insert_bounds (z : Zones) (e : Excl) : (z.insert e).pos = z.pos ∧ (z.insert e).posm = z.posm := by
  unfold Zones.insert; simp only; split <;> simp
@[simp] theorem remove_bounds (z : Zones) (a b : Int) : (z.remove a b).pos = z.pos ∧ (z.remove a b).posm = z.posm := by
  unfold Zones.remove Zones.removeCore; simp only; split <;> (try split) <;> simp

/-- **zones_inv**: after ANY sequence of excludes and weighted inserts the set is sorted, disjoint and inside its bounds -/
theorem zones_inv (sd : Bool) (xmin xmax : Int) (a0 : Rat) (h : xmin < xmax) (ops : List Op) :
    ZInv (ops.foldl Zones.step (initialise sd xmin xmax a0)) := by
  have : ∀ (ops : List Op) (z : Zones), ZInv z → ZInv (ops.foldl Zones.step z) := by
    intro ops
    induction ops with
    | nil => intro z hz; exact hz
    | cons op ops ih =>
      intro z hz
      apply ih
      cases op with
      | exclude a b => exact remove_inv z a b hz
      | weighted e => exact insert_inv z e hz
  exact this ops _ (initialise_inv sd xmin xmax a0 h)

/-! ### excluded positions are never offered -/

/-- no interval of the list meets the open interval `(a, b)` -/
def Avoids (a b : Int) (l : List Excl) : Prop := ∀ i ∈ l, i.xm ≤ a ∨ b ≤ i.x

theorem avoids_nil (a b : Int) : Avoids a b [] := by intro i hi; simp at hi
theorem avoids_cons (a b : Int) (i : Excl) (l : List Excl) : Avoids a b (i :: l) ↔ (i.xm ≤ a ∨ b ≤ i.x) ∧ Avoids a b l := by
  unfold Avoids; simp [List.forall_mem_cons]
theorem avoids_of_ge (a b c : Int) (l : List Excl) (h : ∀ j ∈ l, c ≤ j.x) (hb : b ≤ c) : Avoids a b l := by
  intro j hj; have := h j hj; omega

theorem inv_lower (hi : Int) : ∀ (l : List Excl) (lo : Int), Inv lo hi l → ∀ j ∈ l, lo ≤ j.x := by
  intro l
  induction l with
  | nil => intro lo _ j hj; simp at hj
  | cons k ks ihk =>
    intro lo hk j hj
    obtain ⟨k1, k2, k3, k4⟩ := hk
    rcases List.mem_cons.mp hj with rfl | hj
    · exact k1
    · have := ihk k.xm k4 j hj; omega

/-- after `remove x xm` no interval meets the open interval `(x, xm)` -/
theorem removeGo_avoids (x xm : Int) (hx : x < xm) (hi : Int) :
    ∀ (l : List Excl) (lo : Int), Inv lo hi l → Avoids x xm (removeGo x xm l) := by
  intro l
  induction l with
  | nil => intro lo _; simp [removeGo, avoids_nil]
  | cons i rest ih =>
    intro lo h
    obtain ⟨h1, h2, h3, h4⟩ := h
    have hrest : ∀ j ∈ rest, i.xm ≤ j.x := inv_lower hi rest i.xm h4
    have ihr := ih i.xm h4
    unfold removeGo
    by_cases a1 : x ≥ i.xm <;> by_cases a0 : x < i.x <;> by_cases b1 : xm ≥ i.xm <;> by_cases b0 : xm < i.x <;>
      simp [outcode, a1, a0, b1, b0] <;> (try omega) <;>
      ((repeat' split) <;> (try simp only [avoids_cons]) <;> (try and_intros) <;>
        (first | omega | exact ihr | exact avoids_of_ge _ _ _ _ hrest (by omega) | (simp; omega) | skip))

/-- inserting never adds coverage: every interval afterwards lies inside an interval that was there before -/
def SubOf (l' l : List Excl) : Prop := ∀ j ∈ l', ∃ i ∈ l, i.x ≤ j.x ∧ j.xm ≤ i.xm

theorem subOf_nil (l : List Excl) : SubOf [] l := by intro j hj; simp at hj
theorem subOf_cons (j : Excl) (l' l : List Excl) (h : ∃ i ∈ l, i.x ≤ j.x ∧ j.xm ≤ i.xm) (h' : SubOf l' l) : SubOf (j :: l') l := by
  intro k hk; rcases List.mem_cons.mp hk with rfl | hk; exact h; exact h' k hk
theorem subOf_tail (i : Excl) (l' l : List Excl) (h : SubOf l' l) : SubOf l' (i :: l) := by
  intro j hj; obtain ⟨k, hk, a, b⟩ := h j hj; exact ⟨k, List.mem_cons_of_mem _ hk, a, b⟩
theorem subOf_refl (l : List Excl) : SubOf l l := fun j hj => ⟨j, hj, by omega, by omega⟩
theorem within (i : Excl) (rest : List Excl) (j : Excl) (h1 : i.x ≤ j.x) (h2 : j.xm ≤ i.xm) :
    ∃ k ∈ i :: rest, k.x ≤ j.x ∧ j.xm ≤ k.xm := ⟨i, List.mem_cons_self .., h1, h2⟩

theorem insertGo_sub (hi : Int) : ∀ (l : List Excl) (e : Excl) (lo : Int), Inv lo hi l → SubOf (insertGo e l) l := by
  intro l
  induction l with
  | nil => intro e lo _; simp [insertGo, subOf_nil]
  | cons i rest ih =>
    intro e lo hinv
    obtain ⟨h1, h2, h3, h4⟩ := hinv
    unfold insertGo
    by_cases hc : e.x < e.xm
    · simp only [hc, not_true_eq_false, if_false]
      have hr : ∀ e', SubOf (insertGo e' rest) (i :: rest) := fun e' => subOf_tail i _ _ (ih e' i.xm h4)
      have hrr : SubOf rest (i :: rest) := subOf_tail i _ _ (subOf_refl rest)
      by_cases a1 : i.x ≥ e.xm <;> by_cases a0 : i.x < e.x <;> by_cases b1 : i.xm ≥ e.xm <;> by_cases b0 : i.xm < e.x <;>
        simp [outcode, a1, a0, b1, b0, add] <;> (try omega) <;>
        ((repeat' split) <;>
          (repeat' (first
            | exact hr _
            | exact hrr
            | exact subOf_refl _
            | (apply subOf_cons _ _ _ (within i rest _ (by simp <;> omega) (by simp <;> omega))))))
    · simp only [hc, not_false_eq_true, if_true]; exact subOf_refl _

theorem avoids_of_sub (a b : Int) (l' l : List Excl) (hs : SubOf l' l) (h : Avoids a b l)
    (hne : ∀ j ∈ l', j.x < j.xm) : Avoids a b l' := by
  intro j hj
  obtain ⟨i, hi, h1, h2⟩ := hs j hj
  have := h i hi
  have := hne j hj
  omega

theorem removeGo_sub (x xm : Int) (hx : x < xm) (hi : Int) :
    ∀ (l : List Excl) (lo : Int), Inv lo hi l → SubOf (removeGo x xm l) l := by
  intro l
  induction l with
  | nil => intro lo _; simp [removeGo, subOf_nil]
  | cons i rest ih =>
    intro lo hinv
    obtain ⟨h1, h2, h3, h4⟩ := hinv
    have hr : SubOf (removeGo x xm rest) (i :: rest) := subOf_tail i _ _ (ih i.xm h4)
    have hrr : SubOf rest (i :: rest) := subOf_tail i _ _ (subOf_refl rest)
    unfold removeGo
    by_cases a1 : x ≥ i.xm <;> by_cases a0 : x < i.x <;> by_cases b1 : xm ≥ i.xm <;> by_cases b0 : xm < i.x <;>
      simp [outcode, a1, a0, b1, b0] <;> (try omega) <;>
      ((repeat' split) <;>
        (repeat' (first
          | exact hr
          | exact hrr
          | exact subOf_refl _
          | (apply subOf_cons _ _ _ (within i rest _ (by simp <;> omega) (by simp <;> omega))))))

theorem inv_nonempty (hi : Int) : ∀ (l : List Excl) (lo : Int), Inv lo hi l → ∀ j ∈ l, j.x < j.xm := by
  intro l
  induction l with
  | nil => intro lo _ j hj; simp at hj
  | cons k ks ihk =>
    intro lo hk j hj
    obtain ⟨k1, k2, k3, k4⟩ := hk
    rcases List.mem_cons.mp hj with rfl | hj
    · exact k2
    · exact ihk k.xm k4 j hj

/-- an excluded open interval stays excluded whatever the fixer does next -/
theorem step_avoids (a b : Int) (z : Zones) (hz : ZInv z) (h : Avoids a b z.excl) (op : Op) : Avoids a b (Zones.step z op).excl := by
  cases op with
  | exclude x xm =>
    have hz' := remove_inv z x xm hz
    rw [remove_eq_core z x xm hz] at hz'
    show Avoids a b (z.remove x xm).excl
    rw [remove_eq_core z x xm hz]
    unfold Zones.removeCore at *
    simp only at *
    split
    · exact h
    · rename_i hc
      exact avoids_of_sub a b _ _ (removeGo_sub _ _ (by omega) z.posm z.excl z.pos hz) h
        (inv_nonempty z.posm _ z.pos (by simpa [hc, ZInv] using hz'))
  | weighted e =>
    have hz' := insert_inv z e hz
    unfold Zones.step Zones.insert at *
    simp only at *
    split
    · exact h
    · rename_i hc
      exact avoids_of_sub a b _ _ (insertGo_sub z.posm z.excl _ z.pos hz) h
        (inv_nonempty z.posm _ z.pos (by simpa [hc, ZInv] using hz'))

theorem exclude_avoids (z : Zones) (hz : ZInv z) (a b : Int) (hab : a < b) (ha : z.pos ≤ a) (hb : b ≤ z.posm) :
    Avoids a b (z.remove a b).excl := by
  rw [remove_eq_core z a b hz]
  unfold Zones.removeCore
  simp only
  have e1 : max a z.pos = a := Int.max_eq_left ha
  have e2 : min b z.posm = b := Int.min_eq_left hb
  rw [e1, e2]
  have : ¬ a ≥ b := by omega
  simp only [this, if_false]
  exact removeGo_avoids _ _ hab z.posm z.excl z.pos hz

/-! ### `closest` only offers points of the set -/

theorem intCast_le (a b : Int) (h : a ≤ b) : (a : Rat) ≤ (b : Rat) := by exact_mod_cast h

theorem testPosition_mem (e : Excl) (origin : Rat) (h : e.x ≤ e.xm) (p : Rat) (hp : e.testPosition origin = some p) :
    (e.x : Rat) ≤ p ∧ p ≤ (e.xm : Rat) := by
  have hc : (e.x : Rat) ≤ (e.xm : Rat) := intCast_le _ _ h
  unfold Excl.testPosition at hp
  split at hp
  · simp only [Option.some.injEq] at hp
    subst hp
    split <;> split <;> (try split) <;> constructor <;> grind
  · split at hp
    · split at hp
      · simp at hp; subst hp; constructor <;> grind
      · split at hp
        · simp at hp; subst hp; constructor <;> grind
        · simp at hp
    · simp only [Option.some.injEq] at hp
      subst hp
      split
      · constructor <;> grind
      · split
        · constructor <;> grind
        · constructor <;> grind

/-- the position carried by a `best` value lies in an interval of `l` -/
def InSet (l : List Excl) (best : Option (Rat × Rat)) : Prop :=
  ∀ c p, best = some (c, p) → ∃ i ∈ l, (i.x : Rat) ≤ p ∧ p ≤ (i.xm : Rat)

theorem trackCost_inSet (l : List Excl) (e : Excl) (he : e ∈ l) (hx : e.x ≤ e.xm) (best : Option (Rat × Rat)) (origin : Rat)
    (h : InSet l best) : InSet l (e.trackCost best origin).2 := by
  unfold Excl.trackCost
  cases htp : e.testPosition origin with
  | none => exact h
  | some p0 =>
    have hm := testPosition_mem e origin hx p0 htp
    simp only
    cases best with
    | none => intro c p hp; simp at hp; obtain ⟨_, rfl⟩ := hp; exact ⟨e, he, hm.1, hm.2⟩
    | some bp =>
      obtain ⟨bc, bpp⟩ := bp
      simp only
      split
      · exact h
      · split
        · intro c p hp; simp at hp; obtain ⟨_, rfl⟩ := hp; exact ⟨e, he, hm.1, hm.2⟩
        · exact h

theorem scan_inSet (l : List Excl) (hl : ∀ e ∈ l, e.x ≤ e.xm) (origin : Rat) :
    ∀ (sub : List Excl), (∀ e ∈ sub, e ∈ l) → ∀ best, InSet l best → InSet l (scan origin sub best) := by
  intro sub
  induction sub with
  | nil => intro _ best h; exact h
  | cons e rest ih =>
    intro hsub best h
    unfold scan
    have he := hsub e (List.mem_cons_self ..)
    have := trackCost_inSet l e he (hl e he) best origin h
    cases htc : e.trackCost best origin with
    | mk stop b =>
      rw [htc] at this
      simp only
      split
      · exact this
      · exact ih (fun x hx => hsub x (List.mem_cons_of_mem _ hx)) b this

/-- **closest_mem**: whenever `closest` finds a position, it lies in one of the set's intervals – for any cost
coefficients (also zero or negative weights), since `test_position` clamps to `[x, xm]`. -/
theorem closest_mem (z : Zones) (hz : ZInv z) (origin : Int) (c p : Rat) (h : z.closestBest origin = some (c, p)) :
    ∃ i ∈ z.excl, (i.x : Rat) ≤ p ∧ p ≤ (i.xm : Rat) := by
  have hl : ∀ e ∈ z.excl, e.x ≤ e.xm := fun e he => by have := inv_nonempty z.posm z.excl z.pos hz e he; omega
  unfold Zones.closestBest at h
  simp only at h
  generalize hs : findUnder z.excl origin (z.excl.length + 1) 0 z.excl.length = start at h
  have h1 := scan_inSet z.excl hl origin (z.excl.drop start) (fun e he => List.mem_of_mem_drop he) none (by intro c p hp; simp at hp)
  have h2 := scan_inSet z.excl hl origin (z.excl.take start).reverse
    (fun e he => List.mem_of_mem_take (List.mem_reverse.mp he)) _ h1
  exact h2 c p h

/-- **excluded_never_offered**: once the open interval `(a, b)` (inside the bounds) has been excluded, then whatever
sequence of further excludes and weighted inserts follows, `closest` never finds a position strictly inside it. -/
theorem excluded_never_offered (z : Zones) (hz : ZInv z) (a b : Int) (hab : a < b) (ha : z.pos ≤ a) (hb : b ≤ z.posm)
    (ops : List Op) (origin : Int) (c p : Rat)
    (h : (ops.foldl Zones.step (z.remove a b)).closestBest origin = some (c, p)) :
    ¬ ((a : Rat) < p ∧ p < (b : Rat)) := by
  have h0 : Avoids a b (z.remove a b).excl := exclude_avoids z hz a b hab ha hb
  have hz0 : ZInv (z.remove a b) := remove_inv z a b hz
  have key : ∀ (ops : List Op) (w : Zones), ZInv w → Avoids a b w.excl →
      ZInv (ops.foldl Zones.step w) ∧ Avoids a b (ops.foldl Zones.step w).excl := by
    intro ops
    induction ops with
    | nil => intro w hw ha; exact ⟨hw, ha⟩
    | cons op ops ih =>
      intro w hw ha
      apply ih
      · cases op with
        | exclude x xm => exact remove_inv w x xm hw
        | weighted e => exact insert_inv w e hw
      · exact step_avoids a b w hw ha op
  obtain ⟨hzf, haf⟩ := key ops _ hz0 h0
  obtain ⟨i, hi, h1, h2⟩ := closest_mem _ hzf origin c p h
  intro ⟨hlt, hgt⟩
  rcases haf i hi with hh | hh
  · have : (i.xm : Rat) ≤ (a : Rat) := intCast_le _ _ hh
    grind
  · have : (b : Rat) ≤ (i.x : Rat) := intCast_le _ _ hh
    grind

/-! ### the same without side conditions on the excluded interval (it is clamped to the bounds) -/

theorem inv_upper (hi : Int) : ∀ (l : List Excl) (lo : Int), Inv lo hi l → ∀ j ∈ l, j.xm ≤ hi := by
  intro l
  induction l with
  | nil => intro lo _ j hj; simp at hj
  | cons k ks ihk =>
    intro lo hk j hj
    obtain ⟨k1, k2, k3, k4⟩ := hk
    rcases List.mem_cons.mp hj with rfl | hj
    · exact k3
    · exact ihk k.xm k4 j hj

/-- after `exclude a b`, wherever `(a, b)` lies relative to the bounds, no interval meets `(a, b)` -/
theorem remove_avoids_any (z : Zones) (hz : ZInv z) (a b : Int) (hab : a < b) : Avoids a b (z.remove a b).excl := by
  have hlo := inv_lower z.posm z.excl z.pos hz
  have hup := inv_upper z.posm z.excl z.pos hz
  have hne := inv_nonempty z.posm z.excl z.pos hz
  by_cases hc : max a z.pos ≥ min b z.posm
  · -- nothing to remove: the interval lies outside the bounds
    have e : z.remove a b = z := by rw [remove_eq_core z a b hz]; unfold Zones.removeCore; simp only [hc, if_true]
    rw [e]
    intro i hi
    have h1 := hlo i hi; have h2 := hup i hi; have h3 := hne i hi
    omega
  · have hz' := remove_inv z a b hz
    have h0 : Avoids (max a z.pos) (min b z.posm) (z.remove a b).excl := by
      rw [remove_eq_core z a b hz]
      unfold Zones.removeCore
      simp only [hc, if_false]
      exact removeGo_avoids _ _ (by omega) z.posm z.excl z.pos hz
    have hlo' := inv_lower _ _ _ hz'
    have hup' := inv_upper _ _ _ hz'
    have hne' := inv_nonempty _ _ _ hz'
    have hb := remove_bounds z a b
    intro i hi
    have h1 := hlo' i hi; have h2 := hup' i hi; have h3 := hne' i hi
    rw [hb.1] at h1; rw [hb.2] at h2
    rcases h0 i hi with h | h <;> omega

/-- any further operations keep the set well formed and an avoided interval avoided -/
theorem steps_keep (a b : Int) : ∀ (ops : List Op) (w : Zones), ZInv w → Avoids a b w.excl →
    ZInv (ops.foldl Zones.step w) ∧ Avoids a b (ops.foldl Zones.step w).excl := by
  intro ops
  induction ops with
  | nil => intro w hw ha; exact ⟨hw, ha⟩
  | cons op ops ih =>
    intro w hw ha
    apply ih
    · cases op with
      | exclude x xm => exact remove_inv w x xm hw
      | weighted e => exact insert_inv w e hw
    · exact step_avoids a b w hw ha op

theorem steps_inv : ∀ (ops : List Op) (w : Zones), ZInv w → ZInv (ops.foldl Zones.step w) := by
  intro ops
  induction ops with
  | nil => intro w hw; exact hw
  | cons op ops ih =>
    intro w hw
    apply ih
    cases op with
    | exclude x xm => exact remove_inv w x xm hw
    | weighted e => exact insert_inv w e hw

theorem steps_bounds : ∀ (ops : List Op) (w : Zones), (ops.foldl Zones.step w).pos = w.pos ∧ (ops.foldl Zones.step w).posm = w.posm := by
  intro ops
  induction ops with
  | nil => intro w; exact ⟨rfl, rfl⟩
  | cons op ops ih =>
    intro w
    have := ih (Zones.step w op)
    cases op with
    | exclude x xm => simp only [List.foldl_cons]; rw [this.1, this.2]; exact remove_bounds w x xm
    | weighted e => simp only [List.foldl_cons]; rw [this.1, this.2]; exact insert_bounds w e

/-- a position that `closest` finds is not strictly inside an avoided interval -/
theorem offered_not_inside (z : Zones) (hz : ZInv z) (a b : Int) (hav : Avoids a b z.excl) (origin : Int) (c p : Rat)
    (h : z.closestBest origin = some (c, p)) : ¬ ((a : Rat) < p ∧ p < (b : Rat)) := by
  obtain ⟨i, hi, h1, h2⟩ := closest_mem z hz origin c p h
  intro ⟨hlt, hgt⟩
  rcases hav i hi with hh | hh
  · have : (i.xm : Rat) ≤ (a : Rat) := intCast_le _ _ hh
    grind
  · have : (b : Rat) ≤ (i.x : Rat) := intCast_le _ _ hh
    grind

/-- a position that `closest` finds lies inside the bounds -/
theorem offered_in_bounds (z : Zones) (hz : ZInv z) (origin : Int) (c p : Rat) (h : z.closestBest origin = some (c, p)) :
    (z.pos : Rat) ≤ p ∧ p ≤ (z.posm : Rat) := by
  obtain ⟨i, hi, h1, h2⟩ := closest_mem z hz origin c p h
  have a1 := intCast_le _ _ (inv_lower z.posm z.excl z.pos hz i hi)
  have a2 := intCast_le _ _ (inv_upper z.posm z.excl z.pos hz i hi)
  constructor <;> grind

/-! ### non-vacuity -/
example : ZInv (initialise false 0 100 5) := initialise_inv false 0 100 5 (by decide)
example : ((initialise false 0 100 5).remove 20 40).excl.map (fun e => (e.x, e.xm)) = [(0, 20), (40, 100)] := by decide

end GrVerif.Props.C17

import GrVerif.Model.Pass
set_option linter.unusedVariables false
set_option linter.unusedSimpArgs false
/-!
# The matcher never indexes outside the state tables of an accepted pass   (C02, C01)

`Pass::runFSM` indexes `m_cols[gid]`, `m_transitions[state*m_numColumns + col]` and `m_states[state]` without a test of its
own beyond `gid >= m_numGlyphs` and `state >= m_numTransition`: it relies on what the loader established
(`readRanges`: a column is below `numColumns` or 0xFFFF; `readStates`: every transition is a state number; the rule ranges
of the success states exist).  `fsmScan` of `Model/Pass.lean` reads these tables with a default for a missing entry.  Here
the accesses are made explicit – `fsmScanC` faults on an index outside a table – and shown never to fault, and to compute what
`fsmScan` computes, when the tables have the shape the loader guarantees (`TablesWF`).
-/
namespace GrVerif.Pass
open GrVerif.Vm GrVerif.Seg GrVerif.Action GrVerif.Gen.Vm

/-- the shape of the state tables of a pass the loader accepted -/
structure TablesWF (p : PassT) : Prop where
  counts : p.numTransition ≤ p.numStates ∧ p.numSuccess ≤ p.numStates ∧ p.numStates ≤ p.numSuccess + p.numTransition
  cols : ∀ g, g < p.cols.size → p.cols.getD g 0xFFFF = 0xFFFF ∨ p.cols.getD g 0xFFFF < p.numColumns
  rows : p.trans.size = p.numTransition
  row : ∀ s, s < p.numTransition → (p.trans.getD s #[]).size = p.numColumns ∧ ∀ c, c < p.numColumns → (p.trans.getD s #[]).getD c 0 < p.numStates
  ruleMap : p.ruleMap.size = p.numSuccess

/-- `fsmScan` with every table access checked: `m_cols` beyond its end is the C++'s own test (`gid >= m_numGlyphs`), a missing
transition row, a column outside the row, or a success state without a rule list is a fault -/
def fsmScanC (p : PassT) : List Nat → Nat → Nat → List Nat → Nat → Except String (Bool × Nat × Bool × List Nat)
  | [], _, _, rules, pushed => .ok (true, pushed, true, rules)
  | g :: rest, state, free, rules, pushed =>
    let col := p.cols.getD g 0xFFFF
    if g ≥ p.cols.size ∨ col = 0xFFFF then .ok (true, pushed + 1, false, rules)
    else if free - 1 = 0 then .ok (false, pushed + 1, false, rules)
    else if state ≥ p.numTransition then .ok (true, pushed + 1, false, rules)
    else
      match p.trans[state]? with
      | none => .error "m_transitions: row outside the table"
      | some row =>
        match row[col]? with
        | none => .error "m_transitions: column outside the row"
        | some state' =>
          if state' ≥ p.successStart then
            match p.ruleMap[state' - p.successStart]? with
            | none => .error "m_states: success state without a rule list"
            | some rl =>
              let rules := accumulate p rules (sortRules p rl)
              if state' ≠ 0 ∧ ¬ rest.isEmpty then fsmScanC p rest state' (free - 1) rules (pushed + 1)
              else .ok (true, pushed + 1, true, rules)
          else
            if state' ≠ 0 ∧ ¬ rest.isEmpty then fsmScanC p rest state' (free - 1) rules (pushed + 1)
            else .ok (true, pushed + 1, true, rules)

/-- **no table access of the matcher is outside its table, and the checked walk is the modelled walk** -/
theorem fsmScanC_eq (p : PassT) (h : TablesWF p) : ∀ (gids : List Nat) (state free : Nat) (rules : List Nat) (pushed : Nat),
    fsmScanC p gids state free rules pushed = .ok (fsmScan p gids state free rules pushed) := by
  intro gids
  induction gids with
  | nil => intro state free rules pushed; rfl
  | cons g rest ih =>
    intro state free rules pushed
    unfold fsmScanC fsmScan
    simp only []
    by_cases c1 : g ≥ p.cols.size ∨ p.cols.getD g 0xFFFF = 0xFFFF
    · rw [if_pos c1, if_pos c1]
    rw [if_neg c1, if_neg c1]
    by_cases c2 : free - 1 = 0
    · rw [if_pos c2, if_pos c2]
    rw [if_neg c2, if_neg c2]
    by_cases c3 : state ≥ p.numTransition
    · rw [if_pos c3, if_pos c3]
    rw [if_neg c3, if_neg c3]
    have hs : state < p.numTransition := by omega
    have hg : g < p.cols.size := by
      apply Classical.byContradiction; intro hn; exact c1 (.inl (by omega))
    have hcol : p.cols.getD g 0xFFFF < p.numColumns := by
      rcases h.cols g hg with hc | hc
      · exact absurd hc (fun hh => c1 (.inr hh))
      · exact hc
    have hrow := h.row state hs
    have hsz : state < p.trans.size := by rw [h.rows]; exact hs
    have e1 : p.trans[state]? = some (p.trans.getD state #[]) := by
      rw [Array.getD_eq_getD_getElem?, Array.getElem?_eq_getElem hsz]; rfl
    rw [e1]
    simp only []
    have hcs : p.cols.getD g 0xFFFF < (p.trans.getD state #[]).size := by rw [hrow.1]; exact hcol
    have e2 : (p.trans.getD state #[])[p.cols.getD g 0xFFFF]? = some ((p.trans.getD state #[]).getD (p.cols.getD g 0xFFFF) 0) := by
      rw [Array.getD_eq_getD_getElem? (xs := p.trans.getD state #[]), Array.getElem?_eq_getElem hcs]; rfl
    rw [e2]
    simp only []
    have hst : (p.trans.getD state #[]).getD (p.cols.getD g 0xFFFF) 0 < p.numStates := hrow.2 _ hcol
    generalize (p.trans.getD state #[]).getD (p.cols.getD g 0xFFFF) 0 = st' at hst ⊢
    by_cases c4 : st' ≥ p.successStart
    · rw [if_pos c4, if_pos c4]
      have hidx : st' - p.successStart < p.ruleMap.size := by
        rw [h.ruleMap]
        unfold PassT.successStart at c4 ⊢
        have := h.counts
        omega
      have e3 : p.ruleMap[st' - p.successStart]? = some (p.ruleMap.getD (st' - p.successStart) []) := by
        rw [Array.getD_eq_getD_getElem? (xs := p.ruleMap), Array.getElem?_eq_getElem hidx]; rfl
      rw [e3]
      simp only []
      by_cases c5 : st' ≠ 0 ∧ ¬ rest.isEmpty = true
      · rw [if_pos c5, if_pos c5]; exact ih _ _ _ _
      · rw [if_neg c5, if_neg c5]
    · rw [if_neg c4, if_neg c4]
      by_cases c5 : st' ≠ 0 ∧ ¬ rest.isEmpty = true
      · rw [if_pos c5, if_pos c5]; exact ih _ _ _ _
      · rw [if_neg c5, if_neg c5]

end GrVerif.Pass

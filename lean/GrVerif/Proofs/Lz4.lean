import GrVerif.Model.Lz4
/-! Every read and store of the LZ4 decoder model stays inside the buffers (towards `lz4_in_bounds`). -/
set_option linter.unusedSimpArgs false
set_option linter.unusedVariables false
namespace GrVerif.Lz4
open GrVerif

theorem wr_ok {b : Buf} {i v : Nat} (h : i < b.size) : wr b i v = .ok (b.setIfInBounds i v) := by simp [wr, h]


theorem readN_ok (b : Buf) : ∀ n s, s + n ≤ b.size → ∃ vs, readN b s n = .ok vs ∧ vs.length = n := by
  intro n
  induction n with
  | zero => intro s _; exact ⟨[], rfl, rfl⟩
  | succ n ih =>
    intro s h
    obtain ⟨vs, h1, h2⟩ := ih (s + 1) (by omega)
    refine ⟨b[s]'(by omega) :: vs, ?_, by simp [h2]⟩
    simp [readN, rd_ok (show s < b.size by omega), h1, bind, Except.bind, pure, Except.pure]

theorem writeL_ok : ∀ (vs : List Nat) (out : Buf) (d : Nat), d + vs.length ≤ out.size →
    ∃ o, writeL out d vs = .ok o ∧ o.size = out.size := by
  intro vs
  induction vs with
  | nil => intro out d _; exact ⟨out, rfl, rfl⟩
  | cons v vs ih =>
    intro out d h
    simp only [List.length_cons] at h
    obtain ⟨o, h1, h2⟩ := ih (out.setIfInBounds d v) (d + 1) (by simp; omega)
    refine ⟨o, ?_, by simpa using h2⟩
    simp [writeL, wr_ok (show d < out.size by omega), h1, bind, Except.bind]

theorem copyWordFrom_ok (src out : Buf) (s d : Nat) (hs : s + WS ≤ src.size) (hd : d + WS ≤ out.size) :
    ∃ o, copyWordFrom src s d out = .ok o ∧ o.size = out.size := by
  obtain ⟨vs, h1, h2⟩ := readN_ok src WS s hs
  obtain ⟨o, h3, h4⟩ := writeL_ok vs out d (by omega)
  exact ⟨o, by simp [copyWordFrom, h1, h3, bind, Except.bind], h4⟩

theorem copyWordSelf_ok (out : Buf) (s d : Nat) (hs : s + WS ≤ out.size) (hd : d + WS ≤ out.size) :
    ∃ o, copyWordSelf s d out = .ok o ∧ o.size = out.size := by
  obtain ⟨vs, h1, h2⟩ := readN_ok out WS s hs
  obtain ⟨o, h3, h4⟩ := writeL_ok vs out d (by omega)
  exact ⟨o, by simp [copyWordSelf, h1, h3, bind, Except.bind], h4⟩

theorem overrunFrom_ok (src : Buf) : ∀ w s d (out : Buf), s + w * WS ≤ src.size → d + w * WS ≤ out.size →
    ∃ o, overrunFrom src w s d out = .ok o ∧ o.size = out.size := by
  intro w
  induction w with
  | zero => intro s d out _ _; exact ⟨out, rfl, rfl⟩
  | succ w ih =>
    intro s d out hs hd
    have e : (w + 1) * WS = w * WS + WS := by rw [Nat.add_mul]; simp
    rw [e] at hs hd
    obtain ⟨o1, h1, h2⟩ := copyWordFrom_ok src out s d (by omega) (by omega)
    obtain ⟨o, h3, h4⟩ := ih (s + WS) (d + WS) o1 (by omega) (by omega)
    exact ⟨o, by simp [overrunFrom, h1, h3, bind, Except.bind], by omega⟩

theorem overrunSelf_ok : ∀ w s d (out : Buf), s + w * WS ≤ out.size → d + w * WS ≤ out.size →
    ∃ o, overrunSelf w s d out = .ok o ∧ o.size = out.size := by
  intro w
  induction w with
  | zero => intro s d out _ _; exact ⟨out, rfl, rfl⟩
  | succ w ih =>
    intro s d out hs hd
    have e : (w + 1) * WS = w * WS + WS := by rw [Nat.add_mul]; simp
    rw [e] at hs hd
    obtain ⟨o1, h1, h2⟩ := copyWordSelf_ok out s d (by omega) (by omega)
    obtain ⟨o, h3, h4⟩ := ih (s + WS) (d + WS) o1 (by omega) (by omega)
    exact ⟨o, by simp [overrunSelf, h1, h3, bind, Except.bind], by omega⟩

theorem safeSelf_ok : ∀ n s d (out : Buf), s + n ≤ out.size → d + n ≤ out.size →
    ∃ o, safeSelf n s d out = .ok o ∧ o.size = out.size := by
  intro n
  induction n with
  | zero => intro s d out _ _; exact ⟨out, rfl, rfl⟩
  | succ n ih =>
    intro s d out hs hd
    obtain ⟨o, h3, h4⟩ := ih (s + 1) (d + 1) (out.setIfInBounds d (out[s]'(by omega))) (by simp; omega) (by simp; omega)
    refine ⟨o, ?_, by simpa using h4⟩
    simp [safeSelf, rd_ok (show s < out.size by omega), wr_ok (show d < out.size by omega), h3, bind, Except.bind]

theorem safeFrom_ok (src : Buf) : ∀ n s d (out : Buf), s + n ≤ src.size → d + n ≤ out.size →
    ∃ o, safeFrom src n s d out = .ok o ∧ o.size = out.size := by
  intro n
  induction n with
  | zero => intro s d out _ _; exact ⟨out, rfl, rfl⟩
  | succ n ih =>
    intro s d out hs hd
    obtain ⟨o, h3, h4⟩ := ih (s + 1) (d + 1) (out.setIfInBounds d (src[s]'(by omega))) (by omega) (by simp; omega)
    refine ⟨o, ?_, by simpa using h4⟩
    simp [safeFrom, rd_ok (show s < src.size by omega), wr_ok (show d < out.size by omega), h3, bind, Except.bind]

theorem WS_eq : WS = 8 := rfl

theorem fastFrom_ok (src out : Buf) (n s d : Nat) (hs : s + n ≤ src.size) (hd : d + n ≤ out.size) :
    ∃ o, fastFrom src n s d out = .ok o ∧ o.size = out.size := by
  have hw : n / WS * WS + n % WS = n := Nat.div_add_mod' n WS
  obtain ⟨o1, h1, h2⟩ := overrunFrom_ok src (n / WS) s d out (by omega) (by omega)
  obtain ⟨o, h3, h4⟩ := safeFrom_ok src (n % WS) (s + n / WS * WS) (d + n / WS * WS) o1 (by omega) (by omega)
  exact ⟨o, by simp [fastFrom, h1, h3, bind, Except.bind], by omega⟩

theorem readLitGo_ok (src : Buf) (e : Nat) (he : e ≤ src.size) : ∀ fuel s l, s < e → e - s ≤ fuel →
    ∃ s' l', readLitGo src e fuel s l = .ok (s', l') ∧ s < s' ∧ s' ≤ e := by
  intro fuel
  induction fuel with
  | zero => intro s l h1 h2; omega
  | succ fuel ih =>
    intro s l h1 h2
    have hr : rd src s = .ok (src[s]'(by omega)) := rd_ok (by omega)
    simp only [readLitGo, hr, bind, Except.bind, pure, Except.pure]
    by_cases hc : src[s]'(by omega) = 0xff ∧ s + 1 ≠ e
    · simp only [hc, ne_eq, not_false_eq_true, and_self, if_true]
      obtain ⟨s', l', h3, h4, h5⟩ := ih (s + 1) (sat32 (l + 255)) (by omega) (by omega)
      exact ⟨s', l', by simpa [hc.1] using h3, by omega, h5⟩
    · simp only [hc, if_false]
      exact ⟨_, _, rfl, by omega, by omega⟩

theorem readLiteral_ok (src : Buf) (e s l : Nat) (he : e ≤ src.size) (hs : s ≤ e) :
    ∃ s' l', readLiteral src e s l = .ok (s', l') ∧ s ≤ s' ∧ s' ≤ e := by
  unfold readLiteral
  by_cases hc : l = 15 ∧ s ≠ e
  · simp only [hc, ne_eq, not_false_eq_true, and_self, if_true]
    obtain ⟨s', l', h1, h2, h3⟩ := readLitGo_ok src e he (e - s) s 15 (by omega) (by omega)
    exact ⟨s', l', by simpa [hc.1] using h1, by omega, h3⟩
  · simp only [hc, if_false]
    exact ⟨s, l, rfl, by omega, hs⟩

/-- what `read_sequence` guarantees to the copy code that follows -/
structure SeqOK (src : Buf) (s : Nat) (q : Seq) : Prop where
  lit_le : q.literal ≤ src.size
  adv : q.more = true → s < q.src ∧ q.literal + q.literalLen + 2 + Gen.MINCODA ≤ src.size ∧ q.src + Gen.MINCODA ≤ src.size

theorem readSequence_ok (src : Buf) (s ml0 md0 : Nat) (hs : s < src.size) :
    ∃ q, readSequence src s ml0 md0 = .ok q ∧ SeqOK src s q := by
  have hr : rd src s = .ok (src[s]'hs) := rd_ok hs
  obtain ⟨s1, ll, h1, h1a, h1b⟩ := readLiteral_ok src src.size (s + 1) (src[s] >>> 4) (Nat.le_refl _) (by omega)
  simp only [readSequence, hr, h1, bind, Except.bind, pure, Except.pure]
  by_cases hc : s1 + ll + 2 > src.size
  · simp only [hc, if_true]
    exact ⟨_, rfl, ⟨h1b, by simp⟩⟩
  · simp only [hc, if_false]
    have r0 : rd src (s1 + ll) = .ok (src[s1 + ll]'(by omega)) := rd_ok (by omega)
    have r1 : rd src (s1 + ll + 1) = .ok (src[s1 + ll + 1]'(by omega)) := rd_ok (by omega)
    obtain ⟨s2, ml, h2, h2a, h2b⟩ := readLiteral_ok src src.size (s1 + ll + 2) (src[s] &&& 0xf) (Nat.le_refl _) (by omega)
    simp only [r0, r1, h2]
    refine ⟨_, rfl, ⟨h1b, ?_⟩⟩
    intro hm
    simp only [decide_eq_true_eq] at hm
    exact ⟨by show s < s2; omega, by show s1 + ll + 2 + Gen.MINCODA ≤ src.size; omega, hm⟩

theorem align_le (n : Nat) : n ≤ align n ∧ align n ≤ n + 7 ∧ align n % 8 = 0 := by
  unfold align; simp only [WS_eq]; omega

theorem nWords_mul (n : Nat) (h : n ≠ 0) : nWords n * WS = align n := by
  unfold nWords align; simp only [WS_eq]
  have : 1 ≤ (n + 7) / 8 := by omega
  rw [Nat.max_eq_right this]

/-- **in-bounds invariant of the main loop**: from any state whose cursors are inside the buffers, the loop finishes
without a `Fault`, whatever the input bytes are -/
theorem loop_ok (src : Buf) : ∀ fuel s d rem ml0 md0 (out : Buf), s < src.size → d + rem = out.size →
    ∃ r, loop src fuel s d rem ml0 md0 out = .ok r ∧ r.2.size = out.size ∧ (∀ k, r.1 = some k → k ≤ out.size) := by
  intro fuel
  induction fuel with
  | zero => intro s d rem ml0 md0 out _ _; exact ⟨(none, out), rfl, rfl, by simp⟩
  | succ fuel ih =>
    intro s d rem ml0 md0 out hs hinv
    obtain ⟨q, hq, hok⟩ := readSequence_ok src s ml0 md0 hs
    simp only [loop, hq, bind, Except.bind, pure, Except.pure]
    by_cases hm : q.more = true
    · -- a sequence with a match part
      have ⟨hadv, hlit, hsrc⟩ := hok.adv hm
      simp only [Gen.MINCODA] at hlit hsrc
      simp only [hm, Bool.not_true, Bool.false_eq_true, if_false]
      -- the match step, from any consistent (d, rem, out)
      have step : ∀ d' rem' (out' : Buf), d' + rem' = out'.size →
          ∃ r, (do
            let lim := ((rem' + 2^64 - Gen.LASTLITERALS) % 2^64) % 2^32
            if q.matchDist > d' ∨ q.matchLen < Gen.MINMATCH ∨ q.matchLen > lim ∨ rem' < Gen.LASTLITERALS ∨ q.matchDist = 0 then pure (none, out') else
            let pcpy := d' - q.matchDist
            let o ← if d' > pcpy + WS ∧ align q.matchLen ≤ rem' then overrunSelf (nWords q.matchLen) pcpy d' out'
                      else safeSelf q.matchLen pcpy d' out'
            loop src fuel q.src (d' + q.matchLen) (rem' - q.matchLen) q.matchLen q.matchDist o : Except Fault (Option Nat × Buf)) = .ok r
            ∧ r.2.size = out'.size ∧ (∀ k, r.1 = some k → k ≤ out'.size) := by
        intro d' rem' out' hinv'
        simp only [Gen.LASTLITERALS, Gen.MINMATCH, Nat.reducePow]
        by_cases hbad : q.matchDist > d' ∨ q.matchLen < 4 ∨ q.matchLen > ((rem' + 18446744073709551616 - 5) % 18446744073709551616) % 4294967296 ∨ rem' < 5 ∨ q.matchDist = 0
        · simp only [hbad, if_true, pure, Except.pure]
          exact ⟨_, rfl, rfl, by simp⟩
        · simp only [hbad, if_false, bind, Except.bind]
          have hml : q.matchLen + 5 ≤ rem' := by
            omega
          have hdist : 0 < q.matchDist ∧ q.matchDist ≤ d' := by omega
          by_cases hov : d' > d' - q.matchDist + WS ∧ align q.matchLen ≤ rem'
          · simp only [hov, and_self, if_true]
            have hw : nWords q.matchLen * WS ≤ rem' := by
              rw [nWords_mul _ (by omega)]; exact hov.2
            obtain ⟨o, h1, h2⟩ := overrunSelf_ok (nWords q.matchLen) (d' - q.matchDist) d' out' (by omega) (by omega)
            simp only [h1]
            obtain ⟨r, h3, h4, h5⟩ := ih q.src (d' + q.matchLen) (rem' - q.matchLen) q.matchLen q.matchDist o (by omega) (by omega)
            exact ⟨r, h3, by omega, fun k hk => by have := h5 k hk; omega⟩
          · simp only [hov, if_false]
            obtain ⟨o, h1, h2⟩ := safeSelf_ok q.matchLen (d' - q.matchDist) d' out' (by omega) (by omega)
            simp only [h1]
            obtain ⟨r, h3, h4, h5⟩ := ih q.src (d' + q.matchLen) (rem' - q.matchLen) q.matchLen q.matchDist o (by omega) (by omega)
            exact ⟨r, h3, by omega, fun k hk => by have := h5 k hk; omega⟩
      by_cases hll : q.literalLen = 0
      · simp only [hll, ne_eq, not_true_eq_false, if_false]
        exact step d rem out hinv
      · simp only [hll, ne_eq, not_false_eq_true, if_true]
        by_cases hal : align q.literalLen > rem
        · simp only [hal, if_true]
          exact ⟨_, rfl, rfl, by simp⟩
        · simp only [hal, if_false]
          have ha := align_le q.literalLen
          obtain ⟨o, h1, h2⟩ := overrunFrom_ok src (nWords q.literalLen) q.literal d out
            (by rw [nWords_mul _ hll]; omega) (by rw [nWords_mul _ hll]; omega)
          simp only [h1]
          obtain ⟨r, h3, h4, h5⟩ := step (d + q.literalLen) (rem - q.literalLen) o (by omega)
          exact ⟨r, h3, by omega, fun k hk => by have := h5 k hk; omega⟩
    · -- the final literals
      simp only [hm, Bool.not_false, if_true]
      by_cases hbad : q.literal + q.literalLen > src.size ∨ q.literalLen > rem ∨ q.literal + q.literalLen ≠ src.size
      · simp only [hbad, if_true]
        exact ⟨_, rfl, rfl, by simp⟩
      · simp only [hbad, if_false]
        obtain ⟨o, h1, h2⟩ := fastFrom_ok src out q.literalLen q.literal d (by omega) (by omega)
        simp only [h1]
        exact ⟨_, rfl, h2, fun k hk => by simp at hk; omega⟩

end GrVerif.Lz4

import GrVerif.Proofs.HeapChain
import GrVerif.Model.Pass
set_option linter.unusedVariables false
set_option linter.unusedSimpArgs false
/-!
# `Segment::reverseSlots` (C03, C04, C05, C06: right-to-left)

`Seg.reverseSlots` gives the stream a new order – a permutation of the old one – and touches nothing but `next`, `prev`,
`first`, `last` and bit 6 of `m_dir`.  Hence everything the other invariants read survives: the stream is again a
well-formed doubly linked list of the same slots, the attachment tree, the flags, the free list and the character
associations are unchanged.
-/
namespace GrVerif.Pass
open GrVerif.Vm GrVerif.Seg GrVerif.Action GrVerif.Gen.Vm

/-! ## the order -/

theorem revAcc_perm (mark : Nat → Bool) : ∀ (l cur out : List Nat), (revAcc mark l cur out).Perm (l ++ cur ++ out) := by
  intro l
  induction l with
  | nil => intro cur out; simp only [revAcc, List.nil_append]; exact (List.reverse_perm cur).append_right out
  | cons x xs ih =>
    intro cur out
    unfold revAcc
    split
    · refine (ih (x :: cur) out).trans ?_
      simp only [List.append_assoc, List.cons_append]
      exact List.perm_middle
    · refine (ih [x] (cur.reverse ++ out)).trans ?_
      have h1 : (xs ++ [x] ++ (cur.reverse ++ out)).Perm (x :: (xs ++ (cur.reverse ++ out))) := by
        simp only [List.append_assoc, List.singleton_append]; exact List.perm_middle
      refine h1.trans ?_
      simp only [List.cons_append, List.append_assoc]
      refine List.Perm.cons x ?_
      exact List.Perm.append_left xs ((List.reverse_perm cur).append_right out)

theorem revOrder_perm (mark : Nat → Bool) (l : List Nat) : (revOrder mark l).Perm l := by
  unfold revOrder
  have h := revAcc_perm mark (l.dropWhile mark) [] []
  simp only [List.append_nil] at h
  have := (List.Perm.append_left (l.takeWhile mark) h)
  rw [List.takeWhile_append_dropWhile] at this
  exact this

/-! ## relinking -/

/-- `b` is `a` with other `next`/`prev` links -/
def LinkOnly (a b : Slot) : Prop := b = { a with next := b.next, prev := b.prev }

theorem LinkOnly.rfl' (a : Slot) : LinkOnly a a := rfl
theorem LinkOnly.trans {a b c : Slot} (h1 : LinkOnly a b) (h2 : LinkOnly b c) : LinkOnly a c := by
  unfold LinkOnly at *
  rw [h2, h1]
theorem LinkOnly.set (a : Slot) (p n : Option Nat) : LinkOnly a ((a.setPrev p).setNext n) := rfl

theorem relinkGo_size (s : Seg) : ∀ (order : List Nat) (p : Option Nat) (s : Seg), (relinkGo s p order).slots.size = s.slots.size := by
  intro order
  induction order with
  | nil => intro p s; rfl
  | cons x rest ih => intro p s; unfold relinkGo; rw [ih]; simp

theorem relinkGo_seg (order : List Nat) : ∀ (p : Option Nat) (s : Seg),
    (relinkGo s p order).first = s.first ∧ (relinkGo s p order).last = s.last ∧ (relinkGo s p order).free = s.free ∧
    (relinkGo s p order).numGlyphs = s.numGlyphs ∧ (relinkGo s p order).numChars = s.numChars ∧
    (relinkGo s p order).defaultOriginal = s.defaultOriginal ∧ (relinkGo s p order).bufSize = s.bufSize ∧ (relinkGo s p order).dir = s.dir := by
  induction order with
  | nil => intro p s; exact ⟨rfl, rfl, rfl, rfl, rfl, rfl, rfl, rfl⟩
  | cons x rest ih =>
    intro p s
    unfold relinkGo
    obtain ⟨a, b, c, d, e, f, g, h⟩ := ih (some x) (s.upd x fun sl => (sl.setPrev p).setNext rest.head?)
    exact ⟨a, b, c, d, e, f, g, h⟩

theorem relinkGo_notin (order : List Nat) : ∀ (p : Option Nat) (s : Seg) (j : Nat), j ∉ order → (relinkGo s p order).get j = s.get j := by
  induction order with
  | nil => intro p s j _; rfl
  | cons x rest ih =>
    intro p s j hj
    unfold relinkGo
    rw [ih _ _ j (fun hh => hj (List.mem_cons_of_mem _ hh))]
    exact get_upd_ne _ _ _ _ (fun hh => hj (by rw [hh]; exact List.mem_cons_self))

theorem relinkGo_linkOnly (order : List Nat) : ∀ (p : Option Nat) (s : Seg) (j : Nat), LinkOnly (s.get j) ((relinkGo s p order).get j) := by
  induction order with
  | nil => intro p s j; exact LinkOnly.rfl' _
  | cons x rest ih =>
    intro p s j
    unfold relinkGo
    refine LinkOnly.trans ?_ (ih _ _ j)
    rw [get_upd]
    split
    · exact LinkOnly.set _ _ _
    · exact LinkOnly.rfl' _

theorem relinkGo_chain : ∀ (order : List Nat) (p : Option Nat) (s : Seg), order.Nodup → (∀ i ∈ order, i < s.slots.size) →
    Chain (relinkGo s p order) none p order := by
  intro order
  induction order with
  | nil => intro p s _ _; trivial
  | cons x rest ih =>
    intro p s hn hb
    have hx : x ∉ rest := (List.nodup_cons.mp hn).1
    have hxs : x < s.slots.size := hb x List.mem_cons_self
    unfold relinkGo
    have hget : (relinkGo (s.upd x fun sl => (sl.setPrev p).setNext rest.head?) (some x) rest).get x =
        ((s.get x).setPrev p).setNext rest.head? := by
      rw [relinkGo_notin rest _ _ x hx, get_upd_self _ _ _ hxs]
    refine ⟨by rw [hget]; rfl, by rw [hget]; simp [Slot.setNext], ?_⟩
    exact ih (some x) _ (List.nodup_cons.mp hn).2 (fun i hi => by simpa using hb i (List.mem_cons_of_mem _ hi))

/-- the relinked stream is a well-formed doubly linked list in the new order -/
theorem relink_linked (s : Seg) (order : List Nat) (hn : order.Nodup) (hb : ∀ i ∈ order, i < s.slots.size) : Linked (s.relink order) order := by
  unfold Seg.relink
  refine ⟨hn, fun i hi => ?_, rfl, rfl, ?_⟩
  · show i < (relinkGo s none order).slots.size
    rw [relinkGo_size s]; exact hb i hi
  · exact chain_congr (s := relinkGo s none order) (fun _ _ => ⟨rfl, rfl⟩) (relinkGo_chain order none s hn hb)

theorem relink_linkOnly (s : Seg) (order : List Nat) (j : Nat) : LinkOnly (s.get j) ((s.relink order).get j) :=
  relinkGo_linkOnly order none s j

theorem relink_notin (s : Seg) (order : List Nat) (j : Nat) (h : j ∉ order) : (s.relink order).get j = s.get j :=
  relinkGo_notin order none s j h

/-! ## `reverseSlots` -/

theorem ahead_chain {s : Seg} : ∀ (l : List Nat) (p : Option Nat) (fuel : Nat), Chain s none p l → l.length ≤ fuel →
    ahead s fuel l.head? = l := by
  intro l
  induction l with
  | nil => intro p fuel _ _; cases fuel <;> simp [ahead]
  | cons i rest ih =>
    intro p fuel hc hf
    cases fuel with
    | zero => simp at hf
    | succ f =>
      obtain ⟨_, hn, hr⟩ := hc
      simp only [List.head?_cons, ahead, Option.or_none] at hn ⊢
      rw [hn, ih (some i) f hr (by simpa using hf)]

theorem ahead_stream {s : Seg} {l : List Nat} (h : Linked s l) : ahead s (2 * s.slots.size + 8) s.first = l := by
  rw [h.first]
  refine ahead_chain l none _ h.chain ?_
  have hsub : l ⊆ List.range s.slots.size := fun j hj => List.mem_range.mpr (h.inb j hj)
  have := List.Nodup.length_le_of_subset h.nodup hsub
  simp at this
  omega

/-- what `reverseSlots` leaves alone -/
structure RevSame (s s' : Seg) : Prop where
  slot : ∀ j, LinkOnly (s.get j) (s'.get j)
  size : s'.slots.size = s.slots.size
  free : s'.free = s.free
  numGlyphs : s'.numGlyphs = s.numGlyphs
  numChars : s'.numChars = s.numChars
  defaultOriginal : s'.defaultOriginal = s.defaultOriginal
  bufSize : s'.bufSize = s.bufSize

theorem revSame_flip (s : Seg) : RevSame s s.flipDir := ⟨fun _ => LinkOnly.rfl' _, rfl, rfl, rfl, rfl, rfl, rfl⟩

theorem revSame_relink (s : Seg) (order : List Nat) : RevSame s (s.relink order) := by
  obtain ⟨a, b, c, d, e, f, g, h⟩ := relinkGo_seg order none s
  exact ⟨relink_linkOnly s order, relinkGo_size s order none s, c, d, e, f, g⟩

theorem RevSame.trans {a b c : Seg} (h1 : RevSame a b) (h2 : RevSame b c) : RevSame a c :=
  ⟨fun j => (h1.slot j).trans (h2.slot j), h2.size.trans h1.size, h2.free.trans h1.free, h2.numGlyphs.trans h1.numGlyphs,
   h2.numChars.trans h1.numChars, h2.defaultOriginal.trans h1.defaultOriginal, h2.bufSize.trans h1.bufSize⟩

theorem reverseSlots_same (s : Seg) (mark : Nat → Bool) : RevSame s (s.reverseSlots mark) := by
  unfold Seg.reverseSlots
  simp only []
  split
  · exact revSame_flip s
  · split
    · exact revSame_flip s
    · exact (revSame_flip s).trans (revSame_relink _ _)

/-- **the reversed stream is a stream**: a well-formed doubly linked list of the same slots, in an order that is a permutation
of the old one; flags, free list and the allocation invariant are kept -/
theorem reverseSlots_wf {s : Seg} {l : List Nat} (hl : Linked s l) (hc : Clean s l) (ha : Alloc s l) (mark : Nat → Bool) :
    ∃ l', l'.Perm l ∧ Linked (s.reverseSlots mark) l' ∧ Clean (s.reverseSlots mark) l' ∧ Alloc (s.reverseSlots mark) l' := by
  have hsame := reverseSlots_same s mark
  have hflags : ∀ j, ((s.reverseSlots mark).get j).deleted = (s.get j).deleted ∧ ((s.reverseSlots mark).get j).copied = (s.get j).copied :=
    fun j => by have := hsame.slot j; unfold LinkOnly at this; rw [this]; exact ⟨rfl, rfl⟩
  -- the stream list of the result
  have key : ∃ l', l'.Perm l ∧ Linked (s.reverseSlots mark) l' ∧ (∀ f ∈ s.free, ((s.reverseSlots mark).get f).prev = (s.get f).prev) := by
    unfold Seg.reverseSlots
    simp only []
    have lf : Linked s.flipDir l := ⟨hl.nodup, hl.inb, hl.first, hl.last, chain_congr (s := s) (s' := s.flipDir) (fun _ _ => ⟨rfl, rfl⟩) hl.chain⟩
    split
    · exact ⟨l, List.Perm.refl _, lf, fun _ _ => rfl⟩
    · split
      · exact ⟨l, List.Perm.refl _, lf, fun _ _ => rfl⟩
      · have hstream : ahead s.flipDir (2 * s.flipDir.slots.size + 8) s.flipDir.first = l := ahead_stream lf
        rw [hstream]
        have hp := revOrder_perm mark l
        refine ⟨revOrder mark l, hp, relink_linked _ _ (hp.nodup_iff.mpr hl.nodup) (fun i hi => hl.inb i (hp.mem_iff.mp hi)), fun f hf => ?_⟩
        rw [relink_notin _ _ f (fun hh => hc.freeOut f hf (hp.mem_iff.mp hh))]
        rfl
  obtain ⟨l', hp, hl', hfree⟩ := key
  refine ⟨l', hp, hl', ?_, ?_⟩
  · refine ⟨fun i hi => ?_, by rw [hsame.free]; exact hc.freeNodup, fun f hf => ?_, fun f hf => ?_, fun f hf => ?_, ?_⟩
    · rw [(hflags i).1, (hflags i).2]; exact hc.live i (hp.mem_iff.mp hi)
    · rw [hsame.free] at hf; rw [hsame.size]; exact hc.freeInb f hf
    · rw [hsame.free] at hf; exact fun hh => hc.freeOut f hf (hp.mem_iff.mp hh)
    · rw [hsame.free] at hf
      rw [(hflags f).1, (hflags f).2, hfree f hf]; exact hc.freeClean f hf
    · rw [hsame.numGlyphs, hc.count, hp.length_eq]
  · intro j h1 h2 h3 h4
    rw [hsame.size] at h1; rw [hsame.free] at h2; rw [(hflags j).2] at h3; rw [(hflags j).1] at h4
    exact hp.mem_iff.mpr (ha j h1 h2 h3 h4)

end GrVerif.Pass

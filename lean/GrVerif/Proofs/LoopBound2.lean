import GrVerif.Proofs.LoopBound
import GrVerif.Proofs.ShapeStream
set_option linter.unusedVariables false
set_option linter.unusedSimpArgs false
/-!
# The loop bound through a run of passes and the whole pipeline (C02)
-/
namespace GrVerif.Pass
open GrVerif.Vm GrVerif.Seg GrVerif.Action GrVerif.Gen.Vm

/-- every pass of the range has the loop limit `Pass::readPass` gives it (`if (m_iMaxLoop < 1) m_iMaxLoop = 1;`) -/
def LimitsOK (passes : Array PassT) (lo hi : Nat) : Prop := ∀ k, k < hi - lo → 1 ≤ (passes.getD (lo + k) default).maxLoop

theorem runPassDir_within_bound (p : PassT) (hL : 1 ≤ p.maxLoop) (c : Ctx) (fuel : Nat) (h : WF c.seg) {c' : Ctx}
    (e : runPassDir p c fuel = .ok (some c')) : c'.vExceeded = c.vExceeded := by
  unfold runPassDir at e
  split at e
  · cases e; rfl
  · simp only [] at e
    split at e
    · cases e
    · split at e
      · cases e
      · split at e
        · cases e; rfl
        · split at e
          · exact runPass_within_bound p hL (c.withSeg (c.seg.reverseSlots (isMark c c.seg))) fuel (reverse_wf h _) e
          · exact runPass_within_bound p hL c fuel h e

/-- where an error of the engine model can come from: a rule application (the matcher, a constraint, an action) or a pass constraint -/
def EngineError (w : String) : Prop :=
  (∃ p c s, findNDoRule p c s = .error w) ∨ (∃ p c s, testPassConstraint p c s = .error w)

theorem runPassDir_error (p : PassT) (hL : 1 ≤ p.maxLoop) (c : Ctx) (fuel : Nat) (h : WF c.seg) {w : String}
    (e : runPassDir p c fuel = .error w) : EngineError w := by
  unfold runPassDir at e
  split at e
  · cases e
  · simp only [] at e
    split at e
    · rename_i hpc
      cases e
      exact Or.inr ⟨p, c, _, hpc⟩
    · split at e
      · cases e
      · split at e
        · cases e
        · split at e
          · obtain ⟨c', s', hh⟩ := runPass_error p hL (c.withSeg (c.seg.reverseSlots (isMark c c.seg))) fuel (reverse_wf h _) e
            exact Or.inl ⟨p, c', s', hh⟩
          · obtain ⟨c', s', hh⟩ := runPass_error p hL c fuel h e
            exact Or.inl ⟨p, c', s', hh⟩

theorem runRange_fold (passes : Array PassT) (lo fuel : Nat) (limit : Int) (b : Bool) :
    ∀ (ks : List Nat), (∀ k ∈ ks, 1 ≤ (passes.getD (lo + k) default).maxLoop) →
    ∀ (acc : Except String (Option Ctx)),
      ((∀ x, acc = .ok (some x) → WF x.seg ∧ x.vExceeded = b) ∧ (∀ w, acc = .error w → EngineError w)) →
      let r := ks.foldl (fun (acc : Except String (Option Ctx)) k =>
        match acc with
        | .ok (some c1) =>
          (match runPassDir (passes.getD (lo + k) default) c1 fuel with
           | .ok (some c2) => if c2.seg.numGlyphs > 0 ∧ c2.seg.numGlyphs > limit then .ok none else .ok (some c2)
           | o => o)
        | o => o) acc
      (∀ x, r = .ok (some x) → WF x.seg ∧ x.vExceeded = b) ∧ (∀ w, r = .error w → EngineError w) := by
  intro ks
  induction ks with
  | nil => intro _ acc ha; exact ha
  | cons k rest ih =>
    intro hk acc ha
    simp only [List.foldl_cons]
    refine ih (fun k' hk' => hk k' (List.mem_cons_of_mem _ hk')) _ ?_
    have hLk := hk k List.mem_cons_self
    constructor
    · intro y hy
      split at hy
      · rename_i c1
        obtain ⟨w1, v1⟩ := ha.1 c1 rfl
        split at hy
        · rename_i c2 hp
          split at hy
          · cases hy
          · cases hy
            exact ⟨runPassDir_spec _ c1 fuel w1 hp, (runPassDir_within_bound _ hLk c1 fuel w1 hp).trans v1⟩
        · rename_i o hno
          exact absurd hy (by intro hh; exact hno y (by rw [hh]))
      · rename_i o hno
        exact absurd hy (fun hh => hno y hh)
    · intro w hw
      split at hw
      · rename_i c1
        obtain ⟨w1, v1⟩ := ha.1 c1 rfl
        split at hw
        · split at hw <;> cases hw
        · rename_i o hno
          exact runPassDir_error _ hLk c1 fuel w1 hw
      · exact ha.2 w hw

theorem beginRange_wf {c : Ctx} (h : WF c.seg) (limit : Int) : WF (c.beginRange limit).seg := h

/-- **C02, a run of passes**: the loop report never says "exceeded", and an error is a rule application's -/
theorem runRange_within_bound (passes : Array PassT) (c : Ctx) (lo hi fuel : Nat) (h : WF c.seg) (hL : LimitsOK passes lo hi) :
    (∀ c', runRange passes c lo hi fuel = .ok (some c') → c'.vExceeded = c.vExceeded) ∧
    (∀ w, runRange passes c lo hi fuel = .error w → EngineError w) := by
  unfold runRange
  simp only []
  have := runRange_fold passes lo fuel (c.seg.numGlyphs * 64) c.vExceeded (List.range (hi - lo))
    (fun k hk => hL k (List.mem_range.mp hk)) (.ok (some (c.beginRange (c.seg.numGlyphs * 64))))
    ⟨fun x hx => by cases hx; exact ⟨h, rfl⟩, fun w hw => by cases hw⟩
  exact ⟨fun c' e => (this.1 c' e).2, this.2⟩

/-- **C02, the pipeline**: for every font whose passes carry the loop limit the loader gives them, and every text, the rule
loops of all passes stay within `maxRuleLoop × (slots + insertion budget + 2)` iterations (the model's loop report never
says "exceeded"), … -/
theorem shape_within_bound (font : Font) (text : List Nat) (fuel : Nat) (dir : Nat) (hi : font.ipos ≤ font.passes.size)
    (hL : ∀ k, k < font.passes.size → 1 ≤ (font.passes.getD k default).maxLoop) {c : Ctx} {ci : List Assoc.CI}
    (e : shape font text fuel dir = .ok (some (c, ci))) : c.vExceeded = false := by
  have hL1 : LimitsOK font.passes 0 font.ipos := fun k hk => hL _ (by omega)
  have hL2 : LimitsOK font.passes font.ipos font.passes.size := fun k hk => hL _ (by omega)
  unfold shape at e
  split at e
  · simp only [Except.ok.injEq, Option.some.injEq, Prod.mk.injEq] at e
    rw [← e.1]
  · split at e
    · cases e
    · cases e
    · rename_i c1 h1
      have w1 : WF c1.seg := runRange_spec _ _ _ _ _ (initSeg_wf font text dir) h1
      have v1 : c1.vExceeded = false := (runRange_within_bound _ _ _ _ fuel (initSeg_wf font text dir) hL1).1 c1 h1
      split at e
      · cases e
      · rename_i seg' ci' hre
        have w2 : WF seg' := reassoc_wf w1 hre
        split at e
        · cases e
        · cases e
        · rename_i c2 h2
          simp only [Except.ok.injEq, Option.some.injEq, Prod.mk.injEq] at e
          rw [← e.1]
          exact ((runRange_within_bound _ (c1.withSeg seg') _ _ fuel w2 hL2).1 c2 h2).trans v1

/-- … and the fuel of the model's recursion is never what ends a run: an error of `shape` comes from a rule application
(a fault the model reports for an access the C++ does not guard, or code the decoder refuses) or from `associateChars` -/
theorem shape_error (font : Font) (text : List Nat) (fuel : Nat) (dir : Nat) (hi : font.ipos ≤ font.passes.size)
    (hL : ∀ k, k < font.passes.size → 1 ≤ (font.passes.getD k default).maxLoop) {w : String}
    (e : shape font text fuel dir = .error w) :
    (EngineError w) ∨ w = "associateChars: char-info access out of range" := by
  have hL1 : LimitsOK font.passes 0 font.ipos := fun k hk => hL _ (by omega)
  have hL2 : LimitsOK font.passes font.ipos font.passes.size := fun k hk => hL _ (by omega)
  unfold shape at e
  split at e
  · cases e
  · split at e
    · rename_i w1 h1
      cases e
      exact .inl ((runRange_within_bound _ _ _ _ fuel (initSeg_wf font text dir) hL1).2 w h1)
    · cases e
    · rename_i c1 h1
      have w1 : WF c1.seg := runRange_spec _ _ _ _ _ (initSeg_wf font text dir) h1
      split at e
      · cases e; exact .inr rfl
      · rename_i seg' ci' hre
        have w2 : WF seg' := reassoc_wf w1 hre
        split at e
        · rename_i w2' h2
          cases e
          exact .inl ((runRange_within_bound _ (c1.withSeg seg') _ _ fuel w2 hL2).2 w h2)
        · cases e
        · cases e

end GrVerif.Pass

import GrVerif.Proofs.LoopBound
import GrVerif.Proofs.ShapeStream
set_option linter.unusedVariables false
set_option linter.unusedSimpArgs false
/-!
# The loop bound through a run of passes and the whole pipeline (C02)
-/
namespace GrVerif.Pass
open GrVerif.Vm GrVerif.Seg GrVerif.Action GrVerif.Gen.Vm

/-- every pass of the range has the loop limit `Pass::readPass` gives it (`if (m_iMaxLoop < 1) m_iMaxLoop = 1;`) -/
def LimitsOK (passes : Array PassT) (lo hi : Nat) : Prop := ∀ k, k < hi - lo → 1 ≤ (passes.getD (lo + k) default).maxLoop

theorem runPassDir_within_bound (p : PassT) (hL : 1 ≤ p.maxLoop) (c : Ctx) (fuel : Nat) (ar : Bool) (h : WF c.seg) {c' : Ctx}
    (e : runPassDir p c fuel ar = .ok (some c')) : c'.vExceeded = c.vExceeded := by
  unfold runPassDir at e
  split at e
  · cases e; rfl
  · simp only [] at e
    split at e
    · cases e
    · split at e
      · cases e
      · split at e
        · cases e; rfl
        · split at e
          · exact runPass_within_bound p hL (c.withSeg (c.seg.reverseSlots (isMark c c.seg))) fuel (reverse_wf h _) e
          · exact runPass_within_bound p hL c fuel h e

/-- where an error of the engine model can come from: a rule application (the matcher, a constraint, an action) or a pass constraint -/
def EngineError (w : String) : Prop :=
  (∃ p c s, findNDoRule p c s = .error w) ∨ (∃ p c s, testPassConstraint p c s = .error w)

theorem runPassDir_error (p : PassT) (hL : 1 ≤ p.maxLoop) (c : Ctx) (fuel : Nat) (ar : Bool) (h : WF c.seg) {w : String}
    (e : runPassDir p c fuel ar = .error w) : EngineError w := by
  unfold runPassDir at e
  split at e
  · cases e
  · simp only [] at e
    split at e
    · rename_i hpc
      cases e
      exact Or.inr ⟨p, c, _, hpc⟩
    · split at e
      · cases e
      · split at e
        · cases e
        · split at e
          · obtain ⟨c', s', hh⟩ := runPass_error p hL (c.withSeg (c.seg.reverseSlots (isMark c c.seg))) fuel (reverse_wf h _) e
            exact Or.inl ⟨p, c', s', hh⟩
          · obtain ⟨c', s', hh⟩ := runPass_error p hL c fuel h e
            exact Or.inl ⟨p, c', s', hh⟩

theorem beginRange_wf {c : Ctx} (h : WF c.seg) (limit : Int) : WF (c.beginRange limit).seg := h

/-- **C02, a run of passes**: the loop report never says "exceeded", and an error is a rule application's or a pass constraint's -/
theorem runRange_within_bound (passes : Array PassT) (c : Ctx) (lo hi fuel : Nat) (h : WF c.seg) (hL : LimitsOK passes lo hi) :
    (∀ c', runRange passes c lo hi fuel = .ok (some c') → c'.vExceeded = c.vExceeded) ∧
    (∀ w, runRange passes c lo hi fuel = .error w → EngineError w) := by
  unfold runRange
  have hstep : ∀ k, k < hi - lo → ∀ c1 c2, (WF c1.seg ∧ c1.vExceeded = c.vExceeded) → runPassDir (passes.getD (lo + k) default) c1 fuel true = .ok (some c2) →
      (WF c2.seg ∧ c2.vExceeded = c.vExceeded) :=
    fun k hk c1 c2 h1 e1 => ⟨runPassDir_spec _ c1 fuel true h1.1 e1, (runPassDir_within_bound _ (hL k hk) c1 fuel true h1.1 e1).trans h1.2⟩
  refine ⟨fun c' e => (runPasses_ind (fun x => WF x.seg ∧ x.vExceeded = c.vExceeded) passes _ true lo hi fuel hstep (c.beginRange (c.seg.numGlyphs * 64)) ⟨h, rfl⟩ e).2, fun w e => ?_⟩
  obtain ⟨k, c1, hk, h1, he⟩ := runPasses_err (fun x => WF x.seg ∧ x.vExceeded = c.vExceeded) passes _ true lo hi fuel hstep (c.beginRange (c.seg.numGlyphs * 64)) ⟨h, rfl⟩ e
  exact runPassDir_error _ (hL k hk) c1 fuel true h1.1 he

/-- the same for a call of `Silf::runGraphite` with the bidi step -/
theorem runPhase_within_bound (passes : Array PassT) (bPass : Nat) (c : Ctx) (lo hi : Nat) (dobidi : Bool) (fuel : Nat) (h : WF c.seg)
    (hL : ∀ k, lo ≤ k → k < hi → 1 ≤ (passes.getD k default).maxLoop) (aMirror : Nat) :
    (∀ c', runPhase passes bPass c lo hi dobidi fuel aMirror = .ok (some c') → c'.vExceeded = c.vExceeded) ∧
    (∀ w, runPhase passes bPass c lo hi dobidi fuel aMirror = .error w → EngineError w) := by
  have hstep : ∀ ar k, lo ≤ k → k < hi → ∀ c1 c2, (WF c1.seg ∧ c1.vExceeded = c.vExceeded) → runPassDir (passes.getD k default) c1 fuel ar = .ok (some c2) →
      (WF c2.seg ∧ c2.vExceeded = c.vExceeded) :=
    fun ar k h1k h2k c1 c2 h1 e1 => ⟨runPassDir_spec _ c1 fuel ar h1.1 e1, (runPassDir_within_bound _ (hL k h1k h2k) c1 fuel ar h1.1 e1).trans h1.2⟩
  have hbegin : ∀ (x : Ctx) (l : Int), (WF x.seg ∧ x.vExceeded = c.vExceeded) → (WF (x.beginRange l).seg ∧ (x.beginRange l).vExceeded = c.vExceeded) :=
    fun x l hx => hx
  have hbidi : ∀ (x : Ctx), (WF x.seg ∧ x.vExceeded = c.vExceeded) → (WF (bidiStep x aMirror).seg ∧ (bidiStep x aMirror).vExceeded = c.vExceeded) :=
    fun x hx => ⟨bidiStep_wf hx.1 aMirror, (bidiStep_vExceeded x aMirror).trans hx.2⟩
  refine ⟨fun c' e => (runPhase_ind (fun x => WF x.seg ∧ x.vExceeded = c.vExceeded) passes bPass lo hi dobidi fuel aMirror hstep hbegin hbidi c ⟨h, rfl⟩ e).2, fun w e => ?_⟩
  obtain ⟨ar, k, c1, h1k, h2k, h1, he⟩ := runPhase_err (fun x => WF x.seg ∧ x.vExceeded = c.vExceeded) passes bPass lo hi dobidi fuel aMirror hstep hbegin hbidi c ⟨h, rfl⟩ e
  exact runPassDir_error _ (hL k h1k h2k) c1 fuel ar h1.1 he

/-- **C02, the pipeline**: for every font whose passes carry the loop limit the loader gives them, and every text, the rule
loops of all passes stay within `maxRuleLoop × (slots + insertion budget + 2)` iterations (the model's loop report never
says "exceeded"), … -/
theorem shape_within_bound (font : Font) (text : List Nat) (fuel : Nat) (dir : Nat) (hi : font.ipos ≤ font.passes.size)
    (hL : ∀ k, k < font.passes.size → 1 ≤ (font.passes.getD k default).maxLoop) {c : Ctx} {ci : List Assoc.CI}
    (e : shape font text fuel dir = .ok (some (c, ci))) : c.vExceeded = false := by
  have hL1 : ∀ k, 0 ≤ k → k < font.ipos → 1 ≤ (font.passes.getD k default).maxLoop := fun k _ hk => hL _ (by omega)
  have hL2 : ∀ k, font.ipos ≤ k → k < font.passes.size → 1 ≤ (font.passes.getD k default).maxLoop := fun k _ hk => hL _ hk
  unfold shape at e
  split at e
  · simp only [Except.ok.injEq, Option.some.injEq, Prod.mk.injEq] at e
    rw [← e.1]
  · split at e
    · cases e
    · cases e
    · rename_i c1 h1
      have w1 : WF c1.seg := runPhase_spec _ _ _ _ _ _ _ (startMirror_wf font (initSeg_wf font text dir)) h1
      have v1 : c1.vExceeded = false := ((runPhase_within_bound _ _ _ _ _ _ fuel (startMirror_wf font (initSeg_wf font text dir)) hL1 _).1 c1 h1).trans (startMirror_vExceeded font _)
      split at e
      · cases e
      · rename_i seg' ci' hre
        have w2 : WF seg' := reassoc_wf w1 hre
        split at e
        · cases e
        · cases e
        · rename_i c2 h2
          simp only [Except.ok.injEq, Option.some.injEq, Prod.mk.injEq] at e
          rw [← e.1]
          exact ((runPhase_within_bound _ _ (c1.withSeg seg') _ _ _ fuel w2 hL2 _).1 c2 h2).trans v1

/-- … and the fuel of the model's recursion is never what ends a run: an error of `shape` comes from a rule application
(a fault the model reports for an access the C++ does not guard, or code the decoder refuses) or from `associateChars` -/
theorem shape_error (font : Font) (text : List Nat) (fuel : Nat) (dir : Nat) (hi : font.ipos ≤ font.passes.size)
    (hL : ∀ k, k < font.passes.size → 1 ≤ (font.passes.getD k default).maxLoop) {w : String}
    (e : shape font text fuel dir = .error w) :
    (EngineError w) ∨ w = "associateChars: char-info access out of range" := by
  have hL1 : ∀ k, 0 ≤ k → k < font.ipos → 1 ≤ (font.passes.getD k default).maxLoop := fun k _ hk => hL _ (by omega)
  have hL2 : ∀ k, font.ipos ≤ k → k < font.passes.size → 1 ≤ (font.passes.getD k default).maxLoop := fun k _ hk => hL _ hk
  unfold shape at e
  split at e
  · cases e
  · split at e
    · rename_i w1 h1
      cases e
      exact .inl ((runPhase_within_bound _ _ _ _ _ _ fuel (startMirror_wf font (initSeg_wf font text dir)) hL1 _).2 w h1)
    · cases e
    · rename_i c1 h1
      have w1 : WF c1.seg := runPhase_spec _ _ _ _ _ _ _ (startMirror_wf font (initSeg_wf font text dir)) h1
      split at e
      · cases e; exact .inr rfl
      · rename_i seg' ci' hre
        have w2 : WF seg' := reassoc_wf w1 hre
        split at e
        · rename_i w2' h2
          cases e
          exact .inl ((runPhase_within_bound _ _ (c1.withSeg seg') _ _ _ fuel w2 hL2 _).2 w h2)
        · cases e
        · cases e

end GrVerif.Pass

import GrVerif.Proofs.CodeLoad
import GrVerif.Proofs.CodeOperands
set_option linter.unusedVariables false
set_option linter.unusedSimpArgs false
namespace GrVerif.CodeLoad
open GrVerif GrVerif.Gen.Vm GrVerif.Loader

/-! ## the loop invariant -/

structure Inv (constraint : Bool) (bc : List Nat) (pos : Nat) (d : Dec) : Prop where
  len : d.ctxs.length = 256
  endLe : d.curEnd ≤ bc.length
  posLe : pos ≤ d.curEnd
  slot : constraint = false → -1 ≤ d.slotref
  opn : ∀ c, d.ctxt = some c → d.curEnd ≤ c.outerEnd ∧ c.outerEnd = bc.length
  top : d.ctxt = none → d.curEnd = bc.length
  noCtxt : constraint = false → d.ctxt = none
  inC : d.inCtxt = true → d.ctxt.isSome = true
  ctxtIn : d.ctxt.isSome = true → d.inCtxt = true
  refs : nRef d.ctxs ≤ d.dataSize
  consumed : constraint = false → d.count + d.dataSize = pos
  cnt : d.count ≤ pos ∧ d.dataSize ≤ pos ∧ d.count + (d.dataSize + 7) / 8 ≤ pos
  ilen : (d.ctxt = none → d.instrs.length = d.count) ∧ (∀ c, d.ctxt = some c → c.before.length + 1 + d.instrs.length = d.count)

/-- every instruction emitted so far has operands below the limits -/
def AllOK (l : Limits) (d : Dec) : Prop :=
  (∀ i ∈ d.instrs, OperandsOK l i.1 i.2) ∧ ∀ c, d.ctxt = some c → ∀ i ∈ c.before, OperandsOK l i.1 i.2

theorem operandsOK_other (l : Limits) (opc : Nat) (ps : List Nat) (h : opc = 34 ∨ opc = 67) : OperandsOK l opc ps := by
  unfold OperandsOK
  refine ⟨?_, ?_, ?_, ?_, ?_, ?_, ?_, ?_, ?_, ?_, ?_⟩ <;> intro ho <;> omega

/-- what is left to do: two steps per byte still to be read, one more to close an open context item -/
def mu (bc : List Nat) (pos : Nat) (d : Dec) : Nat := 2 * (bc.length - pos) + (if d.ctxt.isSome then 1 else 0)

/-- **one opcode**: under the invariant no read of the bytecode and no write to `_contexts` is out of bounds; a decoded opcode
re-establishes the invariant further on in the bytecode -/
theorem stepOp_ok (l : Limits) (constraint : Bool) (pt : Nat) (bc : List Nat) (pos : Nat) (d : Dec)
    (hrl : constraint = false → l.ruleLength ≤ 254) (hi : Inv constraint bc pos d) (hp : pos < d.curEnd) :
    ∃ r, stepOp l constraint pt bc pos d = .ok r ∧
      ∀ pos' d', r = .ok (pos', d') → Inv constraint bc pos' d' ∧ mu bc pos' d' + 1 ≤ mu bc pos d ∧ (AllOK l d → AllOK l d') := by
  unfold stepOp
  have hle := hi.endLe
  rw [byteAt_ok bc pos (by omega)]
  simp only [bind, Except.bind, pure, Except.pure]
  by_cases h67 : bc[pos] ≥ 67
  · rw [if_pos h67]; exact ⟨_, rfl, fun _ _ h => by cases h⟩
  rw [if_neg h67]
  have hrow := table_row bc[pos] (by omega)
  unfold tableRow at hrow
  cases ht : opcodeTable[bc[pos]]? with
  | none => exact ⟨_, rfl, fun _ _ h => by cases h⟩
  | some row =>
  obtain ⟨nm, psz, implA, implC⟩ := row
  rw [ht] at hrow
  simp only [Bool.and_eq_true, Bool.or_eq_true, beq_iff_eq, decide_eq_true_eq, decide_eq_decide] at hrow
  obtain ⟨⟨⟨⟨⟨f1, f2⟩, f5⟩, f3⟩, f4⟩, f6⟩ := hrow
  simp only []
  by_cases himpl : (!(if constraint = true then implC else implA)) = true
  · rw [if_pos himpl]; exact ⟨_, rfl, fun _ _ h => by cases h⟩
  rw [if_neg himpl]
  by_cases hva : psz = 255 ∧ pos + 1 ≥ d.curEnd
  · rw [if_pos hva]; exact ⟨_, rfl, fun _ _ h => by cases h⟩
  rw [if_neg hva]
  -- the number of parameter bytes
  obtain ⟨n, hn, hnv⟩ : ∃ n, paramCount bc pos psz = .ok n ∧
      (if psz = 255 then ∃ h : pos + 1 < bc.length, n = bc[pos + 1] + 1 else n = psz) := by
    unfold paramCount
    by_cases hv : psz = 255
    · have : pos + 1 < bc.length := by omega
      rw [if_pos hv, byteAt_ok bc (pos + 1) this]
      refine ⟨_, rfl, ?_⟩
      rw [if_pos hv]
      exact ⟨this, rfl⟩
    · rw [if_neg hv]
      refine ⟨_, rfl, ?_⟩
      rw [if_neg hv]
  rw [hn]
  simp only []
  by_cases hex : pos + n ≥ d.curEnd
  · rw [if_pos hex]; exact ⟨_, rfl, fun _ _ h => by cases h⟩
  rw [if_neg hex]
  have hps : ((bc.drop (pos + 1)).take n).length = n := by simp only [List.length_take, List.length_drop]; omega
  -- the switch of fetch_opcode
  have hneed : need bc[pos] ≤ ((bc.drop (pos + 1)).take n).length := by
    rw [hps]
    by_cases hv : psz = 255
    · have := f1.mp hv
      rw [if_pos this] at f6
      simp only [Bool.and_eq_true, beq_iff_eq] at f6
      omega
    · rw [if_neg hv] at hnv; subst hnv
      rcases f2 with f2 | f2
      · exact absurd f2 hv
      · exact f2
  have hassoc : bc[pos] = 33 → ∃ h : 0 < ((bc.drop (pos + 1)).take n).length, ((bc.drop (pos + 1)).take n)[0] < ((bc.drop (pos + 1)).take n).length := by
    intro h33
    have hv := f1.mpr h33
    rw [if_pos hv] at hnv
    obtain ⟨hb, hn'⟩ := hnv
    have hlen0 : 0 < ((bc.drop (pos + 1)).take n).length := by omega
    refine ⟨hlen0, ?_⟩
    have e0 : ((bc.drop (pos + 1)).take n)[0]'hlen0 = bc[pos + 1] := by simp only [List.getElem_take, List.getElem_drop, Nat.add_zero]
    omega
  obtain ⟨fr, hfr⟩ := fetchCase_ok l constraint pt d bc[pos] pos ((bc.drop (pos + 1)).take n) hneed hassoc
  rw [hfr]
  obtain ⟨b1, tests⟩ := fr
  simp only []
  cases hlf : lastFail tests with
  | some s => exact ⟨_, rfl, fun _ _ h => by cases h⟩
  | none =>
  simp only []
  -- analyse_opcode
  have hcf : (bc[pos] = 25 ∨ bc[pos] = 27) → constraint = false := by
    intro h
    rw [if_pos h] at f3
    cases constraint with
    | false => rfl
    | true => cases hc : implC <;> simp [hc] at himpl f3
  obtain ⟨d2, hd2, hk⟩ := analyse_ok { d with outIndex := b1.outIndex, outLength := b1.outLength, stackDepth := b1.stackDepth } bc[pos]
    ((bc.drop (pos + 1)).take n) hneed
    (fun h => ⟨hi.slot (hcf h), by have := fetchCase_next l constraint pt d bc[pos] pos _ b1 tests h hfr hlf; have := hrl (hcf h); simp only []; omega⟩)
    hi.len
  rw [hd2]
  simp only []
  have hknref : nRef d2.ctxs ≤ nRef d.ctxs + refsOf bc[pos] := hk.nref
  have hkds : d2.dataSize = d.dataSize := hk.dataSize
  have hkcount : d2.count = d.count := hk.count
  have hkend : d2.curEnd = d.curEnd := hk.curEnd
  have hkctxt : d2.ctxt = d.ctxt := hk.ctxt
  have hkin : d2.inCtxt = d.inCtxt := hk.inCtxt
  have hklen : d2.ctxs.length = d.ctxs.length := hk.len
  have hrefs : refsOf bc[pos] ≤ n := by
    by_cases hv : psz = 255
    · have := f1.mp hv
      rw [if_pos this] at f6
      simp only [Bool.and_eq_true, beq_iff_eq] at f6
      omega
    · rw [if_neg hv] at hnv; subst hnv
      rcases f5 with f5 | f5
      · exact absurd f5 hv
      · exact f5
  by_cases h34 : bc[pos] = 34
  · -- a context item opens
    rw [if_pos h34]
    rw [if_pos h34] at f4
    simp only [Bool.and_eq_true, Bool.not_eq_true', beq_iff_eq] at f4
    have hn2 : n = 2 := by
      have : psz ≠ 255 := by omega
      rw [if_neg this] at hnv; omega
    have hcons : constraint = true := by
      cases constraint with
      | true => rfl
      | false => simp [f4.1] at himpl
    obtain ⟨sv, hsv⟩ : ∃ v, arg ((bc.drop (pos + 1)).take n) 0 = .ok v := ⟨_, arg_ok _ 0 (by omega)⟩
    obtain ⟨kv, hkv⟩ : ∃ v, arg ((bc.drop (pos + 1)).take n) 1 = .ok v := ⟨_, arg_ok _ 1 (by omega)⟩
    rw [hsv, hkv]
    simp only []
    have hj := fetchCase_cntxt l constraint pt d pos _ b1 tests sv kv hsv hkv (h34 ▸ hfr) hlf
    refine ⟨_, rfl, fun pos' d' he => ?_⟩
    simp only [Except.ok.injEq, Prod.mk.injEq] at he
    obtain ⟨rfl, rfl⟩ := he
    have hnone : d.ctxt = none := by
      cases hc : d.ctxt with
      | none => rfl
      | some c => have := hi.ctxtIn (by rw [hc]; rfl); rw [hj.2] at this; cases this
    have htop := hi.top hnone
    refine ⟨⟨by rw [hklen]; exact hi.len, by simp only []; omega, by simp only []; omega, (fun h => by rw [hcons] at h; cases h), ?_, (fun h => by cases h), (fun h => by rw [hcons] at h; cases h),
      (fun _ => rfl), (fun _ => rfl), (by simp only []; have := hi.refs; rw [hkds]; omega), (fun h => by rw [hcons] at h; cases h),
      (by simp only []; rw [hkds, hkcount]; have := hi.cnt; omega), ⟨(fun h => by cases h), ?_⟩⟩, ?_⟩
    · intro c hc
      simp only [Option.some.injEq] at hc
      subst hc
      simp only []; omega
    · intro c hc
      simp only [Option.some.injEq] at hc
      subst hc
      have := hi.ilen.1 hnone
      simp only [List.length_nil]; rw [hk.instrs]; simp only []; omega
    · refine ⟨?_, ?_⟩
      · unfold mu
        simp only [Option.isSome_some, if_true]
        split <;> omega
      · intro hall
        refine ⟨(fun i hi' => by cases hi'), fun c hc i hi' => ?_⟩
        simp only [Option.some.injEq] at hc
        subst hc
        simp only [] at hi'
        rw [hk.instrs] at hi'
        exact hall.1 i hi'
  · rw [if_neg h34]
    refine ⟨_, rfl, fun pos' d' he => ?_⟩
    simp only [Except.ok.injEq, Prod.mk.injEq] at he
    obtain ⟨rfl, rfl⟩ := he
    refine ⟨⟨(by simp only []; rw [hklen]; exact hi.len), (by simp only []; rw [hkend]; exact hi.endLe), (by simp only []; rw [hkend]; omega),
      (fun h => hk.slot (hi.slot h)), ?_, (fun h => by simp only [] at h ⊢; rw [hkctxt] at h; rw [hkend]; exact hi.top h), (fun h => by simp only []; rw [hkctxt]; exact hi.noCtxt h),
      (fun h => by simp only [] at h ⊢; rw [hkctxt]; rw [hkin] at h; exact hi.inC h), (fun h => by simp only [] at h ⊢; rw [hkctxt] at h; rw [hkin]; exact hi.ctxtIn h),
      (by simp only []; have := hi.refs; rw [hkds]; omega),
      (fun h => by simp only []; rw [hkcount, hkds]; have := hi.consumed h; omega),
      (by simp only []; rw [hkds, hkcount]; have := hi.cnt; omega), ⟨?_, ?_⟩⟩, ?_⟩
    · intro c hc
      simp only [] at hc
      rw [hkctxt] at hc
      have := hi.opn c hc
      simp only []; rw [hkend]; exact this
    · intro h
      simp only [] at h ⊢
      rw [hkctxt] at h
      have := hi.ilen.1 h
      simp only [List.length_cons]; rw [hk.instrs, hkcount]; simp only []; omega
    · intro c hc
      simp only [] at hc ⊢
      rw [hkctxt] at hc
      have := hi.ilen.2 c hc
      simp only [List.length_cons]; rw [hk.instrs, hkcount]; simp only []; omega
    · refine ⟨?_, ?_⟩
      · unfold mu
        simp only []
        rw [hkctxt]
        split <;> omega
      · intro hall
        refine ⟨fun i hi' => ?_, fun c hc i hi' => ?_⟩
        · simp only [] at hi'
          rcases List.mem_cons.mp hi' with rfl | hi'
          · exact fetchCase_operands l constraint pt d bc[pos] pos _ b1 tests hneed hfr hlf
          · rw [hk.instrs] at hi'; exact hall.1 i hi'
        · simp only [] at hc
          rw [hkctxt] at hc
          exact hall.2 c hc i hi'

theorem closeCtxt_inv (constraint : Bool) (bc : List Nat) (pos : Nat) (d : Dec) (c : OpenCtxt) (hi : Inv constraint bc pos d) (hc : d.ctxt = some c)
    (hp : pos ≥ d.curEnd) : Inv constraint bc pos (closeCtxt d c) ∧ mu bc pos (closeCtxt d c) + 1 ≤ mu bc pos d := by
  have ho := hi.opn c hc
  have hpl := hi.posLe
  have hcons : constraint = true := by
    cases constraint with
    | true => rfl
    | false => have := hi.noCtxt rfl; rw [hc] at this; cases this
  unfold closeCtxt
  refine ⟨⟨hi.len, by simp only []; omega, by simp only []; omega, (fun h => by rw [hcons] at h; cases h), (fun c' h => by cases h), (fun _ => ho.2),
    (fun _ => rfl), (fun h => by cases h), (fun h => by cases h), hi.refs, (fun h => by rw [hcons] at h; cases h), hi.cnt,
    ⟨(fun _ => by simp only [List.length_append, List.length_cons]; have := hi.ilen.2 c hc; omega), (fun c' h => by cases h)⟩⟩, ?_⟩
  unfold mu
  simp only [hc, Option.isSome_some, if_true, Option.isSome_none, Bool.false_eq_true, if_false]
  omega

theorem closeCtxt_allOK (l : Limits) (d : Dec) (c : OpenCtxt) (hc : d.ctxt = some c) (h : AllOK l d) : AllOK l (closeCtxt d c) := by
  unfold closeCtxt
  refine ⟨fun i hi => ?_, fun c' hc' => by cases hc'⟩
  simp only [] at hi
  rcases List.mem_append.mp hi with hi | hi
  · exact h.1 i hi
  · rcases List.mem_cons.mp hi with rfl | hi
    · exact operandsOK_other l _ _ (Or.inl rfl)
    · exact h.2 c hc i hi

/-- what `decoder::load` has established when it returns true -/
structure Done (constraint : Bool) (bc : List Nat) (d : Dec) : Prop where
  len : d.ctxs.length = 256
  refs : nRef d.ctxs ≤ d.dataSize
  consumed : constraint = false → d.count + d.dataSize = bc.length
  cnt : d.count ≤ bc.length ∧ d.dataSize ≤ bc.length ∧ d.count + (d.dataSize + 7) / 8 ≤ bc.length
  ilen : d.instrs.length = d.count

/-- **`decoder::load`**: for every bytecode, no read outside it, no write outside `_contexts`, and the loop ends -/
theorem loop_ok (l : Limits) (constraint : Bool) (pt : Nat) (bc : List Nat) (hrl : constraint = false → l.ruleLength ≤ 254) :
    ∀ (fuel pos : Nat) (d : Dec), Inv constraint bc pos d → mu bc pos d + 1 ≤ fuel → AllOK l d →
      ∃ r, loop l constraint pt bc fuel pos d = .ok r ∧ ∀ d', r = .ok d' → Done constraint bc d' ∧ ∀ i ∈ d'.instrs, OperandsOK l i.1 i.2 := by
  intro fuel
  induction fuel with
  | zero => intro pos d _ h; omega
  | succ fuel ih =>
    intro pos d hi hm hall
    unfold loop
    by_cases hp : pos ≥ d.curEnd
    · rw [if_pos hp]
      cases hc : d.ctxt with
      | none =>
        simp only []
        refine ⟨_, rfl, fun d' h => ?_⟩
        cases h
        have htop := hi.top hc
        have hpl := hi.posLe
        exact ⟨⟨hi.len, hi.refs, fun h => by have := hi.consumed h; omega, by have := hi.cnt; omega, hi.ilen.1 hc⟩, hall.1⟩
      | some c =>
        simp only []
        obtain ⟨hi', hm'⟩ := closeCtxt_inv constraint bc pos d c hi hc hp
        exact ih pos _ hi' (by omega) (closeCtxt_allOK l d c hc hall)
    · rw [if_neg hp]
      obtain ⟨r, hr, hn⟩ := stepOp_ok l constraint pt bc pos d hrl hi (by omega)
      rw [hr]
      cases r with
      | error s => exact ⟨_, rfl, fun _ h => by cases h⟩
      | ok pd =>
        obtain ⟨pos', d'⟩ := pd
        simp only []
        obtain ⟨hi', hm', ha'⟩ := hn pos' d' rfl
        exact ih pos' d' hi' (by omega) (ha' hall)

theorem nRef_replicate (n : Nat) : nRef (List.replicate n ({} : Cx)) = 0 := by
  induction n with
  | zero => rfl
  | succ n ih => rw [List.replicate_succ, nRef_cons, ih]; rfl

theorem insertAt_length (is : List (Nat × List Nat)) (p : Nat) : (insertAt is p).length = is.length + 1 := by
  unfold insertAt
  simp only [List.length_append, List.length_cons, List.length_take, List.length_drop]
  omega

theorem foldl_insertAt_length (ts : List Nat) : ∀ (is : List (Nat × List Nat)), (ts.foldl insertAt is).length = is.length + ts.length := by
  induction ts with
  | nil => intro is; rfl
  | cons t rest ih => intro is; rw [List.foldl_cons, ih, insertAt_length, List.length_cons]; omega

theorem foldl_insertAt_ok (l : Limits) (ts : List Nat) : ∀ (is : List (Nat × List Nat)), (∀ i ∈ is, OperandsOK l i.1 i.2) →
    ∀ i ∈ ts.foldl insertAt is, OperandsOK l i.1 i.2 := by
  induction ts with
  | nil => intro is h; exact h
  | cons t rest ih =>
    intro is h
    rw [List.foldl_cons]
    refine ih _ (fun i hi => ?_)
    unfold insertAt at hi
    rcases List.mem_append.mp hi with hi | hi
    · exact h i (List.mem_of_mem_take hi)
    · rcases List.mem_cons.mp hi with rfl | hi
      · exact operandsOK_other l _ _ (Or.inr rfl)
      · exact h i (List.mem_of_mem_drop hi)

theorem filter_and_le (cs : List Cx) : (cs.filter fun c => c.referenced && c.changed).length ≤ nRef cs := by
  induction cs with
  | nil => simp [nRef]
  | cons c rest ih =>
    rw [nRef_cons, List.filter_cons]
    cases h1 : c.referenced <;> cases h2 : c.changed <;> simp <;> omega

theorem nRef_take (cs : List Cx) (n : Nat) : nRef (cs.take n) ≤ nRef cs := by
  induction cs generalizing n with
  | nil => simp [nRef]
  | cons c rest ih =>
    cases n with
    | zero => simp [nRef]
    | succ n => rw [List.take_succ_cons, nRef_cons, nRef_cons]; have := ih n; omega

theorem tempPositions_le (d : Dec) : (tempPositions d).length ≤ nRef d.ctxs := by
  unfold tempPositions
  simp only [List.length_map, List.length_zipIdx]
  exact Nat.le_trans (filter_and_le _) (nRef_take _ _)

/-- **the code loader is total and its buffers suffice** – for every bytecode, every set of limits (rule length at most 254 for
action code: `Pass::readRules` refuses rules longer than 63), both kinds of code and every pass type: `decoder::load`,
`validate_opcode`, `fetch_opcode`, `analyse_opcode`, `emit_opcode` read the bytecode only inside `[bytecode_begin, bytecode_end)`
and write `_contexts` only inside the array; and for a program that is accepted, the instructions – including the `TEMP_COPY`s
`apply_analysis` inserts by shifting the code up – fit the `bytecode_end - bytecode_begin` instruction slots in front of the data
area (each context that gets a `TEMP_COPY` was flagged `referenced` by an instruction that has a parameter byte, and in action
code every byte is either an instruction or a parameter), as do the parameter bytes the data area -/
theorem load_total (l : Limits) (constraint : Bool) (pt : Nat) (bc : List Nat) (hrl : constraint = false → l.ruleLength ≤ 254) :
    ∃ r, load l constraint pt bc = .ok r ∧ ∀ p, r = .ok (some p) →
      p.instrs.length ≤ bc.length ∧ p.dataSize ≤ bc.length ∧ (∀ i ∈ p.instrs, OperandsOK l i.1 i.2) ∧
      (constraint = true → p.instrs.length + (p.dataSize + 7) / 8 ≤ bc.length) := by
  unfold load
  simp only [bind, Except.bind, pure, Except.pure]
  have hi0 : Inv constraint bc 0 { outIndex := if constraint then 0 else l.preContext, outLength := if constraint then 1 else l.ruleLength, curEnd := bc.length } :=
    ⟨List.length_replicate, Nat.le_refl _, Nat.zero_le _, (fun _ => by show (-1 : Int) ≤ 0; omega), (fun c h => by cases h), (fun _ => rfl), (fun _ => rfl), (fun h => by cases h), (fun h => by cases h),
     (by show nRef (List.replicate 256 {}) ≤ 0; rw [nRef_replicate]; exact Nat.le_refl 0), (fun _ => rfl), ⟨Nat.le_refl _, Nat.le_refl _, (by show 0 + (0 + 7) / 8 ≤ 0; decide)⟩, ⟨(fun _ => rfl), (fun c h => by cases h)⟩⟩
  obtain ⟨r, hr, hd⟩ := loop_ok l constraint pt bc hrl (2 * bc.length + 2) 0 _ hi0 (by unfold mu; simp only [Option.isSome_none, Bool.false_eq_true, if_false]; omega)
    ⟨(fun i hi => by cases hi), (fun c hc => by cases hc)⟩
  rw [hr]
  cases r with
  | error s => exact ⟨_, rfl, fun _ h => by cases h⟩
  | ok d =>
    simp only []
    obtain ⟨hdone, hops⟩ := hd d rfl
    by_cases hc0 : d.count = 0
    · rw [if_pos hc0]; exact ⟨_, rfl, fun _ h => by cases h⟩
    rw [if_neg hc0]
    cases hh : d.instrs.head? with
    | none => exact ⟨_, rfl, fun _ h => by cases h⟩
    | some last =>
      simp only []
      by_cases hret : (!isReturn last.1) = true
      · rw [if_pos hret]; exact ⟨_, rfl, fun _ h => by cases h⟩
      rw [if_neg hret]
      refine ⟨_, rfl, fun p hp => ?_⟩
      simp only [Except.ok.injEq, Option.some.injEq] at hp
      subst hp
      simp only []
      rw [foldl_insertAt_length, List.length_reverse, hdone.ilen]
      refine ⟨?_, hdone.cnt.2.1, foldl_insertAt_ok l _ _ (fun i hi => hops i (List.mem_reverse.mp hi)), ?_⟩
      rotate_left
      · intro hc
        subst hc
        simp only [if_true, List.length_nil]
        have := hdone.cnt.2.2; omega
      cases constraint with
      | true => simp only [if_true, List.length_nil]; have := hdone.cnt.1; omega
      | false =>
        simp only [Bool.false_eq_true, if_false]
        have := tempPositions_le d
        have := hdone.refs
        have := hdone.consumed rfl
        omega

end GrVerif.CodeLoad
